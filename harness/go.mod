module verifharness

go 1.25.0

require github.com/shiwano/errdef v0.0.0

replace github.com/shiwano/errdef => /repo
