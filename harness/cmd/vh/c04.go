package main

import (
	"context"
	"encoding/json"
	"errors"
	"fmt"
	"log/slog"
	"reflect"
	"strings"

	"github.com/shiwano/errdef"
	"github.com/shiwano/errdef/resolver"
	"github.com/shiwano/errdef/unmarshaler"
)

func init() {
	register(&Prop{
		ID: "C04", Imports: "Base.Str Model.Core Model.Prog Check.C04", Module: "C04",
		Rule:      "history with a derived factory or context extension after an object was created, or an error created over earlier errors; distinct by Coq term",
		ShardSize: 40,
		Gen: func(r *Rng, tier string) []Case {
			n := 200
			if tier == "thorough" {
				n = 5000
			}
			var out []Case
			for i := 0; i < n; i++ {
				cfg := p1Cfg{MaxStmts: 6 + i*10/n, Keys: p1Keys, Trace: i%3 == 0, Presenters: i%4 == 0, Recover: true}
				out = append(out, runC04(genProgFields(r, cfg), r.U64()))
			}
			return out
		},
		Replay: func(d json.RawMessage) ([]Case, error) {
			var desc struct {
				Prog []PStmt `json:"prog"`
				Salt uint64  `json:"salt"`
			}
			if err := json.Unmarshal(d, &desc); err != nil {
				return nil, err
			}
			return []Case{runC04(desc.Prog, desc.Salt)}, nil
		},
	})
}

// snapshots: everything observable of an object, as one string

func snapFields(fs errdef.Fields) string {
	var b strings.Builder
	fmt.Fprintf(&b, "len=%d zero=%v [", fs.Len(), fs.IsZero())
	for k, v := range fs.All() {
		fmt.Fprintf(&b, "%d:%s=%s;", keyID(k), k.String(), reprOf(v.Value()))
	}
	b.WriteString("]")
	return b.String()
}

//go:noinline
func probeAtDepth(d errdef.Definition, n int) errdef.Error {
	if n > 0 {
		return probeAtDepth(d, n-1)
	}
	return d.New("probe").(errdef.Error)
}

func snapDef(f errdef.Factory) string {
	d := f.(errdef.Definition)
	// stack options are observable through a probe error only; creating it writes nothing shared.
	// The probe is made on a goroutine of its own, below a fixed chain of calls: the number of frames
	// left after StackSkip must not depend on how deep the caller of snapDef happens to be.
	ch := make(chan errdef.Error, 1)
	go func() { ch <- probeAtDepth(d, 8) }()
	probe := <-ch
	return fmt.Sprintf("kind=%q err=%q fields=%s probeStackLen(min 3)=%d", d.Kind(), d.Error(), snapFields(d.Fields()), min(3, probe.Stack().Len()))
}

var c04Probe = errdef.Define("probe", errdef.NoTrace())

func snapCtx(ctx any, w *world, i int) string {
	f := c04Probe.With(w.ctxs[i])
	return snapFields(f.(errdef.Definition).Fields())
}

func (w *world) snapErr(e error) (out string) {
	if e == nil {
		return "nil"
	}
	// an error value whose own Error method panics (a typed nil receiver handed to panic())
	// makes renderers panic; that is the value's doing - snapshot it as such
	defer func() {
		if p := recover(); p != nil {
			out = fmt.Sprintf("<rendering panicked: %v>", p)
		}
	}()
	var b strings.Builder
	fmt.Fprintf(&b, "%T msg=%q", e, e.Error())
	if de, ok := e.(errdef.Error); ok {
		fmt.Fprintf(&b, " kind=%q fields=%s frames=%v unwrap=[", de.Kind(), snapFields(de.Fields()), de.Stack().Frames())
		for _, c := range de.Unwrap() {
			fmt.Fprintf(&b, "%d,", w.idxOf(c))
		}
		b.WriteString("]")
		if c, ok := e.(interface{ Cause() error }); ok {
			fmt.Fprintf(&b, " cause=%d", w.idxOf(c.Cause()))
		}
		if _, isDef := e.(errdef.Definition); !isDef {
			if js, err := json.Marshal(de); err == nil {
				fmt.Fprintf(&b, " json=%s", js)
			} else {
				b.WriteString(" json=ERR")
			}
			fmt.Fprintf(&b, " plus=%q", maskAddrs(fmt.Sprintf("%+v", e)))
		}
	} else {
		switch u := e.(type) {
		case interface{ Unwrap() error }:
			fmt.Fprintf(&b, " unwrap1=%d", w.idxOf(u.Unwrap()))
		case interface{ Unwrap() []error }:
			b.WriteString(" unwrapN=[")
			for _, c := range u.Unwrap() {
				fmt.Fprintf(&b, "%d,", w.idxOf(c))
			}
			b.WriteString("]")
		}
	}
	return b.String()
}

func sameSlice[T any](a, b []T) bool {
	if len(a) != len(b) {
		return false
	}
	for i := range a {
		if !reflect.DeepEqual(any(a[i]), any(b[i])) {
			// options and errors are pointers: identity
			if fmt.Sprintf("%p", any(a[i])) != fmt.Sprintf("%p", any(b[i])) || reflect.TypeOf(any(a[i])) != reflect.TypeOf(any(b[i])) {
				return false
			}
		}
	}
	return true
}

func runC04(p []PStmt, salt uint64) Case {
	w := newWorld()
	r := NewRng(int64(salt))
	var defSnap, ctxSnap, errSnap []string
	var steps []string // per step: (unchanged?, callers_unwritten?, later_mutation_harmless?)
	var notes []string
	nontrivial := false
	details := errdef.Details{"k": 1}
	check := func(stepName string) (bool, string) {
		for i := range defSnap {
			if s := snapDef(w.defs[i]); s != defSnap[i] {
				return false, fmt.Sprintf("after %s definition/factory %d changed: %s -> %s", stepName, i, defSnap[i], s)
			}
		}
		for i := range ctxSnap {
			if s := snapCtx(nil, w, i); s != ctxSnap[i] {
				return false, fmt.Sprintf("after %s context %d changed: %s -> %s", stepName, i, ctxSnap[i], s)
			}
		}
		for i := range errSnap {
			if s := w.snapErr(w.errs[i]); s != errSnap[i] {
				return false, fmt.Sprintf("after %s error %d changed: %s -> %s", stepName, i, errSnap[i], s)
			}
		}
		return true, ""
	}
	for i, s := range p {
		nd, nc, ne := len(w.defs), len(w.ctxs), len(w.errs)
		w.lastOpts, w.lastArgs, w.lastCauses = nil, nil, nil
		w.optsCopy, w.argsCopy, w.causesCopy = nil, nil, nil
		if pv := w.exec(s); pv != nil {
			notes = append(notes, fmt.Sprintf("stmt %d panicked: %v", i, pv))
		}
		// 1. nothing observable before the call changed
		unchanged, why := check(fmt.Sprintf("stmt %d (%s)", i, s.T))
		if !unchanged {
			notes = append(notes, why)
		}
		// 2. the library did not write into the caller's slices (whole capacity)
		unwritten := sameSlice(fullCap(w.lastOpts), w.optsCopy) && sameSlice(fullCap(w.lastArgs), w.argsCopy) && sameSlice(fullCap(w.lastCauses), w.causesCopy)
		if !unwritten {
			notes = append(notes, fmt.Sprintf("stmt %d (%s) wrote into a caller-owned slice", i, s.T))
		}
		// snapshot of the new object, taken now
		for j := nd; j < len(w.defs); j++ {
			defSnap = append(defSnap, snapDef(w.defs[j]))
		}
		for j := nc; j < len(w.ctxs); j++ {
			ctxSnap = append(ctxSnap, snapCtx(nil, w, j))
		}
		for j := ne; j < len(w.errs); j++ {
			errSnap = append(errSnap, w.snapErr(w.errs[j]))
		}
		// 3. later mutation of what was handed in is harmless
		for k := range w.lastOpts {
			w.lastOpts[k] = errdef.TraceID("MUTATED")
		}
		for k := range w.lastArgs {
			w.lastArgs[k] = "MUTATED"
		}
		for k := range w.lastCauses {
			w.lastCauses[k] = errors.New("MUTATED")
		}
		harmless, why2 := check(fmt.Sprintf("mutating the slices handed to stmt %d (%s)", i, s.T))
		if !harmless {
			notes = append(notes, why2)
		}
		// 4. inspecting, formatting, logging, marshaling earlier errors changes nothing
		if ne > 0 && r.Chance(1, 2) {
			e := w.errs[r.Intn(ne)]
			if e != nil {
				func() {
					defer func() { _ = recover() }()
					_ = fmt.Sprintf("%+v %#v %q", e, e, e)
					_, _ = json.Marshal(e)
					_ = slog.AnyValue(e).Resolve()
					if de, ok := e.(errdef.Error); ok {
						_ = de.UnwrapTree().HasCycle()
						for range de.Fields().All() {
						}
						_ = de.Stack().Frames()
					}
					if ds, ok := e.(errdef.DebugStacker); ok {
						_ = ds.DebugStack()
					}
				}()
				ok4, why4 := check(fmt.Sprintf("rendering an earlier error after stmt %d", i))
				if !ok4 {
					unchanged = false
					notes = append(notes, why4)
				}
			}
		}
		if nd > 0 || ne > 0 {
			nontrivial = true
		}
		steps = append(steps, fmt.Sprintf("(%s, %s, %s)", cBool(unchanged), cBool(unwritten), cBool(harmless)))
	}
	// Details: the map is cloned when the option is applied; later mutation must not show
	dd := errdef.Define("with-details", errdef.NoTrace(), details)
	before := snapDef(dd)
	details["k"] = 2
	details["added"] = true
	detailsOK := snapDef(dd) == before
	if !detailsOK {
		notes = append(notes, "mutating a Details map after Define changed the definition")
	}
	// ... also when the map is empty (but not nil) at the time it is handed in, and when it is
	// handed to a derived factory / a context
	empty := errdef.Details{}
	de := errdef.Define("with-empty-details", errdef.NoTrace(), empty)
	viaWith := c04Probe.WithOptions(errdef.Details{})
	ctxDetails := errdef.Details{}
	viaCtx := c04Probe.With(errdef.ContextWithOptions(context.Background(), ctxDetails))
	beforeE, beforeW, beforeC := snapDef(de), snapDef(viaWith), snapDef(viaCtx)
	errE := w.snapErr(de.New("e"))
	empty["added"] = 1
	ctxDetails["added"] = 2
	if snapDef(de) != beforeE || snapDef(viaWith) != beforeW || snapDef(viaCtx) != beforeC || w.snapErr(de.New("e")) != errE {
		detailsOK = false
		notes = append(notes, "adding to an (empty) Details map after it was handed in changed a definition")
	}
	// ... and Details applied by a DERIVED factory (WithOptions, With + context options, before and after a typed
	// field option) stays in that factory: the definition it was derived from, and errors made earlier, keep
	// their fields
	for i, f := range w.defs {
		if i >= 4 {
			break
		}
		base, ok := f.(errdef.Definition)
		if !ok {
			continue
		}
		earlier := base.New("earlier")
		beforeB, beforeErr := snapDef(base), w.snapErr(earlier)
		d1 := base.WithOptions(errdef.Details{"leak": i})
		d2 := base.With(errdef.ContextWithOptions(context.Background(), errdef.Details{"ctxleak": i}), errdef.HTTPStatus(500+i))
		d3 := base.WithOptions(errdef.HTTPStatus(400), errdef.Details{"late": i})
		got1, ok1 := errdef.DetailsFrom(d1.New("x"))
		got2, ok2 := errdef.DetailsFrom(d2.New("x"))
		got3, ok3 := errdef.DetailsFrom(d3.New("x"))
		if !ok1 || !ok2 || !ok3 || got1["leak"] != i || got2["ctxleak"] != i || got3["late"] != i {
			detailsOK = false
			notes = append(notes, "Details given to a derived factory are missing from its errors")
		}
		if snapDef(base) != beforeB || w.snapErr(earlier) != beforeErr {
			detailsOK = false
			notes = append(notes, fmt.Sprintf("Details applied by a factory derived from definition %d changed that definition or an earlier error", i))
		}
	}
	// resolver.New: the definition list is caller-owned (duplicates force a compaction)
	resolverOK := true
	if len(w.defs) > 0 {
		var list []errdef.Definition
		for _, f := range w.defs {
			d := f.(errdef.Definition)
			list = append(list, d, d) // adjacent duplicates
		}
		list = append(make([]errdef.Definition, 0, len(list)+2), list...)
		cp := append([]errdef.Definition(nil), fullCap(list)...)
		res := resolver.New(list...)
		resolverOK = sameSlice(fullCap(list), cp)
		if !resolverOK {
			notes = append(notes, "resolver.New wrote into the caller's definition slice")
		}
		// later mutation of the caller's slice must not change the resolver
		k0 := list[0].Kind()
		d0, _ := res.ResolveKind(k0)
		for k := range list {
			list[k] = c04Probe
		}
		d1, _ := res.ResolveKind(k0)
		f0, ok0 := res.ResolveFieldFunc(keyPool[0].Key, func(errdef.FieldValue) bool { return true })
		_ = f0
		_ = ok0
		if d0 != d1 {
			resolverOK = false
			notes = append(notes, "mutating the slice given to resolver.New changed ResolveKind")
		}
		// ResolveFieldFunc scans the retained slice: it must still see the original definitions
		var want errdef.Definition
		for _, f := range w.defs {
			d := f.(errdef.Definition)
			if _, ok := d.Fields().Get(keyPool[0].Key); ok {
				want = d
				break
			}
		}
		got, _ := res.ResolveFieldFunc(keyPool[0].Key, func(errdef.FieldValue) bool { return true })
		if got != want {
			resolverOK = false
			notes = append(notes, "mutating the slice given to resolver.New changed ResolveFieldFunc")
		}
	}
	// restored errors are errors too: the JSON round trip of every errdef error of the history
	// through a resolver whose definitions carry no fields (so every field arrives as an unknown,
	// convertible field), then every kind of inspection - typed extractors through the original
	// keys, Fields().Get, FindKeys, renderers - must leave the restored error as it was
	restoredOK := true
	c04Default := errdef.Define("c04-default", errdef.NoTrace())
	for i, e := range w.errs {
		de, ok := e.(errdef.Error)
		if !ok || e == nil {
			continue
		}
		if _, isDef := e.(errdef.Definition); isDef {
			continue
		}
		func() {
			defer func() { _ = recover() }()
			b, err := json.Marshal(de)
			if err != nil {
				return
			}
			r, err := unmarshaler.NewJSON(resolver.New().WithDefault(c04Default)).Unmarshal(b)
			if err != nil {
				return
			}
			s0 := w.snapErr(r)
			inspectRestored(r, 0)
			if s1 := w.snapErr(r); s1 != s0 {
				restoredOK = false
				notes = append(notes, fmt.Sprintf("inspecting the restored copy of error %d changed it: %s -> %s", i, s0, s1))
			}
		}()
	}
	coq := fmt.Sprintf("{| c_prog := %s; c_steps := %s; c_details := %s; c_resolver := %s; c_restored := %s |}", w.coqProg(), cList(steps), cBool(detailsOK), cBool(resolverOK), cBool(restoredOK))
	o := fmt.Sprintf("%d steps", len(steps))
	if len(notes) > 0 {
		o += "; " + strings.Join(notes, "; ")
		if len(o) > 1500 {
			o = o[:1500]
		}
	}
	desc := mustJSON(struct {
		Prog []PStmt `json:"prog"`
		Salt uint64  `json:"salt"`
	}{p, salt})
	return Case{Coq: strings.ReplaceAll(coq, "\n", " "), Desc: desc, Size: len(p),
		Nontrivial: nontrivial, Class: fmt.Sprintf("stmts=%d", len(p)/4*4), Summary: progSummary(p), Observed: o}
}
