package main

// C11: typed field binding is value-preserving or declined.
// Enumeration of (target field type, decoded value) pairs at every range
// boundary; each pair is unmarshaled by the real library through a pass-through
// decoder (and, for a subset, through JSON text) and the bound typed value or the
// unknown-field entry is read back.

import (
	"encoding/json"
	"fmt"
	"math"
	"math/big"
	"reflect"
	"sort"
	"strconv"
	"strings"

	"github.com/shiwano/errdef"
	"github.com/shiwano/errdef/resolver"
	"github.com/shiwano/errdef/unmarshaler"
)

type (
	C11Bool   bool
	C11Str    string
	C11Int    int
	C11Int8   int8
	C11Int16  int16
	C11Int32  int32
	C11Int64  int64
	C11Uint   uint
	C11Uint8  uint8
	C11Uint16 uint16
	C11Uint32 uint32
	C11Uint64 uint64
	C11F32    float32
	C11F64    float64
)

// c11Type is one scalar Go type known to the harness (plain or derived).
type c11Type struct {
	ID   int // plain: the ids of values.go (float64 = 13, int64 = 6); derived: 200 + plain id
	Kind string
	RT   reflect.Type
}

func (t c11Type) coq() string { return fmt.Sprintf("(st %s %s)", cN(t.ID), t.Kind) }

// c11Target is one DefineField[T] with a definition carrying it.
type c11Target struct {
	Name  string
	Shape string // plain, named, ptr, ptrnamed, any
	Elem  int    // index into c11Types (-1 for any)
	ID    int    // type id of the field type
	Coq   string // fty term
	Key   errdef.FieldKey
	Def   errdef.Definition
	Ext   func(err error) (any, bool)
}

var (
	c11Types   []c11Type
	c11TypeOf  = map[reflect.Type]int{}
	c11Targets []c11Target
)

const c11Field = "f"

// a key of the same name whose type accepts no scalar and no nil
type c11Decoy struct{ X chan int }

var (
	c11DecoyCtor, _ = errdef.DefineField[c11Decoy](c11Field)
	c11DecoyKey     = c11DecoyCtor.Key()
	c11DecoyDef     = errdef.Define("c11", c11DecoyCtor(c11Decoy{}))
	c11BareDef      = errdef.Define("c11")
)

func c11AddType[T any](id int, kind string) int {
	rt := reflect.TypeFor[T]()
	c11Types = append(c11Types, c11Type{ID: id, Kind: kind, RT: rt})
	c11TypeOf[rt] = len(c11Types) - 1
	return len(c11Types) - 1
}

func c11AddTarget[T any](shape string, elem int) {
	ctor, ext := errdef.DefineField[T](c11Field)
	var zero T
	t := c11Target{Shape: shape, Elem: elem, Key: ctor.Key(), Def: errdef.Define("c11", ctor(zero)),
		Ext: func(err error) (any, bool) { v, ok := ext(err); return v, ok }}
	switch shape {
	case "any":
		t.ID, t.Coq, t.Name = 500, "(FIface 500%N)", "any"
	case "plain", "named":
		e := c11Types[elem]
		t.ID, t.Coq, t.Name = e.ID, "(FScalar "+e.coq()+")", e.RT.String()
	default:
		e := c11Types[elem]
		t.ID = e.ID + 300
		t.Coq, t.Name = fmt.Sprintf("(FPtr %s %s)", cN(t.ID), e.coq()), "*"+e.RT.String()
	}
	c11Targets = append(c11Targets, t)
}

func c11Family[P, N any](id int, kind string) {
	p := c11AddType[P](id, kind)
	n := c11AddType[N](200+id, kind)
	c11AddTarget[P]("plain", p)
	c11AddTarget[N]("named", n)
	c11AddTarget[*P]("ptr", p)
	c11AddTarget[*N]("ptrnamed", n)
}

func init() {
	c11Family[string, C11Str](tyString, "KString")
	c11Family[int, C11Int](tyInt, "KInt")
	c11Family[int8, C11Int8](tyInt8, "KInt8")
	c11Family[int16, C11Int16](tyInt16, "KInt16")
	c11Family[int32, C11Int32](tyInt32, "KInt32")
	c11Family[int64, C11Int64](tyInt64, "KInt64")
	c11Family[uint, C11Uint](tyUint, "KUint")
	c11Family[uint8, C11Uint8](tyUint8, "KUint8")
	c11Family[uint16, C11Uint16](tyUint16, "KUint16")
	c11Family[uint32, C11Uint32](tyUint32, "KUint32")
	c11Family[uint64, C11Uint64](tyUint64, "KUint64")
	c11Family[float32, C11F32](tyFloat32, "KFloat32")
	c11Family[float64, C11F64](tyFloat64, "KFloat64")
	c11Family[bool, C11Bool](tyBool, "KBool")
	c11AddTarget[any]("any", -1)

	register(&Prop{
		ID: "C11", Imports: "Base.Str Model.Convert Check.C11", Module: "C11",
		Rule:      "the pair reaches a numeric conversion (float64/int64 source, integer or float target of another type) or a same-kind derived/pointer conversion; distinct by Coq term",
		ShardSize: 400,
		Gen:       genC11,
		Replay: func(d json.RawMessage) ([]Case, error) {
			var desc c11Desc
			if err := json.Unmarshal(d, &desc); err != nil {
				return nil, err
			}
			return []Case{runC11(desc)}, nil
		},
	})
}

// c11Desc is the input of one case: target, source type and payload.
type c11Desc struct {
	T    int    // index into c11Targets
	S    int    // index into c11Types; -1 = nil
	Bits uint64 // float64/float32 bit pattern, two's complement of a signed integer, unsigned value, bool in bit 0
	Str  string
	JSON bool // through unmarshaler.NewJSON with JSON text (float64, string, bool sources only)
}

// ---------- source values ----------

func c11Value(d c11Desc) any {
	if d.S < 0 {
		return nil
	}
	t := c11Types[d.S]
	v := reflect.New(t.RT).Elem()
	switch t.RT.Kind() {
	case reflect.String:
		v.SetString(d.Str)
	case reflect.Bool:
		v.SetBool(d.Bits&1 == 1)
	case reflect.Int, reflect.Int8, reflect.Int16, reflect.Int32, reflect.Int64:
		v.SetInt(int64(d.Bits)) // truncated to the width by reflect
	case reflect.Uint, reflect.Uint8, reflect.Uint16, reflect.Uint32, reflect.Uint64:
		v.SetUint(d.Bits)
	case reflect.Float32: // exact bits: no float conversion may quiet a signalling NaN
		p := reflect.New(t.RT)
		*(*uint32)(p.UnsafePointer()) = uint32(d.Bits)
		return p.Elem().Interface()
	case reflect.Float64:
		p := reflect.New(t.RT)
		*(*uint64)(p.UnsafePointer()) = d.Bits
		return p.Elem().Interface()
	}
	return v.Interface()
}

// c11Scalar projects a scalar Go value: (type index, Coq sval, text); NaNs are canonicalised.
func c11Scalar(v reflect.Value, raw bool) (int, string, string, bool) {
	ti, ok := c11TypeOf[v.Type()]
	if !ok {
		return 0, "", "", false
	}
	switch v.Kind() {
	case reflect.String:
		return ti, "(SStr " + cStr(v.String()) + ")", fmt.Sprintf("%q", v.String()), true
	case reflect.Bool:
		return ti, "(SBool " + cBool(v.Bool()) + ")", fmt.Sprint(v.Bool()), true
	case reflect.Int, reflect.Int8, reflect.Int16, reflect.Int32, reflect.Int64:
		return ti, "(SInt " + cZ(v.Int()) + ")", fmt.Sprint(v.Int()), true
	case reflect.Uint, reflect.Uint8, reflect.Uint16, reflect.Uint32, reflect.Uint64:
		return ti, "(SInt " + cZu(v.Uint()) + ")", fmt.Sprint(v.Uint()), true
	case reflect.Float32:
		b := c11FloatBits(v)
		f := math.Float32frombits(uint32(b))
		if f != f && !raw {
			b = 0x7FC00000
		}
		return ti, "(SF32 " + cZu(b) + ")", fmt.Sprintf("%v (0x%08x)", f, b), true
	case reflect.Float64:
		b := c11FloatBits(v)
		f := math.Float64frombits(b)
		if f != f && !raw {
			b = 0x7FF8000000000000
		}
		return ti, "(SF64 " + cZu(b) + ")", fmt.Sprintf("%v (0x%016x)", f, b), true
	}
	return 0, "", "", false
}

// c11FloatBits reads the exact bit pattern of a float32/float64-kinded value.
func c11FloatBits(v reflect.Value) uint64 {
	p := reflect.New(v.Type())
	p.Elem().Set(v)
	if v.Kind() == reflect.Float32 {
		return uint64(*(*uint32)(p.UnsafePointer()))
	}
	return *(*uint64)(p.UnsafePointer())
}

// c11Dval prints a decoded value (nil or scalar) as a Coq dval; raw = keep the NaN payload (inputs).
func c11Dval(x any, raw bool) (string, string, bool) {
	if x == nil {
		return "DNil", "nil", true
	}
	v := reflect.ValueOf(x)
	ti, sv, txt, ok := c11Scalar(v, raw)
	if !ok {
		return "", fmt.Sprintf("%T", x), false
	}
	t := c11Types[ti]
	return fmt.Sprintf("(DS %s %s)", t.coq(), sv), t.RT.String() + "(" + txt + ")", true
}

// c11Tval prints a typed value read back from the error.
func c11Tval(x any) (string, string, bool) {
	if x == nil {
		return "", "nil", false
	}
	v := reflect.ValueOf(x)
	if v.Kind() == reflect.Pointer {
		if v.IsNil() {
			return "", fmt.Sprintf("(%T)(nil)", x), false
		}
		ti, sv, txt, ok := c11Scalar(v.Elem(), false)
		if !ok {
			return "", fmt.Sprintf("%T", x), false
		}
		t := c11Types[ti]
		return fmt.Sprintf("(TP %s %s %s)", cN(t.ID+300), t.coq(), sv), "&" + t.RT.String() + "(" + txt + ")", true
	}
	ti, sv, txt, ok := c11Scalar(v, false)
	if !ok {
		return "", fmt.Sprintf("%T", x), false
	}
	t := c11Types[ti]
	return fmt.Sprintf("(TV %s %s)", t.coq(), sv), t.RT.String() + "(" + txt + ")", true
}

func c11JSONText(x any) (string, bool) {
	switch v := x.(type) {
	case float64:
		if math.IsNaN(v) || math.IsInf(v, 0) {
			return "", false
		}
		return strconv.FormatFloat(v, 'g', -1, 64), true
	case string, bool:
		b, err := json.Marshal(v)
		return string(b), err == nil
	}
	return "", false
}

// ---------- one case ----------

// keys of the checked field's name with other types than the target's
var c11Probes = func() []errdef.FieldKey {
	a, _ := errdef.DefineField[int64](c11Field)
	b, _ := errdef.DefineField[float64](c11Field)
	c, _ := errdef.DefineField[uint64](c11Field)
	d, _ := errdef.DefineField[string](c11Field)
	e, _ := errdef.DefineField[any](c11Field)
	f, _ := errdef.DefineField[float32](c11Field)
	g, _ := errdef.DefineField[bool](c11Field)
	h, _ := errdef.DefineField[*int](c11Field)
	return []errdef.FieldKey{a.Key(), b.Key(), c.Key(), d.Key(), e.Key(), f.Key(), g.Key(), h.Key()}
}()

// c11State: what a restored error shows of its fields
func c11State(ue unmarshaler.UnmarshaledError, key errdef.FieldKey) string {
	var b strings.Builder
	fmt.Fprintf(&b, "len=%d unknown=[", ue.Fields().Len())
	var us []string
	for k, v := range ue.UnknownFields() {
		us = append(us, fmt.Sprintf("%s:%T(%v)", k, v, v))
	}
	sort.Strings(us)
	b.WriteString(strings.Join(us, ","))
	b.WriteString("] all=[")
	for k, v := range ue.Fields().All() {
		fmt.Fprintf(&b, "%s:%T(%v),", k.String(), v.Value(), v.Value())
	}
	b.WriteString("]")
	if v, ok := ue.Fields().Get(key); ok {
		fmt.Fprintf(&b, " get=%T(%v)", v.Value(), v.Value())
	}
	return b.String()
}

func runC11(d c11Desc) Case {
	if d.T < 0 || d.T >= len(c11Targets) || d.S >= len(c11Types) {
		d = c11Desc{T: 0, S: -1}
	}
	tgt := c11Targets[d.T]
	val := c11Value(d)
	srcCoq, srcTxt, _ := c11Dval(val, true)

	observe := func(variant int) (obs, obsTxt string) {
		obs, obsTxt = "OWeird", "?"
		phase := "Unmarshal"
		defer func() {
			if p := recover(); p != nil {
				if phase == "Unmarshal" {
					obs, obsTxt = "OPanicked", fmt.Sprintf("Unmarshal panicked: %v", p)
				} else {
					obs, obsTxt = "OWeird", fmt.Sprintf("%s panicked: %v", phase, p)
				}
			}
		}()
		res := resolver.New(tgt.Def)
		var opts []unmarshaler.Option
		switch variant {
		case 1: // the definition carries no key; custom keys: a declining key of the same name, then the target
			res = resolver.New(c11BareDef)
			opts = []unmarshaler.Option{unmarshaler.WithCustomFields(c11DecoyKey, tgt.Key)}
		case 2: // the definition carries the declining key; the target is a custom key
			res = resolver.New(c11DecoyDef)
			opts = []unmarshaler.Option{unmarshaler.WithCustomFields(tgt.Key)}
		}
		var ue unmarshaler.UnmarshaledError
		var err error
		if d.JSON {
			txt, ok := c11JSONText(val)
			if !ok {
				obs, obsTxt = "OWeird", "value has no JSON text"
				return
			}
			doc := `{"message":"m","kind":"c11","fields":{"` + c11Field + `":` + txt + `}}`
			ue, err = unmarshaler.NewJSON(res, opts...).Unmarshal([]byte(doc))
		} else {
			pass := func(x *unmarshaler.DecodedData) (*unmarshaler.DecodedData, error) { return x, nil }
			ue, err = unmarshaler.New(res, pass, opts...).Unmarshal(&unmarshaler.DecodedData{
				Message: "m", Kind: "c11", Fields: map[string]any{c11Field: val}})
		}
		if err != nil {
			obs, obsTxt = "OFailed", "Unmarshal error: "+err.Error()
			return
		}
		phase = "reading back"
		ev, eok := tgt.Ext(ue)
		fv, fok := ue.Fields().Get(tgt.Key)
		unknown := map[string]any{}
		for k, v := range ue.UnknownFields() {
			unknown[k] = v
		}
		uv, inUnknown := unknown[c11Field]
		// lookups through OTHER keys of the same name (wider or unrelated types) are inspections:
		// afterwards the restored error must show what it showed before
		before := c11State(ue, tgt.Key)
		for _, pk := range c11Probes {
			func() {
				defer func() { _ = recover() }()
				_, _ = ue.Fields().Get(pk)
			}()
		}
		_, _ = tgt.Ext(ue)
		if after := c11State(ue, tgt.Key); after != before {
			obs, obsTxt = "OWeird", "typed lookups through other keys changed the restored error: "+before+" -> "+after
			return
		}
		switch {
		case eok != fok || len(unknown) > 1 || (len(unknown) == 1 && !inUnknown) || ue.Fields().Len() != 1:
			obs, obsTxt = "OWeird", fmt.Sprintf("extractor ok=%v, Fields().Get ok=%v, %d unknown fields, Len=%d", eok, fok, len(unknown), ue.Fields().Len())
		case fok && inUnknown:
			obs, obsTxt = "OWeird", "bound and also among the unknown fields"
		case fok:
			c1, t1, ok1 := c11Tval(fv.Value())
			c2, _, ok2 := c11Tval(ev)
			if !ok1 || !ok2 || c1 != c2 {
				obs, obsTxt = "OWeird", fmt.Sprintf("bound %s, extractor and Fields().Get differ or are not scalars", t1)
				return
			}
			obs, obsTxt = "OBound "+c1, "bound "+t1
		case inUnknown:
			c, t, ok := c11Dval(uv, false)
			if !ok {
				obs, obsTxt = "OWeird", "unknown field of type "+t
				return
			}
			obs, obsTxt = "ODeclined (Some "+c+")", "declined, unknown field "+t
		default:
			obs, obsTxt = "ODeclined None", "declined and lost"
		}
		return
	}
	obs, obsTxt := observe(0)
	// the same pair with the target reached as a CUSTOM key behind a same-named key that declines
	// every value (first among the custom keys / on the definition): the binding must be the same
	if !strings.HasPrefix(obs, "OWeird") {
		for _, variant := range []int{1, 2} {
			if o2, t2 := observe(variant); o2 != obs {
				obs, obsTxt = "OWeird", fmt.Sprintf("as a custom key (variant %d) the outcome is %q, as a definition key %q", variant, t2, obsTxt)
				break
			}
		}
	}

	// classification
	srcName, srcKind := "nil", ""
	numericSrc := false
	if d.S >= 0 {
		st := c11Types[d.S]
		srcName, srcKind = st.RT.String(), st.Kind
		numericSrc = st.ID == tyFloat64 || st.ID == tyInt64
	}
	tk, tid := "", tgt.ID
	if tgt.Elem >= 0 {
		tk = c11Types[tgt.Elem].Kind
	}
	numericTgt := tk != "" && tk != "KString" && tk != "KBool"
	nontrivial := d.S >= 0 && c11Types[d.S].ID != tid &&
		((numericSrc && numericTgt && (tgt.Shape == "plain" || tgt.Shape == "named")) || srcKind == tk)
	var tags []string
	if d.S >= 0 && c11Types[d.S].ID == tyFloat64 && (tgt.Shape == "plain" || tgt.Shape == "named") {
		f := math.Float64frombits(d.Bits)
		if (f == 0x1p63 && (tk == "KInt" || tk == "KInt64")) || (f == 0x1p64 && (tk == "KUint" || tk == "KUint64")) {
			tags = []string{"f64-int64-boundary-2^63-or-2^64"}
		}
	}
	via := ""
	if d.JSON {
		via = " via JSON"
	}
	return Case{
		Coq:  fmt.Sprintf("{| c_target := %s; c_src := %s; c_obs := %s |}", tgt.Coq, srcCoq, obs),
		Desc: mustJSON(d), Tags: tags, Size: 1, Nontrivial: nontrivial,
		Class:    fmt.Sprintf("%s->%s/%s", srcName, tk, tgt.Shape),
		Summary:  fmt.Sprintf("field type %s <- %s%s", tgt.Name, srcTxt, via),
		Observed: obsTxt,
	}
}

// ---------- enumeration ----------

func c11TypeIdx(id int) int {
	for i, t := range c11Types {
		if t.ID == id {
			return i
		}
	}
	panic("c11: unknown type id")
}

func c11Pow2(n uint) *big.Int { return new(big.Int).Lsh(big.NewInt(1), n) }

// c11Ints: {min, max of every kind, 0, 2^24, 2^53, 2^63, 2^64} +- {0, 1, 2}
func c11Ints() []*big.Int {
	var base []*big.Int
	for _, n := range []uint{7, 15, 31, 63} {
		base = append(base, new(big.Int).Neg(c11Pow2(n)), new(big.Int).Sub(c11Pow2(n), big.NewInt(1)))
	}
	for _, n := range []uint{8, 16, 32, 64} {
		base = append(base, new(big.Int).Sub(c11Pow2(n), big.NewInt(1)))
	}
	base = append(base, big.NewInt(0), c11Pow2(24), c11Pow2(53), c11Pow2(63), c11Pow2(64),
		new(big.Int).Neg(c11Pow2(24)), new(big.Int).Neg(c11Pow2(53)), new(big.Int).Neg(c11Pow2(64)))
	var out []*big.Int
	for _, b := range base {
		for d := int64(-2); d <= 2; d++ {
			out = append(out, new(big.Int).Add(b, big.NewInt(d)))
		}
	}
	return out
}

func c11Floats() []uint64 {
	seen := map[uint64]bool{}
	var out []uint64
	add := func(f float64) {
		b := math.Float64bits(f)
		if !seen[b] {
			seen[b] = true
			out = append(out, b)
		}
	}
	add3 := func(f float64) {
		add(f)
		add(math.Nextafter(f, math.Inf(1)))
		add(math.Nextafter(f, math.Inf(-1)))
	}
	for _, z := range c11Ints() {
		f, _ := new(big.Float).SetInt(z).Float64()
		add3(f)
	}
	// fractions
	for _, f := range []float64{0.5, -0.5, 1.5, -1.5, 0.1, 127.5, -128.5, 255.5, 1e-300, 0.9999999999999999,
		4503599627370496.5, 4503599627370495.5, -4503599627370496.5, 9007199254740991, 3.14, 1e19, 1e20, -1e19, 1e38, 1e39, 1e300, -1e300} {
		add(f)
	}
	// signed zero, NaNs (quiet, signalling, negative, payload), infinities
	add(math.Copysign(0, -1))
	for _, b := range []uint64{0x7FF8000000000000, 0x7FF0000000000001, 0xFFF8000000000000, 0x7FFFFFFFFFFFFFFF, 0x7FF4000000000123} {
		seen[b] = true
		out = append(out, b)
	}
	add(math.Inf(1))
	add(math.Inf(-1))
	// float64 subnormals and the smallest normal
	add3(5e-324)
	add3(-5e-324)
	add3(0x1p-1022)
	add(0x0.fffffffffffffp-1022)
	// float32: MaxFloat32 and neighbours, the midpoint to 2^128, 2^128; subnormal range; ties
	for _, s := range []float64{1, -1} {
		add3(s * math.MaxFloat32)
		add3(s * (0x1p128 - 0x1p103))
		add3(s * 0x1p128)
		add3(s * 0x1p-149)
		add3(s * 0x1p-150)   // tie between 0 and the smallest subnormal: to 0
		add3(s * 0x1.8p-149) // tie between 1 and 2 ulps: to 2
		add3(s * 0x1.8p-148) // 3 ulps exactly
		add3(s * 0x1p-126)
		add3(s * (0x1p-126 - 0x1p-149)) // largest float32 subnormal
		add3(s * (0x1p-126 - 0x1p-150)) // tie at the normal boundary
		add3(s * (1 + 0x1p-24))         // tie to even: 1
		add3(s * (1 + 0x3p-24))         // tie to even: 1 + 2^-22
		add3(s * (2 - 0x1p-24))         // tie rounding up into the next binade
		add3(s * 16777217)
		add3(s * 16777219)
		add3(s * 0x1p-1000)
	}
	return out
}

func c11Int64s() []int64 {
	seen := map[int64]bool{}
	var out []int64
	add := func(z int64) {
		if !seen[z] {
			seen[z] = true
			out = append(out, z)
		}
	}
	for _, z := range c11Ints() {
		if z.IsInt64() {
			add(z.Int64())
		}
	}
	for _, z := range []int64{1, -1, 42, 16777217, 16777219, 33554434, 33554435, -16777217,
		0x7FFFFF8000000000, 0x7FFFFF8000000001, 0x7FFFFF7FFFFFFFFF, 0x7FFFFFC000000000, 0x7FFFFFBFFFFFFFFF,
		math.MaxInt64 - (1 << 38), -0x7FFFFF8000000000, math.MinInt64 + (1 << 38), math.MinInt64 + (1 << 39),
		1 << 62, (1 << 62) + 1, 9007199254740993, -9007199254740993, 0x7FFFFFFFFFFFFC00, 0x7FFFFFFFFFFFFDFF, 0x7FFFFFFFFFFFFE00} {
		add(z)
	}
	return out
}

// random float64 bit patterns, stratified over the exponent ranges that matter
func c11RandFloat(r *Rng) uint64 {
	var exp uint64
	switch r.Intn(8) {
	case 0:
		exp = uint64(r.Intn(2048))
	case 1:
		exp = uint64(1023 + r.Intn(66)) // integers up to 2^65
	case 2:
		exp = uint64(1023 + 120 + r.Intn(10)) // around MaxFloat32
	case 3:
		exp = uint64(1023 - 155 + r.Intn(32)) // float32 subnormal range
	case 4:
		exp = uint64(1023 + r.Intn(33))
	case 5:
		exp = uint64(1023 + 50 + r.Intn(15))
	case 6:
		exp = uint64(1023 - 30 + r.Intn(40))
	default:
		exp = uint64(1023 + r.Intn(9))
	}
	man := r.U64() & (1<<52 - 1)
	switch r.Intn(4) {
	case 0: // few significant bits: often integral / exactly a float32
		man &^= 1<<uint(r.Intn(53)) - 1
	case 1: // a float32 tie or near-tie
		man = man&^(1<<29-1) | 1<<28
		if r.Bool() {
			man += uint64(r.Intn(3)) - 1
		}
	}
	b := exp<<52 | man&(1<<52-1)
	if r.Bool() {
		b |= 1 << 63
	}
	return b
}

func c11RandInt(r *Rng) int64 {
	n := uint(r.Intn(65))
	var z uint64
	if n > 0 {
		z = r.U64() >> (64 - n)
	}
	switch r.Intn(3) {
	case 0: // at most 24 significant bits, then +-1
		if n > 24 {
			z &^= 1<<(n-24) - 1
		}
		z += uint64(r.Intn(3)) - 1
	case 1:
		if n > 53 {
			z &^= 1<<(n-53) - 1
		}
	}
	return int64(z)
}

func genC11(r *Rng, tier string) []Case {
	var descs []c11Desc
	f64, i64 := c11TypeIdx(tyFloat64), c11TypeIdx(tyInt64)
	floats, ints := c11Floats(), c11Int64s()
	anyT := len(c11Targets) - 1

	// 1. every boundary value x every scalar target (plain and derived); pointer targets and any: every 7th value
	for ti, t := range c11Targets {
		scalar := t.Shape == "plain" || t.Shape == "named"
		for i, b := range floats {
			if scalar || (i+ti)%7 == 0 {
				descs = append(descs, c11Desc{T: ti, S: f64, Bits: b})
			}
		}
		for i, z := range ints {
			if scalar || (i+ti)%7 == 0 {
				descs = append(descs, c11Desc{T: ti, S: i64, Bits: uint64(z)})
			}
		}
	}
	// 2. the same float64 values as JSON text, for every plain scalar target (and a third of the derived ones)
	for ti, t := range c11Targets {
		for i, b := range floats {
			f := math.Float64frombits(b)
			if math.IsNaN(f) || math.IsInf(f, 0) {
				continue
			}
			if t.Shape == "plain" && (tier == "thorough" || (i+ti)%3 == 0) || (t.Shape != "plain" && (i+ti)%11 == 0) {
				descs = append(descs, c11Desc{T: ti, S: f64, Bits: b, JSON: true})
			}
		}
	}
	// 3. string / bool / typed scalar sources: to the targets of the same kind (4 shapes), of the
	//    neighbouring kind, and to any
	payload := func(t c11Type, j int) c11Desc {
		switch t.Kind {
		case "KString":
			return c11Desc{Str: []string{"", "a", "x y\n\x00\xff"}[j%3]}
		case "KBool":
			return c11Desc{Bits: uint64(j % 2)}
		case "KFloat32":
			return c11Desc{Bits: []uint64{0x3FC00000, 0x7FC00001, 0x80000000, 0x7F7FFFFF}[j%4]}
		case "KFloat64":
			return c11Desc{Bits: []uint64{0x3FF8000000000000, 0x7FF0000000000001, 0x8000000000000000, 0x43E0000000000000}[j%4]}
		}
		return c11Desc{Bits: []uint64{1, 0x7F, 0, 100}[j%4]}
	}
	for si, s := range c11Types {
		for j := 0; j < 4; j++ {
			for ti, t := range c11Targets {
				rel := -1
				if t.Elem >= 0 {
					rel = (t.Elem/2 - si/2 + 14) % 14 // distance between the kind families
				}
				if rel == 0 || rel == 1 || (rel == 5 && j == 0) || ti == anyT {
					d := payload(s, j)
					d.T, d.S = ti, si
					descs = append(descs, d)
					if (s.ID == tyString || s.ID == tyBool) && j < 2 && rel == 0 {
						d.JSON = true
						descs = append(descs, d)
					}
				}
			}
		}
	}
	// 4. nil
	for ti := range c11Targets {
		descs = append(descs, c11Desc{T: ti, S: -1})
	}
	// 5. random bit patterns
	n := 2000
	if tier == "thorough" {
		n = 60000
	}
	for i := 0; i < n; i++ {
		ti := r.Intn(len(c11Targets))
		if r.Chance(5, 6) { // mostly numeric scalar targets
			ti = (1+r.Intn(12))*4 + r.Intn(2)
		}
		if r.Chance(3, 5) {
			descs = append(descs, c11Desc{T: ti, S: f64, Bits: c11RandFloat(r), JSON: false})
		} else {
			descs = append(descs, c11Desc{T: ti, S: i64, Bits: uint64(c11RandInt(r))})
		}
	}
	out := make([]Case, 0, len(descs))
	for _, d := range descs {
		out = append(out, runC11(d))
	}
	extraMeta["c11_float64_boundary_values"] = len(floats)
	extraMeta["c11_int64_boundary_values"] = len(ints)
	extraMeta["c11_targets"] = len(c11Targets)
	return out
}
