package main

import (
	"encoding/json"
	"fmt"
	"sort"
	"strings"

	"github.com/shiwano/errdef"
)

func init() {
	register(&Prop{
		ID: "C20", Imports: "Base.Str Model.Core Model.Prog Check.C20", Module: "C20",
		Rule:      "a fields collection with at least two entries, or one whose key was overwritten, or two keys of one name; distinct by Coq term",
		ShardSize: 40,
		Gen: func(r *Rng, tier string) []Case {
			n := 200
			if tier == "thorough" {
				n = 5000
			}
			var out []Case
			for i := 0; i < n; i++ {
				cfg := p1Cfg{MaxStmts: 5 + i*8/n, Keys: p1Keys}
				out = append(out, runC20(genProgFields(r, cfg)))
			}
			return out
		},
		Replay: func(d json.RawMessage) ([]Case, error) {
			var desc p1Desc
			if err := json.Unmarshal(d, &desc); err != nil {
				return nil, err
			}
			return []Case{runC20(desc.Prog)}, nil
		},
	})
}

var c20Names = []string{"s", "n", "b", "p", "any", "zz"}

func keyID(fk errdef.FieldKey) int {
	for _, ke := range keyPool {
		if ke.Key == fk {
			return ke.ID
		}
	}
	return 999
}

func observeFields(fs errdef.Fields) (string, int) {
	iter := func() string {
		var items []string
		for fk, fv := range fs.All() {
			items = append(items, fmt.Sprintf("(%s, %s)", cN(keyID(fk)), cStr(reprOf(fv.Value()))))
		}
		return cList(items)
	}
	var gets []string
	for _, ki := range p1Keys {
		fv, ok := fs.Get(keyPool[ki].Key)
		if ok {
			gets = append(gets, fmt.Sprintf("(true, %s)", cStr(reprOf(fv.Value()))))
		} else {
			gets = append(gets, "(false, \"\")")
		}
	}
	var finds []string
	for _, n := range c20Names {
		var ids []int
		for _, fk := range fs.FindKeys(n) {
			ids = append(ids, keyID(fk))
		}
		sort.Ints(ids)
		var cs []string
		for _, id := range ids {
			cs = append(cs, cN(id))
		}
		finds = append(finds, cList(cs))
	}
	return fmt.Sprintf("{| fo_len := %s; fo_zero := %s; fo_all := %s; fo_all2 := %s; fo_get := %s; fo_find := %s |}",
		cNat(fs.Len()), cBool(fs.IsZero()), iter(), iter(), cList(gets), cList(finds)), fs.Len()
}

func runC20(p []PStmt) Case {
	w := newWorld()
	panics := w.run(p)
	var obs []string
	maxLen := 0
	func() {
		defer func() {
			if pv := recover(); pv != nil {
				panics = append(panics, fmt.Sprintf("observer: %v", pv))
			}
		}()
		for i, d := range w.defs {
			o, l := observeFields(d.(errdef.Definition).Fields())
			obs = append(obs, fmt.Sprintf("(OfDef %s, %s)", cNat(i), o))
			maxLen = max(maxLen, l)
		}
		for i, e := range w.errs {
			if de, ok := e.(errdef.Error); ok {
				o, _ := observeFields(de.Fields())
				obs = append(obs, fmt.Sprintf("(OfErr %s, %s)", cNat(i), o))
			}
		}
	}()
	var keys, names []string
	for _, ki := range p1Keys {
		keys = append(keys, coqKey(keyPool[ki]))
	}
	for _, n := range c20Names {
		names = append(names, cStr(n))
	}
	coq := fmt.Sprintf("{| c_prog := %s; c_keys := %s; c_names := %s; c_obs := %s |}", w.coqProg(), cList(keys), cList(names), cList(obs))
	o := fmt.Sprintf("%d collections, largest %d", len(obs), maxLen)
	if len(panics) > 0 {
		o += fmt.Sprintf("; PANICS: %v", panics)
	}
	return Case{Coq: strings.ReplaceAll(coq, "\n", " "), Desc: mustJSON(p1Desc{Prog: p}), Size: len(p),
		Nontrivial: maxLen >= 2, Class: fmt.Sprintf("maxlen=%d", maxLen), Summary: progSummary(p), Observed: o}
}
