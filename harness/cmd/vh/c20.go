package main

import (
	"encoding/json"
	"fmt"
	"sort"
	"strings"

	"github.com/shiwano/errdef"
)

func init() {
	register(&Prop{
		ID: "C20", Imports: "Base.Str Model.Core Model.Prog Model.Convert Model.Unmarshal Check.UM Check.C20", Module: "C20",
		Rule:      "a fields collection with at least two entries, or one whose key was overwritten, or two keys of one name; distinct by Coq term",
		ShardSize: 40,
		Gen: func(r *Rng, tier string) []Case {
			n := 200
			if tier == "thorough" {
				n = 5000
			}
			var out []Case
			for i := 0; i < n; i++ {
				cfg := p1Cfg{MaxStmts: 5 + i*8/n, Keys: p1Keys}
				out = append(out, runC20(genProgFields(r, cfg)))
			}
			// restored fields: documents x configurations (accepted ones only)
			// corpus: two same-named keys that both accept the value
			if cs, ok := runC20Restored(UCase{Cfg: UCfg{Defs: []UDef{{Kind: "k1", Keys: []int{2, 39}}}, Reg: []int{0}},
				Doc: &UDoc{Msg: "m", Kind: "k1", Fields: map[string]int{"n": 7, "s": 1}}}); ok {
				out = append(out, cs)
			}
			for _, c := range umCorpusExtra() {
				if cs, ok := runC20Restored(c); ok {
					out = append(out, cs)
				}
			}
			nr := n / 2
			for i := 0; i < nr*3 && nr > 0; i++ {
				c := UCase{Cfg: genUCfg(r), Doc: genUDoc(r, 0)}
				c.Cfg.Strict = false
				if len(c.Cfg.Reg) > 0 {
					c.Doc.Kind = c.Cfg.Defs[Pick(r, c.Cfg.Reg)].Kind
				}
				for len(c.Doc.Fields) < 2+r.Intn(3) { // field-heavy documents
					if c.Doc.Fields == nil {
						c.Doc.Fields = map[string]int{}
					}
					name := Pick(r, umNames)
					c.Doc.Fields[name] = pickValueFor(r, name)
				}
				if cs, ok := runC20Restored(c); ok {
					out = append(out, cs)
					nr--
				}
			}
			return out
		},
		Replay: func(d json.RawMessage) ([]Case, error) {
			var desc struct {
				Prog []PStmt `json:"prog"`
				UM   *UCase  `json:"um"`
			}
			if err := json.Unmarshal(d, &desc); err != nil {
				return nil, err
			}
			if desc.UM != nil {
				cs, _ := runC20Restored(*desc.UM)
				return []Case{cs}, nil
			}
			return []Case{runC20(desc.Prog)}, nil
		},
	})
}

var c20Names = []string{"s", "n", "b", "p", "any", "zz"}

func keyID(fk errdef.FieldKey) int {
	for _, ke := range keyPool {
		if ke.Key == fk {
			return ke.ID
		}
	}
	return 999
}

func observeFields(fs errdef.Fields) (string, int) {
	iter := func() string {
		var items []string
		for fk, fv := range fs.All() {
			items = append(items, fmt.Sprintf("(%s, %s)", cN(keyID(fk)), cStr(reprOf(fv.Value()))))
		}
		return cList(items)
	}
	var gets []string
	for _, ki := range p1Keys {
		fv, ok := fs.Get(keyPool[ki].Key)
		if ok {
			gets = append(gets, fmt.Sprintf("(true, %s)", cStr(reprOf(fv.Value()))))
		} else {
			gets = append(gets, "(false, \"\")")
		}
	}
	var finds []string
	for _, n := range c20Names {
		var ids []int
		for _, fk := range fs.FindKeys(n) {
			ids = append(ids, keyID(fk))
		}
		sort.Ints(ids)
		var cs []string
		for _, id := range ids {
			cs = append(cs, cN(id))
		}
		finds = append(finds, cList(cs))
	}
	return fmt.Sprintf("{| fo_len := %s; fo_zero := %s; fo_all := %s; fo_all2 := %s; fo_get := %s; fo_find := %s |}",
		cNat(fs.Len()), cBool(fs.IsZero()), iter(), iter(), cList(gets), cList(finds)), fs.Len()
}

func runC20(p []PStmt) Case {
	w := newWorld()
	panics := w.run(p)
	var obs []string
	maxLen := 0
	func() {
		defer func() {
			if pv := recover(); pv != nil {
				panics = append(panics, fmt.Sprintf("observer: %v", pv))
			}
		}()
		for i, d := range w.defs {
			o, l := observeFields(d.(errdef.Definition).Fields())
			obs = append(obs, fmt.Sprintf("(OfDef %s, %s)", cNat(i), o))
			maxLen = max(maxLen, l)
		}
		for i, e := range w.errs {
			if de, ok := e.(errdef.Error); ok {
				o, _ := observeFields(de.Fields())
				obs = append(obs, fmt.Sprintf("(OfErr %s, %s)", cNat(i), o))
			}
		}
	}()
	var keys, names []string
	for _, ki := range p1Keys {
		keys = append(keys, coqKey(keyPool[ki]))
	}
	for _, n := range c20Names {
		names = append(names, cStr(n))
	}
	coq := fmt.Sprintf("(CNative {| nc_prog := %s; nc_keys := %s; nc_names := %s; nc_obs := %s |})", w.coqProg(), cList(keys), cList(names), cList(obs))
	o := fmt.Sprintf("%d collections, largest %d", len(obs), maxLen)
	if len(panics) > 0 {
		o += fmt.Sprintf("; PANICS: %v", panics)
	}
	return Case{Coq: strings.ReplaceAll(coq, "\n", " "), Desc: mustJSON(p1Desc{Prog: p}), Size: len(p),
		Nontrivial: maxLen >= 2, Class: fmt.Sprintf("maxlen=%d", maxLen), Summary: progSummary(p), Observed: o}
}

// runC20Restored unmarshals one document and observes the accessors of the restored
// error's Fields(); returns false when the document is not accepted.
func runC20Restored(c UCase) (Case, bool) {
	base, res := runUMFull(c)
	if res == nil {
		return Case{}, false
	}
	fs := res.Fields()
	type ent struct {
		name  string
		typed bool
	}
	unk := map[string]bool{}
	var unkNames []string
	for n := range res.UnknownFields() {
		unk[n] = true
		unkNames = append(unkNames, n)
	}
	sort.Strings(unkNames)
	iter := func() []ent {
		var out []ent
		for k := range fs.All() {
			out = append(out, ent{k.String(), !unk[k.String()]})
		}
		return out
	}
	entCoq := func(es []ent) string {
		var cs []string
		for _, e := range es {
			cs = append(cs, fmt.Sprintf("(%s, %s)", cStr(e.name), cBool(e.typed)))
		}
		return cList(cs)
	}
	all := iter()
	getSame := true
	for k, v := range fs.All() {
		got, ok := fs.Get(k)
		if !ok || reprOf(got.Value()) != reprOf(v.Value()) {
			getSame = false
		}
	}
	var decoded []string
	for n := range c.Doc.Fields {
		decoded = append(decoded, n)
	}
	sort.Strings(decoded)
	var finds []string
	for _, n := range append(append([]string{}, decoded...), "zz_absent_name") {
		var es []ent
		for _, k := range fs.FindKeys(n) {
			es = append(es, ent{k.String(), !unk[k.String()]})
		}
		finds = append(finds, fmt.Sprintf("(%s, %s)", cStr(n), entCoq(es)))
	}
	// a key whose name does not occur in the document
	getAbsent := true
	for _, ke := range keyPool[:nBaseKeys] {
		if _, occurs := c.Doc.Fields[ke.Name]; !occurs {
			if _, ok := fs.Get(ke.Key); ok {
				getAbsent = false
			}
		}
	}
	// typed lookups through every pool key whose name occurs (declared or not): a lookup is an
	// inspection and must leave the collection as it was - the second iteration and Len come after
	for _, ke := range keyPool {
		if _, occurs := c.Doc.Fields[ke.Name]; occurs {
			func() {
				defer func() { _ = recover() }()
				_, _ = fs.Get(ke.Key)
				_, _ = ke.Ext(res)
			}()
		}
	}
	all2 := iter()
	var un, dn []string
	for _, n := range unkNames {
		un = append(un, cStr(n))
	}
	for _, n := range decoded {
		dn = append(dn, cStr(n))
	}
	robs := fmt.Sprintf("{| ro_len := %s; ro_zero := %s; ro_all := %s; ro_all2 := %s; ro_get_same := %s; ro_find := %s; ro_get_absent := %s; ro_unknown := %s; ro_decoded := %s |}",
		cNat(fs.Len()), cBool(fs.IsZero()), entCoq(all), entCoq(all2), cBool(getSame), cList(finds), cBool(getAbsent), cList(un), cList(dn))
	base.Coq = fmt.Sprintf("(CRestored %s %s)", base.Coq, robs)
	base.Desc = mustJSON(struct {
		UM UCase `json:"um"`
	}{c})
	base.Class = fmt.Sprintf("restored/len=%d", fs.Len())
	base.Nontrivial = fs.Len() >= 2
	base.Observed = fmt.Sprintf("restored fields: len=%d typed=%d unknown=%d", fs.Len(), fs.Len()-len(unkNames), len(unkNames))
	return base, true
}
