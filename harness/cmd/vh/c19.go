package main

import (
	"encoding/json"
	"fmt"
	"log/slog"
	"sort"
	"strings"

	"github.com/shiwano/errdef"
)

func init() {
	register(&Prop{
		ID: "C19", Imports: "Base.Str Model.Core Model.Prog Model.Slog Check.Render Check.C19", Module: "C19",
		Rule:      "an errdef error with fields, a stack or causes is logged; distinct by Coq term",
		ShardSize: 40,
		Gen: func(r *Rng, tier string) []Case {
			n := 200
			if tier == "thorough" {
				n = 5000
			}
			var out []Case
			for _, cp := range renderCorpus() {
				out = append(out, runC19(cp))
			}
			for i := 0; i < n; i++ {
				cfg := p1Cfg{MaxStmts: 6 + i*10/n, Keys: p1Keys, Trace: i%2 == 0, Presenters: true, JSONSafe: true}
				out = append(out, runC19(genProgFields(r, cfg)))
			}
			return out
		},
		Replay: func(d json.RawMessage) ([]Case, error) {
			var desc p1Desc
			if err := json.Unmarshal(d, &desc); err != nil {
				return nil, err
			}
			return []Case{runC19(desc.Prog)}, nil
		},
	})
}

func frameCoq(f errdef.Frame) string {
	return fmt.Sprintf("{| fr_func := %s; fr_file := %s; fr_line := %s |}", cStr(f.Func), cStr(f.File), cZ(int64(f.Line)))
}

// svOfValue resolves a slog.Value completely into the sv type of Model/Slog.v.
func svOfValue(v slog.Value, depth int) string {
	if depth > 40 {
		return "(SVVal \"<too deep>\")"
	}
	v = v.Resolve()
	switch v.Kind() {
	case slog.KindGroup:
		var as []string
		for _, a := range v.Group() {
			as = append(as, fmt.Sprintf("(%s, %s)", cStr(a.Key), svOfValue(a.Value, depth+1)))
		}
		return "(SVGroup " + cList(as) + ")"
	case slog.KindString:
		return "(SVStr " + cStr(v.String()) + ")"
	case slog.KindInt64:
		return "(SVInt " + cZ(v.Int64()) + ")"
	default:
		return svOfAny(v.Any(), depth+1)
	}
}

func svOfAny(x any, depth int) string {
	switch t := x.(type) {
	case slog.LogValuer:
		return svOfValue(t.LogValue(), depth+1)
	case errdef.Frame:
		return "(SVFrame " + frameCoq(t) + ")"
	case []errdef.Frame:
		var fs []string
		for _, f := range t {
			fs = append(fs, frameCoq(f))
		}
		return "(SVFrames " + cList(fs) + ")"
	case []any:
		if !isNodeList(t) { // a field value that happens to be a []any is a leaf
			return "(SVVal " + cStr(fmt.Sprintf("%+v", x)) + ")"
		}
		var xs []string
		for _, e := range t {
			xs = append(xs, svOfAny(e, depth+1))
		}
		return "(SVList " + cList(xs) + ")"
	case map[string]any:
		if _, ok := t["message"]; !ok { // only slogValueToAny's node maps are structural
			return "(SVVal " + cStr(fmt.Sprintf("%+v", x)) + ")"
		}
		var ks []string
		for k := range t {
			ks = append(ks, k)
		}
		sort.Strings(ks)
		var ms []string
		for _, k := range ks {
			ms = append(ms, fmt.Sprintf("(%s, %s)", cStr(k), svOfAny(t[k], depth+1)))
		}
		return "(SVMap " + cList(ms) + ")"
	case slog.Value:
		return svOfValue(t, depth+1)
	}
	return "(SVVal " + cStr(fmt.Sprintf("%+v", x)) + ")"
}

func runC19(p []PStmt) Case {
	w := newWorld()
	panics := w.run(p)
	gs := w.roundTripAll()
	var obs []string
	nontrivial := false
	for _, sb := range w.renderSubjects(gs) {
		func() {
			defer func() {
				if pv := recover(); pv != nil {
					panics = append(panics, fmt.Sprintf("LogValue panicked: %v", pv))
					obs = append(obs, fmt.Sprintf("{| o_subject := %s; o_err := SVVal \"<panic>\"; o_nodes := []; o_stack := None; o_head := None |}", sb.Coq))
				}
			}()
			e := sb.Err.(errdef.Error)
			errSV := svOfValue(slog.AnyValue(e), 0)
			var nodes []string
			for _, n := range e.UnwrapTree() {
				nodes = append(nodes, svOfValue(slog.AnyValue(n), 0))
			}
			stack, head := "None", "None"
			if e.Stack().Len() > 0 {
				stack = "(Some " + svOfValue(slog.AnyValue(e.Stack()), 0) + ")"
				if f, ok := e.Stack().HeadFrame(); ok {
					head = "(Some " + svOfValue(slog.AnyValue(f), 0) + ")"
				}
			}
			if e.Fields().Len() > 0 || e.Stack().Len() > 0 || len(nodes) > 0 {
				nontrivial = true
			}
			obs = append(obs, fmt.Sprintf("{| o_subject := %s; o_err := %s; o_nodes := %s; o_stack := %s; o_head := %s |}",
				sb.Coq, errSV, cList(nodes), stack, head))
		}()
	}
	coq := fmt.Sprintf("{| c_prog := %s; c_given := %s; c_obs := %s |}", w.coqProg(), givenCoq(gs), cList(obs))
	o := fmt.Sprintf("%d errors logged (%d restored)", len(obs), len(gs))
	if len(panics) > 0 {
		o += fmt.Sprintf("; PANICS: %v", panics)
	}
	return Case{Coq: strings.ReplaceAll(coq, "\n", " "), Desc: mustJSON(p1Desc{Prog: p}), Size: len(p),
		Nontrivial: nontrivial, Class: fmt.Sprintf("stmts=%d", len(p)/4*4), Summary: progSummary(p), Observed: o}
}

func isNodeList(xs []any) bool {
	if len(xs) == 0 {
		return false
	}
	for _, x := range xs {
		m, ok := x.(map[string]any)
		if !ok {
			return false
		}
		if _, ok := m["message"]; !ok {
			return false
		}
	}
	return true
}
