package main

import (
	"encoding/json"
	"errors"
	"fmt"
	"log/slog"
	"os"
	"reflect"
	"strings"

	"github.com/shiwano/errdef"
	"github.com/shiwano/errdef/unmarshaler"
)

func init() {
	for _, id := range []string{"C10", "C13"} {
		id := id
		register(&Prop{
			ID: id, Imports: "Base.Str Model.Core Model.Convert Model.Unmarshal Check.UM Check." + id, Module: id,
			Rule:      "document with at least one field or cause (so that binding / cause restoration runs); distinct by Coq term",
			ShardSize: 60,
			Gen: func(r *Rng, tier string) []Case {
				n := 360
				if tier == "thorough" {
					n = 9000
				}
				return genUMCases(r, n, id)
			},
			Replay: func(d json.RawMessage) ([]Case, error) {
				var c UCase
				if err := json.Unmarshal(d, &c); err != nil {
					return nil, err
				}
				return []Case{runUM(c)}, nil
			},
		})
	}
}

func genUMCases(r *Rng, n int, id string) []Case {
	var out []Case
	// corpus: minimised past failures first
	corpus := []UCase{
		{Cfg: UCfg{Defs: []UDef{{Kind: "k1"}}, Reg: []int{0}}, Doc: &UDoc{Msg: "m", Kind: "k1", Causes: []*UDoc{nil}}},
		{Cfg: UCfg{Defs: []UDef{{Kind: "k1"}}, Reg: []int{0}}, NilTop: true},
		{Cfg: UCfg{Defs: []UDef{{Kind: "k1", Keys: []int{35}}}, Reg: []int{0}}, Doc: &UDoc{Msg: "m", Kind: "k1", Fields: map[string]int{"arr3": 26}}},
		{Cfg: UCfg{Defs: []UDef{{Kind: "k1", Keys: []int{32}}}, Reg: []int{0}}, Doc: &UDoc{Msg: "m", Kind: "k1", Fields: map[string]int{"pn": 30}}},
	}
	// a composite value encoding/json cannot marshal, for a field bound via JSON: classified ErrInternal,
	// at the top level and inside a cause; a nil value under an unregistered / a declared name
	for _, strict := range []bool{false, true} {
		for _, fv := range [][2]string{{"ints", "listChan"}, {"ints", "listInf"}, {"p", "mapNaN"}, {"msi", "mapNaN"}, {"zz", "nil"}, {"n", "nil"}, {"p", "nil"}} {
			doc := &UDoc{Msg: "m", Kind: "k1", Fields: map[string]int{fv[0]: umValueIndex(fv[1])}}
			cfg := UCfg{Defs: []UDef{{Kind: "k1", Keys: []int{26, 24, 27, 2}}}, Reg: []int{0}, Strict: strict}
			corpus = append(corpus, UCase{Cfg: cfg, Doc: doc},
				UCase{Cfg: cfg, Doc: &UDoc{Msg: "top", Kind: "k1", Causes: []*UDoc{doc}}})
		}
	}
	// pointer keys whose element is not a scalar (tryConvertPointer): same Kind, not convertible
	for _, fv := range [][2]string{{"ierr", "str"}, {"ierr", "f3"}, {"istr", "str"}, {"istr", "mapP"}, {"ierr", "nil"}} {
		corpus = append(corpus, UCase{Cfg: UCfg{Defs: []UDef{{Kind: "k1", Keys: []int{44, 45}}}, Reg: []int{0}},
			Doc: &UDoc{Msg: "m", Kind: "k1", Fields: map[string]int{fv[0]: umValueIndex(fv[1])}}},
			UCase{Cfg: UCfg{Defs: []UDef{{Kind: "k1"}}, Reg: []int{0}, Custom: []int{44, 45}, Strict: true},
				Doc: &UDoc{Msg: "m", Kind: "k1", Fields: map[string]int{fv[0]: umValueIndex(fv[1])}}})
	}
	for _, fv := range [][2]string{{"parr", "arr3"}, {"parr", "arr2"}, {"parr", "ptrArr2"}, {"pps", "nilPtrInt"}, {"pps", "nilPtrStr"}, {"pps", "ptrInt"}, {"arr3", "arr2"}, {"arr", "arr3"}} {
		corpus = append(corpus, UCase{Cfg: UCfg{Defs: []UDef{{Kind: "k1", Keys: []int{42, 43, 35, 28}}}, Reg: []int{0}},
			Doc: &UDoc{Msg: "m", Kind: "k1", Fields: map[string]int{fv[0]: umValueIndex(fv[1])}}})
	}
	corpus = append(corpus, umCorpusExtra()...)
	for _, c := range corpus {
		out = append(out, runUM(c))
	}
	for i := 0; i < n; i++ {
		c := UCase{Cfg: genUCfg(r), Doc: genUDoc(r, 1+i*3/n)}
		// make the top-level kind usually resolvable
		if r.Chance(3, 4) && len(c.Cfg.Reg) > 0 {
			c.Doc.Kind = c.Cfg.Defs[Pick(r, c.Cfg.Reg)].Kind
		}
		switch x := r.Intn(30); {
		case x == 0:
			c.NilTop = true
		case x == 1:
			c.DecErr = true
		case x < 8:
			c.Bytes = docBytes(r, c.Doc)
		}
		out = append(out, runUM(c))
	}
	return out
}

// umCorpusExtra: fixed cases shared by the unmarshaler checks (C10 C12 C13)
func umCorpusExtra() []UCase {
	var out []UCase
	dflt := 1
	for _, strict := range []bool{true, false} {
		// a definition used as a cause (type *errdef.definition, message = its kind): restored only when
		// that kind is registered - never replaced by the default definition
		for _, msg := range []string{"k1", "nokind", "kd"} {
			out = append(out, UCase{Cfg: UCfg{Defs: []UDef{{Kind: "k1"}, {Kind: "kd"}}, Reg: []int{0}, Default: &dflt, Strict: strict},
				Doc: &UDoc{Msg: "m", Kind: "k1", Causes: []*UDoc{{Msg: msg, Type: "*errdef.definition"}, {Msg: msg, Type: ""}, {Msg: msg, Kind: "k9"}}}})
		}
		// two registered kinds share a field name with different keys: each node is decoded with the
		// keys of ITS definition, whichever kind the unmarshaler saw first
		for _, order := range [][2]string{{"k1", "k2"}, {"k2", "k1"}} {
			val := map[string]string{"k1": "f3", "k2": "str"}
			out = append(out, UCase{Cfg: UCfg{Defs: []UDef{{Kind: "k1", Keys: []int{2}}, {Kind: "k2", Keys: []int{30}}}, Reg: []int{0, 1}, Strict: strict},
				Doc: &UDoc{Msg: "top", Kind: order[0], Fields: map[string]int{"n": umValueIndex(val[order[0]])},
					Causes: []*UDoc{{Msg: "c1", Kind: order[1], Fields: map[string]int{"n": umValueIndex(val[order[1]])}},
						{Msg: "c2", Kind: order[0], Fields: map[string]int{"n": umValueIndex(val[order[0]])}}}}})
		}
		// two DISTINCT custom keys of one name that both accept the value (int and float64 "n"; string twice):
		// the first one binds, the field is exposed once
		// ... and two same-named custom keys of which only the SECOND accepts the value (int "n", string "n")
		out = append(out, UCase{Cfg: UCfg{Defs: []UDef{{Kind: "k1", Keys: []int{15}}}, Reg: []int{0}, Strict: strict, Custom: []int{2, 30}},
			Doc: &UDoc{Msg: "m", Kind: "k1", Fields: map[string]int{"n": umValueIndex("str")}}})
		for _, custom := range [][]int{{2, 39}, {39, 2}, {0, 1}, {4, 2, 39}} {
			out = append(out, UCase{Cfg: UCfg{Defs: []UDef{{Kind: "k1", Keys: []int{15}}}, Reg: []int{0}, Strict: strict, Custom: custom},
				Doc: &UDoc{Msg: "m", Kind: "k1", Fields: map[string]int{"n": umValueIndex("f3"), "s": umValueIndex("str")}}})
		}
		// a REGISTERED definition with the empty kind beside a default definition: a kind-less node is that
		// definition's, never the default's
		out = append(out, UCase{Cfg: UCfg{Defs: []UDef{{Kind: ""}, {Kind: "kd"}}, Reg: []int{0}, Default: &dflt, Strict: strict},
			Doc: &UDoc{Msg: "m", Kind: "", Causes: []*UDoc{{Msg: "c", Kind: ""}}}})
		// a composite value that cannot be decoded into the struct type of its key, at the top and in a
		// cause, with and without a default definition: ErrInternal from the whole call, never a degraded cause
		for _, withDefault := range []bool{false, true} {
			c := UCfg{Defs: []UDef{{Kind: "k1", Keys: []int{24}}, {Kind: "kd"}}, Reg: []int{0}, Strict: strict}
			if withDefault {
				c.Default = &dflt
			}
			out = append(out, UCase{Cfg: c, Doc: &UDoc{Msg: "m", Kind: "k1", Causes: []*UDoc{{Msg: "c", Kind: "k1", Fields: map[string]int{"p": umValueIndex("mapBadP")}}}}},
				UCase{Cfg: c, Doc: &UDoc{Msg: "m", Kind: "k1", Fields: map[string]int{"p": umValueIndex("mapBadP")}}},
				UCase{Cfg: c, Doc: &UDoc{Msg: "m", Kind: "k1", Causes: []*UDoc{{Msg: "c", Kind: "k1", Fields: map[string]int{"p": umValueIndex("mapP")}}}}})
		}
		// the redaction placeholder, as a string and as the raw bytes a custom decoder may hand over, under
		// a name owned by a key that would accept it (any, string) and under an unowned name: always
		// unknown, never typed, exposed once
		for _, keys := range [][]int{{19}, {0}, nil} {
			out = append(out, UCase{Cfg: UCfg{Defs: []UDef{{Kind: "k1", Keys: keys}}, Reg: []int{0}, Strict: strict, Custom: []int{19}},
				Doc: &UDoc{Msg: "m", Kind: "k1", Fields: map[string]int{"any": umValueIndex("redactedBytes"), "s": umValueIndex("redacted"), "zz": umValueIndex("redactedBytes")}}})
		}
	}
	return out
}

// docBytes serialises a document as JSON text (only JSON-representable field values) and
// sometimes mutates it (truncation, type swaps, duplicate keys, deep nesting, huge numbers, bad UTF-8).
func docBytes(r *Rng, d *UDoc) string {
	var enc func(d *UDoc) map[string]any
	enc = func(d *UDoc) map[string]any {
		m := map[string]any{"message": d.Msg}
		if d.Kind != "" {
			m["kind"] = d.Kind
		}
		if d.Type != "" {
			m["type"] = d.Type
		}
		if len(d.Fields) > 0 {
			fs := map[string]any{}
			for n, vi := range d.Fields {
				v := umValues[vi].Mk()
				if _, err := json.Marshal(v); err == nil {
					switch v.(type) {
					case nil, string, bool, float64, map[string]any, []any:
						fs[n] = v
					}
				}
			}
			m["fields"] = fs
		}
		if d.Stack > 0 {
			m["stack"] = mkFrames(d.Stack)
		}
		var cs []any
		for _, c := range d.Causes {
			if c == nil {
				cs = append(cs, nil)
			} else {
				cs = append(cs, enc(c))
			}
		}
		if len(cs) > 0 {
			m["causes"] = cs
		}
		return m
	}
	b, _ := json.Marshal(enc(d))
	s := string(b)
	switch r.Intn(12) {
	case 0:
		s = s[:len(s)/2]
	case 1:
		s = strings.Replace(s, "\"message\":\"", "\"message\":5,\"x\":\"", 1)
	case 2:
		s = strings.Replace(s, "{", "{\"kind\":\"k2\",", 1)
	case 3:
		s = strings.Repeat("{\"causes\":[", 200) + s + strings.Repeat("]}", 200)
	case 4:
		s = strings.Replace(s, "\"message\"", "\"fields\":{\"n\":1e400},\"message\"", 1)
	case 5:
		s = strings.Replace(s, "\"message\":\"", "\"message\":\"\xff\xfe", 1)
	case 6:
		s = "[" + s + "]"
	case 7:
		s = "null"
	}
	return s
}

func runUM(c UCase) Case { cs, _ := runUMFull(c); return cs }

// runUMFull also returns the restored error (nil on failure) for follow-up steps.
func runUMFull(c UCase) (Case, unmarshaler.UnmarshaledError) {
	w := buildUM(c)
	var input *unmarshaler.DecodedData
	decErr := c.DecErr
	if c.Bytes != "" {
		// replica of jsonToDecodedData (decoder.go): what the JSON decoder hands to unmarshal
		var d unmarshaler.DecodedData
		if err := json.Unmarshal([]byte(c.Bytes), &d); err != nil {
			decErr = true
		} else {
			input = &d
		}
	} else if !c.NilTop && !c.DecErr {
		input = c.Doc.decoded()
	}
	snapshot := fmt.Sprintf("%#v", deepView(input))
	// ONE unmarshaler instance serves the first call and all repetitions (a per-instance
	// memo would show as instability)
	dec := func(d *unmarshaler.DecodedData) (*unmarshaler.DecodedData, error) {
		if c.DecErr {
			return nil, errors.New("decoder failed")
		}
		return d, nil
	}
	umJSON := unmarshaler.NewJSON(w.res, w.options()...)
	umDD := unmarshaler.New(w.res, dec, w.options()...)
	_ = unmarshaler.NewJSON(w.res, w.decoyOptions()...) // must not disturb the two above
	var res unmarshaler.UnmarshaledError
	var err error
	panicked := ""
	func() {
		defer func() {
			if p := recover(); p != nil {
				panicked = fmt.Sprint(p)
			}
		}()
		if c.Bytes != "" {
			res, err = umJSON.Unmarshal([]byte(c.Bytes))
		} else {
			res, err = umDD.Unmarshal(input)
		}
	}()
	unchanged := fmt.Sprintf("%#v", deepView(input)) == snapshot
	// repeat: unmarshaling the same input again must succeed or fail alike with identical observable state
	stable, stableM := true, true
	// the reference is the FIRST call's own outcome (a call that consumed its input would otherwise go
	// unnoticed: every later call would agree with every other later call)
	first, haveFirst := "", false
	if panicked == "" {
		func() {
			defer func() { _ = recover() }()
			if err != nil {
				first, haveFirst = "fail", true
			} else if res != nil {
				first, haveFirst = w.orerrRaw(res), true
			}
		}()
	}
	// a definition carrying two keys of one name: which of them binds must not depend on map
	// iteration order (F10) - Go reverses a two-entry map in roughly one iteration out of eight,
	// so many more repetitions are needed to see it
	reps := 6
	for _, d := range c.Cfg.Defs {
		names := map[string]bool{}
		for _, ki := range d.Keys {
			if ki >= 0 && ki < len(keyPool) {
				if names[keyPool[ki].Name] {
					reps = 64
				}
				names[keyPool[ki].Name] = true
			}
		}
	}
	for rep := 0; rep < reps && panicked == ""; rep++ {
		func() {
			defer func() { _ = recover() }()
			var r2 unmarshaler.UnmarshaledError
			var e2 error
			if c.Bytes != "" {
				r2, e2 = umJSON.Unmarshal([]byte(c.Bytes))
			} else {
				r2, e2 = umDD.Unmarshal(input)
			}
			cur := ""
			if e2 != nil {
				cur = "fail"
			} else if r2 != nil {
				cur = w.orerrRaw(r2)
			}
			if !haveFirst {
				first, haveFirst = cur, true
			} else if cur != first {
				stable = false
				if maskAddrs(cur) != maskAddrs(first) {
					stableM = false
				}
				if os.Getenv("VERIF_DEBUG_STABLE") != "" {
					fmt.Fprintf(os.Stderr, "UNSTABLE\n first: %s\n  this: %s\n", first, cur)
				}
			}
		}()
	}

	class, kind, field := "ok", "", ""
	is := []bool{false, false, false, false}
	resCoq := "None"
	obsStr := ""
	switch {
	case panicked != "":
		class, obsStr = "panic", "panic: "+panicked
	case err != nil:
		targets := []error{unmarshaler.ErrDecodeFailure, unmarshaler.ErrUnknownKind, unmarshaler.ErrUnknownField, unmarshaler.ErrInternal}
		names := []string{"decode_failure", "unknown_kind", "unknown_field", "internal"}
		n := 0
		for i, t := range targets {
			if errors.Is(err, t) {
				is[i] = true
				class = names[i]
				n++
			}
		}
		if n == 0 {
			class = "none"
		} else if n > 1 {
			class = "multi"
		}
		if k, ok := unmarshaler.KindFromError(err); ok {
			kind = string(k)
		}
		if f, ok := unmarshaler.FieldNameFromError(err); ok {
			field = f
		}
		if res != nil {
			resCoq = "(Some (ORErr 999%nat \"value returned together with an error\" [] [] [] [] []))"
		}
		obsStr = "failure " + class + ": " + maskAddrs(err.Error())
	default:
		if res == nil {
			class, obsStr = "none", "nil result and nil error"
		} else {
			func() {
				defer func() {
					if p := recover(); p != nil {
						class, obsStr = "panic", fmt.Sprintf("panic while inspecting the result: %v", p)
					}
				}()
				resCoq = "(Some " + w.orerrCoq(res) + ")"
				obsStr = fmt.Sprintf("ok kind=%q msg=%q", res.Kind(), res.Error())
				// inspecting the result (typed lookups through every pool key, declared or not, on
				// every restored node; renderers) must leave its observable state as it was
				before := w.orerrRaw(res)
				inspectRestored(res, 0)
				if after := w.orerrRaw(res); after != before {
					stable, stableM = false, false
					obsStr += " | INSPECTION CHANGED THE RESULT"
				}
			}()
		}
	}
	coq := fmt.Sprintf("{| c_cfg := %s; c_in := %s; c_decerr := %s; c_obs := {| uo_class := %s; uo_is := %s; uo_kind := %s; uo_field := %s; uo_unchanged := %s; uo_stable := %s; uo_stable_m := %s; uo_res := %s |} |}",
		w.cfgCoq(), ddCoq(input, w.targets), cBool(decErr), cStr(class), cBoolList(is), cStr(kind), cStr(field), cBool(unchanged), cBool(stable), cBool(stableM), resCoq)
	var tags []string
	sum := fmt.Sprintf("strict=%v default=%v reg=%v custom=%v builtin=%v doc=%s", c.Cfg.Strict, c.Cfg.Default != nil, c.Cfg.Reg, c.Cfg.Custom, c.Cfg.Builtin, docSummary(c.Doc))
	if c.NilTop {
		sum += " (decoder returns nil,nil)"
	}
	if c.DecErr {
		sum += " (decoder returns an error)"
	}
	if c.Bytes != "" {
		b := c.Bytes
		if len(b) > 200 {
			b = b[:200] + "..."
		}
		sum = "bytes=" + b + " | " + sum
	}
	cls := "struct"
	if c.Bytes != "" {
		cls = "bytes"
	}
	if panicked != "" || err != nil {
		res = nil
	}
	return Case{Coq: coq, Desc: mustJSON(c), Tags: tags, Size: docSize(c.Doc) + len(c.Cfg.Defs), Nontrivial: c.Doc != nil && (len(c.Doc.Fields) > 0 || len(c.Doc.Causes) > 0),
		Class: cls + "/" + class, Summary: sum, Observed: obsStr}, res
}

// inspectRestored reads a restored error in every way a caller can: typed extractors and
// Fields().Get through every pool key, FindKeys, renderers; recursively on restored causes.
func inspectRestored(e error, depth int) {
	if e == nil || depth > 6 {
		return
	}
	func() {
		defer func() { _ = recover() }()
		if de, ok := e.(errdef.Error); ok {
			fs := de.Fields()
			for _, ke := range keyPool {
				func() {
					defer func() { _ = recover() }()
					_, _ = ke.Ext(e)
					_, _ = fs.Get(ke.Key)
					_ = fs.FindKeys(ke.Name)
				}()
			}
			_ = fmt.Sprintf("%+v", e)
			_, _ = json.Marshal(e)
			_ = slog.AnyValue(e).Resolve()
		}
	}()
	switch u := e.(type) {
	case interface{ Unwrap() []error }:
		for _, c := range u.Unwrap() {
			inspectRestored(c, depth+1)
		}
	case interface{ Unwrap() error }:
		inspectRestored(u.Unwrap(), depth+1)
	}
}

// deepView renders a DecodedData tree by value (pointers followed) for the "input unchanged" comparison.
func deepView(d *unmarshaler.DecodedData) any {
	if d == nil {
		return nil
	}
	type view struct {
		Message, Kind, Type string
		Fields              []string
		Stack               []errdef.Frame
		Causes              []any
	}
	v := view{Message: d.Message, Kind: string(d.Kind), Type: d.Type, Stack: d.Stack}
	for n, x := range d.Fields {
		rv := reflect.ValueOf(x)
		s := ""
		switch {
		case !rv.IsValid():
			s = "nil"
		case rv.Kind() == reflect.Chan || rv.Kind() == reflect.Func:
			s = fmt.Sprintf("%T@%p", x, x)
		case rv.Kind() == reflect.Pointer && !rv.IsNil():
			s = fmt.Sprintf("%T->%#v", x, rv.Elem().Interface())
		default:
			s = fmt.Sprintf("%T:%#v", x, x)
		}
		v.Fields = append(v.Fields, n+"="+s)
	}
	sortStrings(v.Fields)
	for _, c := range d.Causes {
		v.Causes = append(v.Causes, deepView(c))
	}
	return v
}

func sortStrings(xs []string) {
	for i := 1; i < len(xs); i++ {
		for j := i; j > 0 && xs[j] < xs[j-1]; j-- {
			xs[j], xs[j-1] = xs[j-1], xs[j]
		}
	}
}
