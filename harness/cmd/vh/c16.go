package main

// C16 - concurrent use: the race-detector correspondence (PARTIAL by nature; see
// coq/theories/Check/C16.v).  Gen builds a second binary of this harness with the Go
// race detector and runs it as child processes (`vh-race c16stress <descriptor>`).
// A child regenerates shared-object programs from its seed; for every program it
//   1. builds TWO identical copies of the shared objects sequentially, by the same call
//      sites (so their stacks are equal) and with constructor calls only - no accessor
//      of a created object is called: definitions with fields, factories derived via
//      With/WithOptions and shared contexts, errors; plus, per copy, a shared resolver,
//      shared JSON unmarshalers, shared documents and shared restored errors,
//   2. computes the result of every operation sequentially on copy 0 (the prediction;
//      three times - an operation that is not deterministic sequentially is still run
//      by the goroutines but not compared),
//   3. forgets the source memo (VerifResetSourceState: source reading is then used for
//      the first time by the goroutines),
//   4. releases N goroutines by a barrier; each runs every operation against the SHARED
//      objects of copy 1 - which nothing has used before - starting with the operations
//      that read source files, and compares each result with the prediction.
// Results of operations that create errors are compared without the frames of the new
// error's own stack (they belong to the goroutine), but with its head frame when that
// lies inside the operation itself.  %#v is not used (it prints addresses).

import (
	"context"
	"encoding/json"
	"errors"
	"fmt"
	"log/slog"
	"os"
	"os/exec"
	"path/filepath"
	"runtime"
	"sort"
	"strings"
	"sync"
	"syscall"
	"time"

	"github.com/shiwano/errdef"
	"github.com/shiwano/errdef/resolver"
	"github.com/shiwano/errdef/unmarshaler"
)

type c16Desc struct {
	Seed        int64 `json:"seed"`
	Goroutines  int   `json:"goroutines"`
	Rounds      int   `json:"rounds"`
	Progs       int   `json:"progs"`
	MaxStmts    int   `json:"max_stmts"`
	Procs       int   `json:"procs"`
	FreshSource bool  `json:"fresh_source"`
}

type c16Out struct {
	Races      int            `json:"races"`
	Mismatches []string       `json:"mismatches"`
	Ops        int            `json:"ops"`
	Programs   int            `json:"programs"`
	Kinds      map[string]int `json:"kinds"`    // operations per kind (one goroutine, one round)
	Unstable   int            `json:"unstable"` // operations not deterministic even sequentially: run, not compared
	Snippets   int            `json:"snippets"` // predicted renderings that contain source lines
	ElapsedMS  int64          `json:"elapsed_ms"`
}

func init() {
	subcommands["c16stress"] = c16ChildMain
	register(&Prop{
		ID: "C16", Imports: "Base.Str Check.C16", Module: "C16",
		Rule:      "a child process of the -race binary in which at least 2 goroutines executed operations on shared objects; distinct by descriptor",
		ShardSize: 100,
		Gen: func(r *Rng, tier string) []Case {
			children, progs := 40, 5
			ns := []int{2, 8, 8, 32}
			if tier == "thorough" {
				children, progs = 400, 12
				ns = []int{2, 8, 32, 64, 8, 32}
			}
			var descs []c16Desc
			for i := 0; i < children; i++ {
				n := ns[i%len(ns)]
				rounds := 1
				switch {
				case n <= 2:
					rounds = 4
				case n <= 8:
					rounds = 2
				}
				descs = append(descs, c16Desc{Seed: int64(r.U64() >> 1), Goroutines: n, Rounds: rounds, Progs: progs,
					MaxStmts: 8 + i%7, Procs: []int{16, 4, 2, 8}[(i/len(ns))%4], FreshSource: i%5 != 4})
			}
			return c16RunAll(descs)
		},
		Replay: func(d json.RawMessage) ([]Case, error) {
			var desc c16Desc
			if err := json.Unmarshal(d, &desc); err != nil {
				return nil, err
			}
			return c16RunAll([]c16Desc{desc}), nil
		},
	})
}

// ---------------------------------------------------------------- parent side

func c16Root() string {
	if r := os.Getenv("VERIF_ROOT"); r != "" {
		return r
	}
	return "/verif"
}

func c16GoEnv() []string {
	var env []string
	for _, kv := range os.Environ() {
		if strings.HasPrefix(kv, "GOTOOLCHAIN=") || strings.HasPrefix(kv, "GOSUMDB=") ||
			strings.HasPrefix(kv, "GOFLAGS=") || strings.HasPrefix(kv, "GOPROXY=") || strings.HasPrefix(kv, "GORACE=") {
			continue
		}
		env = append(env, kv)
	}
	return append(env, "GOFLAGS=-mod=mod", "GOPROXY=off")
}

// c16BuildRace builds (incrementally; the go build cache keeps the instrumented
// packages) the harness with the race detector.
func c16BuildRace() (string, string, error) {
	root := c16Root()
	bdir := filepath.Join(root, ".build")
	if err := os.MkdirAll(bdir, 0o755); err != nil {
		return "", "", err
	}
	lock, err := os.OpenFile(filepath.Join(bdir, "vh-race.lock"), os.O_CREATE|os.O_RDWR, 0o644)
	if err != nil {
		return "", "", err
	}
	defer lock.Close()
	if err := syscall.Flock(int(lock.Fd()), syscall.LOCK_EX); err != nil {
		return "", "", err
	}
	defer func() { _ = syscall.Flock(int(lock.Fd()), syscall.LOCK_UN) }()
	out := filepath.Join(bdir, "vh-race")
	tmp := fmt.Sprintf("%s.tmp%d", out, os.Getpid())
	cmd := exec.Command("go", "build", "-race", "-tags", "verif", "-o", tmp, "./cmd/vh")
	cmd.Dir = filepath.Join(root, "harness")
	cmd.Env = c16GoEnv()
	t0 := time.Now()
	log, err := cmd.CombinedOutput()
	if err != nil {
		_ = os.Remove(tmp)
		return "", string(log), fmt.Errorf("go build -race failed: %v", err)
	}
	if err := os.Rename(tmp, out); err != nil {
		return "", "", err
	}
	extraMeta["c16_race_build_s"] = time.Since(t0).Seconds()
	return out, string(log), nil
}

func c16Case(d c16Desc, built bool, o c16Out, note string) Case {
	coq := fmt.Sprintf("{| c_seed := %s; c_goroutines := %s; c_rounds := %s; c_progs := %s; c_procs := %s; c_fresh_source := %s; "+
		"c_built := %s; c_ops := %s; c_races := %s; c_mismatches := %s |}",
		cN(int(d.Seed%1000000007)), cN(d.Goroutines), cN(d.Rounds), cN(d.Progs), cN(d.Procs), cBool(d.FreshSource),
		cBool(built), cN(o.Ops), cN(o.Races), cN(len(o.Mismatches)))
	obs := fmt.Sprintf("races=%d mismatches=%d ops=%d programs=%d unstable=%d snippet-renderings=%d %dms",
		o.Races, len(o.Mismatches), o.Ops, o.Programs, o.Unstable, o.Snippets, o.ElapsedMS)
	if len(o.Mismatches) > 0 {
		obs += " first: " + o.Mismatches[0]
	}
	if note != "" {
		obs += " " + note
	}
	if len(obs) > 1500 {
		obs = obs[:1500]
	}
	return Case{Coq: coq, Desc: mustJSON(d), Size: d.Goroutines*d.Progs + d.MaxStmts, Nontrivial: built && o.Ops > 0 && d.Goroutines >= 2,
		Class:    fmt.Sprintf("N=%d", d.Goroutines),
		Summary:  fmt.Sprintf("vh-race c16stress seed=%d goroutines=%d rounds=%d programs=%d max_stmts=%d GOMAXPROCS=%d fresh_source=%v", d.Seed, d.Goroutines, d.Rounds, d.Progs, d.MaxStmts, d.Procs, d.FreshSource),
		Observed: obs}
}

func c16RunAll(descs []c16Desc) []Case {
	bin, blog, err := c16BuildRace()
	if err != nil {
		if len(blog) > 800 {
			blog = blog[len(blog)-800:]
		}
		var out []Case
		for _, d := range descs[:1] {
			out = append(out, c16Case(d, false, c16Out{}, "race build impossible: "+err.Error()+" "+blog))
		}
		return out
	}
	scratch := os.Getenv("VERIF_SCRATCH")
	if scratch == "" {
		scratch = filepath.Join(c16Root(), ".build", "scratch", "C16")
	}
	scratch = filepath.Join(scratch, fmt.Sprintf("run%d", os.Getpid()))
	_ = os.MkdirAll(scratch, 0o755)
	defer os.RemoveAll(scratch)

	cases := make([]Case, len(descs))
	outs := make([]c16Out, len(descs))
	var wg sync.WaitGroup
	sem := make(chan struct{}, 6)
	for i := range descs {
		wg.Add(1)
		go func(i int) {
			defer wg.Done()
			sem <- struct{}{}
			defer func() { <-sem }()
			d := descs[i]
			logPath := filepath.Join(scratch, fmt.Sprintf("race_%d", i))
			ctx, cancel := context.WithTimeout(context.Background(), 300*time.Second)
			defer cancel()
			cmd := exec.CommandContext(ctx, bin, "c16stress", string(mustJSON(d)))
			cmd.Env = append(c16GoEnv(), "GORACE=halt_on_error=0 exitcode=0 log_path="+logPath)
			var stdout, stderr strings.Builder
			cmd.Stdout, cmd.Stderr = &stdout, &stderr
			runErr := cmd.Run()
			var o c16Out
			note := ""
			line := strings.TrimSpace(stdout.String())
			if k := strings.LastIndex(line, "\n"); k >= 0 {
				line = line[k+1:]
			}
			if jerr := json.Unmarshal([]byte(line), &o); jerr != nil || runErr != nil {
				// a crash (e.g. "fatal error: concurrent map writes") or a timeout is a divergent result
				tail := stderr.String()
				if len(tail) > 600 {
					tail = tail[len(tail)-600:]
				}
				o.Mismatches = append(o.Mismatches, fmt.Sprintf("child did not finish: %v; stderr: %s", runErr, tail))
				if o.Ops == 0 {
					o.Ops = 1
				}
			}
			// do not rely on the child alone: count the reports in the detector's log files and on stderr
			n := strings.Count(stderr.String(), "WARNING: DATA RACE")
			if files, _ := filepath.Glob(logPath + ".*"); len(files) > 0 {
				for _, f := range files {
					if b, err := os.ReadFile(f); err == nil {
						n += strings.Count(string(b), "WARNING: DATA RACE")
						if strings.Contains(string(b), "WARNING: DATA RACE") && note == "" {
							s := string(b)
							if len(s) > 900 {
								s = s[:900]
							}
							note = "race report: " + s
						}
					}
				}
			}
			if n > o.Races {
				o.Races = n
			}
			outs[i] = o
			cases[i] = c16Case(d, true, o, note)
		}(i)
	}
	wg.Wait()
	// coverage summary for the evidence
	kinds := map[string]int{}
	tot := c16Out{}
	byN := map[string]int{}
	for i, o := range outs {
		for k, v := range o.Kinds {
			kinds[k] += v
		}
		tot.Ops += o.Ops
		tot.Programs += o.Programs
		tot.Unstable += o.Unstable
		tot.Snippets += o.Snippets
		tot.Races += o.Races
		byN[fmt.Sprintf("N=%d", descs[i].Goroutines)] += o.Programs
	}
	extraMeta["c16_children"] = len(descs)
	extraMeta["c16_programs"] = tot.Programs
	extraMeta["c16_programs_by_goroutines"] = byN
	extraMeta["c16_operation_executions"] = tot.Ops
	extraMeta["c16_ops_per_kind_one_goroutine_one_round"] = kinds
	extraMeta["c16_sequentially_unstable_ops_not_compared"] = tot.Unstable
	extraMeta["c16_renderings_with_source_lines"] = tot.Snippets
	extraMeta["c16_race_reports"] = tot.Races
	extraMeta["c16_note"] = "runtime part of C16: observed with the Go race detector (-race build of this harness), not proved"
	return cases
}

// ---------------------------------------------------------------- child side

type c16Op struct {
	Kind string
	Name string
	F    func() string
	Cmp  bool
}

func c16Safe(f func() string) (s string) {
	defer func() {
		if p := recover(); p != nil {
			s = fmt.Sprintf("PANIC: %v", p)
		}
	}()
	return f()
}

func c16KeyName(k errdef.FieldKey) string {
	for _, ke := range keyPool {
		if ke.Key == k {
			return fmt.Sprintf("#%d:%s", ke.ID, ke.Name)
		}
	}
	return "?:" + k.String()
}

func c16Fields(f errdef.Fields) string {
	if f == nil {
		return "<nil fields>"
	}
	var b strings.Builder
	fmt.Fprintf(&b, "len=%d zero=%v [", f.Len(), f.IsZero())
	for k, v := range f.All() {
		fmt.Fprintf(&b, "%s=%#v;", c16KeyName(k), v.Value())
	}
	b.WriteString("]")
	return b.String()
}

func c16Tree(ns errdef.Nodes) string {
	var b strings.Builder
	for depth, n := range ns.Walk() {
		fmt.Fprintf(&b, "(%d %T %q cyc=%v)", depth, n.Error, n.Error.Error(), n.IsCyclic)
	}
	fmt.Fprintf(&b, " hascycle=%v", ns.HasCycle())
	return b.String()
}

func c16JSON(v any, dropStack bool) string {
	b, err := json.Marshal(v)
	if err != nil {
		return "ERR:" + err.Error()
	}
	if !dropStack {
		return string(b)
	}
	var m map[string]json.RawMessage
	if err := json.Unmarshal(b, &m); err != nil {
		return string(b)
	}
	delete(m, "stack")
	keys := make([]string, 0, len(m))
	for k := range m {
		keys = append(keys, k)
	}
	sort.Strings(keys)
	var sb strings.Builder
	for _, k := range keys {
		sb.WriteString(k + ":" + string(m[k]) + ",")
	}
	return sb.String()
}

// c16Snap projects everything observable of an error.  own=false leaves out what
// depends on the frames of the error's own stack beyond its head.
func c16Snap(e error, defs []errdef.Factory, own bool) string {
	if e == nil {
		return "<nil>"
	}
	var b strings.Builder
	fmt.Fprintf(&b, "%T|%q|%s|%q|", e, e.Error(), fmt.Sprintf("%v", e), fmt.Sprintf("%s", e))
	k, ok := errdef.KindFrom(e)
	fmt.Fprintf(&b, "kind=%q,%v|", k, ok)
	if f, ok := errdef.FieldsFrom(e); ok {
		b.WriteString("fields=" + c16Fields(f) + "|")
		for _, name := range []string{"s", "n", "b", "any", "zz"} {
			for _, fk := range f.FindKeys(name) {
				v, ok := f.Get(fk)
				if ok {
					fmt.Fprintf(&b, "get %s=%#v;", c16KeyName(fk), v.Value())
				}
			}
		}
	}
	b.WriteString("is=")
	for _, d := range defs {
		if errors.Is(e, d.(error)) {
			b.WriteByte('1')
		} else {
			b.WriteByte('0')
		}
	}
	b.WriteString("|ext=")
	for _, ki := range p1Keys {
		v, ok := keyPool[ki].Ext(e)
		fmt.Fprintf(&b, "%#v,%v;%#v;", v, ok, keyPool[ki].OrZero(e))
	}
	if t, ok := errdef.UnwrapTreeFrom(e); ok {
		b.WriteString("|tree=" + c16Tree(t))
	}
	if ee, ok := e.(errdef.Error); ok {
		fmt.Fprintf(&b, "|unwrap=%d", len(ee.Unwrap()))
		for _, c := range ee.Unwrap() {
			fmt.Fprintf(&b, ",%q", c.Error())
		}
		// The frames of a new error's own stack belong to whoever runs the operation.  Only a
		// head frame inside the operation's closure is comparable; a StackSkip option moves
		// the head into the caller's frames or (on a goroutine's short stack) leaves none.
		hf, hasHead := ee.Stack().HeadFrame()
		switch {
		case own:
			fmt.Fprintf(&b, "|head=%s %s:%d,%v|stacklen=%d", hf.Func, filepath.Base(hf.File), hf.Line, hasHead, ee.Stack().Len())
		case hasHead && strings.Contains(hf.Func, "c16Ops.func"):
			fmt.Fprintf(&b, "|head=%s %s:%d", hf.Func, filepath.Base(hf.File), hf.Line)
		default:
			b.WriteString("|stack: none or the caller's")
		}
	}
	var pe errdef.PanicError
	if errors.As(e, &pe) {
		fmt.Fprintf(&b, "|panic=%v", pe.PanicValue())
	}
	b.WriteString("|json=" + c16JSON(e, !own))
	if lv, ok := e.(slog.LogValuer); ok && own {
		b.WriteString("|log=" + svOfValue(lv.LogValue(), 0))
	}
	if own {
		if st, ok := errdef.StackFrom(e); ok {
			fmt.Fprintf(&b, "|frames=%v", st.Frames())
		}
		fmt.Fprintf(&b, "|plus=%+v", e) // no %#v: it prints addresses, and the prediction uses a twin copy of the objects
		if ds, ok := e.(errdef.DebugStacker); ok {
			b.WriteString("|debug=" + ds.DebugStack())
		}
		if tr, ok := e.(errdef.StackTracer); ok {
			fmt.Fprintf(&b, "|pcs=%d", len(tr.StackTrace()))
		}
	}
	return b.String()
}

// c16Program: a P1 program with stacks, presenters and StackSource on some definitions.
func c16Program(r *Rng, maxStmts int) []PStmt {
	cfg := p1Cfg{MaxStmts: maxStmts, Trace: true, Presenters: true, Recover: true, Keys: p1Keys, JSONSafe: r.Chance(3, 4)}
	var p []PStmt
	if r.Bool() {
		p = genProg(r, cfg)
	} else {
		p = genProgFields(r, cfg)
		// add a few errors to the field-heavy program
		nd := 0
		for _, s := range p {
			if s.T == "define" || s.T == "with" || s.T == "withopts" {
				nd++
			}
		}
		for k := 0; k < 2+r.Intn(3); k++ {
			p = append(p, PStmt{T: "new", F: r.Intn(nd), Msg: Pick(r, p1Msgs)})
		}
		p = append(p, PStmt{T: "wrap", F: r.Intn(nd), C: ip(0)})
	}
	for i := range p {
		if p[i].T == "define" && r.Chance(2, 3) {
			p[i].Opts = append(p[i].Opts, POpt{T: "source", A: r.Intn(3), D: Pick(r, []int{-1, 1, 2, 3})})
		}
	}
	return p
}

// c16Build runs a program against the library like (*world).exec, but performs the
// library's constructor calls ONLY: no accessor of a created object is called (exec
// calls Stack().Frames() to print the Coq term), so that the goroutines are the first
// to use the objects.
func c16Build(prog []PStmt) *world {
	w := newWorld()
	ctxOf := func(p *int) context.Context {
		if p == nil {
			return context.Background()
		}
		return w.ctxs[*p]
	}
	for _, s := range prog {
		func() {
			defer func() {
				if p := recover(); p != nil { // keep the pools aligned
					switch s.T {
					case "define", "with", "withopts":
						w.defs = append(w.defs, errdef.Define("panicked"))
					case "ctx":
						w.ctxs = append(w.ctxs, context.Background())
					default:
						w.errs = append(w.errs, fmt.Errorf("statement panicked: %v", p))
					}
				}
			}()
			os := func() []errdef.Option {
				out := make([]errdef.Option, 0, len(s.Opts)+2)
				for _, o := range s.Opts {
					g, _ := w.opt(o)
					out = append(out, g)
				}
				return out
			}
			causes := func() []error {
				cs := make([]error, 0, len(s.Cs)+2)
				for _, p := range s.Cs {
					cs = append(cs, w.errAt(p))
				}
				return cs
			}
			switch s.T {
			case "define":
				w.defs = append(w.defs, errdef.Define(errdef.Kind(s.Kind), os()...))
			case "ctx":
				w.ctxs = append(w.ctxs, errdef.ContextWithOptions(ctxOf(s.Parent), os()...))
			case "with":
				w.defs = append(w.defs, w.defs[s.D].(errdef.Definition).With(ctxOf(s.Ctx), os()...))
			case "withopts":
				w.defs = append(w.defs, w.defs[s.D].(errdef.Definition).WithOptions(os()...))
			case "new":
				if s.Ty == "top" {
					w.errs = append(w.errs, newAtTop(w.defs[s.F], s.Msg))
				} else if s.Ty == "bottom" {
					w.errs = append(w.errs, newAtBottom(w.defs[s.F], s.Msg))
				} else {
					w.errs = append(w.errs, w.defs[s.F].New(s.Msg))
				}
			case "errorf":
				w.errs = append(w.errs, w.defs[s.F].Errorf(s.Format, w.refArgs(s.Args)...))
			case "wrap":
				w.errs = append(w.errs, w.defs[s.F].Wrap(w.errAt(s.C)))
			case "wrapf":
				w.errs = append(w.errs, w.defs[s.F].Wrapf(w.errAt(s.C), s.Format, w.refArgs(s.Args)...))
			case "join":
				w.errs = append(w.errs, w.defs[s.F].Join(causes()...))
			case "recover":
				w.errs = append(w.errs, w.defs[s.F].Recover(func() error { return w.runCb(s.Cb) }))
			case "fmterrorf":
				w.errs = append(w.errs, fmt.Errorf(s.Msg+": %w", w.errs[*s.C]))
			case "errorsjoin":
				w.errs = append(w.errs, errors.Join(causes()...))
			case "single":
				w.errs = append(w.errs, &singleErr{msg: s.Msg, cause: w.errAt(s.C)})
			case "multi":
				w.errs = append(w.errs, &multiErr{msg: s.Msg, causes: causes()})
			case "leaf":
				if s.Ty == "errors" {
					w.errs = append(w.errs, errors.New(s.Msg))
				} else {
					w.errs = append(w.errs, &leafErr{msg: s.Msg})
				}
			case "defaserr":
				w.errs = append(w.errs, w.defs[s.D].(error))
			default:
				panic("unknown statement " + s.T)
			}
		}()
	}
	return w
}

// c16Docs marshals the errdef errors of a world (used on the prediction's copy only).
func c16Docs(w *world) map[int][]byte {
	docs := map[int][]byte{}
	j := -1
	for _, e := range w.errs {
		if e == nil {
			continue
		}
		j++
		if len(docs) >= 4 {
			break
		}
		de, ok := e.(errdef.Error)
		if !ok {
			continue
		}
		if _, isDef := e.(errdef.Definition); isDef {
			continue
		}
		func() {
			defer func() { _ = recover() }()
			if b, err := json.Marshal(de); err == nil {
				docs[j] = b
			}
		}()
	}
	return docs
}

// c16Ops lists the operations on the shared objects of world w.  It calls no accessor
// of w's errors itself; docs are the JSON documents of the twin copy's errors.
func c16Ops(w *world, docs map[int][]byte) []c16Op {
	defs := w.defs
	var ops []c16Op
	add := func(kind, name string, f func() string) {
		ops = append(ops, c16Op{Kind: kind, Name: kind + " " + name, F: f, Cmp: true})
	}
	// shared option slices, argument slices, cause slices (with spare capacity)
	pool := w.pool
	mkOpts := func(ps ...POpt) []errdef.Option {
		out := make([]errdef.Option, 0, len(ps)+3)
		for _, o := range ps {
			g, _ := w.opt(o)
			out = append(out, g)
		}
		return out
	}
	optsA := mkOpts(POpt{T: "field", Key: 0, Val: 22}, POpt{T: "field", Key: 2, Val: 3}, POpt{T: "field", Key: 19, Val: 46})
	optsB := mkOpts(POpt{T: "notrace"}, POpt{T: "field", Key: 15, Val: 15})
	optsC := mkOpts(POpt{T: "skip", N: 0}, POpt{T: "depth", N: 3}, POpt{T: "source", A: 1, D: -1})
	optsSrc := mkOpts(POpt{T: "source", A: 2, D: 1})
	sharedArgs := make([]any, 0, 6)
	sharedArgs = append(sharedArgs, pool[3].V, pool[22].V)
	var nonNil []error
	for _, e := range w.errs {
		if e != nil {
			nonNil = append(nonNil, e)
		}
	}
	if len(nonNil) == 0 {
		nonNil = append(nonNil, errors.New("plain"))
	}
	sharedCauses := make([]error, 0, len(nonNil)+4)
	sharedCauses = append(sharedCauses, nonNil[0], nil)
	if len(nonNil) > 1 {
		sharedCauses = append(sharedCauses, nonNil[1], nonNil[0])
	}
	ctxs := append([]context.Context{context.Background()}, w.ctxs...)
	sharedCtx := errdef.ContextWithOptions(ctxs[len(ctxs)-1], optsA...)
	sharedDetails := errdef.Details{"who": "shared", "n": 1}

	nd := len(defs)
	if nd > 6 {
		nd = 6
	}
	for i := 0; i < nd; i++ {
		i := i
		d := defs[i].(errdef.Definition)
		cause := nonNil[i%len(nonNil)]
		ctx := ctxs[i%len(ctxs)]
		add("definition", fmt.Sprintf("d%d accessors", i), func() string {
			var b strings.Builder
			fmt.Fprintf(&b, "%q %q %s is=", d.Kind(), d.Error(), c16Fields(d.Fields()))
			for _, e := range nonNil {
				fmt.Fprintf(&b, "%v", d.Is(e))
			}
			for _, ki := range p1Keys {
				v, ok := d.Fields().Get(keyPool[ki].Key)
				if ok {
					fmt.Fprintf(&b, " %s=%#v eq=%v", c16KeyName(keyPool[ki].Key), v.Value(), v.Equal(v.Value()))
				}
			}
			for _, n := range []string{"s", "n", "b"} {
				for _, k := range d.Fields().FindKeys(n) {
					b.WriteString(" fk:" + c16KeyName(k))
				}
			}
			return b.String()
		})
		add("definition", fmt.Sprintf("d%d as error", i), func() string { return c16Snap(d, defs, true) })
		add("with", fmt.Sprintf("d%d.With(ctx,optsA).New", i), func() string {
			return c16Snap(d.With(ctx, optsA...).New("m"), defs, false)
		})
		add("with", fmt.Sprintf("d%d.With(sharedCtx).Wrap", i), func() string {
			return c16Snap(d.With(sharedCtx).Wrap(cause), defs, false)
		})
		add("with", fmt.Sprintf("d%d.With(ContextWithOptions(ctx,optsB)).Errorf", i), func() string {
			c := errdef.ContextWithOptions(ctx, optsB...)
			return c16Snap(d.With(c, optsC...).Errorf("n=%d %s", sharedArgs...), defs, false)
		})
		add("withoptions", fmt.Sprintf("d%d.WithOptions(optsB).Errorf", i), func() string {
			return c16Snap(d.WithOptions(optsB...).Errorf("%[2]s then %[1]d", sharedArgs...), defs, false)
		})
		add("key", fmt.Sprintf("FieldConstructor.Key() of the pool keys (round %d)", i), func() string {
			var b strings.Builder
			for _, ki := range p1Keys {
				if fn := keyPool[ki].KeyFn; fn != nil {
					k := fn()
					fmt.Fprintf(&b, "%s:%v ", c16KeyName(k), k == keyPool[ki].Key)
				}
			}
			return b.String()
		})
		add("withoptions", fmt.Sprintf("d%d.WithOptions(Details,optsB).New", i), func() string {
			return c16Snap(d.WithOptions(append([]errdef.Option{sharedDetails}, optsB...)...).New("det"), defs, false)
		})
		add("with", fmt.Sprintf("d%d.With(ContextWithOptions(ctx,Details)).Wrap", i), func() string {
			return c16Snap(d.With(errdef.ContextWithOptions(ctx, sharedDetails), optsA...).Wrap(cause), defs, false)
		})
		add("withoptions", fmt.Sprintf("d%d.WithOptions(optsC).New", i), func() string {
			return c16Snap(d.WithOptions(optsC...).New("src"), defs, false)
		})
		add("source", fmt.Sprintf("first frame with source of d%d.WithOptions(StackSource(2,1)).New", i), func() string {
			e, ok := d.WithOptions(optsSrc...).New("s").(errdef.Error)
			if !ok {
				return "not an errdef.Error"
			}
			for f, src := range e.Stack().FramesAndSource() {
				if !strings.Contains(f.Func, "c16Ops.func") {
					break // StackSkip: the first frame is the caller's; its source is still read, not compared
				}
				return fmt.Sprintf("%s:%d\n%s", filepath.Base(f.File), f.Line, src)
			}
			return "first frame: none or the caller's"
		})
		add("new", fmt.Sprintf("d%d.New", i), func() string { return c16Snap(d.New("fresh"), defs, false) })
		add("errorf", fmt.Sprintf("d%d.Errorf", i), func() string { return c16Snap(d.Errorf("v=%v q=%q", sharedArgs...), defs, false) })
		add("wrap", fmt.Sprintf("d%d.Wrap", i), func() string { return c16Snap(d.Wrap(cause), defs, false) })
		add("wrap", fmt.Sprintf("d%d.Wrap(nil)", i), func() string { return c16Snap(d.Wrap(nil), defs, false) })
		add("wrapf", fmt.Sprintf("d%d.Wrapf", i), func() string { return c16Snap(d.Wrapf(cause, "ctx %d %s", sharedArgs...), defs, false) })
		add("join", fmt.Sprintf("d%d.Join(shared...)", i), func() string { return c16Snap(d.Join(sharedCauses...), defs, false) })
		add("join", fmt.Sprintf("d%d.Join(single)", i), func() string { return c16Snap(d.Join(nil, cause, nil), defs, false) })
		add("recover", fmt.Sprintf("d%d.Recover(panic err)", i), func() string {
			return c16Snap(d.Recover(func() error { panic(cause) }), defs, false)
		})
		add("recover", fmt.Sprintf("d%d.Recover(panic value)", i), func() string {
			return c16Snap(d.Recover(func() error { panic(panicVals[i%len(panicVals)]) }), defs, false)
		})
		add("recover", fmt.Sprintf("d%d.Recover(return)", i), func() string {
			return c16Snap(d.Recover(func() error { return cause }), defs, false)
		})
	}
	ne := len(nonNil)
	if ne > 10 {
		ne = 10
	}
	for j := 0; j < ne; j++ {
		j := j
		e := nonNil[j]
		add("shared-error", fmt.Sprintf("e%d full snapshot (Is, extractors, Fields, UnwrapTree, %%+v, JSON, slog, DebugStack)", j), func() string {
			return c16Snap(e, defs, true)
		})
		add("render", fmt.Sprintf("e%d %%+v", j), func() string { return fmt.Sprintf("%+v", e) })
		if ee, ok := e.(errdef.Error); ok {
			add("source", fmt.Sprintf("e%d Stack().FramesAndSource()", j), func() string {
				var b strings.Builder
				for f, src := range ee.Stack().FramesAndSource() {
					fmt.Fprintf(&b, "%s:%d[%s]", filepath.Base(f.File), f.Line, src)
				}
				return b.String()
			})
		}
	}
	// a shared resolver and a shared unmarshaler
	seen := map[errdef.Kind]bool{}
	var rdefs []errdef.Definition
	for _, f := range defs {
		d := f.(errdef.Definition)
		if d.Kind() == "" || seen[d.Kind()] {
			continue
		}
		seen[d.Kind()] = true
		rdefs = append(rdefs, d)
	}
	if len(rdefs) > 0 {
		res := resolver.New(rdefs...)
		dres := res.WithDefault(rdefs[0])
		add("resolver", "ResolveKind/ResolveField/ResolveFieldFunc", func() string {
			var b strings.Builder
			for _, k := range []errdef.Kind{"k1", "k2", "", "nope"} {
				d, ok := res.ResolveKind(k)
				fmt.Fprintf(&b, "%q:%v,%v;%q;", k, ok, d != nil && d.Kind() == k, dres.ResolveKindOrDefault(k).Kind())
			}
			for _, ki := range p1Keys {
				for _, vi := range []int{1, 3, 22, 15} {
					d, ok := res.ResolveField(keyPool[ki].Key, pool[vi].V)
					fmt.Fprintf(&b, "%v", ok)
					if ok {
						fmt.Fprintf(&b, "=%q", d.Kind())
					}
					d2, ok2 := res.ResolveFieldFunc(keyPool[ki].Key, func(v errdef.FieldValue) bool { return v.Equal(pool[vi].V) })
					fmt.Fprintf(&b, "/%v", ok2 && d2 == d || !ok2 && !ok)
				}
			}
			return b.String()
		})
		var custom []errdef.FieldKey
		for _, k := range keyPool[:nBaseKeys] {
			custom = append(custom, k.Key)
		}
		um := unmarshaler.NewJSON(dres, unmarshaler.WithCustomFields(custom...), unmarshaler.WithBuiltinFields(),
			unmarshaler.WithStandardSentinelErrors())
		umStrict := unmarshaler.NewJSON(res, unmarshaler.WithStrictMode(), unmarshaler.WithCustomFields(custom...))
		umBare := unmarshaler.NewJSON(resolver.New().WithDefault(c16BareDefault))
		for j := range nonNil {
			doc, ok := docs[j]
			if !ok {
				continue
			}
			j := j
			snapRestored := func(r unmarshaler.UnmarshaledError) string {
				var b strings.Builder
				b.WriteString(c16Snap(r, defs, true))
				var us []string
				for n, v := range r.UnknownFields() {
					us = append(us, fmt.Sprintf("%s=%#v", n, v))
				}
				sort.Strings(us)
				fmt.Fprintf(&b, "|unknown=%v|frames=%v", us, r.Stack().Frames())
				return b.String()
			}
			add("unmarshal", fmt.Sprintf("shared unmarshaler.Unmarshal(shared doc of e%d)", j), func() string {
				r, err := um.Unmarshal(doc)
				if err != nil {
					return "ERR:" + c16Snap(err, defs, false)
				}
				return snapRestored(r)
			})
			add("unmarshal", fmt.Sprintf("strict unmarshaler.Unmarshal(shared doc of e%d)", j), func() string {
				r, err := umStrict.Unmarshal(doc)
				if err != nil {
					return "ERR:" + c16Snap(err, defs, false)
				}
				return snapRestored(r)
			})
			// restored through a resolver whose only definition has no fields and an unmarshaler
			// without custom keys: every field arrives unknown but convertible, so typed lookups
			// (extractors, Fields().Get, OrZero ...) go through the lazy conversion path
			if rb, err := umBare.Unmarshal(doc); err == nil {
				add("restored", fmt.Sprintf("typed lookups on the shared bare-restored e%d", j), func() string {
					var b strings.Builder
					for _, ke := range keyPool[:nBaseKeys] {
						v, ok := ke.Ext(rb)
						fv, ok2 := rb.Fields().Get(ke.Key)
						fmt.Fprintf(&b, "%d:%v,%v,%s,%s;", ke.ID, ok, ok2, reprOf(v), reprOf(ke.OrZero(rb)))
						_ = fv
					}
					return b.String()
				})
				add("restored", fmt.Sprintf("accessors of the shared bare-restored e%d", j), func() string { return snapRestored(rb) })
			}
			if r, err := um.Unmarshal(doc); err == nil {
				add("restored", fmt.Sprintf("accessors of the shared restored e%d", j), func() string { return snapRestored(r) })
				add("restored", fmt.Sprintf("json.Marshal + re-Unmarshal of the shared restored e%d", j), func() string {
					b, err := json.Marshal(r)
					if err != nil {
						return "ERR:" + err.Error()
					}
					r2, err := um.Unmarshal(b)
					if err != nil {
						return "ERR2:" + err.Error()
					}
					return string(b) + "|" + fmt.Sprintf("%+v", r2)
				})
			}
		}
	}
	return ops
}

var c16BareDefault = errdef.Define("c16-bare", errdef.NoTrace())

func c16ChildMain(args []string) int {
	if len(args) < 1 {
		fmt.Fprintln(os.Stderr, "usage: vh c16stress <json descriptor>")
		return 2
	}
	var d c16Desc
	if err := json.Unmarshal([]byte(args[0]), &d); err != nil {
		fmt.Fprintln(os.Stderr, err)
		return 2
	}
	if d.Procs > 0 {
		runtime.GOMAXPROCS(d.Procs)
	}
	t0 := time.Now()
	out := c16Out{Kinds: map[string]int{}, Mismatches: []string{}}
	r := NewRng(d.Seed)
	for pi := 0; pi < d.Progs; pi++ {
		prog := c16Program(r, d.MaxStmts)
		// Two identical copies of the shared objects, built by the same call site (so that
		// their stacks are equal): copy 0 serves the sequential prediction, copy 1 is not
		// touched before the barrier - the goroutines are the first to use its objects.
		var worlds [2]*world
		for c := 0; c < 2; c++ {
			worlds[c] = c16Build(prog)
		}
		docs := c16Docs(worlds[0])
		pred, ops := c16Ops(worlds[0], docs), c16Ops(worlds[1], docs)
		if len(pred) != len(ops) {
			out.Mismatches = append(out.Mismatches, fmt.Sprintf("program %d: the two copies have %d and %d operations", pi, len(pred), len(ops)))
			continue
		}
		want := make([]string, len(ops))
		for i, o := range pred { // the sequential prediction (three times: it must be deterministic)
			want[i] = c16Safe(o.F)
			if b, c := c16Safe(o.F), c16Safe(o.F); want[i] != b || b != c || ops[i].Name != o.Name {
				ops[i].Cmp = false
				out.Unstable++
				if os.Getenv("C16_DEBUG") != "" {
					fmt.Fprintf(os.Stderr, "UNSTABLE %s\n  %s\n  %s\n", o.Name, want[i], b)
				}
			}
			out.Kinds[o.Kind]++
			if (o.Kind == "render" || o.Kind == "source") && strings.Contains(want[i], "> ") {
				out.Snippets++
			}
		}
		// goroutines start with the operations that read source files
		order := make([]int, 0, len(ops))
		for i, o := range ops {
			if o.Kind == "source" || o.Kind == "render" {
				order = append(order, i)
			}
		}
		nsrc := len(order)
		for i, o := range ops {
			if o.Kind != "source" && o.Kind != "render" {
				order = append(order, i)
			}
		}
		if d.FreshSource {
			errdef.VerifResetSourceState() // the goroutines use source reading for the first time
		}
		start := make(chan struct{})
		var wg sync.WaitGroup
		mism := make([][]string, d.Goroutines)
		counts := make([]int, d.Goroutines)
		for g := 0; g < d.Goroutines; g++ {
			wg.Add(1)
			go func(g int) {
				defer wg.Done()
				<-start
				for round := 0; round < d.Rounds; round++ {
					for k := range order {
						// rotate inside the source-reading prefix and inside the rest
						var i int
						if k < nsrc {
							i = order[(k+g+round)%nsrc]
						} else {
							rest := len(order) - nsrc
							i = order[nsrc+(k-nsrc+g*7+round*13)%rest]
						}
						got := c16Safe(ops[i].F)
						counts[g]++
						if ops[i].Cmp && got != want[i] && len(mism[g]) < 3 {
							mism[g] = append(mism[g], fmt.Sprintf("program %d goroutine %d op %q: alone %.300q concurrently %.300q DIFF %s", pi, g, ops[i].Name, want[i], got, c16Diff(want[i], got)))
						}
					}
				}
			}(g)
		}
		close(start)
		wg.Wait()
		for g := 0; g < d.Goroutines; g++ {
			out.Ops += counts[g]
			out.Mismatches = append(out.Mismatches, mism[g]...)
		}
		out.Programs++
	}
	if len(out.Mismatches) > 20 {
		out.Mismatches = out.Mismatches[:20]
	}
	// the detector's reports so far (GORACE log_path=<p> writes <p>.<pid>)
	for _, kv := range strings.Fields(os.Getenv("GORACE")) {
		if p, ok := strings.CutPrefix(kv, "log_path="); ok {
			if b, err := os.ReadFile(fmt.Sprintf("%s.%d", p, os.Getpid())); err == nil {
				out.Races = strings.Count(string(b), "WARNING: DATA RACE")
			}
		}
	}
	out.ElapsedMS = time.Since(t0).Milliseconds()
	b, _ := json.Marshal(out)
	fmt.Println(string(b))
	return 0
}

// c16Diff shows where two results start to differ.
func c16Diff(a, b string) string {
	k := 0
	for k < len(a) && k < len(b) && a[k] == b[k] {
		k++
	}
	lo := max(0, k-60)
	return fmt.Sprintf("at byte %d: alone ...%q concurrently ...%q", k, a[lo:min(len(a), k+120)], b[lo:min(len(b), k+120)])
}
