package main

import (
	"encoding/json"
	"errors"
	"fmt"
	"strings"

	"github.com/shiwano/errdef"
)

func init() {
	register(&Prop{
		ID: "C02", Imports: "Base.Str Model.Core Model.Prog Check.C02", Module: "C02",
		Rule:      "program creates an errdef error over a non-nil cause, or a Join with at least one nil and one non-nil argument; distinct by Coq term",
		ShardSize: 50,
		Gen: func(r *Rng, tier string) []Case {
			n := 240
			if tier == "thorough" {
				n = 6000
			}
			var out []Case
			// corpus: messages are built from Error(), never from the cause's fmt output - causes whose
			// definition carries a Formatter; formats with escaped / stray percent signs without arguments
			for _, f := range []string{"ctx %d", "100%% sure", "disk 100% full", "plain"} {
				var a []int
				if f == "ctx %d" {
					a = []int{3}
				}
				out = append(out, runC02([]PStmt{
					{T: "define", Kind: "k1", Opts: []POpt{{T: "fmt", ID: 1}, {T: "notrace"}}}, {T: "new", F: 0, Msg: "inner"},
					{T: "define", Kind: "k2", Opts: []POpt{{T: "notrace"}}}, {T: "wrapf", F: 1, C: ip(0), Format: f, Args: a},
					{T: "wrap", F: 1, C: ip(0)}, {T: "join", F: 1, Cs: []*int{ip(0), ip(1)}}, {T: "errorf", F: 0, Format: f, Args: a},
					{T: "errorf", F: 1, Format: f, Args: a}, {T: "wrapf", F: 0, C: ip(2), Format: f, Args: a}}))
			}
			nt := []POpt{{T: "notrace"}}
			// corpus: a recovered error used as a panic value again (alone, wrapped, behind %w)
			out = append(out, runC02([]PStmt{
				{T: "define", Kind: "k1", Opts: nt}, {T: "define", Kind: "k2", Opts: nt},
				{T: "recover", F: 0, Cb: &PCb{T: "panicVal", Val: 0}}, {T: "wrap", F: 1, C: ip(0)},
				{T: "recover", F: 1, Cb: &PCb{T: "panicErr", E: ip(1)}}, {T: "recover", F: 0, Cb: &PCb{T: "call", C: &PCb{T: "panicErr", E: ip(0)}}},
				{T: "fmterrorf", Msg: "w", C: ip(0)}, {T: "recover", F: 1, Cb: &PCb{T: "panicErr", E: ip(4)}}}))
			// corpus: a factory joining its own earlier join alone (the accumulator idiom), root and derived
			out = append(out, runC02([]PStmt{
				{T: "define", Kind: "k1", Opts: nt}, {T: "with", D: 0},
				{T: "new", F: 0, Msg: "a"}, {T: "new", F: 0, Msg: "b"},
				{T: "join", F: 0, Cs: []*int{ip(0), ip(1)}}, {T: "join", F: 0, Cs: []*int{ip(2)}}, {T: "join", F: 0, Cs: []*int{nil, ip(2), nil}},
				{T: "join", F: 1, Cs: []*int{ip(0), ip(1)}}, {T: "join", F: 1, Cs: []*int{ip(5)}}, {T: "join", F: 0, Cs: []*int{ip(5)}}, {T: "join", F: 1, Cs: []*int{ip(2), nil}}}))
			for i := 0; i < n; i++ {
				cfg := p1Cfg{MaxStmts: 6 + i*12/n, Keys: p1Keys, Recover: true, Presenters: i%3 == 0}
				out = append(out, runC02(genProg(r, cfg)))
			}
			return out
		},
		Replay: func(d json.RawMessage) ([]Case, error) {
			var desc p1Desc
			if err := json.Unmarshal(d, &desc); err != nil {
				return nil, err
			}
			return []Case{runC02(desc.Prog)}, nil
		},
	})
}

// safeEq is err == pool entry, guarding against uncomparable dynamic types.
func safeEq(a, b error) (eq bool) {
	defer func() { _ = recover() }()
	return a == b
}

func (w *world) idxOf(e error) int {
	if e == nil {
		return -1
	}
	for i, x := range w.errs {
		if x != nil && safeEq(x, e) {
			return i
		}
	}
	return -1
}

func cZList(xs []int) string {
	var cs []string
	for _, x := range xs {
		cs = append(cs, cZ(int64(x)))
	}
	return cList(cs)
}
func cBoolList(xs []bool) string {
	var cs []string
	for _, x := range xs {
		cs = append(cs, cBool(x))
	}
	return cList(cs)
}

func runC02(p []PStmt) Case {
	w := newWorld()
	panics := w.run(p)
	var obs []string
	nonNilCause := false
	for _, e := range w.errs {
		if e == nil {
			obs = append(obs, "{| o_nil := true; o_msg := \"\"; o_unwrap := []; o_cause := (-1)%Z; o_is := []; o_as := [] |}")
			continue
		}
		func() {
			defer func() {
				if pv := recover(); pv != nil {
					panics = append(panics, fmt.Sprintf("observer: %v", pv))
					obs = append(obs, "{| o_nil := false; o_msg := \"<panic>\"; o_unwrap := []; o_cause := (-1)%Z; o_is := []; o_as := [] |}")
				}
			}()
			var unwrap []int
			cause := -1
			if de, ok := e.(errdef.Error); ok {
				if _, isDef := e.(errdef.Definition); !isDef {
					for _, c := range de.Unwrap() {
						unwrap = append(unwrap, w.idxOf(c))
					}
					if c, ok := e.(interface{ Cause() error }); ok {
						cause = w.idxOf(c.Cause())
					}
					if len(unwrap) > 0 {
						nonNilCause = true
					}
				}
			}
			var is []bool
			for _, t := range w.errs {
				is = append(is, errors.Is(e, t))
			}
			var s1 *singleErr
			var s2 *multiErr
			var s3 *leafErr
			var s4 errdef.PanicError
			as := []int{-1, -1, -1, -1}
			if errors.As(e, &s1) {
				as[0] = w.idxOf(s1)
			}
			if errors.As(e, &s2) {
				as[1] = w.idxOf(s2)
			}
			if errors.As(e, &s3) {
				as[2] = w.idxOf(s3)
			}
			if errors.As(e, &s4) {
				as[3] = w.idxOf(s4)
			}
			obs = append(obs, fmt.Sprintf("{| o_nil := false; o_msg := %s; o_unwrap := %s; o_cause := %s; o_is := %s; o_as := %s |}",
				cStr(e.Error()), cZList(unwrap), cZ(int64(cause)), cBoolList(is), cZList(as)))
		}()
	}
	coq := fmt.Sprintf("{| c_prog := %s; c_obs := %s |}", w.coqProg(), cList(obs))
	o := fmt.Sprintf("%d errors observed", len(w.errs))
	if len(panics) > 0 {
		o += fmt.Sprintf("; PANICS: %v", panics)
	}
	return Case{Coq: strings.ReplaceAll(coq, "\n", " "), Desc: mustJSON(p1Desc{Prog: p}), Size: len(p),
		Nontrivial: nonNilCause, Class: fmt.Sprintf("stmts=%d", len(p)/4*4), Summary: progSummary(p), Observed: o}
}
