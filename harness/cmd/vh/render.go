package main

// Shared by the renderer checks (C08 JSON, C18 text, C19 slog): programs with
// presenters and stacks, and restored errors obtained from a real JSON round trip
// and handed to the model as literals (Check/Render.v rlit).

import (
	"encoding/json"
	"fmt"
	"sort"

	"github.com/shiwano/errdef"
	"github.com/shiwano/errdef/resolver"
	"github.com/shiwano/errdef/unmarshaler"
)

// restoredGiven round-trips every errdef error of the pool that marshals, and
// returns the restored errors with their literal terms.
type given struct {
	Err error
	Coq string
}

func (w *world) roundTripAll() []given {
	// resolver: every pool definition with a unique non-empty kind (first wins)
	seen := map[string]bool{}
	var defs []errdef.Definition
	regIdx := map[string]int{}
	for i, f := range w.defs {
		d := f.(errdef.Definition)
		k := string(d.Kind())
		if k == "" || seen[k] {
			continue
		}
		seen[k] = true
		defs = append(defs, d)
		regIdx[k] = i
	}
	if len(defs) == 0 {
		return nil
	}
	var custom []errdef.FieldKey
	for _, k := range keyPool[:nBaseKeys] {
		custom = append(custom, k.Key)
	}
	um := unmarshaler.NewJSON(resolver.New(defs...), unmarshaler.WithCustomFields(custom...))
	var out []given
	for _, e := range w.errs {
		de, ok := e.(errdef.Error)
		if !ok {
			continue
		}
		if _, isDef := e.(errdef.Definition); isDef {
			continue
		}
		func() {
			defer func() { _ = recover() }()
			b, err := json.Marshal(de)
			if err != nil {
				return
			}
			// a document may spell an empty stack explicitly: the restored error then holds an
			// empty, non-nil frame slice - still "no stack" for every renderer
			var top map[string]json.RawMessage
			if json.Unmarshal(b, &top) == nil {
				if raw, has := top["stack"]; !has {
					top["stack"] = json.RawMessage("[]")
					if b2, err := json.Marshal(top); err == nil {
						b = b2
					}
				} else {
					// ... and a payload may carry frames without a file or without a function name
					// (other producers, stripped binaries): they are frames like any other
					var frames []json.RawMessage
					if json.Unmarshal(raw, &frames) == nil && len(frames) > 0 {
						extra := []json.RawMessage{json.RawMessage(`{"func":"restored.nofile","file":"","line":0}`), json.RawMessage(`{"func":"","file":"nofunc.go","line":7}`)}
						frames = append(frames[:1], append(extra, frames[1:]...)...)
						if len(out)%2 == 1 { // every other restored error: such a frame is the head frame
							frames = append(extra[:1:1], frames...)
						}
						if fb, err := json.Marshal(frames); err == nil {
							top["stack"] = fb
							if b2, err := json.Marshal(top); err == nil {
								b = b2
							}
						}
					}
				}
			}
			r, err := um.Unmarshal(b)
			if err != nil {
				return
			}
			out = append(out, given{Err: r, Coq: w.rlitCoq(r, regIdx)})
		}()
		if len(out) >= 3 {
			break
		}
	}
	return out
}

func fvalOf(v any) string {
	js := "!err"
	if b, err := json.Marshal(v); err == nil {
		js = string(b)
	}
	return fmt.Sprintf("{| fv_repr := %s; fv_plus := %s; fv_json := %s |}",
		cStr(fmt.Sprintf("%T:%#v", v, v)), cStr(fmt.Sprintf("%+v", v)), cStr(js))
}

func (w *world) rlitCoq(e error, regIdx map[string]int) string {
	switch x := e.(type) {
	case unmarshaler.UnmarshaledError:
		var typed, unknown []string
		unk := map[string]bool{}
		for n := range x.UnknownFields() {
			unk[n] = true
		}
		type nv struct {
			n string
			s string
		}
		var ts, us []nv
		for fk, fv := range x.Fields().All() {
			if unk[fk.String()] {
				us = append(us, nv{fk.String(), fmt.Sprintf("(%s, %s)", cStr(fk.String()), fvalOf(fv.Value()))})
				continue
			}
			for _, ke := range keyPool {
				if ke.Key == fk {
					ts = append(ts, nv{fk.String(), fmt.Sprintf("(%s, %s)", coqKey(ke), fvalOf(fv.Value()))})
				}
			}
		}
		sort.Slice(ts, func(i, j int) bool { return ts[i].n < ts[j].n })
		sort.Slice(us, func(i, j int) bool { return us[i].n < us[j].n })
		for _, t := range ts {
			typed = append(typed, t.s)
		}
		for _, u := range us {
			unknown = append(unknown, u.s)
		}
		var cs []string
		for _, c := range x.Unwrap() {
			cs = append(cs, w.rlitCoq(c, regIdx))
		}
		return fmt.Sprintf("(RLRest %s %s {| rf_typed := %s; rf_unknown := %s |} %s %s)", cNat(regIdx[string(x.Kind())]), cStr(x.Error()),
			cList(typed), cList(unknown), coqFrameList(x.Stack().Frames()), cList(cs))
	case *unmarshaler.UnknownCauseError:
		var cs []string
		for _, c := range x.Unwrap() {
			cs = append(cs, w.rlitCoq(c, regIdx))
		}
		return fmt.Sprintf("(RLUnk %s %s %s)", cStr(x.Error()), cStr(x.TypeName()), cList(cs))
	case errdef.Definition:
		return fmt.Sprintf("(RLDef %s)", cNat(regIdx[string(x.Kind())]))
	}
	return fmt.Sprintf("(RLLeaf %s %s)", cStr(e.Error()), cStr(fmt.Sprintf("%T", e)))
}

// renderSubjects lists the errors a renderer check looks at: the errdef errors of the
// pool (not bare definitions) and the given restored ones.
type subject struct {
	Err error
	Coq string
}

func (w *world) renderSubjects(gs []given) []subject {
	var out []subject
	for i, e := range w.errs {
		if e == nil {
			continue
		}
		if _, ok := e.(errdef.Error); !ok {
			continue
		}
		if _, isDef := e.(errdef.Definition); isDef {
			continue
		}
		out = append(out, subject{Err: e, Coq: "(SPool " + cNat(i) + ")"})
	}
	for i, g := range gs {
		out = append(out, subject{Err: g.Err, Coq: "(SGiven " + cNat(i) + ")"})
	}
	return out
}

func givenCoq(gs []given) string {
	var cs []string
	for _, g := range gs {
		cs = append(cs, g.Coq)
	}
	return cList(cs)
}

// renderCorpus: small fixed programs the renderer checks (C08 C18 C19) always run before the
// generated ones - minimised inputs of earlier failures and of seeded changes that the random
// programs of one seed do not always contain
// poolIdx: the index of the first pool value with that description
func poolIdx(str string) int {
	for i, v := range valuePool() {
		if v.Str == str {
			return i
		}
	}
	panic("no pool value " + str)
}

func renderCorpus() [][]PStmt {
	skip := POpt{T: "skip", N: 1000}
	nilURL := poolIdx("(*url.URL)(nil)")
	field := POpt{T: "field", Key: 0, Val: 22}
	return [][]PStmt{
		// a stack object with zero frames (StackSkip beyond the call depth): "no stack" for every view
		{{T: "define", Kind: "k1", Opts: []POpt{skip}}, {T: "new", F: 0, Msg: "m1"}},
		{{T: "define", Kind: "k1"}, {T: "withopts", D: 0, Opts: []POpt{skip}}, {T: "new", F: 0, Msg: "inner"}, {T: "wrap", F: 1, C: ip(0)}},
		{{T: "define", Kind: "k1"}, {T: "ctx", Opts: []POpt{skip}}, {T: "with", D: 0, Ctx: ip(0)}, {T: "new", F: 1, Msg: "m1"}},
		// a single-frame stack
		{{T: "define", Kind: "k1", Opts: []POpt{{T: "depth", N: 1}}}, {T: "new", F: 0, Msg: "m1"}},
		{{T: "define", Kind: "k1"}, {T: "withopts", D: 0, Opts: []POpt{{T: "depth", N: 1}, field}}, {T: "new", F: 1, Msg: "m1"}},
		// presenters survive derivation, and act on a nested cause of their definition
		{{T: "define", Kind: "k1", Opts: []POpt{{T: "json", ID: 1}, {T: "fmt", ID: 2}, {T: "log", ID: 3}, {T: "notrace"}}},
			{T: "withopts", D: 0, Opts: []POpt{field}}, {T: "new", F: 1, Msg: "derived"},
			{T: "define", Kind: "k2", Opts: []POpt{{T: "notrace"}}}, {T: "wrap", F: 2, C: ip(0)}, {T: "join", F: 2, Cs: []*int{ip(0), nil, ip(1)}}},
		{{T: "define", Kind: "k1", Opts: []POpt{{T: "json", ID: 1}, {T: "notrace"}}}, {T: "ctx", Opts: []POpt{field}}, {T: "with", D: 0, Ctx: ip(0)},
			{T: "new", F: 1, Msg: "via context"}, {T: "define", Kind: "k2", Opts: []POpt{{T: "notrace"}}}, {T: "wrap", F: 2, C: ip(0)}},
		// a field that marshals as JSON null (a nil pointer in an any-typed key): restored as an UNKNOWN field
		// named "any", which sorts before the typed fields "b", "n", "s" of the same restored error
		{{T: "define", Kind: "k1", Opts: []POpt{{T: "field", Key: 0, Val: 22}, {T: "field", Key: 19, Val: nilURL}, {T: "field", Key: 15, Val: 15}, {T: "field", Key: 2, Val: 3}, {T: "notrace"}}},
			{T: "new", F: 0, Msg: "null field"}, {T: "define", Kind: "k2", Opts: []POpt{{T: "notrace"}}}, {T: "wrap", F: 1, C: ip(0)}},
		// a foreign cause with its own marshalers is still rendered by the library
		{{T: "define", Kind: "k1", Opts: []POpt{{T: "notrace"}}}, {T: "leaf", Msg: "jm leaf", Ty: "jm"}, {T: "wrap", F: 0, C: ip(0)},
			{T: "single", Msg: "outer", C: ip(0)}, {T: "join", F: 0, Cs: []*int{ip(2), ip(0)}}},
	}
}
