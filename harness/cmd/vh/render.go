package main

// Shared by the renderer checks (C08 JSON, C18 text, C19 slog): programs with
// presenters and stacks, and restored errors obtained from a real JSON round trip
// and handed to the model as literals (Check/Render.v rlit).

import (
	"encoding/json"
	"fmt"
	"sort"

	"github.com/shiwano/errdef"
	"github.com/shiwano/errdef/resolver"
	"github.com/shiwano/errdef/unmarshaler"
)

// restoredGiven round-trips every errdef error of the pool that marshals, and
// returns the restored errors with their literal terms.
type given struct {
	Err error
	Coq string
}

func (w *world) roundTripAll() []given {
	// resolver: every pool definition with a unique non-empty kind (first wins)
	seen := map[string]bool{}
	var defs []errdef.Definition
	regIdx := map[string]int{}
	for i, f := range w.defs {
		d := f.(errdef.Definition)
		k := string(d.Kind())
		if k == "" || seen[k] {
			continue
		}
		seen[k] = true
		defs = append(defs, d)
		regIdx[k] = i
	}
	if len(defs) == 0 {
		return nil
	}
	var custom []errdef.FieldKey
	for _, k := range keyPool[:nBaseKeys] {
		custom = append(custom, k.Key)
	}
	um := unmarshaler.NewJSON(resolver.New(defs...), unmarshaler.WithCustomFields(custom...))
	var out []given
	for _, e := range w.errs {
		de, ok := e.(errdef.Error)
		if !ok {
			continue
		}
		if _, isDef := e.(errdef.Definition); isDef {
			continue
		}
		func() {
			defer func() { _ = recover() }()
			b, err := json.Marshal(de)
			if err != nil {
				return
			}
			// a document may spell an empty stack explicitly: the restored error then holds an
			// empty, non-nil frame slice - still "no stack" for every renderer
			var top map[string]json.RawMessage
			if json.Unmarshal(b, &top) == nil {
				if _, has := top["stack"]; !has {
					top["stack"] = json.RawMessage("[]")
					if b2, err := json.Marshal(top); err == nil {
						b = b2
					}
				}
			}
			r, err := um.Unmarshal(b)
			if err != nil {
				return
			}
			out = append(out, given{Err: r, Coq: w.rlitCoq(r, regIdx)})
		}()
		if len(out) >= 3 {
			break
		}
	}
	return out
}

func fvalOf(v any) string {
	js := "!err"
	if b, err := json.Marshal(v); err == nil {
		js = string(b)
	}
	return fmt.Sprintf("{| fv_repr := %s; fv_plus := %s; fv_json := %s |}",
		cStr(fmt.Sprintf("%T:%#v", v, v)), cStr(fmt.Sprintf("%+v", v)), cStr(js))
}

func (w *world) rlitCoq(e error, regIdx map[string]int) string {
	switch x := e.(type) {
	case unmarshaler.UnmarshaledError:
		var typed, unknown []string
		unk := map[string]bool{}
		for n := range x.UnknownFields() {
			unk[n] = true
		}
		type nv struct {
			n string
			s string
		}
		var ts, us []nv
		for fk, fv := range x.Fields().All() {
			if unk[fk.String()] {
				us = append(us, nv{fk.String(), fmt.Sprintf("(%s, %s)", cStr(fk.String()), fvalOf(fv.Value()))})
				continue
			}
			for _, ke := range keyPool {
				if ke.Key == fk {
					ts = append(ts, nv{fk.String(), fmt.Sprintf("(%s, %s)", coqKey(ke), fvalOf(fv.Value()))})
				}
			}
		}
		sort.Slice(ts, func(i, j int) bool { return ts[i].n < ts[j].n })
		sort.Slice(us, func(i, j int) bool { return us[i].n < us[j].n })
		for _, t := range ts {
			typed = append(typed, t.s)
		}
		for _, u := range us {
			unknown = append(unknown, u.s)
		}
		var cs []string
		for _, c := range x.Unwrap() {
			cs = append(cs, w.rlitCoq(c, regIdx))
		}
		return fmt.Sprintf("(RLRest %s %s {| rf_typed := %s; rf_unknown := %s |} %s %s)", cNat(regIdx[string(x.Kind())]), cStr(x.Error()),
			cList(typed), cList(unknown), coqFrameList(x.Stack().Frames()), cList(cs))
	case *unmarshaler.UnknownCauseError:
		var cs []string
		for _, c := range x.Unwrap() {
			cs = append(cs, w.rlitCoq(c, regIdx))
		}
		return fmt.Sprintf("(RLUnk %s %s %s)", cStr(x.Error()), cStr(x.TypeName()), cList(cs))
	case errdef.Definition:
		return fmt.Sprintf("(RLDef %s)", cNat(regIdx[string(x.Kind())]))
	}
	return fmt.Sprintf("(RLLeaf %s %s)", cStr(e.Error()), cStr(fmt.Sprintf("%T", e)))
}

// renderSubjects lists the errors a renderer check looks at: the errdef errors of the
// pool (not bare definitions) and the given restored ones.
type subject struct {
	Err error
	Coq string
}

func (w *world) renderSubjects(gs []given) []subject {
	var out []subject
	for i, e := range w.errs {
		if e == nil {
			continue
		}
		if _, ok := e.(errdef.Error); !ok {
			continue
		}
		if _, isDef := e.(errdef.Definition); isDef {
			continue
		}
		out = append(out, subject{Err: e, Coq: "(SPool " + cNat(i) + ")"})
	}
	for i, g := range gs {
		out = append(out, subject{Err: g.Err, Coq: "(SGiven " + cNat(i) + ")"})
	}
	return out
}

func givenCoq(gs []given) string {
	var cs []string
	for _, g := range gs {
		cs = append(cs, g.Coq)
	}
	return cList(cs)
}
