// Command vh is the correspondence harness: it generates inputs, runs the real
// library from /repo on them and writes inputs + observations as Coq case files.
package main

import (
	"crypto/sha256"
	"encoding/hex"
	"encoding/json"
	"flag"
	"fmt"
	"os"
	"path/filepath"
	"sort"
	"strings"
)

// Case is one generated input together with what the implementation did on it.
type Case struct {
	Coq        string          `json:"-"`    // Coq term of the property's case type
	Desc       json.RawMessage `json:"desc"` // input only; enough to re-run (replay)
	Tags       []string        `json:"tags"` // known-finding signatures this input matches
	Size       int             `json:"size"` // for picking the smallest failing case
	Nontrivial bool            `json:"nontrivial"`
	Class      string          `json:"class"`   // bucket for the input distribution
	Summary    string          `json:"summary"` // human-readable one-liner
	Observed   string          `json:"observed"`
}

// Prop describes one property's generator.
type Prop struct {
	ID        string
	Imports   string // Coq modules (after "From Errdef Require Import")
	Module    string // Coq module holding case/bad_ok/bad_corr, e.g. "C14"
	Rule      string // what makes a case non-trivial
	ShardSize int
	Gen       func(r *Rng, tier string) []Case
	Replay    func(desc json.RawMessage) ([]Case, error)
}

var props = map[string]*Prop{}

func register(p *Prop) { props[p.ID] = p }

type metaCase struct {
	Idx   int `json:"idx"`
	Shard int `json:"shard"`
	Local int `json:"local"`
	Case
}

type meta struct {
	Property     string         `json:"property"`
	Seed         int64          `json:"seed"`
	Tier         string         `json:"tier"`
	Shards       []string       `json:"shards"`
	Cases        []metaCase     `json:"cases"`
	Evaluations  int            `json:"evaluations"`
	Distinct     int            `json:"distinct_nontrivial"`
	Rule         string         `json:"rule"`
	Distribution map[string]int `json:"distribution"`
	Extra        map[string]any `json:"extra,omitempty"`
}

var extraMeta = map[string]any{}

func writeShards(p *Prop, cases []Case, seed int64, tier, out string) error {
	if err := os.MkdirAll(out, 0o755); err != nil {
		return err
	}
	old, _ := filepath.Glob(filepath.Join(out, "cases_*"))
	for _, f := range old {
		_ = os.Remove(f)
	}
	m := meta{Property: p.ID, Seed: seed, Tier: tier, Rule: p.Rule, Distribution: map[string]int{}, Extra: extraMeta}
	seen := map[string]bool{}
	ss := p.ShardSize
	if ss <= 0 {
		ss = 300
	}
	nsh := (len(cases) + ss - 1) / ss
	for s := 0; s < nsh; s++ {
		lo, hi := s*ss, min((s+1)*ss, len(cases))
		var b strings.Builder
		fmt.Fprintf(&b, "From Errdef Require Import %s.\n", p.Imports)
		fmt.Fprintf(&b, "Definition cases : list %s.case := [\n", p.Module)
		for i := lo; i < hi; i++ {
			if i > lo {
				b.WriteString(";\n")
			}
			b.WriteString(cases[i].Coq)
		}
		b.WriteString("\n].\n")
		fmt.Fprintf(&b, "Definition BadOk := Eval vm_compute in %s.bad_ok cases.\n", p.Module)
		fmt.Fprintf(&b, "Definition BadCorr := Eval vm_compute in %s.bad_corr cases.\n", p.Module)
		b.WriteString("Print BadOk.\nPrint BadCorr.\n")
		name := fmt.Sprintf("cases_%s_%d.v", p.ID, s)
		if err := os.WriteFile(filepath.Join(out, name), []byte(b.String()), 0o644); err != nil {
			return err
		}
		m.Shards = append(m.Shards, name)
	}
	for i, c := range cases {
		m.Cases = append(m.Cases, metaCase{Idx: i, Shard: i / ss, Local: i % ss, Case: c})
		m.Distribution[c.Class]++
		if c.Nontrivial {
			h := sha256.Sum256([]byte(c.Coq))
			k := hex.EncodeToString(h[:8])
			if !seen[k] {
				seen[k] = true
				m.Distinct++
			}
		}
	}
	m.Evaluations = len(cases)
	data, err := json.Marshal(m)
	if err != nil {
		return err
	}
	return os.WriteFile(filepath.Join(out, "meta.json"), data, 0o644)
}

func main() {
	if len(os.Args) < 3 {
		fmt.Fprintln(os.Stderr, "usage: vh gen|replay <PROP> [-seed n] [-tier quick|thorough] [-out dir] [-in file]")
		os.Exit(2)
	}
	cmd, id := os.Args[1], os.Args[2]
	// sub-process entry points used by some properties (crash isolation, race stress)
	if h, ok := subcommands[cmd]; ok {
		os.Exit(h(os.Args[2:]))
	}
	fs := flag.NewFlagSet(cmd, flag.ExitOnError)
	seed := fs.Int64("seed", 1, "PRNG seed")
	tier := fs.String("tier", "quick", "quick|thorough")
	out := fs.String("out", ".", "output directory")
	in := fs.String("in", "", "replay file")
	_ = fs.Parse(os.Args[3:])
	p, ok := props[id]
	if !ok {
		ids := []string{}
		for k := range props {
			ids = append(ids, k)
		}
		sort.Strings(ids)
		fmt.Fprintf(os.Stderr, "unknown property %s (have %v)\n", id, ids)
		os.Exit(2)
	}
	var cases []Case
	switch cmd {
	case "gen":
		cases = p.Gen(NewRng(*seed), *tier)
	case "replay":
		data, err := os.ReadFile(*in)
		if err != nil {
			fmt.Fprintln(os.Stderr, err)
			os.Exit(2)
		}
		var rp struct {
			Desc json.RawMessage `json:"desc"`
		}
		if err := json.Unmarshal(data, &rp); err != nil {
			fmt.Fprintln(os.Stderr, err)
			os.Exit(2)
		}
		cs, err := p.Replay(rp.Desc)
		if err != nil {
			fmt.Fprintln(os.Stderr, err)
			os.Exit(2)
		}
		cases = cs
	default:
		fmt.Fprintln(os.Stderr, "unknown command", cmd)
		os.Exit(2)
	}
	if err := writeShards(p, cases, *seed, *tier, *out); err != nil {
		fmt.Fprintln(os.Stderr, err)
		os.Exit(2)
	}
	fmt.Printf("%s: %d cases\n", id, len(cases))
}

var subcommands = map[string]func(args []string) int{}

// ---------- PRNG: splitmix64, one state for every random choice ----------

type Rng struct{ s uint64 }

func NewRng(seed int64) *Rng { return &Rng{s: uint64(seed)*0x9E3779B97F4A7C15 + 0x1234567} }
func (r *Rng) U64() uint64 {
	r.s += 0x9E3779B97F4A7C15
	z := r.s
	z = (z ^ (z >> 30)) * 0xBF58476D1CE4E5B9
	z = (z ^ (z >> 27)) * 0x94D049BB133111EB
	return z ^ (z >> 31)
}
func (r *Rng) Intn(n int) int {
	if n <= 0 {
		return 0
	}
	return int(r.U64() % uint64(n))
}
func (r *Rng) Bool() bool           { return r.U64()&1 == 1 }
func (r *Rng) Chance(p, q int) bool { return r.Intn(q) < p }
func Pick[T any](r *Rng, xs []T) T  { return xs[r.Intn(len(xs))] }

// ---------- Coq term printing ----------

func cN(n int) string   { return fmt.Sprintf("%d%%N", n) }
func cNat(n int) string { return fmt.Sprintf("%d%%nat", n) }
func cZ(z int64) string {
	if z < 0 {
		return fmt.Sprintf("(%d)%%Z", z)
	}
	return fmt.Sprintf("%d%%Z", z)
}
func cZu(z uint64) string { return fmt.Sprintf("%d%%Z", z) }
func cBool(b bool) string {
	if b {
		return "true"
	}
	return "false"
}

// cStr prints a Go string (arbitrary bytes) as a Coq string term.
func cStr(s string) string {
	plain := true
	for i := 0; i < len(s); i++ {
		c := s[i]
		if c < 0x20 || c > 0x7e {
			plain = false
			break
		}
	}
	if plain {
		return "\"" + strings.ReplaceAll(s, "\"", "\"\"") + "\""
	}
	var parts []string
	var cur strings.Builder
	flush := func() {
		if cur.Len() > 0 {
			parts = append(parts, "\""+strings.ReplaceAll(cur.String(), "\"", "\"\"")+"\"")
			cur.Reset()
		}
	}
	for i := 0; i < len(s); i++ {
		c := s[i]
		if c < 0x20 || c > 0x7e {
			flush()
			parts = append(parts, fmt.Sprintf("ch %d", c))
		} else {
			cur.WriteByte(c)
		}
	}
	flush()
	return "(cat [" + strings.Join(parts, "; ") + "])"
}
func cList(items []string) string { return "[" + strings.Join(items, "; ") + "]" }
func cOpt(s string, ok bool) string {
	if !ok {
		return "None"
	}
	return "(Some " + s + ")"
}
func cPair(a, b string) string { return "(" + a + ", " + b + ")" }

func mustJSON(v any) json.RawMessage {
	b, err := json.Marshal(v)
	if err != nil {
		panic(err)
	}
	return b
}
