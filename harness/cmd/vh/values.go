package main

import (
	"fmt"
	"log/slog"
	"math"
	"net/url"
	"reflect"
	"time"

	"github.com/shiwano/errdef"
)

// Type ids shared with coq/theories/Model/Value.v.
const (
	tyString = 1 + iota
	tyInt
	tyInt8
	tyInt16
	tyInt32
	tyInt64
	tyUint
	tyUint8
	tyUint16
	tyUint32
	tyUint64
	tyFloat32
	tyFloat64
	tyBool
)
const (
	tyDuration = 18
	tyBytes    = 19
	tyURL      = 20
	tyMyInt    = 100
	tyMyStr    = 101
	tyP        = 102
	tyQ        = 103
	tyIntSlice = 104
	tyMapSI    = 105
	tyArr2     = 106
	tyMyF64    = 107
	tyR        = 108
	tyLogLevel = 130
)

type (
	MyInt int
	MyStr string
	MyF64 float64
	P     struct {
		A int
		B string
	}
	Q struct{ Xs []int }
	// R is comparable as a type but not always as a value (Data may hold a slice)
	R struct {
		Name string
		Data any
	}
)

// gval is a Go value of the pool together with its Coq rv term.
type gval struct {
	V   any
	Ty  int // dynamic type id, 0 for nil
	Coq string
	Str string
	// NotAny: not offered to `any`-typed keys (float32 values whose float64 widening prints
	// differently: slog stores a float32 as float64, the reference renderings are the float32's)
	NotAny bool
}

func rInt(ty int, v int64, gv any) gval {
	return gval{V: gv, Ty: ty, Coq: fmt.Sprintf("(RInt %s %s)", cN(ty), cZ(v)), Str: fmt.Sprintf("%T(%v)", gv, gv)}
}
func rStr(ty int, s string, gv any) gval {
	return gval{V: gv, Ty: ty, Coq: fmt.Sprintf("(RStr %s %s)", cN(ty), cStr(s)), Str: fmt.Sprintf("%T(%q)", gv, s)}
}
func rF64(ty int, f float64, gv any) gval {
	return gval{V: gv, Ty: ty, Coq: fmt.Sprintf("(RFlt %s %s true)", cN(ty), cZu(math.Float64bits(f))), Str: fmt.Sprintf("%T(%v)", gv, f)}
}
func rF32(f float32) gval {
	return gval{V: f, Ty: tyFloat32, Coq: fmt.Sprintf("(RFlt %s %s false)", cN(tyFloat32), cZu(uint64(math.Float32bits(f)))), Str: fmt.Sprintf("float32(%v)", f)}
}
func notAny(v gval) gval { v.NotAny = true; return v }
func rComp(ty int, cmp bool, gv any) gval {
	return gval{V: gv, Ty: ty, Coq: fmt.Sprintf("(RComp %s %s %s)", cN(ty), cBool(cmp), cStr(fmt.Sprintf("%#v", gv))), Str: fmt.Sprintf("%#v", gv)}
}
func rURL(s string) gval {
	if s == "" {
		return gval{V: (*url.URL)(nil), Ty: tyURL, Coq: "(RUrl None)", Str: "(*url.URL)(nil)"}
	}
	u, err := url.Parse(s)
	if err != nil {
		panic(err)
	}
	return gval{V: u, Ty: tyURL, Coq: fmt.Sprintf("(RUrl (Some %s))", cStr(u.String())), Str: "url(" + s + ")"}
}
func b2i(b bool) int64 {
	if b {
		return 1
	}
	return 0
}

// valuePool builds fresh Go values on every call (composites must not alias,
// reflect.DeepEqual short-cuts on identical slice/map pointers).
func valuePool() []gval {
	negz := math.Copysign(0, -1)
	return []gval{
		rInt(tyInt, 0, int(0)), rInt(tyInt, 1, int(1)), rInt(tyInt, -1, int(-1)), rInt(tyInt, 42, int(42)),
		rInt(tyInt8, 1, int8(1)), rInt(tyInt16, 1, int16(1)), rInt(tyInt32, 1, int32(1)),
		rInt(tyInt64, 1, int64(1)), rInt(tyInt64, 42, int64(42)),
		rInt(tyUint, 1, uint(1)), rInt(tyUint8, 1, uint8(1)), rInt(tyUint16, 1, uint16(1)),
		rInt(tyUint32, 1, uint32(1)), rInt(tyUint64, 1, uint64(1)), rInt(tyUint64, 42, uint64(42)),
		rInt(tyBool, 1, true), rInt(tyBool, 0, false),
		rInt(tyDuration, 1, time.Duration(1)), rInt(tyDuration, 5e9, 5*time.Second),
		rInt(tyMyInt, 1, MyInt(1)), rInt(tyMyInt, 42, MyInt(42)),
		rStr(tyString, "", ""), rStr(tyString, "a", "a"), rStr(tyString, "x y", "x y"), rStr(tyString, "1", "1"),
		rStr(tyMyStr, "a", MyStr("a")), rStr(tyMyStr, "b", MyStr("b")),
		rF64(tyFloat64, 0, float64(0)), rF64(tyFloat64, negz, negz), rF64(tyFloat64, 1.5, 1.5),
		rF64(tyFloat64, 1, float64(1)), rF64(tyFloat64, math.NaN(), math.NaN()), rF64(tyFloat64, math.Inf(1), math.Inf(1)),
		rF64(tyMyF64, 1.5, MyF64(1.5)),
		rF32(1.5), rF32(float32(math.NaN())), rF32(1),
		{V: []byte("ab"), Ty: tyBytes, Coq: "(RBytes \"ab\")", Str: "[]byte(ab)"},
		{V: []byte("abc"), Ty: tyBytes, Coq: "(RBytes \"abc\")", Str: "[]byte(abc)"},
		rURL(""), rURL("http://a/x"), rURL("http://b"),
		rComp(tyP, true, P{1, "a"}), rComp(tyP, true, P{2, "a"}),
		rComp(tyQ, false, Q{[]int{1}}), rComp(tyQ, false, Q{[]int{2}}),
		rComp(tyIntSlice, false, []int{1, 2}), rComp(tyIntSlice, false, []int{1, 3}),
		rComp(tyMapSI, false, map[string]int{"a": 1}), rComp(tyMapSI, false, map[string]int{"a": 2}),
		rComp(tyArr2, true, [2]int{1, 2}), rComp(tyArr2, true, [2]int{2, 1}),
		rComp(tyR, true, R{"a", 1}), rComp(tyR, false, R{"a", []int{1}}), rComp(tyR, false, R{"a", []int{2}}),
		rInt(tyLogLevel, 4, slog.LevelWarn), rInt(tyLogLevel, 8, slog.LevelError),
		rStr(tyString, "l1\nl2", "l1\nl2"), rComp(tyP, true, P{3, "two\nlines"}),
		// appended later (indexes above are referred to by corpus cases)
		notAny(rF32(math.MaxFloat32)), notAny(rF32(-math.MaxFloat32)), notAny(rF32(0.1)), rF32(16777217), notAny(rF32(math.SmallestNonzeroFloat32)),
		rInt(tyInt8, -128, int8(-128)), rInt(tyInt8, 127, int8(127)), rInt(tyInt64, 1<<53, int64(1<<53)), rInt(tyInt64, -(1 << 53), int64(-(1 << 53))),
		rInt(tyUint64, 1<<53, uint64(1<<53)), rInt(tyUint64, 65536, uint64(65536)), rInt(tyMyInt, -7, MyInt(-7)),
		rF64(tyMyF64, 0.1, MyF64(0.1)), rF64(tyFloat64, 1e300, 1e300), rF64(tyFloat64, 5e-324, 5e-324), rF64(tyFloat64, 0.1, 0.1),
		notAny(rComp(tyIntSlice, false, []int(nil))), // marshals as JSON null (finding K10)
		rInt(tyUint8, 0, uint8(0)), rInt(tyUint64, 0, uint64(0)), rInt(tyInt8, 0, int8(0)),
	}
}

// keyEntry is one DefineField[T] call.
type keyEntry struct {
	ID   int
	Name string
	Ty   int // static type id; 0 = any
	Key  errdef.FieldKey
	Opt  func(v any) errdef.Option
	// KeyFn asks the constructor for its key again (FieldConstructor.Key()); nil for wrapped built-in keys
	KeyFn func() errdef.FieldKey
	// extractor forms (C03)
	Ext        func(err error) (any, bool)
	OrZero     func(err error) any
	OrDefault  func(err error, d any) any
	OrFallback func(err error, d any) any
	WithForms  func(err error, d any) [3]any // WithZero, WithDefault, WithFallback
	Zero       any
	StaticType reflect.Type // T of DefineField[T]
}

func (k keyEntry) stCoq() string {
	if k.Ty == 0 {
		return "SAny"
	}
	return "(STy " + cN(k.Ty) + ")"
}

func mkKey[T any](name string, ty int) keyEntry {
	ctor, ext := errdef.DefineField[T](name)
	conv := func(v any) T {
		var t T
		if v != nil {
			t = v.(T)
		}
		return t
	}
	var zero T
	return keyEntry{Name: name, Ty: ty, Key: ctor.Key(), Zero: zero, StaticType: reflect.TypeOf((*T)(nil)).Elem(),
		KeyFn:      func() errdef.FieldKey { return ctor.Key() },
		Opt:        func(v any) errdef.Option { return ctor(conv(v)) },
		Ext:        func(err error) (any, bool) { v, ok := ext(err); return v, ok },
		OrZero:     func(err error) any { return ext.OrZero(err) },
		OrDefault:  func(err error, d any) any { return ext.OrDefault(err, conv(d)) },
		OrFallback: func(err error, d any) any { return ext.OrFallback(err, func(error) T { return conv(d) }) },
		WithForms: func(err error, d any) [3]any {
			return [3]any{ext.WithZero()(err), ext.WithDefault(conv(d))(err), ext.WithFallback(func(error) T { return conv(d) })(err)}
		},
	}
}

// builtinKey wraps one of errdef's exported field constructor/extractor pairs.
func builtinKey[T any](name string, ty int, ctor errdef.FieldConstructor[T], ext errdef.FieldExtractor[T]) keyEntry {
	conv := func(v any) T {
		var t T
		if v != nil {
			t = v.(T)
		}
		return t
	}
	var zero T
	return keyEntry{Name: name, Ty: ty, Key: ctor.Key(), Zero: zero, StaticType: reflect.TypeOf((*T)(nil)).Elem(),
		Opt:        func(v any) errdef.Option { return ctor(conv(v)) },
		Ext:        func(err error) (any, bool) { v, ok := ext(err); return v, ok },
		OrZero:     func(err error) any { return ext.OrZero(err) },
		OrDefault:  func(err error, d any) any { return ext.OrDefault(err, conv(d)) },
		OrFallback: func(err error, d any) any { return ext.OrFallback(err, func(error) T { return conv(d) }) },
		WithForms: func(err error, d any) [3]any {
			return [3]any{ext.WithZero()(err), ext.WithDefault(conv(d))(err), ext.WithFallback(func(error) T { return conv(d) })(err)}
		},
	}
}

var keyPool = func() []keyEntry {
	ks := []keyEntry{
		mkKey[string]("s", tyString), mkKey[string]("s", tyString), mkKey[int]("n", tyInt), mkKey[int]("m", tyInt),
		mkKey[int8]("i8", tyInt8), mkKey[int16]("i16", tyInt16), mkKey[int32]("i32", tyInt32), mkKey[int64]("i64", tyInt64),
		mkKey[uint]("u", tyUint), mkKey[uint8]("u8", tyUint8), mkKey[uint16]("u16", tyUint16), mkKey[uint32]("u32", tyUint32),
		mkKey[uint64]("u64", tyUint64), mkKey[float32]("f32", tyFloat32), mkKey[float64]("f64", tyFloat64),
		mkKey[bool]("b", tyBool), mkKey[time.Duration]("d", tyDuration), mkKey[[]byte]("bytes", tyBytes),
		mkKey[*url.URL]("url", tyURL), mkKey[any]("any", 0), mkKey[any]("any2", 0),
		mkKey[MyInt]("myint", tyMyInt), mkKey[MyStr]("mystr", tyMyStr), mkKey[MyF64]("myf", tyMyF64),
		mkKey[P]("p", tyP), mkKey[Q]("q", tyQ), mkKey[[]int]("ints", tyIntSlice),
		mkKey[map[string]int]("msi", tyMapSI), mkKey[[2]int]("arr", tyArr2),
		mkKey[int]("s", tyInt), mkKey[string]("n", tyString), mkKey[R]("r", tyR),
		mkKey[*int]("pn", 120), mkKey[*string]("ps", 121), mkKey[*P]("pp", 122), mkKey[[3]int]("arr3", 123), mkKey[*MyInt]("pmi", 124),
		mkKey[uint64]("u64b", tyUint64), mkKey[int64]("i64b", tyInt64), mkKey[float64]("n", tyFloat64),
		builtinKey[slog.Level]("log_level", tyLogLevel, errdef.LogLevel, errdef.LogLevelFrom),
		builtinKey[int]("http_status", tyInt, errdef.HTTPStatus, errdef.HTTPStatusFrom),
		// pointers to non-scalar, non-JSON element types (tryConvertPointer): unmarshal checks only
		mkKey[*[2]int]("parr", 125), mkKey[**string]("pps", 126),
		// non-empty interface types: NewValue's assertion fails for every decoded value and
		// ZeroValue().Value() is nil (unmarshal checks only)
		mkKey[error]("ierr", 127), mkKey[fmt.Stringer]("istr", 128),
	}
	for i := range ks {
		ks[i].ID = i
	}
	return ks
}()

// nBaseKeys: keys usable with valuePool values (C14, P1); later entries exist for the unmarshal checks only
const nBaseKeys = 32

// valuesFor lists the pool indexes usable as a stored value of key k.
func valuesFor(k keyEntry, pool []gval) []int {
	var out []int
	for i, v := range pool {
		if (k.Ty == 0 && !v.NotAny) || v.Ty == k.Ty {
			out = append(out, i)
		}
	}
	return out
}
