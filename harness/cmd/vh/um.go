package main

// Shared infrastructure for the unmarshaler checks (C09, C10, C12, C13, C20 restored):
// a document DSL, its interpretation as *unmarshaler.DecodedData, configurations,
// and printers into the Coq types of Model/Convert.v and Model/Unmarshal.v.

import (
	"encoding/json"
	"errors"
	"fmt"
	"io"
	"math"
	"reflect"
	"regexp"
	"sort"
	"strings"

	"github.com/shiwano/errdef"
	"github.com/shiwano/errdef/resolver"
	"github.com/shiwano/errdef/unmarshaler"
)

// ---------- type registry: Go type -> id, and the fty term ----------

var typeIDs = map[reflect.Type]int{
	reflect.TypeOf(""): tyString, reflect.TypeOf(int(0)): tyInt, reflect.TypeOf(int8(0)): tyInt8,
	reflect.TypeOf(int16(0)): tyInt16, reflect.TypeOf(int32(0)): tyInt32, reflect.TypeOf(int64(0)): tyInt64,
	reflect.TypeOf(uint(0)): tyUint, reflect.TypeOf(uint8(0)): tyUint8, reflect.TypeOf(uint16(0)): tyUint16,
	reflect.TypeOf(uint32(0)): tyUint32, reflect.TypeOf(uint64(0)): tyUint64,
	reflect.TypeOf(float32(0)): tyFloat32, reflect.TypeOf(float64(0)): tyFloat64, reflect.TypeOf(true): tyBool,
	reflect.TypeOf([]byte(nil)): tyBytes,
}
var nextTypeID = 300

func typeID(t reflect.Type) int {
	if t == nil {
		return 0
	}
	if id, ok := typeIDs[t]; ok {
		return id
	}
	nextTypeID++
	typeIDs[t] = nextTypeID
	return nextTypeID
}

func skindCoq(k reflect.Kind) (string, bool) {
	m := map[reflect.Kind]string{
		reflect.Bool: "KBool", reflect.String: "KString", reflect.Int: "KInt", reflect.Int8: "KInt8",
		reflect.Int16: "KInt16", reflect.Int32: "KInt32", reflect.Int64: "KInt64", reflect.Uint: "KUint",
		reflect.Uint8: "KUint8", reflect.Uint16: "KUint16", reflect.Uint32: "KUint32", reflect.Uint64: "KUint64",
		reflect.Float32: "KFloat32", reflect.Float64: "KFloat64",
	}
	s, ok := m[k]
	return s, ok
}

func styCoq(t reflect.Type) string {
	k, _ := skindCoq(t.Kind())
	return fmt.Sprintf("{| s_id := %s; s_kind := %s |}", cN(typeID(t)), k)
}

// ftyCoq prints the field type of a key as Model/Convert.v's fty.
func ftyCoq(t reflect.Type) string {
	if t == nil {
		return "(FIface 0%N)"
	}
	if _, ok := skindCoq(t.Kind()); ok {
		return "(FScalar " + styCoq(t) + ")"
	}
	switch t.Kind() {
	case reflect.Interface:
		if t.NumMethod() > 0 { // error, fmt.Stringer ...: no value of the decoded universe implements it
			return "(FIfaceNE " + cN(typeID(t)) + ")"
		}
		return "(FIface " + cN(typeID(t)) + ")"
	case reflect.Pointer:
		if _, ok := skindCoq(t.Elem().Kind()); ok {
			return fmt.Sprintf("(FPtr %s %s)", cN(typeID(t)), styCoq(t.Elem()))
		}
		if t.Elem().Kind() == reflect.Struct {
			return "(FJson " + cN(typeID(t)) + ")"
		}
	case reflect.Struct, reflect.Map, reflect.Slice:
		return "(FJson " + cN(typeID(t)) + ")"
	}
	elem := "None"
	if t.Kind() == reflect.Pointer {
		// tryConvertPointer: a pointer whose element is neither a scalar (FPtr) nor a struct, slice or map
		if ek := t.Elem().Kind(); ek != reflect.Slice && ek != reflect.Map && ek != reflect.Struct {
			elem = fmt.Sprintf("(Some (%s, %s))", cN(typeID(t.Elem())), cN(int(ek)))
		}
	}
	return fmt.Sprintf("(FOther %s %s %s)", cN(typeID(t)), cN(int(t.Kind())), elem)
}

func ukeyCoq(k keyEntry) string {
	return fmt.Sprintf("{| uk_key := %s; uk_ty := %s |}", coqKey(k), ftyCoq(k.StaticType))
}

// ---------- values ----------

func svalCoq(v reflect.Value) string {
	switch v.Kind() {
	case reflect.Bool:
		return "(SBool " + cBool(v.Bool()) + ")"
	case reflect.String:
		return "(SStr " + cStr(v.String()) + ")"
	case reflect.Int, reflect.Int8, reflect.Int16, reflect.Int32, reflect.Int64:
		return "(SInt " + cZ(v.Int()) + ")"
	case reflect.Uint, reflect.Uint8, reflect.Uint16, reflect.Uint32, reflect.Uint64:
		return "(SInt " + cZu(v.Uint()) + ")"
	case reflect.Float32:
		return "(SF32 " + cZu(uint64(canonF32(float32(v.Float())))) + ")"
	case reflect.Float64:
		return "(SF64 " + cZu(canonF64(v.Float())) + ")"
	}
	return "(SStr \"?\")"
}

func canonF32(f float32) uint32 {
	if f != f {
		return 0x7FC00000
	}
	return math.Float32bits(f)
}
func canonF64(f float64) uint64 {
	if f != f {
		return 0x7FF8000000000000
	}
	return math.Float64bits(f)
}

// jsonForm is the oracle for tryConvertViaJSON: marshal, decode into the target type, canonical text.
func jsonForm(v any, target reflect.Type) (string, bool) {
	b, err := json.Marshal(v)
	if err != nil {
		return "", false
	}
	p := reflect.New(target)
	if err := json.Unmarshal(b, p.Interface()); err != nil {
		return "", false
	}
	return fmt.Sprintf("%#v", derefAll(p.Elem().Interface())), true
}

func derefAll(v any) any {
	rv := reflect.ValueOf(v)
	for rv.IsValid() && rv.Kind() == reflect.Pointer && !rv.IsNil() {
		rv = rv.Elem()
	}
	if !rv.IsValid() {
		return nil
	}
	return rv.Interface()
}

func canonJSON(v any) string {
	b, err := json.Marshal(v)
	if err != nil {
		return "!" + fmt.Sprintf("%T", v)
	}
	return string(b)
}

// dvalCoq prints a decoded value; targets are the candidate field types of the case
// (needed for the JSON oracle table and the ConvertibleTo list).
func dvalCoq(v any, targets []reflect.Type) string {
	if v == nil {
		return "DNil"
	}
	rv := reflect.ValueOf(v)
	t := rv.Type()
	if _, ok := skindCoq(t.Kind()); ok {
		return fmt.Sprintf("(DS %s %s)", styCoq(t), svalCoq(rv))
	}
	if b, ok := v.([]byte); ok {
		return "(DBytes " + cStr(string(b)) + ")"
	}
	switch v.(type) {
	case map[string]any, []any:
		tbl := []string{fmt.Sprintf("(0%%N, Some %s)", cStr(canonJSON(v)))}
		for _, tg := range targets {
			if tg == nil {
				continue
			}
			k := tg.Kind()
			if k == reflect.Struct || k == reflect.Map || k == reflect.Slice || k == reflect.Array || (k == reflect.Pointer && tg.Elem().Kind() == reflect.Struct) {
				if form, ok := jsonForm(v, tg); ok {
					tbl = append(tbl, fmt.Sprintf("(%s, Some %s)", cN(typeID(tg)), cStr(form)))
				} else {
					tbl = append(tbl, fmt.Sprintf("(%s, None)", cN(typeID(tg))))
				}
			}
		}
		return fmt.Sprintf("(DJ %s %s)", cN(typeID(t)), cList(tbl))
	}
	var conv []string
	seen := map[reflect.Type]bool{}
	add := func(tg reflect.Type) {
		if tg != nil && !seen[tg] && t.ConvertibleTo(tg) {
			seen[tg] = true
			conv = append(conv, cN(typeID(tg)))
		}
	}
	for _, tg := range targets {
		add(tg)
		if tg != nil && tg.Kind() == reflect.Pointer { // the element types of pointer targets (tryConvertPointer)
			add(tg.Elem())
		}
	}
	return fmt.Sprintf("(DO %s %s %s)", cN(typeID(t)), cN(int(t.Kind())), cList(conv))
}

// ovalCoq prints an observed (bound or unknown) value in the observation type of Check/UM.v.
func ovalCoq(v any) string {
	if v == nil {
		return "OVNil"
	}
	rv := reflect.ValueOf(v)
	t := rv.Type()
	if _, ok := skindCoq(t.Kind()); ok {
		return fmt.Sprintf("(OVS %s %s)", cN(typeID(t)), svalCoq(rv))
	}
	if b, ok := v.([]byte); ok {
		return "(OVBytes " + cStr(string(b)) + ")"
	}
	switch v.(type) {
	case map[string]any, []any:
		return fmt.Sprintf("(OVRepr %s %s)", cN(typeID(t)), cStr(canonJSON(v)))
	}
	if t.Kind() == reflect.Pointer && !rv.IsNil() {
		if _, ok := skindCoq(t.Elem().Kind()); ok {
			return fmt.Sprintf("(OVPtr %s %s %s)", cN(typeID(t)), cN(typeID(t.Elem())), svalCoq(rv.Elem()))
		}
	}
	k := t.Kind()
	if k == reflect.Struct || k == reflect.Map || k == reflect.Slice || k == reflect.Array || (k == reflect.Pointer && t.Elem().Kind() == reflect.Struct) {
		return fmt.Sprintf("(OVRepr %s %s)", cN(typeID(t)), cStr(fmt.Sprintf("%#v", derefAll(v))))
	}
	return fmt.Sprintf("(OVRepr %s \"\")", cN(typeID(t)))
}

// ---------- the value pool a decoder may put into Fields ----------

type umVal struct {
	Name string
	Mk   func() any
}

var umValues = []umVal{
	{"nil", func() any { return nil }},
	{"str", func() any { return "str" }},
	{"empty", func() any { return "" }},
	{"redacted", func() any { return "[REDACTED]" }},
	{"redactedBytes", func() any { return []byte("\"[REDACTED]\"") }},
	{"bytes", func() any { return []byte("ab") }},
	{"true", func() any { return true }},
	{"f3", func() any { return 3.0 }},
	{"f3.5", func() any { return 3.5 }},
	{"f-1", func() any { return -1.0 }},
	{"f300", func() any { return 300.0 }},
	{"f1e20", func() any { return 1e20 }},
	{"i5", func() any { return int64(5) }},
	{"i-5", func() any { return int64(-5) }},
	{"i2^40", func() any { return int64(1) << 40 }},
	{"int8(7)", func() any { return int8(7) }},
	{"MyInt(9)", func() any { return MyInt(9) }},
	{"MyStr", func() any { return MyStr("ms") }},
	{"uint16(3)", func() any { return uint16(3) }},
	{"float32(1.5)", func() any { return float32(1.5) }},
	{"int(4)", func() any { return int(4) }},
	{"mapP", func() any { return map[string]any{"A": 1.0, "B": "x"} }},
	{"mapBadP", func() any { return map[string]any{"A": "bad"} }},
	{"listInts", func() any { return []any{1.0, 2.0} }},
	{"listStr", func() any { return []any{"x"} }},
	{"mapSI", func() any { return map[string]any{"a": 1.0} }},
	{"arr2", func() any { return [2]int{1, 2} }},
	{"arr3", func() any { return [3]int{1, 2, 3} }},
	{"chan", func() any { return make(chan int) }},
	{"ptrP", func() any { return &P{A: 1, B: "b"} }},
	{"ptrInt", func() any { x := 5; return &x }},
	{"nilPtrInt", func() any { return (*int)(nil) }},
	{"nilPtrStr", func() any { return (*string)(nil) }},
	{"ptrArr2", func() any { return &[2]int{3, 4} }},
	{"P", func() any { return P{A: 2, B: "c"} }},
	{"listChan", func() any { return []any{make(chan int)} }},
	{"nan", func() any { return math.NaN() }},
	// appended later (indexes above are referred to by corpus cases)
	{"fmaxf32", func() any { return float64(math.MaxFloat32) }},
	{"f-maxf32", func() any { return -float64(math.MaxFloat32) }},
	{"f0.1", func() any { return 0.1 }},
	{"f2^53+2", func() any { return 9007199254740994.0 }},
	{"f2^63", func() any { return 0x1p63 }},
	{"f-2^63", func() any { return -0x1p63 }},
	{"f1e-45", func() any { return 1e-45 }},
	{"mapNaN", func() any { return map[string]any{"A": math.NaN()} }},
	{"listInf", func() any { return []any{1.0, math.Inf(1)} }},
	{"sliceInt1", func() any { return []int{1} }},
	{"sliceInt3", func() any { return []int{1, 2, 3} }},
}

// field names a document may carry, and the keys (keyPool indexes) a definition / custom list may carry
var umNames = []string{"s", "n", "i8", "u8", "f32", "f64", "b", "any", "myint", "mystr", "p", "ints", "msi", "arr", "arr3", "pn", "ps", "pp", "pmi", "zz", "http_status", "log_level", "N", "S", "F32", "parr", "pps", "ierr", "istr"}
var umKeys = []int{0, 29, 2, 30, 39, 4, 9, 13, 14, 15, 19, 21, 22, 24, 26, 27, 28, 32, 33, 34, 35, 36, 42, 43, 44, 45}

// ---------- document DSL ----------

type UDoc struct {
	Msg    string         `json:"msg"`
	Kind   string         `json:"kind"`
	Type   string         `json:"type"`
	Fields map[string]int `json:"fields,omitempty"` // name -> umValues index
	Stack  int            `json:"stack,omitempty"`  // number of frames
	Causes []*UDoc        `json:"causes,omitempty"`
}

type UDef struct {
	Kind string `json:"kind"`
	Keys []int  `json:"keys"` // keyPool indexes
}

type UCfg struct {
	Defs      []UDef `json:"defs"`
	Reg       []int  `json:"reg"`     // registration order (indexes into Defs)
	Default   *int   `json:"default"` // index into Defs
	Strict    bool   `json:"strict"`
	Custom    []int  `json:"custom,omitempty"`
	Builtin   bool   `json:"builtin,omitempty"`
	Sentinels []int  `json:"sentinels,omitempty"` // indexes into umSentinels
}

type UCase struct {
	Cfg    UCfg   `json:"cfg"`
	Doc    *UDoc  `json:"doc"`
	NilTop bool   `json:"niltop,omitempty"` // decoder returns (nil, nil)
	DecErr bool   `json:"decerr,omitempty"` // decoder returns an error
	Bytes  string `json:"bytes,omitempty"`  // non-empty: go through NewJSON with these bytes
}

var umSentinels = []error{io.EOF, errors.New("s1"), &leafErr{msg: "leaf1"}, io.ErrUnexpectedEOF}

var umKinds = []string{"k1", "k2", "k3", "", "nope"}
var umMsgs = []string{"m", "", "k1", "EOF", "s1", "leaf1", "multi\nline"}
var umTypes = []string{"", "*errors.errorString", "*errdef.definition", "*main.leafErr", "*fmt.wrapError"}

func genUDoc(r *Rng, depth int) *UDoc {
	d := &UDoc{Msg: Pick(r, umMsgs), Kind: Pick(r, umKinds), Type: ""}
	if r.Chance(1, 3) {
		d.Type = Pick(r, umTypes)
	}
	if r.Chance(1, 4) {
		d.Kind = ""
	}
	nf := r.Intn(4)
	if nf > 0 {
		d.Fields = map[string]int{}
		for i := 0; i < nf; i++ {
			name := Pick(r, umNames)
			d.Fields[name] = pickValueFor(r, name)
		}
	}
	d.Stack = r.Intn(3)
	if r.Chance(1, 6) {
		d.Stack = 3 + r.Intn(2)
	}
	if r.Chance(1, 6) {
		// a kind-less node that spells a registered sentinel's (type, message) - with or
		// without nested causes (only the cause-less one is the sentinel itself)
		sp := Pick(r, [][2]string{{"*errors.errorString", "EOF"}, {"*errors.errorString", "s1"}, {"*main.leafErr", "leaf1"}, {"*errors.errorString", "unexpected EOF"}})
		d.Kind, d.Type, d.Msg = "", sp[0], sp[1]
	}
	if depth > 0 {
		nc := r.Intn(3)
		for i := 0; i < nc; i++ {
			if r.Chance(1, 12) {
				d.Causes = append(d.Causes, nil)
			} else {
				d.Causes = append(d.Causes, genUDoc(r, depth-1))
			}
		}
	}
	return d
}

// pickValueFor: mostly values that could bind to a key of that name, sometimes anything.
func pickValueFor(r *Rng, name string) int {
	hints := map[string][]string{
		"s": {"str", "empty", "f3", "i5", "MyStr", "redacted"}, "n": {"f3", "i5", "str", "int(4)", "f3.5", "f2^53+2", "f2^63", "f-2^63"},
		"i8": {"f3", "f300", "i5", "int8(7)", "f3.5"}, "u8": {"f3", "f-1", "i-5", "f300"},
		"f32": {"f3.5", "f1e20", "i5", "i2^40", "float32(1.5)", "fmaxf32", "f-maxf32", "f0.1", "f1e-45"}, "f64": {"f3.5", "i5", "str", "f0.1", "f2^53+2"},
		"b": {"true", "str"}, "any": {"str", "nil", "f3", "mapP", "redactedBytes", "redacted", "bytes"}, "myint": {"f3", "MyInt(9)", "int(4)", "i5"},
		"mystr": {"str", "MyStr"}, "p": {"mapP", "mapBadP", "P", "ptrP", "listInts", "mapNaN"}, "ints": {"listInts", "listStr", "mapP", "listChan", "listInf"},
		"zz": {"nil", "str", "f3", "nil"}, "ierr": {"str", "f3", "nil", "mapP"}, "istr": {"str", "MyStr", "nil", "true"},
		"msi": {"mapSI", "mapP"}, "arr": {"arr2", "arr3", "listInts", "sliceInt1", "sliceInt3"}, "arr3": {"arr2", "arr3"},
		"pn": {"int(4)", "f3", "ptrInt", "nilPtrInt", "i5"}, "ps": {"str", "MyStr"}, "pp": {"mapP", "mapBadP", "ptrP"},
		"pmi": {"MyInt(9)", "int(4)"}, "http_status": {"f3", "str"}, "log_level": {"f3", "str"},
		"parr": {"arr2", "arr3", "ptrArr2", "listInts", "sliceInt1", "sliceInt3"}, "pps": {"nilPtrInt", "ptrInt", "nilPtrStr", "str"},
	}
	if hs, ok := hints[name]; ok && r.Chance(4, 5) {
		want := Pick(r, hs)
		for i, v := range umValues {
			if v.Name == want {
				return i
			}
		}
	}
	return r.Intn(len(umValues))
}

func genUCfg(r *Rng) UCfg {
	c := UCfg{}
	nd := 1 + r.Intn(3)
	for i := 0; i < nd; i++ {
		d := UDef{Kind: []string{"k1", "k2", "k3", "k1"}[r.Intn(4)]}
		if r.Chance(1, 16) {
			d.Kind = "" // a definition with the empty kind: what a kind-less node resolves to when it is registered
		}
		nk := r.Intn(5)
		for j := 0; j < nk; j++ {
			d.Keys = append(d.Keys, Pick(r, umKeys))
		}
		c.Defs = append(c.Defs, d)
	}
	for i := 0; i < nd; i++ {
		if r.Chance(5, 6) {
			c.Reg = append(c.Reg, i)
		}
	}
	if r.Chance(1, 3) {
		c.Reg = append(c.Reg, r.Intn(nd))
	}
	if r.Chance(1, 3) {
		c.Default = ip(r.Intn(nd))
	}
	c.Strict = r.Chance(2, 5)
	nc := r.Intn(4)
	for j := 0; j < nc; j++ {
		c.Custom = append(c.Custom, Pick(r, umKeys))
	}
	if r.Chance(1, 6) {
		// two distinct custom keys of one name
		c.Custom = append(c.Custom, Pick(r, [][]int{{2, 39}, {39, 2}, {2, 30}, {0, 29}, {0, 1}})...)
	}
	c.Builtin = r.Chance(1, 4)
	if r.Chance(1, 2) {
		for i := range umSentinels {
			if r.Chance(2, 3) {
				c.Sentinels = append(c.Sentinels, i)
			}
		}
	}
	return c
}

// ---------- building the real objects ----------

var builtinKeys = []keyEntry{
	mkBuiltin("http_status", errdef.HTTPStatus.Key(), 0), mkBuiltin("log_level", errdef.LogLevel.Key(), errdef.LogLevelFrom.OrZero(nil)),
	mkBuiltin("trace_id", errdef.TraceID.Key(), ""), mkBuiltin("domain", errdef.Domain.Key(), ""),
	mkBuiltin("user_hint", errdef.UserHint.Key(), ""), mkBuiltin("public", errdef.Public.Key(), false),
	mkBuiltin("retryable", errdef.Retryable.Key(), false), mkBuiltin("retry_after", errdef.RetryAfter.Key(), errdef.RetryAfterFrom.OrZero(nil)),
	mkBuiltin("unreportable", errdef.Unreportable.Key(), false), mkBuiltin("exit_code", errdef.ExitCode.Key(), 0),
	mkBuiltin("help_url", errdef.HelpURL.Key(), ""), mkBuiltin("details", errdef.Details{}.Key(), errdef.Details(nil)),
}

func mkBuiltin(name string, k errdef.FieldKey, zero any) keyEntry {
	return keyEntry{Name: name, Key: k, Zero: zero, StaticType: reflect.TypeOf(zero)}
}

func init() {
	for i := range builtinKeys {
		builtinKeys[i].ID = 500 + i
		builtinKeys[i].Ty = typeID(builtinKeys[i].StaticType)
	}
}

type umWorld struct {
	c          UCase
	defs       []errdef.Definition
	res        resolver.Resolver
	custom     []keyEntry
	targets    []reflect.Type
	raw        bool
	sents      []error           // sentinel pool for printing restored causes (default: umSentinels)
	customBase []errdef.FieldKey // caller-owned slice behind WithCustomFields (shared with the decoy)
}

func buildUM(c UCase) *umWorld {
	w := &umWorld{c: c}
	seen := map[reflect.Type]bool{}
	addT := func(k keyEntry) {
		if k.StaticType != nil && !seen[k.StaticType] {
			seen[k.StaticType] = true
			w.targets = append(w.targets, k.StaticType)
		}
	}
	for _, d := range c.Cfg.Defs {
		var opts []errdef.Option
		for _, ki := range d.Keys {
			k := keyPool[ki]
			opts = append(opts, k.Opt(k.Zero))
			addT(k)
		}
		opts = append(opts, errdef.NoTrace())
		w.defs = append(w.defs, errdef.Define(errdef.Kind(d.Kind), opts...))
	}
	var reg []errdef.Definition
	for _, i := range c.Cfg.Reg {
		reg = append(reg, w.defs[i])
	}
	sr := resolver.New(reg...)
	w.res = sr
	if c.Cfg.Default != nil {
		w.res = sr.WithDefault(w.defs[*c.Cfg.Default])
	}
	for _, ki := range c.Cfg.Custom {
		w.custom = append(w.custom, keyPool[ki])
		addT(keyPool[ki])
	}
	if c.Cfg.Builtin {
		for _, k := range builtinKeys {
			w.custom = append(w.custom, k)
			addT(k)
		}
	}
	return w
}

func (w *umWorld) options() []unmarshaler.Option {
	var opts []unmarshaler.Option
	if w.c.Cfg.Strict {
		opts = append(opts, unmarshaler.WithStrictMode())
	}
	var ck []errdef.FieldKey
	for _, ki := range w.c.Cfg.Custom {
		ck = append(ck, keyPool[ki].Key)
	}
	if len(ck) > 0 {
		// the keys are handed over as one caller-owned slice with spare capacity plus a second
		// option; the same slice is later given to a decoy unmarshaler with a different extra
		// key (decoyOptions): neither unmarshaler may see the other's key
		if w.customBase == nil {
			w.customBase = make([]errdef.FieldKey, len(ck)-1, len(ck)+3)
			copy(w.customBase, ck[:len(ck)-1])
		}
		opts = append(opts, unmarshaler.WithCustomFields(w.customBase...), unmarshaler.WithCustomFields(ck[len(ck)-1]))
	}
	if w.c.Cfg.Builtin {
		opts = append(opts, unmarshaler.WithBuiltinFields())
	}
	if len(w.c.Cfg.Sentinels) > 0 {
		var ss []error
		for _, i := range w.c.Cfg.Sentinels {
			ss = append(ss, umSentinels[i])
		}
		opts = append(opts, unmarshaler.WithSentinelErrors(ss...))
	}
	return opts
}

var decoyKey = func() errdef.FieldKey { c, _ := errdef.DefineField[string]("zz"); return c.Key() }()

// decoyOptions: a second unmarshaler configured from the same caller-owned key slice
func (w *umWorld) decoyOptions() []unmarshaler.Option {
	if w.customBase == nil {
		return nil
	}
	return []unmarshaler.Option{unmarshaler.WithCustomFields(w.customBase...), unmarshaler.WithCustomFields(decoyKey)}
}

// mkFrames: n <= 2 complete frames; 3: one frame WITHOUT a file; 4: a file-less frame, then a complete one
// (documents not written by the library)
func mkFrames(n int) []errdef.Frame {
	var fs []errdef.Frame
	switch n {
	case 3:
		return []errdef.Frame{{Func: "pkg.nofile", Line: 3}}
	case 4:
		return []errdef.Frame{{Func: "pkg.nofile", Line: 3}, {Func: "pkg.fn1", File: "/src/f1.go", Line: 11}}
	}
	for i := 0; i < n; i++ {
		fs = append(fs, errdef.Frame{Func: fmt.Sprintf("pkg.fn%d", i), File: fmt.Sprintf("/src/f%d.go", i), Line: 10 + i})
	}
	return fs
}

func (d *UDoc) decoded() *unmarshaler.DecodedData {
	if d == nil {
		return nil
	}
	dd := &unmarshaler.DecodedData{Message: d.Msg, Kind: errdef.Kind(d.Kind), Type: d.Type, Stack: mkFrames(d.Stack)}
	if d.Fields != nil {
		dd.Fields = map[string]any{}
		for n, vi := range d.Fields {
			dd.Fields[n] = umValues[vi].Mk()
		}
	}
	for _, c := range d.Causes {
		dd.Causes = append(dd.Causes, c.decoded())
	}
	return dd
}

var addrRe = regexp.MustCompile(`0x[0-9a-f]{6,}`)

func maskAddrs(s string) string { return addrRe.ReplaceAllString(s, "0xADDR") }

// ddCoq prints DecodedData as Model/Unmarshal.v's dd (fields sorted by name).
func ddCoq(d *unmarshaler.DecodedData, targets []reflect.Type) string {
	if d == nil {
		return "None"
	}
	return "(Some " + ddCoq1(d, targets) + ")"
}

func ddCoq1(d *unmarshaler.DecodedData, targets []reflect.Type) string {
	var names []string
	for n := range d.Fields {
		names = append(names, n)
	}
	sort.Strings(names)
	var fs []string
	for _, n := range names {
		fs = append(fs, fmt.Sprintf("(%s, %s)", cStr(n), dvalCoq(d.Fields[n], targets)))
	}
	var cs []string
	for _, c := range d.Causes {
		cs = append(cs, ddCoq(c, targets))
	}
	unk := ""
	if d.Message == "" {
		unk = maskAddrs(fmt.Sprintf("<unknown: %+v>", d))
	}
	return fmt.Sprintf("(DD %s %s %s %s %s %s %s)", cStr(maskAddrs(d.Message)), cStr(string(d.Kind)), cStr(d.Type),
		cList(fs), coqFrameList(d.Stack), cList(cs), cStr(unk))
}

func (w *umWorld) udefCoq(i int) string {
	var ks []string
	seen := map[int]bool{}
	// All() order = order of last write; keys written once each keep first-write order here
	// (a key listed twice moves to its last position)
	var order []int
	for _, ki := range w.c.Cfg.Defs[i].Keys {
		if seen[ki] {
			var o2 []int
			for _, x := range order {
				if x != ki {
					o2 = append(o2, x)
				}
			}
			order = o2
		}
		seen[ki] = true
		order = append(order, ki)
	}
	for _, ki := range order {
		ks = append(ks, ukeyCoq(keyPool[ki]))
	}
	// the definition record: only identity and kind matter here
	def := fmt.Sprintf("(define %s %s %s [ONoTrace])", cN(1000+i), cNat(i), cStr(w.c.Cfg.Defs[i].Kind))
	return fmt.Sprintf("{| ud_def := %s; ud_keys := %s |}", def, cList(ks))
}

func (w *umWorld) cfgCoq() string {
	var defs []string
	for _, i := range w.c.Cfg.Reg {
		defs = append(defs, w.udefCoq(i))
	}
	dflt := "None"
	if w.c.Cfg.Default != nil {
		dflt = "(Some " + w.udefCoq(*w.c.Cfg.Default) + ")"
	}
	var custom []string
	for _, k := range w.custom {
		custom = append(custom, ukeyCoq(k))
	}
	var sents []string
	for _, i := range w.c.Cfg.Sentinels {
		s := umSentinels[i]
		sents = append(sents, fmt.Sprintf("(%s, %s, %s)", cStr(fmt.Sprintf("%T", s)), cStr(s.Error()), cN(i)))
	}
	return fmt.Sprintf("{| u_defs := %s; u_default := %s; u_strict := %s; u_custom := %s; u_sentinels := %s |}",
		cList(defs), dflt, cBool(w.c.Cfg.Strict), cList(custom), cList(sents))
}

// ---------- observation of a restored error ----------

func (w *umWorld) defIndex(e error) int {
	idx, n := 999, 0
	im, ok := e.(interface{ Is(error) bool })
	if !ok {
		return 999
	}
	for i, d := range w.defs {
		if im.Is(d) { // the node's own Is method, not errors.Is (which would also visit the causes)
			idx = i
			n++
		}
	}
	if n != 1 {
		return 999
	}
	return idx
}

func (w *umWorld) anyKeyID(fk errdef.FieldKey) (int, bool) {
	for _, k := range builtinKeys { // first: two built-in keys also sit in keyPool (for C09)
		if k.Key == fk {
			return k.ID, true
		}
	}
	for _, k := range keyPool {
		if k.Key == fk {
			return k.ID, true
		}
	}
	return 0, false
}

// orerrCoq prints what is observable of a restored error as Check/UM.v's orerr.
func (w *umWorld) orerrCoq(e unmarshaler.UnmarshaledError) string {
	type kv struct {
		id int
		v  string
	}
	var typed []kv
	var unknown []string
	unk := map[string]any{}
	for n, v := range e.UnknownFields() {
		unk[n] = v
	}
	var un []string
	for n := range unk {
		un = append(un, n)
	}
	sort.Strings(un)
	for _, n := range un {
		unknown = append(unknown, fmt.Sprintf("(%s, %s)", cStr(n), ovalCoq(unk[n])))
	}
	var all []string
	for fk, fv := range e.Fields().All() {
		if id, ok := w.anyKeyID(fk); ok {
			typed = append(typed, kv{id, ovalCoq(fv.Value())})
			all = append(all, fmt.Sprintf("(%s, true)", cStr(fk.String())))
		} else {
			all = append(all, fmt.Sprintf("(%s, false)", cStr(fk.String())))
		}
	}
	sort.Slice(typed, func(i, j int) bool { return typed[i].id < typed[j].id })
	var ts []string
	for _, t := range typed {
		ts = append(ts, fmt.Sprintf("(%s, %s)", cN(t.id), t.v))
	}
	var cs []string
	for _, c := range e.Unwrap() {
		cs = append(cs, w.ocauseCoq(c))
	}
	emsg := e.Error()
	if !w.raw {
		emsg = maskAddrs(emsg)
	}
	return fmt.Sprintf("(ORErr %s %s %s %s %s %s %s)", cNat(w.defIndex(e)), cStr(emsg), cList(ts), cList(unknown),
		cList(all), coqFrameList(e.Stack().Frames()), cList(cs))
}

// orerrRaw is orerrCoq without address masking: used to compare repeated unmarshalings.
func (w *umWorld) orerrRaw(e unmarshaler.UnmarshaledError) string {
	w.raw = true
	defer func() { w.raw = false }()
	return w.orerrCoq(e)
}

func (w *umWorld) ocauseCoq(c error) string {
	switch x := c.(type) {
	case unmarshaler.UnmarshaledError:
		return "(OCErr " + w.orerrCoq(x) + ")"
	case *unmarshaler.UnknownCauseError:
		var cs []string
		for _, n := range x.Unwrap() {
			cs = append(cs, w.ocauseCoq(n))
		}
		msg := x.Error()
		if !w.raw {
			msg = maskAddrs(msg)
		}
		return fmt.Sprintf("(OCUnknown %s %s %s)", cStr(msg), cStr(x.TypeName()), cList(cs))
	case errdef.Definition:
		for i, d := range w.defs {
			if d == x {
				return "(OCDef " + cNat(i) + ")"
			}
		}
		return "(OCDef 999%nat)"
	}
	pool := umSentinels
	if w.sents != nil {
		pool = w.sents
	}
	for i, s := range pool {
		if safeEq(s, c) {
			return "(OCSentinel " + cN(i) + ")"
		}
	}
	return "(OCUnknown \"<other>\" \"\" [])"
}

func docSize(d *UDoc) int {
	if d == nil {
		return 1
	}
	n := 1 + len(d.Fields)
	for _, c := range d.Causes {
		n += docSize(c)
	}
	return n
}

func docSummary(d *UDoc) string {
	if d == nil {
		return "nil"
	}
	var fs []string
	for n, vi := range d.Fields {
		fs = append(fs, n+"="+umValues[vi].Name)
	}
	sort.Strings(fs)
	var cs []string
	for _, c := range d.Causes {
		cs = append(cs, docSummary(c))
	}
	return fmt.Sprintf("{kind=%q msg=%q type=%q %s causes=[%s]}", d.Kind, d.Msg, d.Type, strings.Join(fs, ","), strings.Join(cs, " "))
}
