package main

// C07 call sites for the source-availability stream.  Every constructor call below is mapped by a
// //line directive into a scratch source file under c07SrcDir (= $VERIF_SCRATCH/src for property
// C07; the path has to be known at compile time), so that the frames of the created errors point
// into files the harness creates, truncates, chmods and deletes between renders.
//
// Keep this file free of anything else: after the first //line directive every following line of
// this file is attributed to a scratch file.

import "github.com/shiwano/errdef"

const c07SrcDir = "/verif/.build/scratch/C07/src"

//go:noinline
func c07SiteA3(f errdef.Factory) error {
//line /verif/.build/scratch/C07/src/a.go:3
	return f.New("a3")
}

//go:noinline
func c07SiteA7(f errdef.Factory) error {
//line /verif/.build/scratch/C07/src/a.go:7
	return f.New("a7")
}

//go:noinline
func c07SiteB2(f errdef.Factory) error {
//line /verif/.build/scratch/C07/src/b.go:2
	return f.New("b2")
}

// two mapped frames: a.go:3 (innermost), then b.go:5
//
//go:noinline
func c07SiteB5A3(f errdef.Factory) error {
//line /verif/.build/scratch/C07/src/b.go:5
	err := c07SiteA3(f)
	return err
}

// two mapped frames in ONE file: a.go:3 (innermost), then a.go:7 (served from the cache)
//
//go:noinline
func c07SiteA7A3(f errdef.Factory) error {
//line /verif/.build/scratch/C07/src/a.go:7
	err := c07SiteA3(f)
	return err
}
