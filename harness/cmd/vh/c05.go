package main

// C05 - the stack starts at the creation site and every stack view agrees.
//
// PARTIAL BY NATURE: what runtime.Callers returns, what the inliner does and
// how pcs are symbolised is observed here, not proved.  The Coq side carries
// the arithmetic (which frames of the reference capture must remain) and the
// agreement of the views; this file supplies the reference capture, the views
// and the runtime's second symboliser (FuncForPC / FileLine).

import (
	"bytes"
	"context"
	"encoding/json"
	"errors"
	"fmt"
	"log/slog"
	"math"
	"path/filepath"
	"runtime"
	"strconv"
	"strings"

	"github.com/shiwano/errdef"
)

// tags of the known findings (see known_findings.json)
const (
	c05TagF8 = "debugstack-inlined-or-line" // DebugStack disagrees with Frames(): FuncForPC/FileLine on raw return pcs
	c05TagF9 = "recover-skip-off-by-one"    // Recover's stack starts one frame above the function that called panic
)

type c05Opt struct {
	T    string // skip, depth, notrace, source
	A, B int
}

type c05Desc struct {
	Ctor    int
	Site    int
	Wrap    []int
	Deep    int
	Pk      int
	PDepth  int
	BoomInl bool
	Def     []c05Opt
	Mode    int        // 0: the definition itself, 1: With(ctx, opts...), 2: WithOptions(opts...)
	Ctx     [][]c05Opt // nested ContextWithOptions layers, outermost first
	Opts    []c05Opt
}

func init() {
	register(&Prop{
		ID: "C05", Imports: "Base.Str Model.Core Model.Stack Check.C05", Module: "C05",
		Rule:      "error carries a stack and (an option is set at Define / context / call site, or the site is reached through a wrapper, or the constructor is Recover); distinct by Coq term",
		ShardSize: 60,
		Gen:       genC05,
		Replay: func(d json.RawMessage) ([]Case, error) {
			var desc c05Desc
			if err := json.Unmarshal(d, &desc); err != nil {
				return nil, err
			}
			return []Case{runC05(desc)}, nil
		},
	})
}

// ---------------------------------------------------------------- generation

var c05Depths = []int{-1, 0, 1, 2, 40}

func c05RandSite(r *Rng, d *c05Desc, maxWrap int) {
	d.Site = r.Intn(nSites)
	n := r.Intn(maxWrap + 1)
	d.Wrap = nil
	for i := 0; i < n; i++ {
		d.Wrap = append(d.Wrap, r.Intn(nWraps))
	}
	if d.Ctor == cRecover {
		d.Pk = r.Intn(nPanics)
		d.PDepth = r.Intn(4)
		d.BoomInl = d.Pk == pkString && r.Chance(1, 3)
	}
}

func genC05(r *Rng, tier string) []Case {
	var out []Case
	thorough := tier == "thorough"

	// 1. the library's own chain, looked at with negative skips (outside the
	//    property's domain: only the correspondence is evaluated)
	for ctor := 0; ctor < 6; ctor++ {
		for _, s := range []int{-10, -2} {
			out = append(out, runC05(c05Desc{Ctor: ctor, Site: sNo, Def: []c05Opt{{T: "skip", A: s}}}))
		}
	}

	// 2. the smallest cases, one per constructor and site kind, no options
	for ctor := 0; ctor < 6; ctor++ {
		for site := 0; site < nSites; site++ {
			out = append(out, runC05(c05Desc{Ctor: ctor, Site: site}))
		}
	}
	// every kind of panic, at two depths
	for pk := 0; pk < nPanics; pk++ {
		for _, pd := range []int{0, 2} {
			out = append(out, runC05(c05Desc{Ctor: cRecover, Site: sNo, Pk: pk, PDepth: pd}))
		}
	}
	out = append(out, runC05(c05Desc{Ctor: cRecover, Site: sInl, Pk: pkString, BoomInl: true}))

	// 3. grid: StackSkip 0..3 x StackDepth {none,-1,0,1,2,40} x NoTrace x placement
	//    (Define / context / With opts / WithOptions opts) x constructor
	type combo struct {
		skip, depth int // depth index: -1 = not given
		notrace     bool
		place       int
	}
	var combos []combo
	for place := 0; place < 4; place++ {
		for skip := 0; skip <= 3; skip++ {
			for di := -1; di < len(c05Depths); di++ {
				combos = append(combos, combo{skip, di, false, place})
				if (skip == 0 || skip == 3) && (di == -1 || di == 3) {
					combos = append(combos, combo{skip, di, true, place})
				}
			}
		}
	}
	sitesPer := 1
	if thorough {
		sitesPer = nSites
	}
	for _, cb := range combos {
		for ctor := 0; ctor < 6; ctor++ {
			for k := 0; k < sitesPer; k++ {
				var os []c05Opt
				if cb.skip > 0 || r.Chance(1, 2) {
					os = append(os, c05Opt{T: "skip", A: cb.skip})
				}
				if cb.depth >= 0 {
					os = append(os, c05Opt{T: "depth", A: c05Depths[cb.depth]})
				}
				if cb.notrace {
					os = append(os, c05Opt{T: "notrace"})
				}
				d := c05Desc{Ctor: ctor}
				switch cb.place {
				case 0:
					d.Def = os
				case 1:
					d.Mode, d.Ctx = 1, [][]c05Opt{os}
				case 2:
					d.Mode, d.Opts = 1, os
				default:
					d.Mode, d.Opts = 2, os
				}
				c05RandSite(r, &d, 6)
				if thorough {
					d.Site = k
				}
				// a stack deeper than 40 frames for the large depths
				if cb.depth == 4 && r.Chance(1, 2) {
					d.Deep = 30 + r.Intn(20)
				}
				out = append(out, runC05(d))
			}
		}
	}

	// 3b. additivity / last-wins across placements: one skip and one depth at each of
	//     Define, context and With(...) opts, all 27 skip triples x 4 depth triples
	depthTriples := [][3]int{{-9, -9, -9}, {1, 40, 2}, {2, -9, 1}, {40, 1, -9}} // -9: not given
	k3 := 0
	for s1 := 0; s1 < 3; s1++ {
		for s2 := 0; s2 < 3; s2++ {
			for s3 := 0; s3 < 3; s3++ {
				for _, dt := range depthTriples {
					mk := func(s, dp int) []c05Opt {
						os := []c05Opt{{T: "skip", A: s}}
						if dp != -9 {
							// depth before or after the skip: order inside one placement is irrelevant
							if (s+dp)%2 == 0 {
								os = append(os, c05Opt{T: "depth", A: dp})
							} else {
								os = append([]c05Opt{{T: "depth", A: dp}}, os...)
							}
						}
						return os
					}
					d := c05Desc{Ctor: k3 % 6, Mode: 1, Def: mk(s1, dt[0]), Ctx: [][]c05Opt{mk(s2, dt[1])}, Opts: mk(s3, dt[2])}
					k3++
					c05RandSite(r, &d, 4)
					out = append(out, runC05(d))
				}
			}
		}
	}

	// 3c. negative skips compensated later (and the other way round): the values add up, so a
	//     total >= 0 is inside the property's domain whatever the single values and their order
	k3c := 0
	for _, tr := range [][3]int{{-1, 1, 0}, {-1, 0, 1}, {0, -1, 1}, {-2, 1, 1}, {-1, 2, 0}, {1, -1, 0}, {2, -1, 0}, {0, 2, -2}, {-1, 1, 1}, {-3, 3, 0}} {
		for rep := 0; rep < 3; rep++ {
			mk := func(s int) []c05Opt {
				if s == 0 {
					return nil
				}
				return []c05Opt{{T: "skip", A: s}}
			}
			var d c05Desc
			switch rep {
			case 0: // Define, context, call site
				d = c05Desc{Ctor: k3c % 6, Mode: 1, Def: mk(tr[0]), Ctx: [][]c05Opt{mk(tr[1])}, Opts: mk(tr[2])}
			case 1: // all three in one option list, in this order
				d = c05Desc{Ctor: k3c % 6, Mode: 2, Opts: append(append(mk(tr[0]), mk(tr[1])...), mk(tr[2])...)}
			default: // nested contexts
				d = c05Desc{Ctor: k3c % 6, Mode: 1, Ctx: [][]c05Opt{mk(tr[0]), mk(tr[1]), mk(tr[2])}}
			}
			k3c++
			c05RandSite(r, &d, 5)
			out = append(out, runC05(d))
		}
	}

	// 4. random mixtures: several skips and depths spread over Define, nested
	//    contexts and the call site; StackSource; deep stacks around 32
	n := 260
	if thorough {
		n = 8000
	}
	randOpts := func(max int) []c05Opt {
		var os []c05Opt
		k := r.Intn(max + 1)
		for i := 0; i < k; i++ {
			switch r.Intn(10) {
			case 0, 1, 2, 3:
				os = append(os, c05Opt{T: "skip", A: r.Intn(5) - 1})
				if r.Chance(1, 14) {
					// more than any call depth: a stack object without frames (the sum must not wrap around)
					os[len(os)-1].A = Pick(r, []int{1000, 1000, math.MaxInt, math.MaxInt - 2})
				}
			case 4, 5, 6:
				os = append(os, c05Opt{T: "depth", A: Pick(r, []int{-1, 0, 1, 2, 3, 31, 32, 33, 40, 40, math.MaxInt, 1 << 40})})
			case 7:
				if r.Chance(1, 3) {
					os = append(os, c05Opt{T: "notrace"})
				} else {
					os = append(os, c05Opt{T: "skip", A: 1})
				}
			default:
				os = append(os, c05Opt{T: "source", A: r.Intn(3), B: Pick(r, []int{-1, 0, 1, 2})})
			}
		}
		return os
	}
	for i := 0; i < n; i++ {
		d := c05Desc{Ctor: r.Intn(6), Mode: r.Intn(3)}
		d.Def = randOpts(3)
		if d.Mode == 1 {
			if r.Chance(1, 3) {
				// a chain of single-option layers below: the option list of the parent context then has
				// spare capacity, and a sibling context derived later must not show in this one
				for l := 3 + r.Intn(3); l > 0; l-- {
					d.Ctx = append(d.Ctx, []c05Opt{{T: "skip", A: 0}})
				}
			}
			for l := r.Intn(3); l > 0; l-- {
				d.Ctx = append(d.Ctx, randOpts(2))
			}
		}
		if d.Mode != 0 {
			d.Opts = randOpts(3)
		}
		c05RandSite(r, &d, 6)
		if r.Chance(1, 3) {
			d.Deep = 8 + r.Intn(40)
		}
		out = append(out, runC05(d))
	}

	// summary for the evidence file
	tags := map[string]int{}
	inl := 0
	for _, c := range out {
		for _, t := range c.Tags {
			tags[t]++
		}
		if strings.Contains(c.Observed, "inlined-frames") {
			inl++
		}
	}
	extraMeta["tagged_cases"] = tags
	extraMeta["cases_with_inlined_frames_in_stack"] = inl
	extraMeta["partial"] = "runtime.Callers, the inliner and pc symbolisation are observed, not proved"
	return out
}

// ---------------------------------------------------------------- running one case

func c05ToOpts(os []c05Opt) []errdef.Option {
	var out []errdef.Option
	for _, o := range os {
		switch o.T {
		case "skip":
			out = append(out, errdef.StackSkip(o.A))
		case "depth":
			out = append(out, errdef.StackDepth(o.A))
		case "notrace":
			out = append(out, errdef.NoTrace())
		case "source":
			out = append(out, errdef.StackSource(o.A, o.B))
		}
	}
	return out
}

func c05CoqOpts(os []c05Opt) string {
	var out []string
	for _, o := range os {
		switch o.T {
		case "skip":
			out = append(out, "OSkip "+cZ(int64(o.A)))
		case "depth":
			out = append(out, "ODepth "+cZ(int64(o.A)))
		case "notrace":
			out = append(out, "ONoTrace")
		case "source":
			// StackSource(around, depth): around < 0 becomes 0, depth = 0 is a no-op option
			a := o.A
			if a < 0 {
				a = 0
			}
			if o.B == 0 {
				out = append(out, "ONoop")
			} else {
				out = append(out, fmt.Sprintf("OSource %s %s", cZ(int64(a)), cZ(int64(o.B))))
			}
		}
	}
	return cList(out)
}

var c05Roots struct{ harness, repo, goroot string }

func init() {
	_, file, _, _ := runtime.Caller(0)
	c05Roots.harness = filepath.Dir(file)
	var pcs [1]uintptr
	runtime.Callers(0, pcs[:])
	f, _ := runtime.CallersFrames(pcs[:]).Next()
	if i := strings.Index(f.File, "/src/runtime/"); i >= 0 {
		c05Roots.goroot = f.File[:i]
	}
	// file of a function of package errdef
	if st, ok := errdef.StackFrom(errdef.Define("probe", errdef.StackSkip(-1)).New("x")); ok {
		if h, ok := st.HeadFrame(); ok && strings.Contains(h.Func, "errdef.") {
			c05Roots.repo = filepath.Dir(h.File)
		}
	}
}

// no absolute paths in the cases
func c05Canon(f errdef.Frame) errdef.Frame {
	for _, p := range []struct{ root, name string }{{c05Roots.harness, "$H"}, {c05Roots.repo, "$R"}, {c05Roots.goroot, "$G"}} {
		if p.root != "" && strings.HasPrefix(f.File, p.root+"/") {
			f.File = p.name + f.File[len(p.root):]
			break
		}
	}
	return f
}

func c05Sym(pcs []uintptr) []errdef.Frame {
	if len(pcs) == 0 {
		return nil
	}
	var out []errdef.Frame
	fs := runtime.CallersFrames(pcs)
	for {
		f, more := fs.Next()
		out = append(out, c05Canon(errdef.Frame{Func: f.Function, File: f.File, Line: f.Line}))
		if !more {
			break
		}
	}
	return out
}

// frames the runtime puts between runtime.gopanic and c05Boom for each kind
// of panic, from a defer/recover of the harness itself
var c05PrefixCache = map[int][]errdef.Frame{}

func c05RuntimePrefix(pk int) []errdef.Frame {
	if r, ok := c05PrefixCache[pk]; ok {
		return r
	}
	var all []errdef.Frame
	func() {
		defer func() {
			_ = recover()
			var pcs [64]uintptr
			n := runtime.Callers(0, pcs[:])
			all = c05Sym(pcs[:n])
		}()
		c05Boom(&c05Call{pk: pk, cause: errors.New("cause")})
	}()
	var out []errdef.Frame
	in := false
	for _, f := range all {
		if in {
			if f.Func == "main.c05Boom" {
				break
			}
			out = append(out, f)
		}
		if f.Func == "runtime.gopanic" {
			in = true
		}
	}
	c05PrefixCache[pk] = out
	return out
}

// protect turns a panic of the library into an observation
//
//go:noinline
func c05Protect(c *c05Call, what *string) {
	defer func() {
		if p := recover(); p != nil {
			*what = fmt.Sprintf("panic: %v", p)
		}
	}()
	c.step()
}

type c05Obs struct {
	From   bool
	Frames []errdef.Frame
	Head   *errdef.Frame
	Len    int
	Fas    []errdef.Frame
	Trace  []errdef.Frame
	JSON   *[]errdef.Frame
	Slog   []errdef.Frame
	Origin *errdef.Frame
	Debug  []errdef.Frame
	Sym2   []*errdef.Frame
	Notes  []string
}

func c05Guard(o *c05Obs, what string, f func()) {
	defer func() {
		if p := recover(); p != nil {
			o.Notes = append(o.Notes, fmt.Sprintf("%s panicked: %v", what, p))
		}
	}()
	f()
}

func c05CanonAll(fs []errdef.Frame) []errdef.Frame {
	out := make([]errdef.Frame, len(fs))
	for i, f := range fs {
		out[i] = c05Canon(f)
	}
	return out
}

func c05Observe(err error) c05Obs {
	var o c05Obs
	if err == nil {
		o.Notes = append(o.Notes, "constructor returned nil")
		return o
	}
	c05Guard(&o, "StackFrom", func() { _, o.From = errdef.StackFrom(err) })
	var st errdef.Stack
	c05Guard(&o, "Stack", func() { st = err.(errdef.Error).Stack() })
	if st != nil {
		c05Guard(&o, "Frames", func() { o.Frames = c05CanonAll(st.Frames()) })
		c05Guard(&o, "HeadFrame", func() {
			if h, ok := st.HeadFrame(); ok {
				h = c05Canon(h)
				o.Head = &h
			}
		})
		c05Guard(&o, "Len", func() { o.Len = st.Len() })
		c05Guard(&o, "FramesAndSource", func() {
			for f := range st.FramesAndSource() {
				o.Fas = append(o.Fas, c05Canon(f))
			}
		})
	}
	var pcs []uintptr
	c05Guard(&o, "StackTrace", func() { pcs = err.(errdef.StackTracer).StackTrace() })
	o.Trace = c05Sym(pcs)
	for _, pc := range pcs {
		fn := runtime.FuncForPC(pc)
		if fn == nil {
			o.Sym2 = append(o.Sym2, nil)
			continue
		}
		file, line := fn.FileLine(pc)
		f := c05Canon(errdef.Frame{Func: fn.Name(), File: file, Line: line})
		o.Sym2 = append(o.Sym2, &f)
	}
	c05Guard(&o, "json.Marshal", func() {
		data, e := json.Marshal(err)
		if e != nil {
			o.Notes = append(o.Notes, "json.Marshal: "+e.Error())
			return
		}
		var doc map[string]json.RawMessage
		if e := json.Unmarshal(data, &doc); e != nil {
			o.Notes = append(o.Notes, "json document: "+e.Error())
			return
		}
		if raw, ok := doc["stack"]; ok {
			var fs []errdef.Frame
			if e := json.Unmarshal(raw, &fs); e != nil {
				o.Notes = append(o.Notes, "json stack: "+e.Error())
			}
			fs = c05CanonAll(fs)
			o.JSON = &fs
		}
	})
	c05Guard(&o, "slog", func() {
		var buf bytes.Buffer
		lg := slog.New(slog.NewJSONHandler(&buf, nil))
		lg.Info("x", "stack", st, "err", err)
		var doc struct {
			Stack []errdef.Frame `json:"stack"`
			Err   struct {
				Origin *errdef.Frame `json:"origin"`
			} `json:"err"`
		}
		if e := json.Unmarshal(buf.Bytes(), &doc); e != nil {
			o.Notes = append(o.Notes, "slog document: "+e.Error())
			return
		}
		o.Slog = c05CanonAll(doc.Stack)
		if doc.Err.Origin != nil {
			h := c05Canon(*doc.Err.Origin)
			o.Origin = &h
		}
	})
	c05Guard(&o, "DebugStack", func() {
		text := err.(errdef.DebugStacker).DebugStack()
		fs, e := c05ParseDebugStack(text)
		if e != nil {
			o.Notes = append(o.Notes, "DebugStack text: "+e.Error())
		}
		o.Debug = c05CanonAll(fs)
	})
	return o
}

// c05ParseDebugStack reads "msg\n\ngoroutine 1 [running]:\nfn()\n\tfile:line +0x...\n..."
func c05ParseDebugStack(text string) ([]errdef.Frame, error) {
	const hdr = "\ngoroutine 1 [running]:"
	i := strings.Index(text, hdr)
	if i < 0 {
		return nil, errors.New("no goroutine header")
	}
	rest := strings.TrimPrefix(text[i+len(hdr):], "\n")
	if rest == "" {
		return nil, nil
	}
	lines := strings.Split(rest, "\n")
	var out []errdef.Frame
	for j := 0; j+1 < len(lines); j += 2 {
		fn := strings.TrimSuffix(lines[j], "()")
		if k := strings.LastIndex(lines[j], "("); k >= 0 && strings.HasSuffix(lines[j], ")") {
			fn = lines[j][:k]
		}
		loc := strings.TrimPrefix(lines[j+1], "\t")
		if k := strings.LastIndex(loc, " +0x"); k >= 0 {
			loc = loc[:k]
		}
		k := strings.LastIndex(loc, ":")
		if k < 0 {
			return out, fmt.Errorf("no line number in %q", lines[j+1])
		}
		ln, e := strconv.Atoi(loc[k+1:])
		if e != nil {
			return out, fmt.Errorf("bad line number in %q", lines[j+1])
		}
		out = append(out, errdef.Frame{Func: fn, File: loc[:k], Line: ln})
	}
	if len(lines)%2 != 0 {
		return out, errors.New("odd number of lines")
	}
	return out, nil
}

type c05Table struct {
	idx map[errdef.Frame]int
	fs  []errdef.Frame
}

func (t *c05Table) of(f errdef.Frame) string {
	if i, ok := t.idx[f]; ok {
		return cN(i)
	}
	t.idx[f] = len(t.fs)
	t.fs = append(t.fs, f)
	return cN(len(t.fs) - 1)
}
func (t *c05Table) list(fs []errdef.Frame) string {
	out := make([]string, len(fs))
	for i, f := range fs {
		out[i] = t.of(f)
	}
	return cList(out)
}
func (t *c05Table) opt(f *errdef.Frame) string {
	if f == nil {
		return "None"
	}
	return "(Some " + t.of(*f) + ")"
}

func c05FramesEq(a, b []errdef.Frame) bool {
	if len(a) != len(b) {
		return false
	}
	for i := range a {
		if a[i] != b[i] {
			return false
		}
	}
	return true
}

func c05Skip(fs []errdef.Frame, n int) []errdef.Frame {
	if n >= len(fs) {
		return nil
	}
	if n < 0 {
		n = 0
	}
	return fs[n:]
}

func runC05(d c05Desc) Case {
	// ---- the factory
	def := errdef.Define("k", c05ToOpts(d.Def)...)
	var fac errdef.Factory = def
	var ctxCoq []string
	switch d.Mode {
	case 1:
		ctx := context.Background()
		for _, layer := range d.Ctx {
			parent := ctx
			ctx = errdef.ContextWithOptions(parent, c05ToOpts(layer)...)
			// a sibling derived from the same parent AFTERWARDS carries other stack options: no effect here
			_ = errdef.ContextWithOptions(parent, errdef.NoTrace(), errdef.StackSkip(50), errdef.StackDepth(1))
		}
		fac = def.With(ctx, c05ToOpts(d.Opts)...)
	case 2:
		fac = def.WithOptions(c05ToOpts(d.Opts)...)
	}
	var all []c05Opt
	all = append(all, d.Def...)
	pathCoq := "PDef"
	switch d.Mode {
	case 1:
		for _, layer := range d.Ctx {
			all = append(all, layer...)
			ctxCoq = append(ctxCoq, c05CoqOpts(layer))
		}
		all = append(all, d.Opts...)
		ctx := "[]"
		if len(ctxCoq) > 0 {
			ctx = "(" + strings.Join(ctxCoq, " ++ ") + ")"
		}
		pathCoq = fmt.Sprintf("(PWith %s %s)", ctx, c05CoqOpts(d.Opts))
	case 2:
		all = append(all, d.Opts...)
		pathCoq = fmt.Sprintf("(PWithOptions %s)", c05CoqOpts(d.Opts))
	}

	// ---- run the site: reference pass, then the real factory
	c := &c05Call{ctor: d.Ctor, cause: errors.New("cause"), wrap: d.Wrap, site: d.Site, deep: d.Deep,
		pk: d.Pk, pdepth: d.PDepth, boomInl: d.BoomInl}
	c.callback = func() error { c05Via(c, c.pdepth); return nil }
	libPanic := ""
	ref := &c05Ref{c: c}
	adj := 0
	for pass := 0; pass < 2; pass++ {
		if pass == 0 {
			if d.Ctor == cRecover {
				continue // reference is taken inside the panicking function
			}
			c.f = ref
		} else {
			c.f = fac
		}
		c.i = 0
		c05Protect(c, &libPanic)
	}
	refFrames := c05Sym(c.pcs[:c.n])
	var rt []errdef.Frame
	if d.Ctor == cRecover {
		adj = 1
		if !d.BoomInl {
			rt = c05RuntimePrefix(d.Pk)
		}
	}
	obs := c05Observe(c.err)
	if libPanic != "" {
		obs.Notes = append(obs.Notes, "constructor "+libPanic)
	}

	// ---- the expectation, for tags and the summary (the verdict is Coq's)
	sum, depth, notrace, negative := 0, 0, false, false
	for _, o := range all {
		switch o.T {
		case "skip":
			sum += o.A
			if o.A < 0 {
				negative = true
			}
		case "depth":
			depth = o.A
		case "notrace":
			notrace = true
		}
	}
	if depth <= 0 {
		depth = 32
	}
	var user []errdef.Frame
	user = append(user, rt...)
	for i, f := range refFrames {
		if i == 0 {
			f.Line += adj
		}
		user = append(user, f)
	}
	expect := func(extra int) []errdef.Frame {
		if notrace {
			return nil
		}
		fs := c05Skip(user, sum+extra)
		if len(fs) > depth {
			fs = fs[:depth]
		}
		return fs
	}
	exp := expect(0)
	arithOK := c05FramesEq(obs.Frames, exp) && obs.From == (len(exp) > 0)
	headOK := notrace || sum != 0 || (obs.Head != nil && len(user) > 0 && *obs.Head == user[0])
	viewsCore := ((obs.Head == nil) == (len(obs.Frames) == 0)) && (obs.Head == nil || *obs.Head == obs.Frames[0]) &&
		obs.Len == len(obs.Frames) && c05FramesEq(obs.Fas, obs.Frames) && c05FramesEq(obs.Trace, obs.Frames) &&
		((obs.JSON == nil) == (len(obs.Frames) == 0)) && (obs.JSON == nil || c05FramesEq(*obs.JSON, obs.Frames)) &&
		c05FramesEq(obs.Slog, obs.Frames) &&
		((obs.Origin == nil) == (len(obs.Frames) == 0)) && (obs.Origin == nil || *obs.Origin == obs.Frames[0])
	debugOK := c05FramesEq(obs.Debug, obs.Frames)
	var viaSym2 []errdef.Frame
	for _, f := range obs.Sym2 {
		if f != nil {
			viaSym2 = append(viaSym2, *f)
		}
	}
	shifted := d.Ctor == cRecover && !notrace && !c05FramesEq(obs.Frames, exp) && c05FramesEq(obs.Frames, expect(1))
	var tags []string
	if !negative && len(obs.Notes) == 0 {
		// F9: everything is explained by "one more frame skipped"
		if shifted && viewsCore {
			tags = append(tags, c05TagF9)
		}
		// F8: the only other disagreement is DebugStack, and it is what FuncForPC/FileLine say
		if !debugOK && viewsCore && ((arithOK && headOK) || shifted) && c05FramesEq(obs.Debug, viaSym2) {
			tags = append(tags, c05TagF8)
		}
	}

	// ---- the Coq term
	tab := &c05Table{idx: map[errdef.Frame]int{}}
	sym2 := make([]string, len(obs.Sym2))
	for i, f := range obs.Sym2 {
		sym2[i] = tab.opt(f)
	}
	jsonCoq := "None"
	if obs.JSON != nil {
		jsonCoq = "(Some " + tab.list(*obs.JSON) + ")"
	}
	fields := []string{
		"c_ctor := " + c05CtorCoq[d.Ctor],
		"c_dopts := " + c05CoqOpts(d.Def),
		"c_path := " + pathCoq,
		"c_rt := " + tab.list(rt),
		"c_ref := " + tab.list(refFrames),
		"c_adj := " + cZ(int64(adj)),
		"o_from := " + cBool(obs.From),
		"o_frames := " + tab.list(obs.Frames),
		"o_head := " + tab.opt(obs.Head),
		"o_len := " + cZ(int64(obs.Len)),
		"o_fas := " + tab.list(obs.Fas),
		"o_trace := " + tab.list(obs.Trace),
		"o_json := " + jsonCoq,
		"o_slog := " + tab.list(obs.Slog),
		"o_origin := " + tab.opt(obs.Origin),
		"o_debug := " + tab.list(obs.Debug),
		"o_sym2 := " + cList(sym2),
	}
	var tabCoq []string
	for _, f := range tab.fs {
		tabCoq = append(tabCoq, fmt.Sprintf("{| fr_func := %s; fr_file := %s; fr_line := %s |}", cStr(f.Func), cStr(f.File), cZ(int64(f.Line))))
	}
	coq := "{| c_tab := " + cList(tabCoq) + "; " + strings.Join(fields, "; ") + " |}"

	// ---- description
	inlined := false
	for i := range obs.Frames {
		if i < len(obs.Sym2) && obs.Sym2[i] != nil && obs.Sym2[i].Func != obs.Frames[i].Func && !strings.HasPrefix(obs.Frames[i].Func, "runtime.") {
			inlined = true
		}
	}
	fr := func(f *errdef.Frame) string {
		if f == nil {
			return "none"
		}
		return fmt.Sprintf("%s (%s:%d)", f.Func, f.File, f.Line)
	}
	var want *errdef.Frame
	if len(exp) > 0 {
		want = &exp[0]
	}
	var dbg *errdef.Frame
	if len(obs.Debug) > 0 {
		dbg = &obs.Debug[0]
	}
	firstDiff := ""
	for i := 0; i < len(obs.Debug) || i < len(obs.Frames); i++ {
		if i >= len(obs.Debug) || i >= len(obs.Frames) || obs.Debug[i] != obs.Frames[i] {
			var a, b *errdef.Frame
			if i < len(obs.Debug) {
				a = &obs.Debug[i]
			}
			if i < len(obs.Frames) {
				b = &obs.Frames[i]
			}
			firstDiff = fmt.Sprintf("; first DebugStack difference at frame %d: DebugStack %s, Frames %s", i, fr(a), fr(b))
			break
		}
	}
	observed := fmt.Sprintf("head=%s, expected head=%s, frames=%d (expected %d), StackFrom=%v, DebugStack head=%s%s",
		fr(obs.Head), fr(want), len(obs.Frames), len(exp), obs.From, fr(dbg), firstDiff)
	if inlined {
		observed += " [inlined-frames]"
	}
	if len(obs.Notes) > 0 {
		observed += " notes: " + strings.Join(obs.Notes, "; ")
	}
	what := c05CtorNames[d.Ctor]
	if d.Ctor == cRecover {
		what += fmt.Sprintf("(%s at depth %d, inlinable=%v)", c05PanicNames[d.Pk], d.PDepth, d.BoomInl)
	}
	summary := fmt.Sprintf("%s at site %s, wrappers %v, recursion %d; Define%v mode=%d ctx%v opts%v",
		what, c05SiteNames[d.Site], d.Wrap, d.Deep, d.Def, d.Mode, d.Ctx, d.Opts)
	size := len(d.Wrap)*3 + d.Deep + 4*len(all) + d.PDepth + d.Site
	if d.Ctor == cRecover {
		size += 2 + d.Pk
	}
	return Case{
		Coq: coq, Desc: mustJSON(d), Tags: tags, Size: size,
		Nontrivial: !notrace && len(obs.Frames) > 0 && (len(all) > 0 || len(d.Wrap) > 0 || d.Ctor == cRecover),
		Class:      c05CtorNames[d.Ctor] + "/" + c05SiteNames[d.Site],
		Summary:    summary, Observed: observed,
	}
}
