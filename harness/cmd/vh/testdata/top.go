package testdata
// line 2: the call sites of top_sites.go are mapped here by //line directives
// line 3
// line 4
// line 5
// line 6
