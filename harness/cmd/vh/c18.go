package main

import (
	"bufio"
	"encoding/json"
	"fmt"
	"os"
	"strings"

	"github.com/shiwano/errdef"
)

func init() {
	register(&Prop{
		ID: "C18", Imports: "Base.Str Model.Core Model.Prog Model.Fmt Check.Render Check.C18", Module: "C18",
		Rule:      "an errdef error with fields, a stack or causes is formatted with %+v; distinct by Coq term",
		ShardSize: 25,
		Gen: func(r *Rng, tier string) []Case {
			n := 160
			if tier == "thorough" {
				n = 4000
			}
			var out []Case
			for _, cp := range renderCorpus() {
				out = append(out, runC18(cp))
			}
			for i := 0; i < n; i++ {
				cfg := p1Cfg{MaxStmts: 6 + i*8/n, Keys: p1Keys, Trace: i%2 == 0, Presenters: true}
				p := genProgFields(r, cfg)
				if cfg.Trace {
					// StackSource settings and a shallow depth keep the output small; one "around"
					// value per program so that the window table (file, line) -> lines is unambiguous
					around := r.Intn(3)
					for j := range p {
						if p[j].T == "define" {
							p[j].Opts = append(p[j].Opts, POpt{T: "depth", N: 1 + r.Intn(3)})
							if r.Chance(2, 3) {
								p[j].Opts = append(p[j].Opts, POpt{T: "source", A: around, D: Pick(r, []int{-1, 1, 2, 0})})
							}
						}
					}
				}
				out = append(out, runC18(p))
			}
			return out
		},
		Replay: func(d json.RawMessage) ([]Case, error) {
			var desc p1Desc
			if err := json.Unmarshal(d, &desc); err != nil {
				return nil, err
			}
			return []Case{runC18(desc.Prog)}, nil
		},
	})
}

var fileLinesCache = map[string][]string{}

func fileLines(path string) []string {
	if ls, ok := fileLinesCache[path]; ok {
		return ls
	}
	var lines []string
	if f, err := os.Open(path); err == nil {
		sc := bufio.NewScanner(f)
		for sc.Scan() {
			lines = append(lines, sc.Text())
		}
		if sc.Err() != nil {
			lines = nil
		}
		f.Close()
	}
	fileLinesCache[path] = lines
	return lines
}

// srcWindow: the lines around (file, line) as the harness reads them itself.
func srcWindow(file string, line, around int) (int, []string) {
	ls := fileLines(file)
	if line < 1 || line > len(ls) {
		return 0, nil
	}
	start := max(0, line-around-1)
	end := min(len(ls), line+around)
	return start + 1, ls[start:end]
}

// collectSrc walks the error and its cause tree and records a window for every frame
// of every native errdef error, using that error's own "around" setting.
func collectSrc(e error, around map[error]int, seen map[string]bool, out *[]string, depth int) {
	if e == nil || depth > 30 {
		return
	}
	if de, ok := e.(errdef.Error); ok {
		if a, ok := around[e]; ok && a >= 0 {
			for _, f := range de.Stack().Frames() {
				key := fmt.Sprintf("%s:%d", f.File, f.Line)
				if f.File == "" || seen[key] {
					continue
				}
				seen[key] = true
				st, ls := srcWindow(f.File, f.Line, a)
				var cs []string
				for _, l := range ls {
					cs = append(cs, cStr(l))
				}
				*out = append(*out, fmt.Sprintf("(%s, %s, {| w_start := %s; w_lines := %s |})", cStr(f.File), cZ(int64(f.Line)), cZ(int64(st)), cList(cs)))
			}
		}
		for _, c := range de.Unwrap() {
			collectSrc(c, around, seen, out, depth+1)
		}
		return
	}
	switch u := e.(type) {
	case interface{ Unwrap() error }:
		collectSrc(u.Unwrap(), around, seen, out, depth+1)
	case interface{ Unwrap() []error }:
		for _, c := range u.Unwrap() {
			collectSrc(c, around, seen, out, depth+1)
		}
	}
}

func runC18(p []PStmt) Case {
	w := newWorld()
	panics := w.run(p)
	gs := w.roundTripAll()
	// "around" per created error = the last StackSource option of its factory; one setting per
	// program keeps the window table unambiguous: use the maximum and let the model cut
	around := map[error]int{}
	maxA := -1
	for _, s := range p {
		for _, o := range s.Opts {
			if o.T == "source" && o.D != 0 {
				a := o.A
				if a < 0 {
					a = 0
				}
				if a > maxA {
					maxA = a
				}
			}
		}
	}
	var obs []string
	nontrivial := false
	var src []string
	seen := map[string]bool{}
	subjects := w.renderSubjects(gs)
	for _, e := range w.errs {
		if e != nil {
			around[e] = maxA
		}
	}
	// all StackSource options of one program share one "around" value (see genC18): windows are exact
	for _, sb := range subjects {
		collectSrc(sb.Err, around, seen, &src, 0)
	}
	for _, sb := range subjects {
		func() {
			defer func() {
				if pv := recover(); pv != nil {
					panics = append(panics, fmt.Sprintf("formatting panicked: %v", pv))
					obs = append(obs, fmt.Sprintf("{| o_subject := %s; o_s := \"<panic>\"; o_v := \"\"; o_q := \"\"; o_plus := \"\" |}", sb.Coq))
				}
			}()
			plus := fmt.Sprintf("%+v", sb.Err)
			if strings.Contains(plus, "\n") {
				nontrivial = true
			}
			obs = append(obs, fmt.Sprintf("{| o_subject := %s; o_s := %s; o_v := %s; o_q := %s; o_plus := %s |}", sb.Coq,
				cStr(fmt.Sprintf("%s", sb.Err)), cStr(fmt.Sprintf("%v", sb.Err)), cStr(fmt.Sprintf("%q", sb.Err)), cStr(plus)))
		}()
	}
	coq := fmt.Sprintf("{| c_prog := %s; c_given := %s; c_src := %s; c_obs := %s |}", w.coqProg(), givenCoq(gs), cList(src), cList(obs))
	o := fmt.Sprintf("%d errors formatted (%d restored), %d source windows", len(obs), len(gs), len(src))
	if len(panics) > 0 {
		o += fmt.Sprintf("; PANICS: %v", panics)
	}
	return Case{Coq: strings.ReplaceAll(coq, "\n", " "), Desc: mustJSON(p1Desc{Prog: p}), Size: len(p),
		Nontrivial: nontrivial, Class: fmt.Sprintf("stmts=%d", len(p)/4*4), Summary: progSummary(p), Observed: o}
}
