package main

// P1: the program DSL shared by C01-C04, C08, C09, C17-C20.  A program is a list
// of statements over three pools (definitions/factories, contexts, errors); the
// interpreter runs it against the real library and prints it, together with the
// reference renderings the model needs (Sprintf results, captured frames), as
// Coq terms of Model/Prog.v.

import (
	"context"
	"encoding/json"
	"errors"
	"fmt"
	"log/slog"
	"strings"

	"github.com/shiwano/errdef"
)

type POpt struct {
	T    string `json:"t"` // field notrace skip depth source noop fmt json log
	Key  int    `json:"k,omitempty"`
	Val  int    `json:"v,omitempty"`
	N    int    `json:"n,omitempty"`
	A, D int    `json:",omitempty"`
	ID   int    `json:"id,omitempty"`
}

type PCb struct {
	T   string `json:"t"` // ret paniceErr panicVal panicRt call recover swallow
	E   *int   `json:"e,omitempty"`
	Val int    `json:"val,omitempty"`
	Rt  string `json:"rt,omitempty"`
	F   int    `json:"f,omitempty"`
	C   *PCb   `json:"c,omitempty"`
	C2  *PCb   `json:"c2,omitempty"`
}

type PStmt struct {
	T      string `json:"t"`
	Kind   string `json:"kind,omitempty"`
	Opts   []POpt `json:"opts,omitempty"`
	Parent *int   `json:"parent,omitempty"`
	D      int    `json:"d,omitempty"`
	Ctx    *int   `json:"ctx,omitempty"`
	F      int    `json:"f,omitempty"`
	Msg    string `json:"msg,omitempty"`
	Format string `json:"format,omitempty"`
	Args   []int  `json:"args,omitempty"`
	C      *int   `json:"c,omitempty"`
	Cs     []*int `json:"cs,omitempty"`
	Cb     *PCb   `json:"cb,omitempty"`
	Ty     string `json:"ty,omitempty"`
}

// foreign error types
type singleErr struct {
	msg   string
	cause error
}

func (e *singleErr) Error() string { return e.msg }
func (e *singleErr) Unwrap() error { return e.cause }

type multiErr struct {
	msg    string
	causes []error
}

func (e *multiErr) Error() string   { return e.msg }
func (e *multiErr) Unwrap() []error { return e.causes }

// jmErr: a foreign error type with its own JSON and text marshalers and a String method - as a
// cause it is still rendered by the library (message, Go type name, causes), never by its own methods
type jmErr struct{ msg string }

func (e *jmErr) Error() string                { return e.msg }
func (e *jmErr) MarshalJSON() ([]byte, error) { return []byte(`{"own":"document"}`), nil }
func (e *jmErr) String() string               { return "own string" }

type leafErr struct{ msg string }

// nilSafeErr: used as a TYPED NIL error value (its methods tolerate the nil receiver); all nil values of
// the type are one value, so a program holds at most one such leaf
type nilSafeErr struct{ _ int }

func (e *nilSafeErr) Error() string { return "typed nil" }

func (e *leafErr) Error() string { return e.msg }

// custom presenter ids (Formatter / JSONMarshaler / LogValuer options)
func fmtByID(id int) func(errdef.Error, fmt.State, rune) {
	return func(err errdef.Error, s fmt.State, verb rune) {
		fmt.Fprintf(s, "<custom-fmt %d %c %s>", id, verb, err.Error())
	}
}
func jsonByID(id int) func(errdef.Error) ([]byte, error) {
	return func(err errdef.Error) ([]byte, error) {
		return json.Marshal(map[string]any{"custom": id, "msg": err.Error()})
	}
}

// world is the interpreter state against the real library.
type world struct {
	noArgCalls int
	pool       []gval
	defs       []errdef.Factory
	ctxs       []context.Context
	errs       []error
	coq        []string // printed statements
	nfreshDefs int
	// bookkeeping for specifications computed on the Go side
	defOrigin []int // Define statement index each factory descends from
	norg      int
	// caller-owned slices handed to the library by the last statement (C04): allocated
	// with spare capacity, plus copies taken before the call
	lastOpts   []errdef.Option
	lastArgs   []any
	lastCauses []error
	optsCopy   []errdef.Option
	argsCopy   []any
	causesCopy []error
}

func newWorld() *world { return &world{pool: valuePool()} }

func (w *world) opt(o POpt) (errdef.Option, string) {
	switch o.T {
	case "field":
		k := keyPool[o.Key]
		return k.Opt(w.pool[o.Val].V), fmt.Sprintf("(OField %s %s)", coqKey(k), coqFval(w.pool[o.Val]))
	case "notrace":
		return errdef.NoTrace(), "ONoTrace"
	case "skip":
		return errdef.StackSkip(o.N), "(OSkip " + cZ(int64(o.N)) + ")"
	case "depth":
		return errdef.StackDepth(o.N), "(ODepth " + cZ(int64(o.N)) + ")"
	case "source":
		if o.D == 0 {
			return errdef.StackSource(o.A, o.D), "ONoop"
		}
		a := o.A
		if a < 0 {
			a = 0
		}
		return errdef.StackSource(o.A, o.D), fmt.Sprintf("(OSource %s %s)", cZ(int64(a)), cZ(int64(o.D)))
	case "fmt":
		if o.ID == 0 { // a nil function resets to the default presentation
			return errdef.Formatter(nil), "(OFormatter 0%N)"
		}
		return errdef.Formatter(fmtByID(o.ID)), "(OFormatter " + cN(o.ID) + ")"
	case "json":
		if o.ID == 0 {
			return errdef.JSONMarshaler(nil), "(OJson 0%N)"
		}
		return errdef.JSONMarshaler(jsonByID(o.ID)), "(OJson " + cN(o.ID) + ")"
	case "log":
		if o.ID == 0 {
			return errdef.LogValuer(nil), "(OLog 0%N)"
		}
		return errdef.LogValuer(logByID(o.ID)), "(OLog " + cN(o.ID) + ")"
	}
	return errdef.StackSource(0, 0), "ONoop"
}

func (w *world) opts(os []POpt) ([]errdef.Option, string) {
	out := make([]errdef.Option, 0, len(os)+2) // spare capacity: an append by the library would write here
	var cs []string
	for _, o := range os {
		g, c := w.opt(o)
		out = append(out, g)
		cs = append(cs, c)
	}
	if len(out) == 0 {
		out = nil
	}
	w.lastOpts = out
	w.optsCopy = append([]errdef.Option(nil), fullCap(out)...)
	return out, cList(cs)
}

// fullCap views a slice up to its capacity.
func fullCap[T any](s []T) []T {
	if s == nil {
		return nil
	}
	return s[:cap(s)]
}

func coqKey(k keyEntry) string {
	return fmt.Sprintf("{| k_id := %s; k_name := %s; k_ty := %s |}", cN(k.ID), cStr(k.Name), cN(k.Ty))
}

// coqFval prints a pool value with its reference renderings (stdlib oracle).
func coqFval(v gval) string {
	js := "!err"
	if b, err := json.Marshal(v.V); err == nil {
		js = string(b)
	}
	return fmt.Sprintf("{| fv_repr := %s; fv_plus := %s; fv_json := %s |}",
		cStr(fmt.Sprintf("%T:%#v", v.V, v.V)), cStr(fmt.Sprintf("%+v", v.V)), cStr(js))
}

func optIdx(p *int) string {
	if p == nil {
		return "None"
	}
	return "(Some " + cNat(*p) + ")"
}
func optIdxList(ps []*int) string {
	var cs []string
	for _, p := range ps {
		cs = append(cs, optIdx(p))
	}
	return cList(cs)
}

func (w *world) errAt(p *int) error {
	if p == nil {
		return nil
	}
	return w.errs[*p]
}

func coqFrames(err error) string {
	var e interface{ Stack() errdef.Stack }
	if err == nil || !errors.As(err, &e) {
		return "[]"
	}
	// only the outermost error's own stack: err is what the constructor returned
	if se, ok := err.(interface{ Stack() errdef.Stack }); ok {
		return coqFrameList(se.Stack().Frames())
	}
	return "[]"
}

func coqFrameList(fs []errdef.Frame) string {
	var cs []string
	for _, f := range fs {
		cs = append(cs, fmt.Sprintf("{| fr_func := %s; fr_file := %s; fr_line := %s |}", cStr(f.Func), cStr(f.File), cZ(int64(f.Line))))
	}
	return cList(cs)
}

// rtPanic triggers a runtime panic of the given kind.
func rtPanic(kind string) {
	switch kind {
	case "nilmap":
		var m map[string]int
		m["a"] = 1
	case "index":
		xs := []int{1}
		i := 5
		_ = xs[i]
	case "nilderef":
		var p *P
		_ = p.A
	case "nilrecv":
		panic((*nilRecvErr)(nil))
	default: // "nil"
		panic(nil)
	}
}

// nilRecvErr is an error whose Error method dereferences its receiver; panicking
// with a typed nil pointer of it is legal, and fmt prints it as <nil>.
type nilRecvErr struct{ msg string }

func (e *nilRecvErr) Error() string { return e.msg }

func rtPanicInfo(kind string) (msg, ty string) {
	defer func() {
		v := recover()
		msg, ty = fmt.Sprintf("%v", v), fmt.Sprintf("%T", v)
	}()
	rtPanic(kind)
	return
}

// panic value pool for non-error values
type pvStruct struct {
	A int
	B string
}

var panicVals = []any{"boom", 42, 3.5, pvStruct{1, "x"}, []int{1, 2}, true, MyStr("s"), &pvStruct{2, "y"}}

// runCb executes a callback against the real library. escaped is set by the
// caller's own recover when a panic leaves Recover.
func (w *world) runCb(c *PCb) error {
	switch c.T {
	case "ret":
		return w.errAt(c.E)
	case "panicErr":
		panic(w.errs[*c.E]) // nil error => panic(nil)
	case "panicInner":
		// the PanicError an earlier Recover put beneath its result, used as a panic value itself
		x := w.errs[*c.E]
		if ue, ok := x.(errdef.Error); ok {
			if _, isDef := x.(errdef.Definition); !isDef {
				if cs := ue.Unwrap(); len(cs) == 1 {
					if pe, ok := cs[0].(errdef.PanicError); ok {
						panic(pe)
					}
				}
			}
		}
		panic(x)
	case "panicVal":
		panic(panicVals[c.Val])
	case "panicRt":
		rtPanic(c.Rt)
		return nil
	case "call":
		return func() error { return w.runCb(c.C) }()
	case "recover":
		return w.defs[c.F].Recover(func() error { return w.runCb(c.C) })
	default: // swallow
		_ = w.defs[c.F].Recover(func() error { return w.runCb(c.C) })
		return w.runCb(c.C2)
	}
}

// coqCb prints a callback; frames of nested Recover results cannot be observed
// separately when they are swallowed, so nested factories use NoTrace-insensitive
// placeholders: the model ignores the stack of swallowed results.
func (w *world) coqCb(c *PCb, inner map[*PCb]error) string {
	switch c.T {
	case "ret":
		return "(CRet " + optIdx(c.E) + ")"
	case "panicErr":
		return "(CPanicErr " + cNat(*c.E) + ")"
	case "panicInner":
		return "(CPanicInner " + cNat(*c.E) + ")"
	case "panicVal":
		return fmt.Sprintf("(CPanicVal %s %s)", cN(c.Val+1), cStr(fmt.Sprintf("%v", panicVals[c.Val])))
	case "panicRt":
		m, t := rtPanicInfo(c.Rt)
		return fmt.Sprintf("(CPanicRt %s %s)", cStr(m), cStr(t))
	case "call":
		return "(CCall " + w.coqCb(c.C, inner) + ")"
	case "recover":
		return fmt.Sprintf("(CRecover %s %s %s)", cNat(c.F), w.coqCb(c.C, inner), coqFrames(inner[c]))
	default:
		return fmt.Sprintf("(CSwallow %s %s [] %s)", cNat(c.F), w.coqCb(c.C, inner), w.coqCb(c.C2, inner))
	}
}

// exec runs one statement, appends to the pools and to the Coq listing.
// panicked reports a panic escaping a library call (never expected).
func (w *world) exec(s PStmt) (panicked any) {
	defer func() {
		if p := recover(); p != nil {
			panicked = p
			// keep pools aligned
			switch s.T {
			case "define", "with", "withopts":
				w.defs = append(w.defs, errdef.Define("panicked"))
				w.defOrigin = append(w.defOrigin, -1)
			case "ctx":
				w.ctxs = append(w.ctxs, context.Background())
			default:
				w.errs = append(w.errs, fmt.Errorf("statement panicked: %v", p))
			}
			w.coq = append(w.coq, fmt.Sprintf("(SLeaf %s \"panicked\")", cStr(fmt.Sprint(p))))
		}
	}()
	ctxOf := func(p *int) context.Context {
		if p == nil {
			return context.Background()
		}
		return w.ctxs[*p]
	}
	switch s.T {
	case "define":
		os, oc := w.opts(s.Opts)
		w.defs = append(w.defs, errdef.Define(errdef.Kind(s.Kind), os...))
		w.defOrigin = append(w.defOrigin, w.norg)
		w.norg++
		w.coq = append(w.coq, fmt.Sprintf("(SDefine %s %s)", cStr(s.Kind), oc))
	case "ctx":
		os, oc := w.opts(s.Opts)
		w.ctxs = append(w.ctxs, errdef.ContextWithOptions(ctxOf(s.Parent), os...))
		w.coq = append(w.coq, fmt.Sprintf("(SCtx %s %s)", optIdx(s.Parent), oc))
	case "with":
		os, oc := w.opts(s.Opts)
		d := w.defs[s.D].(errdef.Definition)
		w.defs = append(w.defs, d.With(ctxOf(s.Ctx), os...))
		w.defOrigin = append(w.defOrigin, w.defOrigin[s.D])
		w.coq = append(w.coq, fmt.Sprintf("(SWith %s %s %s)", cNat(s.D), optIdx(s.Ctx), oc))
	case "withopts":
		os, oc := w.opts(s.Opts)
		d := w.defs[s.D].(errdef.Definition)
		w.defs = append(w.defs, d.WithOptions(os...))
		w.defOrigin = append(w.defOrigin, w.defOrigin[s.D])
		w.coq = append(w.coq, fmt.Sprintf("(SWithOptions %s %s)", cNat(s.D), oc))
	case "new":
		var e error
		if s.Ty == "top" {
			e = newAtTop(w.defs[s.F], s.Msg) // call site on line 2 of a real file
		} else if s.Ty == "bottom" {
			e = newAtBottom(w.defs[s.F], s.Msg) // call site on the last line of a real file
		} else {
			e = w.defs[s.F].New(s.Msg)
		}
		w.errs = append(w.errs, e)
		w.coq = append(w.coq, fmt.Sprintf("(SNew %s %s %s)", cNat(s.F), cStr(s.Msg), coqFrames(e)))
	case "errorf":
		args := w.args(s.Args)
		e := w.defs[s.F].Errorf(s.Format, args...)
		w.errs = append(w.errs, e)
		w.coq = append(w.coq, fmt.Sprintf("(SErrorf %s %s %s %s %s)", cNat(s.F), cStr(s.Format), cNat(len(args)),
			cStr(fmt.Sprintf(s.Format, w.refArgs(s.Args)...)), coqFrames(e)))
	case "wrap":
		e := w.defs[s.F].Wrap(w.errAt(s.C))
		w.errs = append(w.errs, e)
		w.coq = append(w.coq, fmt.Sprintf("(SWrap %s %s %s)", cNat(s.F), optIdx(s.C), coqFrames(e)))
	case "wrapf":
		args := w.args(s.Args)
		e := w.defs[s.F].Wrapf(w.errAt(s.C), s.Format, args...)
		w.errs = append(w.errs, e)
		w.coq = append(w.coq, fmt.Sprintf("(SWrapf %s %s %s %s)", cNat(s.F), optIdx(s.C),
			cStr(fmt.Sprintf(s.Format, w.refArgs(s.Args)...)), coqFrames(e)))
	case "join":
		cs := w.causeSlice(s.Cs)
		e := w.defs[s.F].Join(cs...)
		w.errs = append(w.errs, e)
		w.coq = append(w.coq, fmt.Sprintf("(SJoin %s %s %s)", cNat(s.F), optIdxList(s.Cs), coqFrames(e)))
	case "recover":
		inner := map[*PCb]error{}
		e := w.defs[s.F].Recover(func() error { return w.runCbTracked(s.Cb, inner) })
		w.errs = append(w.errs, e)
		// the top-level result's own frames only matter when it was created by this Recover
		w.coq = append(w.coq, fmt.Sprintf("(SRecover %s %s %s)", cNat(s.F), w.coqCb(s.Cb, inner), coqFrames(e)))
	case "fmterrorf":
		e := fmt.Errorf(s.Msg+": %w", w.errs[*s.C])
		w.errs = append(w.errs, e)
		if w.errs[*s.C] == nil { // %w of nil: a plain error without Unwrap
			w.coq = append(w.coq, fmt.Sprintf("(SLeaf %s %s)", cStr(e.Error()), cStr(fmt.Sprintf("%T", e))))
		} else {
			w.coq = append(w.coq, fmt.Sprintf("(SFmtErrorf %s %s)", cStr(s.Msg), cNat(*s.C)))
		}
	case "errorsjoin":
		cs := w.causeSlice(s.Cs)
		w.errs = append(w.errs, errors.Join(cs...))
		w.coq = append(w.coq, fmt.Sprintf("(SErrorsJoin %s)", optIdxList(s.Cs)))
	case "single":
		w.errs = append(w.errs, &singleErr{msg: s.Msg, cause: w.errAt(s.C)})
		w.coq = append(w.coq, fmt.Sprintf("(SSingle %s %s)", cStr(s.Msg), optIdx(s.C)))
	case "multi":
		var cs []error
		for _, p := range s.Cs {
			cs = append(cs, w.errAt(p))
		}
		w.errs = append(w.errs, &multiErr{msg: s.Msg, causes: cs})
		w.coq = append(w.coq, fmt.Sprintf("(SMulti %s %s)", cStr(s.Msg), optIdxList(s.Cs)))
	case "leaf":
		var e error
		if s.Ty == "errors" {
			e = errors.New(s.Msg)
		} else if s.Ty == "jm" {
			e = &jmErr{msg: s.Msg}
		} else if s.Ty == "typednil" {
			e = (*nilSafeErr)(nil)
			s.Msg = e.Error()
		} else {
			e = &leafErr{msg: s.Msg}
		}
		w.errs = append(w.errs, e)
		w.coq = append(w.coq, fmt.Sprintf("(SLeaf %s %s)", cStr(s.Msg), cStr(fmt.Sprintf("%T", e))))
	case "defaserr":
		w.errs = append(w.errs, w.defs[s.D].(error))
		w.coq = append(w.coq, fmt.Sprintf("(SDefAsErr %s)", cNat(s.D)))
	default:
		panic("unknown statement " + s.T)
	}
	return nil
}

// runCbTracked is runCb that records the result of every nested Recover so its
// frames can be printed.
func (w *world) runCbTracked(c *PCb, inner map[*PCb]error) error {
	switch c.T {
	case "call":
		return func() error { return w.runCbTracked(c.C, inner) }()
	case "recover":
		e := w.defs[c.F].Recover(func() error { return w.runCbTracked(c.C, inner) })
		inner[c] = e
		return e
	case "swallow":
		_ = w.defs[c.F].Recover(func() error { return w.runCbTracked(c.C, inner) })
		return w.runCbTracked(c.C2, inner)
	default:
		return w.runCb(c)
	}
}

func (w *world) args(ixs []int) []any {
	if len(ixs) == 0 {
		w.lastArgs, w.argsCopy = nil, nil
		// every other call without arguments hands in an empty, non-nil slice (what a forwarding
		// helper passes): "no arguments" means len(args) == 0
		w.noArgCalls++
		if w.noArgCalls%2 == 0 {
			return make([]any, 0, 2)
		}
		return nil
	}
	out := make([]any, 0, len(ixs)+3)
	for _, i := range ixs {
		out = append(out, w.pool[i].V)
	}
	w.lastArgs = out
	w.argsCopy = append([]any(nil), fullCap(out)...)
	return out
}

// refArgs: a private argument slice for the harness's own reference Sprintf.
func (w *world) refArgs(ixs []int) []any {
	var out []any
	for _, i := range ixs {
		out = append(out, w.pool[i].V)
	}
	return out
}

func (w *world) causeSlice(ps []*int) []error {
	cs := make([]error, 0, len(ps)+2)
	for _, p := range ps {
		cs = append(cs, w.errAt(p))
	}
	w.lastCauses = cs
	w.causesCopy = append([]error(nil), fullCap(cs)...)
	return cs
}

func (w *world) run(p []PStmt) (panics []string) {
	for i, s := range p {
		nd, ne := len(w.defs), len(w.errs)
		if pv := w.exec(s); pv != nil {
			panics = append(panics, fmt.Sprintf("stmt %d (%s): %v", i, s.T, pv))
		}
		// every new factory and error is rendered once straight away (results discarded): what the
		// checks observe at the end must not depend on what was rendered, or derived, in between
		for _, d := range w.defs[nd:] {
			if dd, ok := d.(errdef.Definition); ok {
				touch(dd.Fields())
				touch(dd)
			}
		}
		for _, e := range w.errs[ne:] {
			if e != nil {
				touch(e)
			}
		}
	}
	return
}

// touch renders a value through encoding/json, fmt and slog and discards the results.
func touch(v any) {
	defer func() { _ = recover() }()
	_, _ = json.Marshal(v)
	_ = fmt.Sprintf("%+v", v)
	if lv, ok := v.(slog.LogValuer); ok {
		_ = lv.LogValue().Resolve()
	}
}

func (w *world) coqProg() string { return "[" + strings.Join(w.coq, ";\n  ") + "]" }

// ---------- generator ----------

type p1Cfg struct {
	MaxStmts   int
	Trace      bool // allow stacks (else every Define gets NoTrace)
	Presenters bool // Formatter/JSONMarshaler/LogValuer options
	Recover    bool
	Keys       []int // key pool indexes to draw fields from
	JSONSafe   bool  // only values encoding/json can marshal
}

var p1Keys = []int{0, 1, 29, 2, 30, 15, 24, 19} // s(string) s(string) s(int) n(int) n(string) b(bool) p(P) any
var p1Kinds = []string{"k1", "k1", "k2", ""}
var p1Msgs = []string{"m1", "boom", "", "a: b", "line1\nline2"}

func ip(i int) *int { return &i }

func genOpts(r *Rng, cfg p1Cfg, pool []gval, max int) []POpt {
	n := r.Intn(max + 1)
	var out []POpt
	for i := 0; i < n; i++ {
		switch x := r.Intn(12); {
		case x < 8:
			k := Pick(r, cfg.Keys)
			vs := valuesFor(keyPool[k], pool)
			if cfg.JSONSafe {
				var safe []int
				for _, v := range vs {
					if _, err := json.Marshal(pool[v].V); err == nil {
						safe = append(safe, v)
					}
				}
				vs = safe
			}
			out = append(out, POpt{T: "field", Key: k, Val: Pick(r, vs)})
		case x == 8 && cfg.Trace:
			o := POpt{T: Pick(r, []string{"skip", "depth", "notrace", "depth"}), N: r.Intn(3)}
			if o.T == "depth" && r.Chance(1, 4) {
				o.N = -1 // a negative depth means the default depth
			}
			if o.T == "skip" && r.Chance(1, 3) {
				o.N = 1000 // more than the call depth: a stack object with zero frames
			}
			out = append(out, o)
		case x == 9 && cfg.Presenters:
			// id 0 is the nil function (resets to the default); sometimes the same presenter
			// is given twice in one list (the last one wins, a nil one resets)
			t := Pick(r, []string{"fmt", "json", "log"})
			out = append(out, POpt{T: t, ID: r.Intn(3)})
			if r.Chance(1, 3) {
				out = append(out, POpt{T: t, ID: r.Intn(3)})
			}
		case x == 10:
			out = append(out, POpt{T: "noop"})
		}
	}
	return out
}

func genCb(r *Rng, ndefs, nerrs, depth int) *PCb {
	if depth <= 0 || r.Chance(1, 3) {
		switch x := r.Intn(6); {
		case x == 0 || nerrs == 0 && x < 3:
			return &PCb{T: "ret"}
		case x == 1:
			return &PCb{T: "ret", E: ip(r.Intn(nerrs))}
		case x == 2:
			return &PCb{T: "panicErr", E: ip(r.Intn(nerrs))}
		case x == 3:
			return &PCb{T: "panicRt", Rt: Pick(r, []string{"nilmap", "index", "nilderef", "nil", "nilrecv"})}
		default:
			return &PCb{T: "panicVal", Val: r.Intn(len(panicVals))}
		}
	}
	switch r.Intn(3) {
	case 0:
		return &PCb{T: "call", C: genCb(r, ndefs, nerrs, depth-1)}
	case 1:
		return &PCb{T: "recover", F: r.Intn(ndefs), C: genCb(r, ndefs, nerrs, depth-1)}
	default:
		return &PCb{T: "swallow", F: r.Intn(ndefs), C: genCb(r, ndefs, nerrs, depth-1), C2: genCb(r, ndefs, nerrs, depth-1)}
	}
}

// genProg draws a random well-formed program.
func genProg(r *Rng, cfg p1Cfg) []PStmt {
	pool := valuePool()
	n := 3 + r.Intn(cfg.MaxStmts-2)
	var p []PStmt
	ndefs, nctx, nerrs := 0, 0, 0
	lastJoin, lastJoinF, firstRec := -1, 0, -1
	optIdxP := func(n int) *int {
		if n == 0 || r.Chance(1, 4) {
			return nil
		}
		return ip(r.Intn(n))
	}
	errList := func() []*int {
		if nerrs >= 2 && r.Chance(1, 8) {
			// nil arguments between and around two causes
			return []*int{ip(r.Intn(nerrs)), nil, ip(r.Intn(nerrs))}
		}
		k := r.Intn(4)
		var out []*int
		for i := 0; i < k; i++ {
			out = append(out, optIdxP(nerrs))
		}
		return out
	}
	defOpts := func(max int) []POpt {
		os := genOpts(r, cfg, pool, max)
		if !cfg.Trace {
			os = append(os, POpt{T: "notrace"})
		}
		return os
	}
	for len(p) < n {
		x := r.Intn(20)
		switch {
		case ndefs == 0 || x == 0 || (x == 1 && ndefs < 3):
			p = append(p, PStmt{T: "define", Kind: Pick(r, p1Kinds), Opts: defOpts(3)})
			ndefs++
		case x == 2:
			p = append(p, PStmt{T: "ctx", Parent: optIdxP(nctx), Opts: genOpts(r, cfg, pool, 2)})
			nctx++
		case x == 3 || x == 4:
			p = append(p, PStmt{T: "with", D: r.Intn(ndefs), Ctx: optIdxP(nctx), Opts: genOpts(r, cfg, pool, 2)})
			ndefs++
		case x == 5:
			p = append(p, PStmt{T: "withopts", D: r.Intn(ndefs), Opts: genOpts(r, cfg, pool, 2)})
			ndefs++
		case x == 6:
			ty := ""
			if cfg.Trace && r.Chance(1, 3) {
				ty = Pick(r, []string{"top", "bottom"})
			}
			p = append(p, PStmt{T: "new", F: r.Intn(ndefs), Msg: Pick(r, p1Msgs), Ty: ty})
			nerrs++
		case x == 7:
			f, a := pickFormat(r, pool)
			p = append(p, PStmt{T: "errorf", F: r.Intn(ndefs), Format: f, Args: a})
			nerrs++
		case x == 8 || x == 9:
			p = append(p, PStmt{T: "wrap", F: r.Intn(ndefs), C: optIdxP(nerrs)})
			nerrs++
		case x == 10:
			f, a := pickFormat(r, pool)
			p = append(p, PStmt{T: "wrapf", F: r.Intn(ndefs), C: optIdxP(nerrs), Format: f, Args: a})
			nerrs++
		case x == 11 || x == 12:
			if lastJoin >= 0 && r.Chance(1, 3) {
				// the accumulator idiom: the same factory joins its own earlier join, alone
				cs := [][]*int{{ip(lastJoin)}, {nil, ip(lastJoin)}, {ip(lastJoin), nil}}[r.Intn(3)]
				p = append(p, PStmt{T: "join", F: lastJoinF, Cs: cs})
				nerrs++
				break
			}
			st := PStmt{T: "join", F: r.Intn(ndefs), Cs: errList()}
			nn := 0
			for _, c := range st.Cs {
				if c != nil {
					nn++
				}
			}
			if nn >= 2 {
				lastJoin, lastJoinF = nerrs, st.F
			}
			p = append(p, st)
			nerrs++
		case x == 13 && cfg.Recover:
			if firstRec >= 0 && r.Chance(1, 3) {
				// re-panic: the panic value is an earlier Recover's result or an error made after it
				// (which may wrap it)
				p = append(p, PStmt{T: "recover", F: r.Intn(ndefs), Cb: &PCb{T: Pick(r, []string{"panicErr", "panicErr", "panicInner"}), E: ip(firstRec + r.Intn(nerrs-firstRec))}})
				nerrs++
				break
			}
			if firstRec < 0 {
				firstRec = nerrs
			}
			p = append(p, PStmt{T: "recover", F: r.Intn(ndefs), Cb: genCb(r, ndefs, nerrs, 3)})
			nerrs++
		case x == 14 && nerrs > 0:
			p = append(p, PStmt{T: "fmterrorf", Msg: Pick(r, p1Msgs), C: ip(r.Intn(nerrs))})
			nerrs++
		case x == 15:
			p = append(p, PStmt{T: "errorsjoin", Cs: errList()})
			nerrs++
		case x == 16:
			p = append(p, PStmt{T: "single", Msg: Pick(r, p1Msgs), C: optIdxP(nerrs)})
			nerrs++
		case x == 17:
			p = append(p, PStmt{T: "multi", Msg: Pick(r, p1Msgs), Cs: errList()})
			nerrs++
		case x == 18:
			p = append(p, PStmt{T: "leaf", Msg: Pick(r, p1Msgs), Ty: Pick(r, []string{"errors", "leaf", "errors", "leaf", "jm"})})
			nerrs++
		case x == 19:
			p = append(p, PStmt{T: "defaserr", D: r.Intn(ndefs)})
			nerrs++
		}
	}
	return p
}

// formats go vet accepts (verbs match the arguments), including explicit
// argument indexes; pool indexes: 1 = int(1), 3 = int(42), 22 = "a", 23 = "x y"
func pickFormat(r *Rng, pool []gval) (string, []int) {
	type fa struct {
		f string
		a []int
	}
	cands := []fa{
		{"plain", nil}, {"100%% sure", nil}, {"n=%d", []int{3}}, {"%s and %s", []int{22, 23}},
		{"%[2]d then %[1]d", []int{1, 3}}, {"%v/%q", []int{3, 23}}, {"%[1]s %[1]q", []int{22}},
		{"%d %[1]v %s", []int{3, 22}}, {"x %5d|%-4s|", []int{1, 22}}, {"", nil}, {"%d%%", []int{3}},
		{"disk 100% full", nil}, {"50%% of %%", nil},
	}
	c := Pick(r, cands)
	return c.f, c.a
}
