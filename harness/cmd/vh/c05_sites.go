package main

// C05 call sites.  Everything the error's stack can show below the harness
// driver lives in this file: the sites (the functions that call a constructor),
// the wrappers that put frames between the driver and a site, the functions
// that panic for Recover, and the reference Factory.
//
// The five plain constructors are called through the errdef.Factory interface.
// A site is run twice from the same loop body: first with c.f = *c05Ref, whose
// methods only do runtime.Callers(2, ...) (skip runtime.Callers and the method
// itself), then with the real factory.  Both runs execute the very same call
// instruction below the very same callers, so the reference is what the
// caller's call site looks like to the runtime, independently of errdef, also
// for sites small enough to be inlined (a site that contained its own
// runtime.Callers call next to the constructor call would never be inlined).
// For Recover the reference is taken inside the function that panics, on the
// line directly above the panic statement / the faulting statement.
//
// Do not reorder the two statements of the c05Boom* functions: the checks use
// "reference line + 1 = line of the panic".

import (
	"runtime"

	"github.com/shiwano/errdef"
)

const (
	cNew = iota
	cErrorf
	cWrap
	cWrapf
	cJoin
	cRecover
)

var c05CtorNames = []string{"New", "Errorf", "Wrap", "Wrapf", "Join", "Recover"}
var c05CtorCoq = []string{"CNew", "CErrorf", "CWrap", "CWrapf", "CJoin", "CRecover"}

// site kinds
const (
	sNo     = iota // plain function, //go:noinline
	sInl           // plain one-line function (inlinable) called from a dispatcher
	sMethV         // one-line method on a value receiver (inlinable)
	sMethP         // method on a pointer receiver, //go:noinline
	sGenInl        // one-line generic function
	sGenNo         // generic function, //go:noinline
	sCloImm        // function literal invoked in place
	sCloVar        // function literal stored in a package variable
	nSites
)

var c05SiteNames = []string{"func-noinline", "func-inlinable", "method-value-inlinable", "method-pointer-noinline",
	"generic-inlinable", "generic-noinline", "closure-in-place", "closure-variable"}

// wrapper kinds
const (
	wNo = iota
	wIn
	wMethV
	wMethP
	wClo
	wGen
	nWraps
)

type c05Call struct {
	f        errdef.Factory
	ctor     int
	cause    error
	wrap     []int // wrappers still to go through, outermost first
	i        int
	site     int
	deep     int // extra recursion frames directly above the site
	pk       int // Recover: what panics
	pdepth   int // Recover: calls between the callback and the panicking function
	boomInl  bool
	callback func() error
	pcs      [256]uintptr // reference capture
	n        int
	err      error
}

// ---------------------------------------------------------------- reference factory

type c05Ref struct{ c *c05Call }

//go:noinline
func (r *c05Ref) New(string) error { r.c.n = runtime.Callers(2, r.c.pcs[:]); return nil }

//go:noinline
func (r *c05Ref) Errorf(string, ...any) error { r.c.n = runtime.Callers(2, r.c.pcs[:]); return nil }

//go:noinline
func (r *c05Ref) Wrap(error) error { r.c.n = runtime.Callers(2, r.c.pcs[:]); return nil }

//go:noinline
func (r *c05Ref) Wrapf(error, string, ...any) error {
	r.c.n = runtime.Callers(2, r.c.pcs[:])
	return nil
}

//go:noinline
func (r *c05Ref) Join(...error) error { r.c.n = runtime.Callers(2, r.c.pcs[:]); return nil }

func (r *c05Ref) Recover(func() error) error { return nil }

// ---------------------------------------------------------------- driver below the sites

// step goes through the remaining wrappers, then the recursion, then the site.
//
//go:noinline
func (c *c05Call) step() {
	if c.i < len(c.wrap) {
		k := c.wrap[c.i]
		c.i++
		switch k {
		case wNo:
			c05WNo(c)
		case wIn:
			c05WIn(c)
		case wMethV:
			c05T{}.W(c)
		case wMethP:
			(&c05T{}).WP(c)
		case wClo:
			c05WClo(c)
		default:
			c05WGen[int](c, 0)
		}
		return
	}
	if c.deep > 0 {
		c05Deep(c, c.deep)
		return
	}
	c.callSite()
}

//go:noinline
func (c *c05Call) callSite() {
	switch c.site {
	case sNo:
		c05SiteNo(c)
	case sInl:
		switch c.ctor {
		case cNew:
			c05InlNew(c)
		case cErrorf:
			c05InlErrorf(c)
		case cWrap:
			c05InlWrap(c)
		case cWrapf:
			c05InlWrapf(c)
		case cJoin:
			c05InlJoin(c)
		default:
			c05InlRecover(c)
		}
	case sMethV:
		t := c05T{}
		switch c.ctor {
		case cNew:
			t.New(c)
		case cErrorf:
			t.Errorf(c)
		case cWrap:
			t.Wrap(c)
		case cWrapf:
			t.Wrapf(c)
		case cJoin:
			t.Join(c)
		default:
			t.Recover(c)
		}
	case sMethP:
		(&c05T{}).Site(c)
	case sGenInl:
		switch c.ctor {
		case cNew:
			c05GenNew[int](c, 0)
		case cErrorf:
			c05GenErrorf[string](c, "")
		case cWrap:
			c05GenWrap[int](c, 0)
		case cWrapf:
			c05GenWrapf[string](c, "")
		case cJoin:
			c05GenJoin[int](c, 0)
		default:
			c05GenRecover[string](c, "")
		}
	case sGenNo:
		c05SiteGenNo[float64](c, 0)
	case sCloImm:
		c05SiteCloImm(c)
	default:
		c05Clos[c.ctor](c)
	}
}

// ---------------------------------------------------------------- wrappers

//go:noinline
func c05WNo(c *c05Call) { c.step() }

func c05WIn(c *c05Call) { c.step() }

type c05T struct{ pad int }

func (t c05T) W(c *c05Call) { c.step() }

//go:noinline
func (t *c05T) WP(c *c05Call) { c.step() }

var c05WClo func(c *c05Call)

func init() { c05WClo = func(c *c05Call) { c.step() } }

func c05WGen[T any](c *c05Call, _ T) { c.step() }

//go:noinline
func c05Deep(c *c05Call, n int) {
	if n > 1 {
		c05Deep(c, n-1)
		return
	}
	c.callSite()
}

// ---------------------------------------------------------------- sites

//go:noinline
func c05SiteNo(c *c05Call) {
	switch c.ctor {
	case cNew:
		c.err = c.f.New("m")
	case cErrorf:
		c.err = c.f.Errorf("m %d", 1)
	case cWrap:
		c.err = c.f.Wrap(c.cause)
	case cWrapf:
		c.err = c.f.Wrapf(c.cause, "m %d", 1)
	case cJoin:
		c.err = c.f.Join(c.cause, c.cause)
	default:
		c.err = c.f.Recover(c.callback)
	}
}

func c05InlNew(c *c05Call)     { c.err = c.f.New("m") }
func c05InlErrorf(c *c05Call)  { c.err = c.f.Errorf("m") }
func c05InlWrap(c *c05Call)    { c.err = c.f.Wrap(c.cause) }
func c05InlWrapf(c *c05Call)   { c.err = c.f.Wrapf(c.cause, "m") }
func c05InlJoin(c *c05Call)    { c.err = c.f.Join(c.cause) }
func c05InlRecover(c *c05Call) { c.err = c.f.Recover(c.callback) }

func (t c05T) New(c *c05Call)     { c.err = c.f.New("m") }
func (t c05T) Errorf(c *c05Call)  { c.err = c.f.Errorf("m") }
func (t c05T) Wrap(c *c05Call)    { c.err = c.f.Wrap(c.cause) }
func (t c05T) Wrapf(c *c05Call)   { c.err = c.f.Wrapf(c.cause, "m") }
func (t c05T) Join(c *c05Call)    { c.err = c.f.Join(c.cause) }
func (t c05T) Recover(c *c05Call) { c.err = c.f.Recover(c.callback) }

//go:noinline
func (t *c05T) Site(c *c05Call) {
	switch c.ctor {
	case cNew:
		c.err = c.f.New("m")
	case cErrorf:
		c.err = c.f.Errorf("m %d", 1)
	case cWrap:
		c.err = c.f.Wrap(c.cause)
	case cWrapf:
		c.err = c.f.Wrapf(c.cause, "m %d", 1)
	case cJoin:
		c.err = c.f.Join(c.cause, c.cause)
	default:
		c.err = c.f.Recover(c.callback)
	}
}

func c05GenNew[T any](c *c05Call, _ T)     { c.err = c.f.New("m") }
func c05GenErrorf[T any](c *c05Call, _ T)  { c.err = c.f.Errorf("m") }
func c05GenWrap[T any](c *c05Call, _ T)    { c.err = c.f.Wrap(c.cause) }
func c05GenWrapf[T any](c *c05Call, _ T)   { c.err = c.f.Wrapf(c.cause, "m") }
func c05GenJoin[T any](c *c05Call, _ T)    { c.err = c.f.Join(c.cause) }
func c05GenRecover[T any](c *c05Call, _ T) { c.err = c.f.Recover(c.callback) }

//go:noinline
func c05SiteGenNo[T any](c *c05Call, _ T) {
	switch c.ctor {
	case cNew:
		c.err = c.f.New("m")
	case cErrorf:
		c.err = c.f.Errorf("m %d", 1)
	case cWrap:
		c.err = c.f.Wrap(c.cause)
	case cWrapf:
		c.err = c.f.Wrapf(c.cause, "m %d", 1)
	case cJoin:
		c.err = c.f.Join(c.cause, c.cause)
	default:
		c.err = c.f.Recover(c.callback)
	}
}

//go:noinline
func c05SiteCloImm(c *c05Call) {
	switch c.ctor {
	case cNew:
		func() { c.err = c.f.New("m") }()
	case cErrorf:
		func() { c.err = c.f.Errorf("m") }()
	case cWrap:
		func() { c.err = c.f.Wrap(c.cause) }()
	case cWrapf:
		func() { c.err = c.f.Wrapf(c.cause, "m") }()
	case cJoin:
		func() { c.err = c.f.Join(c.cause) }()
	default:
		func() { c.err = c.f.Recover(c.callback) }()
	}
}

var c05Clos = [6]func(c *c05Call){
	func(c *c05Call) { c.err = c.f.New("m") },
	func(c *c05Call) { c.err = c.f.Errorf("m %d", 1) },
	func(c *c05Call) { c.err = c.f.Wrap(c.cause) },
	func(c *c05Call) { c.err = c.f.Wrapf(c.cause, "m %d", 1) },
	func(c *c05Call) { c.err = c.f.Join(c.cause, c.cause) },
	func(c *c05Call) { c.err = c.f.Recover(c.callback) },
}

// ---------------------------------------------------------------- panicking functions (Recover)

// what panics
const (
	pkString = iota // panic("boom")
	pkError         // panic(error)
	pkNilArg        // panic(nil)
	pkNilMap        // write to a nil map
	pkNilPtr        // nil pointer dereference
	pkIndex         // index out of range
	pkDivide        // integer division by zero
	nPanics
)

var c05PanicNames = []string{"panic(string)", "panic(error)", "panic(nil)", "nil-map-write", "nil-deref", "index", "divide"}

var (
	c05NilMap map[string]int
	c05NilPtr *int
	c05Slice  = make([]int, 1)
	c05Zero   int
	c05Five   = 5
)

// c05Via puts n frames between the Recover callback and the panicking function.
//
//go:noinline
func c05Via(c *c05Call, n int) {
	if n > 0 {
		c05Via(c, n-1)
		return
	}
	if c.boomInl {
		c05BoomInl(c)
		return
	}
	c05Boom(c)
}

// small enough to be inlined into c05Via
func c05BoomInl(c *c05Call) {
	c.n = runtime.Callers(1, c.pcs[:])
	panic("boom")
}

//go:noinline
func c05Boom(c *c05Call) {
	switch c.pk {
	case pkString:
		c.n = runtime.Callers(1, c.pcs[:])
		panic("boom")
	case pkError:
		c.n = runtime.Callers(1, c.pcs[:])
		panic(c.cause)
	case pkNilArg:
		c.n = runtime.Callers(1, c.pcs[:])
		panic(nil)
	case pkNilMap:
		c.n = runtime.Callers(1, c.pcs[:])
		c05NilMap["a"] = 1
	case pkNilPtr:
		c.n = runtime.Callers(1, c.pcs[:])
		*c05NilPtr = 1
	case pkIndex:
		c.n = runtime.Callers(1, c.pcs[:])
		c05Slice[c05Five] = 1
	default:
		c.n = runtime.Callers(1, c.pcs[:])
		c05Zero = 1 / c05Zero
	}
}
