package main

import (
	"log/slog"

	"github.com/shiwano/errdef"
)

func logByID(id int) func(errdef.Error) slog.Value {
	return func(err errdef.Error) slog.Value {
		return slog.GroupValue(slog.Int("custom", id), slog.String("msg", err.Error()))
	}
}
