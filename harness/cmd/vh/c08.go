package main

import (
	"bytes"
	"encoding/json"
	"fmt"
	"strings"
)

func init() {
	register(&Prop{
		ID: "C08", Imports: "Base.Str Model.Core Model.Prog Model.Json Check.Render Check.C08", Module: "C08",
		Rule:      "an errdef error with at least one field, stack frame or cause is marshaled; distinct by Coq term",
		ShardSize: 40,
		Gen: func(r *Rng, tier string) []Case {
			n := 200
			if tier == "thorough" {
				n = 5000
			}
			var out []Case
			for _, cp := range renderCorpus() {
				out = append(out, runC08(cp))
			}
			for i := 0; i < n; i++ {
				cfg := p1Cfg{MaxStmts: 6 + i*10/n, Keys: p1Keys, Trace: i%2 == 0, Presenters: true, JSONSafe: i%5 != 0}
				out = append(out, runC08(genProgFields(r, cfg)))
			}
			return out
		},
		Replay: func(d json.RawMessage) ([]Case, error) {
			var desc p1Desc
			if err := json.Unmarshal(d, &desc); err != nil {
				return nil, err
			}
			return []Case{runC08(desc.Prog)}, nil
		},
	})
}

// parseDoc turns marshaled error JSON into the ordered Coq json term of Model/Json.v.
// Values directly under "fields" are kept as compact raw text (JRaw).
func parseDoc(b []byte) (string, error) {
	dec := json.NewDecoder(bytes.NewReader(b))
	dec.UseNumber()
	s, err := parseValue(dec, false)
	if err != nil {
		return "", err
	}
	return s, nil
}

func parseValue(dec *json.Decoder, rawMembers bool) (string, error) {
	tok, err := dec.Token()
	if err != nil {
		return "", err
	}
	switch t := tok.(type) {
	case json.Delim:
		switch t {
		case '{':
			var members []string
			for dec.More() {
				kt, err := dec.Token()
				if err != nil {
					return "", err
				}
				key := kt.(string)
				var v string
				if rawMembers {
					var raw json.RawMessage
					if err := dec.Decode(&raw); err != nil {
						return "", err
					}
					var buf bytes.Buffer
					if err := json.Compact(&buf, raw); err != nil {
						return "", err
					}
					v = "(JRaw " + cStr(buf.String()) + ")"
				} else {
					v, err = parseValue(dec, key == "fields")
					if err != nil {
						return "", err
					}
				}
				members = append(members, fmt.Sprintf("(%s, %s)", cStr(key), v))
			}
			if _, err := dec.Token(); err != nil {
				return "", err
			}
			return "(JObj " + cList(members) + ")", nil
		case '[':
			var items []string
			for dec.More() {
				v, err := parseValue(dec, false)
				if err != nil {
					return "", err
				}
				items = append(items, v)
			}
			if _, err := dec.Token(); err != nil {
				return "", err
			}
			return "(JArr " + cList(items) + ")", nil
		}
	case string:
		return "(JStr " + cStr(t) + ")", nil
	case json.Number:
		if i, err := t.Int64(); err == nil {
			return "(JNum " + cZ(i) + ")", nil
		}
		return "(JRaw " + cStr(t.String()) + ")", nil
	case bool:
		return fmt.Sprintf("(JRaw %s)", cStr(fmt.Sprint(t))), nil
	case nil:
		return "(JRaw \"null\")", nil
	}
	return "", fmt.Errorf("unexpected token %v", tok)
}

func runC08(p []PStmt) Case {
	w := newWorld()
	panics := w.run(p)
	gs := w.roundTripAll()
	var obs []string
	nontrivial := false
	for _, sb := range w.renderSubjects(gs) {
		func() {
			defer func() {
				if pv := recover(); pv != nil {
					panics = append(panics, fmt.Sprintf("json.Marshal panicked: %v", pv))
					obs = append(obs, fmt.Sprintf("{| o_subject := %s; o_doc := None; o_same3 := false |}", sb.Coq))
				}
			}()
			b1, err1 := json.Marshal(sb.Err)
			b2, _ := json.Marshal(sb.Err)
			b3, _ := json.Marshal(sb.Err)
			same := bytes.Equal(b1, b2) && bytes.Equal(b2, b3)
			doc := "None"
			if err1 == nil {
				if !json.Valid(b1) {
					doc = "(Some (JStr \"<invalid JSON>\"))"
				} else if d, err := parseDoc(b1); err == nil {
					doc = "(Some " + d + ")"
					if bytes.Contains(b1, []byte("\"fields\"")) || bytes.Contains(b1, []byte("\"causes\"")) || bytes.Contains(b1, []byte("\"stack\"")) {
						nontrivial = true
					}
				} else {
					doc = "(Some (JStr " + cStr("<unparsable: "+err.Error()+">") + "))"
				}
			}
			obs = append(obs, fmt.Sprintf("{| o_subject := %s; o_doc := %s; o_same3 := %s |}", sb.Coq, doc, cBool(same)))
		}()
	}
	coq := fmt.Sprintf("{| c_prog := %s; c_given := %s; c_obs := %s |}", w.coqProg(), givenCoq(gs), cList(obs))
	o := fmt.Sprintf("%d documents (%d restored)", len(obs), len(gs))
	if len(panics) > 0 {
		o += fmt.Sprintf("; PANICS: %v", panics)
	}
	return Case{Coq: strings.ReplaceAll(coq, "\n", " "), Desc: mustJSON(p1Desc{Prog: p}), Size: len(p),
		Nontrivial: nontrivial, Class: fmt.Sprintf("stmts=%d", len(p)/4*4), Summary: progSummary(p), Observed: o}
}
