package main

import (
	"encoding/json"
	"fmt"
	"reflect"
	"strings"

	"github.com/shiwano/errdef"
	"github.com/shiwano/errdef/resolver"
)

type c14Field struct{ Key, Val int }
type c14Def struct {
	Kind   string
	Fields []c14Field
}
type c14Lookup struct {
	Op   string // kind, kindD, field, fieldD, func, funcD
	Kind string
	Key  int
	Want int // value pool index, -1 = nil
	Wrap int // 0 raw, 1 FieldValue, 2 FieldValue of FieldValue
	Pred string
	PInt int64
	PStr string
}
type c14Desc struct {
	Pool    []c14Def
	Reg     []int
	Default int
	Lookup  c14Lookup
}

func init() {
	register(&Prop{
		ID: "C14", Imports: "Base.Str Model.Value Model.Resolver Check.C14", Module: "C14",
		Rule:      "registration list has a duplicate identity or two definitions of one kind or two definitions carrying the looked-up key; distinct by Coq term",
		ShardSize: 250,
		Gen:       genC14,
		Replay: func(d json.RawMessage) ([]Case, error) {
			var desc c14Desc
			if err := json.Unmarshal(d, &desc); err != nil {
				return nil, err
			}
			return []Case{runC14(desc)}, nil
		},
	})
}

var c14Kinds = []string{"k1", "k2", "", "k1 "}

func genC14(r *Rng, tier string) []Case {
	n := 500
	if tier == "thorough" {
		n = 12000
	}
	var out []Case
	// exhaustive part: every order of a 3-element base with equal kinds, kind lookups
	perm3 := [][]int{{0, 1, 2}, {0, 2, 1}, {1, 0, 2}, {1, 2, 0}, {2, 0, 1}, {2, 1, 0}, {0, 0, 1}, {1, 0, 0, 1}, {2, 2, 2}}
	for _, reg := range perm3 {
		for _, k := range []string{"k1", "k2", "zz"} {
			for _, op := range []string{"kind", "kindD"} {
				out = append(out, runC14(c14Desc{
					Pool: []c14Def{{Kind: "k1"}, {Kind: "k1"}, {Kind: "k2"}, {Kind: "dflt"}},
					Reg:  reg, Default: 3, Lookup: c14Lookup{Op: op, Kind: k},
				}))
			}
		}
	}
	pool := valuePool()
	// grid: every lookup form x key type (any / string / int / composite) x raw value, FieldValue,
	// FieldValue of FieldValue x (the value the second registered definition stores | a value nobody
	// stores); two definitions carry the key, the default is a third one
	for _, ki := range []int{19, 0, 2, 24} {
		vs := valuesFor(keyPool[ki], pool)
		if len(vs) < 3 {
			continue
		}
		for _, op := range []string{"field", "fieldD", "func", "funcD"} {
			for wrap := 0; wrap <= 2; wrap++ {
				for _, want := range []int{vs[1], vs[2]} {
					out = append(out, runC14(c14Desc{
						Pool: []c14Def{{Kind: "k1", Fields: []c14Field{{ki, vs[0]}}}, {Kind: "k2", Fields: []c14Field{{ki, vs[1]}}}, {Kind: "dflt"}},
						Reg:  []int{0, 1}, Default: 2,
						Lookup: c14Lookup{Op: op, Key: ki, Want: want, Wrap: wrap, Pred: "true"},
					}))
				}
			}
		}
	}
	for i := 0; i < n; i++ {
		size := 1 + i*6/n // grows with the index
		np := 1 + r.Intn(size+1)
		if np > 5 {
			np = 5
		}
		d := c14Desc{}
		// a few keys are "hot" so that several definitions share them
		hot := []int{r.Intn(nBaseKeys), r.Intn(nBaseKeys), 19}
		for j := 0; j < np+1; j++ {
			def := c14Def{Kind: Pick(r, c14Kinds)}
			nf := r.Intn(4)
			for f := 0; f < nf; f++ {
				ki := Pick(r, hot)
				if r.Chance(1, 4) {
					ki = r.Intn(nBaseKeys)
				}
				vs := valuesFor(keyPool[ki], pool)
				def.Fields = append(def.Fields, c14Field{Key: ki, Val: Pick(r, vs)})
			}
			d.Pool = append(d.Pool, def)
		}
		d.Default = np
		nr := r.Intn(size + 3)
		for j := 0; j < nr; j++ {
			x := r.Intn(np)
			d.Reg = append(d.Reg, x)
			if r.Chance(1, 4) {
				d.Reg = append(d.Reg, x) // adjacent duplicate (compacted)
			}
		}
		ops := []string{"kind", "kindD", "field", "field", "field", "fieldD", "func", "funcD"}
		lk := c14Lookup{Op: Pick(r, ops), Kind: Pick(r, c14Kinds), Key: Pick(r, hot), Want: -1}
		if r.Chance(1, 5) {
			lk.Key = r.Intn(nBaseKeys)
		}
		// want: usually a value that some definition stores under the key, else anything
		var cands []int
		for _, def := range d.Pool {
			for _, f := range def.Fields {
				if f.Key == lk.Key {
					cands = append(cands, f.Val)
				}
			}
		}
		switch {
		case len(cands) > 0 && r.Chance(3, 5):
			lk.Want = Pick(r, cands)
		case r.Chance(1, 12):
			lk.Want = -1
		default:
			lk.Want = r.Intn(len(pool))
		}
		lk.Wrap = []int{0, 0, 0, 1, 1, 2}[r.Intn(6)]
		lk.Pred = Pick(r, []string{"true", "false", "intgt", "streq"})
		lk.PInt = int64(r.Intn(3)) - 1
		lk.PStr = Pick(r, []string{"a", "", "x y"})
		d.Lookup = lk
		out = append(out, runC14(d))
	}
	return out
}

var c14Decoy = errdef.Define("c14-decoy", errdef.NoTrace())

func runC14(d c14Desc) Case {
	pool := valuePool()
	defs := make([]errdef.Definition, len(d.Pool))
	coqDefs := make([]string, len(d.Pool))
	for i, pd := range d.Pool {
		var opts []errdef.Option
		var fl []string
		// last write per key wins inside one Define; the model gets the final map
		final := map[int]int{}
		var order []int
		for _, f := range pd.Fields {
			opts = append(opts, keyPool[f.Key].Opt(pool[f.Val].V))
			if _, ok := final[f.Key]; !ok {
				order = append(order, f.Key)
			}
			final[f.Key] = f.Val
		}
		for _, k := range order {
			fl = append(fl, fmt.Sprintf("(%s, (%s, %s))", cN(k), keyPool[k].stCoq(), pool[final[k]].Coq))
		}
		defs[i] = errdef.Define(errdef.Kind(pd.Kind), opts...)
		coqDefs[i] = fmt.Sprintf("{| rd_id := %s; rd_kind := %s; rd_fields := %s |}", cN(i+1), cStr(pd.Kind), cList(fl))
	}
	reg := make([]errdef.Definition, len(d.Reg))
	var coqReg []string
	for i, x := range d.Reg {
		reg[i] = defs[x]
		coqReg = append(coqReg, coqDefs[x])
	}
	// the registration list is caller-owned: built with spare capacity, and overwritten after
	// registration - the resolver answers from what it was given at New
	reg = append(make([]errdef.Definition, 0, len(reg)+2), reg...)
	res := resolver.New(reg...)
	dres := res.WithDefault(defs[d.Default])
	for i := range reg {
		reg[i] = c14Decoy
	}
	for i := range reg[:cap(reg)][len(reg):] {
		reg[:cap(reg)][len(reg)+i] = c14Decoy
	}

	lk := d.Lookup
	var want any
	wantCoq := "RNil"
	wantStr := "nil"
	if lk.Want >= 0 {
		want, wantCoq, wantStr = pool[lk.Want].V, pool[lk.Want].Coq, pool[lk.Want].Str
	}
	for w := 0; w < lk.Wrap; w++ {
		fv, ok := keyPool[19].Key.NewValue(want) // the any-typed key wraps every non-nil value
		if !ok {
			break
		}
		want, wantCoq, wantStr = fv, "(RFV "+wantCoq+")", "FV("+wantStr+")"
	}
	var pred func(errdef.FieldValue) bool
	var predCoq string
	switch lk.Pred {
	case "true":
		pred, predCoq = func(errdef.FieldValue) bool { return true }, "PTrue"
	case "false":
		pred, predCoq = func(errdef.FieldValue) bool { return false }, "PFalse"
	case "intgt":
		pred = func(v errdef.FieldValue) bool {
			rv := reflect.ValueOf(v.Value())
			switch rv.Kind() { // every value the model represents as RInt (integer kinds and bool)
			case reflect.Int, reflect.Int8, reflect.Int16, reflect.Int32, reflect.Int64:
				return rv.Int() > lk.PInt
			case reflect.Uint, reflect.Uint8, reflect.Uint16, reflect.Uint32, reflect.Uint64:
				return int64(rv.Uint()) > lk.PInt
			case reflect.Bool:
				return b2i(rv.Bool()) > lk.PInt
			}
			return false
		}
		predCoq = "(PIntGt " + cZ(lk.PInt) + ")"
	default:
		pred = func(v errdef.FieldValue) bool {
			rv := reflect.ValueOf(v.Value())
			return rv.Kind() == reflect.String && rv.String() == lk.PStr
		}
		predCoq = "(PStrEq " + cStr(lk.PStr) + ")"
	}

	var lookupCoq string
	var call func() (errdef.Definition, bool)
	key := keyPool[lk.Key]
	switch lk.Op {
	case "kind":
		lookupCoq = "(LKind " + cStr(lk.Kind) + ")"
		call = func() (errdef.Definition, bool) { return res.ResolveKind(errdef.Kind(lk.Kind)) }
	case "kindD":
		lookupCoq = "(LKindOrDefault " + cStr(lk.Kind) + ")"
		call = func() (errdef.Definition, bool) { return dres.ResolveKindOrDefault(errdef.Kind(lk.Kind)), true }
	case "field":
		lookupCoq = fmt.Sprintf("(LField %s %s)", cN(lk.Key), wantCoq)
		call = func() (errdef.Definition, bool) { return res.ResolveField(key.Key, want) }
	case "fieldD":
		lookupCoq = fmt.Sprintf("(LFieldOrDefault %s %s)", cN(lk.Key), wantCoq)
		call = func() (errdef.Definition, bool) { return dres.ResolveFieldOrDefault(key.Key, want), true }
	case "func":
		lookupCoq = fmt.Sprintf("(LFieldFunc %s %s)", cN(lk.Key), predCoq)
		call = func() (errdef.Definition, bool) { return res.ResolveFieldFunc(key.Key, pred) }
	default:
		lookupCoq = fmt.Sprintf("(LFieldFuncOrDefault %s %s)", cN(lk.Key), predCoq)
		call = func() (errdef.Definition, bool) { return dres.ResolveFieldFuncOrDefault(key.Key, pred), true }
	}

	obs, obsStr := "RNotFound", "not-found"
	func() {
		defer func() {
			if p := recover(); p != nil {
				obs, obsStr = "RPanic", fmt.Sprintf("panic: %v", p)
			}
		}()
		got, ok := call()
		if ok {
			obs, obsStr = "RFound 0%N", "found definition outside the pool"
			for i, dd := range defs {
				if dd == got {
					obs, obsStr = "RFound "+cN(i+1), fmt.Sprintf("found pool[%d]", i)
				}
			}
			if got == nil {
				obs, obsStr = "RFound 0%N", "found nil"
			}
		}
	}()

	// non-triviality: duplicates / equal kinds / several carriers of the key in the registration list
	seen, kinds, carriers := map[int]bool{}, map[string]int{}, 0
	dup := false
	for _, x := range d.Reg {
		if seen[x] {
			dup = true
		} else {
			kinds[d.Pool[x].Kind]++
			for _, f := range d.Pool[x].Fields {
				if f.Key == lk.Key {
					carriers++
					break
				}
			}
		}
		seen[x] = true
	}
	eqKinds := false
	for _, c := range kinds {
		if c > 1 {
			eqKinds = true
		}
	}
	class := lk.Op
	if strings.HasPrefix(lk.Op, "field") {
		class += fmt.Sprintf("/wrap%d", lk.Wrap)
	}
	coq := fmt.Sprintf("{| c_defs := %s; c_default := %s; c_lookup := %s; c_obs := %s |}",
		cList(coqReg), coqDefs[d.Default], lookupCoq, obs)
	return Case{
		Coq: coq, Desc: mustJSON(d), Size: len(d.Reg)*4 + len(d.Pool) + lk.Wrap,
		Nontrivial: dup || eqKinds || carriers > 1, Class: class,
		Summary:  fmt.Sprintf("reg=%v lookup=%s kind=%q key=%s want=%s", d.Reg, lk.Op, lk.Kind, key.Name, wantStr),
		Observed: obsStr,
	}
}
