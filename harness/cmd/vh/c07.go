package main

// C07: every renderer terminates on every cause graph.
//
// Stream A (graphs x renderers x native|restored).  A graph DSL (the one of C06, copied, plus
// per-node field values, restored nodes whose causes are sentinel errors, and unique messages)
// builds real error values.  Every (graph, renderer) pair is run in a CHILD process (subcommand
// "c07child": debug.SetMaxStack(64 MiB), one result line per item) because the failures this
// property is about are fatal for the process.  Pairs that walk a cyclic graph get a process of
// their own; the others are batched (a batch child that dies is attributed to the first item
// without a result line and restarted behind it).  The parent classifies the outcome in
// {ok, json-error, panic, crash, timeout} and prints the case for Check/C07.v.
//
// Stream B (source availability sequences).  Subcommand "c07src" (run as uid nobody when the
// harness is root, so that chmod 000 really makes a file unreadable) renders errors whose frames
// point into scratch files (c07_sites.go) whose state it changes between the renders.

import (
	"bufio"
	"bytes"
	"context"
	"encoding/json"
	"fmt"
	"io"
	"log/slog"
	"math"
	"os"
	"os/exec"
	"path/filepath"
	"regexp"
	"runtime/debug"
	"sort"
	"strconv"
	"strings"
	"sync"
	"syscall"
	"time"

	"github.com/shiwano/errdef"
	"github.com/shiwano/errdef/resolver"
	"github.com/shiwano/errdef/unmarshaler"
)

// ---------- error types of the DSL (foreign errors; message "n<id>") ----------

type c07PS struct {
	id    int
	cause error
}

func (e *c07PS) Error() string { return "n" + strconv.Itoa(e.id) }
func (e *c07PS) Unwrap() error { return e.cause }

// c07PD: like c07PS, but Error() DELEGATES to the cause (as *fs.PathError or an "op: cause" error does)
type c07PD struct {
	id    int
	cause error
}

func (e *c07PD) Error() string {
	if e.cause != nil {
		return "n" + strconv.Itoa(e.id) + ": " + e.cause.Error()
	}
	return "n" + strconv.Itoa(e.id)
}
func (e *c07PD) Unwrap() error { return e.cause }

type c07PM struct {
	id     int
	causes []error
}

func (e *c07PM) Error() string   { return "n" + strconv.Itoa(e.id) }
func (e *c07PM) Unwrap() []error { return e.causes }

// c07NP: a pointer type with nil-safe methods, used as a TYPED NIL error (address 0). All nil values
// of the type are one value, so a graph holds at most one such node; what it says and what it
// unwraps to is configured per build.
type c07NP struct{ _ int }

var (
	c07NPId    int
	c07NPCause error
)

func (e *c07NP) Error() string { return "n" + strconv.Itoa(c07NPId) }
func (e *c07NP) Unwrap() error { return c07NPCause }

type c07Cell struct {
	cause  error
	causes []error
}
type c07VS struct {
	id   int
	cell *c07Cell
}

func (e c07VS) Error() string { return "n" + strconv.Itoa(e.id) }
func (e c07VS) Unwrap() error { return e.cell.cause }

type c07VM struct {
	id   int
	cell *c07Cell
}

func (e c07VM) Error() string   { return "n" + strconv.Itoa(e.id) }
func (e c07VM) Unwrap() []error { return e.cell.causes }

// map-kinded: holds its causes INLINE (fmt's %#v prints them); the id is the key "id:<n>"
type c07MM map[string][]error

func (e c07MM) Error() string {
	for k := range e {
		if strings.HasPrefix(k, "id:") {
			return "n" + k[3:]
		}
	}
	return "n?"
}
func (e c07MM) Unwrap() []error { return e["c"] }

// c07SL: a SLICE-kinded error whose elements are its causes; its number is kept in the spare capacity
// (cap - len - 1), so that the value can be built first and filled in place afterwards (cycles)
type c07SL []error

func (e c07SL) Error() string   { return "n" + strconv.Itoa(cap(e)-len(e)-1) }
func (e c07SL) Unwrap() []error { return e }

// ---------- descriptions ----------

// Kind: ps pm vs vm mm (foreign, mutable)   ew ej en (errdef: Wrap / Join / New)
//
//	rs (restored errdef error: Unmarshal of a document whose causes are sentinel errors = foreign nodes)
//
// Causes: indices into Nodes, -1 = nil.  Field (errdef nodes): "" plain multiline huge (fine),
// chan func nan inf (json cannot encode), selfmap (a map that contains itself).
type c07Node struct {
	Kind   string `json:"kind"`
	Causes []int  `json:"causes,omitempty"`
	Field  string `json:"field,omitempty"`
	Trace  bool   `json:"trace,omitempty"`
}

type c07Step struct {
	Files  map[string]string `json:"files"` // "a.go" / "b.go" -> present short empty missing unreadable toolong dir loop
	Site   string            `json:"site"`  // A3 A7 B2 B5A3 A7A3
	Around int               `json:"around"`
	Depth  int               `json:"depth"`
}

type c07Item struct {
	Stream   string    `json:"stream"` // render | source
	Nodes    []c07Node `json:"nodes,omitempty"`
	Recv     int       `json:"recv"`
	Renderer string    `json:"renderer,omitempty"`
	Restored bool      `json:"restored,omitempty"`
	Single   bool      `json:"single,omitempty"` // a child process of its own
	Class    string    `json:"class,omitempty"`
	Tags     []string  `json:"tags,omitempty"`
	Seq      []c07Step `json:"seq,omitempty"`
}

var c07Renderers = []string{"error", "s", "v", "q", "+v", "#v", "slog", "nodelog", "debugstack", "json"}

var c07RendererCoq = map[string]string{
	"error": "(RTree KError)", "s": "(RTree KS)", "v": "(RTree KV)", "q": "(RTree KQ)", "+v": "(RTree KPlus)",
	"#v": "(RTree KSharp)", "slog": "(RTree KSlog)", "nodelog": "(RTree KNodeLog)", "debugstack": "(RTree KDebug)", "json": "RJson",
}

const c07ClassValueCycle = "value-kind-only-cycle"

const (
	c07TagK12 = "cycle-of-value-kinded-errors-only"
	c07TagK1  = "json-cycle-through-errdef-node"
	c07TagK7  = "gostring-cycle-through-inline-kinded-cause"
	c07TagK8  = "fmt-cycle-in-field-value"
)

func init() {
	register(&Prop{
		ID: "C07", Imports: "Base.Str Base.Outcome Model.Tree Model.Render07 Check.C07", Module: "C07",
		Rule:      "render: the graph has a cycle, a shared node, or a special field value; source: some file state other than present; distinct by Coq term",
		ShardSize: 250,
		Gen:       genC07,
		Replay: func(d json.RawMessage) ([]Case, error) {
			var it c07Item
			if err := json.Unmarshal(d, &it); err != nil {
				return nil, err
			}
			if it.Stream == "source" {
				obs, note, err := c07RunSource([][]c07Step{it.Seq})
				if err != nil {
					return nil, err
				}
				_ = note
				return []Case{c07SourceCase(it, obs[0])}, nil
			}
			if !c07Valid(it) {
				return nil, fmt.Errorf("C07 replay: description is not buildable")
			}
			it.Single = true
			res := c07RunItems([]c07Item{it})
			return []Case{c07RenderCase(it, res[0])}, nil
		},
	})
	subcommands["c07child"] = c07ChildMain
	subcommands["c07src"] = c07SrcMain
}

func c07IsErrdef(k string) bool { return k == "ew" || k == "ej" || k == "en" || k == "rs" }
func c07IsValue(k string) bool  { return k == "vs" || k == "vm" }
func c07IsSingle(k string) bool { return k == "ps" || k == "vs" || k == "np" || k == "pd" }
func c07IsForeign(k string) bool {
	return k == "ps" || k == "pm" || k == "vs" || k == "vm" || k == "mm" || k == "np" || k == "sl" || k == "pd"
}
func c07BadField(f string) bool {
	return f == "chan" || f == "func" || f == "nan" || f == "inf" || f == "selfmap"
}

// c07Valid: the description can be built and satisfies the guard G of C06 by construction.
func c07Valid(d c07Item) bool {
	n := len(d.Nodes)
	if d.Recv < 0 || d.Recv >= n || !c07IsErrdef(d.Nodes[d.Recv].Kind) {
		return false
	}
	// errors whose Error() delegates to the cause must not form a cycle among themselves: their own
	// Error() would not terminate, whatever the library does
	{
		isPD := func(i int) bool { return i >= 0 && i < n && d.Nodes[i].Kind == "pd" }
		for i := range d.Nodes {
			if !isPD(i) {
				continue
			}
			seen := map[int]bool{}
			for x := i; isPD(x) && len(d.Nodes[x].Causes) > 0; x = d.Nodes[x].Causes[0] {
				if seen[x] {
					return false
				}
				seen[x] = true
				if c := d.Nodes[x].Causes[0]; c < 0 || c >= n {
					break
				}
			}
		}
	}
	nps := 0
	for i, nd := range d.Nodes {
		if !c07IsErrdef(nd.Kind) && !c07IsForeign(nd.Kind) {
			return false
		}
		if nd.Kind == "np" {
			if nps++; nps > 1 {
				return false
			}
		}
		if !c07IsErrdef(nd.Kind) && (nd.Field != "" || nd.Trace) {
			return false
		}
		if nd.Kind == "en" && len(nd.Causes) > 0 {
			return false
		}
		if nd.Kind == "rs" && nd.Field != "" {
			return false // a restored error shows the fields of its document, not those of its definition
		}
		if c07IsSingle(nd.Kind) && len(nd.Causes) > 1 {
			return false
		}
		nonNil := 0
		for _, c := range nd.Causes {
			if c < -1 || c >= n {
				return false
			}
			if c < 0 {
				if nd.Kind == "rs" {
					return false
				}
				continue
			}
			nonNil++
			ck := d.Nodes[c].Kind
			if nd.Kind == "rs" && (!c07IsForeign(ck) || ck == "np") {
				return false // sentinel causes are foreign errors
			}
			if c07IsErrdef(nd.Kind) && c07IsErrdef(ck) && c >= i {
				return false // an errdef error wraps only errors that already exist
			}
			if c07IsValue(nd.Kind) && c07IsValue(ck) && c >= i && d.Class != c07ClassValueCycle {
				return false // every cycle passes through a tracked node (but for the class of K12)
			}
		}
		if nd.Kind == "ew" && (len(nd.Causes) != 1 || nonNil != 1) {
			return false
		}
		if nd.Kind == "ej" && nonNil == 0 {
			return false
		}
	}
	return true
}

// ---------- graph analysis on the description (for tags and process isolation only) ----------

func c07Edges(d c07Item) [][]int {
	out := make([][]int, len(d.Nodes))
	for i, nd := range d.Nodes {
		cs := nd.Causes
		if c07IsSingle(nd.Kind) && len(cs) > 1 {
			cs = cs[:1]
		}
		for _, c := range cs {
			if c >= 0 {
				out[i] = append(out[i], c)
			}
		}
	}
	return out
}

func c07Reach(edges [][]int, from int, allowed func(int) bool) map[int]bool {
	seen := map[int]bool{}
	var dfs func(int)
	dfs = func(x int) {
		for _, c := range edges[x] {
			if allowed != nil && !allowed(c) {
				continue
			}
			if !seen[c] {
				seen[c] = true
				dfs(c)
			}
		}
	}
	dfs(from)
	return seen // nodes reachable by >= 1 edge
}

// some cycle is reachable from the receiver
func c07Cyclic(d c07Item) bool {
	e := c07Edges(d)
	r := c07Reach(e, d.Recv, nil)
	r[d.Recv] = true
	for x := range r {
		if c07Reach(e, x, nil)[x] {
			return true
		}
	}
	return false
}

// K1: a cycle through an errdef node is reachable from the receiver
func c07ErrdefCycle(d c07Item) bool {
	e := c07Edges(d)
	r := c07Reach(e, d.Recv, nil)
	r[d.Recv] = true
	for x := range r {
		if c07IsErrdef(d.Nodes[x].Kind) && c07Reach(e, x, nil)[x] {
			return true
		}
	}
	return false
}

// the causes the receiver's struct holds inline
func c07Direct(d c07Item) []int {
	nd := d.Nodes[d.Recv]
	var nonNil []int
	for _, c := range nd.Causes {
		if c >= 0 {
			nonNil = append(nonNil, c)
		}
	}
	switch nd.Kind {
	case "ew", "rs":
		return nonNil
	case "ej":
		if len(nonNil) == 1 {
			return nonNil // Join with one non-nil cause keeps it directly; otherwise a *joinError
		}
	}
	return nil
}

// K7: %#v reaches, through map-kinded nodes only, a cycle of map-kinded nodes
func c07InlineCycle(d c07Item) bool {
	e := c07Edges(d)
	inl := func(x int) bool { return d.Nodes[x].Kind == "mm" || d.Nodes[x].Kind == "sl" }
	for _, c := range c07Direct(d) {
		if !inl(c) {
			continue
		}
		r := c07Reach(e, c, inl)
		r[c] = true
		for x := range r {
			if c07Reach(e, x, inl)[x] {
				return true
			}
		}
	}
	return false
}

// K8: a self-containing field value on the receiver or on an errdef node below it
func c07CycField(d c07Item) bool {
	r := c07Reach(c07Edges(d), d.Recv, nil)
	r[d.Recv] = true
	for x := range r {
		if d.Nodes[x].Field == "selfmap" {
			return true
		}
	}
	return false
}

func c07Shared(d c07Item) bool {
	cnt := map[int]int{}
	for _, cs := range c07Edges(d) {
		for _, c := range cs {
			cnt[c]++
		}
	}
	for _, c := range cnt {
		if c > 1 {
			return true
		}
	}
	return false
}

// K12: a cycle made of value-kinded (untracked) nodes only is reachable from the receiver
func c07ValueOnlyCycle(d c07Item) bool {
	e := c07Edges(d)
	r := c07Reach(e, d.Recv, nil)
	r[d.Recv] = true
	isVal := func(i int) bool { return c07IsValue(d.Nodes[i].Kind) }
	for x := range r {
		if isVal(x) && c07Reach(e, x, isVal)[x] {
			return true
		}
	}
	return false
}

func c07TagsFor(d c07Item) []string {
	var tags []string
	if d.Restored {
		return nil
	}
	if c07ValueOnlyCycle(d) {
		tags = append(tags, c07TagK12)
	}
	switch d.Renderer {
	case "json":
		if c07ErrdefCycle(d) {
			tags = append(tags, c07TagK1)
		}
	case "#v":
		if c07InlineCycle(d) {
			tags = append(tags, c07TagK7)
		}
	case "+v":
		if c07CycField(d) {
			tags = append(tags, c07TagK8)
		}
	}
	return tags
}

// ---------- building the error values (child side) ----------

var (
	c07FChan, _ = errdef.DefineField[chan int]("ch")
	c07FFunc, _ = errdef.DefineField[func()]("fn")
	c07FF64, _  = errdef.DefineField[float64]("f")
	c07FStr, _  = errdef.DefineField[string]("s")
	c07FMap, _  = errdef.DefineField[map[string]any]("m")
	// typed nil pointers whose element types carry VALUE-receiver marshal methods: encoding/json
	// writes null for them; calling the method through the nil pointer would panic
	c07FNilTime, _  = errdef.DefineField[*time.Time]("t")
	c07FNilMarsh, _ = errdef.DefineField[*c07ValMarshaler]("vm")
	c07FNilText, _  = errdef.DefineField[*c07ValTexter]("vt")
	c07FNilAny, _   = errdef.DefineField[any]("na")
)

type c07ValMarshaler struct{ N int }

func (v c07ValMarshaler) MarshalJSON() ([]byte, error) { return []byte(strconv.Itoa(v.N)), nil }

type c07ValTexter struct{ S string }

func (v c07ValTexter) MarshalText() ([]byte, error) { return []byte(v.S), nil }
func (v c07ValTexter) String() string               { return v.S }

func c07FieldOpt(f string) errdef.Option {
	switch f {
	case "plain":
		return c07FStr("value")
	case "multiline":
		return c07FStr("alpha\nbeta\n\ngamma")
	case "huge":
		return c07FStr(strings.Repeat("0123456789abcdef", 1<<14)) // 256 KiB
	case "niltime":
		return c07FNilTime(nil)
	case "nilmarsh":
		return c07FNilMarsh(nil)
	case "niltext":
		return c07FNilText(nil)
	case "nilany":
		return c07FNilAny((*c07ValMarshaler)(nil))
	case "chan":
		return c07FChan(make(chan int))
	case "func":
		return c07FFunc(func() {})
	case "nan":
		return c07FF64(math.NaN())
	case "inf":
		return c07FF64(math.Inf(-1))
	case "selfmap":
		m := map[string]any{"k": 1}
		m["self"] = m
		return c07FMap(m)
	}
	return nil
}

type c07Built struct {
	errs []error
	defs []errdef.Definition
}

func c07Build(d c07Item) (b *c07Built, problem string) {
	n := len(d.Nodes)
	b = &c07Built{errs: make([]error, n)}
	cells := make([]*c07Cell, n)
	for i, nd := range d.Nodes {
		switch nd.Kind {
		case "ps":
			b.errs[i] = &c07PS{id: i}
		case "pd":
			b.errs[i] = &c07PD{id: i}
		case "np":
			b.errs[i] = (*c07NP)(nil)
			c07NPId, c07NPCause = i, nil
		case "pm":
			b.errs[i] = &c07PM{id: i}
		case "vs":
			cells[i] = &c07Cell{}
			b.errs[i] = c07VS{id: i, cell: cells[i]}
		case "vm":
			cells[i] = &c07Cell{}
			b.errs[i] = c07VM{id: i, cell: cells[i]}
		case "mm":
			b.errs[i] = c07MM{"id:" + strconv.Itoa(i): nil}
		case "sl":
			b.errs[i] = make(c07SL, len(nd.Causes), len(nd.Causes)+i+1)
		}
	}
	get := func(c int) error {
		if c < 0 {
			return nil
		}
		return b.errs[c]
	}
	// one definition per errdef node: kind "c07k<i>"
	defOf := make([]errdef.Definition, n)
	for i, nd := range d.Nodes {
		if !c07IsErrdef(nd.Kind) {
			continue
		}
		var opts []errdef.Option
		if !nd.Trace {
			opts = append(opts, errdef.NoTrace())
		}
		if o := c07FieldOpt(nd.Field); o != nil {
			opts = append(opts, o)
		}
		defOf[i] = errdef.Define(errdef.Kind("c07k"+strconv.Itoa(i)), opts...)
		b.defs = append(b.defs, defOf[i])
	}
	func() {
		defer func() {
			if p := recover(); p != nil {
				problem = fmt.Sprintf("panic while building: %v", p)
			}
		}()
		for i, nd := range d.Nodes {
			switch nd.Kind {
			case "ew":
				b.errs[i] = defOf[i].Wrap(get(nd.Causes[0]))
			case "en":
				b.errs[i] = defOf[i].New("leaf" + strconv.Itoa(i))
			case "ej":
				args := make([]error, len(nd.Causes))
				for j, c := range nd.Causes {
					args[j] = get(c)
				}
				b.errs[i] = defOf[i].Join(args...)
			case "rs":
				type cd struct {
					Message string `json:"message"`
					Type    string `json:"type"`
				}
				doc := struct {
					Message string `json:"message"`
					Kind    string `json:"kind"`
					Stack   []int  `json:"stack,omitempty"`
					Causes  []cd   `json:"causes,omitempty"`
				}{Message: "rs" + strconv.Itoa(i), Kind: "c07k" + strconv.Itoa(i)}
				var sentinels []error
				seen := map[int]bool{}
				for _, c := range nd.Causes {
					doc.Causes = append(doc.Causes, cd{Message: b.errs[c].Error(), Type: fmt.Sprintf("%T", b.errs[c])})
					if !seen[c] {
						seen[c] = true
						sentinels = append(sentinels, b.errs[c])
					}
				}
				data, _ := json.Marshal(doc)
				if i%2 == 1 {
					// every other restored node comes from a document that spells an EMPTY stack: the restored
					// error then holds an empty, non-nil frame slice
					data = append(data[:len(data)-1], []byte(`,"stack":[]}`)...)
				}
				r, err := unmarshaler.NewJSON(resolver.New(defOf[i]), unmarshaler.WithSentinelErrors(sentinels...)).Unmarshal(data)
				if err != nil {
					problem = "rs node: Unmarshal failed: " + err.Error()
					return
				}
				b.errs[i] = r
			default:
				continue
			}
			if b.errs[i] == nil {
				problem = "constructor returned nil"
				return
			}
		}
	}()
	if problem != "" {
		return b, problem
	}
	for i, nd := range d.Nodes {
		var one error
		if len(nd.Causes) > 0 {
			one = get(nd.Causes[0])
		}
		var many []error
		for _, c := range nd.Causes {
			many = append(many, get(c))
		}
		switch nd.Kind {
		case "ps":
			b.errs[i].(*c07PS).cause = one
		case "pd":
			b.errs[i].(*c07PD).cause = one
		case "np":
			c07NPCause = one
		case "pm":
			b.errs[i].(*c07PM).causes = many
		case "vs":
			cells[i].cause = one
		case "vm":
			cells[i].causes = many
		case "mm":
			if len(many) > 0 {
				b.errs[i].(c07MM)["c"] = many
			}
		case "sl":
			copy(b.errs[i].(c07SL), many) // in place: the value other nodes hold is this very slice
		}
	}
	return b, ""
}

// ---------- one renderer on one error (child side) ----------

type c07Res struct {
	O string `json:"o"`           // ok json-error panic crash timeout build-error
	N int    `json:"n,omitempty"` // output size
	S []int  `json:"s,omitempty"` // shape
	V bool   `json:"v,omitempty"` // json.Valid / true
	M string `json:"m,omitempty"` // message (panic text, json error, how the child died)
}

var c07HeaderRe = regexp.MustCompile(`(?m)^( *)\[(\d+)\] `)

func c07JSONShape(v any, d int, out *[]int) {
	m, ok := v.(map[string]any)
	if !ok {
		return
	}
	cs, _ := m["causes"].([]any)
	for _, c := range cs {
		*out = append(*out, d)
		c07JSONShape(c, d+1, out)
	}
}

// slogValueToAny of the library, re-done here on a resolved value
func c07SlogAny(v slog.Value) any {
	v = v.Resolve()
	if v.Kind() == slog.KindGroup {
		m := map[string]any{}
		for _, a := range v.Group() {
			m[a.Key] = c07SlogAny(a.Value)
		}
		return m
	}
	return v.Any()
}

func c07Render(e error, renderer string) (res c07Res) {
	defer func() {
		if p := recover(); p != nil {
			res = c07Res{O: "panic", M: fmt.Sprintf("%v", p)}
		}
	}()
	res = c07Res{O: "ok", V: true}
	switch renderer {
	case "error":
		res.N = len(e.Error())
	case "s":
		res.N = len(fmt.Sprintf("%s", e))
	case "v":
		res.N = len(fmt.Sprintf("%v", e))
	case "q":
		res.N = len(fmt.Sprintf("%q", e))
	case "+v":
		s := fmt.Sprintf("%+v", e)
		res.N = len(s)
		for _, m := range c07HeaderRe.FindAllStringSubmatch(s, -1) {
			res.S = append(res.S, (len(m[1])-2)/4)
		}
	case "#v":
		s := fmt.Sprintf("%#v", e)
		res.N = len(s)
		res.S = make([]int, strings.Count(s, "main.c07MM{")+strings.Count(s, "main.c07SL{"))
	case "slog":
		v := e.(slog.LogValuer).LogValue()
		_ = c07SlogAny(v)
		var buf bytes.Buffer
		slog.New(slog.NewJSONHandler(&buf, nil)).Info("m", "err", e)
		res.N = buf.Len()
	case "nodelog":
		var buf bytes.Buffer
		lg := slog.New(slog.NewJSONHandler(&buf, nil))
		for _, n := range e.(errdef.Error).UnwrapTree() {
			res.S = append(res.S, 0)
			c07JSONShape(c07SlogAny(n.LogValue()), 1, &res.S)
			lg.Info("m", "node", n)
		}
		res.N = buf.Len()
	case "debugstack":
		res.N = len(e.(errdef.DebugStacker).DebugStack())
	case "json":
		data, err := json.Marshal(e)
		if err != nil {
			return c07Res{O: "json-error", M: c07Clip(err.Error(), 200)}
		}
		res.N = len(data)
		res.V = json.Valid(data)
		var v any
		if json.Unmarshal(data, &v) == nil {
			c07JSONShape(v, 0, &res.S)
		}
	default:
		return c07Res{O: "build-error", M: "unknown renderer " + renderer}
	}
	return res
}

func c07Clip(s string, n int) string {
	if len(s) > n {
		return s[:n] + "..."
	}
	return s
}

func c07RunOne(it c07Item) c07Res {
	if !c07Valid(it) {
		return c07Res{O: "build-error", M: "invalid description"}
	}
	b, problem := c07Build(it)
	if problem != "" {
		return c07Res{O: "build-error", M: problem}
	}
	e := b.errs[it.Recv]
	if it.Restored {
		var data []byte
		var err error
		func() {
			defer func() {
				if p := recover(); p != nil {
					err = fmt.Errorf("panic: %v", p)
				}
			}()
			data, err = json.Marshal(e)
			if err != nil {
				return
			}
			var r error
			r, err = unmarshaler.NewJSON(resolver.New(b.defs...)).Unmarshal(data)
			e = r
		}()
		if err != nil {
			return c07Res{O: "build-error", M: "restore: " + c07Clip(err.Error(), 200)}
		}
	}
	return c07Render(e, it.Renderer)
}

// c07ChildMain: items as JSON lines on stdin, one result line "C07R <n> <json>" each.
func c07ChildMain(args []string) int {
	debug.SetMaxStack(64 << 20)
	in := bufio.NewReaderSize(os.Stdin, 1<<20)
	n := 0
	for {
		line, err := in.ReadBytes('\n')
		if len(bytes.TrimSpace(line)) > 0 {
			var it c07Item
			var res c07Res
			if e := json.Unmarshal(line, &it); e != nil {
				res = c07Res{O: "build-error", M: e.Error()}
			} else {
				res = c07RunOne(it)
			}
			out, _ := json.Marshal(res)
			fmt.Fprintf(os.Stdout, "C07R %d %s\n", n, out)
			n++
		}
		if err != nil {
			break
		}
	}
	return 0
}

// ---------- parent side: child processes ----------

const c07Timeout = 10 * time.Second

type c07HeadBuf struct {
	mu  sync.Mutex
	buf []byte
}

func (h *c07HeadBuf) Write(p []byte) (int, error) {
	h.mu.Lock()
	if room := 1500 - len(h.buf); room > 0 {
		h.buf = append(h.buf, p[:min(room, len(p))]...)
	}
	h.mu.Unlock()
	return len(p), nil
}
func (h *c07HeadBuf) String() string {
	h.mu.Lock()
	defer h.mu.Unlock()
	return string(h.buf)
}

var c07ChildRuns, c07ChildDeaths int
var c07CountMu sync.Mutex

// c07RunChunk runs the items (by index) in child processes and fills res.
func c07RunChunk(exe string, items []c07Item, idxs []int, res []c07Res) {
	for len(idxs) > 0 {
		cmd := exec.Command(exe, "c07child", "-")
		var input bytes.Buffer
		for _, i := range idxs {
			data, _ := json.Marshal(items[i])
			input.Write(data)
			input.WriteByte('\n')
		}
		cmd.Stdin = &input
		stderr := &c07HeadBuf{}
		cmd.Stderr = stderr
		stdout, err := cmd.StdoutPipe()
		if err != nil {
			for _, i := range idxs {
				res[i] = c07Res{O: "crash", M: "cannot start child: " + err.Error()}
			}
			return
		}
		if err := cmd.Start(); err != nil {
			for _, i := range idxs {
				res[i] = c07Res{O: "crash", M: "cannot start child: " + err.Error()}
			}
			return
		}
		c07CountMu.Lock()
		c07ChildRuns++
		c07CountMu.Unlock()
		lines := make(chan string, 16)
		go func() {
			sc := bufio.NewScanner(stdout)
			sc.Buffer(make([]byte, 1<<20), 64<<20)
			for sc.Scan() {
				if strings.HasPrefix(sc.Text(), "C07R ") {
					lines <- sc.Text()
				}
			}
			close(lines)
		}()
		done := 0
		timedOut := false
	loop:
		for {
			timer := time.NewTimer(c07Timeout)
			select {
			case l, ok := <-lines:
				timer.Stop()
				if !ok {
					break loop
				}
				parts := strings.SplitN(l, " ", 3)
				var r c07Res
				if len(parts) == 3 && json.Unmarshal([]byte(parts[2]), &r) == nil && done < len(idxs) {
					res[idxs[done]] = r
					done++
				}
			case <-timer.C:
				timedOut = true
				_ = cmd.Process.Kill()
				for range lines {
				}
				break loop
			}
		}
		werr := cmd.Wait()
		if done >= len(idxs) {
			return
		}
		// the first item without a result line killed the child (or hung)
		c07CountMu.Lock()
		c07ChildDeaths++
		c07CountMu.Unlock()
		if timedOut {
			res[idxs[done]] = c07Res{O: "timeout", M: fmt.Sprintf("no result within %s", c07Timeout)}
		} else {
			how := "child exited without a result line"
			if werr != nil {
				how = werr.Error()
			}
			se := stderr.String()
			switch {
			case strings.Contains(se, "stack overflow"):
				how += "; fatal error: stack overflow (goroutine stack exceeds 64 MiB)"
			case se != "":
				how += "; stderr: " + c07Clip(strings.ReplaceAll(se, "\n", " | "), 200)
			}
			res[idxs[done]] = c07Res{O: "crash", M: how}
		}
		idxs = idxs[done+1:]
	}
}

// c07RunItems: singles get a process each, the rest is batched; 16 children in parallel.
func c07RunItems(items []c07Item) []c07Res {
	exe, err := os.Executable()
	if err != nil {
		exe = os.Args[0]
	}
	res := make([]c07Res, len(items))
	var chunks [][]int
	var batch []int
	for i, it := range items {
		if it.Single {
			chunks = append(chunks, []int{i})
			continue
		}
		batch = append(batch, i)
		if len(batch) == 40 {
			chunks = append(chunks, batch)
			batch = nil
		}
	}
	if len(batch) > 0 {
		chunks = append(chunks, batch)
	}
	jobs := make(chan []int)
	var wg sync.WaitGroup
	for w := 0; w < 16; w++ {
		wg.Add(1)
		go func() {
			defer wg.Done()
			for c := range jobs {
				c07RunChunk(exe, items, c, res)
			}
		}()
	}
	for _, c := range chunks {
		jobs <- c
	}
	close(jobs)
	wg.Wait()
	return res
}

// ---------- printing a render case ----------

func c07GraphCoq(d c07Item) string {
	var items []string
	opt := func(c int) string {
		if c < 0 {
			return "None"
		}
		return "(Some " + cNat(c) + ")"
	}
	for i, nd := range d.Nodes {
		key := "None"
		if !c07IsValue(nd.Kind) {
			key = "(Some " + cN(i+1) + ")" // distinct objects, distinct addresses
		}
		if nd.Kind == "np" {
			key = "(Some 0%N)" // a typed nil pointer: reflect.Value.Pointer() is 0
		}
		var unw string
		switch {
		case c07IsSingle(nd.Kind):
			if len(nd.Causes) == 0 {
				unw = "(USingle None)"
			} else {
				unw = "(USingle " + opt(nd.Causes[0]) + ")"
			}
		case nd.Kind == "ew" || nd.Kind == "ej" || nd.Kind == "en":
			// definedError.Unwrap(): [cause] for Wrap, the non-nil arguments for Join, nil for New
			var cs []string
			for _, c := range nd.Causes {
				if c >= 0 {
					cs = append(cs, opt(c))
				}
			}
			unw = "(UMulti " + cList(cs) + ")"
		default:
			var cs []string
			for _, c := range nd.Causes {
				cs = append(cs, opt(c))
			}
			unw = "(UMulti " + cList(cs) + ")"
		}
		items = append(items, fmt.Sprintf("{| g_key := %s; g_unwrap := %s; g_errdef := %s |}", key, unw, cBool(c07IsErrdef(nd.Kind))))
	}
	return cList(items)
}

func c07NatList(xs []int) string {
	items := make([]string, len(xs))
	for i, x := range xs {
		items[i] = cNat(x)
	}
	return cList(items)
}

func c07RenderCase(d c07Item, r c07Res) Case {
	var bad, cycf, inl []int
	for i, nd := range d.Nodes {
		if c07BadField(nd.Field) {
			bad = append(bad, i)
		}
		if nd.Field == "selfmap" {
			cycf = append(cycf, i)
		}
		if nd.Kind == "mm" || nd.Kind == "sl" {
			inl = append(inl, i)
		}
	}
	out := map[string]string{"ok": "OOk", "json-error": "OJsonErr", "panic": "OPanic", "crash": "OCrash", "timeout": "OTimeout"}[r.O]
	if out == "" {
		out = "OPanic" // build-error: the input could not be set up; shows as a failure of ok and corr
	}
	coq := fmt.Sprintf("CR {| c_graph := %s; c_attrs := {| a_bad := %s; a_cycf := %s; a_inline := %s |}; c_recv := %s; c_direct := %s; c_rk := %s; c_restored := %s; c_out := %s; c_shape := %s; c_valid := %s |}",
		c07GraphCoq(d), c07NatList(bad), c07NatList(cycf), c07NatList(inl), cNat(d.Recv), c07NatList(c07Direct(d)),
		c07RendererCoq[d.Renderer], cBool(d.Restored), out, c07NatList(r.S), cBool(r.V))
	var kinds []string
	special := false
	for i, nd := range d.Nodes {
		s := fmt.Sprintf("%d:%s%v", i, nd.Kind, nd.Causes)
		if nd.Field != "" {
			s += "{" + nd.Field + "}"
			special = true
		}
		kinds = append(kinds, s)
	}
	mode := "native"
	if d.Restored {
		mode = "restored"
	}
	obs := r.O
	if r.O == "ok" {
		obs = fmt.Sprintf("ok: %d bytes, %d causes rendered", r.N, len(r.S))
		if d.Renderer == "json" {
			obs += fmt.Sprintf(", json.Valid=%v", r.V)
		}
	} else if r.M != "" {
		obs += ": " + r.M
	}
	d.Tags = c07TagsFor(d)
	size := len(d.Nodes)*16 + len(kinds)
	for _, nd := range d.Nodes {
		size += len(nd.Causes)
	}
	return Case{
		Coq: coq, Desc: mustJSON(d), Tags: d.Tags, Size: size,
		Nontrivial: c07Cyclic(d) || c07Shared(d) || special, Class: d.Class,
		Summary:  fmt.Sprintf("%s %s recv=%d nodes={%s}", d.Renderer, mode, d.Recv, strings.Join(kinds, " ")),
		Observed: obs,
	}
}

// ---------- generators (stream A) ----------

func c07CauseLists(m int) [][]int {
	out := [][]int{{}}
	for a := 0; a < m; a++ {
		out = append(out, []int{a})
	}
	for a := 0; a < m; a++ {
		for b := 0; b < m; b++ {
			out = append(out, []int{a, b})
		}
	}
	return out
}

// all graphs on <= 3 nodes: an errdef receiver on top, foreign pointer nodes with <= 2 ordered
// causes each (over all nodes, the receiver included), and one further errdef node at every
// placement (directly under the receiver, or only reachable through the foreign node)
func c07Exhaustive(emit func(c07Item)) {
	emit(c07Item{Nodes: []c07Node{{Kind: "en"}}, Recv: 0})
	count := 0
	foreign := func(cs []int) c07Node {
		count++
		if len(cs) <= 1 && count%2 == 0 {
			return c07Node{Kind: "ps", Causes: cs}
		}
		return c07Node{Kind: "pm", Causes: cs}
	}
	for _, l0 := range c07CauseLists(2) {
		emit(c07Item{Nodes: []c07Node{foreign(l0), {Kind: "ew", Causes: []int{0}}}, Recv: 1})
	}
	l3 := c07CauseLists(3)
	for _, l0 := range l3 {
		for _, l1 := range l3 {
			emit(c07Item{Nodes: []c07Node{foreign(l0), foreign(l1), {Kind: "ew", Causes: []int{0}}}, Recv: 2})
		}
	}
	for _, l1 := range l3 {
		for _, rc := range []int{0, 1} {
			emit(c07Item{Nodes: []c07Node{{Kind: "ew", Causes: []int{1}}, foreign(l1), {Kind: "ew", Causes: []int{rc}}}, Recv: 2})
		}
	}
}

var c07Kinds = []string{"ps", "ps", "pd", "pm", "pm", "pm", "pm", "vs", "vs", "vm", "vm", "mm", "sl", "ew", "ew", "ej", "ej", "en", "rs"}
var c07FineFields = []string{"", "", "", "", "plain", "multiline", "huge", "niltime", "nilmarsh", "niltext", "nilany"}

// a random graph of n inner nodes of mixed kinds plus an errdef receiver (node n)
func c07Random(r *Rng, n int, badFields bool) c07Item {
	d := c07Item{}
	kinds := make([]string, n)
	for i := range kinds {
		kinds[i] = Pick(r, c07Kinds)
	}
	if n > 0 && r.Chance(1, 5) {
		kinds[r.Intn(n)] = "np" // at most one typed nil error per graph
	}
	allowed := func(i int, from string) []int {
		var out []int
		for c := 0; c <= n; c++ {
			ck := "ew"
			if c < n {
				ck = kinds[c]
			}
			if from == "rs" && (!c07IsForeign(ck) || ck == "np") {
				continue
			}
			if c07IsErrdef(from) && c07IsErrdef(ck) && c >= i {
				continue
			}
			if c07IsValue(from) && c07IsValue(ck) && c >= i {
				continue
			}
			out = append(out, c)
		}
		return out
	}
	field := func() string {
		if badFields && r.Chance(1, 3) {
			return Pick(r, []string{"chan", "func", "nan", "inf"})
		}
		return Pick(r, c07FineFields)
	}
	for i := 0; i < n; i++ {
		k := kinds[i]
		al := allowed(i, k)
		var cs []int
		pick := func() int { return Pick(r, al) }
		nd := c07Node{}
		switch {
		case k == "en":
		case k == "ew":
			if len(al) == 0 {
				k = "en"
			} else {
				cs = []int{pick()}
			}
		case k == "ej":
			if len(al) == 0 {
				k = "en"
			} else {
				for j := r.Intn(3); j > 0; j-- {
					if r.Chance(1, 8) {
						cs = append(cs, -1)
					} else {
						cs = append(cs, pick())
					}
				}
				cs = append(cs, pick())
			}
		case k == "rs":
			for j := r.Intn(3); j > 0 && len(al) > 0; j-- {
				cs = append(cs, pick())
			}
		case c07IsSingle(k):
			if len(al) > 0 && !r.Chance(1, 5) {
				cs = []int{pick()}
			} else if r.Chance(1, 2) {
				cs = []int{-1}
			}
		default:
			cnt := []int{0, 1, 2, 2, 2, 3}[r.Intn(6)]
			for j := 0; j < cnt && len(al) > 0; j++ {
				if r.Chance(1, 8) {
					cs = append(cs, -1)
				} else {
					cs = append(cs, pick())
				}
			}
		}
		kinds[i] = k
		nd.Kind, nd.Causes = k, cs
		if c07IsErrdef(k) && k != "rs" {
			nd.Field = field()
			nd.Trace = r.Chance(1, 6)
		}
		d.Nodes = append(d.Nodes, nd)
	}
	inner := make([]int, n)
	for i := range inner {
		inner[i] = i
	}
	recv := c07Node{Field: field(), Trace: r.Chance(1, 6)}
	switch {
	case r.Chance(1, 16):
		recv.Kind = "en"
	case r.Chance(1, 2):
		recv.Kind, recv.Causes = "ew", []int{Pick(r, inner)}
	default:
		recv.Kind = "ej"
		for j := 1 + r.Intn(3); j > 0; j-- {
			if r.Chance(1, 10) {
				recv.Causes = append(recv.Causes, -1)
			} else {
				recv.Causes = append(recv.Causes, Pick(r, inner))
			}
		}
		recv.Causes = append(recv.Causes, Pick(r, inner))
	}
	d.Nodes = append(d.Nodes, recv)
	d.Recv = n
	if c07ErrdefCycle(d) {
		// K1 with a 256 KiB field value at every level of the recursion needs minutes to exhaust
		// 64 MiB of stack (it would only be seen as a timeout): keep those values out of such graphs
		for i := range d.Nodes {
			if d.Nodes[i].Field == "huge" {
				d.Nodes[i].Field = "plain"
			}
		}
	}
	return d
}

func c07Fixed() []c07Item {
	mk := func(class string, recv int, nodes ...c07Node) c07Item {
		return c07Item{Nodes: nodes, Recv: recv, Class: class}
	}
	return []c07Item{
		// an error whose Error() delegates to its cause, on a cycle closed after the errdef errors were made
		mk("delegating-error-cycle", 1, c07Node{Kind: "pd", Causes: []int{1}}, c07Node{Kind: "ew", Causes: []int{0}}),
		mk("delegating-error-cycle", 2, c07Node{Kind: "pd", Causes: []int{1}}, c07Node{Kind: "ew", Causes: []int{0}}, c07Node{Kind: "ej", Causes: []int{1, 0}}),
		mk("delegating-error-cycle", 2, c07Node{Kind: "pd", Causes: []int{1}}, c07Node{Kind: "pd", Causes: []int{2}}, c07Node{Kind: "ew", Causes: []int{0}}),
		// slice-kinded errors: a slice that contains itself, two that contain each other, no cycle
		mk("slice-kinded-cycle", 1, c07Node{Kind: "sl", Causes: []int{0}}, c07Node{Kind: "ew", Causes: []int{0}}),
		mk("slice-kinded-cycle", 2, c07Node{Kind: "sl", Causes: []int{1, -1}}, c07Node{Kind: "sl", Causes: []int{0}}, c07Node{Kind: "ej", Causes: []int{0, 1}}),
		mk("slice-kinded-cycle", 2, c07Node{Kind: "sl", Causes: []int{1}}, c07Node{Kind: "ps", Causes: []int{0}}, c07Node{Kind: "ew", Causes: []int{0}}),
		mk("slice-kinded-no-cycle", 2, c07Node{Kind: "sl", Causes: []int{1, 1}}, c07Node{Kind: "sl"}, c07Node{Kind: "ew", Causes: []int{0}}),
		// K12: cycles made of value-kinded errors only (struct values that reach each other through a shared cell)
		mk(c07ClassValueCycle, 2, c07Node{Kind: "vs", Causes: []int{1}}, c07Node{Kind: "vs", Causes: []int{0}}, c07Node{Kind: "ew", Causes: []int{0}}),
		mk(c07ClassValueCycle, 1, c07Node{Kind: "vm", Causes: []int{0, -1}}, c07Node{Kind: "ej", Causes: []int{0}}),
		mk(c07ClassValueCycle, 3, c07Node{Kind: "vs", Causes: []int{1}}, c07Node{Kind: "vm", Causes: []int{2, 0}}, c07Node{Kind: "ps"}, c07Node{Kind: "ew", Causes: []int{0}}),
		// a typed nil error with nil-safe methods that unwraps to itself / back to itself through another node
		mk("typed-nil-cycle", 1, c07Node{Kind: "np", Causes: []int{0}}, c07Node{Kind: "ew", Causes: []int{0}}),
		mk("typed-nil-cycle", 2, c07Node{Kind: "np", Causes: []int{1}}, c07Node{Kind: "vs", Causes: []int{0}}, c07Node{Kind: "ej", Causes: []int{1, 0}}),
		mk("typed-nil-cycle", 2, c07Node{Kind: "np", Causes: []int{1}}, c07Node{Kind: "pm", Causes: []int{0, -1}}, c07Node{Kind: "ew", Causes: []int{1}}),
		mk("typed-nil-leaf", 1, c07Node{Kind: "np"}, c07Node{Kind: "ew", Causes: []int{0}}),
		// K1: e = D.Wrap(f); f.cause = e
		mk("json-errdef-cycle", 1, c07Node{Kind: "ps", Causes: []int{1}}, c07Node{Kind: "ew", Causes: []int{0}}),
		// the cycle passes through an inner errdef node only
		mk("json-errdef-cycle", 2, c07Node{Kind: "ps", Causes: []int{1}}, c07Node{Kind: "ew", Causes: []int{0}}, c07Node{Kind: "ew", Causes: []int{1}}),
		// a Join in the cycle, value-kinded node on the way
		mk("json-errdef-cycle", 3, c07Node{Kind: "vm", Causes: []int{1, 2}}, c07Node{Kind: "pm"}, c07Node{Kind: "ej", Causes: []int{1, 0}}, c07Node{Kind: "ew", Causes: []int{0}}),
		// a restored error whose sentinel cause leads back to a native errdef error wrapping the sentinel
		mk("json-errdef-cycle", 2, c07Node{Kind: "ps", Causes: []int{1}}, c07Node{Kind: "ew", Causes: []int{0}}, c07Node{Kind: "rs", Causes: []int{0}}),
		// ... and a cycle through the restored error itself
		mk("json-errdef-cycle", 1, c07Node{Kind: "pm", Causes: []int{1}}, c07Node{Kind: "rs", Causes: []int{0, 0}}),
		// an unencodable field on the cycle: json.Marshal fails before it re-enters
		mk("json-errdef-cycle-bad-field", 1, c07Node{Kind: "ps", Causes: []int{1}}, c07Node{Kind: "ew", Causes: []int{0}, Field: "chan"}),
		mk("json-errdef-cycle-bad-field", 2, c07Node{Kind: "ps", Causes: []int{1}}, c07Node{Kind: "ew", Causes: []int{0}, Field: "nan"}, c07Node{Kind: "ew", Causes: []int{0}}),
		// foreign cycles only: pruned
		mk("foreign-cycle", 2, c07Node{Kind: "ps", Causes: []int{1}}, c07Node{Kind: "pm", Causes: []int{0, 1}}, c07Node{Kind: "ew", Causes: []int{0}, Trace: true, Field: "multiline"}),
		mk("foreign-cycle", 2, c07Node{Kind: "vs", Causes: []int{1}}, c07Node{Kind: "mm", Causes: []int{0, -1}}, c07Node{Kind: "ej", Causes: []int{0, 1}}),
		// K7: map-kinded causes that contain themselves
		mk("inline-kinded-cycle", 1, c07Node{Kind: "mm", Causes: []int{0}}, c07Node{Kind: "ew", Causes: []int{0}}),
		mk("inline-kinded-cycle", 2, c07Node{Kind: "mm", Causes: []int{1}}, c07Node{Kind: "mm", Causes: []int{-1, 0}}, c07Node{Kind: "ej", Causes: []int{-1, 0}}),
		mk("inline-kinded-cycle", 1, c07Node{Kind: "mm", Causes: []int{0}}, c07Node{Kind: "rs", Causes: []int{0}}),
		// the same maps behind a pointer (Join of two), or with a pointer in the cycle: printed as addresses
		mk("inline-kinded-no-cycle", 1, c07Node{Kind: "mm", Causes: []int{0}}, c07Node{Kind: "ej", Causes: []int{0, 0}}),
		mk("inline-kinded-no-cycle", 2, c07Node{Kind: "mm", Causes: []int{1}}, c07Node{Kind: "ps", Causes: []int{0}}, c07Node{Kind: "ew", Causes: []int{0}}),
		mk("inline-kinded-no-cycle", 2, c07Node{Kind: "mm", Causes: []int{1, 1}}, c07Node{Kind: "mm"}, c07Node{Kind: "ew", Causes: []int{0}}),
		// K8: a field value that contains itself
		mk("cyclic-field-value", 0, c07Node{Kind: "en", Field: "selfmap"}),
		mk("cyclic-field-value", 2, c07Node{Kind: "ps", Causes: []int{1}}, c07Node{Kind: "en", Field: "selfmap"}, c07Node{Kind: "ew", Causes: []int{0}}),
		mk("cyclic-field-value", 1, c07Node{Kind: "pm"}, c07Node{Kind: "ej", Causes: []int{0, 0}, Field: "selfmap", Trace: true}),
		// typed nil pointers to types with value-receiver marshal methods
		mk("field-values", 0, c07Node{Kind: "en", Field: "niltime"}),
		mk("field-values", 0, c07Node{Kind: "en", Field: "nilmarsh", Trace: true}),
		mk("field-values", 1, c07Node{Kind: "ps"}, c07Node{Kind: "ew", Causes: []int{0}, Field: "niltext"}),
		mk("field-values", 2, c07Node{Kind: "pm", Causes: []int{1}}, c07Node{Kind: "en", Field: "nilany"}, c07Node{Kind: "ew", Causes: []int{0}, Field: "nilmarsh"}),
		// field values json cannot encode / awkward to print
		mk("field-values", 0, c07Node{Kind: "en", Field: "chan"}),
		mk("field-values", 0, c07Node{Kind: "en", Field: "func", Trace: true}),
		mk("field-values", 1, c07Node{Kind: "ps"}, c07Node{Kind: "ew", Causes: []int{0}, Field: "nan"}),
		mk("field-values", 2, c07Node{Kind: "pm", Causes: []int{1}}, c07Node{Kind: "en", Field: "inf"}, c07Node{Kind: "ew", Causes: []int{0}}),
		mk("field-values", 2, c07Node{Kind: "pm", Causes: []int{1, 1}}, c07Node{Kind: "en", Field: "huge"}, c07Node{Kind: "ew", Causes: []int{0}, Field: "multiline", Trace: true}),
		mk("field-values", 2, c07Node{Kind: "pm", Causes: []int{1}}, c07Node{Kind: "en", Field: "chan"}, c07Node{Kind: "ew", Causes: []int{0}, Field: "huge"}),
	}
}

func genC07(r *Rng, tier string) []Case {
	var graphs []c07Item
	add := func(d c07Item, class string) {
		if d.Class == "" {
			d.Class = class
		}
		if c07Valid(d) {
			graphs = append(graphs, d)
		}
	}
	for _, d := range c07Fixed() {
		add(d, "")
	}
	nFixed := len(graphs)
	c07Exhaustive(func(d c07Item) { add(d, "exhaustive-le3-nodes") })
	nExh := len(graphs) - nFixed
	nRand, nBad := 60, 20
	if tier == "thorough" {
		nRand, nBad = 2000, 300
	}
	for i := 0; i < nRand; i++ {
		add(c07Random(r, 2+i*6/nRand, false), "random")
	}
	for i := 0; i < nBad; i++ {
		add(c07Random(r, 1+i*5/nBad, true), "random-unencodable-fields")
	}

	// phase 1: native.  Renderers that walk the cause structure of a graph with a cycle (or meet a
	// self-containing field value) get a process each; in the quick tier the exhaustive family is
	// thinned for the renderers that never look at the causes.
	var items []c07Item
	for gi, g := range graphs {
		risky := c07Cyclic(g) || c07CycField(g)
		for ri, rn := range c07Renderers {
			walker := rn == "json" || rn == "+v" || rn == "nodelog" || rn == "#v"
			if tier != "thorough" && g.Class == "exhaustive-le3-nodes" && !walker && (gi+ri)%4 != 0 {
				continue
			}
			it := g
			it.Stream, it.Renderer = "render", rn
			it.Single = risky && walker
			if tier != "thorough" && g.Class == "exhaustive-le3-nodes" && rn != "json" && (gi+ri)%3 != 0 {
				it.Single = false // crash isolation by batch attribution
			}
			items = append(items, it)
		}
	}
	res := c07RunItems(items)
	// phase 2: restored, where the native document exists
	jsonOK := map[int]bool{}
	gidx := map[string]int{}
	for gi, g := range graphs {
		gidx[string(mustJSON(g.Nodes))+"/"+strconv.Itoa(g.Recv)] = gi
	}
	for i, it := range items {
		if it.Renderer == "json" && res[i].O == "ok" {
			jsonOK[gidx[string(mustJSON(it.Nodes))+"/"+strconv.Itoa(it.Recv)]] = true
		}
	}
	var items2 []c07Item
	for gi, g := range graphs {
		if !jsonOK[gi] {
			continue
		}
		for ri, rn := range c07Renderers {
			if tier != "thorough" && g.Class == "exhaustive-le3-nodes" && (gi+ri)%3 != 0 {
				continue
			}
			it := g
			it.Stream, it.Renderer, it.Restored = "render", rn, true
			it.Single = (gi+ri)%40 == 0
			items2 = append(items2, it)
		}
	}
	res2 := c07RunItems(items2)

	var out []Case
	outcomes := map[string]int{}
	singles := 0
	for i, it := range items {
		out = append(out, c07RenderCase(it, res[i]))
		outcomes["native/"+res[i].O]++
		if it.Single {
			singles++
		}
	}
	for i, it := range items2 {
		out = append(out, c07RenderCase(it, res2[i]))
		outcomes["restored/"+res2[i].O]++
		if it.Single {
			singles++
		}
	}
	extraMeta["c07_graphs"] = map[string]int{"fixed": nFixed, "exhaustive_le3": nExh, "random": len(graphs) - nFixed - nExh}
	extraMeta["c07_render_items"] = len(items) + len(items2)
	extraMeta["c07_items_with_a_child_process_of_their_own"] = singles
	extraMeta["c07_child_processes_started"] = c07ChildRuns
	extraMeta["c07_child_processes_died_or_hung"] = c07ChildDeaths
	extraMeta["c07_outcomes"] = outcomes

	// stream B
	seqs := c07GenSeqs(r, tier)
	obs, note, err := c07RunSource(seqs)
	extraMeta["c07_source_sequences"] = len(seqs)
	extraMeta["c07_source_note"] = note
	if err != nil {
		extraMeta["c07_source_error"] = err.Error()
		// a dead source child is a broken correspondence: one case that fails corr
		out = append(out, Case{Coq: "CS [{| s_files := []; s_frames := []; s_around := 0%Z; s_depth := 0%Z; s_panic := true; s_snips := []; s_parsed := []; s_avail := None; s_cached := [] |}]",
			Desc: mustJSON(c07Item{Stream: "source"}), Class: "source-child-failed", Summary: "source child failed", Observed: err.Error(), Size: 1})
	} else {
		for i, s := range seqs {
			it := c07Item{Stream: "source", Seq: s, Class: "source-sequence"}
			if i < c07ExhSeqCount {
				it.Class = "source-sequence-exhaustive-le4"
			}
			out = append(out, c07SourceCase(it, obs[i]))
		}
	}
	return out
}

// ====================================================================== stream B

type c07StepObs struct {
	Panic  string            `json:"panic,omitempty"`
	Snips  []string          `json:"snips"`
	Set    bool              `json:"set"`
	Avail  bool              `json:"avail"`
	Cached map[string]int    `json:"cached"`
	Real   map[string]string `json:"real"` // what each file really is: present missing unreadable openfails toolong
}

var c07SiteFrames = map[string][][2]any{
	"A3":   {{"a.go", 3}},
	"A7":   {{"a.go", 7}},
	"B2":   {{"b.go", 2}},
	"B5A3": {{"a.go", 3}, {"b.go", 5}},
	"A7A3": {{"a.go", 3}, {"a.go", 7}},
}

func c07CallSite(site string, f errdef.Factory) error {
	switch site {
	case "A3":
		return c07SiteA3(f)
	case "A7":
		return c07SiteA7(f)
	case "B2":
		return c07SiteB2(f)
	case "B5A3":
		return c07SiteB5A3(f)
	case "A7A3":
		return c07SiteA7A3(f)
	}
	return nil
}

// the lines of a scratch file in a readable state; version = 1-based step index
func c07FileLines(name, state string, version int) []string {
	n := 0
	switch state {
	case "present", "unreadable":
		n = 9
	case "short":
		n = 2 // one line less than the frame line of site A3
	}
	lines := make([]string, n)
	for i := range lines {
		lines[i] = fmt.Sprintf("// %s v%d line %d", name, version, i+1)
		if i == 4 {
			lines[i] = "" // an empty line
		}
	}
	return lines
}

var c07SrcDef = errdef.Define("c07src")

var c07SnipRe = regexp.MustCompile(`^    (> |  )( *\d+): (.*)$`)

// c07ApplyState puts the file into the state; returns what it really is now
func c07ApplyState(path, name, state string, version int) (string, error) {
	_ = os.Chmod(path, 0o644)
	if err := os.RemoveAll(path); err != nil {
		return "", err
	}
	write := func(lines []string) error {
		var b strings.Builder
		for _, l := range lines {
			b.WriteString(l)
			b.WriteString("\n")
		}
		return os.WriteFile(path, []byte(b.String()), 0o644)
	}
	switch state {
	case "present", "short", "empty":
		return "present", write(c07FileLines(name, state, version))
	case "missing":
		return "missing", nil
	case "unreadable":
		if err := write(c07FileLines(name, state, version)); err != nil {
			return "", err
		}
		if err := os.Chmod(path, 0); err != nil {
			return "", err
		}
		if f, err := os.Open(path); err == nil {
			// chmod 000 does not stop this user (root): a directory in place of the file instead
			// (open succeeds, read fails: the scanner-error path)
			_ = f.Close()
			_ = os.Remove(path)
			return "toolong", os.Mkdir(path, 0o755)
		}
		return "unreadable", nil
	case "toolong":
		return "toolong", write([]string{"// first", "// second", strings.Repeat("x", 70000), "// last"})
	case "dir":
		return "toolong", os.Mkdir(path, 0o755)
	case "loop":
		return "openfails", os.Symlink(path, path)
	}
	return "", fmt.Errorf("unknown file state %q", state)
}

func c07RunSeq(seq []c07Step) ([]c07StepObs, error) {
	errdef.VerifResetSourceState()
	for _, name := range []string{"a.go", "b.go"} {
		p := filepath.Join(c07SrcDir, name)
		_ = os.Chmod(p, 0o644)
		if err := os.RemoveAll(p); err != nil {
			return nil, err
		}
	}
	var out []c07StepObs
	for si, st := range seq {
		o := c07StepObs{Real: map[string]string{}, Cached: map[string]int{}}
		for _, name := range []string{"a.go", "b.go"} {
			state, ok := st.Files[name]
			if !ok {
				state = "missing"
			}
			real, err := c07ApplyState(filepath.Join(c07SrcDir, name), name, state, si+1)
			if err != nil {
				return nil, fmt.Errorf("cannot put %s into state %s: %v", name, state, err)
			}
			o.Real[name] = real
		}
		frames := c07SiteFrames[st.Site]
		var text string
		func() {
			defer func() {
				if p := recover(); p != nil {
					o.Panic = fmt.Sprintf("%v", p)
				}
			}()
			e := c07CallSite(st.Site, c07SrcDef.WithOptions(errdef.StackSource(st.Around, st.Depth)))
			text = fmt.Sprintf("%+v", e)
		}()
		lines := strings.Split(text, "\n")
		pos := 0
		for _, fr := range frames {
			want := "    " + filepath.Join(c07SrcDir, fr[0].(string)) + ":" + strconv.Itoa(fr[1].(int))
			var snip []string
			for pos < len(lines) && lines[pos] != want {
				pos++
			}
			pos++
			for pos < len(lines) && c07SnipRe.MatchString(lines[pos]) {
				snip = append(snip, lines[pos][4:])
				pos++
			}
			o.Snips = append(o.Snips, strings.Join(snip, "\n"))
		}
		s := errdef.VerifSourceState()
		o.Set, o.Avail = s.AvailableSet, s.Available
		for k, v := range s.CachedFiles {
			o.Cached[k] = v
		}
		out = append(out, o)
	}
	return out, nil
}

// c07SrcMain: sequences as one JSON document on stdin, observations as one JSON document on stdout.
func c07SrcMain(args []string) int {
	var seqs [][]c07Step
	data, err := io.ReadAll(os.Stdin)
	if err == nil {
		err = json.Unmarshal(data, &seqs)
	}
	if err != nil {
		fmt.Fprintln(os.Stderr, "c07src:", err)
		return 2
	}
	if err := os.MkdirAll(c07SrcDir, 0o777); err != nil {
		fmt.Fprintln(os.Stderr, "c07src:", err)
		return 2
	}
	var all [][]c07StepObs
	for _, s := range seqs {
		o, err := c07RunSeq(s)
		if err != nil {
			fmt.Fprintln(os.Stderr, "c07src:", err)
			return 2
		}
		all = append(all, o)
	}
	out, _ := json.Marshal(all)
	fmt.Printf("C07SRC %s\n", out)
	return 0
}

// c07RunSource runs the sequences in a child process; as uid nobody when this process is root.
func c07RunSource(seqs [][]c07Step) ([][]c07StepObs, string, error) {
	scratch := filepath.Dir(c07SrcDir)
	note := ""
	if env := os.Getenv("VERIF_SCRATCH"); env != "" && filepath.Clean(env) != scratch {
		note = fmt.Sprintf("VERIF_SCRATCH=%s differs from the compiled-in %s (the //line paths are fixed at compile time); using the latter. ", env, scratch)
	}
	defer func() {
		_ = filepath.Walk(scratch, func(p string, info os.FileInfo, err error) error {
			if err == nil {
				_ = os.Chmod(p, 0o777)
			}
			return nil
		})
		_ = os.RemoveAll(scratch)
	}()
	_ = os.RemoveAll(scratch)
	if err := os.MkdirAll(c07SrcDir, 0o777); err != nil {
		return nil, note, err
	}
	_ = os.Chmod(scratch, 0o777)
	_ = os.Chmod(c07SrcDir, 0o777)
	exe, err := os.Executable()
	if err != nil {
		exe = os.Args[0]
	}
	input := mustJSON(seqs)
	run := func(asNobody bool) ([][]c07StepObs, error) {
		// a render that never returns (a leaked lock, an unbounded loop) must become an observation,
		// not a hanging check: the whole child gets two minutes (a normal run takes seconds)
		ctx, cancel := context.WithTimeout(context.Background(), 120*time.Second)
		defer cancel()
		cmd := exec.CommandContext(ctx, exe, "c07src", "-")
		cmd.WaitDelay = 5 * time.Second
		cmd.Stdin = bytes.NewReader(input)
		var stdout, stderr bytes.Buffer
		cmd.Stdout, cmd.Stderr = &stdout, &stderr
		if asNobody {
			cmd.SysProcAttr = &syscall.SysProcAttr{Credential: &syscall.Credential{Uid: 65534, Gid: 65534, NoSetGroups: false}}
		}
		if err := cmd.Run(); err != nil {
			if ctx.Err() != nil {
				return nil, fmt.Errorf("source child TIMED OUT after 120s (a snippet read or a render did not return): %s", c07Clip(stderr.String(), 300))
			}
			return nil, fmt.Errorf("%v: %s", err, c07Clip(stderr.String(), 400))
		}
		for _, l := range strings.Split(stdout.String(), "\n") {
			if strings.HasPrefix(l, "C07SRC ") {
				var obs [][]c07StepObs
				if err := json.Unmarshal([]byte(l[7:]), &obs); err != nil {
					return nil, err
				}
				if len(obs) != len(seqs) {
					return nil, fmt.Errorf("source child answered %d of %d sequences", len(obs), len(seqs))
				}
				return obs, nil
			}
		}
		return nil, fmt.Errorf("source child printed no result: %s", c07Clip(stderr.String(), 400))
	}
	if os.Geteuid() == 0 {
		obs, err := run(true)
		if err == nil {
			return obs, note + "source child ran as uid 65534 (nobody): chmod 000 makes a file unreadable (real permission error)", nil
		}
		if strings.Contains(err.Error(), "TIMED OUT") {
			return nil, note, err
		}
		note += "running the source child as uid nobody failed (" + c07Clip(err.Error(), 160) + "); "
		// clean what the unprivileged child may have left
		_ = os.RemoveAll(c07SrcDir)
		_ = os.MkdirAll(c07SrcDir, 0o777)
	}
	obs, err := run(false)
	if err != nil {
		return nil, note, err
	}
	real := "chmod 000 effective"
	if os.Geteuid() == 0 {
		real = "running as root: chmod 000 does not make a file unreadable; the state 'unreadable' was REPLACED by a directory in place of the file (open succeeds, read fails: scanner-error path, model TooLong)"
	}
	return obs, note + real, nil
}

func c07SlineCoq(snip string) string {
	if snip == "" {
		return "[]"
	}
	var items []string
	for _, l := range strings.Split(snip, "\n") {
		m := c07SnipRe.FindStringSubmatch("    " + l)
		if m == nil {
			items = append(items, "(0%Z, false, \"unparsable\")")
			continue
		}
		num, _ := strconv.Atoi(strings.TrimSpace(m[2]))
		items = append(items, fmt.Sprintf("(%s, %s, %s)", cZ(int64(num)), cBool(m[1] == "> "), cStr(m[3])))
	}
	return cList(items)
}

func c07SourceCase(it c07Item, obs []c07StepObs) Case {
	var steps []string
	nontrivial := false
	var sum, ob []string
	for si, st := range it.Seq {
		o := obs[si]
		var files []string
		for _, name := range []string{"a.go", "b.go"} {
			state, ok := st.Files[name]
			if !ok {
				state = "missing"
			}
			if state != "present" {
				nontrivial = true
			}
			var fr string
			switch o.Real[name] {
			case "present":
				var ls []string
				for _, l := range c07FileLines(name, state, si+1) {
					ls = append(ls, cStr(l))
				}
				fr = "(Present " + cList(ls) + ")"
			case "missing":
				fr = "Missing"
			case "unreadable":
				fr = "Unreadable"
			case "openfails":
				fr = "OpenFails"
			case "toolong":
				fr = "TooLong"
			default:
				fr = "Missing"
			}
			files = append(files, cPair(cStr(filepath.Join(c07SrcDir, name)), fr))
		}
		var frames, snips, parsed []string
		for fi, fr := range c07SiteFrames[st.Site] {
			frames = append(frames, cPair(cStr(filepath.Join(c07SrcDir, fr[0].(string))), cZ(int64(fr[1].(int)))))
			sn := ""
			if fi < len(o.Snips) {
				sn = o.Snips[fi]
			}
			snips = append(snips, cStr(sn))
			parsed = append(parsed, c07SlineCoq(sn))
		}
		var cached []string
		var keys []string
		for k := range o.Cached {
			keys = append(keys, k)
		}
		sort.Strings(keys)
		for _, k := range keys {
			cached = append(cached, cPair(cStr(k), cNat(o.Cached[k])))
		}
		avail := "None"
		if o.Set {
			avail = "(Some " + cBool(o.Avail) + ")"
		}
		steps = append(steps, fmt.Sprintf("{| s_files := %s; s_frames := %s; s_around := %s; s_depth := %s; s_panic := %s; s_snips := %s; s_parsed := %s; s_avail := %s; s_cached := %s |}",
			cList(files), cList(frames), cZ(int64(st.Around)), cZ(int64(st.Depth)), cBool(o.Panic != ""), cList(snips), cList(parsed), avail, cList(cached)))
		sum = append(sum, fmt.Sprintf("%s@%s(a.go=%s,b.go=%s,around=%d,depth=%d)", "render", st.Site, st.Files["a.go"], st.Files["b.go"], st.Around, st.Depth))
		nl := 0
		for _, s := range o.Snips {
			if s != "" {
				nl += strings.Count(s, "\n") + 1
			}
		}
		so := fmt.Sprintf("%d snippet lines, available=%s, %d cached", nl, avail, len(o.Cached))
		if o.Panic != "" {
			so = "PANIC " + o.Panic
		}
		ob = append(ob, so)
	}
	return Case{
		Coq: "CS " + cList(steps), Desc: mustJSON(it), Size: 4 + len(it.Seq)*6, Nontrivial: nontrivial, Class: it.Class,
		Summary: strings.Join(sum, " ; "), Observed: strings.Join(ob, " ; "),
	}
}

var c07ExhSeqCount int

func c07GenSeqs(r *Rng, tier string) [][]c07Step {
	var seqs [][]c07Step
	// every sequence of length <= 4 over {present, missing, unreadable, shorter than the frame line}
	states := []string{"present", "missing", "unreadable", "short"}
	var rec func(prefix []string)
	rec = func(prefix []string) {
		if len(prefix) > 0 {
			var s []c07Step
			for i, st := range prefix {
				s = append(s, c07Step{Files: map[string]string{"a.go": st}, Site: "A3", Around: 1 + (len(seqs)+i)%3, Depth: 1})
			}
			seqs = append(seqs, s)
		}
		if len(prefix) == 4 {
			return
		}
		for _, st := range states {
			rec(append(append([]string{}, prefix...), st))
		}
	}
	rec(nil)
	c07ExhSeqCount = len(seqs)
	all := []string{"present", "present", "present", "missing", "unreadable", "short", "empty", "toolong", "dir", "loop"}
	sites := []string{"A3", "A7", "B2", "B5A3", "B5A3", "A7A3"}
	n := 250
	if tier == "thorough" {
		n = 6000
	}
	for i := 0; i < n; i++ {
		var s []c07Step
		for j := 1 + r.Intn(5); j > 0; j-- {
			site := Pick(r, sites)
			depth := 1
			if len(c07SiteFrames[site]) == 2 && r.Bool() {
				depth = 2
			}
			around := 1 + r.Intn(4)
			if r.Chance(1, 12) {
				around = 0 // StackSource(0, d): no snippets at all
			}
			if r.Chance(1, 15) {
				// a window larger than any file: the whole file, whatever the line (line+around must not wrap)
				around = Pick(r, []int{math.MaxInt, math.MaxInt - 3, 1 << 62, 1 << 31})
			}
			s = append(s, c07Step{Files: map[string]string{"a.go": Pick(r, all), "b.go": Pick(r, all)}, Site: site, Around: around, Depth: depth})
		}
		seqs = append(seqs, s)
	}
	return seqs
}
