package main

import (
	"encoding/json"
	"errors"
	"fmt"
	"math"
	"reflect"
	"strings"

	"github.com/shiwano/errdef"
)

func init() {
	register(&Prop{
		ID: "C17", Imports: "Base.Str Model.Core Model.Prog Check.C17", Module: "C17",
		Rule:      "program has a Recover whose callback panics or nests another Recover; distinct by Coq term",
		ShardSize: 50,
		Gen: func(r *Rng, tier string) []Case {
			n := 240
			if tier == "thorough" {
				n = 6000
			}
			var out []Case
			// corpus: the PanicError of an earlier Recover as a panic value (alone and under a Formatter definition),
			// a re-panicked result, factories with a negative StackDepth (root, derived, context-derived)
			nt := []POpt{{T: "notrace"}}
			out = append(out, runC17([]PStmt{
				{T: "define", Kind: "k1", Opts: nt}, {T: "define", Kind: "k2", Opts: []POpt{{T: "fmt", ID: 1}, {T: "notrace"}}},
				{T: "recover", F: 0, Cb: &PCb{T: "panicVal", Val: 0}}, {T: "recover", F: 1, Cb: &PCb{T: "panicInner", E: ip(0)}},
				{T: "recover", F: 0, Cb: &PCb{T: "panicInner", E: ip(1)}}, {T: "recover", F: 1, Cb: &PCb{T: "panicErr", E: ip(1)}},
				{T: "recover", F: 0, Cb: &PCb{T: "call", C: &PCb{T: "recover", F: 1, C: &PCb{T: "panicInner", E: ip(0)}}}}}))
			out = append(out, runC17([]PStmt{
				{T: "define", Kind: "k1", Opts: []POpt{{T: "depth", N: math.MaxInt}}}, {T: "withopts", D: 0, Opts: []POpt{{T: "depth", N: -3}}},
				{T: "ctx", Opts: []POpt{{T: "depth", N: -1}}}, {T: "define", Kind: "k2"}, {T: "with", D: 2, Ctx: ip(0)},
				{T: "recover", F: 0, Cb: &PCb{T: "panicVal", Val: 0}}, {T: "recover", F: 1, Cb: &PCb{T: "panicRt", Rt: "nilmap"}},
				{T: "recover", F: 3, Cb: &PCb{T: "panicErr", E: ip(0)}}, {T: "recover", F: 2, Cb: &PCb{T: "ret"}}}))
			// corpus: the panic value is a typed nil error (nil-safe methods), alone and wrapped
			out = append(out, runC17([]PStmt{
				{T: "define", Kind: "k1", Opts: nt}, {T: "ctx", Opts: nt}, {T: "with", D: 0, Ctx: ip(0)},
				{T: "leaf", Ty: "typednil"}, {T: "recover", F: 0, Cb: &PCb{T: "panicErr", E: ip(0)}},
				{T: "fmterrorf", Msg: "w", C: ip(0)}, {T: "recover", F: 1, Cb: &PCb{T: "call", C: &PCb{T: "panicErr", E: ip(2)}}},
				{T: "recover", F: 1, Cb: &PCb{T: "ret", E: ip(0)}}}))
			for i := 0; i < n; i++ {
				cfg := p1Cfg{MaxStmts: 5 + i*8/n, Keys: p1Keys, Recover: true, Presenters: i%2 == 0, Trace: i%4 == 1}
				p := genProg(r, cfg)
				// make Recover frequent: append a few
				nd, ne := 0, 0
				for _, s := range p {
					switch s.T {
					case "define", "with", "withopts":
						nd++
					case "ctx":
					default:
						ne++
					}
				}
				for k := 0; k < 1+r.Intn(3); k++ {
					p = append(p, PStmt{T: "recover", F: r.Intn(nd), Cb: genCb(r, nd, ne, 1+r.Intn(4))})
					ne++
				}
				out = append(out, runC17(p))
			}
			return out
		},
		Replay: func(d json.RawMessage) ([]Case, error) {
			var desc p1Desc
			if err := json.Unmarshal(d, &desc); err != nil {
				return nil, err
			}
			return []Case{runC17(desc.Prog)}, nil
		},
	})
}

func cbPanics(c *PCb) bool {
	if c == nil {
		return false
	}
	return strings.HasPrefix(c.T, "panic") || c.T == "recover" || c.T == "swallow" || cbPanics(c.C) || cbPanics(c.C2)
}

func runC17(p []PStmt) Case {
	w := newWorld()
	var obs []string
	nontrivial := false
	var notes []string
	for i, s := range p {
		before := len(w.errs)
		pv := w.exec(s)
		if s.T != "recover" {
			if pv != nil {
				notes = append(notes, fmt.Sprintf("stmt %d panicked: %v", i, pv))
			}
			continue
		}
		nontrivial = nontrivial || cbPanics(s.Cb)
		if pv != nil {
			obs = append(obs, "{| o_escaped := true; o_res := (-2)%Z; o_kind := \"\"; o_msg := \"\"; o_pv := (0%Z, 0%Z); o_is_v := false |}")
			notes = append(notes, fmt.Sprintf("panic escaped Recover at stmt %d: %v", i, pv))
			continue
		}
		e := w.errs[before]
		if e == nil {
			obs = append(obs, "{| o_escaped := false; o_res := (-2)%Z; o_kind := \"\"; o_msg := \"\"; o_pv := (0%Z, 0%Z); o_is_v := false |}")
			continue
		}
		res := -1
		for j := 0; j < before; j++ {
			if w.errs[j] != nil && safeEq(w.errs[j], e) {
				res = j
				break
			}
		}
		kind := ""
		if res < 0 {
			if de, ok := e.(errdef.Error); ok {
				kind = string(de.Kind())
			}
		}
		pv1, pv2, isv := 0, 0, false
		var pe errdef.PanicError
		if errors.As(e, &pe) {
			v := pe.PanicValue()
			if ve, ok := v.(error); ok {
				pv1, pv2 = 1, -1
				for j := 0; j < before; j++ {
					if w.errs[j] != nil && safeEq(w.errs[j], ve) {
						pv2 = j
						break
					}
				}
				isv = pv2 >= 0 && errors.Is(e, ve)
			} else {
				pv1, pv2 = 2, 0
				for k, x := range panicVals {
					if samePanicVal(x, v) {
						pv2 = k + 1
					}
				}
			}
		}
		obs = append(obs, fmt.Sprintf("{| o_escaped := false; o_res := %s; o_kind := %s; o_msg := %s; o_pv := (%s, %s); o_is_v := %s |}",
			cZ(int64(res)), cStr(kind), cStr(e.Error()), cZ(int64(pv1)), cZ(int64(pv2)), cBool(isv)))
	}
	coq := fmt.Sprintf("{| c_prog := %s; c_obs := %s |}", w.coqProg(), cList(obs))
	o := fmt.Sprintf("%d Recover statements", len(obs))
	if len(notes) > 0 {
		o += "; " + strings.Join(notes, "; ")
	}
	return Case{Coq: strings.ReplaceAll(coq, "\n", " "), Desc: mustJSON(p1Desc{Prog: p}), Size: len(p),
		Nontrivial: nontrivial, Class: fmt.Sprintf("stmts=%d", len(p)/4*4), Summary: progSummary(p), Observed: o}
}

// samePanicVal: identity for pointers, == for comparable values, deep equality for the slice.
func samePanicVal(a, b any) bool {
	if reflect.TypeOf(a) != reflect.TypeOf(b) {
		return false
	}
	if reflect.TypeOf(a).Comparable() {
		return a == b
	}
	return reflect.DeepEqual(a, b)
}
