package main

import (
	"bytes"
	"encoding/json"
	"fmt"
	"reflect"

	"github.com/shiwano/errdef"
	"github.com/shiwano/errdef/unmarshaler"
)

type c12Desc struct {
	Case UCase `json:"case"`
	Lib  bool  `json:"lib"` // Case.Bytes was produced by marshaling a library error
}

func init() {
	register(&Prop{
		ID: "C12", Imports: "Base.Str Model.Core Model.Convert Model.Unmarshal Check.UM Check.C12", Module: "C12",
		Rule:      "accepted document with at least one field or cause; distinct by Coq term",
		ShardSize: 60,
		Gen: func(r *Rng, tier string) []Case {
			n := 300
			if tier == "thorough" {
				n = 8000
			}
			var out []Case
			// corpus: two same-named keys that both accept the value (finding F10)
			out = append(out, runC12(c12Desc{Case: UCase{Cfg: UCfg{Defs: []UDef{{Kind: "k1", Keys: []int{2, 39}}}, Reg: []int{0}},
				Doc: &UDoc{Msg: "m", Kind: "k1", Fields: map[string]int{"n": 7}}}})...)
			// corpus: two causes of one kind carrying a good then a bad value for the same field name
			out = append(out, runC12(c12Desc{Case: UCase{Cfg: UCfg{Defs: []UDef{{Kind: "k1", Keys: []int{13}}}, Reg: []int{0}},
				Doc: &UDoc{Msg: "m", Kind: "k1", Causes: []*UDoc{
					{Msg: "a", Kind: "k1", Fields: map[string]int{"f32": 8}},
					{Msg: "b", Kind: "k1", Fields: map[string]int{"f32": 1}},
					{Msg: "c", Kind: "k1", Fields: map[string]int{"f32": 8}}}}}})...)
			// corpus: case variants of a custom key's name
			out = append(out, runC12(c12Desc{Case: UCase{Cfg: UCfg{Defs: []UDef{{Kind: "k1"}}, Reg: []int{0}, Custom: []int{2}},
				Doc: &UDoc{Msg: "m", Kind: "k1", Fields: map[string]int{"n": 7, "N": 12}}}})...)
			for i := 0; i < n; i++ {
				c := UCase{Cfg: genUCfg(r), Doc: genUDoc(r, 1+i*3/n)}
				if len(c.Cfg.Reg) > 0 {
					c.Doc.Kind = c.Cfg.Defs[Pick(r, c.Cfg.Reg)].Kind
				}
				if r.Chance(1, 3) {
					c.Cfg.Strict = false
				}
				d := c12Desc{Case: c}
				if r.Chance(1, 4) {
					// a document produced by the library itself: marshal a native error of a registered definition
					if b, ok := libraryDoc(r, c); ok {
						d = c12Desc{Case: UCase{Cfg: c.Cfg, Bytes: string(b)}, Lib: true}
					}
				}
				out = append(out, runC12(d)...)
			}
			return out
		},
		Replay: func(raw json.RawMessage) ([]Case, error) {
			var d c12Desc
			if err := json.Unmarshal(raw, &d); err != nil {
				return nil, err
			}
			return runC12(d), nil
		},
	})
}

// libraryDoc marshals a native error built from the registered definitions of the case.
func libraryDoc(r *Rng, c UCase) ([]byte, bool) {
	w := buildUM(c)
	if len(c.Cfg.Reg) == 0 {
		return nil, false
	}
	d := w.defs[Pick(r, c.Cfg.Reg)]
	var e error = d.New("lib msg")
	if r.Bool() {
		e = d.Wrapf(fmt.Errorf("inner: %w", w.defs[c.Cfg.Reg[0]].New("deep")), "ctx %d", 7)
	}
	b, err := json.Marshal(e)
	return b, err == nil
}

func jsonEqual(a, b []byte) bool {
	var x, y any
	da := json.NewDecoder(bytes.NewReader(a))
	da.UseNumber()
	db := json.NewDecoder(bytes.NewReader(b))
	db.UseNumber()
	if da.Decode(&x) != nil || db.Decode(&y) != nil {
		return false
	}
	return reflect.DeepEqual(x, y)
}

func runC12(d c12Desc) []Case {
	cs, res := runUMFull(d.Case)
	marshals, fix := false, true
	lib := "None"
	var second *Case
	if res != nil {
		func() {
			defer func() {
				if p := recover(); p != nil {
					fix = false
				}
			}()
			n, err := json.Marshal(errdef.Error(res))
			if err != nil {
				return
			}
			marshals = true
			w := buildUM(d.Case)
			r2, err := unmarshaler.NewJSON(w.res, w.options()...).Unmarshal(n)
			if err != nil {
				fix = false
			} else {
				n2, err := json.Marshal(errdef.Error(r2))
				fix = err == nil && jsonEqual(n, n2)
			}
			if d.Lib {
				lib = "(Some " + cBool(jsonEqual(n, []byte(d.Case.Bytes))) + ")"
			}
			// the document n is itself an input whose unmarshaling is compared with the model
			c2, _ := runUMFull(UCase{Cfg: d.Case.Cfg, Bytes: string(n)})
			second = &c2
		}()
	}
	native := docNative(d.Case.Doc)
	wrap := func(c Case, marshals, fix bool, lib string) Case {
		c.Coq = fmt.Sprintf("{| c_um := %s; c_native := %s; c_marshals := %s; c_fix := %s; c_lib := %s |}", c.Coq, cBool(native), cBool(marshals), cBool(fix), lib)
		c.Desc = mustJSON(c12Desc{Case: d.Case, Lib: d.Lib})
		return c
	}
	first := wrap(cs, marshals, fix, lib)
	first.Observed += fmt.Sprintf(" | marshals=%v fixpoint=%v lib=%s", marshals, fix, lib)
	// tags for known findings: a kind-less cause with an empty message prints pointer addresses
	if hasEmptyKindlessCause(d.Case.Doc) {
		first.Tags = append(first.Tags, "pointer-in-unknown-message")
	}
	if d.Lib && d.Case.Cfg.Default != nil {
		first.Tags = append(first.Tags, "default-resolver-kindless-cause")
	}
	out := []Case{first}
	if second != nil {
		s := wrap(*second, true, true, "None")
		s.Desc = mustJSON(c12Desc{Case: UCase{Cfg: d.Case.Cfg, Bytes: second.Summary}})
		out = append(out, s)
	}
	return out
}

func hasEmptyKindlessCause(d *UDoc) bool {
	if d == nil {
		return false
	}
	for _, c := range d.Causes {
		if c == nil {
			continue
		}
		if c.Msg == "" && len(c.Causes) > 0 {
			return true
		}
		if hasEmptyKindlessCause(c) {
			return true
		}
	}
	return false
}

// docNative: every field value is what encoding/json produces when decoding into any.
func docNative(d *UDoc) bool {
	if d == nil {
		return true
	}
	for _, vi := range d.Fields {
		switch umValues[vi].Mk().(type) {
		case nil, string, bool, float64, map[string]any, []any:
		default:
			return false
		}
	}
	for _, c := range d.Causes {
		if !docNative(c) {
			return false
		}
	}
	return true
}
