package main

import (
	"bytes"
	"encoding"
	"encoding/json"
	"fmt"
	"hash/fnv"
	"math"
	"os"
	"reflect"
	"sort"

	"github.com/shiwano/errdef"
	"github.com/shiwano/errdef/unmarshaler"
)

type c12Desc struct {
	Case UCase `json:"case"`
	Lib  bool  `json:"lib"` // Case.Bytes was produced by marshaling a library error
}

func init() {
	register(&Prop{
		ID: "C12", Imports: "Base.Str Model.Core Model.Convert Model.Unmarshal Check.UM Check.C12", Module: "C12",
		Rule:      "accepted document with at least one field or cause; distinct by Coq term",
		ShardSize: 60,
		Gen: func(r *Rng, tier string) []Case {
			n := 300
			if tier == "thorough" {
				n = 8000
			}
			var out []Case
			// corpus: two same-named keys that both accept the value (finding F10)
			out = append(out, runC12(c12Desc{Case: UCase{Cfg: UCfg{Defs: []UDef{{Kind: "k1", Keys: []int{2, 39}}}, Reg: []int{0}},
				Doc: &UDoc{Msg: "m", Kind: "k1", Fields: map[string]int{"n": 7}}}})...)
			// corpus: two causes of one kind carrying a good then a bad value for the same field name
			out = append(out, runC12(c12Desc{Case: UCase{Cfg: UCfg{Defs: []UDef{{Kind: "k1", Keys: []int{13}}}, Reg: []int{0}},
				Doc: &UDoc{Msg: "m", Kind: "k1", Causes: []*UDoc{
					{Msg: "a", Kind: "k1", Fields: map[string]int{"f32": 8}},
					{Msg: "b", Kind: "k1", Fields: map[string]int{"f32": 1}},
					{Msg: "c", Kind: "k1", Fields: map[string]int{"f32": 8}}}}}})...)
			// corpus: case variants of a custom key's name
			out = append(out, runC12(c12Desc{Case: UCase{Cfg: UCfg{Defs: []UDef{{Kind: "k1"}}, Reg: []int{0}, Custom: []int{2}},
				Doc: &UDoc{Msg: "m", Kind: "k1", Fields: map[string]int{"n": 7, "N": 12}}}})...)
			// corpus: K9 - a float32 key and the float64 value MaxFloat32, strict and lenient
			for _, strict := range []bool{true, false} {
				out = append(out, runC12(c12Desc{Case: UCase{Cfg: UCfg{Defs: []UDef{{Kind: "k1", Keys: []int{13}}}, Reg: []int{0}, Strict: strict},
					Doc: &UDoc{Msg: "m", Kind: "k1", Fields: map[string]int{"f32": umValueIndex("fmaxf32")}}}})...)
			}
			for _, c := range umCorpusExtra() {
				out = append(out, runC12(c12Desc{Case: c})...)
			}
			// corpus: F16 - an array-typed field in a library document, at the top and in a cause below a foreign wrapper
			for _, strict := range []bool{true, false} {
				out = append(out, runC12(c12Desc{Lib: true, Case: UCase{Cfg: UCfg{Defs: []UDef{{Kind: "k1", Keys: []int{28}}}, Reg: []int{0}, Strict: strict},
					Bytes: `{"message":"m","kind":"k1","fields":{"arr":[1,2]},"causes":[{"message":"w: deep","type":"*fmt.wrapError","causes":[{"message":"deep","kind":"k1","fields":{"arr":[0,0]}}]}]}`}})...)
			}
			// corpus: K11 - a definition with the EMPTY kind is registered; a cause that cannot be resolved
			for _, strict := range []bool{true, false} {
				out = append(out, runC12(c12Desc{Case: UCase{Cfg: UCfg{Defs: []UDef{{Kind: ""}, {Kind: "k1"}}, Reg: []int{0, 1}, Strict: strict},
					Doc: &UDoc{Msg: "m", Kind: "k1", Causes: []*UDoc{{Msg: "c", Kind: "nope"}}}}})...)
			}
			for i := 0; i < n; i++ {
				c := UCase{Cfg: genUCfg(r), Doc: genUDoc(r, 1+i*3/n)}
				if len(c.Cfg.Reg) > 0 {
					c.Doc.Kind = c.Cfg.Defs[Pick(r, c.Cfg.Reg)].Kind
				}
				if r.Chance(1, 3) {
					c.Cfg.Strict = false
				}
				d := c12Desc{Case: c}
				if r.Chance(1, 4) {
					// a document produced by the library itself: marshal a native error of a registered definition
					if b, ok := libraryDoc(r, c); ok {
						d = c12Desc{Case: UCase{Cfg: c.Cfg, Bytes: string(b)}, Lib: true}
					}
				}
				out = append(out, runC12(d)...)
			}
			return out
		},
		Replay: func(raw json.RawMessage) ([]Case, error) {
			var d c12Desc
			if err := json.Unmarshal(raw, &d); err != nil {
				return nil, err
			}
			return runC12(d), nil
		},
	})
}

// libraryDoc marshals a native error built from the registered definitions of the case.
func libraryDoc(r *Rng, c UCase) ([]byte, bool) {
	w := buildUM(c)
	if len(c.Cfg.Reg) == 0 {
		return nil, false
	}
	d := w.defs[Pick(r, c.Cfg.Reg)]
	var e error = d.New("lib msg")
	if r.Bool() {
		e = d.Wrapf(fmt.Errorf("inner: %w", w.defs[c.Cfg.Reg[0]].New("deep")), "ctx %d", 7)
	}
	b, err := json.Marshal(e)
	return b, err == nil
}

func jsonEqual(a, b []byte) bool {
	var x, y any
	da := json.NewDecoder(bytes.NewReader(a))
	da.UseNumber()
	db := json.NewDecoder(bytes.NewReader(b))
	db.UseNumber()
	if da.Decode(&x) != nil || db.Decode(&y) != nil {
		return false
	}
	return reflect.DeepEqual(x, y)
}

func runC12(d c12Desc) []Case {
	cs, res := runUMFull(d.Case)
	marshals, fix := false, true
	lib := "None"
	ndd, rp := "None", "[]"
	var second *Case
	if res != nil {
		func() {
			defer func() {
				if p := recover(); p != nil {
					fix = false
				}
			}()
			n, err := json.Marshal(errdef.Error(res))
			if err != nil {
				return
			}
			marshals = true
			w := buildUM(d.Case)
			// n as the JSON decoder hands it to unmarshal, and strconv on the float32 values bound in r:
			// validation of Model/Redoc.redoc (Check/C12.ndd_ok)
			var nd unmarshaler.DecodedData
			if json.Unmarshal(n, &nd) == nil && !hasSelfMarshalingField(res) {
				ndd = ddCoq(&nd, w.targets)
			}
			tbl := map[uint32]uint64{}
			collectF32(res, tbl)
			var keys []uint32
			for k := range tbl {
				keys = append(keys, k)
			}
			sort.Slice(keys, func(i, j int) bool { return keys[i] < keys[j] })
			var ps []string
			for _, k := range keys {
				ps = append(ps, fmt.Sprintf("(%s, %s)", cZu(uint64(k)), cZu(tbl[k])))
			}
			rp = cList(ps)
			r2, err := unmarshaler.NewJSON(w.res, w.options()...).Unmarshal(n)
			if err != nil {
				fix = false
			} else {
				n2, err := json.Marshal(errdef.Error(r2))
				fix = err == nil && jsonEqual(n, n2)
			}
			if d.Lib {
				lib = "(Some " + cBool(jsonEqual(n, []byte(d.Case.Bytes))) + ")"
				if os.Getenv("VERIF_DEBUG_C12") != "" {
					fmt.Fprintf(os.Stderr, "x = %s\nn = %s\n", d.Case.Bytes, n)
				}
			}
			// the document n is itself an input whose unmarshaling is compared with the model
			c2, _ := runUMFull(UCase{Cfg: d.Case.Cfg, Bytes: string(n)})
			second = &c2
		}()
	}
	native := docNative(d.Case.Doc)
	redec := redecodeSamples(d)
	wrap := func(c Case, marshals, fix bool, lib string) Case {
		c.Coq = fmt.Sprintf("{| c_um := %s; c_native := %s; c_marshals := %s; c_fix := %s; c_lib := %s; c_redec := %s; c_ndd := %s; c_rp := %s |}", c.Coq, cBool(native), cBool(marshals), cBool(fix), lib, redec, ndd, rp)
		redec, ndd, rp = "[]", "None", "[]" // once per description
		c.Desc = mustJSON(c12Desc{Case: d.Case, Lib: d.Lib})
		return c
	}
	first := wrap(cs, marshals, fix, lib)
	first.Observed += fmt.Sprintf(" | marshals=%v fixpoint=%v lib=%s", marshals, fix, lib)
	// tags for known findings: a kind-less cause with an empty message prints pointer addresses
	if hasEmptyKindlessCause(d.Case.Doc) {
		first.Tags = append(first.Tags, "pointer-in-unknown-message")
	}
	if d.Lib && d.Case.Cfg.Default != nil {
		first.Tags = append(first.Tags, "default-resolver-kindless-cause")
	}
	if d.Lib && d.Case.Cfg.Strict && hasNullField([]byte(d.Case.Bytes)) {
		first.Tags = append(first.Tags, "null-valued-field-in-library-document")
	}
	// K11: an empty-kind definition is registered AND some cause carries a non-empty kind that is not
	// registered (it degrades to a kind-less unknown cause, which the second pass resolves to that definition)
	regKinds, emptyReg := map[string]bool{}, false
	for _, ri := range d.Case.Cfg.Reg {
		if ri >= 0 && ri < len(d.Case.Cfg.Defs) {
			regKinds[d.Case.Cfg.Defs[ri].Kind] = true
			if d.Case.Cfg.Defs[ri].Kind == "" {
				emptyReg = true
			}
		}
	}
	// (with such a definition registered every kind-less cause - foreign ones too - and every cause of an
	// unregistered kind ends up as an error of that definition sooner or later: the tag covers the configuration)
	_ = hasUnregisteredCauseKind
	if emptyReg {
		first.Tags = append(first.Tags, "empty-kind-definition-registered")
	}
	if docHasValue(d.Case.Doc, "fmaxf32") || docHasValue(d.Case.Doc, "f-maxf32") {
		first.Tags = append(first.Tags, "float32-maxfloat32-roundtrip")
	}
	out := []Case{first}
	if second != nil {
		s := wrap(*second, true, true, "None")
		s.Desc = mustJSON(c12Desc{Case: UCase{Cfg: d.Case.Cfg, Bytes: second.Summary}})
		out = append(out, s)
	}
	return out
}

// hasUnregisteredCauseKind: some cause (at any depth) names a non-empty kind the resolver does not know
func hasUnregisteredCauseKind(c UCase, reg map[string]bool) bool {
	var walkDoc func(d *UDoc, top bool) bool
	walkDoc = func(d *UDoc, top bool) bool {
		if d == nil {
			return false
		}
		if !top && d.Kind != "" && !reg[d.Kind] {
			return true
		}
		for _, k := range d.Causes {
			if walkDoc(k, false) {
				return true
			}
		}
		return false
	}
	if c.Bytes == "" {
		return walkDoc(c.Doc, true)
	}
	var v any
	if json.Unmarshal([]byte(c.Bytes), &v) != nil {
		return false
	}
	var walk func(x any, top bool) bool
	walk = func(x any, top bool) bool {
		m, ok := x.(map[string]any)
		if !ok {
			return false
		}
		if k, _ := m["kind"].(string); !top && k != "" && !reg[k] {
			return true
		}
		if cs, ok := m["causes"].([]any); ok {
			for _, c := range cs {
				if walk(c, false) {
					return true
				}
			}
		}
		return false
	}
	return walk(v, true)
}

// hasSelfMarshalingField: some typed field value of the restored tree writes its own JSON (json.Marshaler /
// encoding.TextMarshaler, e.g. slog.Level - finding K2): Model/Redoc.redoc describes scalars that encoding/json
// writes by kind only, so the document is not compared with it
func hasSelfMarshalingField(e error) bool {
	ue, ok := e.(unmarshaler.UnmarshaledError)
	if !ok {
		return false
	}
	for _, fv := range ue.Fields().All() {
		switch fv.Value().(type) {
		case json.Marshaler, encoding.TextMarshaler:
			return true
		}
	}
	for _, c := range ue.Unwrap() {
		if hasSelfMarshalingField(c) {
			return true
		}
	}
	return false
}

// collectF32: every finite float32 value bound in a restored error (all nodes), with the bits of the
// float64 that its JSON text parses to
func collectF32(e error, out map[uint32]uint64) {
	ue, ok := e.(unmarshaler.UnmarshaledError)
	if !ok {
		return
	}
	for _, fv := range ue.Fields().All() {
		rv := reflect.ValueOf(fv.Value())
		if rv.IsValid() && rv.Kind() == reflect.Float32 {
			f := float32(rv.Float())
			if b, err := json.Marshal(f); err == nil {
				var g float64
				if json.Unmarshal(b, &g) == nil {
					out[canonF32(f)] = canonF64(g)
				}
			}
		}
	}
	for _, c := range ue.Unwrap() {
		collectF32(c, out)
	}
}

// hasNullField: some node of the document has a "fields" member one of whose values is null
func hasNullField(doc []byte) bool {
	var v any
	if json.Unmarshal(doc, &v) != nil {
		return false
	}
	var walk func(x any) bool
	walk = func(x any) bool {
		switch t := x.(type) {
		case map[string]any:
			if fs, ok := t["fields"].(map[string]any); ok {
				for _, fv := range fs {
					if fv == nil {
						return true
					}
				}
			}
			if cs, ok := t["causes"].([]any); ok {
				for _, c := range cs {
					if walk(c) {
						return true
					}
				}
			}
		}
		return false
	}
	return walk(v)
}

func umValueIndex(name string) int {
	for i, v := range umValues {
		if v.Name == name {
			return i
		}
	}
	panic("no such umValue " + name)
}

func docHasValue(d *UDoc, name string) bool {
	if d == nil {
		return false
	}
	for _, vi := range d.Fields {
		if umValues[vi].Name == name {
			return true
		}
	}
	for _, c := range d.Causes {
		if docHasValue(c, name) {
			return true
		}
	}
	return false
}

// redecodeSamples: typed scalar values pushed through the JSON step of the real stdlib
// (json.Marshal, then decoding into `any` as jsonToDecodedData does): the observations that
// validate Model/JsonVal.redecode and the strconv contract assumed for float32.
// The sample is a function of the description (boundaries first, then values derived from it).
func redecodeSamples(d c12Desc) string {
	h := fnv.New64a()
	h.Write([]byte(mustJSON(d)))
	r := NewRng(int64(h.Sum64() >> 1))
	var vals []any
	switch r.Intn(4) {
	case 0:
		vals = append(vals, float32(math.MaxFloat32), float32(-math.MaxFloat32), float32(math.SmallestNonzeroFloat32), float32(0.1), float32(16777216), float32(1)/3, float32(math.Inf(1)), float32(math.NaN()))
	case 1:
		vals = append(vals, int64(math.MaxInt64), int64(math.MinInt64), uint64(math.MaxUint64), int64(1<<53+1), uint64(1<<63), int8(-128), uint8(255), int64(-(1<<53))-1)
	case 2:
		vals = append(vals, 0.1, math.Copysign(0, -1), math.MaxFloat64, 5e-324, math.Inf(-1), math.NaN(), 1e21, 123456789.125)
	default:
		vals = append(vals, true, false, "", "a b", "q\"uote", "\u00e9\n")
	}
	for i := 0; i < 6; i++ {
		switch r.Intn(4) {
		case 0:
			vals = append(vals, math.Float32frombits(uint32(r.U64())))
		case 1:
			vals = append(vals, int64(r.U64()))
		case 2:
			vals = append(vals, r.U64())
		default:
			vals = append(vals, math.Float64frombits(r.U64()))
		}
	}
	var out []string
	for _, v := range vals {
		sv := svalCoq(reflect.ValueOf(v))
		b, err := json.Marshal(v)
		if err != nil {
			out = append(out, fmt.Sprintf("(%s, None)", sv))
			continue
		}
		var back any
		if json.Unmarshal(b, &back) != nil || back == nil {
			out = append(out, fmt.Sprintf("(%s, Some DNil)", sv))
			continue
		}
		bt := reflect.TypeOf(back)
		k, _ := skindCoq(bt.Kind())
		out = append(out, fmt.Sprintf("(%s, Some (DS {| s_id := %s; s_kind := %s |} %s))", sv, cN(typeID(bt)), k, svalCoq(reflect.ValueOf(back))))
	}
	return cList(out)
}

func hasEmptyKindlessCause(d *UDoc) bool {
	if d == nil {
		return false
	}
	for _, c := range d.Causes {
		if c == nil {
			continue
		}
		if c.Msg == "" && len(c.Causes) > 0 {
			return true
		}
		if hasEmptyKindlessCause(c) {
			return true
		}
	}
	return false
}

// docNative: every field value is what encoding/json produces when decoding into any.
func docNative(d *UDoc) bool {
	if d == nil {
		return true
	}
	for _, vi := range d.Fields {
		switch umValues[vi].Mk().(type) {
		case nil, string, bool, float64, map[string]any, []any:
		default:
			return false
		}
	}
	for _, c := range d.Causes {
		if !docNative(c) {
			return false
		}
	}
	return true
}
