package main

import "github.com/shiwano/errdef"

// Call sites mapped (by //line) to the first lines of testdata/top.go, so that a
// StackSource window is clipped at the top of the file.

//go:noinline
func newAtTop(f errdef.Factory, msg string) error {
//line /verif/harness/cmd/vh/testdata/top.go:2
	return f.New(msg)
}

// ... and to the LAST line of the same file: the window is clipped at the end of the file.
//
//go:noinline
func newAtBottom(f errdef.Factory, msg string) error {
//line /verif/harness/cmd/vh/testdata/top.go:6
	return f.New(msg)
}
