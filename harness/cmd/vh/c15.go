package main

// C15: redacted values never appear in any output.
//
// One case = one rendering.  For a configuration (secret type, shape of the value
// that carries errdef.Redact(secret), how it is attached, position of the carrying
// error in a small cause tree, with or without stack trace) the same error is built
// twice with two different random markers as the secret and every sink is run on
// both.  Outputs are recorded after masking addresses ("PTR") and after replacing
// the marker - in every rendering fmt could give it - by "<MARK>", so that the Coq
// side sees a leak as an occurrence of "<MARK>".
//
// Boundary cases outside the statement (see Check/C15.v): a Redacted value in an
// unexported struct field and a pointer to a composite below depth 0 under a verb
// that is invalid for pointers are generated, judged only by the correspondence.
// Not generated: formatting a FieldValue wrapper itself instead of its Value();
// verbs that are invalid for pointers applied to the fields collection.

import (
	"bytes"
	"encoding"
	"encoding/gob"
	"encoding/hex"
	"encoding/json"
	"encoding/xml"
	"errors"
	"fmt"
	"log/slog"
	"math"
	"math/big"
	"reflect"
	"regexp"
	"sort"
	"strings"

	"github.com/shiwano/errdef"
	"github.com/shiwano/errdef/resolver"
	"github.com/shiwano/errdef/unmarshaler"
)

// ---------- Go types that carry a secret ----------

type c15Sec struct {
	A string
	B int
}
type c15SX[T any] struct {
	Name string
	Tok  errdef.Redacted[T]
	N    int
}
type c15SU[T any] struct {
	Name string
	tok  errdef.Redacted[T]
}
type c15W[T any] struct {
	P   *c15SX[T]
	Any any
}

var (
	c15TokS, _ = errdef.DefineField[errdef.Redacted[string]]("tok")
	c15TokI, _ = errdef.DefineField[errdef.Redacted[int]]("tok")
	c15TokT, _ = errdef.DefineField[errdef.Redacted[c15Sec]]("tok")
	c15TokA, _ = errdef.DefineField[errdef.Redacted[any]]("tok") // Redact(v) with v of static type any: Value() any
	c15SxA, _  = errdef.DefineField[c15SX[any]]("sx")
	c15SxS, _  = errdef.DefineField[c15SX[string]]("sx")
	c15SxI, _  = errdef.DefineField[c15SX[int]]("sx")
	c15SxT, _  = errdef.DefineField[c15SX[c15Sec]]("sx")
	c15Any, _  = errdef.DefineField[any]("v")
	c15Pub, _  = errdef.DefineField[string]("pub")
)

const c15PubValue = "p=1 &x"

// ---------- configuration ----------

type c15Shape struct {
	K    string     `json:"k"` // red pred sx psx su w map slice str int bool
	S    string     `json:"s,omitempty"`
	I    int64      `json:"i,omitempty"`
	B    bool       `json:"b,omitempty"`
	Keys []string   `json:"keys,omitempty"`
	Kids []c15Shape `json:"kids,omitempty"`
}

type c15Spec struct {
	Verb  string `json:"verb"`
	Flag  string `json:"flag"`
	Width int    `json:"width"`
}

type c15Sink struct {
	Kind  string   `json:"kind"` // fmt json xml gob text binary logtext logjson restored rtslots rterror valuestill
	Tgt   string   `json:"tgt,omitempty"`
	Spec  *c15Spec `json:"spec,omitempty"`
	Inner *c15Sink `json:"inner,omitempty"`
}

type c15Cfg struct {
	SecT   string   `json:"sect"`   // string int struct
	Attach string   `json:"attach"` // direct details any typed
	Shape  c15Shape `json:"shape"`
	Pos    int      `json:"pos"`
	Trace  bool     `json:"trace"`
	Pub    int      `json:"pub"` // 0 none, 1 before, 2 after
	Mark1  string   `json:"mark1"`
	Mark2  string   `json:"mark2"`
	// Unenc > 0: a value that encoding/json rejects sits beside the built value in the same field
	// (1 NaN, 2 +Inf, 3 a func, 4 a chan); only "unenc" sinks are run on such a configuration
	Unenc int `json:"unenc,omitempty"`
	// Zero: the secret is the ZERO value of its type ("", 0, the zero struct) - still a secret: every sink
	// shows the placeholder, never the zero value (both runs are identical, there is no marker to look for)
	Zero bool `json:"zero,omitempty"`
}

type c15Desc struct {
	Cfg  c15Cfg  `json:"cfg"`
	Sink c15Sink `json:"sink"`
}

func init() {
	register(&Prop{
		ID: "C15", Imports: "Base.Str Model.Redact Check.C15", Module: "C15",
		Rule:      "the secret sits below the top of the field value (struct field, map value, slice element, pointer, Details) or the carrying error is a cause; distinct by Coq term",
		ShardSize: 300,
		Gen:       genC15,
		Replay: func(d json.RawMessage) ([]Case, error) {
			var desc c15Desc
			if err := json.Unmarshal(d, &desc); err != nil {
				return nil, err
			}
			return c15RunCfg(desc.Cfg, []c15Sink{desc.Sink}), nil
		},
	})
}

// ---------- markers ----------

type c15Marker struct {
	S string
	I int
}

func c15MarkerFrom(hexs string) c15Marker {
	raw, _ := hex.DecodeString(hexs)
	var u uint64
	for _, b := range raw[:8] {
		u = u<<8 | uint64(b)
	}
	return c15Marker{S: hexs, I: int(u>>3 | 1<<60)}
}

func c15NewMark(r *Rng) string {
	b := make([]byte, 16)
	for i := range b {
		b[i] = byte(r.Intn(256))
	}
	return hex.EncodeToString(b)
}

func c15SpacedHex(s string, sep string, upper bool) string {
	parts := make([]string, len(s))
	for i := 0; i < len(s); i++ {
		if upper {
			parts[i] = fmt.Sprintf("%02X", s[i])
		} else {
			parts[i] = fmt.Sprintf("%02x", s[i])
		}
	}
	return strings.Join(parts, sep)
}

// every text under which fmt / strconv could print the marker
func (m c15Marker) forms() []string {
	if m.S == "" {
		return nil // the zero secret: nothing to mask
	}
	i := big.NewInt(int64(m.I))
	return []string{
		m.S,
		hex.EncodeToString([]byte(m.S)), strings.ToUpper(hex.EncodeToString([]byte(m.S))),
		c15SpacedHex(m.S, " ", false), c15SpacedHex(m.S, " ", true),
		c15SpacedHex(m.S, " 0x", false), c15SpacedHex(m.S, " 0X", true),
		i.Text(10), i.Text(16), strings.ToUpper(i.Text(16)), i.Text(8), i.Text(2),
	}
}

var (
	c15HexRe  = regexp.MustCompile(`0x[0-9a-f]{6,}`)
	c15HexReU = regexp.MustCompile(`0X[0-9A-F]{6,}`)
)

func c15Mask(out string, addrs map[uintptr]bool, m c15Marker) string {
	var as []uint64
	for a := range addrs {
		if a != 0 {
			as = append(as, uint64(a))
		}
	}
	sort.Slice(as, func(i, j int) bool { return as[i] > as[j] })
	for _, a := range as {
		b := new(big.Int).SetUint64(a)
		for _, f := range []string{b.Text(16), strings.ToUpper(b.Text(16)), b.Text(10), b.Text(8), b.Text(2)} {
			out = strings.ReplaceAll(out, f, "PTR")
		}
	}
	out = c15HexRe.ReplaceAllString(out, "0xPTR")
	out = c15HexReU.ReplaceAllString(out, "0XPTR")
	for _, f := range m.forms() {
		if strings.Contains(out, f) {
			out = strings.ReplaceAll(out, f, "<MARK>")
		}
	}
	return out
}

// ---------- building values ----------

func c15Build[T any](sh c15Shape, sec T, ptrs map[uintptr]bool) any {
	switch sh.K {
	case "red":
		return errdef.Redact(sec)
	case "pred":
		r := errdef.Redact(sec)
		ptrs[reflect.ValueOf(&r).Pointer()] = true
		return &r
	case "sx":
		return c15SX[T]{Name: sh.S, Tok: errdef.Redact(sec), N: int(sh.I)}
	case "psx":
		p := &c15SX[T]{Name: sh.S, Tok: errdef.Redact(sec), N: int(sh.I)}
		ptrs[reflect.ValueOf(p).Pointer()] = true
		return p
	case "su":
		return c15SU[T]{Name: sh.S, tok: errdef.Redact(sec)}
	case "w":
		p := &c15SX[T]{Name: sh.S, Tok: errdef.Redact(sec), N: int(sh.I)}
		ptrs[reflect.ValueOf(p).Pointer()] = true
		return c15W[T]{P: p, Any: c15Build(sh.Kids[0], sec, ptrs)}
	case "map":
		m := map[string]any{}
		for i, k := range sh.Keys {
			m[k] = c15Build(sh.Kids[i], sec, ptrs)
		}
		return m
	case "slice":
		l := make([]any, len(sh.Kids))
		for i := range sh.Kids {
			l[i] = c15Build(sh.Kids[i], sec, ptrs)
		}
		return l
	case "str":
		return sh.S
	case "int":
		return int(sh.I)
	default:
		return sh.B
	}
}

func c15HasUnexported(sh c15Shape) bool {
	if sh.K == "su" {
		return true
	}
	for _, k := range sh.Kids {
		if c15HasUnexported(k) {
			return true
		}
	}
	return false
}

func c15BuildAny(secT string, sh c15Shape, m c15Marker, ptrs map[uintptr]bool) any {
	switch secT {
	case "string":
		return c15Build(sh, m.S, ptrs)
	case "int":
		return c15Build(sh, m.I, ptrs)
	case "any":
		return c15Build(sh, any(m.S), ptrs)
	default:
		return c15Build(sh, c15Sec{A: m.S, B: m.I}, ptrs)
	}
}

func c15TypeNames(secT string) (sx, su, w string) {
	switch secT {
	case "string":
		return reflect.TypeOf(c15SX[string]{}).String(), reflect.TypeOf(c15SU[string]{}).String(), reflect.TypeOf(c15W[string]{}).String()
	case "int":
		return reflect.TypeOf(c15SX[int]{}).String(), reflect.TypeOf(c15SU[int]{}).String(), reflect.TypeOf(c15W[int]{}).String()
	case "any":
		return reflect.TypeOf(c15SX[any]{}).String(), reflect.TypeOf(c15SU[any]{}).String(), reflect.TypeOf(c15W[any]{}).String()
	default:
		return reflect.TypeOf(c15SX[c15Sec]{}).String(), reflect.TypeOf(c15SU[c15Sec]{}).String(), reflect.TypeOf(c15W[c15Sec]{}).String()
	}
}

func c15Payload(secT string) string {
	switch secT {
	case "string", "any":
		return "(VSecret TString 0%nat)"
	case "int":
		return "(VSecret TInt 0%nat)"
	default:
		return fmt.Sprintf("(VStruct %s [(\"A\", true, VSecret TString 0%%nat); (\"B\", true, VSecret TInt 0%%nat)])",
			cStr(reflect.TypeOf(c15Sec{}).String()))
	}
}

// Coq term of type val; [mapType] is the type name of a map at the top ("errdef.Details" for Details)
func c15Coq(secT string, sh c15Shape, mapType string) string {
	sx, su, w := c15TypeNames(secT)
	red := "(VRedacted " + c15Payload(secT) + ")"
	sxT := func() string {
		return fmt.Sprintf("(VStruct %s [(\"Name\", true, VStr %s); (\"Tok\", true, %s); (\"N\", true, VInt %s)])",
			cStr(sx), cStr(sh.S), red, cZ(sh.I))
	}
	switch sh.K {
	case "red":
		return red
	case "pred":
		return "(VPtr " + red + ")"
	case "sx":
		return sxT()
	case "psx":
		return "(VPtr " + sxT() + ")"
	case "su":
		return fmt.Sprintf("(VStruct %s [(\"Name\", true, VStr %s); (\"tok\", false, %s)])", cStr(su), cStr(sh.S), red)
	case "w":
		return fmt.Sprintf("(VStruct %s [(\"P\", true, VPtr %s); (\"Any\", true, VIface %s)])",
			cStr(w), sxT(), c15Coq(secT, sh.Kids[0], "map[string]interface {}"))
	case "map":
		type kv struct {
			k string
			v string
		}
		var kvs []kv
		for i, k := range sh.Keys {
			kvs = append(kvs, kv{k, c15Coq(secT, sh.Kids[i], "map[string]interface {}")})
		}
		sort.Slice(kvs, func(i, j int) bool { return kvs[i].k < kvs[j].k })
		var items []string
		for _, e := range kvs {
			items = append(items, fmt.Sprintf("(%s, VIface %s)", cStr(e.k), e.v))
		}
		return fmt.Sprintf("(VMap %s %s)", cStr(mapType), cList(items))
	case "slice":
		var items []string
		for _, k := range sh.Kids {
			items = append(items, "VIface "+c15Coq(secT, k, "map[string]interface {}"))
		}
		return "(VSlice " + cList(items) + ")"
	case "str":
		return "(VStr " + cStr(sh.S) + ")"
	case "int":
		return "(VInt " + cZ(sh.I) + ")"
	default:
		return "(VBool " + cBool(sh.B) + ")"
	}
}

// ---------- one run: the error built with one marker ----------

type c15Side struct {
	top     error
	carrier errdef.Error
	val     any
	ok      bool
}

type c15Env struct {
	cfg      c15Cfg
	mark     c15Marker
	ptrs     map[uintptr]bool
	orig     c15Side
	restored c15Side
	rtErr    string // text of the Unmarshal error ("" when it succeeded)
	secret   any    // the wrapper built for "direct": used by valuestill
	secName  string
}

func c15SecOption(cfg c15Cfg, v any) (errdef.Option, string) {
	switch cfg.Attach {
	case "direct":
		switch x := v.(type) {
		case errdef.Redacted[string]:
			return c15TokS(x), "tok"
		case errdef.Redacted[int]:
			return c15TokI(x), "tok"
		case errdef.Redacted[c15Sec]:
			return c15TokT(x), "tok"
		case errdef.Redacted[any]:
			return c15TokA(x), "tok"
		}
	case "typed":
		switch x := v.(type) {
		case c15SX[string]:
			return c15SxS(x), "sx"
		case c15SX[int]:
			return c15SxI(x), "sx"
		case c15SX[c15Sec]:
			return c15SxT(x), "sx"
		case c15SX[any]:
			return c15SxA(x), "sx"
		}
	case "details":
		if m, ok := v.(map[string]any); ok {
			return errdef.Details(m), "details"
		}
	}
	return c15Any(v), "v"
}

func c15CarrierOf(top error, pos int) (errdef.Error, bool) {
	e, ok := top.(errdef.Error)
	if !ok {
		return nil, false
	}
	if pos == 0 {
		return e, true
	}
	tree := e.UnwrapTree()
	if len(tree) < pos {
		return nil, false
	}
	c, ok := tree[pos-1].Error.(errdef.Error)
	return c, ok
}

func c15ValueOf(carrier errdef.Error, name string) (any, bool) {
	for k, v := range carrier.Fields().All() {
		if k.String() == name {
			return v.Value(), true
		}
	}
	return nil, false
}

func c15NewEnv(cfg c15Cfg, markHex string) (env *c15Env) {
	env = &c15Env{cfg: cfg, ptrs: map[uintptr]bool{}}
	if !cfg.Zero {
		env.mark = c15MarkerFrom(markHex)
	}
	defer func() {
		if p := recover(); p != nil {
			env.rtErr = fmt.Sprintf("PANIC while building: %v", p)
		}
	}()
	v := c15BuildAny(cfg.SecT, cfg.Shape, env.mark, env.ptrs)
	if cfg.Unenc > 0 {
		bad := []any{math.NaN(), math.Inf(1), func() {}, make(chan int)}[(cfg.Unenc-1)%4]
		if m, ok := v.(map[string]any); ok && cfg.Attach == "details" {
			m["zz"] = bad
		} else {
			v = map[string]any{"v": v, "zz": bad}
		}
	}
	env.secret = v
	secOpt, name := c15SecOption(cfg, v)
	env.secName = name
	var opts, eopts []errdef.Option
	if !cfg.Trace {
		opts = append(opts, errdef.NoTrace())
		eopts = append(eopts, errdef.NoTrace())
	}
	if cfg.Pub == 1 {
		opts = append(opts, c15Pub(c15PubValue))
	}
	opts = append(opts, secOpt)
	if cfg.Pub == 2 {
		opts = append(opts, c15Pub(c15PubValue))
	}
	D := errdef.Define("d", opts...)
	E := errdef.Define("e", eopts...)
	inner := D.New("m")
	switch cfg.Pos {
	case 0:
		env.orig.top = inner
	case 1:
		env.orig.top = E.Wrap(inner)
	default:
		env.orig.top = E.Join(errors.New("plain"), inner)
	}
	if c, ok := c15CarrierOf(env.orig.top, cfg.Pos); ok {
		env.orig.carrier = c
		env.orig.val, env.orig.ok = c15ValueOf(c, name)
	}
	// JSON round trip
	b, err := json.Marshal(env.orig.top)
	if err != nil {
		env.rtErr = "marshal: " + err.Error()
		return env
	}
	u := unmarshaler.NewJSON(resolver.New(D, E), unmarshaler.WithBuiltinFields())
	re, err := u.Unmarshal(b)
	if err != nil {
		env.rtErr = err.Error()
		return env
	}
	env.restored.top = re
	if c, ok := c15CarrierOf(re, cfg.Pos); ok {
		env.restored.carrier = c
		env.restored.val, env.restored.ok = c15ValueOf(c, name)
	}
	return env
}

// addresses of everything reachable through the public API of [x]
func c15Collect(x any, set map[uintptr]bool, depth int) {
	if x == nil || depth > 6 {
		return
	}
	add := func(y any) {
		if y == nil {
			return
		}
		rv := reflect.ValueOf(y)
		switch rv.Kind() {
		case reflect.Pointer, reflect.Map, reflect.Slice, reflect.Func, reflect.Chan, reflect.UnsafePointer:
			set[rv.Pointer()] = true
		}
	}
	add(x)
	switch t := x.(type) {
	case errdef.Nodes:
		for _, n := range t {
			c15Collect(n, set, depth+1)
		}
	case *errdef.Node:
		if t != nil {
			c15Collect(t.Error, set, depth+1)
			c15Collect(t.Causes, set, depth+1)
		}
	case errdef.Error:
		c15Collect(t.Fields(), set, depth+1)
		add(t.Stack())
		c15Collect(t.UnwrapTree(), set, depth+1)
		for _, c := range t.Unwrap() {
			c15Collect(c, set, depth+1)
		}
	case errdef.Fields:
		for k, v := range t.All() {
			add(k)
			add(v)
		}
	case error:
		if u, ok := t.(interface{ Unwrap() error }); ok {
			c15Collect(u.Unwrap(), set, depth+1)
		}
		if u, ok := t.(interface{ Unwrap() []error }); ok {
			for _, c := range u.Unwrap() {
				c15Collect(c, set, depth+1)
			}
		}
	}
}

func c15NoTime(groups []string, a slog.Attr) slog.Attr {
	if a.Key == slog.TimeKey && len(groups) == 0 {
		return slog.Attr{}
	}
	return a
}

func (s c15Spec) String() string {
	w := ""
	if s.Width > 0 {
		w = fmt.Sprint(s.Width)
	}
	return "%" + s.Flag + w + s.Verb
}

const c15NA = "N/A" // the sink does not apply to this configuration

// target of a sink on one side; ok=false when it does not exist
func c15Target(side *c15Side, cfg c15Cfg, tgt string) (any, bool) {
	if side.top == nil {
		return nil, false
	}
	top, isErr := side.top.(errdef.Error)
	switch tgt {
	case "err":
		return side.top, true
	case "tree":
		if isErr {
			return top.UnwrapTree(), true
		}
	case "node":
		if isErr {
			return &errdef.Node{Error: side.top, Causes: top.UnwrapTree()}, true
		}
	case "treenode":
		if isErr && cfg.Pos > 0 {
			tree := top.UnwrapTree()
			if len(tree) >= cfg.Pos {
				return tree[cfg.Pos-1], true
			}
		}
	case "value":
		if side.ok {
			return side.val, true
		}
	case "fields":
		if side.carrier != nil {
			return side.carrier.Fields(), true
		}
	case "stack":
		if side.carrier != nil {
			return side.carrier.Stack(), true
		}
	}
	return nil, false
}

var c15LogKey = map[string]string{"err": "err", "fields": "fields", "node": "node", "treenode": "node", "stack": "stack", "value": "k"}

// run one sink; every library call is under recover
func (env *c15Env) render(s c15Sink) (out string) {
	addrs := map[uintptr]bool{}
	for p := range env.ptrs {
		addrs[p] = true
	}
	defer func() {
		if p := recover(); p != nil {
			out = fmt.Sprintf("PANIC: %v", p)
		}
		out = c15Mask(out, addrs, env.mark)
	}()
	side := &env.orig
	if s.Kind == "restored" {
		side = &env.restored
		s = *s.Inner
		if side.top == nil {
			return c15NA
		}
	}
	c15Collect(side.top, addrs, 0)
	switch s.Kind {
	case "fmt":
		t, ok := c15Target(side, env.cfg, s.Tgt)
		if !ok {
			return c15NA
		}
		c15Collect(t, addrs, 0)
		return fmt.Sprintf(s.Spec.String(), t)
	case "json", "unenc":
		t, ok := c15Target(side, env.cfg, s.Tgt)
		if !ok {
			return c15NA
		}
		b, err := json.Marshal(t)
		if err != nil {
			return "ERR: " + err.Error()
		}
		return string(b)
	case "xml":
		t, ok := c15Target(side, env.cfg, s.Tgt)
		if !ok {
			return c15NA
		}
		b, err := xml.Marshal(t)
		if err != nil {
			return "ERR: " + err.Error()
		}
		return string(b)
	case "gob":
		t, ok := c15Target(side, env.cfg, s.Tgt)
		if !ok {
			return c15NA
		}
		var buf bytes.Buffer
		if err := gob.NewEncoder(&buf).Encode(t); err != nil {
			msg := err.Error()
			// which unregistered type gob meets first depends on map iteration order
			if i := strings.Index(msg, "type not registered for interface"); i >= 0 {
				msg = msg[:i+len("type not registered for interface")]
			}
			return "ERR: " + msg
		}
		return buf.String()
	case "text":
		t, ok := c15Target(side, env.cfg, "value")
		if !ok {
			return c15NA
		}
		tm, ok := t.(encoding.TextMarshaler)
		if !ok {
			return c15NA
		}
		b, err := tm.MarshalText()
		if err != nil {
			return "ERR: " + err.Error()
		}
		// the returned buffer is the caller's: a caller that reuses it for the secret must not change
		// what later marshalings show - the SECOND result is the observation
		copy(b, env.mark.S)
		b, err = tm.MarshalText()
		if err != nil {
			return "ERR: " + err.Error()
		}
		return string(b)
	case "binary":
		t, ok := c15Target(side, env.cfg, "value")
		if !ok {
			return c15NA
		}
		bm, ok := t.(encoding.BinaryMarshaler)
		if !ok {
			return c15NA
		}
		b, err := bm.MarshalBinary()
		if err != nil {
			return "ERR: " + err.Error()
		}
		copy(b, env.mark.S)
		b, err = bm.MarshalBinary()
		if err != nil {
			return "ERR: " + err.Error()
		}
		return string(b)
	case "logtext", "logjson":
		t, ok := c15Target(side, env.cfg, s.Tgt)
		if !ok {
			return c15NA
		}
		c15Collect(t, addrs, 0)
		var buf bytes.Buffer
		var h slog.Handler
		if s.Kind == "logtext" {
			h = slog.NewTextHandler(&buf, &slog.HandlerOptions{ReplaceAttr: c15NoTime})
		} else {
			h = slog.NewJSONHandler(&buf, &slog.HandlerOptions{ReplaceAttr: c15NoTime})
		}
		slog.New(h).Error("m", c15LogKey[s.Tgt], t)
		return buf.String()
	case "rtslots":
		c, ok := env.restored.carrier.(unmarshaler.UnmarshaledError)
		if env.restored.carrier == nil || !ok {
			return c15NA
		}
		unknown := map[string]any{}
		for k, v := range c.UnknownFields() {
			unknown[k] = v
		}
		var b strings.Builder
		b.WriteString(";")
		for k, v := range c.Fields().All() {
			if u, isU := unknown[k.String()]; isU {
				_ = v
				j, err := json.Marshal(u)
				if err != nil {
					j = []byte("ERR: " + err.Error())
				}
				fmt.Fprintf(&b, "%s=U:%s;", k.String(), j)
			} else {
				fmt.Fprintf(&b, "%s=T;", k.String())
			}
		}
		return b.String()
	case "rterror":
		if env.rtErr == "" {
			return c15NA
		}
		return env.rtErr
	case "valuestill":
		still := false
		switch x := env.secret.(type) {
		case errdef.Redacted[string]:
			still = x.Value() == env.mark.S
		case errdef.Redacted[int]:
			still = x.Value() == env.mark.I
		case errdef.Redacted[c15Sec]:
			still = x.Value() == c15Sec{A: env.mark.S, B: env.mark.I}
		case errdef.Redacted[any]:
			still = x.Value() == any(env.mark.S)
		case *errdef.Redacted[any]:
			still = x.Value() == any(env.mark.S)
		case *errdef.Redacted[string]:
			still = x.Value() == env.mark.S
		case *errdef.Redacted[int]:
			still = x.Value() == env.mark.I
		case *errdef.Redacted[c15Sec]:
			still = x.Value() == c15Sec{A: env.mark.S, B: env.mark.I}
		default:
			return c15NA
		}
		// the value reached through the error must be the same wrapper
		if v, ok := c15Target(&env.orig, env.cfg, "value"); ok {
			switch x := v.(type) {
			case errdef.Redacted[string]:
				still = still && x.Value() == env.mark.S
			case errdef.Redacted[int]:
				still = still && x.Value() == env.mark.I
			case errdef.Redacted[c15Sec]:
				still = still && x.Value() == c15Sec{A: env.mark.S, B: env.mark.I}
			case errdef.Redacted[any]:
				still = still && x.Value() == any(env.mark.S)
			}
		}
		return fmt.Sprint(still)
	}
	return c15NA
}

// ---------- Coq printing of sinks and cases ----------

var c15VerbCoq = map[string]string{"v": "Vv", "s": "Vs", "q": "Vq", "x": "Vx", "X": "VX", "d": "Vd", "b": "Vb", "c": "Vc",
	"o": "Vo", "U": "VU", "e": "Ve", "E": "VE", "f": "Vf", "F": "VF", "g": "Vg", "G": "VG", "t": "Vt"}

func (s c15Spec) Coq() string {
	return fmt.Sprintf("{| f_verb := %s; f_plus := %s; f_sharp := %s; f_minus := %s; f_zero := %s; f_space := %s; f_width := %s |}",
		c15VerbCoq[s.Verb], cBool(s.Flag == "+"), cBool(s.Flag == "#"), cBool(s.Flag == "-"), cBool(s.Flag == "0"),
		cBool(s.Flag == " "), cN(s.Width))
}

var c15FT = map[string]string{"err": "FErr", "tree": "FTree", "node": "FNode", "value": "FValue", "fields": "FFields"}
var c15OT = map[string]string{"err": "OErr", "fields": "OFields", "node": "ONode", "treenode": "OTreeNode", "stack": "OStack", "value": "OValue"}

func (s c15Sink) Coq() string {
	switch s.Kind {
	case "fmt":
		return fmt.Sprintf("(SFmt %s %s)", c15FT[s.Tgt], s.Spec.Coq())
	case "json":
		return "(SJson " + c15OT[s.Tgt] + ")"
	case "unenc":
		return "(SUnenc " + c15OT[s.Tgt] + ")"
	case "xml":
		return "(SXml " + c15OT[s.Tgt] + ")"
	case "gob":
		return "(SGob " + c15OT[s.Tgt] + ")"
	case "text":
		return "SText"
	case "binary":
		return "SBinary"
	case "logtext":
		return "(SLogText " + c15OT[s.Tgt] + ")"
	case "logjson":
		return "(SLogJson " + c15OT[s.Tgt] + ")"
	case "restored":
		return "(SRestored " + s.Inner.Coq() + ")"
	case "rtslots":
		return "SRtSlots"
	case "rterror":
		return "SRtError"
	default:
		return "SValueStill"
	}
}

func (s c15Sink) String() string {
	switch s.Kind {
	case "fmt":
		return "fmt(" + s.Spec.String() + ")/" + s.Tgt
	case "restored":
		return "restored:" + s.Inner.String()
	}
	if s.Tgt != "" {
		return s.Kind + "/" + s.Tgt
	}
	return s.Kind
}

func (s c15Sink) class() string {
	switch s.Kind {
	case "fmt":
		return "fmt/" + s.Tgt
	case "restored":
		return "restored:" + s.Inner.class()
	}
	if s.Tgt != "" {
		return s.Kind + "/" + s.Tgt
	}
	return s.Kind
}

func c15KeyType(k errdef.FieldKey) string {
	t := fmt.Sprintf("%T", k)
	t = strings.TrimPrefix(t, "*errdef.fieldKey[")
	return strings.TrimSuffix(t, "]")
}

func c15ShapeDepth(sh c15Shape) int {
	d := 0
	for _, k := range sh.Kids {
		if x := c15ShapeDepth(k); x > d {
			d = x
		}
	}
	if sh.K == "red" || sh.K == "str" || sh.K == "int" || sh.K == "bool" {
		return 0
	}
	return d + 1
}

func c15ShapeStr(sh c15Shape) string {
	switch sh.K {
	case "map", "slice", "w":
		var ks []string
		for _, k := range sh.Kids {
			ks = append(ks, c15ShapeStr(k))
		}
		return sh.K + "(" + strings.Join(ks, ",") + ")"
	}
	return sh.K
}

// run a configuration: build both errors once, run every sink on both
func c15RunCfg(cfg c15Cfg, sinks []c15Sink) []Case {
	// both runs go through the same call site: the stack traces must not differ
	var envs [2]*c15Env
	for i, m := range []string{cfg.Mark1, cfg.Mark2} {
		envs[i] = c15NewEnv(cfg, m)
	}
	env1, env2 := envs[0], envs[1]

	// the carrier's fields as a Coq term (from the first run; the shape is the same in both)
	var fl []string
	sec := 0
	mapType := "map[string]interface {}"
	if cfg.Attach == "details" {
		mapType = "errdef.Details"
	}
	if env1.orig.carrier != nil {
		i := 0
		for k := range env1.orig.carrier.Fields().All() {
			var v string
			if k.String() == env1.secName {
				sec = i
				v = c15Coq(cfg.SecT, cfg.Shape, mapType)
			} else {
				v = "(VStr " + cStr(c15PubValue) + ")"
			}
			fl = append(fl, fmt.Sprintf("({| k_name := %s; k_ty := %s; k_idx := %s |}, %s)",
				cStr(k.String()), cStr(c15KeyType(k)), cZ(int64(i+1)), v))
			i++
		}
	}
	fieldsCoq := cList(fl)
	var out []Case
	for _, s := range sinks {
		o1, o2 := env1.render(s), env2.render(s)
		if o1 == c15NA && o2 == c15NA {
			continue
		}
		coq := fmt.Sprintf("{| c_fields := %s; c_last := %s; c_sec := %s; c_pos := %s; c_trace := %s; c_sink := %s; c_out1 := %s; c_out2 := %s |}",
			fieldsCoq, cZ(int64(len(fl))), cNat(sec), cNat(cfg.Pos), cBool(cfg.Trace), s.Coq(), cStr(o1), cStr(o2))
		obs := o1
		if len(obs) > 300 {
			obs = obs[:300] + "..."
		}
		out = append(out, Case{
			Coq: coq, Desc: mustJSON(c15Desc{Cfg: cfg, Sink: s}),
			Size:       c15ShapeDepth(cfg.Shape)*10 + cfg.Pos*3 + cfg.Pub + len(o1)/200,
			Nontrivial: c15ShapeDepth(cfg.Shape) > 0 || cfg.Pos > 0,
			Class:      s.class(),
			Summary: fmt.Sprintf("secret=%s attach=%s shape=%s pos=%d trace=%v pub=%d unenc=%d zero=%v sink=%s",
				cfg.SecT, cfg.Attach, c15ShapeStr(cfg.Shape), cfg.Pos, cfg.Trace, cfg.Pub, cfg.Unenc, cfg.Zero, s.String()),
			Observed: obs,
		})
	}
	return out
}

// ---------- generation ----------

const c15Verbs = "vsqxXdbcoUeEfFgGt"

var c15Flags = []string{"", "+", "#", "-", "0", " "}

func c15RandSpec(r *Rng) *c15Spec {
	return &c15Spec{Verb: string(c15Verbs[r.Intn(len(c15Verbs))]), Flag: Pick(r, c15Flags), Width: Pick(r, []int{0, 8})}
}

func c15RandPtrSpec(r *Rng) *c15Spec {
	return &c15Spec{Verb: Pick(r, []string{"v", "d", "x", "X", "o", "b"}), Flag: Pick(r, c15Flags), Width: Pick(r, []int{0, 8})}
}

func c15Plain(verb, flag string) *c15Spec { return &c15Spec{Verb: verb, Flag: flag} }

func c15FmtSink(tgt string, sp *c15Spec) c15Sink { return c15Sink{Kind: "fmt", Tgt: tgt, Spec: sp} }

// the sinks of one configuration: the literally modelled ones always, the rest sampled
func c15Sinks(r *Rng, nrand int) []c15Sink {
	var ss []c15Sink
	for _, p := range [][2]string{{"v", ""}, {"v", "+"}, {"v", "#"}, {"s", ""}, {"q", ""}, {"d", ""}, {"x", ""}} {
		ss = append(ss, c15FmtSink("value", c15Plain(p[0], p[1])))
	}
	for _, p := range [][2]string{{"v", "+"}, {"v", ""}, {"v", "#"}, {"s", ""}} {
		ss = append(ss, c15FmtSink("err", c15Plain(p[0], p[1])))
	}
	ss = append(ss, c15FmtSink("tree", c15Plain("v", "+")), c15FmtSink("node", c15Plain("v", "+")))
	for _, p := range [][2]string{{"v", ""}, {"v", "+"}, {"v", "#"}} {
		ss = append(ss, c15FmtSink("fields", c15Plain(p[0], p[1])))
	}
	for i := 0; i < nrand; i++ {
		ss = append(ss, c15FmtSink("value", c15RandSpec(r)), c15FmtSink("err", c15RandSpec(r)))
		if i%2 == 0 {
			ss = append(ss, c15FmtSink(Pick(r, []string{"tree", "node"}), c15RandSpec(r)), c15FmtSink("fields", c15RandPtrSpec(r)))
		}
	}
	for _, t := range []string{"err", "fields", "node", "treenode", "value", "stack"} {
		ss = append(ss, c15Sink{Kind: "json", Tgt: t}, c15Sink{Kind: "logtext", Tgt: t}, c15Sink{Kind: "logjson", Tgt: t})
	}
	for _, t := range []string{"err", "value"} {
		ss = append(ss, c15Sink{Kind: "xml", Tgt: t}, c15Sink{Kind: "gob", Tgt: t})
	}
	ss = append(ss, c15Sink{Kind: "text"}, c15Sink{Kind: "binary"}, c15Sink{Kind: "valuestill"},
		c15Sink{Kind: "rtslots"}, c15Sink{Kind: "rterror"})
	inner := []c15Sink{
		c15FmtSink("err", c15Plain("v", "+")), c15FmtSink("err", c15RandSpec(r)),
		c15FmtSink("value", c15Plain("v", "+")), c15FmtSink("value", c15RandSpec(r)),
		c15FmtSink("fields", Pick(r, []*c15Spec{c15Plain("v", ""), c15RandPtrSpec(r)})),
		c15FmtSink(Pick(r, []string{"tree", "node"}), c15RandSpec(r)),
		{Kind: "json", Tgt: Pick(r, []string{"err", "err", "fields", "value", "node", "treenode"})},
		{Kind: Pick(r, []string{"logtext", "logjson"}), Tgt: "err"},
		{Kind: Pick(r, []string{"logtext", "logjson"}), Tgt: Pick(r, []string{"fields", "node", "treenode", "value", "stack"})},
	}
	for i := range inner {
		in := inner[i]
		ss = append(ss, c15Sink{Kind: "restored", Inner: &in})
	}
	return ss
}

var c15PubStrs = []string{"n", "a b", "x\"y", "l1\nl2", "k=v", "", "y> & z", "back\\slash"}

// no public text contains "<" (first character of the marker token; see wf in Check/C15.v), so no int 60 either
var c15PubInts = []int64{5, 42, 65, -3, 1000000, 0, 39, 92}

func c15Leaf(r *Rng) c15Shape {
	switch r.Intn(3) {
	case 0:
		return c15Shape{K: "str", S: Pick(r, c15PubStrs)}
	case 1:
		return c15Shape{K: "int", I: Pick(r, c15PubInts)}
	}
	return c15Shape{K: "bool", B: r.Bool()}
}

var c15Keys = []string{"a", "k", "z", "&y>", "two words", "Q"}

// a random shape containing at least one secret; [inside]: only shapes the statement covers
func c15RandShape(r *Rng, depth int, inside bool) c15Shape {
	kinds := []string{"red", "red", "pred", "sx", "psx", "map", "slice", "map", "slice"}
	if !inside {
		kinds = append(kinds, "su", "w", "w")
	}
	if depth <= 0 {
		kinds = []string{"red", "pred", "sx"}
	}
	k := Pick(r, kinds)
	sh := c15Shape{K: k, S: Pick(r, c15PubStrs), I: Pick(r, c15PubInts)}
	switch k {
	case "w":
		sh.Kids = []c15Shape{c15RandShape(r, depth-1, inside)}
	case "map", "slice":
		n := 1 + r.Intn(3)
		secAt := r.Intn(n)
		used := map[string]bool{}
		for i := 0; i < n; i++ {
			if i == secAt || r.Chance(1, 4) {
				sh.Kids = append(sh.Kids, c15RandShape(r, depth-1, inside))
			} else {
				sh.Kids = append(sh.Kids, c15Leaf(r))
			}
			if k == "map" {
				key := Pick(r, c15Keys)
				for used[key] {
					key += "'"
				}
				used[key] = true
				sh.Keys = append(sh.Keys, key)
			}
		}
	}
	return sh
}

func genC15(r *Rng, tier string) []Case {
	red := c15Shape{K: "red"}
	base := []struct {
		attach string
		shape  c15Shape
	}{
		{"direct", red},
		{"details", c15Shape{K: "map", Keys: []string{"x", "&y>", "deep"}, Kids: []c15Shape{red, {K: "int", I: 1}, {K: "slice", Kids: []c15Shape{red, {K: "str", S: "l1\nl2"}}}}}},
		{"any", c15Shape{K: "sx", S: "a b", I: 5}},
		{"any", c15Shape{K: "map", Keys: []string{"k", "a"}, Kids: []c15Shape{red, {K: "str", S: "x\"y"}}}},
		{"any", c15Shape{K: "slice", Kids: []c15Shape{{K: "bool", B: true}, red, {K: "sx", S: "n", I: 65}}}},
		{"any", c15Shape{K: "psx", S: "l1\nl2", I: 42}},
		{"any", c15Shape{K: "pred"}},
		{"any", c15Shape{K: "su", S: "n"}},
		{"any", c15Shape{K: "w", S: "n", I: 1, Kids: []c15Shape{red}}},
		{"typed", c15Shape{K: "sx", S: "k=v", I: 39}},
	}
	nrand, nextra := 2, 8
	if tier == "thorough" {
		nrand, nextra = 14, 700
	}
	var out []Case
	n := 0
	emit := func(cfg c15Cfg, nrand int) {
		// the model prints a payload that sits at an UNEXPORTED position (outside the statement) with the type
		// name of the secret's own type; for Redacted[any] fmt prints the interface type: keep those on string
		if cfg.SecT == "any" && c15HasUnexported(cfg.Shape) {
			cfg.SecT = "string"
		}
		cfg.Mark1, cfg.Mark2 = c15NewMark(r), c15NewMark(r)
		out = append(out, c15RunCfg(cfg, c15Sinks(r, nrand))...)
		n++
	}
	for _, secT := range []string{"string", "int", "struct", "any"} {
		for _, b := range base {
			for pos := 0; pos < 3; pos++ {
				emit(c15Cfg{SecT: secT, Attach: b.attach, Shape: b.shape, Pos: pos, Trace: n%3 == 1, Pub: n % 3}, nrand)
			}
		}
	}
	for i := 0; i < nextra; i++ {
		inside := !r.Chance(1, 4)
		depth := 1 + i*3/nextra
		sh := c15RandShape(r, depth, inside)
		attach := "any"
		if sh.K == "map" && r.Chance(1, 2) {
			attach = "details"
		}
		if sh.K == "red" {
			attach = "direct"
		}
		emit(c15Cfg{SecT: Pick(r, []string{"string", "int", "struct", "any"}), Attach: attach, Shape: sh,
			Pos: r.Intn(3), Trace: r.Chance(1, 3), Pub: r.Intn(3)}, nrand)
	}
	// zero-valued secrets: the placeholder, never the zero value
	for i, b := range base {
		// (no unexported positions and no pointers to composites: where fmt prints the payload itself - outside
		// the statement - the model prints a marker token, which a zero value has none of)
		if c15HasUnexported(b.shape) || b.shape.K == "w" || b.shape.K == "psx" {
			continue
		}
		cfg := c15Cfg{SecT: []string{"string", "int", "struct"}[i%3], Attach: b.attach, Shape: b.shape, Pos: i % 3, Trace: false, Pub: i % 3, Zero: true}
		cfg.Mark1, cfg.Mark2 = c15NewMark(r), c15NewMark(r)
		out = append(out, c15RunCfg(cfg, c15Sinks(r, nrand))...)
		n++
	}
	// a value encoding/json rejects beside the secret, in the same field: whatever json.Marshal of the
	// error, its fields, its node or its tree node returns (an error on the unchanged tree) is free of the secret
	unencSinks := []c15Sink{{Kind: "unenc", Tgt: "err"}, {Kind: "unenc", Tgt: "fields"}, {Kind: "unenc", Tgt: "node"}, {Kind: "unenc", Tgt: "treenode"}}
	for i, b := range base {
		if c15HasUnexported(b.shape) {
			continue
		}
		cfg := c15Cfg{SecT: []string{"string", "int", "struct", "any"}[i%4], Attach: b.attach, Shape: b.shape, Pos: i % 3, Trace: false, Pub: i % 3, Unenc: 1 + i%4}
		cfg.Mark1, cfg.Mark2 = c15NewMark(r), c15NewMark(r)
		out = append(out, c15RunCfg(cfg, unencSinks)...)
		n++
	}
	extraMeta["c15_configurations"] = n
	return out
}
