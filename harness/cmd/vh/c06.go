package main

// C06: the cause tree is the finite path-unfolding of the cause graph.
//
// A graph DSL builds real error values (pointer structs, struct values, a map-kinded
// error, errdef errors made by D.Wrap / D.Join over mutable foreign errors whose causes
// are set afterwards), the receiver is an errdef error of the graph, and the observed
// UnwrapTree / HasCycle / Walk / UnwrapTreeFrom are printed as a Coq term of type C06.case.

import (
	"encoding/json"
	"errors"
	"fmt"
	"log/slog"
	"reflect"
	"runtime/debug"
	"strings"

	"github.com/shiwano/errdef"
)

// ---------- error types of the DSL ----------

// pointer-kinded, Unwrap() error
type c06PS struct {
	id    int
	cause error
}

func (e *c06PS) Error() string { return "ps" }
func (e *c06PS) Unwrap() error {
	if e == nil {
		return nil
	}
	return e.cause
}

// pointer-kinded, Unwrap() []error
type c06PM struct {
	id     int
	causes []error
}

func (e *c06PM) Error() string { return "pm" }
func (e *c06PM) Unwrap() []error {
	if e == nil {
		return nil
	}
	return e.causes
}

// value-kinded (struct values; no identity); the causes live in a shared mutable cell
type c06Cell struct {
	cause  error
	causes []error
}
type c06VS struct {
	id   int
	cell *c06Cell
}

func (e c06VS) Error() string { return "vs" }
func (e c06VS) Unwrap() error { return e.cell.cause }

type c06VM struct {
	id   int
	cell *c06Cell
}

func (e c06VM) Error() string   { return "vm" }
func (e c06VM) Unwrap() []error { return e.cell.causes }

// map-kinded (tracked by reflect.Value.Pointer of the map)
type c06MM map[string][]error

func (e c06MM) Error() string   { return "mm" }
func (e c06MM) Unwrap() []error { return e["c"] }

// pointers to distinct zero-size types (K5): one address for both
type c06ZA struct{}
type c06ZB struct{}

var c06ZCause = map[string]error{}

func (e *c06ZA) Error() string { return "za" }
func (e *c06ZA) Unwrap() error { return c06ZCause["za"] }
func (e *c06ZB) Error() string { return "zb" }
func (e *c06ZB) Unwrap() error { return c06ZCause["zb"] }

// ---------- descriptions ----------

// Kind: ps pm vs vm mm  (foreign, mutable)   ew ej en (errdef: Wrap / Join / New)
//
//	np nq (typed nil *c06PS / *c06PM)    za zb (zero-size pointers)
//
// Causes: indices into Nodes, -1 = nil.  ps/vs/za/zb use at most one entry.
type c06Node struct {
	Kind   string
	Causes []int
}
type c06Desc struct {
	Nodes []c06Node
	Recv  int // index of an errdef node: the receiver e
	Break int // k >= 1: Walk consumer breaks after k elements
	Class string
	Tags  []string
}

var (
	c06D1 = errdef.Define("c06a", errdef.NoTrace())
	c06D2 = errdef.Define("c06b", errdef.NoTrace())
)

const c06NodeCap = 20000 // observers stop here; never reached by generated inputs

func init() {
	register(&Prop{
		ID: "C06", Imports: "Base.Str Model.Tree Check.C06", Module: "C06",
		Rule:      "the unfolding drops an occurrence (cycle), or a node occurs under two parents (sharing), or a nil entry is skipped; distinct by Coq term",
		ShardSize: 200,
		Gen:       genC06,
		Replay: func(d json.RawMessage) ([]Case, error) {
			var desc c06Desc
			if err := json.Unmarshal(d, &desc); err != nil {
				return nil, err
			}
			c, ok := runC06(desc, 1<<30)
			if !ok {
				return nil, fmt.Errorf("C06 replay: description is not buildable")
			}
			return []Case{c}, nil
		},
	})
}

func c06IsErrdef(k string) bool  { return k == "ew" || k == "ej" || k == "en" }
func c06IsValue(k string) bool   { return k == "vs" || k == "vm" }
func c06IsSingle(k string) bool  { return k == "ps" || k == "vs" || k == "za" || k == "zb" }
func c06IsTracked(k string) bool { return !c06IsValue(k) }

// c06Valid: the description can be built, and (for graphs without the nil / zero-size kinds)
// satisfies the guard G by construction.
func c06Valid(d c06Desc) bool {
	n := len(d.Nodes)
	if d.Recv < 0 || d.Recv >= n || !c06IsErrdef(d.Nodes[d.Recv].Kind) {
		return false
	}
	seen := map[string]bool{}
	for i, nd := range d.Nodes {
		switch nd.Kind {
		case "np", "nq", "za", "zb":
			if seen[nd.Kind] {
				return false // identified by type when observed
			}
			seen[nd.Kind] = true
		}
		if (nd.Kind == "np" || nd.Kind == "nq" || nd.Kind == "en") && len(nd.Causes) > 0 {
			return false
		}
		if c06IsSingle(nd.Kind) && len(nd.Causes) > 1 {
			return false
		}
		nonNil := 0
		for _, c := range nd.Causes {
			if c < -1 || c >= n {
				return false
			}
			if c < 0 {
				continue
			}
			nonNil++
			ck := d.Nodes[c].Kind
			if c06IsErrdef(nd.Kind) && c06IsErrdef(ck) && c >= i {
				return false // an errdef error wraps only errors that already exist
			}
			if c06IsValue(nd.Kind) && c06IsValue(ck) && c >= i {
				return false // every cycle passes through a tracked node
			}
		}
		if nd.Kind == "ew" && (len(nd.Causes) != 1 || nonNil != 1) {
			return false
		}
		if nd.Kind == "ej" && nonNil == 0 {
			return false // Join of nothing is nil, not an error
		}
	}
	return true
}

type c06Built struct {
	errs   []error
	ids    map[error]int   // errdef nodes by pointer identity
	mapIDs map[uintptr]int // map-kinded nodes by map pointer
	kinds  []string
	byType map[string]int // np nq za zb
}

func (b *c06Built) idOf(err error) int {
	switch x := err.(type) {
	case *c06PS:
		if x == nil {
			return b.typeID("np")
		}
		return x.id
	case *c06PM:
		if x == nil {
			return b.typeID("nq")
		}
		return x.id
	case c06VS:
		return x.id
	case c06VM:
		return x.id
	case c06MM:
		if id, ok := b.mapIDs[reflect.ValueOf(x).Pointer()]; ok {
			return id
		}
		return 9999
	case *c06ZA:
		return b.typeID("za")
	case *c06ZB:
		return b.typeID("zb")
	}
	if reflect.TypeOf(err).Comparable() {
		if id, ok := b.ids[err]; ok {
			return id
		}
	}
	return 9999 // an error that is not a node of the graph
}
func (b *c06Built) typeID(k string) int {
	if id, ok := b.byType[k]; ok {
		return id
	}
	return 9999
}

// c06Build creates the error values.  Library calls (Wrap / Join) run under recover.
func c06Build(d c06Desc) (b *c06Built, panicked string) {
	n := len(d.Nodes)
	b = &c06Built{errs: make([]error, n), ids: map[error]int{}, mapIDs: map[uintptr]int{}, byType: map[string]int{}}
	cells := make([]*c06Cell, n)
	// 1. foreign nodes, no causes yet
	for i, nd := range d.Nodes {
		b.kinds = append(b.kinds, nd.Kind)
		switch nd.Kind {
		case "ps":
			b.errs[i] = &c06PS{id: i}
		case "pm":
			b.errs[i] = &c06PM{id: i}
		case "vs":
			cells[i] = &c06Cell{}
			b.errs[i] = c06VS{id: i, cell: cells[i]}
		case "vm":
			cells[i] = &c06Cell{}
			b.errs[i] = c06VM{id: i, cell: cells[i]}
		case "mm":
			m := c06MM{}
			b.errs[i] = m
			b.mapIDs[reflect.ValueOf(m).Pointer()] = i
		case "np":
			b.errs[i] = (*c06PS)(nil)
			b.byType["np"] = i
		case "nq":
			b.errs[i] = (*c06PM)(nil)
			b.byType["nq"] = i
		case "za":
			b.errs[i] = &c06ZA{}
			b.byType["za"] = i
		case "zb":
			b.errs[i] = &c06ZB{}
			b.byType["zb"] = i
		}
	}
	get := func(c int) error {
		if c < 0 {
			return nil
		}
		return b.errs[c]
	}
	// 2. errdef nodes in index order over errors that exist already
	func() {
		defer func() {
			if p := recover(); p != nil {
				panicked = fmt.Sprintf("panic while building: %v", p)
			}
		}()
		for i, nd := range d.Nodes {
			def := c06D1
			if i%2 == 1 {
				def = c06D2
			}
			switch nd.Kind {
			case "ew":
				b.errs[i] = def.Wrap(get(nd.Causes[0]))
			case "en":
				b.errs[i] = def.New("leaf")
			case "ej":
				args := make([]error, len(nd.Causes))
				for j, c := range nd.Causes {
					args[j] = get(c)
				}
				b.errs[i] = def.Join(args...)
			default:
				continue
			}
			if b.errs[i] == nil {
				panicked = "constructor returned nil"
				return
			}
			b.ids[b.errs[i]] = i
		}
	}()
	if panicked != "" {
		return b, panicked
	}
	// 3. now the causes of the foreign nodes (cycles become possible here)
	delete(c06ZCause, "za")
	delete(c06ZCause, "zb")
	for i, nd := range d.Nodes {
		var one error
		if len(nd.Causes) > 0 {
			one = get(nd.Causes[0])
		}
		var many []error
		for _, c := range nd.Causes {
			many = append(many, get(c))
		}
		switch nd.Kind {
		case "ps":
			b.errs[i].(*c06PS).cause = one
		case "pm":
			b.errs[i].(*c06PM).causes = many
		case "vs":
			cells[i].cause = one
		case "vm":
			cells[i].causes = many
		case "mm":
			b.errs[i].(c06MM)["c"] = many
		case "za", "zb":
			if one != nil {
				c06ZCause[nd.Kind] = one
			}
		}
	}
	return b, ""
}

// c06Graph prints the node table.  Keys are the real reflect pointers, canonicalised
// (0 stays 0, the others are numbered from 1 in order of first appearance).
func c06Graph(d c06Desc, b *c06Built) (coq string, aliased bool) {
	canon := map[uintptr]int{}
	var items []string
	for i, nd := range d.Nodes {
		key := "None"
		if c06IsTracked(nd.Kind) {
			p := reflect.ValueOf(b.errs[i]).Pointer()
			k := 0
			if p != 0 {
				if v, ok := canon[p]; ok {
					k = v
					aliased = true
				} else {
					k = len(canon) + 1
					canon[p] = k
				}
			}
			key = "(Some " + cN(k) + ")"
		}
		opt := func(c int) string {
			if c < 0 {
				return "None"
			}
			return "(Some " + cNat(c) + ")"
		}
		var unw string
		switch {
		case nd.Kind == "np":
			unw = "(USingle None)"
		case nd.Kind == "nq":
			unw = "(UMulti [])"
		case c06IsSingle(nd.Kind):
			if len(nd.Causes) == 0 {
				unw = "(USingle None)"
			} else {
				unw = "(USingle " + opt(nd.Causes[0]) + ")"
			}
		case c06IsErrdef(nd.Kind):
			// definedError.Unwrap(): [cause] for Wrap, the non-nil arguments for Join
			var cs []string
			for _, c := range nd.Causes {
				if c >= 0 {
					cs = append(cs, opt(c))
				}
			}
			unw = "(UMulti " + cList(cs) + ")"
		default:
			var cs []string
			for _, c := range nd.Causes {
				cs = append(cs, opt(c))
			}
			unw = "(UMulti " + cList(cs) + ")"
		}
		items = append(items, fmt.Sprintf("{| g_key := %s; g_unwrap := %s; g_errdef := %s |}", key, unw, cBool(c06IsErrdef(nd.Kind))))
	}
	return cList(items), aliased
}

type c06Tree struct {
	id   int
	cyc  bool
	kids []*c06Tree
}

func c06Convert(b *c06Built, ns errdef.Nodes, budget *int) ([]*c06Tree, bool) {
	var out []*c06Tree
	for _, n := range ns {
		*budget--
		if *budget < 0 || n == nil {
			return out, false
		}
		kids, ok := c06Convert(b, n.Causes, budget)
		out = append(out, &c06Tree{id: b.idOf(n.Error), cyc: n.IsCyclic, kids: kids})
		if !ok {
			return out, false
		}
	}
	return out, true
}

func c06TreeCoq(ts []*c06Tree, sb *strings.Builder) {
	sb.WriteString("[")
	for i, t := range ts {
		if i > 0 {
			sb.WriteString("; ")
		}
		fmt.Fprintf(sb, "Node %d %s ", t.id, cBool(t.cyc))
		c06TreeCoq(t.kids, sb)
	}
	sb.WriteString("]")
}
func c06TreeStr(ts []*c06Tree, sb *strings.Builder) {
	for i, t := range ts {
		if i > 0 {
			sb.WriteString(" ")
		}
		fmt.Fprintf(sb, "%d", t.id)
		if t.cyc {
			sb.WriteString("*")
		}
		if len(t.kids) > 0 {
			sb.WriteString("(")
			c06TreeStr(t.kids, sb)
			sb.WriteString(")")
		}
	}
}
func c06Count(ts []*c06Tree, occ map[int]int) int {
	n := 0
	for _, t := range ts {
		occ[t.id]++
		n += 1 + c06Count(t.kids, occ)
	}
	return n
}

func c06Pairs(ps [][2]int) string {
	items := make([]string, len(ps))
	for i, p := range ps {
		items[i] = fmt.Sprintf("(%d, %d)", p[0], p[1])
	}
	return cList(items)
}

// runC06 builds the graph, runs the library and prints the case.  ok=false: the
// description is invalid, or the observed tree is larger than maxTree (the case is skipped).
// c06LogNodes counts the nodes of a resolved Node.LogValue: the value itself plus, recursively,
// the entries of its "causes" member
func c06LogNodes(v any, depth int) int {
	if depth > 64 {
		return 1
	}
	var causes any
	switch x := v.(type) {
	case slog.Value:
		x = x.Resolve()
		if x.Kind() == slog.KindGroup {
			for _, a := range x.Group() {
				if a.Key == "causes" {
					causes = a.Value.Resolve().Any()
				}
			}
		} else {
			return c06LogNodes(x.Any(), depth+1)
		}
	case map[string]any:
		causes = x["causes"]
	default:
		return 1
	}
	n := 1
	switch cs := causes.(type) {
	case []any:
		for _, c := range cs {
			n += c06LogNodes(c, depth+1)
		}
	case []slog.Value:
		for _, c := range cs {
			n += c06LogNodes(c, depth+1)
		}
	}
	return n
}

func runC06(d c06Desc, maxTree int) (Case, bool) {
	if !c06Valid(d) {
		return Case{}, false
	}
	if d.Break < 1 {
		d.Break = 1
	}
	b, bp := c06Build(d)
	panicked := bp
	var tree, utfTree []*c06Tree
	hasCycle, utfOK := false, false
	var walk, walkBreak [][2]int
	if panicked == "" {
		e := b.errs[d.Recv]
		guard := func(what string, f func()) {
			defer func() {
				if p := recover(); p != nil && panicked == "" {
					panicked = fmt.Sprintf("%s panicked: %v", what, p)
				}
			}()
			f()
		}
		var nodes errdef.Nodes
		guard("UnwrapTree", func() { nodes = e.(errdef.Error).UnwrapTree() })
		budget := c06NodeCap
		var okc bool
		tree, okc = c06Convert(b, nodes, &budget)
		if !okc && panicked == "" {
			panicked = "observer node cap reached (tree too large or malformed)"
		}
		if panicked == "" {
			guard("HasCycle", func() { hasCycle = nodes.HasCycle() })
			guard("Walk", func() {
				cnt := 0
				for depth, n := range nodes.Walk() {
					walk = append(walk, [2]int{depth, b.idOf(n.Error)})
					cnt++
					if cnt > c06NodeCap {
						panicked = "Walk yields more elements than the node cap"
						break
					}
				}
			})
			guard("Walk/break", func() {
				for depth, n := range nodes.Walk() {
					walkBreak = append(walkBreak, [2]int{depth, b.idOf(n.Error)})
					if len(walkBreak) == d.Break {
						break
					}
				}
			})
			guard("Node.LogValue", func() {
				// the log value of a cause-tree node carries its full subtree (C19), also for nodes flagged
				// cyclic: as many nodes as Walk yields beneath it
				for _, n := range nodes {
					want := 0
					for range (errdef.Nodes{n}).Walk() {
						want++
					}
					if got := c06LogNodes(slog.AnyValue(n).Resolve(), 0); got != want && panicked == "" {
						panicked = fmt.Sprintf("Node.LogValue carries %d nodes, the subtree has %d", got, want)
					}
				}
			})
			guard("UnwrapTreeFrom", func() {
				var u errdef.Nodes
				// through foreign wrappers as well (errors.As order: single %w, errors.Join, multi %w):
				// the answer is the tree of the first errdef layer, which here is e
				var via error = e
				switch (len(d.Nodes) + d.Recv + d.Break) % 4 {
				case 1:
					via = fmt.Errorf("w: %w", e)
				case 2:
					via = errors.Join(nil, e)
				case 3:
					via = fmt.Errorf("%w and %w", errors.New("x"), e)
				}
				u, utfOK = errdef.UnwrapTreeFrom(via)
				if utfOK {
					budget := c06NodeCap
					var okc bool
					utfTree, okc = c06Convert(b, u, &budget)
					if !okc {
						panicked = "observer node cap reached in UnwrapTreeFrom"
					}
				}
			})
		}
	}
	occ := map[int]int{}
	size := c06Count(tree, occ)
	if size > maxTree {
		return Case{}, false
	}
	graph, aliased := c06Graph(d, b)
	var tc, uc, ts strings.Builder
	c06TreeCoq(tree, &tc)
	utf := "None"
	if utfOK {
		c06TreeCoq(utfTree, &uc)
		utf = "(Some " + uc.String() + ")"
	}
	c06TreeStr(tree, &ts)
	coq := fmt.Sprintf("{| c_graph := %s; c_recv := %d; c_panic := %s; c_tree := %s; c_has_cycle := %s; c_walk := %s; c_break := %d; c_walk_break := %s; c_utf := %s |}",
		graph, d.Recv, cBool(panicked != ""), tc.String(), cBool(hasCycle), c06Pairs(walk), d.Break, c06Pairs(walkBreak), utf)

	shared, nils := false, false
	for _, c := range occ {
		if c > 1 {
			shared = true
		}
	}
	for _, nd := range d.Nodes {
		for _, c := range nd.Causes {
			if c < 0 {
				nils = true
			}
		}
	}
	var kinds []string
	for i, nd := range d.Nodes {
		kinds = append(kinds, fmt.Sprintf("%d:%s%v", i, nd.Kind, nd.Causes))
	}
	obs := fmt.Sprintf("tree=[%s] HasCycle=%v walk=%d nodes UnwrapTreeFrom.ok=%v", ts.String(), hasCycle, len(walk), utfOK)
	if aliased {
		obs += " (two nodes share one address)"
	}
	if panicked != "" {
		obs = panicked
	}
	return Case{
		Coq: coq, Desc: mustJSON(d), Tags: d.Tags, Size: len(d.Nodes)*8 + size,
		Nontrivial: hasCycle || shared || nils, Class: d.Class,
		Summary:  fmt.Sprintf("recv=%d nodes={%s}", d.Recv, strings.Join(kinds, " ")),
		Observed: obs,
	}, true
}

// ---------- generators ----------

// all cause lists of length <= 2 over targets 0..m-1
func c06CauseLists(m int) [][]int {
	out := [][]int{{}}
	for a := 0; a < m; a++ {
		out = append(out, []int{a})
	}
	for a := 0; a < m; a++ {
		for b := 0; b < m; b++ {
			out = append(out, []int{a, b})
		}
	}
	return out
}

// c06Exhaustive: every graph on n pointer nodes with <= 2 ordered causes each, the receiver
// D.Wrap(node 0) being node n.  withRecv: the foreign nodes may also point to the receiver
// (cycles through the errdef receiver).
func c06Exhaustive(n int, withRecv bool, class string, emit func(c06Desc)) {
	m := n
	if withRecv {
		m = n + 1
	}
	lists := c06CauseLists(m)
	idx := make([]int, n)
	count := 0
	for {
		d := c06Desc{Recv: n, Class: class}
		for i := 0; i < n; i++ {
			cs := lists[idx[i]]
			kind := "pm"
			if len(cs) <= 1 && (count+i)%2 == 0 {
				kind = "ps"
			}
			d.Nodes = append(d.Nodes, c06Node{Kind: kind, Causes: cs})
		}
		d.Nodes = append(d.Nodes, c06Node{Kind: "ew", Causes: []int{0}})
		d.Break = 1 + count%4
		emit(d)
		count++
		// next
		j := 0
		for j < n {
			idx[j]++
			if idx[j] < len(lists) {
				break
			}
			idx[j] = 0
			j++
		}
		if j == n {
			return
		}
	}
}

var c06ForeignKinds = []string{"ps", "ps", "ps", "pm", "pm", "pm", "pm", "vs", "vs", "vm", "vm", "mm", "mm", "ew", "ew", "ej", "ej", "en"}

// c06Random: a graph of n inner nodes of mixed kinds plus an errdef receiver (node n), valid by construction.
func c06Random(r *Rng, n int, extra []string) c06Desc {
	d := c06Desc{Class: "random"}
	kinds := make([]string, n)
	for i := range kinds {
		kinds[i] = Pick(r, c06ForeignKinds)
	}
	// special kinds (typed nil, zero-size) replace some nodes
	for j, k := range extra {
		if j < n {
			kinds[(j*3+1)%n] = k
		}
	}
	// make sure special kinds appear once each
	seen := map[string]bool{}
	for i, k := range kinds {
		switch k {
		case "np", "nq", "za", "zb":
			if seen[k] {
				kinds[i] = "pm"
			}
			seen[k] = true
		}
	}
	allowed := func(i int, from string) []int {
		var out []int
		for c := 0; c <= n; c++ {
			var ck string
			if c == n {
				ck = "ew"
			} else {
				ck = kinds[c]
			}
			if c06IsErrdef(from) && c06IsErrdef(ck) && c >= i {
				continue
			}
			if c06IsValue(from) && c06IsValue(ck) && c >= i {
				continue
			}
			out = append(out, c)
		}
		return out
	}
	for i := 0; i < n; i++ {
		k := kinds[i]
		al := allowed(i, k)
		var cs []int
		pick := func() int { return Pick(r, al) }
		switch {
		case k == "np" || k == "nq" || k == "en":
		case k == "ew":
			if len(al) == 0 {
				k = "pm"
				kinds[i] = k
			} else {
				cs = []int{pick()}
			}
		case k == "ej":
			if len(al) == 0 {
				k = "pm"
				kinds[i] = k
			} else {
				cnt := 1 + r.Intn(3)
				for j := 0; j < cnt; j++ {
					if r.Chance(1, 8) {
						cs = append(cs, -1)
					} else {
						cs = append(cs, pick())
					}
				}
				cs = append(cs, pick()) // at least one non-nil argument
			}
		case c06IsSingle(k):
			if len(al) > 0 && !r.Chance(1, 5) {
				cs = []int{pick()}
			} else if r.Chance(1, 2) {
				cs = []int{-1}
			}
		default:
			cnt := []int{0, 1, 2, 2, 2, 3}[r.Intn(6)]
			for j := 0; j < cnt && len(al) > 0; j++ {
				if r.Chance(1, 8) {
					cs = append(cs, -1)
				} else {
					cs = append(cs, pick())
				}
			}
		}
		d.Nodes = append(d.Nodes, c06Node{Kind: k, Causes: cs})
	}
	// the kinds may have been patched after [allowed] looked at them only for larger indices: revalidate below
	// receiver
	inner := make([]int, n)
	for i := range inner {
		inner[i] = i
	}
	if r.Chance(1, 16) {
		d.Nodes = append(d.Nodes, c06Node{Kind: "en"}) // D.New: no causes, UnwrapTreeFrom says (nil, false)
	} else if r.Chance(1, 2) {
		d.Nodes = append(d.Nodes, c06Node{Kind: "ew", Causes: []int{Pick(r, inner)}})
	} else {
		cnt := 2 + r.Intn(2)
		var cs []int
		for j := 0; j < cnt; j++ {
			if r.Chance(1, 10) {
				cs = append(cs, -1)
			} else {
				cs = append(cs, Pick(r, inner))
			}
		}
		cs = append(cs, Pick(r, inner))
		d.Nodes = append(d.Nodes, c06Node{Kind: "ej", Causes: cs})
	}
	d.Recv = n
	d.Break = 1 + r.Intn(6)
	return d
}

func genC06(r *Rng, tier string) []Case {
	// Generated graphs satisfy the guard G, on which buildNode terminates.  If a changed
	// buildNode recurses without bound the process dies with a fatal stack overflow (not
	// recoverable); a smaller stack limit makes that quick, and bin/check reports the dead
	// harness as a broken correspondence.
	debug.SetMaxStack(256 << 20)
	var out []Case
	skipped := 0
	maxTree := 400
	emit := func(d c06Desc) {
		c, ok := runC06(d, maxTree)
		if !ok {
			skipped++
			return
		}
		out = append(out, c)
	}
	// 1. exhaustive small scopes
	maxN, maxNR := 3, 2
	if tier == "thorough" {
		maxN, maxNR = 4, 3
	}
	for n := 1; n <= maxN; n++ {
		c06Exhaustive(n, false, fmt.Sprintf("exhaustive-%d-pointer-nodes", n), emit)
	}
	for n := 1; n <= maxNR; n++ {
		c06Exhaustive(n, true, fmt.Sprintf("exhaustive-%d-pointer-nodes-and-receiver", n), emit)
	}
	// receivers and inner nodes without causes (D.New)
	for _, d := range []c06Desc{
		{Nodes: []c06Node{{Kind: "en"}}, Recv: 0},
		{Nodes: []c06Node{{Kind: "ps", Causes: []int{1}}, {Kind: "en"}}, Recv: 1},
		{Nodes: []c06Node{{Kind: "en"}, {Kind: "ew", Causes: []int{0}}}, Recv: 1},
		{Nodes: []c06Node{{Kind: "en"}, {Kind: "pm", Causes: []int{0, -1, 0}}, {Kind: "ej", Causes: []int{1, 0, -1}}}, Recv: 2},
	} {
		d.Class, d.Break = "errdef-leaf", 1
		emit(d)
	}
	nExh := len(out)
	// 2. random graphs up to 8 nodes, mixed kinds, errdef nodes inside
	nr := 600
	if tier == "thorough" {
		nr = 20000
	}
	for i := 0; i < nr; i++ {
		n := 2 + i*7/nr
		if n > 8 {
			n = 8
		}
		d := c06Random(r, n, nil)
		if !c06Valid(d) {
			skipped++
			continue
		}
		emit(d)
	}
	nRand := len(out) - nExh
	// 3. outside the guard G: typed nil pointers (key 0 = the marker slot, F3) ...
	nilTag := []string{"typed-nil-pointer-key-0"}
	fixedNil := []c06Desc{
		{Nodes: []c06Node{{Kind: "np"}, {Kind: "ew", Causes: []int{0}}}, Recv: 1},
		{Nodes: []c06Node{{Kind: "nq"}, {Kind: "ew", Causes: []int{0}}}, Recv: 1},
		{Nodes: []c06Node{{Kind: "ps"}, {Kind: "np"}, {Kind: "ej", Causes: []int{0, 1}}}, Recv: 2},
		{Nodes: []c06Node{{Kind: "pm", Causes: []int{1, 2}}, {Kind: "np"}, {Kind: "ps", Causes: []int{0}}, {Kind: "ew", Causes: []int{0}}}, Recv: 3},
		{Nodes: []c06Node{{Kind: "pm", Causes: []int{2, 1}}, {Kind: "nq"}, {Kind: "ps", Causes: []int{0}}, {Kind: "ew", Causes: []int{0}}}, Recv: 3},
		{Nodes: []c06Node{{Kind: "vm", Causes: []int{1, 1}}, {Kind: "np"}, {Kind: "ew", Causes: []int{0}}}, Recv: 2},
	}
	for _, d := range fixedNil {
		d.Class, d.Tags, d.Break = "typed-nil-pointer", nilTag, 1
		emit(d)
	}
	nx := 12
	if tier == "thorough" {
		nx = 300
	}
	for i := 0; i < nx; i++ {
		d := c06Random(r, 2+i%5, [][]string{{"np"}, {"nq"}, {"np", "nq"}}[i%3])
		d.Class, d.Tags = "typed-nil-pointer", nilTag
		if c06Valid(d) {
			emit(d)
		}
	}
	// ... and pointers to distinct zero-size types (one address, K5)
	zTag := []string{"zero-size-pointer-alias"}
	fixedZ := []c06Desc{
		{Nodes: []c06Node{{Kind: "za", Causes: []int{1}}, {Kind: "zb"}, {Kind: "ew", Causes: []int{0}}}, Recv: 2},
		{Nodes: []c06Node{{Kind: "za", Causes: []int{1}}, {Kind: "zb", Causes: []int{0}}, {Kind: "ew", Causes: []int{0}}}, Recv: 2},
		{Nodes: []c06Node{{Kind: "za"}, {Kind: "zb"}, {Kind: "ej", Causes: []int{0, 1}}}, Recv: 2},
		{Nodes: []c06Node{{Kind: "za", Causes: []int{2}}, {Kind: "zb"}, {Kind: "pm", Causes: []int{1, 0}}, {Kind: "ew", Causes: []int{0}}}, Recv: 3},
		{Nodes: []c06Node{{Kind: "zb", Causes: []int{1}}, {Kind: "ps", Causes: []int{2}}, {Kind: "za"}, {Kind: "ew", Causes: []int{0}}}, Recv: 3},
	}
	for _, d := range fixedZ {
		d.Class, d.Tags, d.Break = "zero-size-pointer", zTag, 2
		emit(d)
	}
	for i := 0; i < nx; i++ {
		d := c06Random(r, 2+i%5, [][]string{{"za", "zb"}, {"zb", "za"}}[i%2])
		d.Class, d.Tags = "zero-size-pointer", zTag
		if c06Valid(d) {
			emit(d)
		}
	}
	extraMeta["c06_exhaustive_cases"] = nExh
	extraMeta["c06_random_cases"] = nRand
	extraMeta["c06_outside_guard_cases"] = len(out) - nExh - nRand
	extraMeta["c06_skipped_invalid_or_tree_over_400_nodes"] = skipped
	return out
}
