package main

import (
	"encoding/json"
	"errors"
	"fmt"
	"io"
	"math"
	"reflect"
	"strings"
	"time"

	"github.com/shiwano/errdef"
	"github.com/shiwano/errdef/resolver"
	"github.com/shiwano/errdef/unmarshaler"
)

// keys whose values survive a JSON round trip (no duplicate names among them)
var c09Keys = []int{0, 2, 15, 24, 14, 22, 26, 13, 4, 12, 21, 23, 16, 7, 28}

const keyLogLevel = 40
const keyHTTPStatus = 41

type c09Desc struct {
	Prog    []PStmt `json:"prog"`
	Default bool    `json:"default"` // use a DefaultResolver (lenient)
	Builtin bool    `json:"builtin"`
	Strict  bool    `json:"strict"`
	RegRev  bool    `json:"regrev"` // register the definitions in reverse order
}

func init() {
	register(&Prop{
		ID: "C09", Imports: "Base.Str Model.Core Model.Prog Model.Json Model.Convert Model.Unmarshal Model.Decode Check.UM Check.C09", Module: "C09",
		Rule:      "an errdef error with a field, a stack frame or a cause is round-tripped; distinct by Coq term",
		ShardSize: 25,
		Gen: func(r *Rng, tier string) []Case {
			n := 200
			if tier == "thorough" {
				n = 5000
			}
			var out []Case
			// corpus (minimised inputs of earlier failures / seeded changes, run before the random programs):
			// foreign causes whose MESSAGE equals a registered kind - a leaf, a wrapper around a leaf, a
			// custom single/multi unwrapper - must come back as foreign causes, never as the definition
			for _, strict := range []bool{false, true} {
				for _, ty := range []string{"errors", "leaf"} {
					out = append(out, runC09(c09Desc{Strict: strict, Prog: []PStmt{
						{T: "define", Kind: "kind1", Opts: []POpt{{T: "notrace"}}}, {T: "define", Kind: "kind2"},
						{T: "leaf", Msg: "kind1", Ty: ty}, {T: "wrap", F: 1, C: ip(0)},
						{T: "single", Msg: "kind2", C: ip(0)}, {T: "join", F: 0, Cs: []*int{ip(2), nil, ip(0)}},
						{T: "new", F: 0, Msg: "kind2"}, {T: "wrap", F: 1, C: ip(4)}}}))
				}
			}
			for i := 0; i < n; i++ {
				cfg := p1Cfg{MaxStmts: 6 + i*8/n, Keys: c09Keys, Trace: i%3 == 0, JSONSafe: true}
				p := genProgFields(r, cfg)
				// unique non-empty kinds for the Define statements
				k := 0
				for j := range p {
					if p[j].T == "define" {
						k++
						p[j].Kind = fmt.Sprintf("kind%d", k)
						if cfg.Trace {
							p[j].Opts = append(p[j].Opts, POpt{T: "depth", N: 1 + r.Intn(2)})
						}
					}
					// no empty messages on foreign errors inside Dom9
					if (p[j].T == "leaf" || p[j].T == "single" || p[j].T == "multi" || p[j].T == "new") && p[j].Msg == "" {
						p[j].Msg = "m0"
						if r.Chance(1, 2) {
							p[j].Msg = "kind1" // a foreign message that collides with a registered kind
						}
					}
				}
				// the values of the known findings K9 / K10 only where they are put deliberately (below)
				for j := range p {
					for oi, o := range p[j].Opts {
						if o.T == "field" && ((o.Key == 13 && (o.Val == maxF32Value(true) || o.Val == maxF32Value(false))) || (o.Key == 26 && o.Val == nilSliceValue())) {
							p[j].Opts[oi].Val = valuesFor(keyPool[o.Key], valuePool())[0]
						}
					}
				}
				d := c09Desc{Prog: p, Builtin: r.Chance(1, 3), Strict: r.Chance(1, 3), RegRev: r.Bool()}
				switch r.Intn(20) {
				case 0: // K2: a built-in field whose JSON form is produced by MarshalText
					d.Builtin = true
					d.Prog[0].Opts = append(d.Prog[0].Opts, POpt{T: "field", Key: keyLogLevel, Val: valuesFor(keyPool[keyLogLevel], valuePool())[0]})
				case 1: // built-in field that does round-trip
					d.Builtin = true
					d.Prog[0].Opts = append(d.Prog[0].Opts, POpt{T: "field", Key: keyHTTPStatus, Val: 3})
				case 2: // K3
					d.Default, d.Strict = true, false
				case 6, 7: // a DefaultResolver in STRICT mode never falls back: no finding, everything round-trips
					d.Default, d.Strict = true, true
				case 5: // K10: a field whose value marshals as JSON null
					d.Prog[0].Opts = append(d.Prog[0].Opts, POpt{T: "field", Key: 26, Val: nilSliceValue()})
				case 4: // K9: a float32 field holding +-MaxFloat32
					d.Prog[0].Opts = append(d.Prog[0].Opts, POpt{T: "field", Key: 13, Val: maxF32Value(r.Bool())})
				case 3: // K4: a foreign cause with an empty message
					d.Prog = append(d.Prog, PStmt{T: "leaf", Msg: "", Ty: "leaf"}, PStmt{T: "wrap", F: 0, C: ip(len(errStmts(d.Prog)))})
				}
				out = append(out, runC09(d))
			}
			return out
		},
		Replay: func(raw json.RawMessage) ([]Case, error) {
			var d c09Desc
			if err := json.Unmarshal(raw, &d); err != nil {
				return nil, err
			}
			return []Case{runC09(d)}, nil
		},
	})
}

// c09Options: the registration options of the unmarshaler, on two fixed round trips
var (
	c09OptDef   = errdef.Define("c09-options", errdef.StackDepth(1))
	c09SentA    = errors.New("c09 sentinel a")
	c09SentB    = &leafErr{msg: "c09 sentinel b"}
	c09SentHost = errdef.Define("c09-sentinel-host", errdef.NoTrace())
)

func c09Options(strict bool) (ok bool, note string) {
	ok = true
	defer func() {
		if p := recover(); p != nil {
			ok, note = false, fmt.Sprintf("options round trip panicked: %v", p)
		}
	}()
	fail := func(format string, a ...any) { ok = false; note += fmt.Sprintf(format, a...) + "; " }
	// 1. every built-in field (LogLevel is finding K2)
	det := errdef.Details{"k": "v", "n": 1.5}
	e := c09OptDef.WithOptions(errdef.HTTPStatus(404), errdef.TraceID("trace-1"), errdef.Domain("dom"), errdef.UserHint("hint"),
		errdef.Public(), errdef.Retryable(), errdef.RetryAfter(3*time.Second), errdef.Unreportable(), errdef.ExitCode(3),
		errdef.HelpURL("http://h/x"), det).New("all builtins")
	b, err := json.Marshal(e)
	if err != nil {
		fail("marshal: %v", err)
		return
	}
	uopts := []unmarshaler.Option{unmarshaler.WithBuiltinFields()}
	if strict {
		uopts = append(uopts, unmarshaler.WithStrictMode())
	}
	r, err := unmarshaler.NewJSON(resolver.New(c09OptDef), uopts...).Unmarshal(b)
	if err != nil {
		fail("builtin round trip (strict=%v): %v", strict, err)
	} else {
		same := func(name string, a, b any, oka, okb bool) {
			if oka != okb || !reflect.DeepEqual(a, b) {
				fail("%s: %v,%v -> %v,%v", name, a, oka, b, okb)
			}
		}
		a1, o1 := errdef.HTTPStatusFrom(e)
		a2, o2 := errdef.HTTPStatusFrom(r)
		same("http_status", a1, a2, o1, o2)
		s1, p1 := errdef.TraceIDFrom(e)
		s2, p2 := errdef.TraceIDFrom(r)
		same("trace_id", s1, s2, p1, p2)
		s1, p1 = errdef.DomainFrom(e)
		s2, p2 = errdef.DomainFrom(r)
		same("domain", s1, s2, p1, p2)
		s1, p1 = errdef.UserHintFrom(e)
		s2, p2 = errdef.UserHintFrom(r)
		same("user_hint", s1, s2, p1, p2)
		s1, p1 = errdef.HelpURLFrom(e)
		s2, p2 = errdef.HelpURLFrom(r)
		same("help_url", s1, s2, p1, p2)
		same("public", errdef.IsPublic(e), errdef.IsPublic(r), true, true)
		same("retryable", errdef.IsRetryable(e), errdef.IsRetryable(r), true, true)
		same("unreportable", errdef.IsUnreportable(e), errdef.IsUnreportable(r), true, true)
		d1, q1 := errdef.RetryAfterFrom(e)
		d2, q2 := errdef.RetryAfterFrom(r)
		same("retry_after", d1, d2, q1, q2)
		c1, r1 := errdef.ExitCodeFrom(e)
		c2, r2 := errdef.ExitCodeFrom(r)
		same("exit_code", c1, c2, r1, r2)
		m1, t1 := errdef.DetailsFrom(e)
		m2, t2 := errdef.DetailsFrom(r)
		same("details", map[string]any(m1), map[string]any(m2), t1, t2)
		for range r.UnknownFields() {
			fail("a built-in field came back unknown")
		}
	}
	// 2. several sentinel options
	j := c09SentHost.Join(io.EOF, c09SentA, c09SentB)
	b, err = json.Marshal(j)
	if err != nil {
		fail("marshal join: %v", err)
		return
	}
	sopts := []unmarshaler.Option{unmarshaler.WithStandardSentinelErrors(), unmarshaler.WithSentinelErrors(c09SentA), unmarshaler.WithSentinelErrors(c09SentB)}
	if strict {
		sopts = append(sopts, unmarshaler.WithStrictMode())
	}
	rj, err := unmarshaler.NewJSON(resolver.New(c09SentHost), sopts...).Unmarshal(b)
	if err != nil {
		fail("sentinel round trip: %v", err)
	} else {
		for _, s := range []error{io.EOF, c09SentA, c09SentB} {
			if !errors.Is(rj, s) {
				fail("errors.Is(restored, %v) lost", s)
			}
		}
	}
	return
}

// nilSliceValue: pool index of []int(nil)
func nilSliceValue() int {
	for i, v := range valuePool() {
		if s, ok := v.V.([]int); ok && s == nil {
			return i
		}
	}
	panic("no nil slice in the value pool")
}

// maxF32Value: pool index of float32(+-MaxFloat32)
func maxF32Value(neg bool) int {
	for i, v := range valuePool() {
		if f, ok := v.V.(float32); ok && ((neg && f == -math.MaxFloat32) || (!neg && f == math.MaxFloat32)) {
			return i
		}
	}
	panic("no MaxFloat32 in the value pool")
}

// errStmts counts the statements that add to the error pool.
func errStmts(p []PStmt) []int {
	var out []int
	for i, s := range p {
		switch s.T {
		case "define", "ctx", "with", "withopts":
		default:
			out = append(out, i)
		}
	}
	return out
}

type c09World struct {
	*world
	reg       []errdef.Definition
	regPool   []int // pool index of each registered definition
	sentinels []error
	um        *unmarshaler.Unmarshaler[[]byte]
	custom    []keyEntry
}

func shapeCoq(e error, depth int) string {
	if depth > 30 {
		return "(Sh \"<deep>\" \"\" [])"
	}
	ty := ""
	if _, ok := e.(errdef.Error); !ok {
		if tn, ok := e.(interface{ TypeName() string }); ok {
			ty = tn.TypeName()
		} else {
			ty = fmt.Sprintf("%T", e)
		}
	}
	var kids []string
	switch u := e.(type) {
	case interface{ Unwrap() error }:
		if c := u.Unwrap(); c != nil {
			kids = append(kids, shapeCoq(c, depth+1))
		}
	case interface{ Unwrap() []error }:
		for _, c := range u.Unwrap() {
			if c != nil {
				kids = append(kids, shapeCoq(c, depth+1))
			}
		}
	}
	return fmt.Sprintf("(Sh %s %s %s)", cStr(e.Error()), cStr(ty), cList(kids))
}

func (w *c09World) snapCoq(e errdef.Error) string {
	var is, sent, ext []string
	for _, d := range w.reg {
		is = append(is, cBool(errors.Is(e, d)))
	}
	for _, s := range w.sentinels {
		sent = append(sent, cBool(errors.Is(e, s)))
	}
	keys := append([]int{}, c09Keys...)
	keys = append(keys, keyLogLevel, keyHTTPStatus)
	for _, ki := range keys {
		v, ok := keyPool[ki].Ext(e)
		ext = append(ext, fmt.Sprintf("(%s, %s)", cBool(ok), cStr(reprOf(v))))
	}
	var tree []string
	for _, c := range e.Unwrap() {
		if c != nil {
			tree = append(tree, shapeCoq(c, 0))
		}
	}
	return fmt.Sprintf("{| sn_msg := %s; sn_kind := %s; sn_is := %s; sn_sent := %s; sn_ext := %s; sn_frames := %s; sn_tree := %s |}",
		cStr(e.Error()), cStr(string(e.Kind())), cList(is), cList(sent), cList(ext), coqFrameList(e.Stack().Frames()), cList(tree))
}

func runC09(d c09Desc) Case {
	w := &c09World{world: newWorld()}
	panics := w.run(d.Prog)
	// registered definitions: the Define statements, in pool order (or reversed)
	di := 0
	for _, s := range d.Prog {
		switch s.T {
		case "define":
			w.reg = append(w.reg, w.defs[di].(errdef.Definition))
			w.regPool = append(w.regPool, di)
			di++
		case "with", "withopts":
			di++
		}
	}
	if d.RegRev {
		for i, j := 0, len(w.reg)-1; i < j; i, j = i+1, j-1 {
			w.reg[i], w.reg[j] = w.reg[j], w.reg[i]
			w.regPool[i], w.regPool[j] = w.regPool[j], w.regPool[i]
		}
	}
	// sentinels: the distinct foreign leaf errors of the pool
	seenS := map[string]bool{}
	for _, e := range w.errs {
		if e == nil {
			continue
		}
		if _, ok := e.(*leafErr); !ok && fmt.Sprintf("%T", e) != "*errors.errorString" {
			continue
		}
		k := fmt.Sprintf("%T|%s", e, e.Error())
		if !seenS[k] {
			seenS[k] = true
			w.sentinels = append(w.sentinels, e)
		}
	}
	// ... and cause-less twins of foreign wrappers (same type and message as a wrapper that
	// occurs in some tree WITH a cause): a node with nested causes is never the sentinel
	for _, e := range w.errs {
		if se, ok := e.(*singleErr); ok && se.cause != nil {
			k := fmt.Sprintf("%T|%s", e, e.Error())
			if !seenS[k] {
				seenS[k] = true
				w.sentinels = append(w.sentinels, &singleErr{msg: se.msg})
			}
		}
	}
	var res resolver.Resolver = resolver.New(w.reg...)
	dfltIdx := -1
	if d.Default && len(w.reg) > 0 {
		dfltIdx = 0
		res = resolver.New(w.reg...).WithDefault(w.reg[0])
	}
	var opts []unmarshaler.Option
	var ck []errdef.FieldKey
	for _, ki := range c09Keys {
		ck = append(ck, keyPool[ki].Key)
		w.custom = append(w.custom, keyPool[ki])
	}
	opts = append(opts, unmarshaler.WithCustomFields(ck...))
	if d.Builtin {
		opts = append(opts, unmarshaler.WithBuiltinFields())
		w.custom = append(w.custom, builtinKeys...)
	}
	if d.Strict {
		opts = append(opts, unmarshaler.WithStrictMode())
	}
	if len(w.sentinels) > 0 {
		opts = append(opts, unmarshaler.WithSentinelErrors(w.sentinels...))
	}
	w.um = unmarshaler.NewJSON(res, opts...)

	// candidate target types for the JSON oracle tables
	var targets []reflect.Type
	seenT := map[reflect.Type]bool{}
	addT := func(k keyEntry) {
		if k.StaticType != nil && !seenT[k.StaticType] {
			seenT[k.StaticType] = true
			targets = append(targets, k.StaticType)
		}
	}
	var udefs []string
	for i, dd := range w.reg {
		var ks []string
		for fk := range dd.Fields().All() {
			if ke, ok := entryForKey(fk); ok {
				ks = append(ks, ukeyCoq(ke))
				addT(ke)
			}
		}
		udefs = append(udefs, fmt.Sprintf("{| ud_def := (define %s %s %s [ONoTrace]); ud_keys := %s |}", cN(1000+i), cNat(i), cStr(string(dd.Kind())), cList(ks)))
	}
	var custom []string
	for _, k := range w.custom {
		custom = append(custom, ukeyCoq(k))
		addT(k)
	}
	var sents []string
	for i, s := range w.sentinels {
		sents = append(sents, fmt.Sprintf("(%s, %s, %s)", cStr(fmt.Sprintf("%T", s)), cStr(s.Error()), cN(i)))
	}
	dflt := "None"
	if dfltIdx >= 0 {
		dflt = "(Some " + udefs[dfltIdx] + ")"
	}
	cfgCoq := fmt.Sprintf("{| u_defs := %s; u_default := %s; u_strict := %s; u_custom := %s; u_sentinels := %s |}",
		cList(udefs), dflt, cBool(d.Strict), cList(custom), cList(sents))

	// observation world for the restored errors (reuses the unmarshaler checks' printers)
	uw := &umWorld{defs: w.reg, sents: w.sentinels}
	vtab := map[string]string{}
	var obs []string
	var tags []string
	nontrivial := false
	for i, e := range w.errs {
		de, ok := e.(errdef.Error)
		if !ok {
			continue
		}
		if _, isDef := e.(errdef.Definition); isDef {
			continue
		}
		func() {
			defer func() {
				if pv := recover(); pv != nil {
					panics = append(panics, fmt.Sprintf("round trip panicked: %v", pv))
					obs = append(obs, fmt.Sprintf("({| o_subject := %s; o_class := \"panic\"; o_orig := %s; o_rest := None; o_orerr := None |}, [])", cNat(i), w.snapCoq(de)))
				}
			}()
			orig := w.snapCoq(de)
			b, err := json.Marshal(de)
			if err != nil {
				obs = append(obs, fmt.Sprintf("({| o_subject := %s; o_class := \"marshal-error\"; o_orig := %s; o_rest := None; o_orerr := None |}, [])", cNat(i), orig))
				return
			}
			// the harness's replica of the decoder: value table and <unknown> oracle strings
			var dec unmarshaler.DecodedData
			var unks []string
			if json.Unmarshal(b, &dec) == nil {
				collectVtab(&dec, targets, vtab, &unks)
			}
			var uc []string
			for _, u := range unks {
				uc = append(uc, cStr(u))
			}
			r, err := w.um.Unmarshal(b)
			if err != nil {
				class := "none"
				for j, t := range []error{unmarshaler.ErrDecodeFailure, unmarshaler.ErrUnknownKind, unmarshaler.ErrUnknownField, unmarshaler.ErrInternal} {
					if errors.Is(err, t) {
						class = []string{"decode_failure", "unknown_kind", "unknown_field", "internal"}[j]
					}
				}
				obs = append(obs, fmt.Sprintf("({| o_subject := %s; o_class := %s; o_orig := %s; o_rest := None; o_orerr := None |}, %s)", cNat(i), cStr(class), orig, cList(uc)))
				return
			}
			if de.Fields().Len() > 0 || de.Stack().Len() > 0 || len(de.Unwrap()) > 0 {
				nontrivial = true
			}
			obs = append(obs, fmt.Sprintf("({| o_subject := %s; o_class := \"ok\"; o_orig := %s; o_rest := (Some %s); o_orerr := (Some %s) |}, %s)",
				cNat(i), orig, w.snapCoq(r), uw.orerrCoq(r), cList(uc)))
		}()
	}
	var vt []string
	for raw, dv := range vtab {
		vt = append(vt, fmt.Sprintf("(%s, %s)", cStr(raw), dv))
	}
	sortStrings(vt)
	// tags: the three classes outside Dom9 that are known findings
	for _, s := range d.Prog {
		for _, o := range s.Opts {
			if o.T == "field" && o.Key == keyLogLevel {
				tags = append(tags, "textmarshaler-field")
			}
		}
		if (s.T == "leaf" || s.T == "single" || s.T == "multi") && s.Msg == "" {
			tags = append(tags, "empty-message-cause")
		}
	}
	if d.Default && !d.Strict {
		tags = append(tags, "default-resolver-kindless-cause")
	}
	for _, s := range d.Prog {
		for _, o := range s.Opts {
			if o.T == "field" && o.Key == 13 && (o.Val == maxF32Value(true) || o.Val == maxF32Value(false)) {
				tags = append(tags, "float32-maxfloat32-roundtrip")
			}
			if o.T == "field" && o.Key == 26 && o.Val == nilSliceValue() {
				tags = append(tags, "null-valued-field")
			}
		}
	}
	optsOK, optsNote := c09Options(d.Strict)
	if !optsOK {
		panics = append(panics, optsNote)
	}
	coq := fmt.Sprintf("{| c_prog := %s; c_cfg := %s; c_vtab := %s; c_obs := %s; c_options := %s |}", w.coqProg(), cfgCoq, cList(vt), cList(obs), cBool(optsOK))
	o := fmt.Sprintf("%d round trips", len(obs))
	if len(panics) > 0 {
		o += fmt.Sprintf("; PANICS: %v", panics)
	}
	cls := "dom9"
	if len(tags) > 0 {
		cls = tags[0]
	}
	return Case{Coq: strings.ReplaceAll(coq, "\n", " "), Desc: mustJSON(d), Tags: tags, Size: len(d.Prog),
		Nontrivial: nontrivial, Class: cls, Summary: fmt.Sprintf("default=%v builtin=%v strict=%v rev=%v %s", d.Default, d.Builtin, d.Strict, d.RegRev, progSummary(d.Prog)), Observed: o}
}

// collectVtab records, for every field value of the decoded document, its JSON text and
// its dval; and the "<unknown: %+v>" rendering of every node with an empty message, in pre-order.
func collectVtab(d *unmarshaler.DecodedData, targets []reflect.Type, vtab map[string]string, unks *[]string) {
	if d == nil {
		return
	}
	if d.Message == "" {
		*unks = append(*unks, maskAddrs(fmt.Sprintf("<unknown: %+v>", d)))
	}
	for _, v := range d.Fields {
		vtab[canonJSON(v)] = dvalCoq(v, targets)
	}
	for _, c := range d.Causes {
		collectVtab(c, targets, vtab, unks)
	}
}

// entryForKey finds the pool entry of a field key; built-in keys first (two of them also
// sit in keyPool so that programs can set them).
func entryForKey(fk errdef.FieldKey) (keyEntry, bool) {
	for _, k := range builtinKeys {
		if k.Key == fk {
			return k, true
		}
	}
	for _, k := range keyPool {
		if k.Key == fk {
			return k, true
		}
	}
	return keyEntry{}, false
}
