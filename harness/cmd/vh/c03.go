package main

import (
	"encoding/json"
	"fmt"
	"strings"

	"github.com/shiwano/errdef"
)

func init() {
	register(&Prop{
		ID: "C03", Imports: "Base.Str Model.Core Model.Prog Check.C03", Module: "C03",
		Rule:      "some key is written at least twice along one derivation (Define/context/With), or an errdef layer sits beneath another carrier; distinct by Coq term",
		ShardSize: 40,
		Gen: func(r *Rng, tier string) []Case {
			n := 200
			if tier == "thorough" {
				n = 5000
			}
			var out []Case
			for i := 0; i < n; i++ {
				cfg := p1Cfg{MaxStmts: 6 + i*12/n, Keys: p1Keys, Trace: i%3 == 0}
				out = append(out, runC03(genProgFields(r, cfg)))
			}
			return out
		},
		Replay: func(d json.RawMessage) ([]Case, error) {
			var desc p1Desc
			if err := json.Unmarshal(d, &desc); err != nil {
				return nil, err
			}
			return []Case{runC03(desc.Prog)}, nil
		},
	})
}

// genProgFields is genProg biased towards option-heavy derivations: nested
// contexts, derivation chains, overwrites.
func genProgFields(r *Rng, cfg p1Cfg) []PStmt {
	pool := valuePool()
	p := []PStmt{{T: "define", Kind: Pick(r, p1Kinds), Opts: append(genOpts(r, cfg, pool, 4), POpt{T: "notrace"})}}
	if cfg.Trace {
		p[0].Opts = genOpts(r, cfg, pool, 4)
	}
	nd, nc := 1, 0
	for k := 0; k < 2+r.Intn(4); k++ {
		switch r.Intn(3) {
		case 0:
			var parent *int
			if nc > 0 && r.Chance(2, 3) {
				parent = ip(r.Intn(nc))
			}
			p = append(p, PStmt{T: "ctx", Parent: parent, Opts: genOpts(r, cfg, pool, 3)})
			nc++
		case 1:
			var ctx *int
			if nc > 0 && r.Chance(3, 4) {
				ctx = ip(r.Intn(nc))
			}
			p = append(p, PStmt{T: "with", D: r.Intn(nd), Ctx: ctx, Opts: genOpts(r, cfg, pool, 3)})
			nd++
		default:
			p = append(p, PStmt{T: "withopts", D: r.Intn(nd), Opts: genOpts(r, cfg, pool, 3)})
			nd++
		}
	}
	if r.Chance(1, 2) {
		// a context tree: a chain, then siblings of its last link, then one With per
		// sibling - created only after all siblings exist
		var parent *int
		for depth := 0; depth < 2+r.Intn(3); depth++ {
			p = append(p, PStmt{T: "ctx", Parent: parent, Opts: forceOpts(r, cfg, pool, 1+r.Intn(2))})
			parent = ip(nc)
			nc++
		}
		first := nc
		for sib := 0; sib < 2+r.Intn(2); sib++ {
			p = append(p, PStmt{T: "ctx", Parent: parent, Opts: forceOpts(r, cfg, pool, 1)})
			nc++
		}
		for c := first; c < nc; c++ {
			p = append(p, PStmt{T: "with", D: r.Intn(nd), Ctx: ip(c), Opts: genOpts(r, cfg, pool, 1)})
			nd++
			p = append(p, PStmt{T: "new", F: nd - 1, Msg: "m"})
		}
	}
	if r.Chance(1, 2) {
		// a cause TREE whose branches hold their first errdef layer at different depths and
		// (mostly) carry the same keys with different values: extractors must answer from the
		// layer errors.As finds first (depth-first, left to right), not from the shallowest one
		ne := 0
		for _, st := range p {
			if st.T == "new" {
				ne++
			}
		}
		var branches []*int
		var first []POpt
		for b := 0; b < 2+r.Intn(2); b++ {
			opts := forceOpts(r, cfg, pool, 1+r.Intn(2))
			if b == 0 {
				first = opts
			} else {
				for _, o := range first {
					if r.Chance(2, 3) {
						opts = append(opts, POpt{T: "field", Key: o.Key, Val: Pick(r, safeValuesFor(cfg, keyPool[o.Key], pool))})
					}
				}
			}
			p = append(p, PStmt{T: "define", Kind: Pick(r, p1Kinds), Opts: append(opts, POpt{T: "notrace"})})
			nd++
			if b == 0 && r.Chance(1, 3) {
				// the first errdef layer is the DEFINITION itself used as an error value (not a *definedError):
				// extractors answer from its fields, not from the live errors of the later branches
				p = append(p, PStmt{T: "defaserr", D: nd - 1})
			} else {
				p = append(p, PStmt{T: "new", F: nd - 1, Msg: Pick(r, p1Msgs)})
			}
			ne++
			depth := r.Intn(3)
			if b == 0 {
				depth = 1 + r.Intn(2) // the leftmost branch is never the shallowest
			}
			for w := 0; w < depth; w++ {
				if r.Chance(1, 2) {
					p = append(p, PStmt{T: "fmterrorf", Msg: Pick(r, p1Msgs), C: ip(ne - 1)})
				} else {
					p = append(p, PStmt{T: "single", Msg: Pick(r, p1Msgs), C: ip(ne - 1)})
				}
				ne++
			}
			branches = append(branches, ip(ne-1))
		}
		switch r.Intn(3) {
		case 0:
			p = append(p, PStmt{T: "errorsjoin", Cs: branches})
		case 1:
			p = append(p, PStmt{T: "multi", Msg: Pick(r, p1Msgs), Cs: branches})
		default:
			p = append(p, PStmt{T: "join", F: 0, Cs: branches})
		}
		ne++
		if r.Chance(1, 2) {
			p = append(p, PStmt{T: "fmterrorf", Msg: Pick(r, p1Msgs), C: ip(ne - 1)})
		}
	}
	rest := genProg(r, cfg)
	// shift nothing: the random tail refers to pools from index 0, which exist
	return append(p, rest...)
}

func reprOf(v any) string { return fmt.Sprintf("%T:%#v", v, v) }

// a default value per key type, different from every pool value's zero
func defaultFor(k keyEntry, pool []gval) any {
	vs := valuesFor(k, pool)
	return pool[vs[len(vs)-1]].V
}

func runC03(p []PStmt) Case {
	w := newWorld()
	panics := w.run(p)
	pool := w.pool
	var keys []string
	for _, ki := range p1Keys {
		k := keyPool[ki]
		d := defaultFor(k, pool)
		keys = append(keys, fmt.Sprintf("(%s, %s, %s)", coqKey(k), cStr(reprOf(k.Zero)), cStr(reprOf(d))))
	}
	var obs []string
	layered := false
	for _, e := range w.errs {
		if e == nil {
			obs = append(obs, "None")
			continue
		}
		func() {
			defer func() {
				if pv := recover(); pv != nil {
					panics = append(panics, fmt.Sprintf("observer: %v", pv))
					obs = append(obs, "None")
				}
			}()
			var ext []string
			for _, ki := range p1Keys {
				k := keyPool[ki]
				d := defaultFor(k, pool)
				v, ok := k.Ext(e)
				wf := k.WithForms(e, d)
				oz, od, of := k.OrZero(e), k.OrDefault(e, d), k.OrFallback(e, d)
				agree := reprOf(wf[0]) == reprOf(oz) && reprOf(wf[1]) == reprOf(od) && reprOf(wf[2]) == reprOf(of)
				ext = append(ext, fmt.Sprintf("(%s, %s, %s, %s, %s, %s)", cBool(ok), cStr(reprOf(v)), cStr(reprOf(oz)), cStr(reprOf(od)), cStr(reprOf(of)), cBool(agree)))
			}
			kind := "None"
			if k, ok := errdef.KindFrom(e); ok {
				kind = "(Some " + cStr(string(k)) + ")"
			}
			flds := "None"
			if fs, ok := errdef.FieldsFrom(e); ok {
				var items []string
				for fk, fv := range fs.All() {
					id := -1
					for _, ke := range keyPool {
						if ke.Key == fk {
							id = ke.ID
						}
					}
					items = append(items, fmt.Sprintf("(%s, %s)", cN(id), cStr(reprOf(fv.Value()))))
				}
				flds = "(Some " + cList(items) + ")"
			}
			stk := "None"
			if s, ok := errdef.StackFrom(e); ok {
				stk = "(Some " + cNat(s.Len()) + ")"
			}
			tree := "None"
			if t, ok := errdef.UnwrapTreeFrom(e); ok {
				tree = "(Some " + cNat(len(t)) + ")"
			}
			if _, isErrdef := e.(errdef.Error); !isErrdef {
				if _, ok := errdef.KindFrom(e); ok {
					layered = true
				}
			}
			obs = append(obs, fmt.Sprintf("(Some {| o_ext := %s; o_kind := %s; o_fields := %s; o_stack := %s; o_tree := %s |})",
				cList(ext), kind, flds, stk, tree))
		}()
	}
	coq := fmt.Sprintf("{| c_prog := %s; c_keys := %s; c_obs := %s |}", w.coqProg(), cList(keys), cList(obs))
	o := fmt.Sprintf("%d errors x %d extractors", len(w.errs), len(p1Keys))
	if len(panics) > 0 {
		o += fmt.Sprintf("; PANICS: %v", panics)
	}
	// overwrite along a derivation?
	overwrite := false
	cnt := map[int]int{}
	for _, s := range p {
		for _, op := range s.Opts {
			if op.T == "field" {
				cnt[op.Key]++
				if cnt[op.Key] > 1 {
					overwrite = true
				}
			}
		}
	}
	return Case{Coq: strings.ReplaceAll(coq, "\n", " "), Desc: mustJSON(p1Desc{Prog: p}), Size: len(p),
		Nontrivial: overwrite || layered, Class: fmt.Sprintf("stmts=%d", len(p)/4*4), Summary: progSummary(p), Observed: o}
}

// forceOpts returns exactly n field options.
// safeValuesFor: the pool values of the key's type (only those json.Marshal accepts when cfg.JSONSafe)
func safeValuesFor(cfg p1Cfg, k keyEntry, pool []gval) []int {
	vs := valuesFor(k, pool)
	if cfg.JSONSafe {
		var safe []int
		for _, v := range vs {
			if _, err := json.Marshal(pool[v].V); err == nil {
				safe = append(safe, v)
			}
		}
		vs = safe
	}
	return vs
}

func forceOpts(r *Rng, cfg p1Cfg, pool []gval, n int) []POpt {
	var out []POpt
	for len(out) < n {
		k := Pick(r, cfg.Keys)
		vs := safeValuesFor(cfg, keyPool[k], pool)
		out = append(out, POpt{T: "field", Key: k, Val: Pick(r, vs)})
	}
	return out
}
