package main

import (
	"encoding/json"
	"errors"
	"fmt"
	"strings"
)

type p1Desc struct {
	Prog []PStmt `json:"prog"`
}

func init() {
	register(&Prop{
		ID: "C01", Imports: "Base.Str Model.Core Model.Prog Check.C01", Module: "C01",
		Rule:      "program has two Define statements with one kind, or a derived factory, or an error at least two layers deep; distinct by Coq term",
		ShardSize: 60,
		Gen: func(r *Rng, tier string) []Case {
			n := 240
			if tier == "thorough" {
				n = 6000
			}
			var out []Case
			// corpus: Join with nil arguments BETWEEN and around the causes (every non-nil cause stays reachable),
			// same-kind sibling definitions, a derived factory
			nt := []POpt{{T: "notrace"}}
			out = append(out, runC01([]PStmt{
				{T: "define", Kind: "k1", Opts: nt}, {T: "define", Kind: "k1", Opts: nt}, {T: "define", Kind: "k2", Opts: nt}, {T: "withopts", D: 1},
				{T: "new", F: 0, Msg: "a"}, {T: "new", F: 1, Msg: "b"}, {T: "new", F: 3, Msg: "c"}, {T: "leaf", Msg: "l", Ty: "errors"},
				{T: "join", F: 2, Cs: []*int{ip(0), nil, ip(1)}}, {T: "join", F: 2, Cs: []*int{nil, ip(0), nil, ip(2), nil}},
				{T: "join", F: 0, Cs: []*int{ip(3), nil, nil, ip(1)}}, {T: "join", F: 2, Cs: []*int{ip(4), nil, ip(5)}},
				{T: "errorsjoin", Cs: []*int{ip(0), nil, ip(2)}}, {T: "multi", Msg: "m", Cs: []*int{ip(1), nil, ip(0)}}}))
			for i := 0; i < n; i++ {
				cfg := p1Cfg{MaxStmts: 6 + i*12/n, Keys: p1Keys, Recover: true}
				out = append(out, runC01(genProg(r, cfg)))
			}
			return out
		},
		Replay: func(d json.RawMessage) ([]Case, error) {
			var desc p1Desc
			if err := json.Unmarshal(d, &desc); err != nil {
				return nil, err
			}
			return []Case{runC01(desc.Prog)}, nil
		},
	})
}

func coqBoolMat(m [][]bool) string {
	var rows []string
	for _, r := range m {
		var cs []string
		for _, b := range r {
			cs = append(cs, cBool(b))
		}
		rows = append(rows, cList(cs))
	}
	return cList(rows)
}

func progSummary(p []PStmt) string {
	var ts []string
	for _, s := range p {
		ts = append(ts, s.T)
	}
	return strings.Join(ts, ",")
}

func progNontrivial(p []PStmt) bool {
	kinds := map[string]int{}
	derived, deep := false, false
	for _, s := range p {
		switch s.T {
		case "define":
			kinds[s.Kind]++
		case "with", "withopts":
			derived = true
		case "wrap", "wrapf", "fmterrorf", "single":
			if s.C != nil {
				deep = true
			}
		case "join", "multi", "errorsjoin":
			deep = deep || len(s.Cs) > 0
		}
	}
	for _, c := range kinds {
		if c > 1 {
			return true
		}
	}
	return derived || deep
}

func runC01(p []PStmt) Case {
	w := newWorld()
	panics := w.run(p)
	is := make([][]bool, len(w.errs))
	rev := make([][]bool, len(w.defs))
	npanic := 0
	safeIs := func(a, b error) (res bool) {
		defer func() {
			if recover() != nil {
				npanic++
			}
		}()
		return errors.Is(a, b)
	}
	for i, e := range w.errs {
		for _, d := range w.defs {
			is[i] = append(is[i], safeIs(e, d.(error)))
		}
	}
	for j, d := range w.defs {
		for _, e := range w.errs {
			rev[j] = append(rev[j], safeIs(d.(error), e))
		}
	}
	trues := 0
	for _, r := range is {
		for _, b := range r {
			if b {
				trues++
			}
		}
	}
	coq := fmt.Sprintf("{| c_prog := %s;\n   c_is := %s;\n   c_rev := %s |}", w.coqProg(), coqBoolMat(is), coqBoolMat(rev))
	obs := fmt.Sprintf("%d errs x %d defs, %d matches", len(w.errs), len(w.defs), trues)
	if len(panics) > 0 || npanic > 0 {
		obs += fmt.Sprintf("; PANICS: %v (+%d in errors.Is)", panics, npanic)
	}
	return Case{Coq: strings.ReplaceAll(coq, "\n", " "), Desc: mustJSON(p1Desc{Prog: p}), Size: len(p),
		Nontrivial: progNontrivial(p), Class: fmt.Sprintf("stmts=%d", len(p)/4*4), Summary: progSummary(p), Observed: obs}
}
