package unmarshaler_test

import (
	"encoding/json"
	"testing"

	"github.com/shiwano/errdef"
	"github.com/shiwano/errdef/resolver"
	"github.com/shiwano/errdef/unmarshaler"
)

// F16: an array-typed field ([2]int) was not restored from JSON: lenient mode left it among the unknown
// fields (the typed extractor found nothing), strict mode failed with ErrUnknownField.
func TestF16ArrayFieldRoundTrip(t *testing.T) {
	pair, pairFrom := errdef.DefineField[[2]int]("pair")
	d := errdef.Define("f16", errdef.NoTrace(), pair([2]int{0, 0}))
	b, err := json.Marshal(d.WithOptions(pair([2]int{1, 2})).New("m"))
	if err != nil {
		t.Fatal(err)
	}
	for _, strict := range []bool{false, true} {
		var opts []unmarshaler.Option
		if strict {
			opts = append(opts, unmarshaler.WithStrictMode())
		}
		r, err := unmarshaler.NewJSON(resolver.New(d), opts...).Unmarshal(b)
		if err != nil {
			t.Errorf("strict=%v: Unmarshal(%s): %v", strict, b, err)
			continue
		}
		if v, ok := pairFrom(r); !ok || v != [2]int{1, 2} {
			t.Errorf("strict=%v: extractor gives %v, %v; want [1 2], true", strict, v, ok)
		}
	}
}
