package unmarshaler_test

import (
	"testing"

	"github.com/shiwano/errdef"
	"github.com/shiwano/errdef/resolver"
	"github.com/shiwano/errdef/unmarshaler"
)

func TestF12(t *testing.T) {
	ints, _ := errdef.DefineField[[]int]("ints")
	def := errdef.Define("k3", ints([]int{1}))
	r := resolver.New(def)
	u := unmarshaler.NewJSON(r, unmarshaler.WithStrictMode())
	doc := []byte(`{"message":"top","kind":"k3","causes":[{"message":"c","kind":"k3","fields":{"ints":{"a":1},"zzz":1}}]}`)
	ok, fail := 0, 0
	for i := 0; i < 200; i++ {
		if _, err := u.Unmarshal(doc); err != nil {
			fail++
		} else {
			ok++
		}
	}
	if ok != 0 && fail != 0 {
		t.Fatalf("the same input succeeded %d times and failed %d times", ok, fail)
	}
}
