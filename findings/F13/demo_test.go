package errdef_test

import (
	"fmt"
	"math"
	"strings"
	"testing"

	"github.com/shiwano/errdef"
)

// F13: StackSource(n, depth) with n close to math.MaxInt made line+around wrap in getSourceLines;
// FramesAndSource panicked with "slice bounds out of range" and %+v printed a PANIC= text.
func TestF13HugeStackSourceWindow(t *testing.T) {
	for _, around := range []int{math.MaxInt, math.MaxInt - 5, 1 << 62} {
		e := errdef.Define("k", errdef.StackSource(around, 1)).New("m")
		func() {
			defer func() {
				if p := recover(); p != nil {
					t.Errorf("around=%d: FramesAndSource panicked: %v", around, p)
				}
			}()
			for range e.(errdef.Error).Stack().FramesAndSource() {
			}
		}()
		if s := fmt.Sprintf("%+v", e); strings.Contains(s, "PANIC=") {
			t.Errorf("around=%d: %%+v printed a panic: %.120q", around, s)
		}
	}
}
