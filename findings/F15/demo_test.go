package errdef_test

import (
	"math"
	"testing"

	"github.com/shiwano/errdef"
)

// F15: StackSkip values near math.MaxInt made the sum wrap around; instead of no frames the stack
// held the library's own and the runtime's frames.
func TestF15HugeStackSkip(t *testing.T) {
	for _, d := range []errdef.Definition{
		errdef.Define("k", errdef.StackSkip(math.MaxInt)),
		errdef.Define("k", errdef.StackSkip(math.MaxInt-2)),
		errdef.Define("k", errdef.StackSkip(math.MaxInt-10)).WithOptions(errdef.StackSkip(20)).(errdef.Definition),
	} {
		e := d.New("m").(errdef.Error)
		if n := e.Stack().Len(); n != 0 {
			f, _ := e.Stack().HeadFrame()
			t.Errorf("%d frames, head %s; want none", n, f.Func)
		}
	}
}
