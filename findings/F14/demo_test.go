package errdef_test

import (
	"errors"
	"math"
	"testing"

	"github.com/shiwano/errdef"
)

// F14: StackDepth(n) with a huge n allocated n words up front: New (and the handler of Recover) panicked
// with "makeslice: len out of range" for math.MaxInt; 1<<40 exhausted memory (not tried here).
func TestF14HugeStackDepth(t *testing.T) {
	d := errdef.Define("k", errdef.StackDepth(math.MaxInt))
	func() {
		defer func() {
			if p := recover(); p != nil {
				t.Fatalf("New panicked: %v", p)
			}
		}()
		e := d.New("m").(errdef.Error)
		if e.Stack().Len() == 0 {
			t.Errorf("no frames")
		}
	}()
	func() {
		defer func() {
			if p := recover(); p != nil {
				t.Fatalf("a panic escaped Recover: %v", p)
			}
		}()
		err := d.Recover(func() error { panic("boom") })
		var pe errdef.PanicError
		if !errors.As(err, &pe) {
			t.Errorf("Recover did not convert the panic: %v", err)
		}
	}()
}
