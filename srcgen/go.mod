module verifsrcgen

go 1.25.0
