// Command srcgen derives Coq fragments from the Go sources of /repo
// (package github.com/shiwano/errdef) on every run of bin/check:
//
//	Gen/Consts.v  numeric and string constants, JSON struct tags and omit flags
//	Gen/Chain.v   for every constructor method of *definition the static call
//	              chain down to runtime.Callers and the skip value it passes,
//	              plus shape checks of newError / newStack / DebugStack
//	Gen/Effects.v write sites, mutator calls, package-variable accesses and the
//	              locks held at each of them (effects.go; packages errdef, resolver,
//	              unmarshaler)
//
// Standard library only (go/parser, go/ast, go/printer, go/build/constraint).
// The translator is pattern based and trusted to report faithfully or to fail
// loudly: when a pattern does not match it prints a message on stderr and
// writes a definition (matched_* := false, a one-element chain carrying the
// reason) that makes the dependent theorems of Properties/C05.v fail.
// Files are written only when their content changed.
package main

import (
	"bytes"
	"flag"
	"fmt"
	"go/ast"
	"go/build/constraint"
	"go/parser"
	"go/printer"
	"go/token"
	"os"
	"path/filepath"
	"reflect"
	"sort"
	"strconv"
	"strings"
)

var (
	fset     = token.NewFileSet()
	problems []string
)

func complain(format string, args ...any) {
	msg := fmt.Sprintf(format, args...)
	problems = append(problems, msg)
	fmt.Fprintln(os.Stderr, "srcgen: PATTERN MISMATCH: "+msg)
}

type funcInfo struct {
	decl     *ast.FuncDecl
	name     string // short: newError, (*definition).New
	qname    string // as the runtime prints it
	recvName string // receiver identifier, "" for plain functions
	recvType string // receiver base type, "" for plain functions
	litNames map[*ast.FuncLit]string
}

type pkgInfo struct {
	path    string
	files   []*ast.File
	consts  map[string]ast.Expr
	funcs   map[string]*funcInfo            // plain functions
	methods map[string]map[string]*funcInfo // recv type -> name
	types   map[string]*ast.TypeSpec
	runtime map[*ast.File]string // local name of the "runtime" import per file
	fileOf  map[*ast.FuncDecl]*ast.File
}

func main() {
	repo := flag.String("repo", "/repo", "repository root (package errdef)")
	out := flag.String("out", "", "output directory for Gen/*.v")
	flag.Parse()
	if *out == "" {
		fmt.Fprintln(os.Stderr, "usage: srcgen -repo DIR -out DIR")
		os.Exit(2)
	}
	if os.Getenv("DUMPBODIES") != "" {
		fmt.Print(dumpBodies(filepath.Join(*repo, "unmarshaler"), "Unmarshaler.unmarshal", "Unmarshaler.unmarshalCause", "Unmarshaler.resolveKind", "Unmarshaler.resolveDefinitionFromMessage", "Unmarshaler.Unmarshal", "tryConvertViaJSON", "tryConvertFieldValue"))
		return
	}
	if os.Getenv("DUMPGOLITE") != "" {
		fmt.Print(genGoLite(*repo))
		return
	}
	p, err := load(*repo)
	if err != nil {
		fmt.Fprintln(os.Stderr, "srcgen:", err)
		os.Exit(1)
	}
	consts := genConsts(p)
	chain := genChain(p)
	effects := genEffects(*repo)
	bounds := genBounds(*repo)
	sliceops := genSliceOps(*repo)
	resolverSrc := genResolverSrc(*repo)
	unmarshalSrc := genUnmarshalSrc(*repo)
	goLiteSrc := genGoLite(*repo)
	if err := os.MkdirAll(*out, 0o755); err != nil {
		fmt.Fprintln(os.Stderr, "srcgen:", err)
		os.Exit(1)
	}
	for name, text := range map[string]string{"Consts.v": consts, "Chain.v": chain, "Effects.v": effects, "Bounds.v": bounds, "SliceOps.v": sliceops, "ResolverSrc.v": resolverSrc, "UnmarshalSrc.v": unmarshalSrc, "GoLiteSrc.v": goLiteSrc} {
		path := filepath.Join(*out, name)
		old, err := os.ReadFile(path)
		if err == nil && string(old) == text {
			continue
		}
		if err := os.WriteFile(path, []byte(text), 0o644); err != nil {
			fmt.Fprintln(os.Stderr, "srcgen:", err)
			os.Exit(1)
		}
		fmt.Println("srcgen: wrote", path)
	}
	if len(problems) > 0 {
		fmt.Fprintf(os.Stderr, "srcgen: %d pattern(s) did not match; the dependent obligations will not check\n", len(problems))
	}
}

// ---------------------------------------------------------------- loading

func modulePath(repo string) string {
	data, err := os.ReadFile(filepath.Join(repo, "go.mod"))
	if err != nil {
		return "errdef"
	}
	for _, l := range strings.Split(string(data), "\n") {
		l = strings.TrimSpace(l)
		if strings.HasPrefix(l, "module ") {
			return strings.TrimSpace(strings.TrimPrefix(l, "module "))
		}
	}
	return "errdef"
}

// defaultBuild reports whether a file is part of the default build (no tags).
func defaultBuild(f *ast.File) bool {
	for _, cg := range f.Comments {
		if cg.Pos() > f.Package {
			break
		}
		for _, c := range cg.List {
			if constraint.IsGoBuild(c.Text) {
				e, err := constraint.Parse(c.Text)
				if err != nil {
					return false
				}
				return e.Eval(func(tag string) bool {
					return tag == "linux" || tag == "amd64" || tag == "unix" || strings.HasPrefix(tag, "go1.")
				})
			}
		}
	}
	return true
}

func load(repo string) (*pkgInfo, error) {
	ents, err := os.ReadDir(repo)
	if err != nil {
		return nil, err
	}
	p := &pkgInfo{
		path: modulePath(repo), consts: map[string]ast.Expr{}, funcs: map[string]*funcInfo{},
		methods: map[string]map[string]*funcInfo{}, types: map[string]*ast.TypeSpec{},
		runtime: map[*ast.File]string{}, fileOf: map[*ast.FuncDecl]*ast.File{},
	}
	var names []string
	for _, e := range ents {
		n := e.Name()
		if e.IsDir() || !strings.HasSuffix(n, ".go") || strings.HasSuffix(n, "_test.go") {
			continue
		}
		names = append(names, n)
	}
	sort.Strings(names)
	for _, n := range names {
		f, err := parser.ParseFile(fset, filepath.Join(repo, n), nil, parser.ParseComments)
		if err != nil {
			return nil, err
		}
		if !defaultBuild(f) {
			continue
		}
		p.files = append(p.files, f)
		for _, im := range f.Imports {
			if v, _ := strconv.Unquote(im.Path.Value); v == "runtime" {
				local := "runtime"
				if im.Name != nil {
					local = im.Name.Name
				}
				p.runtime[f] = local
			}
		}
		for _, d := range f.Decls {
			switch d := d.(type) {
			case *ast.GenDecl:
				for _, s := range d.Specs {
					switch s := s.(type) {
					case *ast.ValueSpec:
						if d.Tok == token.CONST {
							for i, id := range s.Names {
								if i < len(s.Values) {
									p.consts[id.Name] = s.Values[i]
								}
							}
						}
					case *ast.TypeSpec:
						p.types[s.Name.Name] = s
					}
				}
			case *ast.FuncDecl:
				fi := &funcInfo{decl: d, litNames: map[*ast.FuncLit]string{}}
				p.fileOf[d] = f
				if d.Recv == nil || len(d.Recv.List) == 0 {
					fi.name = d.Name.Name
					fi.qname = p.path + "." + d.Name.Name
					p.funcs[d.Name.Name] = fi
				} else {
					r := d.Recv.List[0]
					t := r.Type
					ptr := false
					if st, ok := t.(*ast.StarExpr); ok {
						ptr, t = true, st.X
					}
					if ix, ok := t.(*ast.IndexExpr); ok { // generic receiver
						t = ix.X
					}
					id, ok := t.(*ast.Ident)
					if !ok {
						continue
					}
					fi.recvType = id.Name
					if len(r.Names) > 0 {
						fi.recvName = r.Names[0].Name
					}
					if ptr {
						fi.name = "(*" + id.Name + ")." + d.Name.Name
					} else {
						fi.name = id.Name + "." + d.Name.Name
					}
					fi.qname = p.path + "." + fi.name
					if p.methods[id.Name] == nil {
						p.methods[id.Name] = map[string]*funcInfo{}
					}
					p.methods[id.Name][d.Name.Name] = fi
				}
				if d.Body != nil {
					nameLits(d.Body, fi.qname, true, fi.litNames)
				}
			}
		}
	}
	return p, nil
}

// nameLits assigns the names the Go compiler gives to function literals:
// F.func1, F.func2 ... directly inside F, and C.1, C.2 ... inside closure C.
func nameLits(body ast.Node, prefix string, top bool, out map[*ast.FuncLit]string) {
	n := 0
	ast.Inspect(body, func(x ast.Node) bool {
		lit, ok := x.(*ast.FuncLit)
		if !ok {
			return true
		}
		n++
		var name string
		if top {
			name = fmt.Sprintf("%s.func%d", prefix, n)
		} else {
			name = fmt.Sprintf("%s.%d", prefix, n)
		}
		out[lit] = name
		nameLits(lit.Body, name, false, out)
		return false
	})
}

// ---------------------------------------------------------------- constants

func (p *pkgInfo) evalInt(e ast.Expr, depth int) (int64, error) {
	if depth > 20 {
		return 0, fmt.Errorf("constant expression too deep")
	}
	switch e := e.(type) {
	case *ast.BasicLit:
		if e.Kind == token.INT {
			return strconv.ParseInt(e.Value, 0, 64)
		}
	case *ast.ParenExpr:
		return p.evalInt(e.X, depth+1)
	case *ast.Ident:
		if v, ok := p.consts[e.Name]; ok {
			return p.evalInt(v, depth+1)
		}
		return 0, fmt.Errorf("%s is not a package constant", e.Name)
	case *ast.UnaryExpr:
		v, err := p.evalInt(e.X, depth+1)
		if err != nil {
			return 0, err
		}
		switch e.Op {
		case token.SUB:
			return -v, nil
		case token.ADD:
			return v, nil
		}
	case *ast.BinaryExpr:
		a, err := p.evalInt(e.X, depth+1)
		if err != nil {
			return 0, err
		}
		b, err := p.evalInt(e.Y, depth+1)
		if err != nil {
			return 0, err
		}
		switch e.Op {
		case token.ADD:
			return a + b, nil
		case token.SUB:
			return a - b, nil
		case token.MUL:
			return a * b, nil
		}
	}
	return 0, fmt.Errorf("unsupported constant expression %s", render(e))
}

func (p *pkgInfo) evalString(e ast.Expr) (string, error) {
	switch e := e.(type) {
	case *ast.BasicLit:
		if e.Kind == token.STRING {
			return strconv.Unquote(e.Value)
		}
	case *ast.Ident:
		if v, ok := p.consts[e.Name]; ok {
			return p.evalString(v)
		}
	case *ast.BinaryExpr:
		if e.Op == token.ADD {
			a, err := p.evalString(e.X)
			if err != nil {
				return "", err
			}
			b, err := p.evalString(e.Y)
			if err != nil {
				return "", err
			}
			return a + b, nil
		}
	}
	return "", fmt.Errorf("unsupported string constant %s", render(e))
}

func render(n ast.Node) string {
	var b bytes.Buffer
	_ = printer.Fprint(&b, fset, n)
	return b.String()
}

func coqZ(v int64) string {
	if v < 0 {
		return fmt.Sprintf("(%d)%%Z", v)
	}
	return fmt.Sprintf("%d%%Z", v)
}

func coqStr(s string) string {
	for i := 0; i < len(s); i++ {
		if s[i] < 0x20 || s[i] > 0x7e {
			complain("string %q has a byte outside printable ASCII", s)
			return "\"SRCGEN-UNPRINTABLE\""
		}
	}
	return "\"" + strings.ReplaceAll(s, "\"", "\"\"") + "\""
}

func coqBool(b bool) string {
	if b {
		return "true"
	}
	return "false"
}

func coqStrList(l []string) string {
	q := make([]string, len(l))
	for i, s := range l {
		q[i] = coqStr(s)
	}
	return "[" + strings.Join(q, "; ") + "]"
}

const header = "(* GENERATED by /verif/srcgen from the Go sources of /repo on every run of bin/check.\n" +
	"   Do not edit: the file is overwritten whenever the sources change. *)\n" +
	"From Coq Require Import List String ZArith Bool.\nImport ListNotations.\nOpen Scope string_scope.\n\n"

func genConsts(p *pkgInfo) string {
	var b strings.Builder
	b.WriteString(header)
	for _, name := range []string{"callersSkip", "callersDepth"} {
		e, ok := p.consts[name]
		if !ok {
			complain("constant %s not found", name)
			fmt.Fprintf(&b, "(* SRCGEN-MISMATCH: constant %s not found *)\nDefinition %s : Z := (-1)%%Z.\nDefinition %s_matched : bool := false.\n", name, name, name)
			continue
		}
		v, err := p.evalInt(e, 0)
		if err != nil {
			complain("constant %s: %v", name, err)
			fmt.Fprintf(&b, "(* SRCGEN-MISMATCH: %s: %v *)\nDefinition %s : Z := (-1)%%Z.\nDefinition %s_matched : bool := false.\n", name, err, name, name)
			continue
		}
		fmt.Fprintf(&b, "(* %s: const %s = %s *)\nDefinition %s : Z := %s.\nDefinition %s_matched : bool := true.\n",
			posOf(e), name, render(e), name, coqZ(v), name)
	}
	b.WriteString("\n")
	if e, ok := p.consts["redactedStr"]; ok {
		s, err := p.evalString(e)
		if err != nil {
			complain("redactedStr: %v", err)
			s = "SRCGEN-MISMATCH"
		}
		fmt.Fprintf(&b, "(* %s *)\nDefinition redactedStr : string := %s.\n\n", posOf(e), coqStr(s))
	} else {
		complain("constant redactedStr not found")
		b.WriteString("Definition redactedStr : string := \"SRCGEN-MISMATCH: redactedStr not found\".\n\n")
	}
	b.WriteString("(* struct tags: (Go field, JSON name, omitempty, omitzero), in declaration order *)\n")
	for _, tn := range []string{"jsonErrorData", "jsonCauseData", "Frame"} {
		ts, ok := p.types[tn]
		var rows []string
		if ok {
			if st, ok2 := ts.Type.(*ast.StructType); ok2 {
				for _, f := range st.Fields.List {
					tag := ""
					if f.Tag != nil {
						tag, _ = strconv.Unquote(f.Tag.Value)
					}
					js := reflect.StructTag(tag).Get("json")
					parts := strings.Split(js, ",")
					jname := parts[0]
					oe, oz := false, false
					for _, o := range parts[1:] {
						switch o {
						case "omitempty":
							oe = true
						case "omitzero":
							oz = true
						}
					}
					for _, id := range f.Names {
						n := jname
						if n == "" {
							n = id.Name
						}
						rows = append(rows, fmt.Sprintf("(%s, %s, %s, %s)", coqStr(id.Name), coqStr(n), coqBool(oe), coqBool(oz)))
					}
				}
			} else {
				ok = false
			}
		}
		if !ok {
			complain("struct type %s not found", tn)
		}
		fmt.Fprintf(&b, "Definition %s_tags : list (string * string * bool * bool) :=\n  [%s].\n", tn, strings.Join(rows, ";\n   "))
	}
	return b.String()
}

func posOf(n ast.Node) string {
	pos := fset.Position(n.Pos())
	return fmt.Sprintf("%s:%d", filepath.Base(pos.Filename), pos.Line)
}

// ---------------------------------------------------------------- call chains

// A chain lists the frames on the goroutine stack at the time of the
// runtime.Callers call, innermost first, from runtime.Callers itself up to and
// including the entry function (or, when the call happens in a deferred closure
// that runs because of a panic, up to and including runtime.gopanic).
type chain struct {
	frames   []string
	skipExpr ast.Expr // argument flowing into newError's skip parameter
	skipAt   string
	viaPanic bool
	bad      string // reason why the path is not supported
}

type analyzer struct {
	p        *pkgInfo
	memo     map[*funcInfo][]chain
	visiting map[*funcInfo]bool
	skipIdx  int // index of newError's skip parameter, -1 when the flow shape did not match
}

type litUse int

const (
	litImmediate litUse = iota
	litDeferred
	litGo
	litEscapes
)

func (a *analyzer) pathsFrom(fn *funcInfo) []chain {
	if r, ok := a.memo[fn]; ok {
		return r
	}
	if a.visiting[fn] || fn.decl.Body == nil {
		return nil
	}
	a.visiting[fn] = true
	defer delete(a.visiting, fn)
	var res []chain
	var stack []ast.Node
	file := a.p.fileOf[fn.decl]
	ast.Inspect(fn.decl.Body, func(n ast.Node) bool {
		if n == nil {
			stack = stack[:len(stack)-1]
			return true
		}
		stack = append(stack, n)
		call, ok := n.(*ast.CallExpr)
		if !ok {
			return true
		}
		// lexical context: enclosing function literals, innermost first
		var ctx []string
		cut, bad := false, ""
		for i := len(stack) - 1; i >= 0 && !cut; i-- {
			lit, ok := stack[i].(*ast.FuncLit)
			if !ok {
				continue
			}
			use := litEscapes
			if i >= 1 {
				if c, ok := stack[i-1].(*ast.CallExpr); ok && c.Fun == lit {
					use = litImmediate
					if i >= 2 {
						switch s := stack[i-2].(type) {
						case *ast.DeferStmt:
							if s.Call == c {
								use = litDeferred
							}
						case *ast.GoStmt:
							if s.Call == c {
								use = litGo
							}
						}
					}
				}
			}
			ctx = append(ctx, fn.litNames[lit])
			switch use {
			case litImmediate:
			case litDeferred:
				if callsRecover(lit.Body) {
					// runs while panicking: called by runtime.gopanic; the frames
					// above gopanic belong to whoever panicked (the "user" part)
					ctx = append(ctx, "runtime.gopanic")
					cut = true
				} else {
					bad = "deferred closure without recover(): frames depend on how the function returns"
				}
			case litGo:
				bad = "call inside a go statement: different goroutine"
			default:
				bad = "call inside a function literal that is neither invoked in place nor deferred"
			}
		}
		var subs []chain
		switch f := call.Fun.(type) {
		case *ast.Ident:
			if g, ok := a.p.funcs[f.Name]; ok {
				for _, s := range a.pathsFrom(g) {
					if g.name == "newError" && a.skipIdx >= 0 && a.skipIdx < len(call.Args) {
						s.skipExpr, s.skipAt = call.Args[a.skipIdx], posOf(call)
					}
					subs = append(subs, s)
				}
			}
		case *ast.SelectorExpr:
			if x, ok := f.X.(*ast.Ident); ok {
				if rt, ok := a.p.runtime[file]; ok && x.Name == rt && f.Sel.Name == "Callers" {
					subs = append(subs, chain{frames: []string{"runtime.Callers"}})
				} else if fn.recvName != "" && x.Name == fn.recvName {
					if g, ok := a.p.methods[fn.recvType][f.Sel.Name]; ok {
						subs = append(subs, a.pathsFrom(g)...)
					}
				}
			}
		}
		for _, s := range subs {
			c := chain{skipExpr: s.skipExpr, skipAt: s.skipAt, viaPanic: s.viaPanic || cut, bad: s.bad}
			c.frames = append(append([]string{}, s.frames...), ctx...)
			if s.viaPanic {
				c.bad = "a panic-time deferred closure is not the outermost library frame"
			}
			if !cut {
				c.frames = append(c.frames, fn.qname)
			}
			if bad != "" && c.bad == "" {
				c.bad = bad
			}
			res = append(res, c)
		}
		return true
	})
	a.memo[fn] = res
	return res
}

func callsRecover(body ast.Node) bool {
	found := false
	ast.Inspect(body, func(n ast.Node) bool {
		if c, ok := n.(*ast.CallExpr); ok {
			if id, ok := c.Fun.(*ast.Ident); ok && id.Name == "recover" && len(c.Args) == 0 {
				found = true
			}
		}
		return !found
	})
	return found
}

func norm(s string) string { return strings.Join(strings.Fields(s), " ") }

func paramNames(d *ast.FuncDecl) []string {
	var out []string
	for _, f := range d.Type.Params.List {
		if len(f.Names) == 0 {
			out = append(out, "_")
		}
		for _, n := range f.Names {
			out = append(out, n.Name)
		}
	}
	return out
}

// shapeNewStack checks newStack(depth, skip, ...): the pc buffer starts with
// min(depth, callersDepth) entries and is doubled (up to depth) while runtime.Callers
// fills it completely - the same capture as one call with a buffer of depth entries -,
// runtime.Callers receives `skip` unchanged, and the stack keeps exactly the n entries
// that were filled.
func shapeNewStack(p *pkgInfo) bool {
	fi, ok := p.funcs["newStack"]
	if !ok {
		complain("function newStack not found")
		return false
	}
	ps := paramNames(fi.decl)
	if len(ps) < 2 || len(fi.decl.Body.List) != 4 {
		complain("newStack: unexpected signature or body")
		return false
	}
	rt := p.runtime[p.fileOf[fi.decl]]
	want := []string{
		fmt.Sprintf("pcs := make([]uintptr, min(%s, callersDepth))", ps[0]),
		fmt.Sprintf("n := %s.Callers(%s, pcs)", rt, ps[1]),
		fmt.Sprintf("for n == len(pcs) && len(pcs) < %[1]s { pcs = make([]uintptr, min(%[1]s, 2*len(pcs))) n = %[2]s.Callers(%[3]s, pcs) }", ps[0], rt, ps[1]),
	}
	for i, w := range want {
		if got := norm(render(fi.decl.Body.List[i])); got != w {
			complain("newStack statement %d is %q, expected %q", i+1, got, w)
			return false
		}
	}
	ret := norm(render(fi.decl.Body.List[3]))
	if !strings.HasPrefix(ret, "return &stack{ pcs: pcs[:n],") {
		complain("newStack does not return &stack{pcs: pcs[:n], ...}: %q", ret)
		return false
	}
	return true
}

// shapeAddSkip checks that addSkip(a, b) is saturating integer addition (a+b unless that wraps around,
// then math.MaxInt / math.MinInt) and that the StackSkip option accumulates through it.
func shapeAddSkip(p *pkgInfo) bool {
	fi, ok := p.funcs["addSkip"]
	if !ok {
		complain("function addSkip not found")
		return false
	}
	ps := paramNames(fi.decl)
	if len(ps) != 2 || len(fi.decl.Body.List) != 3 {
		complain("addSkip: unexpected signature or body")
		return false
	}
	a, b := ps[0], ps[1]
	want := []string{
		fmt.Sprintf("if %[2]s > 0 && %[1]s > math.MaxInt-%[2]s { return math.MaxInt }", a, b),
		fmt.Sprintf("if %[2]s < 0 && %[1]s < math.MinInt-%[2]s { return math.MinInt }", a, b),
		fmt.Sprintf("return %s + %s", a, b),
	}
	for i, w := range want {
		if got := norm(render(fi.decl.Body.List[i])); got != w {
			complain("addSkip statement %d is %q, expected %q", i+1, got, w)
			return false
		}
	}
	m, ok := p.methods["stackSkip"]["applyOption"]
	if !ok {
		complain("method (*stackSkip).applyOption not found")
		return false
	}
	mps := paramNames(m.decl)
	recv := "o"
	if m.decl.Recv != nil && len(m.decl.Recv.List) == 1 && len(m.decl.Recv.List[0].Names) == 1 {
		recv = m.decl.Recv.List[0].Names[0].Name
	}
	if len(mps) != 1 || len(m.decl.Body.List) != 1 ||
		norm(render(m.decl.Body.List[0])) != fmt.Sprintf("%[1]s.stackSkip = addSkip(%[1]s.stackSkip, %[2]s.skip)", mps[0], recv) {
		complain("(*stackSkip).applyOption is not `d.stackSkip = addSkip(d.stackSkip, o.skip)`")
		return false
	}
	return true
}

// shapeNewError checks the capture part of newError and returns the index of
// the parameter that is added to d.stackSkip (or -1).
func shapeNewError(p *pkgInfo) int {
	fi, ok := p.funcs["newError"]
	if !ok {
		complain("function newError not found")
		return -1
	}
	ps := paramNames(fi.decl)
	if len(ps) < 2 || len(fi.decl.Body.List) < 2 {
		complain("newError: unexpected signature or body")
		return -1
	}
	d := ps[0]
	for idx := 1; idx < len(ps); idx++ {
		want := norm(fmt.Sprintf(`if !%[1]s.noTrace {
			depth := callersDepth
			if %[1]s.stackDepth > 0 {
				depth = %[1]s.stackDepth
			}
			stack = newStack(depth, addSkip(%[1]s.stackSkip, %[2]s), %[1]s.stackSourceLines, %[1]s.stackSourceDepth)
		}`, d, ps[idx]))
		if norm(render(fi.decl.Body.List[0])) == "var stack *stack" && norm(render(fi.decl.Body.List[1])) == want {
			if !shapeAddSkip(p) {
				return -1
			}
			return idx
		}
	}
	complain("newError: capture block is not `var stack *stack; if !d.noTrace { depth := callersDepth; if d.stackDepth > 0 { depth = d.stackDepth }; stack = newStack(depth, addSkip(d.stackSkip, <param>), ...) }`: got %q",
		norm(render(fi.decl.Body.List[0]))+"; "+norm(render(fi.decl.Body.List[1])))
	return -1
}

// debugStackSymboliser says how (*definedError).DebugStack turns pcs into names.
func debugStackSymboliser(p *pkgInfo) string {
	fi, ok := p.methods["definedError"]["DebugStack"]
	if !ok || fi.decl.Body == nil {
		complain("method (*definedError).DebugStack not found")
		return "unknown"
	}
	rt := p.runtime[p.fileOf[fi.decl]]
	funcForPC, callersFrames, framesCall := false, false, false
	ast.Inspect(fi.decl.Body, func(n ast.Node) bool {
		if c, ok := n.(*ast.CallExpr); ok {
			if s, ok := c.Fun.(*ast.SelectorExpr); ok {
				if x, ok := s.X.(*ast.Ident); ok && rt != "" && x.Name == rt {
					switch s.Sel.Name {
					case "FuncForPC":
						funcForPC = true
					case "CallersFrames":
						callersFrames = true
					}
				}
				if s.Sel.Name == "Frames" || s.Sel.Name == "FramesAndSource" {
					framesCall = true
				}
			}
		}
		return true
	})
	switch {
	case funcForPC && !callersFrames && !framesCall:
		return "runtime.FuncForPC"
	case !funcForPC && (callersFrames || framesCall):
		return "runtime.CallersFrames"
	}
	complain("DebugStack: cannot tell which symboliser it uses")
	return "unknown"
}

// debugStackSkipsUnnamed: DebugStack guards the printing of a frame with
// `<frame>.Function != ""`.
func debugStackSkipsUnnamed(p *pkgInfo) bool {
	fi, ok := p.methods["definedError"]["DebugStack"]
	if !ok || fi.decl.Body == nil {
		return false
	}
	found := false
	ast.Inspect(fi.decl.Body, func(n ast.Node) bool {
		if ifs, ok := n.(*ast.IfStmt); ok {
			if be, ok := ifs.Cond.(*ast.BinaryExpr); ok && be.Op == token.NEQ {
				if sel, ok := be.X.(*ast.SelectorExpr); ok && sel.Sel.Name == "Function" {
					if lit, ok := be.Y.(*ast.BasicLit); ok && lit.Value == `""` {
						found = true
					}
				}
			}
		}
		return true
	})
	return found
}

var ctors = []string{"New", "Errorf", "Wrap", "Wrapf", "Join", "Recover"}

func genChain(p *pkgInfo) string {
	var b strings.Builder
	b.WriteString(header)
	okStack := shapeNewStack(p)
	skipIdx := shapeNewError(p)
	a := &analyzer{p: p, memo: map[*funcInfo][]chain{}, visiting: map[*funcInfo]bool{}, skipIdx: skipIdx}
	if fi, ok := p.funcs["newError"]; ok && skipIdx < 0 {
		// keep the chains readable: assume the last parameter; newError_shape_ok stays false
		a.skipIdx = len(paramNames(fi.decl)) - 1
	}
	b.WriteString("(* Frames on the goroutine stack when runtime.Callers runs, innermost first, from\n" +
		"   runtime.Callers up to the constructor method (for a constructor that creates the\n" +
		"   error in a deferred closure during panicking: up to runtime.gopanic; the frames\n" +
		"   above gopanic belong to the code that panicked).  skip_<ctor> is the value of the\n" +
		"   argument the constructor passes to newError's skip parameter. *)\n\n")
	for _, c := range ctors {
		fi, ok := p.methods["definition"][c]
		reason := ""
		var ch chain
		if !ok {
			reason = "method (*definition)." + c + " not found"
		} else {
			paths := a.pathsFrom(fi)
			// distinct (frames, skip) pairs
			seen := map[string]chain{}
			var keys []string
			for _, pt := range paths {
				k := strings.Join(pt.frames, "|") + "#"
				if pt.skipExpr != nil {
					k += norm(render(pt.skipExpr))
				}
				if pt.bad != "" {
					k += "!" + pt.bad
				}
				if _, dup := seen[k]; !dup {
					keys = append(keys, k)
				}
				seen[k] = pt
			}
			switch {
			case len(keys) == 0:
				reason = "no call path from " + fi.name + " to runtime.Callers found"
			case len(keys) > 1:
				reason = fmt.Sprintf("%d different call paths / skip expressions from %s to runtime.Callers: %s", len(keys), fi.name, strings.Join(keys, " ; "))
			default:
				ch = seen[keys[0]]
				if ch.bad != "" {
					reason = ch.bad
				} else if ch.skipExpr == nil {
					reason = "the path does not go through newError, or newError's skip parameter is unknown"
				}
			}
		}
		var skip int64
		if reason == "" {
			v, err := p.evalInt(ch.skipExpr, 0)
			if err != nil {
				reason = "skip argument " + render(ch.skipExpr) + " at " + ch.skipAt + ": " + err.Error()
			}
			skip = v
		}
		if reason != "" {
			complain("constructor %s: %s", c, reason)
			fmt.Fprintf(&b, "(* SRCGEN-MISMATCH %s: %s *)\n", c, strings.ReplaceAll(strings.ReplaceAll(reason, "(*", "( *"), "*)", "* )"))
			fmt.Fprintf(&b, "Definition chain_%s : list string := [\"SRCGEN-MISMATCH\"].\n", c)
			fmt.Fprintf(&b, "Definition skip_%s : Z := 0%%Z.\nDefinition via_panic_%s : bool := false.\nDefinition matched_%s : bool := false.\n\n", c, c, c)
			continue
		}
		fmt.Fprintf(&b, "(* %s: newError(..., %s) *)\n", ch.skipAt, norm(render(ch.skipExpr)))
		fmt.Fprintf(&b, "Definition chain_%s : list string :=\n  %s.\n", c, coqStrList(ch.frames))
		fmt.Fprintf(&b, "Definition skip_%s : Z := %s.\nDefinition via_panic_%s : bool := %s.\nDefinition matched_%s : bool := true.\n\n",
			c, coqZ(skip), c, coqBool(ch.viaPanic), c)
	}
	b.WriteString("(* newStack(depth, skip, ...): a buffer of min(depth, callersDepth) entries, doubled up to depth while runtime.Callers(skip, pcs) fills it; pcs[:n] *)\n")
	fmt.Fprintf(&b, "Definition newStack_shape_ok : bool := %s.\n", coqBool(okStack))
	b.WriteString("(* newError: nil stack iff d.noTrace; depth := callersDepth unless d.stackDepth > 0;\n   newStack(depth, addSkip(d.stackSkip, <skip parameter>), ...); addSkip = saturating int addition, also used by StackSkip's applyOption *)\n")
	fmt.Fprintf(&b, "Definition newError_shape_ok : bool := %s.\n\n", coqBool(skipIdx >= 0))
	b.WriteString("(* which runtime symboliser DebugStack uses: \"runtime.FuncForPC\" (raw pc, FileLine(pc)),\n   \"runtime.CallersFrames\" (the one Frames() uses) or \"unknown\" *)\n")
	fmt.Fprintf(&b, "Definition debugstack_symboliser : string := %s.\n", coqStr(debugStackSymboliser(p)))
	b.WriteString("(* DebugStack prints a frame only `if frame.Function != \"\"` *)\n")
	fmt.Fprintf(&b, "Definition debugstack_skips_unnamed : bool := %s.\n", coqBool(debugStackSkipsUnnamed(p)))
	return b.String()
}
