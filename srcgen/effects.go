// Gen/Effects.v: the write effects and the lock discipline of the library, read
// from the AST of the non-test .go files of packages errdef, resolver and
// unmarshaler (go/parser + go/ast only; identifiers are resolved with the
// parser's own per-file object resolution plus package-level tables).
//
//	write_sites      (package, function, target) for every assignment, inc/dec,
//	                 delete(), copy(), clear(), append() and in-place stdlib call
//	                 (slices.Sort*, slices.Compact*, sort.*, maps.Copy, json.Unmarshal ...)
//	                 whose target is NOT a local variable or one level below a value
//	                 freshly allocated in the same function: writes through a receiver
//	                 or parameter, to a map or slice reachable from one, to a package
//	                 variable, or through a local alias of something not allocated here
//	mutator_calls    (package, caller, callee, target) for every call of a function or
//	                 method that (transitively) writes through its receiver or a
//	                 parameter, with the class of the object handed to it
//	fresh_sources    normalised source text of the functions whose result is taken as
//	                 freshly allocated in the two tables above (clone, newFields, ...)
//	pkgvar_accesses  (function, variable, "R"|"W", holds_lock, mutex) for every access
//	                 to a package-level variable that is written somewhere after
//	                 initialisation (or has no initialiser, or is of a sync/atomic type)
//	pkgvar_init_only package variables that no function writes
//	pkgvar_mutexes   package variables of type sync.Mutex / sync.RWMutex
//	lock_sites       (function, mutex, "Lock"|"RLock", "defer"|"explicit")
//	sync_typed       struct fields and package variables whose type mentions sync. or atomic.
//
// holds_lock is computed from the function body: a Lock()/RLock() statement on the
// mutex before the access, in an enclosing block, released by a deferred Unlock or by
// an Unlock statement later in the same block; a write needs Lock(), RLock() is not
// enough.  Anything the patterns do not understand is reported on stderr and makes
// effects_matched false, which fails the theorem C16_effects_audited.
package main

import (
	"fmt"
	"go/ast"
	"go/build/constraint"
	"go/parser"
	"go/token"
	"os"
	"path/filepath"
	"sort"
	"strconv"
	"strings"
)

type effVar struct {
	name      string
	hasInit   bool
	isMutex   bool
	syncTyped bool
	written   bool
	pos       token.Pos
}

type effFunc struct {
	pkg      *effPkg
	decl     *ast.FuncDecl
	file     *ast.File
	name     string // Define, (*fields).set, fieldKey.String
	recvObj  *ast.Object
	litName  map[*ast.FuncLit]string
	lits     []*ast.FuncLit
	hasRes   bool
	mutRecv  bool
	mutParam map[int]bool
}

type effPkg struct {
	name     string
	files    []*ast.File
	vars     map[string]*effVar
	varOrder []string
	consts   map[string]bool
	types    map[string]*ast.TypeSpec
	funcs    map[string]*effFunc   // plain functions by name
	methods  map[string][]*effFunc // methods by method name
	all      []*effFunc
	imports  map[*ast.File]map[string]string
	fresh    map[*effFunc]bool // result is freshly allocated
	// mutator literals: function literals that write through one of their own parameters
	litMut    map[*ast.FuncLit]map[int]bool
	usedFresh map[*effFunc]bool
	// named func types with a pointer parameter (unmarshaler.Option)
	mutFuncTypes map[string]bool
}

type effOut struct {
	sites    [][3]string
	calls    [][4]string
	accesses [][5]string // fn, var, rw, holds ("true"/"false"), mutex
	locks    [][4]string
	freshSrc [][3]string
	syncT    [][2]string
	problems []string
}

func (o *effOut) problem(format string, args ...any) {
	msg := fmt.Sprintf(format, args...)
	o.problems = append(o.problems, msg)
	complain("effects: %s", msg)
}

func effBuild(f *ast.File) bool {
	for _, cg := range f.Comments {
		if cg.Pos() > f.Package {
			break
		}
		for _, c := range cg.List {
			if constraint.IsGoBuild(c.Text) {
				e, err := constraint.Parse(c.Text)
				if err != nil {
					return false
				}
				return e.Eval(func(tag string) bool {
					// the harness (and the race binary) is built with the tag verif
					return tag == "verif" || tag == "linux" || tag == "amd64" || tag == "unix" || strings.HasPrefix(tag, "go1.")
				})
			}
		}
	}
	return true
}

func loadEffPkg(dir, name string, out *effOut) *effPkg {
	p := &effPkg{name: name, vars: map[string]*effVar{}, consts: map[string]bool{}, types: map[string]*ast.TypeSpec{},
		funcs: map[string]*effFunc{}, methods: map[string][]*effFunc{}, imports: map[*ast.File]map[string]string{},
		fresh: map[*effFunc]bool{}, usedFresh: map[*effFunc]bool{}, litMut: map[*ast.FuncLit]map[int]bool{}, mutFuncTypes: map[string]bool{}}
	ents, err := os.ReadDir(dir)
	if err != nil {
		out.problem("cannot read %s: %v", dir, err)
		return p
	}
	var names []string
	for _, e := range ents {
		n := e.Name()
		if e.IsDir() || !strings.HasSuffix(n, ".go") || strings.HasSuffix(n, "_test.go") {
			continue
		}
		names = append(names, n)
	}
	sort.Strings(names)
	for _, n := range names {
		f, err := parser.ParseFile(fset, filepath.Join(dir, n), nil, parser.ParseComments)
		if err != nil {
			out.problem("cannot parse %s: %v", n, err)
			continue
		}
		if !effBuild(f) {
			continue
		}
		p.files = append(p.files, f)
		im := map[string]string{}
		for _, is := range f.Imports {
			path, _ := strconv.Unquote(is.Path.Value)
			local := path[strings.LastIndex(path, "/")+1:]
			if is.Name != nil {
				local = is.Name.Name
			}
			im[local] = path
		}
		p.imports[f] = im
		for _, d := range f.Decls {
			switch d := d.(type) {
			case *ast.GenDecl:
				for _, s := range d.Specs {
					switch s := s.(type) {
					case *ast.ValueSpec:
						for i, id := range s.Names {
							if d.Tok == token.CONST {
								p.consts[id.Name] = true
								continue
							}
							if id.Name == "_" {
								continue
							}
							v := &effVar{name: id.Name, hasInit: len(s.Values) > 0, pos: id.Pos()}
							_ = i
							if s.Type != nil {
								t := norm(render(s.Type))
								if t == "sync.Mutex" || t == "sync.RWMutex" {
									v.isMutex = true
								} else if strings.Contains(t, "sync.") || strings.Contains(t, "atomic.") {
									v.syncTyped = true
								}
							}
							for _, val := range s.Values {
								t := norm(render(val))
								if strings.Contains(t, "sync.") || strings.Contains(t, "atomic.") {
									v.syncTyped = true
								}
							}
							if v.isMutex || v.syncTyped {
								out.syncT = append(out.syncT, [2]string{name, "var " + id.Name + " " + typeText(s)})
							}
							p.vars[id.Name] = v
							p.varOrder = append(p.varOrder, id.Name)
						}
					case *ast.TypeSpec:
						p.types[s.Name.Name] = s
						if ft, ok := s.Type.(*ast.FuncType); ok && ft.Params != nil {
							for _, prm := range ft.Params.List {
								if _, ok := prm.Type.(*ast.StarExpr); ok {
									p.mutFuncTypes[s.Name.Name] = true
								}
							}
						}
						if st, ok := s.Type.(*ast.StructType); ok {
							for _, fl := range st.Fields.List {
								t := norm(render(fl.Type))
								if strings.Contains(t, "sync.") || strings.Contains(t, "atomic.") {
									for _, id := range fl.Names {
										out.syncT = append(out.syncT, [2]string{name, "field " + s.Name.Name + "." + id.Name + " " + t})
									}
									if len(fl.Names) == 0 {
										out.syncT = append(out.syncT, [2]string{name, "field " + s.Name.Name + " (embedded) " + t})
									}
								}
							}
						}
					}
				}
			case *ast.FuncDecl:
				fi := &effFunc{pkg: p, decl: d, file: f, litName: map[*ast.FuncLit]string{}, mutParam: map[int]bool{}}
				fi.hasRes = d.Type.Results != nil && len(d.Type.Results.List) > 0
				if d.Recv == nil || len(d.Recv.List) == 0 {
					fi.name = d.Name.Name
					p.funcs[d.Name.Name] = fi
				} else {
					r := d.Recv.List[0]
					t := r.Type
					ptr := false
					if st, ok := t.(*ast.StarExpr); ok {
						ptr, t = true, st.X
					}
					if ix, ok := t.(*ast.IndexExpr); ok {
						t = ix.X
					}
					if ix, ok := t.(*ast.IndexListExpr); ok {
						t = ix.X
					}
					tn := render(t)
					if ptr {
						fi.name = "(*" + tn + ")." + d.Name.Name
					} else {
						fi.name = tn + "." + d.Name.Name
					}
					if len(r.Names) > 0 {
						fi.recvObj = r.Names[0].Obj
					}
					p.methods[d.Name.Name] = append(p.methods[d.Name.Name], fi)
				}
				if d.Body != nil {
					n := 0
					ast.Inspect(d.Body, func(x ast.Node) bool {
						if lit, ok := x.(*ast.FuncLit); ok {
							n++
							fi.litName[lit] = fmt.Sprintf("%s.func%d", fi.name, n)
							fi.lits = append(fi.lits, lit)
						}
						return true
					})
				}
				p.all = append(p.all, fi)
			}
		}
	}
	return p
}

func typeText(s *ast.ValueSpec) string {
	if s.Type != nil {
		return norm(render(s.Type))
	}
	if len(s.Values) > 0 {
		return "= " + norm(render(s.Values[0]))
	}
	return ""
}

// ---------------------------------------------------------------- expressions

// short prints an expression with index contents abbreviated.
func short(e ast.Expr) string {
	switch e := e.(type) {
	case *ast.Ident:
		return e.Name
	case *ast.ParenExpr:
		return "(" + short(e.X) + ")"
	case *ast.SelectorExpr:
		return short(e.X) + "." + e.Sel.Name
	case *ast.IndexExpr:
		return short(e.X) + "[_]"
	case *ast.StarExpr:
		return "*" + short(e.X)
	case *ast.SliceExpr:
		return short(e.X) + "[:]"
	case *ast.CallExpr:
		return short(e.Fun) + "(...)"
	case *ast.TypeAssertExpr:
		return short(e.X) + ".(type)"
	case *ast.UnaryExpr:
		return e.Op.String() + short(e.X)
	}
	return norm(render(e))
}

// rootOf returns the identifier a designator is rooted at, and the number of
// indirection steps (field selection, indexing, dereference) below it.
// viaCall: the designator goes through a call result or something else opaque.
func rootOf(e ast.Expr, imports map[string]string) (root *ast.Ident, depth int, ext bool, opaque bool) {
	switch e := e.(type) {
	case *ast.Ident:
		return e, 0, false, false
	case *ast.ParenExpr:
		return rootOf(e.X, imports)
	case *ast.SelectorExpr:
		if id, ok := e.X.(*ast.Ident); ok && id.Obj == nil {
			if _, isImp := imports[id.Name]; isImp {
				return id, 1, true, false
			}
		}
		r, d, x, o := rootOf(e.X, imports)
		return r, d + 1, x, o
	case *ast.IndexExpr:
		r, d, x, o := rootOf(e.X, imports)
		return r, d + 1, x, o
	case *ast.StarExpr:
		r, d, x, o := rootOf(e.X, imports)
		return r, d + 1, x, o
	case *ast.SliceExpr:
		return rootOf(e.X, imports)
	case *ast.TypeAssertExpr:
		return rootOf(e.X, imports)
	}
	return nil, 0, false, true
}

// ---------------------------------------------------------------- per-function analysis

type scopeInfo struct { // one function body (declaration or literal)
	body      *ast.BlockStmt
	ftype     *ast.FuncType
	lit       *ast.FuncLit
	intervals []lockInterval
}

type lockInterval struct {
	from, to token.Pos
	mutex    string
	excl     bool
}

type fnAnalysis struct {
	f       *effFunc
	p       *effPkg
	out     *effOut
	imports map[string]string
	scopes  []*scopeInfo
	// definitions of local variables: object -> defining expressions (nil = zero value)
	defs      map[*ast.Object][]ast.Expr
	defsKnown map[*ast.Object]bool
	rangeVar  map[*ast.Object]ast.Expr // ranged expression for range variables
	rangeVal  map[*ast.Object]bool     // it is the value (second) variable
	writeRoot map[*ast.Ident]bool
	visiting  map[*ast.Object]bool
	track     bool // record the allocating functions that freshness arguments use
}

func (a *fnAnalysis) inFunc(pos token.Pos) bool {
	return pos >= a.f.decl.Pos() && pos < a.f.decl.End()
}

func (a *fnAnalysis) scopeAt(pos token.Pos) *scopeInfo {
	var best *scopeInfo
	for _, s := range a.scopes {
		if pos >= s.body.Pos() && pos < s.body.End() {
			if best == nil || s.body.Pos() >= best.body.Pos() {
				best = s
			}
		}
	}
	return best
}

func (a *fnAnalysis) nameAt(pos token.Pos) string {
	s := a.scopeAt(pos)
	if s == nil || s.lit == nil {
		return a.f.name
	}
	return a.f.litName[s.lit]
}

// identClass: what an identifier denotes.
//
//	"local"  variable declared in this function (not a parameter)
//	"recv" "param" "result"
//	"pkgvar" package-level variable of this package
//	"other"  constant, function, type, import, predeclared
func (a *fnAnalysis) identClass(id *ast.Ident) string {
	if id.Name == "_" {
		return "other"
	}
	if id.Obj != nil {
		if id.Obj.Kind != ast.Var {
			return "other"
		}
		if a.inFunc(id.Obj.Pos()) {
			if fld, ok := id.Obj.Decl.(*ast.Field); ok {
				if a.f.decl.Recv != nil {
					for _, r := range a.f.decl.Recv.List {
						if r == fld {
							return "recv"
						}
					}
				}
				for _, s := range a.scopes {
					if s.ftype.Results != nil {
						for _, r := range s.ftype.Results.List {
							if r == fld {
								return "result"
							}
						}
					}
				}
				return "param"
			}
			return "local"
		}
		if _, ok := a.p.vars[id.Name]; ok {
			return "pkgvar"
		}
		return "other"
	}
	if _, ok := a.p.vars[id.Name]; ok {
		return "pkgvar"
	}
	return "other"
}

// paramIndex: position of a parameter object in the signature of the scope that declares it.
func (a *fnAnalysis) paramIndex(obj *ast.Object) (scope *scopeInfo, idx int) {
	fld, ok := obj.Decl.(*ast.Field)
	if !ok {
		return nil, -1
	}
	for _, s := range a.scopes {
		i := 0
		if s.ftype.Params == nil {
			continue
		}
		for _, prm := range s.ftype.Params.List {
			if len(prm.Names) == 0 {
				i++
				continue
			}
			for _, n := range prm.Names {
				if prm == fld && n.Obj == obj {
					return s, i
				}
				i++
			}
		}
	}
	return nil, -1
}

func (a *fnAnalysis) collect() {
	f := a.f
	a.scopes = append(a.scopes, &scopeInfo{body: f.decl.Body, ftype: f.decl.Type})
	for _, lit := range f.lits {
		a.scopes = append(a.scopes, &scopeInfo{body: lit.Body, ftype: lit.Type, lit: lit})
	}
	// variable definitions
	addDef := func(id *ast.Ident, e ast.Expr) {
		if id.Obj == nil || id.Name == "_" {
			return
		}
		a.defs[id.Obj] = append(a.defs[id.Obj], e)
	}
	ast.Inspect(f.decl.Body, func(n ast.Node) bool {
		switch n := n.(type) {
		case *ast.AssignStmt:
			for i, l := range n.Lhs {
				id, ok := l.(*ast.Ident)
				if !ok {
					continue
				}
				switch {
				case len(n.Rhs) == len(n.Lhs):
					if n.Tok == token.ASSIGN || n.Tok == token.DEFINE {
						addDef(id, n.Rhs[i])
					} else {
						addDef(id, &ast.BasicLit{Kind: token.INT, Value: "0"}) // x op= e: a value
					}
				default: // multi-value call, type assertion, map index, channel receive
					if i == 0 {
						addDef(id, n.Rhs[0])
					} else {
						addDef(id, &ast.BasicLit{Kind: token.INT, Value: "0"}) // ok / err / second result: treated as a value
					}
				}
			}
		case *ast.ValueSpec:
			for i, id := range n.Names {
				if i < len(n.Values) {
					addDef(id, n.Values[i])
				} else if len(n.Values) == 0 {
					addDef(id, nil)
				} else {
					addDef(id, n.Values[0])
				}
			}
		case *ast.RangeStmt:
			if n.Tok == token.DEFINE || n.Tok == token.ASSIGN {
				if id, ok := n.Key.(*ast.Ident); ok && id.Obj != nil {
					a.rangeVar[id.Obj] = n.X
					addDef(id, &ast.BasicLit{Kind: token.INT, Value: "0"}) // keys are treated as values
				}
				if id, ok := n.Value.(*ast.Ident); ok && id.Obj != nil {
					a.rangeVar[id.Obj] = n.X
					a.rangeVal[id.Obj] = true
					addDef(id, &ast.UnaryExpr{Op: token.RANGE, X: n.X})
				}
			}
		case *ast.TypeSwitchStmt:
			// switch v := x.(type): v aliases x
			if as, ok := n.Assign.(*ast.AssignStmt); ok && len(as.Lhs) == 1 && len(as.Rhs) == 1 {
				if id, ok := as.Lhs[0].(*ast.Ident); ok {
					addDef(id, as.Rhs[0])
				}
			}
		}
		return true
	})
	// named results: every return statement of the owning scope defines them
	for _, s := range a.scopes {
		if s.ftype.Results == nil {
			continue
		}
		var objs []*ast.Object
		for _, r := range s.ftype.Results.List {
			for _, n := range r.Names {
				objs = append(objs, n.Obj)
			}
		}
		if len(objs) == 0 {
			continue
		}
		for _, o := range objs {
			a.defs[o] = append(a.defs[o], nil) // zero value at entry
		}
		ast.Inspect(s.body, func(n ast.Node) bool {
			if lit, ok := n.(*ast.FuncLit); ok && lit != s.lit {
				return false
			}
			if r, ok := n.(*ast.ReturnStmt); ok && len(r.Results) == len(objs) {
				for i, e := range r.Results {
					a.defs[objs[i]] = append(a.defs[objs[i]], e)
				}
			}
			return true
		})
	}
	// lock intervals per scope
	for _, s := range a.scopes {
		a.lockIntervals(s)
	}
}

func (a *fnAnalysis) lockCall(st ast.Stmt) (mutex, method string, deferred bool, ok bool) {
	var call *ast.CallExpr
	switch st := st.(type) {
	case *ast.ExprStmt:
		call, _ = st.X.(*ast.CallExpr)
	case *ast.DeferStmt:
		call, deferred = st.Call, true
	}
	if call == nil || len(call.Args) != 0 {
		return
	}
	sel, isSel := call.Fun.(*ast.SelectorExpr)
	if !isSel {
		return
	}
	switch sel.Sel.Name {
	case "Lock", "RLock", "Unlock", "RUnlock":
	default:
		return
	}
	// the mutex must be a package-level mutex variable or a selector path (struct field)
	switch x := sel.X.(type) {
	case *ast.Ident:
		if v, isVar := a.p.vars[x.Name]; isVar && v.isMutex && a.identClass(x) == "pkgvar" {
			return x.Name, sel.Sel.Name, deferred, true
		}
		return
	case *ast.SelectorExpr:
		return short(x), sel.Sel.Name, deferred, true
	}
	return
}

func (a *fnAnalysis) lockIntervals(s *scopeInfo) {
	var lists func(n ast.Node)
	handle := func(list []ast.Stmt, end token.Pos) {
		for i, st := range list {
			mu, m, deferred, ok := a.lockCall(st)
			if !ok || deferred || (m != "Lock" && m != "RLock") {
				continue
			}
			want := "Unlock"
			if m == "RLock" {
				want = "RUnlock"
			}
			found := false
			for _, later := range list[i+1:] {
				mu2, m2, def2, ok2 := a.lockCall(later)
				if !ok2 || mu2 != mu {
					continue
				}
				if m2 != want {
					a.out.problem("%s: %s.%s() is followed by %s() in %s", a.nameAt(st.Pos()), mu, m, m2, posOf(later))
					break
				}
				kind := "explicit"
				to := later.Pos()
				if def2 {
					kind, to = "defer", end
				}
				s.intervals = append(s.intervals, lockInterval{from: st.End(), to: to, mutex: mu, excl: m == "Lock"})
				a.out.locks = append(a.out.locks, [4]string{a.p.name + "." + a.nameAt(st.Pos()), mu, m, kind})
				found = true
				break
			}
			if !found {
				a.out.problem("%s: %s.%s() at %s has no Unlock (deferred or later) in the same block", a.nameAt(st.Pos()), mu, m, posOf(st))
				a.out.locks = append(a.out.locks, [4]string{a.p.name + "." + a.nameAt(st.Pos()), mu, m, "unmatched"})
			}
		}
	}
	lists = func(n ast.Node) {
		ast.Inspect(n, func(x ast.Node) bool {
			switch x := x.(type) {
			case *ast.FuncLit:
				if x != s.lit {
					return false
				}
			case *ast.BlockStmt:
				handle(x.List, x.End())
			case *ast.CaseClause:
				handle(x.Body, x.End())
			case *ast.CommClause:
				handle(x.Body, x.End())
			}
			return true
		})
	}
	lists(s.body)
}

// held reports the lock held at pos (innermost function scope only).
func (a *fnAnalysis) held(pos token.Pos, write bool) (bool, string) {
	s := a.scopeAt(pos)
	if s == nil {
		return false, ""
	}
	name := ""
	for _, iv := range s.intervals {
		if pos >= iv.from && pos < iv.to {
			if iv.excl || !write {
				return true, iv.mutex
			}
			name = iv.mutex + " (RLock only)"
		}
	}
	return false, name
}

var freshExternal = map[string]bool{
	"slices.Clone": true, "maps.Clone": true, "slices.Collect": true, "slices.Sorted": true, "slices.SortedFunc": true,
	"bytes.NewBufferString": true, "bytes.NewBuffer": true, "bufio.NewScanner": true, "fmt.Sprintf": true, "fmt.Sprint": true,
	"errors.New": true, "errors.Join": true, "fmt.Errorf": true, "json.Marshal": true, "os.Open": true, "strconv.Itoa": true,
	"context.WithValue": true, "runtime.CallersFrames": true, "slog.GroupValue": true, "slog.AnyValue": true,
	"slog.StringValue": true, "reflect.ValueOf": true,
}

func (a *fnAnalysis) isConversion(call *ast.CallExpr) bool {
	switch f := call.Fun.(type) {
	case *ast.ArrayType, *ast.MapType, *ast.StarExpr, *ast.InterfaceType, *ast.ChanType, *ast.FuncType:
		return true
	case *ast.ParenExpr:
		return true
	case *ast.Ident:
		if f.Obj != nil {
			return f.Obj.Kind == ast.Typ
		}
		if _, ok := a.p.types[f.Name]; ok {
			return true
		}
		switch f.Name {
		case "string", "int", "int8", "int16", "int32", "int64", "uint", "uint8", "uint16", "uint32", "uint64",
			"uintptr", "float32", "float64", "bool", "byte", "rune", "any", "error", "complex64", "complex128":
			return true
		}
	case *ast.IndexExpr: // generic type instantiation T[X](v) or generic function f[X](v)
		if id, ok := f.X.(*ast.Ident); ok {
			if _, ok := a.p.types[id.Name]; ok {
				return true
			}
		}
	}
	return false
}

// freshExpr: the value of e is allocated here (or is a plain value): writing one
// level below it cannot touch memory that existed before the call.
func (a *fnAnalysis) freshExpr(e ast.Expr) bool {
	switch e := e.(type) {
	case nil:
		return true // zero value
	case *ast.BasicLit, *ast.FuncLit, *ast.CompositeLit, *ast.BinaryExpr:
		return true
	case *ast.ParenExpr:
		return a.freshExpr(e.X)
	case *ast.UnaryExpr:
		switch e.Op {
		case token.AND:
			if _, ok := e.X.(*ast.CompositeLit); ok {
				return true
			}
			if id, ok := e.X.(*ast.Ident); ok {
				c := a.identClass(id)
				return c == "local" || c == "param" || c == "result" // address of a variable of this call
			}
			return false
		case token.RANGE:
			return false // element of something else
		case token.ARROW:
			return false
		}
		return true // arithmetic / logical: a value
	case *ast.StarExpr:
		return true // a copy of the pointee (struct copy); only one level below is local
	case *ast.Ident:
		if e.Name == "nil" || e.Name == "true" || e.Name == "false" {
			return true
		}
		switch a.identClass(e) {
		case "local", "result":
			return a.freshVar(e.Obj)
		}
		return false
	case *ast.CallExpr:
		if id, ok := e.Fun.(*ast.Ident); ok && id.Obj == nil {
			switch id.Name {
			case "make", "new", "len", "cap", "min", "max":
				return true
			case "append":
				return len(e.Args) > 0 && a.freshExpr(e.Args[0])
			}
		}
		if a.isConversion(e) {
			return len(e.Args) == 1 && a.freshExpr(e.Args[0])
		}
		switch f := e.Fun.(type) {
		case *ast.Ident:
			if g, ok := a.p.funcs[f.Name]; ok && a.identClass(f) == "other" {
				return a.p.fresh[g]
			}
		case *ast.IndexExpr: // generic instantiation
			if id, ok := f.X.(*ast.Ident); ok {
				if g, ok := a.p.funcs[id.Name]; ok {
					return a.p.fresh[g]
				}
			}
		case *ast.SelectorExpr:
			if id, ok := f.X.(*ast.Ident); ok && id.Obj == nil {
				if _, isImp := a.imports[id.Name]; isImp {
					return freshExternal[id.Name+"."+f.Sel.Name]
				}
			}
			ms := a.p.methods[f.Sel.Name]
			if len(ms) == 0 {
				return false
			}
			for _, m := range ms {
				if !a.p.fresh[m] {
					return false
				}
			}
			return true
		}
		return false
	}
	return false
}

func (a *fnAnalysis) freshVar(obj *ast.Object) bool {
	if obj == nil {
		return false
	}
	if v, ok := a.defsKnown[obj]; ok {
		return v
	}
	if a.visiting[obj] {
		return true // self reference (x = append(x, ...))
	}
	a.visiting[obj] = true
	defer delete(a.visiting, obj)
	ds, ok := a.defs[obj]
	if !ok {
		return false
	}
	res := true
	for _, d := range ds {
		if !a.freshExpr(d) {
			res = false
			break
		}
	}
	if len(a.visiting) == 1 {
		a.defsKnown[obj] = res
		if res {
			for _, d := range ds {
				a.noteFreshCalls(d)
			}
		}
	}
	return res
}

// compositeField: for a local defined exactly once by (&)T{...}, the expression given for field name.
func (a *fnAnalysis) compositeField(obj *ast.Object, field string) (ast.Expr, bool) {
	ds := a.defs[obj]
	if len(ds) != 1 || ds[0] == nil {
		return nil, false
	}
	e := ds[0]
	if u, ok := e.(*ast.UnaryExpr); ok && u.Op == token.AND {
		e = u.X
	}
	cl, ok := e.(*ast.CompositeLit)
	if !ok {
		return nil, false
	}
	for _, el := range cl.Elts {
		if kv, ok := el.(*ast.KeyValueExpr); ok {
			if k, ok := kv.Key.(*ast.Ident); ok && k.Name == field {
				return kv.Value, true
			}
		}
	}
	return nil, false
}

// classify a designator that is written one level below `extra` more steps
// (extra = 1 for "the elements of", as in delete(m, k) or copy(dst, src)).
// Returns "" when the write stays inside this call's own memory.
func (a *fnAnalysis) classify(e ast.Expr, extra int) (class string, root *ast.Ident) {
	if u, ok := e.(*ast.UnaryExpr); ok && u.Op == token.AND && extra > 0 {
		return a.classify(u.X, extra-1)
	}
	r, depth, ext, opaque := rootOf(e, a.imports)
	depth += extra
	if opaque || r == nil {
		if call, ok := e.(*ast.CallExpr); ok && a.freshExpr(call) && depth <= 1 {
			return "", nil
		}
		if c := a.reflectClass(e); c != "" {
			return c, nil
		}
		return "opaque", nil
	}
	if r.Name == "_" {
		return "", nil
	}
	if ext {
		return "extvar", r
	}
	switch a.identClass(r) {
	case "pkgvar":
		return "pkgvar", r
	case "recv":
		if depth == 0 {
			return "", r
		}
		return "recv", r
	case "param":
		if depth == 0 {
			return "", r
		}
		return "param", r
	case "local", "result":
		if depth == 0 {
			return "", r
		}
		if a.freshVar(r.Obj) {
			if depth == 1 {
				return "", r
			}
			// x.f[...] / x.f.g where x := &T{f: <fresh>}
			if depth == 2 {
				if name, ok := firstField(e, r); ok {
					if v, ok := a.compositeField(r.Obj, name); ok && a.freshExpr(v) {
						return "", r
					}
				}
			}
			return "fresh-deep", r
		}
		return "alias", r
	}
	return "unknown", r
}

// reflectClass: e is a chain of method calls rooted at a local reflect.Value.
// "reflect-fresh" when that value comes from reflect.New only.
func (a *fnAnalysis) reflectClass(e ast.Expr) string {
	for {
		switch x := e.(type) {
		case *ast.CallExpr:
			sel, ok := x.Fun.(*ast.SelectorExpr)
			if !ok {
				return ""
			}
			e = sel.X
			continue
		case *ast.ParenExpr:
			e = x.X
			continue
		case *ast.Ident:
			if c := a.identClass(x); c != "local" {
				return ""
			}
			ds := a.defs[x.Obj]
			if len(ds) == 0 {
				return ""
			}
			allNew := true
			for _, d := range ds {
				c, ok := d.(*ast.CallExpr)
				if !ok {
					return ""
				}
				t := norm(render(c.Fun))
				if !strings.HasPrefix(t, "reflect.") {
					return ""
				}
				if t != "reflect.New" {
					allNew = false
				}
			}
			if allNew {
				return "reflect-fresh"
			}
			return "reflect"
		}
		return ""
	}
}

// noteFreshCalls records the in-package allocating functions an accepted
// freshness argument leans on.
func (a *fnAnalysis) noteFreshCalls(n ast.Node) {
	if !a.track || n == nil {
		return
	}
	ast.Inspect(n, func(x ast.Node) bool {
		call, ok := x.(*ast.CallExpr)
		if !ok {
			return true
		}
		fun := call.Fun
		if ix, ok := fun.(*ast.IndexExpr); ok {
			fun = ix.X
		}
		switch f := fun.(type) {
		case *ast.Ident:
			if g, ok := a.p.funcs[f.Name]; ok && (f.Obj == nil || f.Obj.Kind == ast.Fun) && a.p.fresh[g] && returnsAllocation(g) {
				a.p.usedFresh[g] = true
			}
		case *ast.SelectorExpr:
			if id, ok := f.X.(*ast.Ident); ok && id.Obj == nil {
				if _, isImp := a.imports[id.Name]; isImp {
					return true
				}
			}
			for _, m := range a.p.methods[f.Sel.Name] {
				if a.p.fresh[m] && returnsAllocation(m) {
					a.p.usedFresh[m] = true
				}
			}
		}
		return true
	})
}

// firstField: the field selected directly on root in designator e (root.f...).
func firstField(e ast.Expr, root *ast.Ident) (string, bool) {
	for {
		switch x := e.(type) {
		case *ast.ParenExpr:
			e = x.X
		case *ast.SelectorExpr:
			if id, ok := x.X.(*ast.Ident); ok && id == root {
				return x.Sel.Name, true
			}
			e = x.X
		case *ast.IndexExpr:
			e = x.X
		case *ast.StarExpr:
			e = x.X
		case *ast.SliceExpr:
			e = x.X
		case *ast.TypeAssertExpr:
			e = x.X
		default:
			return "", false
		}
	}
}

var inPlace = map[string]int{
	"slices.Sort": 0, "slices.SortFunc": 0, "slices.SortStableFunc": 0, "slices.Reverse": 0, "slices.Compact": 0,
	"slices.CompactFunc": 0, "slices.Delete": 0, "slices.DeleteFunc": 0, "slices.Insert": 0, "slices.Replace": 0,
	"sort.Slice": 0, "sort.SliceStable": 0, "sort.Sort": 0, "sort.Stable": 0, "sort.Strings": 0, "sort.Ints": 0,
	"sort.Float64s": 0, "maps.Copy": 0, "maps.DeleteFunc": 0, "maps.Insert": 0, "json.Unmarshal": 1, "xml.Unmarshal": 1,
}

func (a *fnAnalysis) site(pos token.Pos, class, what string) {
	a.out.sites = append(a.out.sites, [3]string{a.p.name, a.nameAt(pos), class + " " + what})
}

func (a *fnAnalysis) markMut(pos token.Pos, class string, root *ast.Ident) {
	if root == nil || root.Obj == nil {
		return
	}
	switch class {
	case "recv":
		a.f.mutRecv = true
	case "param":
		s, i := a.paramIndex(root.Obj)
		if s == nil {
			return
		}
		if s.lit == nil {
			a.f.mutParam[i] = true
		} else {
			if a.p.litMut[s.lit] == nil {
				a.p.litMut[s.lit] = map[int]bool{}
			}
			a.p.litMut[s.lit][i] = true
		}
	}
}

func (a *fnAnalysis) recordWrite(pos token.Pos, e ast.Expr, extra int, op string) {
	class, root := a.classify(e, extra)
	if root != nil {
		a.writeRoot[root] = true
	}
	if class == "" {
		return
	}
	what := short(e)
	if extra > 0 {
		if u, ok := e.(*ast.UnaryExpr); ok && u.Op == token.AND {
			what = short(u.X)
		} else {
			what += "[_]"
		}
	}
	if op != "" {
		what += " (" + op + ")"
	}
	if class == "pkgvar" && root != nil {
		if v := a.p.vars[root.Name]; v != nil {
			v.written = true
		}
	}
	a.site(pos, class, what)
	a.markMut(pos, class, root)
}

func (a *fnAnalysis) writes() {
	ast.Inspect(a.f.decl.Body, func(n ast.Node) bool {
		switch n := n.(type) {
		case *ast.AssignStmt:
			if n.Tok == token.DEFINE {
				return true
			}
			for i, l := range n.Lhs {
				op := n.Tok.String()
				if len(n.Rhs) == len(n.Lhs) {
					if c, ok := n.Rhs[i].(*ast.CallExpr); ok {
						if id, ok := c.Fun.(*ast.Ident); ok && id.Name == "append" && id.Obj == nil && len(c.Args) > 0 &&
							short(c.Args[0]) == short(l) {
							op = "= append"
						}
					}
				}
				a.recordWrite(n.Pos(), l, 0, op)
			}
		case *ast.IncDecStmt:
			a.recordWrite(n.Pos(), n.X, 0, n.Tok.String())
		case *ast.RangeStmt:
			if n.Tok == token.ASSIGN {
				if n.Key != nil {
					a.recordWrite(n.Pos(), n.Key, 0, "range =")
				}
				if n.Value != nil {
					a.recordWrite(n.Pos(), n.Value, 0, "range =")
				}
			}
		case *ast.UnaryExpr:
			if n.Op == token.AND {
				if r, _, _, opq := rootOf(n.X, a.imports); !opq && r != nil && a.identClass(r) == "pkgvar" {
					a.writeRoot[r] = true // the address escapes: counted as a write access
					if v := a.p.vars[r.Name]; v != nil && !v.isMutex {
						v.written = true
						a.site(n.Pos(), "pkgvar", "&"+short(n.X)+" (address taken)")
					}
				}
			}
		case *ast.CallExpr:
			switch f := n.Fun.(type) {
			case *ast.Ident:
				if f.Obj != nil {
					break
				}
				switch f.Name {
				case "delete", "clear":
					if len(n.Args) > 0 {
						a.recordWrite(n.Pos(), n.Args[0], 1, f.Name)
					}
				case "copy":
					if len(n.Args) > 0 {
						a.recordWrite(n.Pos(), n.Args[0], 1, "copy")
					}
				case "append":
					if len(n.Args) > 0 {
						// may write into spare capacity of the base slice
						class, root := a.classify(n.Args[0], 1)
						if class != "" {
							a.site(n.Pos(), class, short(n.Args[0])+"[_] (append base)")
							a.markMut(n.Pos(), class, root)
							if class == "pkgvar" && root != nil {
								a.writeRoot[root] = true
								a.p.vars[root.Name].written = true
							}
						}
					}
				}
			case *ast.SelectorExpr:
				if id, ok := f.X.(*ast.Ident); ok && id.Obj == nil {
					if _, isImp := a.imports[id.Name]; isImp {
						if idx, ok := inPlace[id.Name+"."+f.Sel.Name]; ok && idx < len(n.Args) {
							a.recordWrite(n.Pos(), n.Args[idx], 1, id.Name+"."+f.Sel.Name)
						}
						break
					}
				}
				if strings.HasPrefix(f.Sel.Name, "Set") {
					if c := a.reflectClass(f.X); c != "" {
						a.site(n.Pos(), c, short(f.X)+"."+f.Sel.Name+"(...)")
					}
				}
			}
		}
		return true
	})
}

// accesses: every use of a mutable package variable.
func (a *fnAnalysis) accesses() {
	seen := map[[5]string]bool{}
	var visit func(n ast.Node)
	visit = func(n ast.Node) {
		ast.Inspect(n, func(x ast.Node) bool {
			switch x := x.(type) {
			case *ast.SelectorExpr:
				visit(x.X)
				return false
			case *ast.KeyValueExpr:
				if _, ok := x.Key.(*ast.Ident); !ok {
					visit(x.Key)
				}
				visit(x.Value)
				return false
			case *ast.Ident:
				if a.identClass(x) != "pkgvar" {
					return true
				}
				v := a.p.vars[x.Name]
				if v.isMutex || !(v.written || !v.hasInit || v.syncTyped) {
					return true
				}
				rw := "R"
				if a.writeRoot[x] {
					rw = "W"
				}
				ok, mu := a.held(x.Pos(), rw == "W")
				rec := [5]string{a.p.name + "." + a.nameAt(x.Pos()), x.Name, rw, coqBool(ok), mu}
				if !seen[rec] {
					seen[rec] = true
					a.out.accesses = append(a.out.accesses, rec)
				}
			}
			return true
		})
	}
	visit(a.f.decl.Body)
}

// ---------------------------------------------------------------- mutator calls

func (a *fnAnalysis) declTypeName(id *ast.Ident) string {
	if id.Obj == nil {
		return ""
	}
	typeName := func(t ast.Expr) string {
		switch t := t.(type) {
		case *ast.Ident:
			return t.Name
		case *ast.Ellipsis:
			if i, ok := t.Elt.(*ast.Ident); ok {
				return "[]" + i.Name
			}
		case *ast.ArrayType:
			if i, ok := t.Elt.(*ast.Ident); ok {
				return "[]" + i.Name
			}
		}
		return ""
	}
	if fld, ok := id.Obj.Decl.(*ast.Field); ok {
		return typeName(fld.Type)
	}
	if x, ok := a.rangeVar[id.Obj]; ok && a.rangeVal[id.Obj] {
		if xi, ok := x.(*ast.Ident); ok && xi.Obj != nil {
			if fld, ok := xi.Obj.Decl.(*ast.Field); ok {
				return strings.TrimPrefix(typeName(fld.Type), "[]")
			}
		}
	}
	return ""
}

// argClass describes an object handed to a mutator.
func (a *fnAnalysis) argClass(e ast.Expr) (string, string, *ast.Ident) {
	if u, ok := e.(*ast.UnaryExpr); ok && u.Op == token.AND {
		if _, ok := u.X.(*ast.CompositeLit); ok {
			return "fresh", short(e), nil
		}
		c, r := a.classify(u.X, 0)
		if c == "" {
			c = "fresh"
		}
		return c, short(e), r
	}
	r, depth, ext, opaque := rootOf(e, a.imports)
	if opaque || r == nil {
		if a.freshExpr(e) {
			return "fresh", short(e), nil
		}
		return "opaque", short(e), nil
	}
	if ext {
		return "extvar", short(e), r
	}
	switch a.identClass(r) {
	case "pkgvar":
		return "pkgvar", short(e), r
	case "recv":
		return "recv", short(e), r
	case "param":
		return "param", short(e), r
	case "local", "result":
		if a.freshVar(r.Obj) {
			if depth == 0 {
				return "fresh", short(e), r
			}
			if depth == 1 {
				if name, ok := firstField(e, r); ok {
					if v, ok := a.compositeField(r.Obj, name); ok && a.freshExpr(v) {
						return "fresh", short(e), r
					}
				}
			}
			return "fresh-deep", short(e), r
		}
		return "alias", short(e), r
	}
	return "value", short(e), r
}

func (a *fnAnalysis) mutatorCalls(record bool) (changed bool) {
	p := a.p
	note := func(pos token.Pos, callee string, e ast.Expr) {
		class, what, root := a.argClass(e)
		if record {
			a.out.calls = append(a.out.calls, [4]string{p.name, a.nameAt(pos), callee, class + " " + what})
			return
		}
		before := a.f.mutRecv
		nb := len(a.f.mutParam)
		nl := 0
		for _, m := range p.litMut {
			nl += len(m)
		}
		a.markMut(pos, class, root)
		nl2 := 0
		for _, m := range p.litMut {
			nl2 += len(m)
		}
		if a.f.mutRecv != before || len(a.f.mutParam) != nb || nl2 != nl {
			changed = true
		}
	}
	ast.Inspect(a.f.decl.Body, func(n ast.Node) bool {
		call, ok := n.(*ast.CallExpr)
		if !ok {
			return true
		}
		fun := call.Fun
		if ix, ok := fun.(*ast.IndexExpr); ok { // generic instantiation f[T](...)
			fun = ix.X
		}
		if ix, ok := fun.(*ast.IndexListExpr); ok {
			fun = ix.X
		}
		switch f := fun.(type) {
		case *ast.Ident:
			if g, ok := p.funcs[f.Name]; ok && (f.Obj == nil || f.Obj.Kind == ast.Fun) {
				var idx []int
				for i := range g.mutParam {
					idx = append(idx, i)
				}
				sort.Ints(idx)
				for _, i := range idx {
					if i < len(call.Args) {
						note(call.Pos(), g.name, call.Args[i])
					}
				}
				break
			}
			// dynamic call of a value whose declared type is a func type with a pointer parameter
			if c := a.identClass(f); c == "local" || c == "param" {
				if tn := a.declTypeName(f); p.mutFuncTypes[tn] {
					for _, arg := range call.Args {
						note(call.Pos(), "dynamic "+tn, arg)
					}
				}
			}
		case *ast.SelectorExpr:
			if id, ok := f.X.(*ast.Ident); ok && id.Obj == nil {
				if _, isImp := a.imports[id.Name]; isImp {
					break
				}
			}
			ms := p.methods[f.Sel.Name]
			recv, params := false, map[int]bool{}
			for _, m := range ms {
				if m.mutRecv {
					recv = true
				}
				for i := range m.mutParam {
					params[i] = true
				}
			}
			if recv {
				note(call.Pos(), "method "+f.Sel.Name, f.X)
			}
			var idx []int
			for i := range params {
				idx = append(idx, i)
			}
			sort.Ints(idx)
			for _, i := range idx {
				if i < len(call.Args) {
					note(call.Pos(), "method "+f.Sel.Name, call.Args[i])
				}
			}
		}
		return true
	})
	return changed
}

// ---------------------------------------------------------------- fresh-returning functions

func (a *fnAnalysis) returnsFresh() bool {
	f := a.f
	if !f.hasRes || f.decl.Body == nil {
		return false
	}
	ok, any := true, false
	ast.Inspect(f.decl.Body, func(n ast.Node) bool {
		if _, isLit := n.(*ast.FuncLit); isLit {
			return false
		}
		if r, isRet := n.(*ast.ReturnStmt); isRet {
			any = true
			if len(r.Results) == 0 {
				// naked return: first named result
				res := f.decl.Type.Results.List[0]
				if len(res.Names) == 0 || !a.freshVar(res.Names[0].Obj) {
					ok = false
				}
				return true
			}
			if !a.freshExpr(r.Results[0]) {
				ok = false
			}
		}
		return true
	})
	return ok && any
}

// ---------------------------------------------------------------- driver

func newAnalysis(f *effFunc, out *effOut) *fnAnalysis {
	a := &fnAnalysis{f: f, p: f.pkg, out: out, imports: f.pkg.imports[f.file],
		defs: map[*ast.Object][]ast.Expr{}, defsKnown: map[*ast.Object]bool{}, rangeVar: map[*ast.Object]ast.Expr{},
		rangeVal: map[*ast.Object]bool{}, writeRoot: map[*ast.Ident]bool{}, visiting: map[*ast.Object]bool{}}
	return a
}

func genEffects(repo string) string {
	out := &effOut{}
	pkgs := []*effPkg{
		loadEffPkg(repo, "errdef", out),
		loadEffPkg(filepath.Join(repo, "resolver"), "resolver", out),
		loadEffPkg(filepath.Join(repo, "unmarshaler"), "unmarshaler", out),
	}
	usedFresh := map[string][3]string{}
	var freshOrder []string
	for _, p := range pkgs {
		if len(p.files) == 0 {
			out.problem("package %s: no source files found", p.name)
		}
		// fresh-returning functions: least fixpoint
		for {
			changed := false
			for _, f := range p.all {
				if f.decl.Body == nil || p.fresh[f] {
					continue
				}
				discard := &effOut{}
				a := newAnalysis(f, discard)
				a.collect()
				if a.returnsFresh() {
					p.fresh[f] = true
					changed = true
				}
			}
			if !changed {
				break
			}
		}
		// pass 1: writes (marks written package variables and direct mutators)
		var as []*fnAnalysis
		for _, f := range p.all {
			if f.decl.Body == nil {
				continue
			}
			a := newAnalysis(f, out)
			a.track = true
			a.collect()
			a.writes()
			as = append(as, a)
		}
		// pass 2: mutators, transitively
		for {
			changed := false
			for _, a := range as {
				if a.mutatorCalls(false) {
					changed = true
				}
			}
			if !changed {
				break
			}
		}
		for _, a := range as {
			a.mutatorCalls(true)
		}
		// pass 3: accesses to mutable package variables
		for _, a := range as {
			a.accesses()
		}
		// which fresh-returning functions justify a "fresh" above: all of them that return pointers we rely on
		// closure: allocating functions called by the ones already used
		for {
			n := len(p.usedFresh)
			for _, a := range as {
				if p.usedFresh[a.f] {
					a.noteFreshCalls(a.f.decl.Body)
				}
			}
			if len(p.usedFresh) == n {
				break
			}
		}
		for _, f := range p.all {
			if p.usedFresh[f] {
				k := p.name + "." + f.name
				usedFresh[k] = [3]string{p.name, f.name, norm(render(f.decl.Body))}
				freshOrder = append(freshOrder, k)
			}
		}
	}

	var b strings.Builder
	b.WriteString(header)
	b.WriteString("(* Effects of packages errdef, resolver, unmarshaler (build tags: default + verif).\n   See /verif/srcgen/effects.go for the extraction rules. *)\n\n")
	fmt.Fprintf(&b, "Definition effects_matched : bool := %s.\n", coqBool(len(out.problems) == 0))
	var probs []string
	for _, pr := range out.problems {
		probs = append(probs, coqStrAscii(pr))
	}
	fmt.Fprintf(&b, "Definition effects_problems : list string := [%s].\n\n", strings.Join(probs, ";\n   "))

	b.WriteString("(* (package, function, target): writes that are not to locals / fresh values *)\n")
	b.WriteString("Definition write_sites : list (string * string * string) :=\n  [")
	for i, s := range out.sites {
		if i > 0 {
			b.WriteString(";\n   ")
		}
		fmt.Fprintf(&b, "(%s, %s, %s)", coqStrAscii(s[0]), coqStrAscii(s[1]), coqStrAscii(s[2]))
	}
	b.WriteString("].\n\n")

	b.WriteString("(* (package, caller, callee, object handed to the mutating callee) *)\n")
	b.WriteString("Definition mutator_calls : list (string * string * string * string) :=\n  [")
	for i, s := range out.calls {
		if i > 0 {
			b.WriteString(";\n   ")
		}
		fmt.Fprintf(&b, "(%s, %s, %s, %s)", coqStrAscii(s[0]), coqStrAscii(s[1]), coqStrAscii(s[2]), coqStrAscii(s[3]))
	}
	b.WriteString("].\n\n")

	b.WriteString("(* (package, function, body) of the allocating functions whose results count as fresh *)\n")
	b.WriteString("Definition fresh_sources : list (string * string * string) :=\n  [")
	for i, k := range freshOrder {
		s := usedFresh[k]
		if i > 0 {
			b.WriteString(";\n   ")
		}
		fmt.Fprintf(&b, "(%s, %s, %s)", coqStrAscii(s[0]), coqStrAscii(s[1]), coqStrAscii(s[2]))
	}
	b.WriteString("].\n\n")

	b.WriteString("(* (function, package variable, R|W, holds an adequate lock, mutex) *)\n")
	b.WriteString("Definition pkgvar_accesses : list (string * string * string * bool * string) :=\n  [")
	for i, s := range out.accesses {
		if i > 0 {
			b.WriteString(";\n   ")
		}
		fmt.Fprintf(&b, "(%s, %s, %s, %s, %s)", coqStrAscii(s[0]), coqStrAscii(s[1]), coqStrAscii(s[2]), s[3], coqStrAscii(s[4]))
	}
	b.WriteString("].\n\n")

	b.WriteString("(* (function, mutex, Lock|RLock, how it is released) *)\n")
	b.WriteString("Definition lock_sites : list (string * string * string * string) :=\n  [")
	for i, s := range out.locks {
		if i > 0 {
			b.WriteString(";\n   ")
		}
		fmt.Fprintf(&b, "(%s, %s, %s, %s)", coqStrAscii(s[0]), coqStrAscii(s[1]), coqStrAscii(s[2]), coqStrAscii(s[3]))
	}
	b.WriteString("].\n\n")

	var initOnly, mutexes []string
	for _, p := range pkgs {
		for _, n := range p.varOrder {
			v := p.vars[n]
			switch {
			case v.isMutex:
				mutexes = append(mutexes, fmt.Sprintf("(%s, %s)", coqStrAscii(p.name), coqStrAscii(n)))
			case v.written || !v.hasInit || v.syncTyped:
			default:
				initOnly = append(initOnly, fmt.Sprintf("(%s, %s)", coqStrAscii(p.name), coqStrAscii(n)))
			}
		}
	}
	b.WriteString("(* package variables with an initialiser that no function writes, takes the address of,\n   or hands to a mutating callee *)\n")
	fmt.Fprintf(&b, "Definition pkgvar_init_only : list (string * string) :=\n  [%s].\n\n", strings.Join(initOnly, ";\n   "))
	fmt.Fprintf(&b, "Definition pkgvar_mutexes : list (string * string) :=\n  [%s].\n\n", strings.Join(mutexes, ";\n   "))
	var st []string
	for _, s := range out.syncT {
		st = append(st, fmt.Sprintf("(%s, %s)", coqStrAscii(s[0]), coqStrAscii(s[1])))
	}
	b.WriteString("(* everything declared with a type from sync or sync/atomic *)\n")
	fmt.Fprintf(&b, "Definition sync_typed : list (string * string) :=\n  [%s].\n", strings.Join(st, ";\n   "))
	return b.String()
}

// returnsAllocation: the function returns a pointer, map or slice it allocated
// (not a plain value): those are the ones freshness arguments lean on.
func returnsAllocation(f *effFunc) bool {
	res := f.decl.Type.Results
	if res == nil || len(res.List) == 0 {
		return false
	}
	switch t := res.List[0].Type.(type) {
	case *ast.StarExpr, *ast.MapType, *ast.ArrayType:
		return true
	case *ast.Ident:
		// named map/slice/pointer types of the package
		if ts, ok := f.pkg.types[t.Name]; ok {
			switch ts.Type.(type) {
			case *ast.StarExpr, *ast.MapType, *ast.ArrayType:
				return true
			}
		}
	}
	return false
}

// coqStrAscii prints a Go string as a Coq string; bytes outside printable ASCII are replaced by '?'.
func coqStrAscii(s string) string {
	var sb strings.Builder
	sb.WriteByte('"')
	for i := 0; i < len(s); i++ {
		c := s[i]
		switch {
		case c == '"':
			sb.WriteString("\"\"")
		case c < 0x20 || c > 0x7e:
			sb.WriteByte('?')
		default:
			sb.WriteByte(c)
		}
	}
	sb.WriteByte('"')
	return sb.String()
}
