package main

// Gen/Bounds.v: the decision structure of tryConvertFloat64 / tryConvertInt64
// (unmarshaler/converter.go) as data: per clause of the outer `switch kind` the
// kinds it serves, the guards in order (each one declines with `return nil, false, nil`
// when it is true), the per-kind (min, max) table of the inner switch evaluated to
// integers, the declared type of min/max and the expression handed to
// reflect.ValueOf(..).Convert(targetType).  Model/Convert.v INTERPRETS these tables
// (conv_f64 / conv_i64), so the model of the numeric binding rules is regenerated
// from the source on every run.

import (
	"fmt"
	"go/ast"
	"go/parser"
	"go/token"
	"math/big"
	"path/filepath"
	"strings"
)

var mathInts = map[string]string{
	"MaxInt": "9223372036854775807", "MinInt": "-9223372036854775808",
	"MaxInt8": "127", "MinInt8": "-128", "MaxInt16": "32767", "MinInt16": "-32768",
	"MaxInt32": "2147483647", "MinInt32": "-2147483648",
	"MaxInt64": "9223372036854775807", "MinInt64": "-9223372036854775808",
	"MaxUint": "18446744073709551615", "MaxUint8": "255", "MaxUint16": "65535",
	"MaxUint32": "4294967295", "MaxUint64": "18446744073709551615",
}

func bigConst(e ast.Expr) (*big.Int, bool) {
	switch e := e.(type) {
	case *ast.BasicLit:
		if e.Kind == token.INT {
			v, ok := new(big.Int).SetString(e.Value, 0)
			return v, ok
		}
	case *ast.ParenExpr:
		return bigConst(e.X)
	case *ast.SelectorExpr:
		if x, ok := e.X.(*ast.Ident); ok && x.Name == "math" {
			if s, ok := mathInts[e.Sel.Name]; ok {
				v, _ := new(big.Int).SetString(s, 10)
				return v, true
			}
		}
	case *ast.UnaryExpr:
		v, ok := bigConst(e.X)
		if !ok {
			return nil, false
		}
		switch e.Op {
		case token.SUB:
			return new(big.Int).Neg(v), true
		case token.ADD:
			return v, true
		}
	case *ast.BinaryExpr:
		a, ok1 := bigConst(e.X)
		b, ok2 := bigConst(e.Y)
		if !ok1 || !ok2 {
			return nil, false
		}
		switch e.Op {
		case token.ADD:
			return new(big.Int).Add(a, b), true
		case token.SUB:
			return new(big.Int).Sub(a, b), true
		case token.MUL:
			return new(big.Int).Mul(a, b), true
		case token.SHL:
			if b.IsInt64() && b.Int64() >= 0 && b.Int64() < 200 {
				return new(big.Int).Lsh(a, uint(b.Int64())), true
			}
		}
	case *ast.CallExpr: // float64(c), int64(c), uint64(c) of a constant
		if id, ok := e.Fun.(*ast.Ident); ok && len(e.Args) == 1 {
			switch id.Name {
			case "float64", "int64", "uint64", "int", "uint":
				return bigConst(e.Args[0])
			}
		}
	}
	return nil, false
}

func coqBig(v *big.Int) string {
	if v.Sign() < 0 {
		return "(" + v.String() + ")%Z"
	}
	return v.String() + "%Z"
}

type boundsCtx struct {
	val  string            // name of the value parameter (f64 / i64)
	back map[string]string // local -> rendered initialiser, e.g. f32 -> float32(i64)
}

func coqComment(s string) string {
	return strings.ReplaceAll(strings.ReplaceAll(s, "(*", "( *"), "*)", "* )")
}

func (c *boundsCtx) operand(e ast.Expr) string {
	switch x := e.(type) {
	case *ast.ParenExpr:
		return c.operand(x.X)
	case *ast.Ident:
		switch x.Name {
		case c.val:
			return "PVal"
		case "min":
			return "PMin"
		case "max":
			return "PMax"
		}
	case *ast.SelectorExpr:
		if id, ok := x.X.(*ast.Ident); ok && id.Name == "math" && x.Sel.Name == "MaxFloat32" {
			return "PMaxFloat32"
		}
	case *ast.CallExpr:
		if len(x.Args) == 1 {
			fn := norm(render(x.Fun))
			arg := x.Args[0]
			if id, ok := arg.(*ast.Ident); ok {
				if fn == "math.Abs" && id.Name == c.val {
					return "PAbsVal"
				}
				if fn == "uint64" && id.Name == c.val {
					return "PU64Val"
				}
				if fn == "int64" && c.back[id.Name] == "float32("+c.val+")" {
					return "PBackI64"
				}
			}
		}
	}
	if v, ok := bigConst(e); ok {
		return "(PConst " + coqBig(v) + ")"
	}
	return "(PUnknown " + coqStr(norm(render(e))) + ")"
}

var cmpNames = map[token.Token]string{token.LSS: "CLt", token.GTR: "CGt", token.LEQ: "CLe", token.GEQ: "CGe", token.EQL: "CEq", token.NEQ: "CNe"}

// cond flattens a || b || c into guards; anything else is GUnknown.
func (c *boundsCtx) cond(e ast.Expr) []string {
	switch x := e.(type) {
	case *ast.ParenExpr:
		return c.cond(x.X)
	case *ast.BinaryExpr:
		if x.Op == token.LOR {
			return append(c.cond(x.X), c.cond(x.Y)...)
		}
		if n, ok := cmpNames[x.Op]; ok {
			return []string{fmt.Sprintf("GCmp %s %s %s", c.operand(x.X), n, c.operand(x.Y))}
		}
	}
	return []string{"GUnknown " + coqStr(norm(render(e)))}
}

func declines(b *ast.BlockStmt) bool {
	if b == nil || len(b.List) != 1 {
		return false
	}
	r, ok := b.List[0].(*ast.ReturnStmt)
	return ok && norm(render(r)) == "return nil, false, nil"
}

type boundsClause struct {
	kinds  []string
	guards []string
	table  []string
	bty    string
	conv   string
}

func kindName(e ast.Expr) string {
	if s, ok := e.(*ast.SelectorExpr); ok {
		if id, ok := s.X.(*ast.Ident); ok && id.Name == "reflect" {
			return s.Sel.Name
		}
	}
	return "?" + norm(render(e))
}

// assignments `min, max = A, B` / `max = A` of one inner case body (an `if strconv.IntSize == 64`
// is resolved to its then-branch: 64-bit int/uint, amd64)
func (c *boundsCtx) innerAssign(stmts []ast.Stmt) (mn, mx *big.Int, ok bool) {
	mn, mx = big.NewInt(0), big.NewInt(0)
	ok = true
	for _, s := range stmts {
		switch s := s.(type) {
		case *ast.IfStmt:
			if norm(render(s.Cond)) == "strconv.IntSize == 64" && s.Init == nil {
				a, b, k := c.innerAssign(s.Body.List)
				return a, b, k
			}
			return mn, mx, false
		case *ast.AssignStmt:
			if s.Tok != token.ASSIGN || len(s.Lhs) != len(s.Rhs) {
				return mn, mx, false
			}
			for i, l := range s.Lhs {
				id, isId := l.(*ast.Ident)
				v, isConst := bigConst(s.Rhs[i])
				if !isId || !isConst {
					return mn, mx, false
				}
				switch id.Name {
				case "min":
					mn = v
				case "max":
					mx = v
				default:
					return mn, mx, false
				}
			}
		default:
			return mn, mx, false
		}
	}
	return mn, mx, ok
}

func (c *boundsCtx) clause(cc *ast.CaseClause) boundsClause {
	var cl boundsClause
	for _, e := range cc.List {
		cl.kinds = append(cl.kinds, kindName(e))
	}
	c.back = map[string]string{}
	for _, s := range cc.Body {
		switch s := s.(type) {
		case *ast.IfStmt:
			if s.Else != nil || !declines(s.Body) {
				cl.guards = append(cl.guards, "GUnknown "+coqStr(norm(render(s.Cond))))
				continue
			}
			if s.Init != nil {
				if norm(render(s.Init)) == "_, frac := math.Modf("+c.val+")" && norm(render(s.Cond)) == "frac != 0" {
					cl.guards = append(cl.guards, "GModf")
				} else {
					cl.guards = append(cl.guards, "GUnknown "+coqStr(norm(render(s.Init))+"; "+norm(render(s.Cond))))
				}
				continue
			}
			cl.guards = append(cl.guards, c.cond(s.Cond)...)
		case *ast.DeclStmt: // var min, max float64
			if gd, ok := s.Decl.(*ast.GenDecl); ok && gd.Tok == token.VAR {
				for _, sp := range gd.Specs {
					if vs, ok := sp.(*ast.ValueSpec); ok && vs.Type != nil && len(vs.Values) == 0 {
						cl.bty = norm(render(vs.Type))
						continue
					}
					cl.guards = append(cl.guards, "GUnknown "+coqStr(norm(render(s))))
				}
			}
		case *ast.SwitchStmt:
			if s.Init != nil || s.Tag == nil || norm(render(s.Tag)) != "kind" {
				cl.guards = append(cl.guards, "GUnknown \"inner switch\"")
				continue
			}
			for _, st := range s.Body.List {
				ic := st.(*ast.CaseClause)
				mn, mx, ok := c.innerAssign(ic.Body)
				if !ok {
					cl.guards = append(cl.guards, "GUnknown "+coqStr("inner case "+norm(render(ic))))
					continue
				}
				for _, e := range ic.List {
					cl.table = append(cl.table, fmt.Sprintf("(%s, (%s, %s))", coqStr(kindName(e)), coqBig(mn), coqBig(mx)))
				}
			}
		case *ast.AssignStmt:
			// f32 := float32(i64) ; val := reflect.ValueOf(X).Convert(targetType).Interface()
			if s.Tok == token.DEFINE && len(s.Lhs) == 1 && len(s.Rhs) == 1 {
				name := norm(render(s.Lhs[0]))
				rhs := norm(render(s.Rhs[0]))
				if strings.HasPrefix(rhs, "reflect.ValueOf(") && strings.HasSuffix(rhs, ").Convert(targetType).Interface()") {
					cl.conv = strings.TrimSuffix(strings.TrimPrefix(rhs, "reflect.ValueOf("), ").Convert(targetType).Interface()")
					continue
				}
				if name == "v, ok" {
					continue
				}
				c.back[name] = rhs
				continue
			}
			if norm(render(s)) == "v, ok := fk.NewValue(val)" {
				continue
			}
			cl.guards = append(cl.guards, "GUnknown "+coqStr(norm(render(s))))
		case *ast.ReturnStmt:
			if norm(render(s)) != "return v, ok, nil" {
				cl.guards = append(cl.guards, "GUnknown "+coqStr(norm(render(s))))
			}
		default:
			cl.guards = append(cl.guards, "GUnknown "+coqStr(norm(render(s))))
		}
	}
	return cl
}

func boundsOf(fd *ast.FuncDecl) ([]boundsClause, string) {
	ps := paramNames(fd)
	if len(ps) != 3 {
		return nil, "unexpected parameter list"
	}
	c := &boundsCtx{val: ps[1]}
	var sw *ast.SwitchStmt
	for i, s := range fd.Body.List {
		switch s := s.(type) {
		case *ast.AssignStmt:
			if i != 0 || norm(render(s)) != "kind := targetType.Kind()" {
				return nil, "unexpected statement " + norm(render(s))
			}
		case *ast.SwitchStmt:
			if sw != nil || s.Init != nil || s.Tag == nil || norm(render(s.Tag)) != "kind" {
				return nil, "unexpected switch"
			}
			sw = s
		case *ast.ReturnStmt:
			if norm(render(s)) != "return nil, false, nil" {
				return nil, "unexpected final return"
			}
		default:
			return nil, "unexpected statement " + norm(render(s))
		}
	}
	if sw == nil {
		return nil, "no switch on kind"
	}
	var out []boundsClause
	for _, st := range sw.Body.List {
		cc := st.(*ast.CaseClause)
		if cc.List == nil {
			return nil, "default clause"
		}
		out = append(out, c.clause(cc))
	}
	return out, ""
}

func genBounds(repo string) string {
	var b strings.Builder
	b.WriteString(header)
	b.WriteString("Inductive operand := PVal | PMin | PMax | PConst (z : Z) | PAbsVal | PU64Val | PBackI64 | PMaxFloat32 | PUnknown (s : string).\n")
	b.WriteString("Inductive cmpop := CLt | CGt | CLe | CGe | CEq | CNe.\n")
	b.WriteString("(* a guard that evaluates to true declines the value (return nil, false, nil) *)\n")
	b.WriteString("Inductive guard := GModf | GCmp (l : operand) (c : cmpop) (r : operand) | GUnknown (s : string).\n")
	b.WriteString("Record clause := { cl_kinds : list string; cl_guards : list guard; cl_bounds : list (string * (Z * Z));\n                   cl_bty : string; cl_conv : string }.\n\n")
	path := filepath.Join(repo, "unmarshaler", "converter.go")
	f, err := parser.ParseFile(fset, path, nil, 0)
	funcs := map[string]*ast.FuncDecl{}
	if err != nil {
		complain("bounds: %v", err)
	} else {
		for _, d := range f.Decls {
			if fd, ok := d.(*ast.FuncDecl); ok && fd.Recv == nil && fd.Body != nil {
				funcs[fd.Name.Name] = fd
			}
		}
	}
	allOK := true
	for _, it := range []struct{ fn, name string }{{"tryConvertFloat64", "f64_clauses"}, {"tryConvertInt64", "i64_clauses"}} {
		fd, ok := funcs[it.fn]
		var cls []boundsClause
		reason := "function not found"
		if ok {
			cls, reason = boundsOf(fd)
		}
		if reason != "" {
			complain("bounds: %s: %s", it.fn, reason)
			allOK = false
			fmt.Fprintf(&b, "(* SRCGEN-MISMATCH %s: %s *)\nDefinition %s : list clause := [].\n\n", it.fn, coqComment(reason), it.name)
			continue
		}
		fmt.Fprintf(&b, "(* %s: %s *)\nDefinition %s : list clause :=\n  [", posOf(fd), it.fn, it.name)
		for i, cl := range cls {
			if i > 0 {
				b.WriteString(";\n   ")
			}
			fmt.Fprintf(&b, "{| cl_kinds := %s;\n      cl_guards := [%s];\n      cl_bounds := [%s];\n      cl_bty := %s; cl_conv := %s |}",
				coqStrList(cl.kinds), strings.Join(cl.guards, "; "), strings.Join(cl.table, "; "), coqStr(cl.bty), coqStr(cl.conv))
			for _, g := range cl.guards {
				if strings.Contains(g, "GUnknown") || strings.Contains(g, "PUnknown") {
					complain("bounds: %s: unrecognised guard %s", it.fn, g)
				}
			}
		}
		b.WriteString("].\n\n")
	}
	fmt.Fprintf(&b, "Definition bounds_matched : bool := %s.\n", coqBool(allOK))
	return b.String()
}
