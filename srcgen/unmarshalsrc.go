package main

// Gen/UnmarshalSrc.v: the three functions of unmarshaler/unmarshaler.go that Model/Unmarshal.v
// transcribes (unmarshal, unmarshalCause, resolveKind), alpha-renamed and compared statement group by
// statement group with the shapes the model was written from.  resolveKind is emitted as a decision tree
// that Model/Unmarshal.v interprets; for unmarshal and unmarshalCause the result is one boolean per
// statement group (in source order) and one for the whole body, so that an edit shows which part of the
// transcription no longer describes the code.

import (
	"fmt"
	"path/filepath"
	"regexp"
	"strings"
)

type seg struct{ name, text string }

var unmarshalSegs = []seg{
	{"nil input is ErrInternal", `if v0 == nil {return nil, ErrInternal.New("decoded data is nil")}`},
	{"the kind is resolved first; its failure is returned as it is", `v1, v2 := r.resolveKind(errdef.Kind(v0.Kind)) if v2 != nil {return nil, v2}`},
	{"fresh maps for typed and unknown fields", `v3 := make(map[errdef.FieldKey]errdef.FieldValue) v4 := make(map[string]any)`},
	{"fields are visited in name order", `for _, v5 := range slices.Sorted(maps.Keys(v0.Fields)) {v6 := v0.Fields[v5] v7 := v1.Fields().FindKeys(v5) v8 := false`},
	{"a redaction placeholder (string or raw JSON bytes) is kept as an unknown placeholder and nothing else", `switch v9 := v6.(type) {case string: if v9 == redactedStr {v4[v5] = redactedStr continue} case []byte: if bytes.Equal(v9, redactedBytes) {v4[v5] = redactedStr continue}}`},
	{"the definition's keys of that name, in order: a conversion error aborts, the first accepting key binds", `for _, v10 := range v7 {if v9, v11, v2 := tryConvertFieldValue(v10, v6); v2 != nil {return nil, v2} else if v11 {v3[v10] = v9 v8 = true break}}`},
	{"then the custom keys of that name, in order, the same way", `if !v8 {for _, v12 := range r.customFieldKeys {if v12.String() == v5 {if v9, v11, v2 := tryConvertFieldValue(v12, v6); v2 != nil {return nil, v2} else if v11 {v3[v12] = v9 v8 = true break}}} if v8 {continue}`},
	{"strict mode: ErrUnknownField carrying the field name and the kind", `if r.strictMode {return nil, ErrUnknownField.WithOptions(fieldNameField(v5), kindField(v0.Kind)).Errorf("unknown field %q in kind %q", v5, v0.Kind)}`},
	{"lenient mode: the decoded value is kept under its name", `v4[v5] = v6}}`},
	{"causes are restored in order; a failure of unmarshalCause is returned as it is", `var causes []error for _, v13 := range v0.Causes {v14, v2 := r.unmarshalCause(v13) if v2 != nil {return nil, v2} causes = append(causes, v14)}`},
	{"the restored error carries definition, message, both field maps, stack and causes", `return &unmarshaledError{def: v1, msg: v0.Message, fields: v3, unknownFields: v4, stack: v0.Stack, causes: causes}, nil`},
}

var causeSegs = []seg{
	{"the cause is first unmarshaled as an errdef error", `v1, v2 := r.unmarshal(v0) if v2 != nil {`},
	{"only ErrInternal propagates", `if errors.Is(v2, ErrInternal) {return nil, ErrInternal.Wrapf(v2, "failed to unmarshal cause data")}`},
	{"message and type name fall back to placeholders", `v3 := v0.Message if v3 == "" {v3 = fmt.Sprintf("<unknown: %+v>", v0)} v4 := v0.Type if v4 == "" {v4 = "<unknown>"}`},
	{"nested causes are restored in order; a failure is returned", `var nestedCauses []error for _, v5 := range v0.Causes {v6, v2 := r.unmarshalCause(v5) if v2 != nil {return nil, v2} nestedCauses = append(nestedCauses, v6)}`},
	{"without nested causes: a registered definition named by the message, then a registered sentinel", `if len(nestedCauses) == 0 {if v4 == errdefDefinitionTypeName {if v7, v8 := r.resolveDefinitionFromMessage(v3); v8 {return v7, nil}} if v9, v8 := r.sentinelErrors[sentinelKey{typeName: v4, message: v3}]; v8 {return v9, nil}}`},
	{"otherwise an UnknownCauseError with message, type name and nested causes", `v10 := &UnknownCauseError{msg: v3, typeName: v4, causes: nestedCauses} return v10, nil}`},
	{"a restored errdef cause is returned as it is", `return v1, nil`},
}

// the dispatcher of the binding rules and the JSON route (unmarshaler/converter.go), as Model/Convert.try_convert
// transcribes them
var dispatchSegs = []seg{
	{"1. the key's own NewValue (type assertion) accepts the value as it is", `if v2, v3 := v0.NewValue(v1); v3 {return v2, true, nil}`},
	{"2. a key of interface type stops here", `v4 := reflect.TypeOf(v0.ZeroValue().Value()) if v4 == nil {return nil, false, nil}`},
	{"3. by the dynamic type of the decoded value: float64, int64, then map[string]any / []any through JSON; an error aborts", `switch v5 := v1.(type) {case float64: if v2, v3, v6 := tryConvertFloat64(v0, v5, v4); v6 != nil {return nil, false, v6} else if v3 {return v2, true, nil} case int64: if v2, v3, v6 := tryConvertInt64(v0, v5, v4); v6 != nil {return nil, false, v6} else if v3 {return v2, true, nil} case map[string]any, []any: if v2, v3, v6 := tryConvertViaJSON(v0, v1, v4); v6 != nil {return nil, false, v6} else if v3 {return v2, true, nil}}`},
	{"4. same underlying kind (ConvertibleTo)", `v7 := reflect.TypeOf(v1) if v2, v3, v6 := tryConvertByUnderlyingType(v0, v1, v4, v7); v6 != nil {return nil, false, v6} else if v3 {return v2, true, nil}`},
	{"5. pointer keys, then declined", `if v2, v3, v6 := tryConvertPointer(v0, v1, v4, v7); v6 != nil {return nil, false, v6} else if v3 {return v2, true, nil} return nil, false, nil`},
}

var viaJSONSegs = []seg{
	{"JSON-decoded targets: pointer to struct, struct, map, slice, array (reflect.Array = 17 in the model); anything else declines", `v3 := v2.Kind() if v3 == reflect.Pointer {if v2.Elem().Kind() != reflect.Struct {return nil, false, nil}} else if v3 != reflect.Struct && v3 != reflect.Map && v3 != reflect.Slice && v3 != reflect.Array {return nil, false, nil}`},
	{"a value encoding/json cannot marshal is ErrInternal", `v4, v5 := json.Marshal(v1) if v5 != nil {return nil, false, ErrInternal.Wrapf(v5, "failed to marshal value")}`},
	{"a document that does not decode into the key's type is ErrInternal", `v6 := reflect.New(v2) if v5 := json.Unmarshal(v4, v6.Interface()); v5 != nil {return nil, false, ErrInternal.Wrapf(v5, "failed to unmarshal to %s", v2)}`},
	{"the decoded value goes through the key's NewValue", `v7 := v6.Elem().Interface() v8, v9 := v0.NewValue(v7) return v8, v9, nil`},
}

// resolveKind as a decision tree
var (
	reRKDefault = regexp.MustCompile(`^if v1, v2 := r\.resolver\.\(\*resolver\.DefaultResolver\); v2 \{(.*)\} (v3, v2 := r\.resolver\.ResolveKind\(v0\) .*)$`)
	reRKStrict  = regexp.MustCompile(`^if r\.strictMode \{(.*)\} (return .*)$`)
)

func rkLeaf(s, recv string) string {
	switch s {
	case "v3, v2 := " + recv + ".ResolveKind(v0) if !v2 {return nil, ErrUnknownKind.WithOptions(kindField(v0)).New(\"unknown kind\")} return v3, nil":
		return "RKStrictLookup"
	case "return " + recv + ".ResolveKindOrDefault(v0), nil":
		return "RKOrDefault"
	}
	return ""
}

func rkTree(body string) (string, bool) {
	body = strings.TrimSuffix(strings.TrimPrefix(body, "{"), "}")
	m := reRKDefault.FindStringSubmatch(body)
	if m == nil {
		if l := rkLeaf(body, "r.resolver"); l != "" {
			return l, true
		}
		return "RKUnknown", false
	}
	elseT := rkLeaf(m[2], "r.resolver")
	thenT := ""
	if s := reRKStrict.FindStringSubmatch(m[1]); s != nil {
		a, b := rkLeaf(s[1], "v1"), rkLeaf(s[2], "v1")
		if a != "" && b != "" {
			thenT = "(RKIfStrict " + a + " " + b + ")"
		}
	} else if l := rkLeaf(m[1], "v1"); l != "" {
		thenT = l
	}
	if thenT == "" || elseT == "" {
		return "RKUnknown", false
	}
	return "(RKIfDefault " + thenT + " " + elseT + ")", true
}

func segTable(what, body string, segs []seg) (string, bool, bool) {
	var parts []string
	var rows []string
	all := true
	for _, s := range segs {
		ok := strings.Contains(body, s.text)
		if !ok {
			all = false
			problems = append(problems, what+": statement group not found: "+s.name)
		}
		parts = append(parts, s.text)
		rows = append(rows, fmt.Sprintf("(%s, %v)", coqStr(s.name), ok))
	}
	whole := body == normSrc("{"+strings.Join(parts, " ")+"}")
	if !whole && all {
		problems = append(problems, what+": every statement group is present but the body has more or other statements")
	}
	return "[" + strings.Join(rows, ";\n  ") + "]", all, whole
}

func genUnmarshalSrc(repo string) string {
	bodies, _ := alphaBodies(filepath.Join(repo, "unmarshaler"))
	uT, uAll, uWhole := segTable("unmarshal", bodies["Unmarshaler.unmarshal"], unmarshalSegs)
	cT, cAll, cWhole := segTable("unmarshalCause", bodies["Unmarshaler.unmarshalCause"], causeSegs)
	dT, dAll, dWhole := segTable("tryConvertFieldValue", bodies["tryConvertFieldValue"], dispatchSegs)
	jT, jAll, jWhole := segTable("tryConvertViaJSON", bodies["tryConvertViaJSON"], viaJSONSegs)
	tree, tOK := rkTree(bodies["Unmarshaler.resolveKind"])
	if !tOK {
		problems = append(problems, "resolveKind: unrecognised shape: "+bodies["Unmarshaler.resolveKind"])
	}
	fromMsg := bodies["Unmarshaler.resolveDefinitionFromMessage"] == "{return r.resolver.ResolveKind(errdef.Kind(v0))}"
	entry := bodies["Unmarshaler.Unmarshal"] == "{v1, v2 := r.decoder(v0) if v2 != nil {return nil, ErrDecodeFailure.Wrap(v2)} return r.unmarshal(v1)}"
	if !fromMsg {
		problems = append(problems, "resolveDefinitionFromMessage: unrecognised shape")
	}
	if !entry {
		problems = append(problems, "Unmarshal: unrecognised shape")
	}
	var sb strings.Builder
	sb.WriteString("(* GENERATED by srcgen from unmarshaler/unmarshaler.go - do not edit. *)\n")
	sb.WriteString("From Coq Require Import String List.\nImport ListNotations.\nLocal Open Scope string_scope.\n\n")
	sb.WriteString("(* Unmarshaler.resolveKind as a decision tree *)\n")
	sb.WriteString("Inductive rktree :=\n| RKIfDefault (is_default_resolver not_default : rktree)\n| RKIfStrict (strict lenient : rktree)\n| RKStrictLookup   (* ResolveKind; a miss is ErrUnknownKind carrying the kind *)\n| RKOrDefault      (* ResolveKindOrDefault *)\n| RKUnknown.\n")
	fmt.Fprintf(&sb, "Definition resolve_kind_tree : rktree := %s.\n\n", tree)
	sb.WriteString("(* Unmarshaler.unmarshal: statement groups of the transcription, in source order, found in the code? *)\n")
	fmt.Fprintf(&sb, "Definition unmarshal_groups : list (string * bool) := %s.\n", uT)
	fmt.Fprintf(&sb, "Definition unmarshal_is_exactly_these : bool := %v.\n\n", uAll && uWhole)
	sb.WriteString("(* Unmarshaler.unmarshalCause *)\n")
	fmt.Fprintf(&sb, "Definition unmarshal_cause_groups : list (string * bool) := %s.\n", cT)
	fmt.Fprintf(&sb, "Definition unmarshal_cause_is_exactly_these : bool := %v.\n\n", cAll && cWhole)
	sb.WriteString("(* tryConvertFieldValue / tryConvertViaJSON (converter.go) *)\n")
	fmt.Fprintf(&sb, "Definition dispatch_groups : list (string * bool) := %s.\n", dT)
	fmt.Fprintf(&sb, "Definition dispatch_is_exactly_these : bool := %v.\n", dAll && dWhole)
	fmt.Fprintf(&sb, "Definition via_json_groups : list (string * bool) := %s.\n", jT)
	fmt.Fprintf(&sb, "Definition via_json_is_exactly_these : bool := %v.\n\n", jAll && jWhole)
	fmt.Fprintf(&sb, "Definition definition_from_message_is_resolve_kind : bool := %v.\n", fromMsg)
	fmt.Fprintf(&sb, "Definition entry_decodes_then_unmarshals : bool := %v.\n", entry)
	return sb.String()
}
