package main

// Gen/GoLiteSrc.v: function bodies of /repo translated, statement by statement, into the deep-embedded
// language of Model/GoLite.v.  The translation is syntactic (go/ast only) and knows nothing about what a
// function is for:
//
//   - Go's block scoping and shadowing are resolved here: every declared variable gets its own name
//     (v0, v1, ... in declaration order; receiver and parameters first), so the interpreter can use one
//     flat environment;
//   - an identifier that is not a local variable is a package (import name) or a package-level object
//     (`global:Name`);
//   - selectors, method calls, conversions, builtins, composite literals, index expressions, type
//     assertions become calls of named primitives whose meaning the Coq side supplies (`ext`);
//   - what the fragment cannot express (closures, defer, goto / labels, three-clause for loops,
//     assignment through selectors or pointers, fallthrough, an unlabelled break inside a switch,
//     named results) makes the WHOLE function `unsupported` with the reason - never a silent guess;
//   - value semantics of maps and slices is only right while a map / slice that is still written is
//     not reachable through a second name: every variable that is the target of `m[k] = v` or
//     `x = append(x, ..)` may otherwise occur only as an index base, under len / cap, as a range
//     operand, as the first argument of its own append, or inside a return statement.  Anything else is
//     reported as `aliasing`.
//
// The output lists, per function, the parameters, the body, the primitives it calls and the two flags.

import (
	"bytes"
	"fmt"
	"go/ast"
	"go/parser"
	"go/printer"
	"go/token"
	"os"
	"path/filepath"
	"sort"
	"strconv"
	"strings"
)

type glFunc struct {
	key      string // ".unmarshal" for a method called through a selector, "tryConvertFieldValue" for a function
	recvType string
	params   []string
	locals   []string
	body     string
	prims    map[string]bool
	unsup    []string
	alias    []string
}

type glScope struct {
	vars   map[string]string
	parent *glScope
}

type glTr struct {
	fset    *token.FileSet
	imports map[string]bool
	scope   *glScope
	n       int
	fn      *glFunc
	written map[string]bool // renamed variables that are targets of m[k]= / x = append(x, ..)
	writes  map[string][]ast.Node
	inSwitch int            // depth of enclosing switch statements since the innermost loop
}

func (t *glTr) push()  { t.scope = &glScope{vars: map[string]string{}, parent: t.scope} }
func (t *glTr) pop()   { t.scope = t.scope.parent }
func (t *glTr) unsupported(format string, a ...any) {
	t.fn.unsup = append(t.fn.unsup, fmt.Sprintf(format, a...))
}

func (t *glTr) lookup(name string) (string, bool) {
	for s := t.scope; s != nil; s = s.parent {
		if v, ok := s.vars[name]; ok {
			return v, true
		}
	}
	return "", false
}

func (t *glTr) declare(name string) string {
	if name == "_" {
		return "_"
	}
	v := fmt.Sprintf("v%d", t.n)
	t.n++
	t.scope.vars[name] = v
	return v
}

// declareOrAssign implements `:=`: a name already declared in the CURRENT scope is assigned.
func (t *glTr) declareOrAssign(name string) string {
	if name == "_" {
		return "_"
	}
	if v, ok := t.scope.vars[name]; ok {
		return v
	}
	return t.declare(name)
}

func (t *glTr) src(n ast.Node) string {
	var buf bytes.Buffer
	_ = printer.Fprint(&buf, t.fset, n)
	return strings.Join(strings.Fields(buf.String()), " ")
}

func glStr(s string) string { return coqStr(s) }

func glList(items []string) string { return "[" + strings.Join(items, "; ") + "]" }

func glStrList(items []string) string {
	q := make([]string, len(items))
	for i, s := range items {
		q[i] = glStr(s)
	}
	return glList(q)
}

func (t *glTr) call(name string, args ...string) string {
	t.fn.prims[name] = true
	return fmt.Sprintf("(ECall %s %s)", glStr(name), glList(args))
}

func isNilable(e ast.Expr) bool {
	switch x := e.(type) {
	case *ast.ArrayType:
		return x.Len == nil
	case *ast.MapType, *ast.StarExpr, *ast.InterfaceType, *ast.FuncType, *ast.ChanType:
		return true
	case *ast.Ident:
		return x.Name == "error" || x.Name == "any"
	}
	return false
}

func (t *glTr) exprs(es []ast.Expr) []string {
	out := make([]string, len(es))
	for i, e := range es {
		out[i] = t.expr(e)
	}
	return out
}

func (t *glTr) expr(e ast.Expr) string {
	switch x := e.(type) {
	case *ast.ParenExpr:
		return t.expr(x.X)
	case *ast.Ident:
		switch x.Name {
		case "nil":
			if _, ok := t.lookup("nil"); !ok {
				return "ENilLit"
			}
		case "true", "false":
			if _, ok := t.lookup(x.Name); !ok {
				return "(EBoolLit " + x.Name + ")"
			}
		}
		if v, ok := t.lookup(x.Name); ok {
			return "(EVar " + glStr(v) + ")"
		}
		return t.call("global:" + x.Name)
	case *ast.BasicLit:
		switch x.Kind {
		case token.STRING:
			s, err := strconv.Unquote(x.Value)
			if err == nil {
				return "(EStrLit " + glStr(s) + ")"
			}
		case token.INT:
			if v, err := strconv.ParseInt(x.Value, 0, 64); err == nil {
				return "(EIntLit " + coqZ(v) + ")"
			}
		}
		return t.call("lit:" + x.Value)
	case *ast.SelectorExpr:
		if id, ok := x.X.(*ast.Ident); ok {
			if _, local := t.lookup(id.Name); !local && t.imports[id.Name] {
				return t.call("global:" + id.Name + "." + x.Sel.Name)
			}
		}
		return t.call("."+x.Sel.Name, t.expr(x.X))
	case *ast.CallExpr:
		if f, ok := x.Fun.(*ast.Ident); ok && len(x.Args) > 0 {
			if _, local := t.lookup(f.Name); !local {
				switch f.Name {
				case "make":
					kind := "make:other"
					switch x.Args[0].(type) {
					case *ast.MapType:
						kind = "make:map"
					case *ast.ArrayType:
						kind = "make:slice"
					}
					return t.call(kind, t.exprs(x.Args[1:])...)
				case "new":
					return t.call("new:" + t.src(x.Args[0]))
				}
			}
		}
		args := t.exprs(x.Args)
		if x.Ellipsis.IsValid() && len(args) > 0 {
			args[len(args)-1] = t.call("spread", args[len(args)-1])
		}
		switch f := x.Fun.(type) {
		case *ast.SelectorExpr:
			if id, ok := f.X.(*ast.Ident); ok {
				if _, local := t.lookup(id.Name); !local && t.imports[id.Name] {
					return t.call(id.Name+"."+f.Sel.Name, args...)
				}
			}
			return t.call("."+f.Sel.Name, append([]string{t.expr(f.X)}, args...)...)
		case *ast.Ident:
			if _, local := t.lookup(f.Name); local {
				t.unsupported("call of the local function value %s", f.Name)
				return "ENilLit"
			}
			return t.call(f.Name, args...)
		case *ast.ArrayType, *ast.MapType, *ast.StarExpr, *ast.InterfaceType, *ast.ParenExpr, *ast.IndexExpr, *ast.IndexListExpr:
			return t.call("conv:"+t.src(x.Fun), args...)
		case *ast.FuncLit:
			t.unsupported("call of a function literal")
			return "ENilLit"
		}
		t.unsupported("call of %s", t.src(x.Fun))
		return "ENilLit"
	case *ast.IndexExpr:
		return t.call("index", t.expr(x.X), t.expr(x.Index))
	case *ast.SliceExpr:
		part := func(e ast.Expr) string {
			if e == nil {
				return "ENilLit"
			}
			return t.expr(e)
		}
		return t.call("slice", t.expr(x.X), part(x.Low), part(x.High), part(x.Max))
	case *ast.TypeAssertExpr:
		if x.Type == nil {
			t.unsupported("type switch guard outside a type switch")
			return "ENilLit"
		}
		return t.call("assert:"+t.src(x.Type), t.expr(x.X))
	case *ast.StarExpr:
		return t.call("deref", t.expr(x.X))
	case *ast.UnaryExpr:
		switch x.Op {
		case token.NOT:
			return "(ENot " + t.expr(x.X) + ")"
		case token.AND:
			if cl, ok := x.X.(*ast.CompositeLit); ok {
				return t.compositeLit(cl, "&")
			}
			return t.call("addr", t.expr(x.X))
		case token.SUB:
			return t.call("neg", t.expr(x.X))
		}
		return t.call("unary"+x.Op.String(), t.expr(x.X))
	case *ast.BinaryExpr:
		switch x.Op {
		case token.LAND:
			return "(EAnd " + t.expr(x.X) + " " + t.expr(x.Y) + ")"
		case token.LOR:
			return "(EOr " + t.expr(x.X) + " " + t.expr(x.Y) + ")"
		case token.EQL:
			return t.call("==", t.expr(x.X), t.expr(x.Y))
		case token.NEQ:
			return "(ENot " + t.call("==", t.expr(x.X), t.expr(x.Y)) + ")"
		}
		return t.call(x.Op.String(), t.expr(x.X), t.expr(x.Y))
	case *ast.CompositeLit:
		return t.compositeLit(x, "")
	case *ast.FuncLit:
		t.unsupported("function literal")
		return "ENilLit"
	case *ast.KeyValueExpr:
		t.unsupported("key-value expression outside a composite literal")
		return "ENilLit"
	}
	t.unsupported("expression %T", e)
	return "ENilLit"
}

// T{a: x, b: y} -> lit:T{a,b} [x; y] with the keys in name order; unkeyed literals keep their order
func (t *glTr) compositeLit(cl *ast.CompositeLit, prefix string) string {
	ty := ""
	if cl.Type != nil {
		ty = t.src(cl.Type)
	}
	type kv struct{ k, v string }
	var kvs []kv
	keyed := false
	for _, el := range cl.Elts {
		if p, ok := el.(*ast.KeyValueExpr); ok {
			if id, ok := p.Key.(*ast.Ident); ok {
				keyed = true
				kvs = append(kvs, kv{id.Name, t.expr(p.Value)})
				continue
			}
			t.unsupported("composite literal with computed keys")
			return "ENilLit"
		}
		kvs = append(kvs, kv{"", t.expr(el)})
	}
	name := prefix + "lit:" + ty
	if keyed {
		sort.SliceStable(kvs, func(i, j int) bool { return kvs[i].k < kvs[j].k })
		ks := make([]string, len(kvs))
		for i, p := range kvs {
			ks[i] = p.k
		}
		name += "{" + strings.Join(ks, ",") + "}"
	}
	args := make([]string, len(kvs))
	for i, p := range kvs {
		args[i] = p.v
	}
	return t.call(name, args...)
}

func seq(items []string) string {
	if len(items) == 0 {
		return "SSkip"
	}
	out := items[len(items)-1]
	for i := len(items) - 2; i >= 0; i-- {
		out = "(SSeq " + items[i] + " " + out + ")"
	}
	return out
}

func (t *glTr) block(b *ast.BlockStmt) string {
	if b == nil {
		return "SSkip"
	}
	t.push()
	defer t.pop()
	return t.stmts(b.List)
}

func (t *glTr) stmts(l []ast.Stmt) string {
	var items []string
	for _, s := range l {
		items = append(items, t.stmt(s))
	}
	return seq(items)
}

// lhs of an assignment: an identifier (declared or assigned) -> its GoLite name
func (t *glTr) lhsName(e ast.Expr, define bool) (string, bool) {
	id, ok := e.(*ast.Ident)
	if !ok {
		return "", false
	}
	if id.Name == "_" {
		return "_", true
	}
	if define {
		return t.declareOrAssign(id.Name), true
	}
	if v, ok := t.lookup(id.Name); ok {
		return v, true
	}
	t.unsupported("assignment to the package-level variable %s", id.Name)
	return "_", true
}

func (t *glTr) assign(s *ast.AssignStmt) string {
	define := s.Tok == token.DEFINE
	if s.Tok != token.DEFINE && s.Tok != token.ASSIGN {
		// x op= e
		if len(s.Lhs) == 1 && len(s.Rhs) == 1 {
			if name, ok := t.lhsName(s.Lhs[0], false); ok {
				op := strings.TrimSuffix(s.Tok.String(), "=")
				return fmt.Sprintf("(SAssign [%s] %s)", glStr(name), t.call(op, t.expr(s.Lhs[0]), t.expr(s.Rhs[0])))
			}
		}
		t.unsupported("compound assignment %s", t.src(s))
		return "SSkip"
	}
	// m[k] = v
	if !define && len(s.Lhs) == 1 && len(s.Rhs) == 1 {
		if ix, ok := s.Lhs[0].(*ast.IndexExpr); ok {
			if id, ok := ix.X.(*ast.Ident); ok {
				if v, ok := t.lookup(id.Name); ok {
					t.written[v] = true
					t.writes[v] = append(t.writes[v], s)
					return fmt.Sprintf("(SSetIndex %s %s %s)", glStr(v), t.expr(ix.Index), t.expr(s.Rhs[0]))
				}
			}
			t.unsupported("index assignment to %s", t.src(ix.X))
			return "SSkip"
		}
	}
	// the right-hand sides are evaluated before any name of the left-hand side is declared
	var rhs string
	if len(s.Rhs) == 1 {
		r := s.Rhs[0]
		if len(s.Lhs) == 2 {
			switch x := r.(type) {
			case *ast.IndexExpr:
				rhs = t.call("index2", t.expr(x.X), t.expr(x.Index))
			case *ast.TypeAssertExpr:
				rhs = t.call("assert2:"+t.src(x.Type), t.expr(x.X))
			case *ast.UnaryExpr:
				if x.Op == token.ARROW {
					t.unsupported("channel receive")
				}
			}
		}
		if rhs == "" {
			rhs = t.expr(r)
		}
		// x = append(x, ..): x stays a value as long as nobody else holds the slice
		if c, ok := r.(*ast.CallExpr); ok && len(s.Lhs) == 1 {
			if f, ok := c.Fun.(*ast.Ident); ok && f.Name == "append" && len(c.Args) > 0 {
				if a0, ok := c.Args[0].(*ast.Ident); ok {
					if l0, ok := s.Lhs[0].(*ast.Ident); ok && l0.Name == a0.Name {
						if v, ok := t.lookup(a0.Name); ok {
							t.written[v] = true
							t.writes[v] = append(t.writes[v], s)
						}
					}
				}
			}
		}
	} else if len(s.Rhs) == len(s.Lhs) {
		rhs = t.call("tuple", t.exprs(s.Rhs)...)
	} else {
		t.unsupported("assignment %s", t.src(s))
		return "SSkip"
	}
	names := make([]string, len(s.Lhs))
	for i, l := range s.Lhs {
		n, ok := t.lhsName(l, define)
		if !ok {
			t.unsupported("assignment through %s", t.src(l))
			return "SSkip"
		}
		names[i] = n
	}
	return fmt.Sprintf("(SAssign %s %s)", glStrList(names), rhs)
}

func (t *glTr) stmt(s ast.Stmt) string {
	switch x := s.(type) {
	case *ast.EmptyStmt:
		return "SSkip"
	case *ast.BlockStmt:
		return t.block(x)
	case *ast.ExprStmt:
		return "(SExpr " + t.expr(x.X) + ")"
	case *ast.AssignStmt:
		return t.assign(x)
	case *ast.IncDecStmt:
		if name, ok := t.lhsName(x.X, false); ok {
			op := "+"
			if x.Tok == token.DEC {
				op = "-"
			}
			return fmt.Sprintf("(SAssign [%s] %s)", glStr(name), t.call(op, t.expr(x.X), "(EIntLit 1%Z)"))
		}
		t.unsupported("%s", t.src(x))
		return "SSkip"
	case *ast.DeclStmt:
		gd, ok := x.Decl.(*ast.GenDecl)
		if !ok || gd.Tok != token.VAR {
			t.unsupported("declaration %s", t.src(x))
			return "SSkip"
		}
		var items []string
		for _, sp := range gd.Specs {
			vs := sp.(*ast.ValueSpec)
			if len(vs.Values) == 0 {
				zero := "ENilLit"
				if !isNilable(vs.Type) {
					zero = t.call("zero:" + t.src(vs.Type))
				}
				for _, id := range vs.Names {
					items = append(items, fmt.Sprintf("(SAssign [%s] %s)", glStr(t.declare(id.Name)), zero))
				}
				continue
			}
			if len(vs.Values) != len(vs.Names) {
				t.unsupported("declaration %s", t.src(x))
				continue
			}
			vals := t.exprs(vs.Values)
			for i, id := range vs.Names {
				items = append(items, fmt.Sprintf("(SAssign [%s] %s)", glStr(t.declare(id.Name)), vals[i]))
			}
		}
		return seq(items)
	case *ast.ReturnStmt:
		if len(x.Results) == 0 && t.fn != nil && t.fn.recvType == "\x00named" {
			t.unsupported("naked return with named results")
		}
		return "(SReturn " + glList(t.exprs(x.Results)) + ")"
	case *ast.BranchStmt:
		if x.Label != nil || x.Tok == token.GOTO || x.Tok == token.FALLTHROUGH {
			t.unsupported("%s", t.src(x))
			return "SSkip"
		}
		if x.Tok == token.BREAK {
			if t.inSwitch > 0 {
				t.unsupported("unlabelled break inside a switch")
			}
			return "SBreak"
		}
		return "SContinue"
	case *ast.IfStmt:
		t.push()
		defer t.pop()
		init := "SSkip"
		if x.Init != nil {
			init = t.stmt(x.Init)
		}
		cond := t.expr(x.Cond)
		th := t.block(x.Body)
		el := "SSkip"
		if x.Else != nil {
			el = t.stmt(x.Else)
		}
		return fmt.Sprintf("(SIf %s %s %s %s)", init, cond, th, el)
	case *ast.RangeStmt:
		operand := t.expr(x.X)
		t.push()
		defer t.pop()
		name := func(e ast.Expr) string {
			if e == nil {
				return "_"
			}
			n, ok := t.lhsName(e, x.Tok == token.DEFINE)
			if !ok {
				t.unsupported("range variable %s", t.src(e))
				return "_"
			}
			return n
		}
		k, v := name(x.Key), name(x.Value)
		saved := t.inSwitch
		t.inSwitch = 0
		body := t.block(x.Body)
		t.inSwitch = saved
		return fmt.Sprintf("(SRange %s %s %s %s)", glStr(k), glStr(v), operand, body)
	case *ast.TypeSwitchStmt:
		t.push()
		defer t.pop()
		if x.Init != nil {
			t.unsupported("type switch with an initialiser")
		}
		var bound string
		var operand ast.Expr
		switch a := x.Assign.(type) {
		case *ast.AssignStmt:
			bound = a.Lhs[0].(*ast.Ident).Name
			operand = a.Rhs[0].(*ast.TypeAssertExpr).X
		case *ast.ExprStmt:
			operand = a.X.(*ast.TypeAssertExpr).X
		}
		op := t.expr(operand)
		v := "_"
		if bound != "" {
			v = t.declare(bound)
		}
		t.inSwitch++
		defer func() { t.inSwitch-- }()
		var cases []string
		dflt := "SSkip"
		for _, c := range x.Body.List {
			cc := c.(*ast.CaseClause)
			t.push()
			body := t.stmts(cc.Body)
			t.pop()
			if cc.List == nil {
				dflt = body
				continue
			}
			tys := make([]string, len(cc.List))
			for i, e := range cc.List {
				tys[i] = t.src(e)
				t.fn.prims["typeis:"+tys[i]] = true
			}
			cases = append(cases, fmt.Sprintf("(%s, %s)", glStrList(tys), body))
		}
		return fmt.Sprintf("(STypeSwitch %s %s %s %s)", glStr(v), op, glList(cases), dflt)
	case *ast.SwitchStmt:
		t.push()
		defer t.pop()
		init := "SSkip"
		if x.Init != nil {
			init = t.stmt(x.Init)
		}
		tag := "None"
		if x.Tag != nil {
			tag = "(Some " + t.expr(x.Tag) + ")"
		}
		t.inSwitch++
		defer func() { t.inSwitch-- }()
		var cases []string
		dflt := "SSkip"
		for _, c := range x.Body.List {
			cc := c.(*ast.CaseClause)
			var es []string
			if cc.List != nil {
				es = t.exprs(cc.List)
			}
			t.push()
			body := t.stmts(cc.Body)
			t.pop()
			if cc.List == nil {
				dflt = body
				continue
			}
			cases = append(cases, fmt.Sprintf("(%s, %s)", glList(es), body))
		}
		t.fn.prims["=="] = true
		return fmt.Sprintf("(SSwitch %s %s %s %s)", init, tag, glList(cases), dflt)
	case *ast.ForStmt:
		t.unsupported("for loop %s", t.src(x.Cond))
		return "SSkip"
	case *ast.DeferStmt:
		t.unsupported("defer")
		return "SSkip"
	case *ast.GoStmt:
		t.unsupported("go statement")
		return "SSkip"
	case *ast.LabeledStmt:
		t.unsupported("label %s", x.Label.Name)
		return "SSkip"
	}
	t.unsupported("statement %T", s)
	return "SSkip"
}

// aliasCheck: every bare occurrence of a written map / slice variable must be harmless (see the header)
func (t *glTr) aliasCheck(fd *ast.FuncDecl, rename map[*ast.Ident]string) {
	allowed := map[*ast.Ident]bool{}
	var walk func(n ast.Node, inReturn bool)
	walk = func(n ast.Node, inReturn bool) {
		ast.Inspect(n, func(x ast.Node) bool {
			switch s := x.(type) {
			case *ast.ReturnStmt:
				if !inReturn {
					for _, r := range s.Results {
						walk(r, true)
					}
					return false
				}
			case *ast.Ident:
				if inReturn {
					allowed[s] = true
				}
			case *ast.IndexExpr:
				if id, ok := s.X.(*ast.Ident); ok {
					allowed[id] = true
				}
			case *ast.RangeStmt:
				if id, ok := s.X.(*ast.Ident); ok {
					allowed[id] = true
				}
			case *ast.CallExpr:
				if f, ok := s.Fun.(*ast.Ident); ok && len(s.Args) > 0 {
					if id, ok := s.Args[0].(*ast.Ident); ok && (f.Name == "len" || f.Name == "cap" || f.Name == "append") {
						allowed[id] = true
					}
				}
			case *ast.AssignStmt:
				for _, l := range s.Lhs {
					if id, ok := l.(*ast.Ident); ok {
						allowed[id] = true
					}
				}
			case *ast.ValueSpec:
				for _, id := range s.Names {
					allowed[id] = true
				}
			}
			return true
		})
	}
	walk(fd.Body, false)
	// a bare use after the last write (and in no loop that contains a write) is harmless too: the value is
	// final by then
	var loops []ast.Node
	ast.Inspect(fd.Body, func(x ast.Node) bool {
		switch x.(type) {
		case *ast.RangeStmt, *ast.ForStmt:
			loops = append(loops, x)
		}
		return true
	})
	final := func(id *ast.Ident, v string) bool {
		for _, w := range t.writes[v] {
			if id.Pos() < w.End() {
				return false
			}
			for _, l := range loops {
				if l.Pos() <= w.Pos() && w.End() <= l.End() && l.Pos() <= id.Pos() && id.End() <= l.End() {
					return false
				}
			}
		}
		return true
	}
	seen := map[string]bool{}
	ast.Inspect(fd.Body, func(x ast.Node) bool {
		if id, ok := x.(*ast.Ident); ok {
			if v, ok := rename[id]; ok && t.written[v] && !allowed[id] && !seen[v] && !final(id, v) {
				seen[v] = true
				t.fn.alias = append(t.fn.alias, fmt.Sprintf("%s (%s) at %s", id.Name, v, t.fset.Position(id.Pos())))
			}
		}
		return true
	})
}

func recvTypeName(fd *ast.FuncDecl) string {
	if fd.Recv == nil || len(fd.Recv.List) == 0 {
		return ""
	}
	e := fd.Recv.List[0].Type
	for {
		switch x := e.(type) {
		case *ast.StarExpr:
			e = x.X
		case *ast.IndexExpr:
			e = x.X
		case *ast.IndexListExpr:
			e = x.X
		case *ast.Ident:
			return x.Name
		default:
			return ""
		}
	}
}

// glTranslate translates the named functions ("Type.method" or "function") of the package in dir.
func glTranslate(dir string, names []string) []*glFunc {
	fs := token.NewFileSet()
	pkgs, err := parser.ParseDir(fs, dir, func(fi os.FileInfo) bool { return !strings.HasSuffix(fi.Name(), "_test.go") }, parser.ParseComments)
	if err != nil {
		complain("golite: %v", err)
		return nil
	}
	type found struct {
		fd   *ast.FuncDecl
		file *ast.File
	}
	decls := map[string]found{}
	for _, pkg := range pkgs {
		for _, f := range pkg.Files {
			if !defaultBuild(f) {
				continue
			}
			for _, d := range f.Decls {
				fd, ok := d.(*ast.FuncDecl)
				if !ok || fd.Body == nil {
					continue
				}
				n := fd.Name.Name
				if r := recvTypeName(fd); r != "" {
					n = r + "." + n
				}
				decls[n] = found{fd, f}
			}
		}
	}
	var out []*glFunc
	for _, name := range names {
		fn := &glFunc{prims: map[string]bool{}}
		out = append(out, fn)
		d, ok := decls[name]
		if i := strings.Index(name, "."); i >= 0 {
			fn.key = name[i:]
			fn.recvType = name[:i]
		} else {
			fn.key = name
		}
		if !ok {
			fn.unsup = append(fn.unsup, "function "+name+" not found")
			fn.body = "SSkip"
			continue
		}
		t := &glTr{fset: fs, imports: map[string]bool{}, fn: fn, written: map[string]bool{}, writes: map[string][]ast.Node{}}
		for _, im := range d.file.Imports {
			p, _ := strconv.Unquote(im.Path.Value)
			n := filepath.Base(p)
			if im.Name != nil {
				n = im.Name.Name
			}
			t.imports[n] = true
		}
		t.push()
		if d.fd.Recv != nil {
			for _, f := range d.fd.Recv.List {
				if len(f.Names) == 0 {
					fn.params = append(fn.params, "_")
				}
				for _, id := range f.Names {
					fn.params = append(fn.params, t.declare(id.Name))
				}
			}
		}
		for _, f := range d.fd.Type.Params.List {
			if len(f.Names) == 0 {
				fn.params = append(fn.params, "_")
			}
			for _, id := range f.Names {
				fn.params = append(fn.params, t.declare(id.Name))
			}
		}
		if d.fd.Type.Results != nil {
			for _, f := range d.fd.Type.Results.List {
				if len(f.Names) > 0 {
					t.unsupported("named results")
				}
			}
		}
		// the renaming of every identifier occurrence, for the alias check: re-run the scope resolution
		// on a recording pass (the translation itself resolves names on the fly)
		fn.body = t.stmts(d.fd.Body.List)
		isParam := map[string]bool{}
		for _, p := range fn.params {
			isParam[p] = true
		}
		for i := 0; i < t.n; i++ {
			if v := fmt.Sprintf("v%d", i); !isParam[v] {
				fn.locals = append(fn.locals, v)
			}
		}
		rename := map[*ast.Ident]string{}
		glResolve(d.fd, t.imports, rename)
		t.aliasCheck(d.fd, rename)
		t.pop()
	}
	return out
}

// glResolve records, for every identifier occurrence that denotes a local variable, the GoLite name the
// translation gave it.  It replays the declaration order of glTr (same traversal, same counters).
func glResolve(fd *ast.FuncDecl, imports map[string]bool, rename map[*ast.Ident]string) {
	r := &glTr{fset: token.NewFileSet(), imports: imports, fn: &glFunc{prims: map[string]bool{}}, written: map[string]bool{}, writes: map[string][]ast.Node{}}
	r.push()
	if fd.Recv != nil {
		for _, f := range fd.Recv.List {
			for _, id := range f.Names {
				rename[id] = r.declare(id.Name)
			}
		}
	}
	for _, f := range fd.Type.Params.List {
		for _, id := range f.Names {
			rename[id] = r.declare(id.Name)
		}
	}
	var stmts func(l []ast.Stmt)
	var stmt func(s ast.Stmt)
	var expr func(e ast.Node)
	expr = func(e ast.Node) {
		if e == nil {
			return
		}
		ast.Inspect(e, func(x ast.Node) bool {
			switch s := x.(type) {
			case *ast.SelectorExpr:
				expr(s.X)
				return false
			case *ast.KeyValueExpr:
				expr(s.Value)
				return false
			case *ast.FuncLit:
				return false
			case *ast.Ident:
				if v, ok := r.lookup(s.Name); ok {
					rename[s] = v
				}
			}
			return true
		})
	}
	lhs := func(e ast.Expr, define bool) {
		if id, ok := e.(*ast.Ident); ok && id.Name != "_" {
			if define {
				rename[id] = r.declareOrAssign(id.Name)
			} else if v, ok := r.lookup(id.Name); ok {
				rename[id] = v
			}
			return
		}
		expr(e)
	}
	block := func(b *ast.BlockStmt) {
		if b == nil {
			return
		}
		r.push()
		stmts(b.List)
		r.pop()
	}
	stmts = func(l []ast.Stmt) {
		for _, s := range l {
			stmt(s)
		}
	}
	stmt = func(s ast.Stmt) {
		switch x := s.(type) {
		case *ast.BlockStmt:
			block(x)
		case *ast.ExprStmt:
			expr(x.X)
		case *ast.AssignStmt:
			for _, e := range x.Rhs {
				expr(e)
			}
			for _, l := range x.Lhs {
				lhs(l, x.Tok == token.DEFINE)
			}
		case *ast.IncDecStmt:
			expr(x.X)
		case *ast.DeclStmt:
			if gd, ok := x.Decl.(*ast.GenDecl); ok && gd.Tok == token.VAR {
				for _, sp := range gd.Specs {
					vs := sp.(*ast.ValueSpec)
					for _, e := range vs.Values {
						expr(e)
					}
					for _, id := range vs.Names {
						if id.Name != "_" {
							rename[id] = r.declare(id.Name)
						}
					}
				}
			}
		case *ast.ReturnStmt:
			for _, e := range x.Results {
				expr(e)
			}
		case *ast.IfStmt:
			r.push()
			if x.Init != nil {
				stmt(x.Init)
			}
			expr(x.Cond)
			block(x.Body)
			if x.Else != nil {
				stmt(x.Else)
			}
			r.pop()
		case *ast.RangeStmt:
			expr(x.X)
			r.push()
			if x.Key != nil {
				lhs(x.Key, x.Tok == token.DEFINE)
			}
			if x.Value != nil {
				lhs(x.Value, x.Tok == token.DEFINE)
			}
			block(x.Body)
			r.pop()
		case *ast.TypeSwitchStmt:
			r.push()
			var bound *ast.Ident
			switch a := x.Assign.(type) {
			case *ast.AssignStmt:
				bound = a.Lhs[0].(*ast.Ident)
				expr(a.Rhs[0].(*ast.TypeAssertExpr).X)
			case *ast.ExprStmt:
				expr(a.X.(*ast.TypeAssertExpr).X)
			}
			if bound != nil {
				rename[bound] = r.declare(bound.Name)
			}
			for _, c := range x.Body.List {
				r.push()
				stmts(c.(*ast.CaseClause).Body)
				r.pop()
			}
			r.pop()
		case *ast.SwitchStmt:
			r.push()
			if x.Init != nil {
				stmt(x.Init)
			}
			if x.Tag != nil {
				expr(x.Tag)
			}
			for _, c := range x.Body.List {
				cc := c.(*ast.CaseClause)
				for _, e := range cc.List {
					expr(e)
				}
				r.push()
				stmts(cc.Body)
				r.pop()
			}
			r.pop()
		}
	}
	stmts(fd.Body.List)
}

type glSuite struct {
	name  string   // Coq identifier prefix
	dir   string   // package directory relative to the repository root
	funcs []string // "Type.method" or "function"
}

var glSuites = []glSuite{
	{"um", "unmarshaler", []string{"Unmarshaler.Unmarshal", "Unmarshaler.unmarshal", "Unmarshaler.unmarshalCause", "Unmarshaler.resolveKind", "Unmarshaler.resolveDefinitionFromMessage"}},
}

func genGoLite(repo string) string {
	var b strings.Builder
	b.WriteString("(* GENERATED by srcgen (golite.go) from the Go sources - do not edit. *)\n")
	b.WriteString("From Coq Require Import String List ZArith.\nFrom Errdef Require Import Model.GoLite.\nImport ListNotations.\nLocal Open Scope string_scope.\n\n")
	for _, s := range glSuites {
		fns := glTranslate(filepath.Join(repo, s.dir), s.funcs)
		var entries, unsup, alias []string
		prims := map[string]bool{}
		for i, fn := range fns {
			id := fmt.Sprintf("%s_fn%d", s.name, i)
			fmt.Fprintf(&b, "(* %s: %s *)\nDefinition %s : fundef :=\n  (%s, %s,\n   %s).\n\n", s.dir, s.funcs[i], id, glStrList(fn.params), glStrList(fn.locals), fn.body)
			key := fn.key
			entries = append(entries, fmt.Sprintf("(%s, %s)", glStr(key), id))
			for p := range fn.prims {
				prims[p] = true
			}
			for _, u := range fn.unsup {
				unsup = append(unsup, s.funcs[i]+": "+u)
				complain("golite: %s: %s", s.funcs[i], u)
			}
			for _, a := range fn.alias {
				alias = append(alias, s.funcs[i]+": "+a)
				complain("golite: %s: aliasing of %s", s.funcs[i], a)
			}
		}
		// calls of translated functions are not primitives
		var ps []string
		for p := range prims {
			translated := false
			for _, fn := range fns {
				if fn.key == p {
					translated = true
				}
			}
			if !translated {
				ps = append(ps, p)
			}
		}
		sort.Strings(ps)
		fmt.Fprintf(&b, "Definition %s_funs : list (string * fundef) :=\n  %s.\n", s.name, glList(entries))
		fmt.Fprintf(&b, "Definition %s_prims : list string :=\n  %s.\n", s.name, glStrList(ps))
		fmt.Fprintf(&b, "Definition %s_unsupported : list string := %s.\n", s.name, glStrList(unsup))
		fmt.Fprintf(&b, "Definition %s_aliasing : list string := %s.\n\n", s.name, glStrList(alias))
	}
	return b.String()
}
