package main

// Gen/ResolverSrc.v: package resolver (resolver.go, strict.go, default.go) as data.
// Every function body is alpha-renamed (receiver r, parameters and locals v0, v1, ... in order
// of declaration), printed and compared with the statement shapes this translator knows; each
// recognised shape becomes a constructor that Model/Resolver.v INTERPRETS (which predicate
// CompactFunc uses, whether the input slice is cloned, whether the first or the last definition
// of a kind wins, how ResolveField reaches ResolveFieldFunc, the loop of ResolveFieldFunc, and
// for every DefaultResolver method which method of the wrapped resolver it calls and what it
// does with a miss).  An unknown shape is emitted as such and fails resolver_matched.

import (
	"bytes"
	"fmt"
	"go/ast"
	"go/parser"
	"go/printer"
	"go/token"
	"path/filepath"
	"regexp"
	"sort"
	"strings"
)

// alphaBody renames receiver, parameters and locals of fd in place and returns the printed body,
// whitespace-normalised.
func alphaBody(fset *token.FileSet, fd *ast.FuncDecl) string {
	names := map[string]string{}
	n := 0
	decl := func(id *ast.Ident) {
		if id == nil || id.Name == "_" {
			return
		}
		if _, ok := names[id.Name]; !ok {
			names[id.Name] = fmt.Sprintf("v%d", n)
			n++
		}
	}
	if fd.Recv != nil {
		for _, f := range fd.Recv.List {
			for _, id := range f.Names {
				names[id.Name] = "r"
			}
		}
	}
	for _, f := range fd.Type.Params.List {
		for _, id := range f.Names {
			decl(id)
		}
	}
	ast.Inspect(fd.Body, func(x ast.Node) bool {
		switch s := x.(type) {
		case *ast.AssignStmt:
			if s.Tok == token.DEFINE {
				for _, l := range s.Lhs {
					if id, ok := l.(*ast.Ident); ok {
						decl(id)
					}
				}
			}
		case *ast.RangeStmt:
			if s.Tok == token.DEFINE {
				if id, ok := s.Key.(*ast.Ident); ok {
					decl(id)
				}
				if id, ok := s.Value.(*ast.Ident); ok {
					decl(id)
				}
			}
		case *ast.FuncLit:
			for _, f := range s.Type.Params.List {
				for _, id := range f.Names {
					decl(id)
				}
			}
		}
		return true
	})
	skip := map[*ast.Ident]bool{}
	ast.Inspect(fd.Body, func(x ast.Node) bool {
		switch s := x.(type) {
		case *ast.SelectorExpr:
			skip[s.Sel] = true
		case *ast.CompositeLit:
			for _, e := range s.Elts {
				if kv, ok := e.(*ast.KeyValueExpr); ok {
					if id, ok := kv.Key.(*ast.Ident); ok {
						skip[id] = true
					}
				}
			}
		}
		return true
	})
	ast.Inspect(fd.Body, func(x ast.Node) bool {
		if id, ok := x.(*ast.Ident); ok && !skip[id] {
			if c, ok := names[id.Name]; ok {
				id.Name = c
			}
		}
		return true
	})
	var buf bytes.Buffer
	_ = printer.Fprint(&buf, fset, fd.Body)
	return normSrc(buf.String())
}

var wsRe = regexp.MustCompile(`\s+`)

func normSrc(s string) string {
	// drop comments line-wise (the printer keeps none inside a body node, but be safe)
	var lines []string
	for _, l := range strings.Split(s, "\n") {
		if i := strings.Index(l, "//"); i >= 0 {
			l = l[:i]
		}
		lines = append(lines, l)
	}
	s = wsRe.ReplaceAllString(strings.Join(lines, " "), " ")
	for _, p := range [][2]string{{", }", "}"}, {"{ ", "{"}, {" }", "}"}, {"( ", "("}, {" )", ")"}, {", )", ")"}, {",)", ")"}} {
		s = strings.ReplaceAll(s, p[0], p[1])
	}
	return strings.TrimSpace(s)
}


func genResolverSrc(repo string) string {
	fset := token.NewFileSet()
	dir := filepath.Join(repo, "resolver")
	files, _ := filepath.Glob(filepath.Join(dir, "*.go"))
	sort.Strings(files)
	bodies := map[string]string{} // "Recv.Name" or "Name" -> alpha-renamed body
	params := map[string]int{}
	for _, fn := range files {
		if strings.HasSuffix(fn, "_test.go") {
			continue
		}
		f, err := parser.ParseFile(fset, fn, nil, parser.SkipObjectResolution)
		if err != nil {
			problems = append(problems, "resolver: "+err.Error())
			continue
		}
		if !defaultBuild(f) {
			continue
		}
		for _, d := range f.Decls {
			fd, ok := d.(*ast.FuncDecl)
			if !ok || fd.Body == nil {
				continue
			}
			name := fd.Name.Name
			if fd.Recv != nil && len(fd.Recv.List) == 1 {
				t := fd.Recv.List[0].Type
				if st, ok := t.(*ast.StarExpr); ok {
					t = st.X
				}
				if id, ok := t.(*ast.Ident); ok {
					name = id.Name + "." + name
				}
			}
			np := 0
			for _, p := range fd.Type.Params.List {
				np += len(p.Names)
			}
			params[name] = np
			bodies[name] = alphaBody(fset, fd)
		}
	}

	matched := true
	unknown := func(what, body string) {
		matched = false
		problems = append(problems, "resolver: unrecognised shape of "+what+": "+body)
	}

	// ---- New
	newBody := bodies["New"]
	clones, cpred, kpol := "false", "CPUnknown", "KUnknown"
	reNew := regexp.MustCompile(`^\{v0 = slices\.CompactFunc\((slices\.Clone\(v0\)|v0), func\(v1, v2 errdef\.Definition\) bool \{return (.*?)\}\) v3 := make\(map\[errdef\.Kind\]errdef\.Definition, len\(v0\)\) for _, v4 := range v0 \{v5 := v4\.Kind\(\) (.*?)\} return &StrictResolver\{defs: v0, byKind: v3\}\}$`)
	if m := reNew.FindStringSubmatch(newBody); m != nil {
		if m[1] != "v0" {
			clones = "true"
		}
		switch m[2] {
		case "v1 == v2":
			cpred = "CPIdentity"
		case "v1.Kind() == v2.Kind()":
			cpred = "CPKind"
		case "v1 == v2 || v1.Kind() == v2.Kind()", "v1.Kind() == v2.Kind() || v1 == v2":
			cpred = "CPIdentityOrKind"
		default:
			unknown("New: CompactFunc predicate", m[2])
		}
		switch m[3] {
		case "if _, v6 := v3[v5]; !v6 {v3[v5] = v4}":
			kpol = "KFirstWins"
		case "v3[v5] = v4":
			kpol = "KLastWins"
		default:
			unknown("New: byKind loop", m[3])
		}
	} else {
		unknown("New", newBody)
	}

	// ---- StrictResolver
	rk := "KImplUnknown"
	if bodies["StrictResolver.ResolveKind"] == "{v1, v2 := r.byKind[v0] return v1, v2}" {
		rk = "KMapLookup"
	} else {
		unknown("StrictResolver.ResolveKind", bodies["StrictResolver.ResolveKind"])
	}
	rf := "FImplUnknown"
	switch bodies["StrictResolver.ResolveField"] {
	case "{return r.ResolveFieldFunc(v0, func(v2 errdef.FieldValue) bool {if v3, v4 := v1.(errdef.FieldValue); v4 {return v2.Equal(v3.Value())} return v2.Equal(v1)})}":
		rf = "(FViaFunc true)"
	case "{return r.ResolveFieldFunc(v0, func(v2 errdef.FieldValue) bool {return v2.Equal(v1)})}":
		rf = "(FViaFunc false)"
	default:
		unknown("StrictResolver.ResolveField", bodies["StrictResolver.ResolveField"])
	}
	rff := "FFImplUnknown"
	switch bodies["StrictResolver.ResolveFieldFunc"] {
	case "{for _, v2 := range r.defs {v3, v4 := v2.Fields().Get(v0) if !v4 || !v1(v3) {continue} return v2, true} return nil, false}":
		rff = "FFFirstMatch"
	default:
		unknown("StrictResolver.ResolveFieldFunc", bodies["StrictResolver.ResolveFieldFunc"])
	}
	wd := "false"
	if bodies["StrictResolver.WithDefault"] == "{return &DefaultResolver{resolver: r, defaultDef: v0}}" {
		wd = "true"
	} else {
		unknown("StrictResolver.WithDefault", bodies["StrictResolver.WithDefault"])
	}

	// ---- DefaultResolver: every method
	var dnames []string
	for k := range bodies {
		if strings.HasPrefix(k, "DefaultResolver.") {
			dnames = append(dnames, k)
		}
	}
	sort.Strings(dnames)
	reOrDefault := regexp.MustCompile(`^\{if v(\d+), v(\d+) := r\.resolver\.(\w+)\(([^()]*)\); v(\d+) \{return v(\d+)\} return r\.defaultDef\}$`)
	reDelegate := regexp.MustCompile(`^\{return r\.resolver\.(\w+)\(([^()]*)\)\}$`)
	argsInOrder := func(args string, np int) bool {
		var want []string
		for i := 0; i < np; i++ {
			want = append(want, fmt.Sprintf("v%d", i))
		}
		return args == strings.Join(want, ", ")
	}
	var dms []string
	for _, k := range dnames {
		b := bodies[k]
		short := strings.TrimPrefix(k, "DefaultResolver.")
		impl := "DUnknown"
		if m := reOrDefault.FindStringSubmatch(b); m != nil && m[1] == m[6] && m[2] == m[5] && argsInOrder(m[4], params[k]) {
			impl = "(DOrDefault " + coqStr(m[3]) + ")"
		} else if m := reDelegate.FindStringSubmatch(b); m != nil && argsInOrder(m[2], params[k]) {
			impl = "(DDelegate " + coqStr(m[1]) + ")"
		} else if b == "{return r.defaultDef}" {
			impl = "DDefault"
		} else {
			unknown(k, b)
		}
		dms = append(dms, fmt.Sprintf("(%s, %s)", coqStr(short), impl))
	}

	var sb strings.Builder
	sb.WriteString("(* GENERATED by srcgen from resolver/*.go - do not edit. *)\n")
	sb.WriteString("From Coq Require Import String List.\nImport ListNotations.\nLocal Open Scope string_scope.\n\n")
	sb.WriteString("Inductive cpred := CPIdentity | CPKind | CPIdentityOrKind | CPUnknown.\n")
	sb.WriteString("Inductive kpolicy := KFirstWins | KLastWins | KUnknown.\n")
	sb.WriteString("Inductive kimpl := KMapLookup | KImplUnknown.\n")
	sb.WriteString("Inductive fimpl := FViaFunc (unwraps_field_value : bool) | FImplUnknown.\n")
	sb.WriteString("Inductive ffimpl := FFFirstMatch | FFImplUnknown.\n")
	sb.WriteString("Inductive dimpl := DOrDefault (m : string) | DDelegate (m : string) | DDefault | DUnknown.\n\n")
	sb.WriteString("(* resolver.New *)\n")
	fmt.Fprintf(&sb, "Definition new_clones_input : bool := %s.\n", clones)
	fmt.Fprintf(&sb, "Definition new_compact_pred : cpred := %s.\n", cpred)
	fmt.Fprintf(&sb, "Definition new_bykind_policy : kpolicy := %s.\n\n", kpol)
	sb.WriteString("(* StrictResolver *)\n")
	fmt.Fprintf(&sb, "Definition strict_resolve_kind : kimpl := %s.\n", rk)
	fmt.Fprintf(&sb, "Definition strict_resolve_field : fimpl := %s.\n", rf)
	fmt.Fprintf(&sb, "Definition strict_resolve_field_func : ffimpl := %s.\n", rff)
	fmt.Fprintf(&sb, "Definition with_default_wires_both : bool := %s.\n\n", wd)
	sb.WriteString("(* DefaultResolver: method -> what it does with the wrapped resolver *)\n")
	fmt.Fprintf(&sb, "Definition default_methods : list (string * dimpl) := [%s].\n\n", strings.Join(dms, ";\n  "))
	fmt.Fprintf(&sb, "Definition resolver_matched : bool := %v.\n", matched)
	return sb.String()
}
