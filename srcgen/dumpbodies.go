package main

import (
	"go/ast"
	"go/parser"
	"go/token"
	"path/filepath"
	"sort"
	"strings"
)

// alphaBodies returns the alpha-renamed, printed bodies of every function of a package directory
// (non-test files of the default build), keyed by "Recv.Name" or "Name".
func alphaBodies(dir string) (map[string]string, map[string]int) {
	fset := token.NewFileSet()
	files, _ := filepath.Glob(filepath.Join(dir, "*.go"))
	sort.Strings(files)
	bodies := map[string]string{}
	params := map[string]int{}
	for _, fn := range files {
		if strings.HasSuffix(fn, "_test.go") {
			continue
		}
		f, err := parser.ParseFile(fset, fn, nil, parser.SkipObjectResolution)
		if err != nil {
			problems = append(problems, "alphaBodies: "+err.Error())
			continue
		}
		if !defaultBuild(f) {
			continue
		}
		for _, d := range f.Decls {
			fd, ok := d.(*ast.FuncDecl)
			if !ok || fd.Body == nil {
				continue
			}
			name := fd.Name.Name
			if fd.Recv != nil && len(fd.Recv.List) == 1 {
				t := fd.Recv.List[0].Type
				if st, ok := t.(*ast.StarExpr); ok {
					t = st.X
				}
				if ix, ok := t.(*ast.IndexExpr); ok {
					t = ix.X
				}
				if id, ok := t.(*ast.Ident); ok {
					name = id.Name + "." + name
				}
			}
			np := 0
			for _, p := range fd.Type.Params.List {
				np += len(p.Names)
			}
			params[name] = np
			bodies[name] = alphaBody(fset, fd)
		}
	}
	return bodies, params
}

func dumpBodies(dir string, names ...string) string {
	b, _ := alphaBodies(dir)
	var sb strings.Builder
	for _, n := range names {
		sb.WriteString(n + " :: " + b[n] + "\n")
	}
	return sb.String()
}
