package main

// Gen/SliceOps.v: the slice operations of every function of packages errdef, resolver and
// unmarshaler, in the operation language of Model/SliceFlow.v:
//
//	PAssign x e     x = e / x = e[a:b:c] / x := f(...) for an internal f (one PAssign per return)
//	PAppend x b     x = append(b, ...)
//	PWrite e        copy(e, ..), e[i] = .., clear(e), slices.CompactFunc / DeleteFunc / Sort*(e) ...
//	PStore place e  e is put into an object that outlives the call: a field of a composite literal or
//	                of an object that was not allocated by this call, a context value, an argument of
//	                a callee that is not known to only read it
//
// with operands XParam (a slice parameter), XRetained (a slice read from an existing object:
// receiver / parameter fields, type assertions, results of unknown calls), XVar (a local slice
// variable, or a slice field of an object this call allocates), XNil, XFresh (make, slices.Clone,
// composite literals, the stdlib allocators listed in sfAllocators).
//
// Translation (go/parser + go/ast only):
//   - variables assigned at the top level of a function body are renamed per assignment (x#1, x#2:
//     a straight-line SSA renaming, which preserves behaviour); assignments inside branches, loops
//     and function literals keep the current name, so the analysis merges them flow-insensitively;
//   - calls of functions and methods of the same package are inlined by binding the callee's slice
//     parameters (PAssign callee.p arg) and adding the callee's operations once per root function;
//     results come back as PAssign of every return expression; recursion re-uses the one instance;
//   - a method called on an object this call allocated sees that object's slice fields as variables;
//   - callees of the standard library in sfReadOnly only read their slice arguments (assumption,
//     listed in the generated file); any other callee that receives a slice counts as a store.
//
// Two assumptions are emitted for audit (Properties/C04.v compares them with a fixed list):
// objects an Option closure receives are the unmarshaler under construction (tied to
// Gen/Effects.mutator_calls), and what a Decoder returns (DecodedData) belongs to the library.

import (
	"fmt"
	"go/ast"
	"go/parser"
	"go/token"
	"os"
	"path/filepath"
	"sort"
	"strings"
)

var sfAllocators = map[string]bool{
	"slices.Clone": true, "slices.Sorted": true, "slices.SortedFunc": true, "slices.Collect": true, "slices.Concat": true,
	"strings.Split": true, "strings.Fields": true, "strings.SplitN": true, "bytes.Split": true,
	"runtime.Callers": false,
}

// callees that only read the slices they are given
var sfReadOnly = map[string]bool{
	"fmt.Sprintf": true, "fmt.Fprintf": true, "fmt.Sprint": true, "fmt.Errorf": true, "fmt.Fprint": true, "fmt.Fprintln": true,
	"errors.Join": true, "len": true, "cap": true, "slices.Contains": true, "slices.Index": true, "slices.IndexFunc": true,
	"slices.Values": true, "slices.All": true, "slices.Equal": true, "strings.Join": true, "json.Marshal": true, "json.Unmarshal": true,
	"bytes.Equal": true, "bytes.NewBufferString": true, "string": true, "runtime.CallersFrames": true, "runtime.Callers": true,
	"slog.GroupValue": true, "slog.AnyValue": true, "slog.Any": true, "slog.Group": true, "buf.Write": true, "io.WriteString": true,
	"append:values": true, "copy:src": true, "panic": true, "reflect.ValueOf": true, "reflect.TypeOf": true,
}

var sfWriters = map[string]bool{
	"slices.CompactFunc": true, "slices.Compact": true, "slices.DeleteFunc": true, "slices.Delete": true, "slices.Insert": true,
	"slices.Sort": true, "slices.SortFunc": true, "slices.SortStableFunc": true, "slices.Reverse": true, "slices.Grow": true,
	"sort.Slice": true, "sort.SliceStable": true, "sort.Sort": true, "sort.Strings": true, "sort.Ints": true, "clear": true, "slices.Replace": true,
}

// (package, function, identifier): objects the function receives that this API call is constructing
var sfAssumedFresh = [][3]string{
	{"unmarshaler", "WithCustomFields", "u"},
	{"unmarshaler", "WithSentinelErrors", "u"},
	{"unmarshaler", "WithStrictMode", "u"},
}

type sfPkg struct {
	name        string
	files       []*ast.File
	funcs       map[string]*ast.FuncDecl   // plain functions
	methods     map[string][]*ast.FuncDecl // by method name
	sliceTypes  map[string]bool            // named types whose underlying type is a slice
	sliceFields map[string]bool            // struct field names of slice type
	structs     map[string]bool
	out         *sfOut
}

type sfOut struct {
	problems    []string
	transferred []string
	readonly    map[string]bool
	assumed     map[string]bool
}

func (p *sfPkg) isSliceType(e ast.Expr) bool {
	switch t := e.(type) {
	case *ast.ArrayType:
		return t.Len == nil
	case *ast.Ellipsis:
		return true
	case *ast.Ident:
		return p.sliceTypes[t.Name]
	case *ast.SelectorExpr:
		return sfRootSliceTypes[t.Sel.Name]
	case *ast.ParenExpr:
		return p.isSliceType(t.X)
	case *ast.IndexExpr: // generic instantiation
		return false
	}
	return false
}

var sfRootSliceTypes = map[string]bool{}

func sfLoad(dir, name string, out *sfOut) *sfPkg {
	p := &sfPkg{name: name, funcs: map[string]*ast.FuncDecl{}, methods: map[string][]*ast.FuncDecl{},
		sliceTypes: map[string]bool{}, sliceFields: map[string]bool{}, structs: map[string]bool{}, out: out}
	ents, err := os.ReadDir(dir)
	if err != nil {
		out.problems = append(out.problems, err.Error())
		return p
	}
	var names []string
	for _, e := range ents {
		n := e.Name()
		if e.IsDir() || !strings.HasSuffix(n, ".go") || strings.HasSuffix(n, "_test.go") {
			continue
		}
		names = append(names, n)
	}
	sort.Strings(names)
	for _, n := range names {
		f, err := parser.ParseFile(fset, filepath.Join(dir, n), nil, parser.ParseComments)
		if err != nil {
			out.problems = append(out.problems, err.Error())
			continue
		}
		if !defaultBuild(f) {
			continue
		}
		p.files = append(p.files, f)
	}
	// two passes over the type declarations: named slice types first
	for pass := 0; pass < 2; pass++ {
		for _, f := range p.files {
			for _, d := range f.Decls {
				gd, ok := d.(*ast.GenDecl)
				if !ok || gd.Tok != token.TYPE {
					continue
				}
				for _, s := range gd.Specs {
					ts := s.(*ast.TypeSpec)
					if pass == 0 {
						if p.isSliceType(ts.Type) {
							p.sliceTypes[ts.Name.Name] = true
						}
						continue
					}
					if st, ok := ts.Type.(*ast.StructType); ok {
						p.structs[ts.Name.Name] = true
						for _, fl := range st.Fields.List {
							if p.isSliceType(fl.Type) {
								for _, id := range fl.Names {
									p.sliceFields[id.Name] = true
								}
							}
						}
					}
				}
			}
		}
	}
	for _, f := range p.files {
		for _, d := range f.Decls {
			fd, ok := d.(*ast.FuncDecl)
			if !ok || fd.Body == nil {
				continue
			}
			if fd.Recv == nil {
				p.funcs[fd.Name.Name] = fd
			} else {
				p.methods[fd.Name.Name] = append(p.methods[fd.Name.Name], fd)
			}
		}
	}
	return p
}

func sfFuncName(fd *ast.FuncDecl) string {
	if fd.Recv == nil || len(fd.Recv.List) == 0 {
		return fd.Name.Name
	}
	t := fd.Recv.List[0].Type
	ptr := ""
	if st, ok := t.(*ast.StarExpr); ok {
		ptr, t = "*", st.X
	}
	if ix, ok := t.(*ast.IndexExpr); ok {
		t = ix.X
	}
	return "(" + ptr + norm(render(t)) + ")." + fd.Name.Name
}

// ---------------------------------------------------------------- per root function

type sfAn struct {
	p        *sfPkg
	root     string
	ops      []string
	cur      map[*ast.Object]string // current operand of a slice variable
	isSlice  map[*ast.Object]bool
	version  map[*ast.Object]int
	freshObj map[*ast.Object]bool   // identifiers bound to objects this call allocates
	transfer map[*ast.Object]bool   // parameters of type *DecodedData
	recvMap  map[*ast.Object]string // receiver identifier of an inlined method -> caller-side path (fresh object)
	prefix   map[*ast.Object]string
	inlined  map[*ast.FuncDecl]string // callee -> namespace prefix
	results  map[*ast.FuncDecl]string // callee -> variable collecting its slice results
	ntemp    int
	stack    []*ast.FuncDecl
}

func (a *sfAn) emit(format string, args ...any) { a.ops = append(a.ops, fmt.Sprintf(format, args...)) }

func (a *sfAn) temp(what string) string {
	a.ntemp++
	return fmt.Sprintf("%s~%d", what, a.ntemp)
}

func sfRootIdent(e ast.Expr) *ast.Ident {
	for {
		switch x := e.(type) {
		case *ast.Ident:
			return x
		case *ast.SelectorExpr:
			e = x.X
		case *ast.ParenExpr:
			e = x.X
		case *ast.StarExpr:
			e = x.X
		case *ast.IndexExpr:
			e = x.X
		case *ast.UnaryExpr:
			e = x.X
		default:
			return nil
		}
	}
}

func (a *sfAn) varName(id *ast.Ident) string {
	pre := ""
	if id.Obj != nil {
		pre = a.prefix[id.Obj]
	}
	v := 0
	if id.Obj != nil {
		v = a.version[id.Obj]
	}
	return fmt.Sprintf("%s%s#%d", pre, id.Name, v)
}

func calleeName(call *ast.CallExpr) string { return norm(render(call.Fun)) }

// classify returns the operand for a slice-valued expression; ok=false when the expression is not
// known to be a slice
func (a *sfAn) classify(e ast.Expr, want bool) (string, bool) {
	switch x := e.(type) {
	case *ast.ParenExpr:
		return a.classify(x.X, want)
	case *ast.Ident:
		if x.Name == "nil" && x.Obj == nil {
			return "XNil", want
		}
		if x.Obj != nil && a.isSlice[x.Obj] {
			return a.cur[x.Obj], true
		}
		if want {
			return "(XRetained " + coqStrAscii(x.Name) + ")", true
		}
		return "", false
	case *ast.SliceExpr:
		return a.classify(x.X, want)
	case *ast.SelectorExpr:
		if !a.p.sliceFields[x.Sel.Name] && !want {
			return "", false
		}
		if !a.p.sliceFields[x.Sel.Name] {
			return "(XRetained " + coqStrAscii(norm(render(x))) + ")", true
		}
		r := sfRootIdent(x.X)
		if r != nil && r.Obj != nil {
			if a.transfer[r.Obj] {
				return "TRANSFERRED:" + norm(render(x)), true
			}
			if path, ok := a.recvMap[r.Obj]; ok {
				return "(XVar " + coqStrAscii(path+"."+x.Sel.Name) + ")", true
			}
			if a.freshObj[r.Obj] {
				return "(XVar " + coqStrAscii(a.prefix[r.Obj]+norm(render(x))) + ")", true
			}
		}
		return "(XRetained " + coqStrAscii(norm(render(x))) + ")", true
	case *ast.TypeAssertExpr:
		if x.Type != nil && a.p.isSliceType(x.Type) {
			return "(XRetained " + coqStrAscii(norm(render(x))) + ")", true
		}
	case *ast.CompositeLit:
		if x.Type != nil && a.p.isSliceType(x.Type) {
			a.exprs(x)
			return "XFresh", true
		}
	case *ast.CallExpr:
		name := calleeName(x)
		switch {
		case name == "make" && len(x.Args) > 0 && a.p.isSliceType(x.Args[0]):
			return "XFresh", true
		case name == "append" && len(x.Args) > 0:
			t := a.temp("append")
			base, _ := a.classify(x.Args[0], true)
			a.readArgs(x.Args[1:])
			a.emit("PAppend %s %s", coqStrAscii(t), a.operand(base, "append base"))
			return "(XVar " + coqStrAscii(t) + ")", true
		case sfAllocators[name]:
			a.readArgs(x.Args)
			return "XFresh", true
		case sfWriters[name] && len(x.Args) > 0:
			s, ok := a.classify(x.Args[0], true)
			a.readArgs(x.Args[1:])
			if ok {
				a.emit("PWrite %s", a.operand(s, name))
			}
			return s, true
		case len(x.Args) == 1 && a.p.isSliceType(x.Fun): // conversion to a slice type
			return a.classify(x.Args[0], true)
		}
		if fd, recv := a.resolve(x); fd != nil {
			res := a.inline(fd, x, recv)
			if res != "" {
				return "(XVar " + coqStrAscii(res) + ")", true
			}
			if want {
				return "(XRetained " + coqStrAscii("result of "+name) + ")", true
			}
			return "", false
		}
		a.callArgs(x)
		if want {
			return "(XRetained " + coqStrAscii("result of "+name) + ")", true
		}
		return "", false
	}
	if want {
		return "(XRetained " + coqStrAscii(norm(render(e))) + ")", true
	}
	return "", false
}

// operand turns a classification into a Coq operand; a transferred slice is recorded and treated
// as nothing (reads) - it cannot be appended to, written or stored as an operation
func (a *sfAn) operand(s, use string) string {
	if strings.HasPrefix(s, "TRANSFERRED:") {
		a.p.out.transferred = append(a.p.out.transferred, a.p.name+"."+a.root+": "+strings.TrimPrefix(s, "TRANSFERRED:")+" ("+use+")")
		return "XFresh"
	}
	return s
}

// resolve finds the declaration of a callee inside the package
func (a *sfAn) resolve(call *ast.CallExpr) (*ast.FuncDecl, ast.Expr) {
	switch f := call.Fun.(type) {
	case *ast.Ident:
		if f.Obj != nil && f.Obj.Kind != ast.Fun {
			return nil, nil
		}
		return a.p.funcs[f.Name], nil
	case *ast.SelectorExpr:
		if id, ok := f.X.(*ast.Ident); ok && id.Obj == nil && a.p.funcs[f.Sel.Name] == nil {
			// package-qualified call or method on a package-level value
			if ms := a.p.methods[f.Sel.Name]; len(ms) == 1 && !sfIsImport(a, id.Name) {
				return ms[0], f.X
			}
			return nil, nil
		}
		if ms := a.p.methods[f.Sel.Name]; len(ms) == 1 {
			return ms[0], f.X
		}
	case *ast.IndexExpr: // generic function instantiation
		if id, ok := f.X.(*ast.Ident); ok {
			return a.p.funcs[id.Name], nil
		}
	}
	return nil, nil
}

func sfIsImport(a *sfAn, name string) bool {
	for _, f := range a.p.files {
		for _, im := range f.Imports {
			path := strings.Trim(im.Path.Value, "\"")
			local := path[strings.LastIndex(path, "/")+1:]
			if im.Name != nil {
				local = im.Name.Name
			}
			if local == name {
				return true
			}
		}
	}
	return false
}

func sfHasSliceSig(p *sfPkg, fd *ast.FuncDecl) (params, results bool) {
	for _, f := range fd.Type.Params.List {
		if p.isSliceType(f.Type) {
			params = true
		}
	}
	if fd.Type.Results != nil {
		for _, f := range fd.Type.Results.List {
			if p.isSliceType(f.Type) {
				results = true
			}
		}
	}
	return
}

// inline binds the callee's slice parameters and adds its operations (once per root); returns the
// variable that collects the callee's slice results ("" when it returns no slice)
func (a *sfAn) inline(fd *ast.FuncDecl, call *ast.CallExpr, recv ast.Expr) string {
	hasP, hasR := sfHasSliceSig(a.p, fd)
	pre, seen := a.inlined[fd]
	if !seen {
		pre = sfFuncName(fd) + "/"
		a.inlined[fd] = pre
		if hasR {
			a.results[fd] = pre + "result"
		}
	}
	// bind the slice parameters
	i := 0
	for _, f := range fd.Type.Params.List {
		names := f.Names
		if len(names) == 0 {
			names = []*ast.Ident{nil}
		}
		for _, id := range names {
			_, variadic := f.Type.(*ast.Ellipsis)
			if id != nil && id.Obj != nil && norm(render(f.Type)) == "*DecodedData" {
				a.transfer[id.Obj] = true
			}
			if a.p.isSliceType(f.Type) && id != nil && id.Obj != nil {
				var arg string
				switch {
				case variadic && call.Ellipsis.IsValid() && i < len(call.Args):
					arg, _ = a.classify(call.Args[i], true)
				case variadic:
					arg = "XFresh" // the compiler builds the slice
					if i < len(call.Args) {
						a.readArgs(call.Args[i:])
					}
				case i < len(call.Args):
					arg, _ = a.classify(call.Args[i], true)
				default:
					arg = "XNil"
				}
				a.isSlice[id.Obj] = true
				a.prefix[id.Obj] = pre
				a.version[id.Obj] = 1
				a.cur[id.Obj] = "(XVar " + coqStrAscii(pre+id.Name+"#1") + ")"
				a.emit("PAssign %s %s", coqStrAscii(pre+id.Name+"#1"), a.operand(arg, "argument of "+sfFuncName(fd)))
			} else if i < len(call.Args) && !variadic {
				a.exprs(call.Args[i])
			}
			i++
		}
	}
	_ = hasP
	if seen {
		return a.results[fd]
	}
	for _, s := range a.stack {
		if s == fd {
			return a.results[fd]
		}
	}
	if len(a.stack) > 6 {
		a.p.out.problems = append(a.p.out.problems, "inlining too deep at "+sfFuncName(fd))
		return a.results[fd]
	}
	// the receiver: fields of an object this call allocated are variables
	if fd.Recv != nil && len(fd.Recv.List) > 0 && len(fd.Recv.List[0].Names) > 0 && recv != nil {
		rid := fd.Recv.List[0].Names[0]
		if rid.Obj != nil {
			if r := sfRootIdent(recv); r != nil && r.Obj != nil {
				if path, ok := a.recvMap[r.Obj]; ok {
					a.recvMap[rid.Obj] = path
				} else if a.freshObj[r.Obj] {
					a.recvMap[rid.Obj] = a.prefix[r.Obj] + norm(render(recv))
				} else if a.transfer[r.Obj] {
					a.transfer[rid.Obj] = true
				}
			}
		}
	}
	a.stack = append(a.stack, fd)
	a.declareParamsAssigned(fd, pre)
	a.block(fd.Body.List, 1, fd, pre)
	a.stack = a.stack[:len(a.stack)-1]
	return a.results[fd]
}

// declareParamsAssigned: nothing to do - bound parameters are already variables (version 1)
func (a *sfAn) declareParamsAssigned(fd *ast.FuncDecl, pre string) {}

func (a *sfAn) readArgs(args []ast.Expr) {
	for _, e := range args {
		a.exprs(e)
	}
}

// callArgs: a call that is not inlined; slices passed to callees that are not known to only read
// them count as stored
func (a *sfAn) callArgs(call *ast.CallExpr) {
	name := calleeName(call)
	if sel, ok := call.Fun.(*ast.SelectorExpr); ok {
		a.exprs(sel.X)
	}
	if name == "copy" && len(call.Args) == 2 {
		if s, ok := a.classify(call.Args[0], true); ok {
			a.emit("PWrite %s", a.operand(s, "copy destination"))
		}
		a.exprs(call.Args[1])
		return
	}
	if name == "context.WithValue" && len(call.Args) == 3 {
		a.exprs(call.Args[0])
		if s, ok := a.classify(call.Args[2], false); ok {
			a.emit("PStore %s %s", coqStrAscii("context value"), a.operand(s, "context value"))
		}
		return
	}
	short := name
	if i := strings.LastIndex(short, "."); i >= 0 && strings.Count(short, ".") > 1 {
		short = short[i+1:]
	}
	for _, e := range call.Args {
		if sfReadOnly[name] {
			// a temporary composite value handed to a callee that only reads: its members are read
			inner := e
			if u, isU := inner.(*ast.UnaryExpr); isU && u.Op == token.AND {
				inner = u.X
			}
			if cl, isCl := inner.(*ast.CompositeLit); isCl {
				for _, el := range cl.Elts {
					if kv, isKV := el.(*ast.KeyValueExpr); isKV {
						if _, isSl := a.classify(kv.Value, false); !isSl {
							a.exprs(kv.Value)
						}
					} else {
						a.exprs(el)
					}
				}
				a.p.out.readonly[name] = true
				continue
			}
		}
		s, ok := a.classify(e, false)
		if !ok {
			a.exprs(e)
			continue
		}
		if sfReadOnly[name] {
			a.p.out.readonly[name] = true
			continue
		}
		if strings.HasPrefix(s, "TRANSFERRED:") || s == "XNil" {
			continue
		}
		a.emit("PStore %s %s", coqStrAscii("argument of "+name), s)
	}
}

// exprs walks an expression for the slice operations inside it
func (a *sfAn) exprs(e ast.Expr) {
	if e == nil {
		return
	}
	switch x := e.(type) {
	case *ast.CallExpr:
		name := calleeName(x)
		if name == "append" || name == "make" || sfAllocators[name] || sfWriters[name] {
			a.classify(x, true)
			return
		}
		if fd, recv := a.resolve(x); fd != nil {
			a.inline(fd, x, recv)
			if sel, ok := x.Fun.(*ast.SelectorExpr); ok {
				a.exprs(sel.X)
			}
			return
		}
		a.callArgs(x)
	case *ast.CompositeLit:
		isStruct := false
		switch t := x.Type.(type) {
		case *ast.Ident:
			isStruct = a.p.structs[t.Name]
		case *ast.IndexExpr:
			if id, ok := t.X.(*ast.Ident); ok {
				isStruct = a.p.structs[id.Name]
			}
		}
		for _, el := range x.Elts {
			if kv, ok := el.(*ast.KeyValueExpr); ok {
				if k, ok := kv.Key.(*ast.Ident); ok && isStruct && a.p.sliceFields[k.Name] {
					if s, ok := a.classify(kv.Value, true); ok {
						if strings.HasPrefix(s, "TRANSFERRED:") {
							a.operand(s, "stored in "+norm(render(x.Type))+"."+k.Name)
						} else if s != "XNil" {
							a.emit("PStore %s %s", coqStrAscii(norm(render(x.Type))+"."+k.Name), s)
						}
					}
					continue
				}
				a.exprs(kv.Value)
				continue
			}
			a.exprs(el)
		}
	case *ast.FuncLit:
		a.markFreshParams(x.Type)
		a.block(x.Body.List, 1, nil, "")
	case *ast.UnaryExpr:
		a.exprs(x.X)
	case *ast.BinaryExpr:
		a.exprs(x.X)
		a.exprs(x.Y)
	case *ast.ParenExpr:
		a.exprs(x.X)
	case *ast.StarExpr:
		a.exprs(x.X)
	case *ast.SelectorExpr:
		a.exprs(x.X)
	case *ast.IndexExpr:
		a.exprs(x.X)
		a.exprs(x.Index)
	case *ast.SliceExpr:
		a.exprs(x.X)
	case *ast.TypeAssertExpr:
		a.exprs(x.X)
	case *ast.KeyValueExpr:
		a.exprs(x.Value)
	}
}

func (a *sfAn) markFreshParams(ft *ast.FuncType) {
	for _, f := range ft.Params.List {
		for _, id := range f.Names {
			if id.Obj == nil {
				continue
			}
			encl := a.root
			if len(a.stack) > 0 {
				encl = sfFuncName(a.stack[len(a.stack)-1])
			}
			for _, as := range sfAssumedFresh {
				if as[0] == a.p.name && as[1] == encl && as[2] == id.Name {
					a.freshObj[id.Obj] = true
					a.p.out.assumed[as[0]+"."+as[1]+": "+as[2]] = true
				}
			}
			if norm(render(f.Type)) == "*DecodedData" {
				a.transfer[id.Obj] = true
			}
			if a.p.isSliceType(f.Type) {
				a.isSlice[id.Obj] = true
				a.cur[id.Obj] = "(XRetained " + coqStrAscii("closure parameter "+id.Name) + ")"
			}
		}
	}
}

func sfAllocExpr(e ast.Expr) bool {
	switch x := e.(type) {
	case *ast.UnaryExpr:
		if x.Op == token.AND {
			_, ok := x.X.(*ast.CompositeLit)
			return ok
		}
	case *ast.CompositeLit:
		return true
	case *ast.CallExpr:
		return calleeName(x) == "new"
	}
	return false
}

// assign handles lhs = rhs for one pair
func (a *sfAn) assign(lhs, rhs ast.Expr, depth int, define bool) {
	switch l := lhs.(type) {
	case *ast.Ident:
		if l.Name == "_" || l.Obj == nil {
			a.exprs(rhs)
			return
		}
		if rhs != nil && sfAllocExpr(rhs) {
			if _, known := a.isSlice[l.Obj]; !known {
				a.freshObj[l.Obj] = true
			}
		}
		known := a.isSlice[l.Obj]
		var s string
		var ok bool
		isAppend := false
		if call, isCall := rhs.(*ast.CallExpr); isCall && calleeName(call) == "append" && len(call.Args) > 0 {
			isAppend = true
			s, _ = a.classify(call.Args[0], true)
			a.readArgs(call.Args[1:])
			ok = true
		} else if rhs != nil {
			s, ok = a.classify(rhs, known)
		}
		if !ok {
			if rhs != nil {
				a.exprs(rhs)
			}
			return
		}
		a.isSlice[l.Obj] = true
		if _, has := a.prefix[l.Obj]; !has {
			a.prefix[l.Obj] = a.curPrefix()
		}
		if depth == 0 || a.cur[l.Obj] == "" || strings.HasPrefix(a.cur[l.Obj], "(XParam") {
			a.version[l.Obj]++
		}
		name := a.varName(l)
		a.cur[l.Obj] = "(XVar " + coqStrAscii(name) + ")"
		if isAppend {
			a.emit("PAppend %s %s", coqStrAscii(name), a.operand(s, "append base"))
		} else {
			a.emit("PAssign %s %s", coqStrAscii(name), a.operand(s, "assigned to "+l.Name))
		}
	case *ast.SelectorExpr:
		if !a.p.sliceFields[l.Sel.Name] {
			a.exprs(rhs)
			return
		}
		target, _ := a.classify(l, true)
		var s string
		isAppend := false
		if call, isCall := rhs.(*ast.CallExpr); isCall && calleeName(call) == "append" && len(call.Args) > 0 {
			isAppend = true
			s, _ = a.classify(call.Args[0], true)
			a.readArgs(call.Args[1:])
		} else {
			s, _ = a.classify(rhs, true)
		}
		if strings.HasPrefix(target, "(XVar ") {
			v := strings.TrimSuffix(strings.TrimPrefix(target, "(XVar "), ")")
			if isAppend {
				a.emit("PAppend %s %s", v, a.operand(s, "append base"))
			} else {
				a.emit("PAssign %s %s", v, a.operand(s, "assigned to "+norm(render(l))))
			}
			return
		}
		if isAppend {
			t := a.temp("append")
			a.emit("PAppend %s %s", coqStrAscii(t), a.operand(s, "append base"))
			s = "(XVar " + coqStrAscii(t) + ")"
		}
		if strings.HasPrefix(s, "TRANSFERRED:") {
			a.operand(s, "stored in "+norm(render(l)))
			return
		}
		if s != "XNil" {
			a.emit("PStore %s %s", coqStrAscii(norm(render(l))), s)
		}
	case *ast.IndexExpr:
		if s, ok := a.classify(l.X, false); ok {
			a.emit("PWrite %s", a.operand(s, "element assignment"))
			a.exprs(rhs)
		} else {
			a.exprs(l.X)
			// an element of a map (or of something that is not a slice): a slice put there outlives the call
			if v, isSl := a.classify(rhs, false); isSl {
				if strings.HasPrefix(v, "TRANSFERRED:") {
					a.operand(v, "stored in "+norm(render(l)))
				} else if v != "XNil" {
					a.emit("PStore %s %s", coqStrAscii(norm(render(l))), v)
				}
			} else {
				a.exprs(rhs)
			}
		}
		a.exprs(l.Index)
	default:
		a.exprs(lhs)
		a.exprs(rhs)
	}
}

func (a *sfAn) curPrefix() string {
	if len(a.stack) == 0 {
		return ""
	}
	return a.inlined[a.stack[len(a.stack)-1]]
}

func (a *sfAn) block(stmts []ast.Stmt, depth int, fd *ast.FuncDecl, pre string) {
	for _, st := range stmts {
		a.stmt(st, depth, fd)
	}
}

func (a *sfAn) stmt(st ast.Stmt, depth int, fd *ast.FuncDecl) {
	switch s := st.(type) {
	case *ast.AssignStmt:
		if len(s.Lhs) == len(s.Rhs) {
			for i := range s.Lhs {
				a.assign(s.Lhs[i], s.Rhs[i], depth, s.Tok == token.DEFINE)
			}
			return
		}
		// multi-value right-hand side
		for _, r := range s.Rhs {
			if ta, ok := r.(*ast.TypeAssertExpr); ok && len(s.Lhs) == 2 {
				a.assign(s.Lhs[0], ta, depth, s.Tok == token.DEFINE)
				return
			}
			a.exprs(r)
		}
		for _, l := range s.Lhs {
			if id, ok := l.(*ast.Ident); ok && id.Obj != nil && a.isSlice[id.Obj] {
				a.version[id.Obj]++
				a.cur[id.Obj] = "(XVar " + coqStrAscii(a.varName(id)) + ")"
				a.emit("PAssign %s %s", coqStrAscii(a.varName(id)), "(XRetained \"multi-value result\")")
			}
		}
	case *ast.DeclStmt:
		if gd, ok := s.Decl.(*ast.GenDecl); ok && gd.Tok == token.VAR {
			for _, sp := range gd.Specs {
				vs := sp.(*ast.ValueSpec)
				for i, id := range vs.Names {
					if id.Obj == nil {
						continue
					}
					if vs.Type != nil && a.p.isSliceType(vs.Type) {
						a.isSlice[id.Obj] = true
						a.prefix[id.Obj] = a.curPrefix()
						a.cur[id.Obj] = "(XVar " + coqStrAscii(a.varName(id)) + ")"
					}
					if i < len(vs.Values) {
						a.assign(id, vs.Values[i], depth, true)
					}
				}
			}
		}
	case *ast.ExprStmt:
		a.exprs(s.X)
	case *ast.ReturnStmt:
		cur := (*ast.FuncDecl)(nil)
		if len(a.stack) > 0 {
			cur = a.stack[len(a.stack)-1]
		}
		for i, r := range s.Results {
			if cur != nil && a.results[cur] != "" && cur.Type.Results != nil {
				// which result position is a slice
				pos := 0
				isS := false
				for _, f := range cur.Type.Results.List {
					n := len(f.Names)
					if n == 0 {
						n = 1
					}
					if i >= pos && i < pos+n {
						isS = a.p.isSliceType(f.Type)
					}
					pos += n
				}
				if isS {
					if v, ok := a.classify(r, true); ok {
						a.emit("PAssign %s %s", coqStrAscii(a.results[cur]), a.operand(v, "returned by "+sfFuncName(cur)))
					}
					continue
				}
			}
			a.exprs(r)
		}
	case *ast.IfStmt:
		if s.Init != nil {
			a.stmt(s.Init, depth+1, fd)
		}
		a.exprs(s.Cond)
		a.block(s.Body.List, depth+1, fd, "")
		if s.Else != nil {
			a.stmt(s.Else, depth+1, fd)
		}
	case *ast.BlockStmt:
		a.block(s.List, depth+1, fd, "")
	case *ast.ForStmt:
		if s.Init != nil {
			a.stmt(s.Init, depth+1, fd)
		}
		a.exprs(s.Cond)
		if s.Post != nil {
			a.stmt(s.Post, depth+1, fd)
		}
		a.block(s.Body.List, depth+1, fd, "")
	case *ast.RangeStmt:
		a.exprs(s.X)
		a.block(s.Body.List, depth+1, fd, "")
	case *ast.SwitchStmt:
		if s.Init != nil {
			a.stmt(s.Init, depth+1, fd)
		}
		a.exprs(s.Tag)
		for _, c := range s.Body.List {
			cc := c.(*ast.CaseClause)
			for _, e := range cc.List {
				a.exprs(e)
			}
			a.block(cc.Body, depth+1, fd, "")
		}
	case *ast.TypeSwitchStmt:
		if s.Init != nil {
			a.stmt(s.Init, depth+1, fd)
		}
		a.stmt(s.Assign, depth+1, fd)
		for _, c := range s.Body.List {
			a.block(c.(*ast.CaseClause).Body, depth+1, fd, "")
		}
	case *ast.DeferStmt:
		a.exprs(s.Call)
	case *ast.GoStmt:
		a.exprs(s.Call)
	case *ast.IncDecStmt:
		a.exprs(s.X)
	case *ast.LabeledStmt:
		a.stmt(s.Stmt, depth, fd)
	case *ast.SendStmt:
		a.exprs(s.Value)
	case *ast.SelectStmt:
		for _, c := range s.Body.List {
			a.block(c.(*ast.CommClause).Body, depth+1, fd, "")
		}
	}
}

func sfAnalyze(p *sfPkg, fd *ast.FuncDecl) []string {
	a := &sfAn{p: p, root: sfFuncName(fd), cur: map[*ast.Object]string{}, isSlice: map[*ast.Object]bool{},
		version: map[*ast.Object]int{}, freshObj: map[*ast.Object]bool{}, transfer: map[*ast.Object]bool{},
		recvMap: map[*ast.Object]string{}, prefix: map[*ast.Object]string{}, inlined: map[*ast.FuncDecl]string{}, results: map[*ast.FuncDecl]string{}}
	// short root name for the assumed-fresh table: the plain function name
	a.root = fd.Name.Name
	if fd.Recv != nil {
		a.root = sfFuncName(fd)
	}
	for _, f := range fd.Type.Params.List {
		for _, id := range f.Names {
			if id.Obj == nil {
				continue
			}
			if a.p.isSliceType(f.Type) {
				a.isSlice[id.Obj] = true
				a.cur[id.Obj] = "(XParam " + coqStrAscii(id.Name) + ")"
			}
			if norm(render(f.Type)) == "*DecodedData" {
				a.transfer[id.Obj] = true
			}
		}
	}
	a.stack = []*ast.FuncDecl{}
	a.block(fd.Body.List, 0, fd, "")
	return a.ops
}

func genSliceOps(repo string) string {
	out := &sfOut{readonly: map[string]bool{}, assumed: map[string]bool{}}
	root := sfLoad(repo, "errdef", out)
	for n := range root.sliceTypes {
		sfRootSliceTypes[n] = true
	}
	pkgs := []*sfPkg{root, sfLoad(filepath.Join(repo, "resolver"), "resolver", out), sfLoad(filepath.Join(repo, "unmarshaler"), "unmarshaler", out)}
	var b strings.Builder
	b.WriteString(header)
	b.WriteString("From Errdef Require Import Model.SliceFlow.\n\n")
	b.WriteString("(* (package.function, slice operations in source order; callees of the same package inlined), for\n   every exported function and method *)\n")
	b.WriteString("Definition functions : list (string * list sop) :=\n  [")
	first := true
	for _, p := range pkgs {
		var fds []*ast.FuncDecl
		for _, f := range p.files {
			for _, d := range f.Decls {
				if fd, ok := d.(*ast.FuncDecl); ok && fd.Body != nil {
					fds = append(fds, fd)
				}
			}
		}
		for _, fd := range fds {
			// roots: what a user can call (exported functions, exported methods - also of unexported
			// types, which are reached through interfaces); unexported functions are covered where
			// they are inlined
			if !ast.IsExported(fd.Name.Name) {
				continue
			}
			ops := sfAnalyze(p, fd)
			if len(ops) == 0 {
				continue
			}
			if !first {
				b.WriteString(";\n   ")
			}
			first = false
			fmt.Fprintf(&b, "(%s,\n    [%s])", coqStrAscii(p.name+"."+sfFuncName(fd)), strings.Join(ops, ";\n     "))
		}
	}
	b.WriteString("].\n\n")
	var ro, as []string
	for n := range out.readonly {
		ro = append(ro, coqStrAscii(n))
	}
	for n := range out.assumed {
		as = append(as, coqStrAscii(n))
	}
	sort.Strings(ro)
	sort.Strings(as)
	tr := map[string]bool{}
	var trs []string
	for _, t := range out.transferred {
		if !tr[t] {
			tr[t] = true
			trs = append(trs, coqStrAscii(t))
		}
	}
	sort.Strings(trs)
	b.WriteString("(* standard-library callees that received a slice and are assumed to only read it *)\n")
	fmt.Fprintf(&b, "Definition readonly_callees : list string := [%s].\n\n", strings.Join(ro, "; "))
	b.WriteString("(* objects a function receives that the running API call is constructing (their slice fields are variables) *)\n")
	fmt.Fprintf(&b, "Definition assumed_fresh_objects : list string := [%s].\n\n", strings.Join(as, "; "))
	b.WriteString("(* slices of the decoder's result (DecodedData) that are kept or passed on: the data a Decoder returns belongs to the library *)\n")
	fmt.Fprintf(&b, "Definition transferred_slices : list string := [%s].\n\n", strings.Join(trs, ";\n   "))
	for _, pr := range out.problems {
		complain("sliceflow: %s", pr)
	}
	fmt.Fprintf(&b, "Definition sliceflow_matched : bool := %s.\n", coqBool(len(out.problems) == 0))
	return b.String()
}
