(* Model of package resolver (resolver.go, strict.go, default.go) and of
   fieldValue[T].Equal (field.go), following the code's control flow. *)
From Errdef Require Import Base.Str Base.Outcome Model.Value.

(* what the resolver sees of a definition *)
Record rdef := { rd_id : N; rd_kind : string; rd_fields : list (N * (st * rv)) }.

Definition rd_get (d : rdef) (key : N) : option (st * rv) :=
  option_map snd (find (fun kv => N.eqb (fst kv) key) (rd_fields d)).

(* other.(T) *)
Definition asserts (T : st) (other : rv) : bool :=
  match T, other with
  | _, RNil => false
  | SAny, _ => true
  | STy t, _ => opt_N_eqb (dyn other) (Some t)
  end.

(* the arms of the type switch in Equal: exact builtin dynamic types *)
Definition builtin_scalar (t : N) : bool :=
  (N.leb 1 t && N.leb t 14) || N.eqb t ty_duration.

(* fieldValue[T].Equal(other), as of the fix commit for finding F7 (dynamic-type
   check before the switch, nil guard in the URL arm).  Before that commit the
   arms asserted other.(X) unchecked and the URL arm dereferenced nil. *)
Fixpoint fv_equal (T : st) (stored other : rv) : outcome bool :=
  if asserts T other then
    if negb (opt_N_eqb (dyn stored) (dyn other)) then Ok false   (* the F7 guard *)
    else
    match stored with
    | RInt t _ | RStr t _ | RFlt t _ _ =>
        if builtin_scalar t then Ok (go_eq stored other)   (* tv == other.(X) *)
        else Ok (go_eq stored other)                        (* default arm: Interface() == Interface() *)
    | RBytes _ => Ok (go_eq stored other)                   (* bytes.Equal *)
    | RUrl a =>
        match a, other with
        | Some _, RUrl (Some _) => Ok (go_eq stored other)  (* String() == String() *)
        | _, RUrl b => Ok (match a, b with None, None => true | _, _ => false end)
        | _, _ => Ok false
        end
    | RComp _ _ _ => Ok (go_eq stored other)                (* == when comparable, else DeepEqual *)
    | RNil => Ok false                                      (* DeepEqual(nil, non-nil) *)
    | RFV _ => Ok false
    end
  else
    match other with
    | RFV inner => fv_equal T stored inner
    | _ => Ok false
    end.

(* slices.CompactFunc(defs, a == b): drop adjacent entries with one identity *)
Fixpoint compact (l : list rdef) : list rdef :=
  match l with
  | [] => []
  | x :: r =>
      match r with
      | y :: _ => if N.eqb (rd_id x) (rd_id y) then compact r else x :: compact r
      | [] => [x]
      end
  end.

(* byKind: insertion only when absent *)
Definition kind_insert (m : list (string * rdef)) (d : rdef) : list (string * rdef) :=
  if existsb (fun kv => str_eqb (fst kv) (rd_kind d)) m then m else m ++ [(rd_kind d, d)].

Record resolver := { r_defs : list rdef; r_by_kind : list (string * rdef) }.

Definition new_resolver (defs : list rdef) : resolver :=
  let ds := compact defs in
  {| r_defs := ds; r_by_kind := fold_left kind_insert ds [] |}.

Definition resolve_kind (r : resolver) (k : string) : option rdef :=
  option_map snd (find (fun kv => str_eqb (fst kv) k) (r_by_kind r)).

Fixpoint resolve_field_func (defs : list rdef) (key : N) (eq : st -> rv -> outcome bool)
  : outcome (option rdef) :=
  match defs with
  | [] => Ok None
  | d :: r =>
      match rd_get d key with
      | None => resolve_field_func r key eq
      | Some (T, v) =>
          match eq T v with
          | Ok true => Ok (Some d)
          | Ok false => resolve_field_func r key eq
          | Fail c => Fail c
          | Panic w => Panic w
          end
      end
  end.

(* StrictResolver.ResolveField: unwraps one FieldValue layer itself *)
Definition resolve_field (r : resolver) (key : N) (want : rv) : outcome (option rdef) :=
  resolve_field_func (r_defs r) key
    (fun T v => match want with RFV inner => fv_equal T v inner | _ => fv_equal T v want end).

(* DefaultResolver *)
Definition or_default {A} (dflt : A) (o : option A) : A := match o with Some a => a | None => dflt end.
Definition resolve_kind_or_default r dflt k := or_default dflt (resolve_kind r k).
Definition resolve_field_or_default r (dflt : rdef) key want : outcome rdef :=
  match resolve_field r key want with
  | Ok o => Ok (or_default dflt o) | Fail c => Fail c | Panic w => Panic w end.
