(* FormatError (definition.go:243-434), frameSource (stack.go): the text renderings. *)
From Errdef Require Import Base.Str Model.Core Model.GoErrors Model.Tree0.
Local Open Scope string_scope.

(* ---------- strconv.Quote on the ASCII range ---------- *)
Definition hex_digit (n : N) : string :=
  String (ascii_of_N (if N.ltb n 10 then 48 + n else 87 + n)) EmptyString.
Fixpoint quote_body (s : string) : string :=
  match s with
  | EmptyString => ""
  | String c r =>
      let n := N_of_ascii c in
      (if N.eqb n 34 then "\""" else if N.eqb n 92 then "\\"
       else if N.eqb n 10 then "\n" else if N.eqb n 9 then "\t" else if N.eqb n 13 then "\r"
       else if N.ltb n 32 || N.eqb n 127 then "\x" ++ hex_digit (n / 16) ++ hex_digit (n mod 16)
       else String c EmptyString) ++ quote_body r
  end.
Definition go_quote (s : string) : string := """" ++ quote_body s ++ """".

(* ---------- splitting on newlines (strings.SplitSeq(s, "\n")) ---------- *)
Fixpoint split_nl_acc (s : string) (cur : string) : list string :=
  match s with
  | EmptyString => [cur]
  | String c r => if N.eqb (N_of_ascii c) 10 then cur :: split_nl_acc r "" else split_nl_acc r (cur ++ String c EmptyString)
  end.
Definition split_nl (s : string) : list string := split_nl_acc s "".
Fixpoint has_nl (s : string) : bool :=
  match s with EmptyString => false | String c r => N.eqb (N_of_ascii c) 10 || has_nl r end.

(* ---------- source snippets (stack.go frameSource) ---------- *)
(* a window of source lines as the harness read it: number of the first line and the lines *)
Record window := { w_start : Z; w_lines : list string }.

Definition pad_left (width : nat) (s : string) : string :=
  String.concat "" (repeat " " (width - String.length s)) ++ s.

(* frameSource: "> " marks the frame's own line; line numbers right-aligned to the width of the last one *)
Definition frame_source (w : window) (line : Z) : string :=
  match w_lines w with
  | [] => ""
  | ls =>
      let last := (w_start w + Z.of_nat (List.length ls) - 1)%Z in
      let width := String.length (dec_Z last) in
      join nl (map (fun il => (if Z.eqb (fst il) line then "> " else "  ")
                              ++ pad_left width (dec_Z (fst il)) ++ ": " ++ snd il)
                   (combine (map (fun i => (w_start w + Z.of_nat i)%Z) (seq 0 (List.length ls))) ls))
  end.

(* FramesAndSource: a snippet only when enabled, only for the configured frames *)
Definition want_source (srclines srcdepth : Z) (i : nat) (f : frame) : bool :=
  Z.ltb 0 srclines && negb (str_eqb (fr_file f) "") &&
  (Z.eqb srcdepth (-1) || (Z.ltb 0 srcdepth && Z.ltb (Z.of_nat i) srcdepth)).

(* the harness's reading of the files: (file, line) -> window *)
Definition srcmap := list (string * Z * window).
Definition lookup_src (m : srcmap) (file : string) (line : Z) : option window :=
  option_map snd (find (fun e => str_eqb (fst (fst e)) file && Z.eqb (snd (fst e)) line) m).

(* ---------- %+v ---------- *)
Definition fmt_field (indent : string) (nv : string * fval) : string :=
  nl ++ indent ++ "  " ++ fst nv ++ ": " ++
  (let v := fv_plus (snd nv) in
   if has_nl v then "|" ++ nl ++ String.concat "" (map (fun l => indent ++ "    " ++ l ++ nl) (split_nl v))
   else v).

Definition fmt_frame (indent : string) (src : option string) (f : frame) : string :=
  if str_eqb (fr_file f) "" then ""
  else nl ++ indent ++ "  " ++ fr_func f ++ nl ++ indent ++ "    " ++ fr_file f ++ ":" ++ dec_Z (fr_line f) ++
       match src with
       | Some s => if str_eqb s "" then "" else String.concat "" (map (fun l => nl ++ indent ++ "    " ++ l) (split_nl s))
       | None => ""
       end.

(* native errors carry their StackSource settings; restored stacks never show source *)
Definition src_settings (e : err) : Z * Z :=
  match e with EDef _ d _ _ _ _ => (d_srclines d, d_srcdepth d) | _ => (0, 0)%Z end.

Definition fmt_stack (m : srcmap) (indent : string) (e : err) : string :=
  let '(sl, sd) := src_settings e in
  String.concat ""
    (map (fun il => let '(i, f) := il in
                    fmt_frame indent
                      (if want_source sl sd i f
                       then option_map (fun w => frame_source w (fr_line f)) (lookup_src m (fr_file f) (fr_line f))
                       else None) f)
         (combine (seq 0 (List.length (e_stack e))) (e_stack e))).

(* formatErrorDetails *)
Definition fmt_details (m : srcmap) (e : err) (indent : string) (has_causes : bool) : string :=
  let all := e_fields_all e in
  let has_details := negb (str_eqb (e_kind e) "") || negb (Nat.eqb (List.length all) 0) || negb (Nat.eqb (List.length (e_stack e)) 0) in
  err_msg e ++
  (if has_details || has_causes then nl ++ indent ++ "---" else "") ++
  (if str_eqb (e_kind e) "" then "" else nl ++ indent ++ "kind: " ++ e_kind e) ++
  (match all with [] => "" | _ => nl ++ indent ++ "fields:" ++ String.concat "" (map (fmt_field indent) all) end) ++
  (match e_stack e with [] => "" | _ => nl ++ indent ++ "stack:" ++ fmt_stack m indent e end).

Definition causes_header (indent : string) (n : nat) : string :=
  nl ++ indent ++ "causes: (" ++ (if Nat.eqb n 1 then "1 error" else dec_nat n ++ " errors") ++ ")".

(* formatNodes *)
Fixpoint fmt_node (m : srcmap) (indent : string) (i : nat) (t : tree) : string :=
  match t with
  | T e kids =>
      let n := List.length kids in
      nl ++ indent ++ "[" ++ dec_nat (S i) ++ "] " ++
      (if is_errdef_error e then fmt_details m e (indent ++ "    ") (negb (Nat.eqb n 0))
       else err_msg e ++ (if Nat.eqb n 0 then "" else nl ++ indent ++ "    ---")) ++
      (if Nat.eqb n 0 then ""
       else causes_header (indent ++ "    ") n ++
            String.concat "" ((fix go (j : nat) (l : list tree) : list string :=
                                 match l with [] => [] | k :: r => fmt_node m (indent ++ "    ") j k :: go (S j) r end) 0 kids))
  end.

Definition fmt_nodes (m : srcmap) (indent : string) (ts : list tree) : string :=
  String.concat "" ((fix go (j : nat) (l : list tree) : list string :=
                       match l with [] => [] | k :: r => fmt_node m indent j k :: go (S j) r end) 0 ts).

(* FormatError for the verbs s v +v q, as the value being formatted *)
Definition format_error (m : srcmap) (verb : string) (e : err) : string :=
  match (match e_def e with Some d => d_fmt d | None => None end) with
  | Some id => custom_fmt id (match verb with "+v" => "v" | x => x end) (err_msg e)     (* Formatter option *)
  | None =>
      match verb with
      | "s" | "v" => err_msg e
      | "q" => go_quote (err_msg e)
      | "+v" =>
          let causes := unwrap_tree e in
          let n := List.length causes in
          fmt_details m e "" (negb (Nat.eqb n 0)) ++
          (if Nat.eqb n 0 then "" else causes_header "" n ++ fmt_nodes m "  " causes)
      | _ => ""
      end
  end.
