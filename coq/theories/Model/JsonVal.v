(* The JSON step for typed scalar field values: what encoding/json writes for the value a
   restored or native error hands out through Value(), and what jsonToDecodedData (decoding into
   `any`) makes of that text.  Numbers come back as float64.  The only stdlib behaviour that is
   not computed here is strconv's shortest formatting of a float32 followed by ParseFloat(.., 64):
   it is the parameter [reparse32] (bits -> bits); the harness validates it against strconv. *)
From Coq Require Import ZArith Bool.
From Flocq Require Import Core IEEE754.BinarySingleNaN.
From Errdef Require Import Base.Str Base.Outcome Model.Convert.
Local Open Scope Z_scope.

Definition ty_string : sty := {| s_id := 1; s_kind := KString |}.
Definition ty_bool : sty := {| s_id := 14; s_kind := KBool |}.

(* integers are written in decimal and parsed to the nearest float64; a float64 is written in the
   shortest form that parses back to itself; NaN and the infinities make json.Marshal fail *)
Definition redecode (reparse32 : Z -> Z) (v : sval) : option dval :=
  match v with
  | SBool b => Some (DS ty_bool (SBool b))
  | SStr s => Some (DS ty_string (SStr s))
  | SInt z => Some (DS ty_float64 (SF64 (bits_of_f64 (i64_to_f64 z))))
  | SF64 b => if is_finite (f64_of_bits b) then Some (DS ty_float64 (SF64 b)) else None
  | SF32 b => if is_finite (f32_of_bits b) then Some (DS ty_float64 (SF64 (reparse32 b))) else None
  end.

(* the value a binding hands out *)
Definition bval_scalar (b : bval) : option sval :=
  match b with
  | BSame (DS _ v) => Some v
  | BScalar _ v => Some v
  | _ => None
  end.

(* a scalar Go type as the checks number them: the three builtin types a JSON document decodes
   to have their fixed ids *)
Definition sty_wf (t : sty) : bool :=
  (negb (N.eqb (s_id t) 13) || skind_eqb (s_kind t) KFloat64) &&
  (negb (N.eqb (s_id t) 1) || skind_eqb (s_kind t) KString) &&
  (negb (N.eqb (s_id t) 14) || skind_eqb (s_kind t) KBool).

Definition is_intk (k : skind) : bool := is_signed k || is_unsigned k.

Definition max_float32_bits : Z := 2139095039.   (* 0x7F7FFFFF *)
Definition neg_max_float32_bits : Z := 4286578687.   (* 0xFF7FFFFF *)
Definition two53 : Z := 9007199254740992.

(* a value of a field of type t, inside the domain of the round trip *)
Definition val_of_type (t : sty) (v : sval) : bool :=
  match s_kind t, v with
  | KBool, SBool _ => true
  | KString, SStr _ => true
  | KFloat64, SF64 b => (0 <=? b) && (b <? two64) && is_finite (f64_of_bits b)
  | KFloat32, SF32 b => (0 <=? b) && (b <? two32) && is_finite (f32_of_bits b)
  | k, SInt z => is_intk k && (int_min k <=? z) && (z <=? int_max k)
  | _, _ => false
  end.
