(* Generic facts about the GoLite interpreter used by the equivalence proofs:
   statement accessors (to name a loop body of a generated function without copying it)
   and positional update of an environment of fixed shape. *)
From Coq Require Import String List ZArith Bool Lia.
From Errdef Require Import Model.GoLite.
Import ListNotations.
Local Open Scope string_scope.

(* the i-th statement of a right-nested sequence *)
Fixpoint seq_nth (s : stmt) (i : nat) : stmt :=
  match i, s with
  | O, SSeq a _ => a
  | O, _ => s
  | S j, SSeq _ b => seq_nth b j
  | S _, _ => SSkip
  end.
Definition range_body (s : stmt) : stmt := match s with SRange _ _ _ b => b | _ => SSkip end.
Definition if_then (s : stmt) : stmt := match s with SIf _ _ t _ => t | _ => SSkip end.
Definition if_else (s : stmt) : stmt := match s with SIf _ _ _ e => e | _ => SSkip end.
Definition fn_body (f : fundef) : stmt := snd f.
Definition fn_names (f : fundef) : list string := fst (fst f) ++ snd (fst f).

Section Facts.
Context {D : Type}.
Notation val := (value D).

Fixpoint upd (i : nat) (x : val) (l : list val) : list val :=
  match i, l with
  | _, [] => []
  | O, _ :: r => x :: r
  | S j, y :: r => y :: upd j x r
  end.

Lemma upd_length i x l : length (upd i x l) = length l.
Proof. revert i; induction l as [|y r IH]; intros [|j]; simpl; auto. Qed.

Lemma ibind_ok {A B} (a : A) (f : A -> ires B) : ibind (IOk a) f = f a.
Proof. reflexivity. Qed.
End Facts.
