(* The cause tree of an ACYCLIC error value (every inductive [err] is acyclic):
   what buildNodes returns when nothing is cut - children are the non-nil causes in
   order.  The cyclic case is Model/Tree.v (C06). *)
From Errdef Require Import Base.Str Model.Core Model.GoErrors.

Inductive tree := T (e : err) (kids : list tree).

Definition t_err (t : tree) : err := match t with T e _ => e end.
Definition t_kids (t : tree) : list tree := match t with T _ k => k end.

(* node for a cause: follows Unwrap() error, else Unwrap() []error (node.go:183-190) *)
Fixpoint tree_of (e : err) : tree :=
  T e (match e with
       | EDef _ _ _ None _ _ => []
       | EDef _ _ _ (Some c) j _ =>
           if j then match c with
                     | EJoin _ es => map tree_of es
                     | EMulti _ _ cs => flat_map (fun o => match o with Some x => [tree_of x] | None => [] end) cs
                     | _ => [tree_of c]
                     end
           else [tree_of c]
       | EDefn _ => []
       | EJoin _ es => map tree_of es
       | EWrapF _ _ c => [tree_of c]
       | ESingle _ _ (Some c) => [tree_of c]
       | ESingle _ _ None => []
       | EMulti _ _ cs => flat_map (fun o => match o with Some x => [tree_of x] | None => [] end) cs
       | ELeaf _ _ _ => []
       | EPanic _ _ _ (Some c) => [tree_of c]
       | EPanic _ _ _ None => []
       | ERest _ _ _ _ _ cs | EUnk _ _ _ cs => map tree_of cs
       end).

(* UnwrapTree() of an errdef error: the nodes for its causes *)
Definition unwrap_tree (e : err) : list tree := t_kids (tree_of e).

(* is this node an errdef.Error (definedError / unmarshaledError)? *)
Definition is_errdef_error (e : err) : bool :=
  match e with EDef _ _ _ _ _ _ | ERest _ _ _ _ _ _ => true | _ => false end.

(* fmt.Sprintf("%T", err) of the foreign node types the harness builds *)
Definition type_name (e : err) : string :=
  match e with
  | EDef _ _ _ _ _ _ => "*errdef.definedError"
  | EDefn _ => "*errdef.definition"
  | EJoin _ _ => "*errors.joinError"
  | EWrapF _ _ _ => "*fmt.wrapError"
  | ESingle _ _ _ => "*main.singleErr"
  | EMulti _ _ _ => "*main.multiErr"
  | ELeaf _ _ t => t
  | EPanic _ _ _ _ => "*errdef.panicError"
  | ERest _ _ _ _ _ _ => "*unmarshaler.unmarshaledError"
  | EUnk _ _ t _ => t
  end.

(* accessors of an errdef.Error node *)
Definition e_kind (e : err) : string :=
  match e with EDef _ d _ _ _ _ | ERest _ d _ _ _ _ => d_kind d | _ => "" end.
Definition e_def (e : err) : option defn :=
  match e with EDef _ d _ _ _ _ | ERest _ d _ _ _ _ => Some d | _ => None end.
Definition e_stack (e : err) : list frame :=
  match e with EDef _ _ _ _ _ s | ERest _ _ _ _ s _ => s | _ => [] end.

(* Fields().All() as (name, value) in iteration order: native = insertion order;
   restored = sorted by name (typed and unknown together) *)
Fixpoint ins_name (x : string * fval) (l : list (string * fval)) :=
  match l with [] => [x] | y :: r => if String.leb (fst x) (fst y) then x :: l else y :: ins_name x r end.
Definition e_fields_all (e : err) : list (string * fval) :=
  match e with
  | EDef _ d _ _ _ _ => map (fun kv => (k_name (fst kv), snd kv)) (f_all (d_fields d))
  | ERest _ _ _ rf _ _ =>
      fold_right ins_name [] (map (fun kv => (k_name (fst kv), snd kv)) (rf_typed rf) ++ rf_unknown rf)
  | _ => []
  end.
