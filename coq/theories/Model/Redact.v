(* Model of redaction.go (Redacted[T]) and of every place where a field value is
   rendered: formatErrorDetails (definition.go), fields.MarshalJSON / LogValue
   (field.go), Node.MarshalJSON / LogValue / slogValueToAny (node.go), and the
   placeholder special case of the unmarshaler (unmarshaler/unmarshaler.go).

   The sinks are total functions on a value universe [val].  They follow the
   DISPATCH rules of the standard library as far as redaction depends on them:
     fmt      printArg / printValue / handleMethods / badVerb / fmtPointer (fmt/print.go)
     json     Marshaler first, exported struct fields only, sorted map keys
     slog     LogValuer resolution, then TextHandler (%+v of the value, quoted when
              needed) or JSONHandler (json.Marshal without HTML escaping)
   How fmt renders a PUBLIC leaf (string, int, bool, address) for a given verb,
   flag set and width is a parameter ([leaves]): the theorems hold for every
   such rendering, and [std] is the concrete rendering for the plain verbs
   %v %+v %#v %s %q %d %x that the correspondence compares literally.
   No proofs here. *)
From Errdef Require Import Base.Str.

(* redaction.go: const redactedStr.  The one definition of the placeholder. *)
Definition placeholder : string := "[REDACTED]".

(* token by which the harness replaces a secret marker that it finds in an output *)
Definition mark : string := "<MARK>".
(* token by which the harness replaces an address (in any base) *)
Definition ptr_tok : string := "PTR".

(* ------------------------------------------------------------------ *)
(* strings                                                             *)

Fixpoint contains (needle hay : string) {struct hay} : bool :=
  if String.prefix needle hay then true
  else match hay with EmptyString => false | String _ r => contains needle r end.

(* number of positions at which [needle] starts *)
Fixpoint count (needle hay : string) {struct hay} : nat :=
  match hay with
  | EmptyString => 0%nat
  | String _ r => ((if String.prefix needle hay then 1 else 0) + count needle r)%nat
  end.

(* strings.Split(s, c) *)
Fixpoint split_on (c : ascii) (s : string) : list string :=
  match s with
  | EmptyString => [""]
  | String a r =>
      if Ascii.eqb a c then "" :: split_on c r
      else match split_on c r with
           | x :: t => String a x :: t
           | [] => [String a ""]
           end
  end.

Definition nl_char : ascii := ascii_of_N 10.

Definition hexdig (n : N) : string :=
  String (ascii_of_N (if N.ltb n 10 then 48 + n else 87 + n)) EmptyString.
Definition hex_byte (a : ascii) : string :=
  let n := N_of_ascii a in (hexdig (n / 16) ++ hexdig (n mod 16))%string.
Fixpoint hex_str (s : string) : string :=
  match s with EmptyString => "" | String a r => (hex_byte a ++ hex_str r)%string end.
Fixpoint hex_fuel (fuel : nat) (n : N) (acc : string) : string :=
  match fuel with
  | O => acc
  | S f => let acc' := (hexdig (n mod 16) ++ acc)%string in
           if N.ltb n 16 then acc' else hex_fuel f (n / 16) acc'
  end.
Definition hexN (n : N) : string := hex_fuel 40 n "".
Definition hex_Z (z : Z) : string :=
  if Z.ltb z 0 then ("-" ++ hexN (Z.to_N (- z)))%string else hexN (Z.to_N z).

Definition bs : string := ch 92.        (* one backslash *)
Definition dq : string := ch 34.        (* one double quote *)
Definition sq : string := "'".

(* strconv.Quote / QuoteRune on bytes below 128; [q] is the quote character *)
Definition esc_char (q : N) (a : ascii) : string :=
  let n := N_of_ascii a in
  if N.eqb n q then (bs ++ String a "")%string
  else if N.eqb n 92 then (bs ++ bs)%string
  else if N.eqb n 7 then (bs ++ "a")%string
  else if N.eqb n 8 then (bs ++ "b")%string
  else if N.eqb n 12 then (bs ++ "f")%string
  else if N.eqb n 10 then (bs ++ "n")%string
  else if N.eqb n 13 then (bs ++ "r")%string
  else if N.eqb n 9 then (bs ++ "t")%string
  else if N.eqb n 11 then (bs ++ "v")%string
  else if N.ltb n 32 || N.eqb n 127 then (bs ++ "x" ++ hex_byte a)%string
  else String a "".
Fixpoint esc_str (q : N) (s : string) : string :=
  match s with EmptyString => "" | String a r => (esc_char q a ++ esc_str q r)%string end.
Definition go_quote (s : string) : string := (dq ++ esc_str 34 s ++ dq)%string.
Definition go_quote_rune (n : N) : string := (sq ++ esc_char 39 (ascii_of_N n) ++ sq)%string.

(* encoding/json string escaping ([html] = EscapeHTML) on bytes below 128 *)
Definition json_esc_char (html : bool) (a : ascii) : string :=
  let n := N_of_ascii a in
  if N.eqb n 34 then (bs ++ dq)%string
  else if N.eqb n 92 then (bs ++ bs)%string
  else if N.eqb n 10 then (bs ++ "n")%string
  else if N.eqb n 13 then (bs ++ "r")%string
  else if N.eqb n 9 then (bs ++ "t")%string
  else if N.ltb n 32 then (bs ++ "u00" ++ hex_byte a)%string
  else if html && (N.eqb n 60 || N.eqb n 62 || N.eqb n 38) then (bs ++ "u00" ++ hex_byte a)%string
  else String a "".
Fixpoint json_esc (html : bool) (s : string) : string :=
  match s with EmptyString => "" | String a r => (json_esc_char html a ++ json_esc html r)%string end.
Definition json_string (html : bool) (s : string) : string := (dq ++ json_esc html s ++ dq)%string.

(* log/slog text handler: needsQuoting *)
Fixpoint has_quoting_char (s : string) : bool :=
  match s with
  | EmptyString => false
  | String a r =>
      let n := N_of_ascii a in
      (N.eqb n 32 || N.eqb n 61 || N.eqb n 34 || N.ltb n 32) || has_quoting_char r
  end.
Definition needs_quoting (s : string) : bool :=
  match s with EmptyString => true | _ => has_quoting_char s end.
Definition text_quote (s : string) : string := if needs_quoting s then go_quote s else s.

(* ------------------------------------------------------------------ *)
(* values                                                              *)

Inductive sty := TString | TInt.                 (* Go type of a secret leaf *)

(* one entry of the native fields collection: name, type parameter T of its key
   as reflect prints it inside the brackets, insertion index *)
Record fkey := { k_name : string; k_ty : string; k_idx : Z }.

Inductive val :=
| VStr (s : string)
| VInt (z : Z)                                   (* Go int *)
| VBool (b : bool)
| VSecret (t : sty) (id : nat)                   (* a secret: the marker number [id] *)
| VRedacted (p : val)                            (* errdef.Redacted[T]{value: p} *)
| VStruct (name : string) (fs : list (string * bool * val))   (* (field, exported?, value) *)
| VMap (tn : string) (kvs : list (string * val)) (* map with string keys, keys sorted; tn = its type *)
| VSlice (l : list val)                          (* []any *)
| VPtr (v : val)                                 (* non-nil pointer *)
| VIface (v : val)                               (* value stored in a position of interface type *)
| VFields (fs : list (fkey * val)) (last : Z) (order : list nat).
   (* the *errdef.fields object of an error: entries in All() order; [order] is the
      order in which fmt visits the keys of the data map (fmtsort: by address) *)

Fixpoint type_str (v : val) : string :=
  match v with
  | VStr _ => "string" | VInt _ => "int" | VBool _ => "bool"
  | VSecret TString _ => "string" | VSecret TInt _ => "int"
  | VRedacted p => "errdef.Redacted[" ++ type_str p ++ "]"
  | VStruct n _ => n
  | VMap tn _ => tn
  | VSlice _ => "[]interface {}"
  | VPtr x => "*" ++ type_str x
  | VIface x => type_str x
  | VFields _ _ _ => "*errdef.fields"
  end.

Definition is_redacted (v : val) : bool := match v with VRedacted _ => true | _ => false end.
(* reflect kinds Array, Slice, Struct, Map: what fmt prints behind "&" at depth 0 *)
Definition composite (v : val) : bool :=
  match v with VRedacted _ | VStruct _ _ | VMap _ _ | VSlice _ => true | _ => false end.

(* Redacted[T].Value() *)
Definition value_of (v : val) : option val := match v with VRedacted p => Some p | _ => None end.

(* ------------------------------------------------------------------ *)
(* fmt                                                                 *)

Inductive verb := Vv | Vs | Vq | Vx | VX | Vd | Vb | Vc | Vo | VU | Ve | VE | Vf | VF | Vg | VG | Vt.
Definition verb_chr (v : verb) : string :=
  match v with
  | Vv => "v" | Vs => "s" | Vq => "q" | Vx => "x" | VX => "X" | Vd => "d" | Vb => "b" | Vc => "c"
  | Vo => "o" | VU => "U" | Ve => "e" | VE => "E" | Vf => "f" | VF => "F" | Vg => "g" | VG => "G" | Vt => "t"
  end.
Definition is_v (v : verb) : bool := match v with Vv => true | _ => false end.
(* fmtPointer: the verbs for which a pointer prints as a number *)
Definition ptr_valid (v : verb) : bool :=
  match v with Vv | Vb | Vo | Vd | Vx | VX => true | _ => false end.

(* a format directive: %[flags][width]verb *)
Record fspec := { f_verb : verb; f_plus : bool; f_sharp : bool; f_minus : bool;
                  f_zero : bool; f_space : bool; f_width : N }.

(* fmt's printer state while one directive is processed (fmt.fmtFlags + verb) *)
Record pst := { p_verb : verb; p_plusV : bool; p_sharpV : bool; p_plus : bool; p_sharp : bool;
                p_minus : bool; p_zero : bool; p_space : bool; p_wid : N }.

(* doPrintf: for %v the flags + and # become plusV and sharpV *)
Definition init (sp : fspec) : pst :=
  let v := is_v (f_verb sp) in
  {| p_verb := f_verb sp;
     p_plusV := v && f_plus sp; p_sharpV := v && f_sharp sp;
     p_plus := negb v && f_plus sp; p_sharp := negb v && f_sharp sp;
     p_minus := f_minus sp; p_zero := f_zero sp; p_space := f_space sp; p_wid := f_width sp |}.

(* badVerb re-prints the operand with verb v and the flags as they are *)
Definition as_v (st : pst) : pst :=
  {| p_verb := Vv; p_plusV := p_plusV st; p_sharpV := p_sharpV st; p_plus := p_plus st;
     p_sharp := p_sharp st; p_minus := p_minus st; p_zero := p_zero st; p_space := p_space st;
     p_wid := p_wid st |}.

(* rendering of the leaves (fmtString, fmtInteger, fmtBool incl. their own
   bad-verb text, and fmtPointer for a valid verb; the string argument of
   [l_addr] is the pointer's type) *)
Record leaves := {
  l_str : pst -> string -> string;
  l_int : pst -> Z -> string;
  l_bool : pst -> bool -> string;
  l_sec : pst -> sty -> nat -> string;
  l_addr : pst -> string -> string
}.

Definition struct_shell (st : pst) (tn : string) (fs : list (string * string)) : string :=
  ((if p_sharpV st then tn else "") ++ "{"
   ++ join (if p_sharpV st then ", " else " ")
        (map (fun f => if p_plusV st || p_sharpV st then (fst f ++ ":" ++ snd f)%string else snd f) fs)
   ++ "}")%string.

Definition map_shell (st : pst) (tn : string) (kvs : list (string * string)) : string :=
  ((if p_sharpV st then tn ++ "{" else "map[")
   ++ join (if p_sharpV st then ", " else " ") (map (fun kv => (fst kv ++ ":" ++ snd kv)%string) kvs)
   ++ (if p_sharpV st then "}" else "]"))%string.

Definition slice_shell (st : pst) (l : list string) : string :=
  if p_sharpV st then ("[]interface {}{" ++ join ", " l ++ "}")%string
  else ("[" ++ join " " l ++ "]")%string.

Definition bad_verb (st : pst) (ty body : string) : string :=
  ("%!" ++ verb_chr (p_verb st) ++ "(" ++ ty ++ "=" ++ body ++ ")")%string.

Definition pick {A} (l : list A) (order : list nat) : list A :=
  flat_map (fun i => match nth_error l i with Some x => [x] | None => [] end) order.

Section Fmt.
Variable L : leaves.

(* a pointer below depth 0, or a pointer to a non-composite: fmtPointer.
   [reprint] is what badVerb prints for the operand (verb v, depth 0, methods off). *)
Definition fmt_pointer (st : pst) (ty : string) (reprint : string) : string :=
  if ptr_valid (p_verb st) then l_addr L st ty else bad_verb st ty reprint.

(* printValue.  [meth]: handleMethods may be used for this operand, i.e. it was not
   obtained through an unexported struct field and fmt is not inside badVerb
   (p.erroring).  [top]: depth = 0. *)
Fixpoint fmt_at (st : pst) (meth top : bool) (v : val) {struct v} : string :=
  match v with
  | VStr s => l_str L st s
  | VInt z => l_int L st z
  | VBool b => l_bool L st b
  | VSecret t id => l_sec L st t id
  | VRedacted p =>
      if meth then placeholder                              (* Redacted[T].Format *)
      else struct_shell st (type_str v) [("value", fmt_at st false false p)]
  | VStruct n fs =>
      struct_shell st n
        ((fix go (fs : list (string * bool * val)) : list (string * string) :=
            match fs with
            | [] => []
            | (fn, ex, x) :: r => (fn, fmt_at st (meth && ex) false x) :: go r
            end) fs)
  | VMap tn kvs =>
      map_shell st tn
        ((fix go (kvs : list (string * val)) : list (string * string) :=
            match kvs with
            | [] => []
            | (k, x) :: r => (l_str L st k, fmt_at st meth false x) :: go r
            end) kvs)
  | VSlice l =>
      slice_shell st
        ((fix go (l : list val) : list string :=
            match l with [] => [] | x :: r => fmt_at st meth false x :: go r end) l)
  | VPtr x =>
      if meth && is_redacted x then placeholder            (* the pointer's method set has Format *)
      else if top && composite x then ("&" ++ fmt_at st meth false x)%string
      else fmt_pointer st (type_str v)
             (if composite x then ("&" ++ fmt_at (as_v st) false false x)%string
              else l_addr L (as_v st) (type_str v))
  | VIface x => fmt_at st meth false x
  | VFields fs last order =>
      (* struct { data map[FieldKey]indexedFieldValue; lastIndex int } behind a pointer;
         both fields are unexported, so nothing below uses methods *)
      let body (st : pst) :=
        ("&" ++ struct_shell st "errdef.fields"
           [("data",
             map_shell st "map[errdef.FieldKey]errdef.indexedFieldValue"
               (pick
                 ((fix go (fs : list (fkey * val)) : list (string * string) :=
                    match fs with
                    | [] => []
                    | (k, x) :: r =>
                        let kt := ("*errdef.fieldKey[" ++ k_ty k ++ "]")%string in
                        let vt := ("errdef.fieldValue[" ++ k_ty k ++ "]")%string in
                        (fmt_pointer st kt
                           ("&" ++ struct_shell (as_v st) ("errdef.fieldKey[" ++ k_ty k ++ "]")
                                     [("name", l_str L (as_v st) (k_name k))])%string,
                         struct_shell st "errdef.indexedFieldValue"
                           [("value",
                             fmt_pointer st ("*" ++ vt)
                               ("&" ++ struct_shell (as_v st) vt
                                         [("value", fmt_at (as_v st) false false x)])%string);
                            ("index", l_int L st (k_idx k))]) :: go r
                    end) fs) order));
            ("lastIndex", l_int L st last)])%string in
      if top then body st
      else fmt_pointer st "*errdef.fields" (body (as_v st))
  end.

(* fmt.Sprintf(directive, v): printArg calls handleMethods at depth 0 *)
Definition fmt_value (sp : fspec) (v : val) : string := fmt_at (init sp) true true v.

End Fmt.

(* ---- the concrete leaves for the plain directives %v %+v %#v %s %q %d %x ---- *)

Definition std_str (st : pst) (s : string) : string :=
  match p_verb st with
  | Vv => if p_sharpV st then go_quote s else s
  | Vs => s
  | Vq => go_quote s
  | Vx => hex_str s
  | _ => bad_verb st "string" s
  end.

Definition std_int (st : pst) (z : Z) : string :=
  match p_verb st with
  | Vv | Vd => dec_Z z
  | Vx => hex_Z z
  | Vq => go_quote_rune (Z.to_N z)
  | _ => bad_verb st "int" (dec_Z z)
  end.

Definition std_bool (st : pst) (b : bool) : string :=
  let t := if b then "true" else "false" in
  match p_verb st with
  | Vv | Vt => t
  | _ => bad_verb st "bool" t
  end.

(* U+FFFD in UTF-8: what %q and %c print for an int above utf8.MaxRune *)
Definition rune_error : string := cat [ch 239; ch 191; ch 189].

(* a secret leaf as the harness reports it: every rendering of the marker
   (text, hex of the text, the number in base 10 and 16) is replaced by [mark] *)
Definition std_sec (st : pst) (t : sty) (id : nat) : string :=
  match t with
  | TString =>
      match p_verb st with
      | Vv => if p_sharpV st then go_quote mark else mark
      | Vs | Vx => mark
      | Vq => go_quote mark
      | _ => bad_verb st "string" mark
      end
  | TInt =>
      match p_verb st with
      | Vv | Vd | Vx => mark
      | Vq => (sq ++ rune_error ++ sq)%string
      | _ => bad_verb st "int" mark
      end
  end.

Definition std_addr (st : pst) (ty : string) : string :=
  match p_verb st with
  | Vv => if p_sharpV st then ("(" ++ ty ++ ")(0x" ++ ptr_tok ++ ")")%string else ("0x" ++ ptr_tok)%string
  | _ => ptr_tok
  end.

Definition std : leaves :=
  {| l_str := std_str; l_int := std_int; l_bool := std_bool; l_sec := std_sec; l_addr := std_addr |}.

Definition spec_of (vb : verb) (plus sharp : bool) : fspec :=
  {| f_verb := vb; f_plus := plus; f_sharp := sharp; f_minus := false; f_zero := false;
     f_space := false; f_width := 0%N |}.
Definition plusv : fspec := spec_of Vv true false.

(* ------------------------------------------------------------------ *)
(* encoding/json                                                       *)

Inductive json :=
| JNull | JBool (b : bool) | JNum (z : Z) | JRaw (s : string) | JStr (s : string)
| JArr (l : list json) | JObj (kvs : list (string * json))
| JHtml (j : json).   (* text produced by a nested json.Marshal call of a Marshaler: HTML-escaped whatever the outer encoder does *)

(* assignment into a map followed by encoding with sorted keys *)
Fixpoint ins_sorted {A} (k : string) (x : A) (l : list (string * A)) : list (string * A) :=
  match l with
  | [] => [(k, x)]
  | (k', y) :: r =>
      match String.compare k k' with
      | Lt => (k, x) :: l
      | Eq => (k, x) :: r
      | Gt => (k', y) :: ins_sorted k x r
      end
  end.

Fixpoint to_json (v : val) : json :=
  match v with
  | VStr s => JStr s
  | VInt z => JNum z
  | VBool b => JBool b
  | VSecret TString _ => JStr mark
  | VSecret TInt _ => JRaw mark
  | VRedacted _ => JStr placeholder                       (* Redacted[T].MarshalJSON *)
  | VStruct _ fs =>
      JObj ((fix go (fs : list (string * bool * val)) : list (string * json) :=
               match fs with
               | [] => []
               | (fn, ex, x) :: r => if ex then (fn, to_json x) :: go r else go r
               end) fs)
  | VMap _ kvs =>
      JObj ((fix go (kvs : list (string * val)) : list (string * json) :=
               match kvs with [] => [] | (k, x) :: r => (k, to_json x) :: go r end) kvs)
  | VSlice l =>
      JArr ((fix go (l : list val) : list json :=
               match l with [] => [] | x :: r => to_json x :: go r end) l)
  | VPtr x => to_json x
  | VIface x => to_json x
  | VFields fs _ _ =>
      (* fields.MarshalJSON: map[name] = Value(), last in insertion order wins *)
      JHtml (JObj ((fix go (fs : list (fkey * val)) (acc : list (string * json)) : list (string * json) :=
               match fs with
               | [] => acc
               | (k, x) :: r => go r (ins_sorted (k_name k) (to_json x) acc)
               end) fs []))
  end.

Fixpoint json_render (html : bool) (j : json) : string :=
  match j with
  | JNull => "null"
  | JBool b => if b then "true" else "false"
  | JNum z => dec_Z z
  | JRaw s => s
  | JStr s => json_string html s
  | JArr l =>
      ("[" ++ join "," ((fix go (l : list json) : list string :=
                          match l with [] => [] | x :: r => json_render html x :: go r end) l) ++ "]")%string
  | JObj kvs =>
      ("{" ++ join "," ((fix go (kvs : list (string * json)) : list string :=
                          match kvs with
                          | [] => []
                          | (k, x) :: r => (json_string html k ++ ":" ++ json_render html x)%string :: go r
                          end) kvs) ++ "}")%string
  | JHtml x => json_render true x
  end.

(* json.Marshal(v) *)
Definition json_value (v : val) : string := json_render true (to_json v).

(* encoding.TextMarshaler / BinaryMarshaler of the wrapper *)
Definition marshal_text (v : val) : option string :=
  match v with VRedacted _ | VPtr (VRedacted _) => Some placeholder | _ => None end.
Definition marshal_binary (v : val) : option string := marshal_text v.

(* ------------------------------------------------------------------ *)
(* log/slog                                                            *)

(* a resolved slog.Value *)
Inductive lv :=
| LStr (s : string) | LInt (z : Z) | LBool (b : bool) | LRaw (s : string)
| LAny (v : val)
| LGroup (attrs : list (string * lv)).

(* slog.AnyValue(v).Resolve() for a field value *)
Definition log_value (v : val) : lv :=
  match v with
  | VStr s => LStr s
  | VInt z => LInt z
  | VBool b => LBool b
  | VSecret TString _ => LStr mark
  | VSecret TInt _ => LRaw mark
  | VRedacted _ | VPtr (VRedacted _) => LStr placeholder  (* Redacted[T].LogValue *)
  | _ => LAny v
  end.

(* TextHandler: key=value pairs, keys prefixed with the open groups *)
Fixpoint log_text (prefix : string) (key : string) (x : lv) : string :=
  match x with
  | LStr s => (" " ++ prefix ++ key ++ "=" ++ text_quote s)%string
  | LInt z => (" " ++ prefix ++ key ++ "=" ++ dec_Z z)%string
  | LBool b => (" " ++ prefix ++ key ++ "=" ++ (if b then "true" else "false"))%string
  | LRaw s => (" " ++ prefix ++ key ++ "=" ++ s)%string
  | LAny v => (" " ++ prefix ++ key ++ "=" ++ text_quote (fmt_value std plusv v))%string
  | LGroup attrs =>
      (fix go (attrs : list (string * lv)) : string :=
         match attrs with
         | [] => ""
         | (k, y) :: r => (log_text (prefix ++ key ++ ".") k y ++ go r)%string
         end) attrs
  end.

(* JSONHandler *)
Fixpoint log_json (x : lv) : string :=
  match x with
  | LStr s => json_string false s
  | LInt z => dec_Z z
  | LBool b => if b then "true" else "false"
  | LRaw s => s
  | LAny v => json_render false (to_json v)
  | LGroup attrs =>
      ("{" ++ join "," ((fix go (attrs : list (string * lv)) : list string :=
                          match attrs with
                          | [] => []
                          | (k, y) :: r => (json_string false k ++ ":" ++ log_json y)%string :: go r
                          end) attrs) ++ "}")%string
  end.

(* an empty group is dropped by both handlers *)
Definition lv_empty (x : lv) : bool := match x with LGroup [] => true | _ => false end.

(* logger.Error("m", key, x) with the time attribute removed *)
Definition log_line_text (key : string) (x : lv) : string :=
  ("level=ERROR msg=m" ++ (if lv_empty x then "" else log_text "" key x) ++ nl)%string.
Definition log_line_json (key : string) (x : lv) : string :=
  ("{""level"":""ERROR"",""msg"":""m""" ++
   (if lv_empty x then "" else ("," ++ json_string false key ++ ":" ++ log_json x)%string) ++ "}" ++ nl)%string.

(* ------------------------------------------------------------------ *)
(* the fields collection and the error                                 *)

Definition fields := list (fkey * val).

(* fields.LogValue: one attribute per entry, Value() as slog.Any *)
Definition fields_log (fs : fields) : lv :=
  LGroup (map (fun kv => (k_name (fst kv), log_value (snd kv))) fs).

(* formatErrorDetails: the value of one field *)
Definition detail_value (indent : string) (v : val) : string :=
  let s := fmt_value std plusv v in
  if contains nl s then
    ("|" ++ nl ++ String.concat "" (map (fun line => (indent ++ "    " ++ line ++ nl)%string) (split_on nl_char s)))%string
  else s.

(* formatErrorDetails: the "fields:" block *)
Definition details_fields (indent : string) (fs : fields) : string :=
  match fs with
  | [] => ""
  | _ => (nl ++ indent ++ "fields:" ++
          String.concat "" (map (fun kv => (nl ++ indent ++ "  " ++ k_name (fst kv) ++ ": "
                                              ++ detail_value indent (snd kv))%string) fs))%string
  end.

(* errors built without a stack trace (errdef.NoTrace), and foreign errors *)
Inductive err :=
| EDef (msg kind : string) (fs : fields) (last : Z) (causes : list err)
| EOther (msg tyname : string) (causes : list err).

Definition err_msg (e : err) : string := match e with EDef m _ _ _ _ | EOther m _ _ => m end.
Definition err_causes (e : err) : list err := match e with EDef _ _ _ _ c | EOther _ _ c => c end.

Definition causes_header (indent : string) (n : nat) : string :=
  (nl ++ indent ++ "causes: (" ++ (if Nat.eqb n 1 then "1 error" else (dec_nat n ++ " errors")%string) ++ ")")%string.

(* formatErrorDetails for an error without stack *)
Definition details (indent : string) (msg kind : string) (fs : fields) (has_causes : bool) : string :=
  (msg ++
   (if negb (str_eqb kind "") || negb (Nat.eqb (List.length fs) 0) || has_causes
    then (nl ++ indent ++ "---")%string else "") ++
   (if str_eqb kind "" then "" else (nl ++ indent ++ "kind: " ++ kind)%string) ++
   details_fields indent fs)%string.

Definition nonempty {A} (l : list A) : bool := match l with [] => false | _ => true end.

(* formatNodes: the text behind "[i] " of one node printed at [indent], and the list *)
Fixpoint node_body (indent : string) (e : err) {struct e} : string :=
  let ind := (indent ++ "    ")%string in
  let nodes (cs : list err) : string :=
    (fix go (i : nat) (cs : list err) : string :=
       match cs with
       | [] => ""
       | c :: r => (nl ++ ind ++ "[" ++ dec_nat i ++ "] " ++ node_body ind c ++ go (S i) r)%string
       end) 1%nat cs in
  match e with
  | EDef m k fs _ cs =>
      (details ind m k fs (nonempty cs) ++
       (if nonempty cs then (causes_header ind (List.length cs) ++ nodes cs)%string else ""))%string
  | EOther m _ cs =>
      (m ++ (if nonempty cs then (nl ++ ind ++ "---" ++ causes_header ind (List.length cs) ++ nodes cs)%string
             else ""))%string
  end.

Fixpoint format_nodes (indent : string) (i : nat) (cs : list err) : string :=
  match cs with
  | [] => ""
  | c :: r => (nl ++ indent ++ "[" ++ dec_nat i ++ "] " ++ node_body indent c ++ format_nodes indent (S i) r)%string
  end.

(* definition.FormatError with %+v *)
Definition err_plusv (e : err) : string :=
  match e with
  | EDef m k fs _ cs =>
      (details "" m k fs (nonempty cs) ++
       (if nonempty cs then (causes_header "" (List.length cs) ++ format_nodes "  " 1%nat cs)%string else ""))%string
  | EOther m _ _ => m
  end.

Definition fields_obj (fs : fields) (last : Z) : val := VFields fs last (seq 0 (List.length fs)).

(* definition.MarshalErrorJSON / Node.MarshalJSON (no stack: omitzero) *)
Fixpoint err_json (e : err) : json :=
  let causes (cs : list err) : list (string * json) :=
    match cs with
    | [] => []
    | _ => [("causes", JArr ((fix go (cs : list err) : list json :=
                                match cs with [] => [] | c :: r => err_json c :: go r end) cs))]
    end in
  match e with
  | EDef m k fs last cs =>
      JObj ([("message", JStr m)] ++ (if str_eqb k "" then [] else [("kind", JStr k)]) ++
            (match fs with [] => [] | _ => [("fields", to_json (fields_obj fs last))] end) ++ causes cs)
  | EOther m t cs => JObj ([("message", JStr m); ("type", JStr t)] ++ causes cs)
  end.

(* definition.MakeErrorLogValue (no stack: no origin); causes are not logged *)
Definition err_log (e : err) : lv :=
  match e with
  | EDef m k fs _ _ =>
      LGroup ([("message", LStr m)] ++ (if str_eqb k "" then [] else [("kind", LStr k)]) ++
              (match fs with [] => [] | _ => [("fields", fields_log fs)] end))
  | EOther m _ _ => LAny (VStr m)
  end.

(* slogValueToAny (cause.LogValue()): groups become map[string]any (printed with sorted
   keys); a LogValuer that was not resolved - the fields collection - stays as it is *)
Fixpoint node_any (e : err) : val :=
  let causes (cs : list err) : list (string * val) :=
    match cs with
    | [] => []
    | _ => [("causes", VIface (VSlice ((fix go (cs : list err) : list val :=
                                          match cs with [] => [] | c :: r => VIface (node_any c) :: go r end) cs)))]
    end in
  match e with
  | EDef m k fs last cs =>
      VMap "map[string]interface {}"
        (causes cs ++ (match fs with [] => [] | _ => [("fields", VIface (fields_obj fs last))] end) ++
         (if str_eqb k "" then [] else [("kind", VIface (VStr k))]) ++ [("message", VIface (VStr m))])
  | EOther m _ cs =>
      VMap "map[string]interface {}" (causes cs ++ [("message", VIface (VStr m))])
  end.

(* Node.LogValue for a node holding [e] *)
Definition node_log (e : err) : lv :=
  let causes (cs : list err) : list (string * lv) :=
    match cs with [] => [] | _ => [("causes", LAny (VSlice (map (fun c => VIface (node_any c)) cs)))] end in
  match e with
  | EDef m k fs _ cs =>
      LGroup ([("message", LStr m)] ++ (if str_eqb k "" then [] else [("kind", LStr k)]) ++
              (match fs with [] => [] | _ => [("fields", fields_log fs)] end) ++ causes cs)
  | EOther m _ cs => LGroup ([("message", LStr m)] ++ causes cs)
  end.

(* ------------------------------------------------------------------ *)
(* JSON round trip of the fields (unmarshaler.unmarshal)               *)

(* where a decoded field ends up *)
Inductive slot := Unknown (j : json) | Typed (v : val).

(* [conv]: tryConvertFieldValue against the keys of the resolved definition *)
Definition restore_field (conv : string -> json -> option val) (name : string) (j : json) : slot :=
  match j with
  | JStr s =>
      if str_eqb s placeholder then Unknown (JStr placeholder)     (* the redactedStr case *)
      else match conv name j with Some v => Typed v | None => Unknown j end
  | _ => match conv name j with Some v => Typed v | None => Unknown j end
  end.

Definition obj_entries (j : json) : list (string * json) :=
  match j with JObj kvs | JHtml (JObj kvs) => kvs | _ => [] end.

(* the fields of the restored error: (name, slot) for every member of the "fields" object *)
Definition restore_fields (conv : string -> json -> option val) (fs : fields) (last : Z) : list (string * slot) :=
  map (fun kv => (fst kv, restore_field conv (fst kv) (snd kv))) (obj_entries (to_json (fields_obj fs last))).
