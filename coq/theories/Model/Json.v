(* MarshalErrorJSON (definition.go), (fields).MarshalJSON (field.go, unmarshaler/field.go),
   Node.MarshalJSON (node.go), stack JSON - following the code path. *)
From Errdef Require Import Base.Str Base.Outcome Model.Core Model.GoErrors Model.Tree0.

Inductive json :=
| JStr (s : string)
| JRaw (s : string)          (* canonical compact JSON text of a field value (encoding/json oracle) *)
| JNum (z : Z)
| JArr (l : list json)
| JObj (l : list (string * json)).

(* encoding/json on map[string]any: later assignment to a name overwrites, keys are emitted sorted *)
Fixpoint map_set (n : string) (v : fval) (m : list (string * fval)) : list (string * fval) :=
  match m with
  | [] => [(n, v)]
  | (n', v') :: r => if str_eqb n' n then (n, v) :: r else (n', v') :: map_set n v r
  end.
Definition build_map (all : list (string * fval)) : list (string * fval) :=
  fold_left (fun m nv => map_set (fst nv) (snd nv) m) all [].
Definition sort_names (m : list (string * fval)) : list (string * fval) := fold_right ins_name [] m.

(* the harness writes "!err" as fv_json of a value encoding/json cannot marshal *)
Definition json_ok (v : fval) : bool := negb (str_eqb (fv_json v) "!err").

Definition fields_json (all : list (string * fval)) : outcome json :=
  let m := sort_names (build_map all) in
  if forallb (fun nv => json_ok (snd nv)) m
  then Ok (JObj (map (fun nv => (fst nv, JRaw (fv_json (snd nv)))) m))
  else Fail "json".

Definition frame_json (f : frame) : json :=
  JObj [("func", JStr (fr_func f)); ("file", JStr (fr_file f)); ("line", JNum (fr_line f))].

Definition custom_json (id : N) (msg : string) : json := JObj [("custom", JNum (Z.of_N id)); ("msg", JStr msg)].

(* sequence a list of outcomes *)
Fixpoint seq_out {A} (l : list (outcome A)) : outcome (list A) :=
  match l with
  | [] => Ok []
  | x :: r => match x with
              | Ok a => match seq_out r with Ok rs => Ok (a :: rs) | Fail c => Fail c | Panic w => Panic w end
              | Fail c => Fail c | Panic w => Panic w end
  end.

(* json.Marshal of the error at the root of t (t = tree_of of that error).  An errdef
   node re-enters MarshalErrorJSON, which rebuilds its own tree: for acyclic errors
   that is the subtree already at hand. *)
Fixpoint marshal_tree (t : tree) : outcome json :=
  match t with
  | T e kids =>
      let causes := seq_out (map marshal_tree kids) in
      if is_errdef_error e then
        match (match e_def e with Some d => d_json d | None => None end) with
        | Some id => Ok (custom_json id (err_msg e))                       (* JSONMarshaler option *)
        | None =>
            match (match e_fields_all e with [] => Ok None | all => match fields_json all with Ok j => Ok (Some j) | Fail c => Fail c | Panic w => Panic w end end), causes with
            | Ok fj, Ok cs =>
                Ok (JObj ([("message", JStr (err_msg e))]
                          ++ (if str_eqb (e_kind e) "" then [] else [("kind", JStr (e_kind e))])
                          ++ (match fj with Some j => [("fields", j)] | None => [] end)
                          ++ (match e_stack e with [] => [] | fs => [("stack", JArr (map frame_json fs))] end)
                          ++ (match cs with [] => [] | _ => [("causes", JArr cs)] end)))
            | Fail c, _ => Fail c
            | Panic w, _ => Panic w
            | _, Fail c => Fail c
            | _, Panic w => Panic w
            end
        end
      else
        match causes with
        | Ok cs =>
            Ok (JObj ([("message", JStr (err_msg e)); ("type", JStr (type_name e))]
                      ++ (match cs with [] => [] | _ => [("causes", JArr cs)] end)))
        | Fail c => Fail c
        | Panic w => Panic w
        end
  end.

Definition marshal_error (e : err) : outcome json := marshal_tree (tree_of e).
