(* errors.Is / errors.As of the standard library (an oracle, validated by the
   correspondence) and the three Is methods of the library. *)
From Errdef Require Import Base.Str Model.Core.

(* Pre-order list of the nodes errors.Is / errors.As visit from e, in order. *)
Fixpoint reach (e : err) : list err :=
  e :: match e with
       | EDef _ _ _ None _ _ => []
       | EDef _ _ _ (Some c) j _ => if j && is_multi c then tl (reach c) else reach c
       | EDefn _ => []
       | EJoin _ es => flat_map reach es
       | EWrapF _ _ c => reach c
       | ESingle _ _ (Some c) => reach c
       | ESingle _ _ None => []
       | EMulti _ _ cs => flat_map (fun o => match o with Some x => reach x | None => [] end) cs
       | ELeaf _ _ _ => []
       | EPanic _ _ _ (Some c) => reach c
       | EPanic _ _ _ None => []
       | ERest _ _ _ _ _ cs | EUnk _ _ _ cs => flat_map reach cs
       end.

Definition is_defined_error (e : err) : bool := match e with EDef _ _ _ _ _ _ => true | _ => false end.
Definition is_definition (e : err) : bool := match e with EDefn _ => true | _ => false end.

(* errors.As(e, &x) for a type predicate p: the first node in traversal order *)
Definition as_first (p : err -> bool) (e : err) : option err := find p (reach e).

(* definition.Is *)
Definition defn_is (d : defn) (target : err) : bool :=
  match target with EDefn td => N.eqb (d_addr d) (d_addr td) | _ => false end
  || match as_first is_defined_error target with
     | Some (EDef _ dd _ _ _ _) => N.eqb (root d) (root dd)
     | _ => false
     end
  || match as_first is_definition target with
     | Some (EDefn td) => N.eqb (root d) (root td)
     | _ => false
     end.

(* the Is method of a node, if it has one *)
Definition is_method (n target : err) : bool :=
  match n with
  | EDef _ d _ _ _ _ =>                       (* definedError.Is *)
      match target with EDefn td => N.eqb (root d) (root td) | _ => false end
  | EDefn d => defn_is d target
  | ERest _ d _ _ _ _ =>                      (* unmarshaledError.Is *)
      match target with EDefn _ => defn_is d target | _ => false end
  | _ => false
  end.

(* errors.Is(e, target) for non-nil e and target; every error type here is comparable *)
Definition errors_is (e target : err) : bool :=
  existsb (fun n => same n target || is_method n target) (reach e).

Definition errors_is_opt (e target : option err) : bool :=
  match e, target with
  | Some x, Some t => errors_is x t
  | None, None => true
  | _, _ => false
  end.
