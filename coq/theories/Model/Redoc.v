(* The document a restored error marshals to, decoded again (Marshal of an UnmarshaledError followed by
   jsonToDecodedData), on restored errors whose typed fields are scalars and whose causes are errdef errors.
   [reparse32] is strconv on float32: the float64 bits that the shortest decimal of a float32 parses to.
   Used by C12_document_fixpoint; validated against the implementation by Check/C12 (c_ndd). *)
From Coq Require Import ZArith List.
From Errdef Require Import Base.Str Base.Outcome Model.Core Model.Convert Model.Unmarshal Model.JsonVal.
Import ListNotations.
Local Open Scope Z_scope.

Section Redoc.
Variable reparse32 : Z -> Z.

(* fields: every typed field under its key's name with the value it marshals to, every unknown field
   verbatim; encoding/json writes the members of the fields object in name order *)
Fixpoint typed_part (ty : list (ukey * bval)) : option (list (string * dval)) :=
  match ty with
  | [] => Some []
  | (k, b) :: r =>
      match (match bval_scalar b with Some sv => redecode reparse32 sv | None => None end), typed_part r with
      | Some v, Some l => Some ((k_name (uk_key k), v) :: l)
      | _, _ => None
      end
  end.

Definition refields (ty : list (ukey * bval)) (un : list (string * dval)) : option (list (string * dval)) :=
  option_map (fun t => sort_fields (t ++ un)%list) (typed_part ty).

Fixpoint redoc (r : rerr) : option dd :=
  match r with
  | RErr d m ty un st cs =>
      match refields ty un,
            (fix go (l : list rcause) : option (list (option dd)) :=
               match l with
               | [] => Some []
               | RCErr e :: t => match redoc e, go t with Some x, Some xs => Some (Some x :: xs) | _, _ => None end
               | _ :: _ => None
               end) cs with
      | Some f, Some l => Some (DD m (d_kind (ud_def d)) "" f st l "")
      | _, _ => None
      end
  end.

End Redoc.
