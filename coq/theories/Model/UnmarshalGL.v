(* The unmarshaler's entry points as srcgen translated them from unmarshaler/unmarshaler.go
   (Gen/GoLiteSrc.v, suite "um"), run by the GoLite interpreter over the value universe of
   Model/Unmarshal.v.  [um_ext] gives the primitives their meaning: selectors of the receiver and of
   DecodedData, the resolver (C14's model), tryConvertFieldValue (Model/Convert.v), the failure
   factories, the two struct literals.  Nothing here describes the control flow of unmarshal /
   unmarshalCause / resolveKind: that comes from the source. *)
From Coq Require Import String List ZArith Bool.
From Errdef Require Import Base.Str Base.Outcome Model.Core Model.Convert Model.Unmarshal Model.GoLite.
From Errdef Require Gen.GoLiteSrc.
Import ListNotations.
Local Open Scope string_scope.

Inductive dom :=
| DU (c : ucfg)                         (* the receiver *)
| DRes (c : ucfg)                       (* d.resolver, the interface value *)
| DDefRes (c : ucfg) (dflt : udef)      (* the *resolver.DefaultResolver behind it *)
| DDef (d : udef)                       (* an errdef.Definition *)
| DFlds (d : udef)                      (* def.Fields() *)
| DKey (k : ukey)
| DVal (v : dval)                       (* a decoded field value *)
| DBound (b : bval)                     (* a bound errdef.FieldValue *)
| DNode (d : dd)                        (* a non-nil *DecodedData *)
| DStack (s : list frame)
| DNames (l : list string)              (* maps.Keys(m): an iterator in unspecified order *)
| DFactory (cls kind field : string)    (* ErrXxx, possibly .WithOptions(kindField / fieldNameField) *)
| DOpt (is_kind : bool) (v : string)
| DErr (f : failure)                    (* an error made by one of the four factories *)
| DDecErr                               (* the decoder's own error *)
| DRErr (e : rerr)
| DRCause (c : rcause)
| DSentinels (c : ucfg)
| DSentinelKey (ty msg : string).

Notation val := (value dom).

Definition string_ty : sty := {| s_id := 1; s_kind := KString |}.

(* values that are Go strings *)
Definition as_str (v : val) : option string :=
  match v with
  | VStr s => Some s
  | VD (DVal (DS t (SStr s))) => if N.eqb (s_id t) 1 then Some s else None
  | _ => None
  end.

Definition ukey_same (a b : ukey) : bool :=
  N.eqb (k_id (uk_key a)) (k_id (uk_key b)) && str_eqb (k_name (uk_key a)) (k_name (uk_key b)).

(* Go's == as far as these functions use it *)
Definition um_eq (a b : val) : option bool :=
  match a, b with
  | VNil, VNil => Some true
  | VNil, (VD (DErr _) | VD DDecErr | VD (DNode _) | VD (DRErr _) | VD (DRCause _) | VD (DDef _))
  | (VD (DErr _) | VD DDecErr | VD (DNode _) | VD (DRErr _) | VD (DRCause _) | VD (DDef _)), VNil => Some false
  | VBool x, VBool y => Some (Bool.eqb x y)
  | VInt x, VInt y => Some (Z.eqb x y)
  | VD (DKey x), VD (DKey y) => Some (ukey_same x y)
  | _, _ =>
      match as_str a, as_str b with
      | Some x, Some y => Some (str_eqb x y)
      | _, _ => None
      end
  end.

Fixpoint ins_str (x : string) (l : list string) : list string :=
  match l with
  | [] => [x]
  | y :: r => if String.leb x y then x :: l else y :: ins_str x r
  end.
Definition sort_strs (l : list string) : list string := fold_right ins_str [] l.

Definition dval_of (v : val) : option dval :=
  match v with
  | VStr s => Some (DS string_ty (SStr s))
  | VD (DVal x) => Some x
  | _ => None
  end.

Definition rcause_of (v : val) : option rcause :=
  match v with
  | VD (DRErr e) => Some (RCErr e)
  | VD (DDef d) => Some (RCDef d)
  | VD (DRCause c) => Some c
  | _ => None
  end.

Fixpoint opt_all {A B} (f : A -> option B) (l : list A) : option (list B) :=
  match l with
  | [] => Some []
  | x :: r => match f x, opt_all f r with Some y, Some ys => Some (y :: ys) | _, _ => None end
  end.

Definition causes_of (v : val) : option (list rcause) :=
  match v with
  | VNil => Some []
  | VList l => opt_all rcause_of l
  | _ => None
  end.

Definition typed_of (v : val) : option (list (ukey * bval)) :=
  match v with
  | VMap l => opt_all (fun kv => match kv with (VD (DKey k), VD (DBound b)) => Some (k, b) | _ => None end) l
  | _ => None
  end.

Definition unknown_of (v : val) : option (list (string * dval)) :=
  match v with
  | VMap l => opt_all (fun kv => match kv with
                                 | (VStr n, x) => match dval_of x with Some d => Some (n, d) | None => None end
                                 | _ => None end) l
  | _ => None
  end.

Definition mk_failure (cls kind field : string) : failure := {| fl_class := cls; fl_kind := kind; fl_field := field |}.

Definition apply_fopt (f : val) (o : val) : option val :=
  match f, o with
  | VD (DFactory c k n), VD (DOpt true v) => Some (VD (DFactory c v n))
  | VD (DFactory c k n), VD (DOpt false v) => Some (VD (DFactory c k v))
  | _, _ => None
  end.

Definition resolve_pair (c : ucfg) (k : string) : val :=
  match resolve_kind_def (u_defs c) k with
  | Some d => VTuple [VD (DDef d); VBool true]
  | None => VTuple [VNil; VBool false]
  end.

(* helpers of the primitives (kept opaque to cbn in the proofs) *)
Definition fields_entries (d : dd) : list (val * val) :=
  map (fun nv => (VStr (fst nv), VD (DVal (snd nv)))) (dd_fields d).
Definition map_index (k : val) (l : list (val * val)) : val :=
  match find (fun kv => match um_eq k (fst kv) with Some true => true | _ => false end) l with
  | Some kv => snd kv
  | None => VNil
  end.
Definition entry_names (l : list (val * val)) : option (list string) :=
  opt_all (fun kv => match fst kv with VStr n => Some n | _ => None end) l.
Definition cause_vals (d : dd) : list val :=
  map (fun o => match o with Some cd => VD (DNode cd) | None => VNil end) (dd_causes d).
Definition key_vals (ks : list ukey) : list val := map (fun k => VD (DKey k)) ks.

Definition len_val (l : val) : xres dom :=
  match l with
  | VNil => XVal (VInt 0)
  | VList l => XVal (VInt (Z.of_nat (List.length l)))
  | _ => XUnknown
  end.

Definition append_val (l x : val) : xres dom :=
  match l with
  | VNil => XVal (VList [x])
  | VList l => XVal (VList (l ++ [x]))
  | _ => XUnknown
  end.

Definition um_ext (f : string) (args : list val) : xres dom :=
  match f, args with
  | "==", [a; b] => match um_eq a b with Some r => XVal (VBool r) | None => XUnknown end
  (* the receiver *)
  | ".decoder", [VD (DU _); VD DDecErr] => XVal (VTuple [VNil; VD DDecErr])
  | ".decoder", [VD (DU _); VNil] => XVal (VTuple [VNil; VNil])
  | ".decoder", [VD (DU _); VD (DNode d)] => XVal (VTuple [VD (DNode d); VNil])
  | ".strictMode", [VD (DU c)] => XVal (VBool (u_strict c))
  | ".customFieldKeys", [VD (DU c)] => XVal (VList (key_vals (u_custom c)))
  | ".sentinelErrors", [VD (DU c)] => XVal (VD (DSentinels c))
  | ".resolver", [VD (DU c)] => XVal (VD (DRes c))
  (* the resolver (package resolver: C14's model) *)
  | "assert2:*resolver.DefaultResolver", [VD (DRes c)] =>
      XVal (match u_default c with
            | Some d => VTuple [VD (DDefRes c d); VBool true]
            | None => VTuple [VNil; VBool false]
            end)
  | ".ResolveKind", [VD (DRes c); VStr k] => XVal (resolve_pair c k)
  | ".ResolveKind", [VD (DDefRes c _); VStr k] => XVal (resolve_pair c k)
  | ".ResolveKindOrDefault", [VD (DDefRes c d); VStr k] =>
      XVal (VD (DDef (match resolve_kind_def (u_defs c) k with Some x => x | None => d end)))
  | "errdef.Kind", [VStr k] => XVal (VStr k)
  (* DecodedData *)
  | ".Kind", [VD (DNode d)] => XVal (VStr (dd_kind d))
  | ".Message", [VD (DNode d)] => XVal (VStr (dd_msg d))
  | ".Type", [VD (DNode d)] => XVal (VStr (dd_ty d))
  | ".Stack", [VD (DNode d)] => XVal (VD (DStack (dd_stack d)))
  | ".Causes", [VD (DNode d)] =>
      XVal (VList (cause_vals d))
  | ".Fields", [VD (DNode d)] => XVal (VMap (fields_entries d))
  | "fmt.Sprintf", [VStr "<unknown: %+v>"; VD (DNode d)] => XVal (VStr (dd_unk d))
  (* maps and slices *)
  | "make:map", [] => XVal (VMap [])
  | "maps.Keys", [VMap l] =>
      match entry_names l with
      | Some ns => XVal (VD (DNames ns))
      | None => XUnknown
      end
  | "slices.Sorted", [VD (DNames ns)] => XVal (VList (map VStr (sort_strs ns)))
  | "index", [VMap l; k] => XVal (map_index k l)
  | "len", [l] => len_val l
  | "append", [l; x] => append_val l x
  (* definitions, keys, values *)
  | ".Fields", [VD (DDef d)] => XVal (VD (DFlds d))
  | ".FindKeys", [VD (DFlds d); VStr n] => XVal (VList (key_vals (named n (ud_keys d))))
  | ".String", [VD (DKey k)] => XVal (VStr (k_name (uk_key k)))
  | "typeis:string", [v] => XVal (VBool (match as_str v with Some _ => true | None => false end))
  | "typeis:[]byte", [v] => XVal (VBool (match v with VD (DVal (DBytes _)) => true | _ => false end))
  | "global:redactedStr", [] => XVal (VStr redacted_str)
  | "global:redactedBytes", [] => XVal (VD (DVal (DBytes redacted_json)))
  | "bytes.Equal", [VD (DVal (DBytes a)); VD (DVal (DBytes b))] => XVal (VBool (str_eqb a b))
  | "tryConvertFieldValue", [VD (DKey k); VD (DVal v)] =>
      match try_convert (uk_ty k) v with
      | Ok (Some b) => XVal (VTuple [VD (DBound b); VBool true; VNil])
      | Ok None => XVal (VTuple [VNil; VBool false; VNil])
      | Fail _ => XVal (VTuple [VNil; VBool false; VD (DErr internal_failure)])
      | Panic w => XPanic w
      end
  (* the failure factories (unmarshaler/errors.go) *)
  | "global:ErrDecodeFailure", [] => XVal (VD (DFactory cls_decode "" ""))
  | "global:ErrUnknownKind", [] => XVal (VD (DFactory cls_kind "" ""))
  | "global:ErrUnknownField", [] => XVal (VD (DFactory cls_field "" ""))
  | "global:ErrInternal", [] => XVal (VD (DFactory cls_internal "" ""))
  | "kindField", [VStr k] => XVal (VD (DOpt true k))
  | "fieldNameField", [VStr n] => XVal (VD (DOpt false n))
  | ".WithOptions", fac :: opts =>
      match fold_left (fun acc o => match acc with Some f => apply_fopt f o | None => None end) opts (Some fac) with
      | Some r => XVal r
      | None => XUnknown
      end
  | ".New", VD (DFactory c k n) :: _ => XVal (VD (DErr (mk_failure c k n)))
  | ".Errorf", VD (DFactory c k n) :: _ => XVal (VD (DErr (mk_failure c k n)))
  | ".Wrap", [VD (DFactory c k n); _] => XVal (VD (DErr (mk_failure c k n)))
  | ".Wrapf", VD (DFactory c k n) :: _ => XVal (VD (DErr (mk_failure c k n)))
  | "errors.Is", [VD (DErr f); VD (DFactory c _ _)] => XVal (VBool (str_eqb (fl_class f) c))
  (* causes *)
  | "global:errdefDefinitionTypeName", [] => XVal (VStr definition_type_name)
  | "lit:sentinelKey{message,typeName}", [VStr m; VStr t] => XVal (VD (DSentinelKey t m))
  | "index2", [VD (DSentinels c); VD (DSentinelKey t m)] =>
      XVal (match lookup_sentinel c t m with
            | Some id => VTuple [VD (DRCause (RCSentinel id)); VBool true]
            | None => VTuple [VNil; VBool false]
            end)
  | "&lit:UnknownCauseError{causes,msg,typeName}", [cs; VStr m; VStr t] =>
      match causes_of cs with
      | Some l => XVal (VD (DRCause (RCUnknown m t l)))
      | None => XUnknown
      end
  | "&lit:unmarshaledError{causes,def,fields,msg,stack,unknownFields}", [cs; VD (DDef d); ty; VStr m; VD (DStack s); un] =>
      match causes_of cs, typed_of ty, unknown_of un with
      | Some l, Some t, Some u => XVal (VD (DRErr (RErr d m t u s l)))
      | _, _, _ => XUnknown
      end
  | _, _ => XUnknown
  end.

Definition um_run (fuel : nat) (f : string) (args : list val) : ires val :=
  run dom um_ext GoLiteSrc.um_funs fuel f args.

Definition input_val (od : option dd) (decerr : bool) : val :=
  if decerr then VD DDecErr else match od with Some d => VD (DNode d) | None => VNil end.

(* the (result, error) pair of Unmarshal / unmarshal as a model outcome; None: the interpreter left the fragment *)
Definition ures_of (r : ires val) : option (ures rerr) :=
  match r with
  | IOk (VTuple [VD (DRErr e); VNil]) => Some (UOk e)
  | IOk (VTuple [VNil; VD (DErr f)]) => Some (UFail [f])
  | IPanic w => Some (UPanic w)
  | _ => None
  end.

Definition cause_res_of (r : ires val) : option (ures rcause) :=
  match r with
  | IOk (VTuple [v; VNil]) => match rcause_of v with Some c => Some (UOk c) | None => None end
  | IOk (VTuple [VNil; VD (DErr f)]) => Some (UFail [f])
  | IPanic w => Some (UPanic w)
  | _ => None
  end.

(* Unmarshaler.Unmarshal as translated from the source *)
Definition src_unmarshal_top (fuel : nat) (c : ucfg) (od : option dd) (decerr : bool) : option (ures rerr) :=
  ures_of (um_run fuel ".Unmarshal" [VD (DU c); input_val od decerr]).
Definition src_unmarshal (fuel : nat) (c : ucfg) (d : dd) : option (ures rerr) :=
  ures_of (um_run fuel ".unmarshal" [VD (DU c); VD (DNode d)]).
Definition src_unmarshal_cause (fuel : nat) (c : ucfg) (d : dd) : option (ures rcause) :=
  cause_res_of (um_run fuel ".unmarshalCause" [VD (DU c); VD (DNode d)]).

(* the primitives [um_ext] gives a meaning to; Properties/C10.v proves that the translated bodies call no other *)
Definition um_known_prims : list string :=
  ["=="; ".decoder"; ".strictMode"; ".customFieldKeys"; ".sentinelErrors"; ".resolver";
   "assert2:*resolver.DefaultResolver"; ".ResolveKind"; ".ResolveKindOrDefault"; "errdef.Kind";
   ".Kind"; ".Message"; ".Type"; ".Stack"; ".Causes"; ".Fields"; "fmt.Sprintf";
   "make:map"; "maps.Keys"; "slices.Sorted"; "index"; "len"; "append";
   ".FindKeys"; ".String"; "typeis:string"; "typeis:[]byte"; "global:redactedStr"; "global:redactedBytes";
   "bytes.Equal"; "tryConvertFieldValue";
   "global:ErrDecodeFailure"; "global:ErrUnknownKind"; "global:ErrUnknownField"; "global:ErrInternal";
   "kindField"; "fieldNameField"; ".WithOptions"; ".New"; ".Errorf"; ".Wrap"; ".Wrapf"; "errors.Is";
   "global:errdefDefinitionTypeName"; "lit:sentinelKey{message,typeName}"; "index2";
   "&lit:UnknownCauseError{causes,msg,typeName}";
   "&lit:unmarshaledError{causes,def,fields,msg,stack,unknownFields}"].

Definition um_translation_ok : bool :=
  match GoLiteSrc.um_unsupported, GoLiteSrc.um_aliasing with
  | [], [] => forallb (fun p => existsb (String.eqb p) um_known_prims) GoLiteSrc.um_prims
  | _, _ => false
  end.

(* enough fuel for a decoded tree: two calls per level *)
Fixpoint dd_depth (d : dd) : nat :=
  match d with
  | DD _ _ _ _ _ cs _ =>
      S ((fix mx (l : list (option dd)) : nat :=
            match l with
            | [] => O
            | None :: r => mx r
            | Some c :: r => Nat.max (dd_depth c) (mx r)
            end) cs)
  end.
Definition fuel_for (od : option dd) : nat :=
  2 * match od with Some d => dd_depth d | None => O end + 2.
