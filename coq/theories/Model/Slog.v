(* MakeErrorLogValue (definition.go), fields.LogValue, Node.LogValue / slogValueToAny
   (node.go), stack / Frame LogValue (stack.go): the fully resolved slog value. *)
From Errdef Require Import Base.Str Model.Core Model.GoErrors Model.Tree0.

Inductive sv :=
| SVGroup (attrs : list (string * sv))      (* slog group: ordered, duplicates kept *)
| SVMap (m : list (string * sv))            (* map[string]any built by slogValueToAny: keys sorted *)
| SVStr (s : string)
| SVInt (z : Z)
| SVVal (repr : string)                     (* any other value, by its %+v form *)
| SVFrame (f : frame)                       (* Frame.LogValue: func, file, line *)
| SVFrames (fs : list frame)                (* stack.LogValue: AnyValue(frames) *)
| SVList (l : list sv).                     (* []any *)

Definition frame_sv (f : frame) : sv :=
  SVGroup [("func", SVStr (fr_func f)); ("file", SVStr (fr_file f)); ("line", SVInt (fr_line f))].

(* fields.LogValue: one attribute per pair of All(), in order, duplicates kept *)
Definition fields_sv (all : list (string * fval)) : sv :=
  SVGroup (map (fun nv => (fst nv, SVVal (fv_plus (snd nv)))) all).

Definition custom_log (id : N) (msg : string) : sv := SVGroup [("custom", SVInt (Z.of_N id)); ("msg", SVStr msg)].

(* LogValue of an errdef error: message, kind, fields, origin - never stack or causes *)
Definition log_value (e : err) : sv :=
  match (match e_def e with Some d => d_log d | None => None end) with
  | Some id => custom_log id (err_msg e)
  | None =>
      SVGroup ([("message", SVStr (err_msg e))]
               ++ (if str_eqb (e_kind e) "" then [] else [("kind", SVStr (e_kind e))])
               ++ (match e_fields_all e with [] => [] | all => [("fields", fields_sv all)] end)
               ++ (match e_stack e with [] => [] | f :: _ => [("origin", frame_sv f)] end))
  end.

(* slogValueToAny: groups become maps (sorted keys, later attribute wins), other values stay *)
Fixpoint ins_sv (x : string * sv) (l : list (string * sv)) : list (string * sv) :=
  match l with
  | [] => [x]
  | y :: r => if str_eqb (fst x) (fst y) then x :: r
              else if String.leb (fst x) (fst y) then x :: l else y :: ins_sv x r
  end.
Definition to_map (attrs : list (string * sv)) : list (string * sv) :=
  fold_left (fun m a => ins_sv a m) attrs [].

(* Node.LogValue *)
Fixpoint node_log_value (t : tree) : sv :=
  match t with
  | T e kids =>
      let causes := map (fun k => match node_log_value k with
                                  | SVGroup attrs => SVMap (to_map attrs)
                                  | other => other end) kids in
      if is_errdef_error e then
        SVGroup ([("message", SVStr (err_msg e))]
                 ++ (if str_eqb (e_kind e) "" then [] else [("kind", SVStr (e_kind e))])
                 ++ (match e_fields_all e with [] => [] | all => [("fields", fields_sv all)] end)
                 ++ (match e_stack e with [] => [] | fs => [("stack", SVFrames fs)] end)
                 ++ (match causes with [] => [] | _ => [("causes", SVList causes)] end))
      else
        SVGroup ([("message", SVStr (err_msg e))]
                 ++ (match causes with [] => [] | _ => [("causes", SVList causes)] end))
  end.
