(* unmarshaler/converter.go: binding a decoded value to a typed field key.
   Numbers are IEEE-754 bit patterns (Z); the float arithmetic is Flocq's. *)
From Coq Require Import ZArith Bool.
From Flocq Require Import Core IEEE754.BinarySingleNaN.
From Flocq Require IEEE754.Binary IEEE754.Bits.
From Errdef Require Import Base.Str Base.Outcome.
From Errdef Require Gen.Bounds.
Module Bounds := Errdef.Gen.Bounds.
Local Open Scope Z_scope.

(* ---------- types and values as far as binding looks at them ---------- *)
Inductive skind := KBool | KString
| KInt | KInt8 | KInt16 | KInt32 | KInt64 | KUint | KUint8 | KUint16 | KUint32 | KUint64
| KFloat32 | KFloat64.

Definition skind_eqb (a b : skind) : bool :=
  match a, b with
  | KBool, KBool | KString, KString | KInt, KInt | KInt8, KInt8 | KInt16, KInt16 | KInt32, KInt32
  | KInt64, KInt64 | KUint, KUint | KUint8, KUint8 | KUint16, KUint16 | KUint32, KUint32
  | KUint64, KUint64 | KFloat32, KFloat32 | KFloat64, KFloat64 => true
  | _, _ => false
  end.

Record sty := { s_id : N; s_kind : skind }.          (* a scalar Go type: identity and reflect.Kind *)

(* field (target) types *)
Inductive fty :=
| FScalar (t : sty)
| FPtr (id : N) (elem : sty)            (* pointer to a scalar type *)
| FJson (id : N)                        (* struct, map, slice, pointer to struct: bound via JSON *)
| FIface (id : N)                       (* interface type (any): ZeroValue().Value() is nil *)
| FOther (id : N) (kd : N) (elem : option (N * N))
| FIfaceNE (id : N).                    (* a non-empty interface type (error, fmt.Stringer ...) that no decoded value of the
                                           universe implements: NewValue's assertion fails, ZeroValue().Value() is nil *)
   (* array, chan, func, pointer to array / pointer / chan ...: reflect.Kind number kd; for a pointer
      whose element is not a scalar, struct, slice or map: the element's type id and Kind *)

Definition fty_id (t : fty) : N :=
  match t with FScalar s => s_id s | FPtr id _ | FJson id | FIface id | FOther id _ _ | FIfaceNE id => id end.

Inductive sval := SBool (b : bool) | SStr (s : string) | SInt (z : Z) | SF32 (bits : Z) | SF64 (bits : Z).

(* decoded values: anything a decoder may put into DecodedData.Fields *)
Inductive dval :=
| DNil
| DS (t : sty) (v : sval)                       (* a scalar with its dynamic type *)
| DJ (id : N) (tbl : list (N * option string))  (* map[string]any / []any; oracle: target type id -> decoded form (None: json error) *)
| DBytes (s : string)
| DO (id : N) (kd : N) (conv : list N).         (* any other value: type id, reflect.Kind, ids of the types it is ConvertibleTo *)

Definition dval_ty (v : dval) : option N :=
  match v with DNil => None | DS t _ => Some (s_id t) | DJ id _ | DO id _ _ => Some id | DBytes _ => Some 19%N end.

(* the bound value *)
Inductive bval :=
| BSame (v : dval)                     (* NewValue accepted the value as is *)
| BScalar (t : sty) (v : sval)         (* converted scalar of type t *)
| BPtr (id : N) (t : sty) (v : sval)   (* fresh pointer (type id) to a converted scalar *)
| BJson (id : N) (form : string)       (* decoded through encoding/json into type id *)
| BPtrO (id : N).                      (* fresh pointer (type id) to a converted non-scalar value *)

Definition ty_float64 : sty := {| s_id := 13; s_kind := KFloat64 |}.
Definition ty_int64 : sty := {| s_id := 6; s_kind := KInt64 |}.

(* ---------- IEEE-754 helpers on bit patterns ---------- *)
Notation b64 := (binary_float 53 1024).
Notation b32 := (binary_float 24 128).

Definition f64_of_bits (b : Z) : b64 := Binary.B2BSN 53 1024 (Bits.b64_of_bits b).
Definition f32_of_bits (b : Z) : b32 := Binary.B2BSN 24 128 (Bits.b32_of_bits b).

(* bit pattern of a single-NaN float; every NaN is printed as the quiet NaN [nanbits] *)
Definition bits_of_bsn (mw ew : Z) (nanbits : Z) {p e} (f : binary_float p e) : Z :=
  let emin := 3 - e - p in
  match f with
  | B754_zero s => Bits.join_bits mw ew s 0 0
  | B754_infinity s => Bits.join_bits mw ew s 0 (2 ^ ew - 1)
  | B754_nan => nanbits
  | B754_finite s m ex _ =>
      let mm := Zpos m - 2 ^ mw in
      if 0 <=? mm then Bits.join_bits mw ew s mm (ex - emin + 1) else Bits.join_bits mw ew s (Zpos m) 0
  end.
Definition nan32_bits : Z := 2143289344.            (* 0x7FC00000 *)
Definition nan64_bits : Z := 9221120237041090560.   (* 0x7FF8000000000000 *)
Definition bits_of_f32 (f : b32) : Z := bits_of_bsn 23 8 nan32_bits f.
Definition bits_of_f64 (f : b64) : Z := bits_of_bsn 52 11 nan64_bits f.

(* Go constant converted to float64 (round to nearest even) *)
Definition f64c (c : Z) : b64 := binary_normalize 53 1024 eq_refl eq_refl mode_NE c 0 false.

(* math.Modf(f) fraction == 0 for finite f; NaN and Inf have frac != 0 resp. are caught by the range test *)
Definition is_integral {p e} (f : binary_float p e) : bool :=
  match f with
  | B754_zero _ => true
  | B754_finite _ m ex _ => (0 <=? ex) || (Zpos m mod 2 ^ (- ex) =? 0)
  | _ => false
  end.

Definition to_Z {p e} (f : binary_float p e) : Z :=
  match f with
  | B754_finite s m ex _ =>
      let v := if 0 <=? ex then Zpos m * 2 ^ ex else Zpos m / 2 ^ (- ex) in
      if s then - v else v
  | _ => 0
  end.

Definition is_nan_f {p e} (f : binary_float p e) : bool := match f with B754_nan => true | _ => false end.
Definition is_inf_f {p e} (f : binary_float p e) : bool := match f with B754_infinity _ => true | _ => false end.

(* named constants (never write 2^63 in a statement) *)
Definition two7 : Z := 128.        Definition two8 : Z := 256.
Definition two15 : Z := 32768.     Definition two16 : Z := 65536.
Definition two31 : Z := 2147483648. Definition two32 : Z := 4294967296.
Definition two63 : Z := 9223372036854775808.
Definition two64 : Z := 18446744073709551616.
Definition max_float32_bits64 : Z := 5183643170566569984.  (* math.MaxFloat32 as float64: 0x47EFFFFFE0000000 *)

Definition int_min (k : skind) : Z :=
  match k with
  | KInt | KInt64 => - two63 | KInt8 => - two7 | KInt16 => - two15 | KInt32 => - two31 | _ => 0 end.
Definition int_max (k : skind) : Z :=
  match k with
  | KInt | KInt64 => two63 - 1 | KInt8 => two7 - 1 | KInt16 => two15 - 1 | KInt32 => two31 - 1
  | KUint | KUint64 => two64 - 1 | KUint8 => two8 - 1 | KUint16 => two16 - 1 | KUint32 => two32 - 1
  | _ => 0 end.
Definition is_signed (k : skind) : bool :=
  match k with KInt | KInt8 | KInt16 | KInt32 | KInt64 => true | _ => false end.
Definition is_unsigned (k : skind) : bool :=
  match k with KUint | KUint8 | KUint16 | KUint32 | KUint64 => true | _ => false end.

(* wrap to the target integer type: what the amd64 conversion instructions produce *)
Definition wrap_signed (bits : Z) (z : Z) : Z :=
  let m := 2 ^ bits in let r := z mod m in if r <? m / 2 then r else r - m.
Definition kind_bits (k : skind) : Z :=
  match k with KInt8 | KUint8 => 8 | KInt16 | KUint16 => 16 | KInt32 | KUint32 => 32 | _ => 64 end.

(* float64 -> integer kind conversion of an integral in-range-by-the-code's-test value on amd64:
   CVTTSD2SQ yields the "integer indefinite" MinInt64 for 2^63; uint64(f) for f >= 2^63 is
   computed as int64(f - 2^63) xor 2^63, which gives 2^63 for f = 2^64 *)
Definition f64_to_int_amd64 (k : skind) (z : Z) : Z :=
  if is_signed k then
    (if (z >=? two63) || (z <? - two63) then wrap_signed (kind_bits k) (- two63) else wrap_signed (kind_bits k) z)
  else
    (if z >=? two64 then (two63 mod 2 ^ kind_bits k) else z mod 2 ^ kind_bits k).

(* float32(f) for a float64 f: round to nearest even (overflow cannot happen below) *)
Definition f64_to_f32 (f : b64) : b32 :=
  match f with
  | B754_zero s => B754_zero s
  | B754_infinity s => B754_infinity s
  | B754_nan => B754_nan
  | B754_finite s m e _ => binary_normalize 24 128 eq_refl eq_refl mode_NE (if s then Zneg m else Zpos m) e s
  end.

(* tryConvertFloat64: the hand-written reference the theorems were developed against; the MODEL is
   conv_f64 below, an interpreter of the clause tables srcgen extracts from converter.go *)
Definition conv_f64_ref (k : skind) (bits : Z) : option sval :=
  let f := f64_of_bits bits in
  if is_signed k then
    if negb (is_integral f) then None
    else if Bltb f (f64c (int_min k)) || Bltb (f64c (int_max k)) f then None
    else Some (SInt (f64_to_int_amd64 k (to_Z f)))
  else if is_unsigned k then
    if negb (is_integral f) then None
    else if Bltb f (f64c 0) then None
    else if Bltb (f64c (int_max k)) f then None
    else Some (SInt (f64_to_int_amd64 k (to_Z f)))
  else match k with
  | KFloat32 =>
      (* math.Abs(f) > MaxFloat32 is false for NaN: NaN passes *)
      if Bltb (f64_of_bits max_float32_bits64) (Babs f) then None
      else Some (SF32 (bits_of_f32 (f64_to_f32 f)))
  | KFloat64 => Some (SF64 bits)
  | _ => None
  end.

(* float32(i64), float64(i64): round to nearest even *)
Definition i64_to_f32 (z : Z) : b32 := binary_normalize 24 128 eq_refl eq_refl mode_NE z 0 false.
Definition i64_to_f64 (z : Z) : b64 := binary_normalize 53 1024 eq_refl eq_refl mode_NE z 0 false.

(* int64(float32) on amd64: out of range gives MinInt64 *)
Definition f32_to_i64_amd64 (f : b32) : Z :=
  let z := to_Z f in if (z >=? two63) || (z <? - two63) then - two63 else z.

(* tryConvertInt64 (64-bit int/uint): reference, see conv_i64 below *)
Definition conv_i64_ref (k : skind) (z : Z) : option sval :=
  if is_signed k then
    if (z <? int_min k) || (z >? int_max k) then None else Some (SInt z)
  else if is_unsigned k then
    if z <? 0 then None else if z >? int_max k then None else Some (SInt z)
  else match k with
  | KFloat32 => let f := i64_to_f32 z in
                if f32_to_i64_amd64 f =? z then Some (SF32 (bits_of_f32 f)) else None
  | KFloat64 => Some (SF64 (bits_of_f64 (i64_to_f64 z)))
  | _ => None
  end.


(* ---------- the model proper: interpretation of Gen/Bounds.v ---------- *)
(* Gen/Bounds.v is regenerated from unmarshaler/converter.go on every run: per clause of the outer
   `switch kind` the kinds served, the guards in source order (a true guard declines), the per-kind
   (min, max) table, the declared type of min/max and the operand of the final conversion. *)
Definition skind_name (k : skind) : string :=
  match k with
  | KBool => "Bool" | KString => "String"
  | KInt => "Int" | KInt8 => "Int8" | KInt16 => "Int16" | KInt32 => "Int32" | KInt64 => "Int64"
  | KUint => "Uint" | KUint8 => "Uint8" | KUint16 => "Uint16" | KUint32 => "Uint32" | KUint64 => "Uint64"
  | KFloat32 => "Float32" | KFloat64 => "Float64"
  end.

Definition find_clause (cls : list Bounds.clause) (k : skind) : option Bounds.clause :=
  find (fun cl => existsb (str_eqb (skind_name k)) (Bounds.cl_kinds cl)) cls.

(* a kind missing from the inner switch leaves `var min, max` at their zero values *)
Definition clause_bounds (cl : Bounds.clause) (k : skind) : Z * Z :=
  match find (fun e => str_eqb (fst e) (skind_name k)) (Bounds.cl_bounds cl) with
  | Some (_, b) => b
  | None => (0, 0)
  end.

Definition cmp_f (c : Bounds.cmpop) (a b : b64) : bool :=
  match c with
  | Bounds.CLt => Bltb a b | Bounds.CGt => Bltb b a
  | Bounds.CLe => Bleb a b | Bounds.CGe => Bleb b a
  | Bounds.CEq => Beqb a b | Bounds.CNe => negb (Beqb a b)
  end.
Definition cmp_z (c : Bounds.cmpop) (a b : Z) : bool :=
  match c with
  | Bounds.CLt => a <? b | Bounds.CGt => a >? b
  | Bounds.CLe => a <=? b | Bounds.CGe => a >=? b
  | Bounds.CEq => a =? b | Bounds.CNe => negb (a =? b)
  end.

(* operands of a guard in tryConvertFloat64: min/max are float64 variables, so the integer
   constants assigned to them are converted to float64 (round to nearest even) *)
Definition f64_operand (f : b64) (mm : Z * Z) (p : Bounds.operand) : option b64 :=
  match p with
  | Bounds.PVal => Some f
  | Bounds.PMin => Some (f64c (fst mm))
  | Bounds.PMax => Some (f64c (snd mm))
  | Bounds.PConst z => Some (f64c z)
  | Bounds.PAbsVal => Some (Babs f)
  | Bounds.PMaxFloat32 => Some (f64_of_bits max_float32_bits64)
  | _ => None
  end.
(* a guard the translator did not recognise declines everything (the bridge lemma then fails) *)
Definition f64_guard (f : b64) (mm : Z * Z) (g : Bounds.guard) : bool :=
  match g with
  | Bounds.GModf => negb (is_integral f)
  | Bounds.GCmp l c r =>
      match f64_operand f mm l, f64_operand f mm r with
      | Some a, Some b => cmp_f c a b
      | _, _ => true
      end
  | Bounds.GUnknown _ => true
  end.

Fixpoint run_guards {G} (ev : G -> bool) (gs : list G) (k : option sval) : option sval :=
  match gs with
  | [] => k
  | g :: r => if ev g then None else run_guards ev r k
  end.

Definition bty_ok (cl : Bounds.clause) (want : string) : bool :=
  match Bounds.cl_bounds cl with [] => true | _ => str_eqb (Bounds.cl_bty cl) want end.

(* tryConvertFloat64 *)
Definition conv_f64 (k : skind) (bits : Z) : option sval :=
  let f := f64_of_bits bits in
  match find_clause Bounds.f64_clauses k with
  | None => None
  | Some cl =>
      if negb (bty_ok cl "float64" && str_eqb (Bounds.cl_conv cl) "f64") then None
      else
        run_guards (f64_guard f (clause_bounds cl k)) (Bounds.cl_guards cl)
          (if is_signed k || is_unsigned k then Some (SInt (f64_to_int_amd64 k (to_Z f)))
           else match k with
                | KFloat32 => Some (SF32 (bits_of_f32 (f64_to_f32 f)))
                | KFloat64 => Some (SF64 bits)
                | _ => None
                end)
  end.

Definition i64_operand (z : Z) (mm : Z * Z) (p : Bounds.operand) : option Z :=
  match p with
  | Bounds.PVal => Some z
  | Bounds.PMin => Some (fst mm)
  | Bounds.PMax => Some (snd mm)
  | Bounds.PConst c => Some c
  | Bounds.PU64Val => Some (if z <? 0 then z + two64 else z)            (* uint64(i64), i64 an int64 *)
  | Bounds.PBackI64 => Some (f32_to_i64_amd64 (i64_to_f32 z))          (* int64(float32(i64)) *)
  | _ => None
  end.
Definition i64_guard (z : Z) (mm : Z * Z) (g : Bounds.guard) : bool :=
  match g with
  | Bounds.GModf => true
  | Bounds.GCmp l c r =>
      match i64_operand z mm l, i64_operand z mm r with
      | Some a, Some b => cmp_z c a b
      | _, _ => true
      end
  | Bounds.GUnknown _ => true
  end.

(* tryConvertInt64 (64-bit int/uint: strconv.IntSize == 64) *)
Definition conv_i64 (k : skind) (z : Z) : option sval :=
  match find_clause Bounds.i64_clauses k with
  | None => None
  | Some cl =>
      let want_bty := if is_signed k then "int64" else "uint64" in
      let want_conv := match k with KFloat32 => "f32" | KFloat64 => "float64(i64)" | _ => "i64" end in
      if negb (bty_ok cl want_bty && str_eqb (Bounds.cl_conv cl) want_conv) then None
      else
        run_guards (i64_guard z (clause_bounds cl k)) (Bounds.cl_guards cl)
          (if is_signed k || is_unsigned k then Some (SInt z)
           else match k with
                | KFloat32 => Some (SF32 (bits_of_f32 (i64_to_f32 z)))
                | KFloat64 => Some (SF64 (bits_of_f64 (i64_to_f64 z)))
                | _ => None
                end)
  end.

(* ---------- tryConvertFieldValue ---------- *)
Definition is_f64_val (v : dval) : option Z :=
  match v with DS t (SF64 b) => if N.eqb (s_id t) 13 then Some b else None | _ => None end.
Definition is_i64_val (v : dval) : option Z :=
  match v with DS t (SInt z) => if N.eqb (s_id t) 6 then Some z else None | _ => None end.

Definition opt_bscalar (t : sty) (o : option sval) : option bval := option_map (BScalar t) o.

(* value conversion between scalar types of one kind keeps the payload *)
Definition convert_same_kind (v : sval) : sval := v.

(* reflect.Array *)
Definition kind_array : N := 17.

Definition try_convert (T : fty) (v : dval) : outcome (option bval) :=
  (* 1. fk.NewValue(value): value.(T) *)
  match T, v with
  | FIface _, DNil => Ok None          (* nil does not assert; targetType is nil *)
  | FIface _, _ => Ok (Some (BSame v))
  | FIfaceNE _, _ => Ok None           (* the assertion fails; targetType is nil: declined before any conversion *)
  | _, _ =>
  if match dval_ty v with Some id => N.eqb id (fty_id T) | None => false end then Ok (Some (BSame v))
  else
  (* 3. by dynamic type of the value *)
  let step3 : outcome (option bval) :=
    match is_f64_val v, is_i64_val v, v with
    | Some b, _, _ => Ok (match T with FScalar t => opt_bscalar t (conv_f64 (s_kind t) b) | _ => None end)
    | _, Some z, _ => Ok (match T with FScalar t => opt_bscalar t (conv_i64 (s_kind t) z) | _ => None end)
    | _, _, DJ _ tbl =>
        let via_json (id : N) : outcome (option bval) :=
          match find (fun e => N.eqb (fst e) id) tbl with
          | Some (_, Some form) => Ok (Some (BJson id form))
          | Some (_, None) => Fail "internal"         (* json.Unmarshal error: ErrInternal *)
          | None => Fail "internal"
          end in
        match T with
        | FJson id => via_json id
        | FOther id kd _ => if N.eqb kd kind_array then via_json id else Ok None   (* arrays, as of the fix for F16 *)
        | _ => Ok None
        end
    | _, _, _ => Ok None
    end in
  match step3 with
  | Ok None =>
      (* 4. tryConvertByUnderlyingType (as of the fix for F5: ConvertibleTo guard) *)
      let step4 : option bval :=
        match T, v with
        | FScalar t, DS vt sv => if skind_eqb (s_kind t) (s_kind vt) then Some (BScalar t (convert_same_kind sv)) else None
        | FOther id kd _, DO _ vkd conv => if N.eqb kd vkd && existsb (N.eqb id) conv then Some (BSame v) else None
        | _, _ => None
        end in
      match step4 with
      | Some b => Ok (Some b)
      | None =>
          (* 5. tryConvertPointer *)
          match T, v with
          | FPtr id elem, DS vt sv => if skind_eqb (s_kind elem) (s_kind vt) then Ok (Some (BPtr id elem sv)) else Ok None
          (* pointer to an array / pointer / chan ...: same Kind and ConvertibleTo the element type
             (without the second guard reflect.Value.Convert panics) *)
          | FOther id _ (Some (eid, ekd)), DO _ vkd conv =>
              if N.eqb ekd vkd && existsb (N.eqb eid) conv then Ok (Some (BPtrO id)) else Ok None
          | _, _ => Ok None
          end
      end
  | other => other
  end
  end.
