(* Core model of package errdef: fields, definitions, errors, the errors.Is /
   errors.As traversal of the standard library, the constructors.
   Identity is explicit: everything Go compares by pointer carries an address. *)
From Errdef Require Import Base.Str.

(* ---------- keys, values, fields (field.go) ---------- *)
Record key := { k_id : N; k_name : string; k_ty : N }.

(* A field value: identity/canonical form plus the reference renderings the
   harness computes with fmt / encoding/json directly (oracle for the stdlib). *)
Record fval := { fv_repr : string; fv_plus : string; fv_json : string }.

Definition fval_eqb (a b : fval) : bool :=
  str_eqb (fv_repr a) (fv_repr b) && str_eqb (fv_plus a) (fv_plus b) && str_eqb (fv_json a) (fv_json b).

(* map[FieldKey]indexedFieldValue + lastIndex.  The association list is kept in
   the order entries were (last) written; [all] nevertheless sorts by index as
   the code does, and C20 proves the order of the underlying list irrelevant. *)
Record fields := { f_data : list (key * (fval * nat)); f_last : nat }.

Definition fields_empty : fields := {| f_data := []; f_last := 0 |}.

Definition key_eqb (a b : key) : bool := N.eqb (k_id a) (k_id b).

Definition f_remove (k : key) (l : list (key * (fval * nat))) :=
  filter (fun e => negb (key_eqb (fst e) k)) l.

Definition f_set (k : key) (v : fval) (f : fields) : fields :=
  let i := S (f_last f) in
  {| f_data := f_remove k (f_data f) ++ [(k, (v, i))]; f_last := i |}.

Definition f_get (f : fields) (k : key) : option fval :=
  option_map (fun e => fst (snd e)) (find (fun e => key_eqb (fst e) k) (f_data f)).

Definition f_find_keys (f : fields) (name : string) : list key :=
  map fst (filter (fun e => str_eqb (k_name (fst e)) name) (f_data f)).

(* insertion sort by index: slices.SortedFunc(keys, cmp index) *)
Fixpoint ins_by_idx (e : key * (fval * nat)) (l : list (key * (fval * nat))) :=
  match l with
  | [] => [e]
  | x :: r => if Nat.leb (snd (snd e)) (snd (snd x)) then e :: l else x :: ins_by_idx e r
  end.
Definition sort_by_idx (l : list (key * (fval * nat))) := fold_right ins_by_idx [] l.

Definition f_all (f : fields) : list (key * fval) :=
  map (fun e => (fst e, fst (snd e))) (sort_by_idx (f_data f)).
Definition f_len (f : fields) : nat := List.length (f_data f).
Definition f_is_zero (f : fields) : bool := Nat.eqb (List.length (f_data f)) 0.

(* ---------- options and definitions (option.go, definition.go) ---------- *)
Inductive opt :=
| OField (k : key) (v : fval)
| ONoTrace
| OSkip (n : Z)
| ODepth (n : Z)
| OSource (around depth : Z)
| ONoop
| OFormatter (id : N)
| OJson (id : N)
| OLog (id : N).

Record defn := {
  d_addr : N;                 (* pointer identity of this *definition *)
  d_root : option N;          (* rootDef: None on an origin *)
  d_org : nat;                (* GHOST: index of the Define statement it descends from; never read by the model *)
  d_kind : string;
  d_fields : fields;
  d_notrace : bool;
  d_skip : Z; d_depth : Z; d_srclines : Z; d_srcdepth : Z;
  d_fmt : option N; d_json : option N; d_log : option N
}.

Definition root (d : defn) : N := match d_root d with None => d_addr d | Some r => r end.

Definition set_fields (d : defn) (f : fields) : defn :=
  {| d_addr := d_addr d; d_root := d_root d; d_org := d_org d; d_kind := d_kind d; d_fields := f;
     d_notrace := d_notrace d; d_skip := d_skip d; d_depth := d_depth d;
     d_srclines := d_srclines d; d_srcdepth := d_srcdepth d;
     d_fmt := d_fmt d; d_json := d_json d; d_log := d_log d |}.

(* Formatter(nil) / JSONMarshaler(nil) / LogValuer(nil), printed with id 0, reset to the default *)
Definition pres (id : N) : option N := if N.eqb id 0 then None else Some id.

Definition apply_opt (d : defn) (o : opt) : defn :=
  match o with
  | OField k v => set_fields d (f_set k v (d_fields d))
  | ONoTrace =>
      {| d_addr := d_addr d; d_root := d_root d; d_org := d_org d; d_kind := d_kind d; d_fields := d_fields d;
         d_notrace := true; d_skip := d_skip d; d_depth := d_depth d;
         d_srclines := d_srclines d; d_srcdepth := d_srcdepth d;
         d_fmt := d_fmt d; d_json := d_json d; d_log := d_log d |}
  | OSkip n =>
      {| d_addr := d_addr d; d_root := d_root d; d_org := d_org d; d_kind := d_kind d; d_fields := d_fields d;
         d_notrace := d_notrace d; d_skip := d_skip d + n; d_depth := d_depth d;
         d_srclines := d_srclines d; d_srcdepth := d_srcdepth d;
         d_fmt := d_fmt d; d_json := d_json d; d_log := d_log d |}
  | ODepth n =>
      {| d_addr := d_addr d; d_root := d_root d; d_org := d_org d; d_kind := d_kind d; d_fields := d_fields d;
         d_notrace := d_notrace d; d_skip := d_skip d; d_depth := n;
         d_srclines := d_srclines d; d_srcdepth := d_srcdepth d;
         d_fmt := d_fmt d; d_json := d_json d; d_log := d_log d |}
  | OSource a dp =>
      {| d_addr := d_addr d; d_root := d_root d; d_org := d_org d; d_kind := d_kind d; d_fields := d_fields d;
         d_notrace := d_notrace d; d_skip := d_skip d; d_depth := d_depth d;
         d_srclines := a; d_srcdepth := dp;
         d_fmt := d_fmt d; d_json := d_json d; d_log := d_log d |}
  | ONoop => d
  | OFormatter id =>
      {| d_addr := d_addr d; d_root := d_root d; d_org := d_org d; d_kind := d_kind d; d_fields := d_fields d;
         d_notrace := d_notrace d; d_skip := d_skip d; d_depth := d_depth d;
         d_srclines := d_srclines d; d_srcdepth := d_srcdepth d;
         d_fmt := pres id; d_json := d_json d; d_log := d_log d |}
  | OJson id =>
      {| d_addr := d_addr d; d_root := d_root d; d_org := d_org d; d_kind := d_kind d; d_fields := d_fields d;
         d_notrace := d_notrace d; d_skip := d_skip d; d_depth := d_depth d;
         d_srclines := d_srclines d; d_srcdepth := d_srcdepth d;
         d_fmt := d_fmt d; d_json := pres id; d_log := d_log d |}
  | OLog id =>
      {| d_addr := d_addr d; d_root := d_root d; d_org := d_org d; d_kind := d_kind d; d_fields := d_fields d;
         d_notrace := d_notrace d; d_skip := d_skip d; d_depth := d_depth d;
         d_srclines := d_srclines d; d_srcdepth := d_srcdepth d;
         d_fmt := d_fmt d; d_json := d_json d; d_log := pres id |}
  end.

Definition apply_opts (d : defn) (os : list opt) : defn := fold_left apply_opt os d.

(* Define(kind, opts...) at address a, as the org-th Define statement *)
Definition define (a : N) (org : nat) (kind : string) (os : list opt) : defn :=
  apply_opts {| d_addr := a; d_root := None; d_org := org; d_kind := kind; d_fields := fields_empty;
                d_notrace := false; d_skip := 0; d_depth := 0; d_srclines := 0; d_srcdepth := 0;
                d_fmt := None; d_json := None; d_log := None |} os.

(* definition.clone at fresh address a: fields are cloned (same content),
   rootDef is set only when the receiver is an origin *)
Definition clone (a : N) (d : defn) : defn :=
  {| d_addr := a; d_root := Some (root d); d_org := d_org d; d_kind := d_kind d; d_fields := d_fields d;
     d_notrace := d_notrace d; d_skip := d_skip d; d_depth := d_depth d;
     d_srclines := d_srclines d; d_srcdepth := d_srcdepth d;
     d_fmt := d_fmt d; d_json := d_json d; d_log := d_log d |}.

(* With(ctx, opts...): the receiver itself when there is nothing to apply *)
Definition with_ (a : N) (d : defn) (ctx_opts opts : list opt) : defn :=
  match ctx_opts, opts with
  | [], [] => d
  | _, _ => apply_opts (apply_opts (clone a d) ctx_opts) opts
  end.
Definition with_options (a : N) (d : defn) (opts : list opt) : defn :=
  match opts with [] => d | _ => apply_opts (clone a d) opts end.

(* ContextWithOptions(parent, opts...) *)
Definition ctx_with (parent_opts opts : list opt) : list opt := parent_opts ++ opts.

(* ---------- errors ---------- *)
Record frame := { fr_func : string; fr_file : string; fr_line : Z }.

(* fields of a restored error (unmarshaler/field.go): typed and unknown *)
Record rfields := { rf_typed : list (key * fval); rf_unknown : list (string * fval) }.

Inductive err :=
| EDef (a : N) (d : defn) (msg : string) (cause : option err) (joined : bool) (stk : list frame)
| EDefn (d : defn)
| EJoin (a : N) (es : list err)
| EWrapF (a : N) (msg : string) (e : err)
| ESingle (a : N) (msg : string) (c : option err)
| EMulti (a : N) (msg : string) (cs : list (option err))
| ELeaf (a : N) (msg : string) (tyname : string)
| EPanic (a : N) (msg : string) (pv_id : N) (pv_err : option err)
| ERest (a : N) (d : defn) (msg : string) (rf : rfields) (stk : list frame) (causes : list err)
| EUnk (a : N) (msg : string) (tyname : string) (causes : list err).

Definition addr_of (e : err) : N :=
  match e with
  | EDef a _ _ _ _ _ | EJoin a _ | EWrapF a _ _ | ESingle a _ _ | EMulti a _ _ | ELeaf a _ _ | EPanic a _ _ _
  | ERest a _ _ _ _ _ | EUnk a _ _ _ => a
  | EDefn d => d_addr d
  end.

(* Go's == on two error interface values: equal dynamic types and equal pointers.
   Only the distinction definition / anything else matters to the library. *)
Definition is_defn_val (e : err) : bool := match e with EDefn _ => true | _ => false end.
Definition same (a b : err) : bool :=
  Bool.eqb (is_defn_val a) (is_defn_val b) && N.eqb (addr_of a) (addr_of b).

Fixpoint somes {A} (l : list (option A)) : list A :=
  match l with [] => [] | Some x :: r => x :: somes r | None :: r => somes r end.

(* what errors.Is / errors.As follow from a node: Unwrap() error or Unwrap() []error *)
Definition unwrap_std (e : err) : list err :=
  match e with
  | EDef _ _ _ None _ _ => []
  | EDef _ _ _ (Some c) j _ =>
      if j then match c with
                | EJoin _ es => es
                | EMulti _ _ cs => somes cs
                | EDef _ _ _ _ _ _ => [c]   (* statically impossible: Join always wraps a joinError *)
                | _ => [c]
                end
      else [c]
  | EDefn _ => []
  | EJoin _ es => es
  | EWrapF _ _ c => [c]
  | ESingle _ _ c => match c with Some x => [x] | None => [] end
  | EMulti _ _ cs => somes cs
  | ELeaf _ _ _ => []
  | EPanic _ _ _ pe => match pe with Some x => [x] | None => [] end
  | ERest _ _ _ _ _ cs | EUnk _ _ _ cs => cs
  end.

Fixpoint err_msg (e : err) : string :=
  match e with
  | EDef _ _ m _ _ _ | EWrapF _ m _ | ESingle _ m _ | EMulti _ m _ | ELeaf _ m _ | EPanic _ m _ _
  | ERest _ _ m _ _ _ | EUnk _ m _ _ => m
  | EDefn d => d_kind d
  | EJoin _ es => join nl (map err_msg es)
  end.

Definition is_multi (e : err) : bool :=
  match e with EJoin _ _ | EMulti _ _ _ | EDef _ _ _ _ _ _ | ERest _ _ _ _ _ _ | EUnk _ _ _ _ => true | _ => false end.

(* ---------- constructors (definition.go, error.go) ---------- *)
(* The captured stack is an input: what runtime.Callers returned is observed by
   the harness (C05 treats the skip arithmetic separately). *)
Definition stack_of (d : defn) (stk : list frame) : list frame := if d_notrace d then [] else stk.

Definition new_error (a : N) (d : defn) (cause : option err) (msg : string) (joined : bool) (stk : list frame) : err :=
  EDef a d msg cause joined (stack_of d stk).

Definition c_new (a : N) (d : defn) (msg : string) stk : option err := Some (new_error a d None msg false stk).

(* Errorf: the format itself without arguments, else fmt.Sprintf (oracle [sprintf_ref]) *)
Definition c_errorf (a : N) (d : defn) (format : string) (nargs : nat) (sprintf_ref : string) stk : option err :=
  Some (new_error a d None (match nargs with O => format | _ => sprintf_ref end) false stk).

Definition c_wrap (a : N) (d : defn) (cause : option err) stk : option err :=
  match cause with
  | None => None
  | Some c => Some (new_error a d (Some c) (err_msg c) false stk)
  end.

(* Wrapf, as of the fix commit for F1: Sprintf(format, args...) + ": " + cause.Error() *)
Definition c_wrapf (a : N) (d : defn) (cause : option err) (sprintf_ref : string) stk : option err :=
  match cause with
  | None => None
  | Some c => Some (new_error a d (Some c) (sprintf_ref ++ ": " ++ err_msg c) false stk)
  end.

(* errors.Join (Go 1.25): nil when no non-nil argument; a lone argument that
   already implements Unwrap() []error is returned as is; else a joinError at a *)
Definition errors_join (a : N) (cs : list (option err)) : option err :=
  match somes cs with
  | [] => None
  | [c] => if is_multi c then Some c else Some (EJoin a [c])
  | es => Some (EJoin a es)
  end.

(* Join, as of the fix commit for F11: a single non-nil cause is wrapped
   directly (not flattened); otherwise the joinError lives at a, the
   definedError at a+1 *)
Definition c_join (a : N) (d : defn) (cs : list (option err)) stk : option err :=
  match somes cs with
  | [] => None
  | [c] => Some (new_error (a + 1) d (Some c) (err_msg c) false stk)
  | es => Some (new_error (a + 1) d (Some (EJoin a es)) (err_msg (EJoin a es)) true stk)
  end.

(* definedError.Unwrap() []error *)
Definition def_unwrap (e : err) : list err :=
  match e with EDef _ _ _ _ _ _ => unwrap_std e | _ => [] end.
Definition def_cause (e : err) : option err :=
  match e with EDef _ _ _ c _ _ => c | _ => None end.

(* fmt's %v of an error value: the Formatter of an errdef error decides; the harness's
   custom formatters print "<custom-fmt ID VERB Error()>" *)
Definition custom_fmt (id : N) (verb : string) (msg : string) : string :=
  ("<custom-fmt " ++ dec id ++ " " ++ verb ++ " " ++ msg ++ ">")%string.
Definition fmt_v (e : err) : string :=
  match e with
  | EDef _ d m _ _ _ | ERest _ d m _ _ _ =>
      match d_fmt d with Some id => custom_fmt id "v" m | None => m end
  | _ => err_msg e
  end.
