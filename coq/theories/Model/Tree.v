(* Executable model of /repo/node.go: buildNodes, buildNode, Walk, HasCycle, and of
   definition.BuildCauseTree / definedError.UnwrapTree / errdef.UnwrapTreeFrom.
   No proofs here.  The model threads the SAME state as the code: the map
   [visited map[uintptr]uintptr], keyed by address, in which one slot (the code uses
   key 0) doubles as the "cycle just cut" marker. *)
From Errdef Require Import Base.Str.

(* ---------- cause graphs: a node table ---------- *)

(* what the error's Unwrap method is *)
Inductive unw :=
| UNone                                  (* no Unwrap method *)
| USingle (c : option nat)               (* Unwrap() error ; None = returns nil *)
| UMulti (cs : list (option nat)).       (* Unwrap() []error ; None entries = nil elements *)

Record gnode := {
  g_key : option N;    (* reflect.ValueOf(err).Pointer() when the kind is pointer/map/slice/chan/func
                          ("tracked"); None for value-kinded errors (struct values, strings, ints) *)
  g_unwrap : unw;
  g_errdef : bool      (* the node is an errdef error (informative: used by the JSON part of C07) *)
}.
Definition graph := list gnode.

(* the slice [causes] that buildNode computes for a node *)
Definition causes_of (nd : gnode) : list (option nat) :=
  match g_unwrap nd with
  | UNone => []
  | USingle None => []
  | USingle (Some c) => [Some c]
  | UMulti cs => cs
  end.

(* errdef.Node without the error value: node id, IsCyclic, Causes *)
Inductive tree := Node (n : nat) (cyc : bool) (kids : list tree).

(* ---------- the visited map ---------- *)

(* THE key of the slot used as cycle marker.  node.go uses visited[0].
   (Finding F3: a typed nil pointer has Pointer() == 0 and collides with it.  If /repo
   changes the marker to ^uintptr(0), change this ONE definition to
   18446744073709551615%N; every theorem is stated relative to [marker_key].) *)
Definition marker_key : N := 18446744073709551615%N.

Definition vmap := list (N * N).
Fixpoint vget (k : N) (m : vmap) : option N :=
  match m with
  | [] => None
  | (k', v) :: r => if N.eqb k k' then Some v else vget k r
  end.
Definition vmem (k : N) (m : vmap) : bool := match vget k m with Some _ => true | None => false end.
Fixpoint vdel (k : N) (m : vmap) : vmap :=
  match m with
  | [] => []
  | (k', v) :: r => if N.eqb k k' then vdel k r else (k', v) :: vdel k r
  end.
Definition vset (k v : N) (m : vmap) : vmap := (k, v) :: vdel k m.

(* ---------- buildNodes / buildNode ---------- *)

(* [None] = the recursion did not finish within the fuel (in Go: unbounded recursion,
   a fatal stack overflow) or the graph has a dangling index (not a Go value). *)
Definition bres (A : Type) := option (A * vmap).

(* buildNodes: nil entries are skipped, a node is appended when buildNode says ok *)
Fixpoint build_list (bn : nat -> vmap -> bres (option tree)) (cs : list (option nat)) (vm : vmap)
  : bres (list tree) :=
  match cs with
  | [] => Some ([], vm)
  | None :: r => build_list bn r vm
  | Some c :: r =>
      match bn c vm with
      | None => None
      | Some (ot, vm1) =>
          match build_list bn r vm1 with
          | None => None
          | Some (ts, vm2) => Some (match ot with Some t => t :: ts | None => ts end, vm2)
          end
      end
  end.

(* the deferred function of buildNode *)
Definition on_exit (ptr : N) (vm : vmap) : bool * vmap :=
  let (cyc, vm1) :=
    match vget marker_key vm with
    | Some c => if N.eqb c ptr then (true, vdel marker_key vm) else (false, vm)
    | None => (false, vm)
    end in
  (cyc, vdel ptr vm1).

Fixpoint build_node (fuel : nat) (g : graph) (n : nat) (vm : vmap) : bres (option tree) :=
  match fuel with
  | O => None
  | S f =>
      match nth_error g n with
      | None => None
      | Some nd =>
          match g_key nd with
          | Some ptr =>
              if vmem ptr vm then Some (None, vset marker_key ptr vm)     (* visited[0] = ptr; return nil,false *)
              else
                let vm1 := vset ptr ptr vm in                             (* visited[ptr] = ptr *)
                match build_list (build_node f g) (causes_of nd) vm1 with
                | None => None
                | Some (kids, vm2) =>
                    let (cyc, vm3) := on_exit ptr vm2 in
                    Some (Some (Node n cyc kids), vm3)
                end
          | None =>
              match build_list (build_node f g) (causes_of nd) vm with
              | None => None
              | Some (kids, vm2) => Some (Some (Node n false kids), vm2)
              end
          end
      end
  end.

Definition build_nodes (fuel : nat) (g : graph) (cs : list (option nat)) (vm : vmap) : bres (list tree) :=
  build_list (build_node fuel g) cs vm.

(* fuel that suffices for every graph satisfying the guard of C06 (C06_terminates) *)
Definition fuel_bound (g : graph) : nat := (List.length g + 1) * (List.length g + 1).

(* definition.BuildCauseTree(err) / definedError.UnwrapTree(): a fresh map, the receiver's causes.
   The receiver is the graph node [recv]; it is NOT entered into the map. *)
Definition build_cause_tree (fuel : nat) (g : graph) (recv : nat) : option (list tree) :=
  match nth_error g recv with
  | None => None
  | Some nd => match build_nodes fuel g (causes_of nd) [] with
               | Some (ts, _) => Some ts
               | None => None
               end
  end.
Definition unwrap_tree (g : graph) (recv : nat) : option (list tree) := build_cause_tree (fuel_bound g) g recv.

(* errdef.UnwrapTreeFrom(e) for an errdef receiver: (nil,false) when the tree is empty *)
Definition unwrap_tree_from (g : graph) (recv : nat) : option (option (list tree)) :=
  match unwrap_tree g recv with
  | None => None
  | Some [] => Some None
  | Some ts => Some (Some ts)
  end.

(* ---------- Nodes.HasCycle ---------- *)
Fixpoint has_cycle_node (t : tree) : bool :=
  match t with Node _ c kids => c || existsb has_cycle_node kids end.
Definition has_cycle (ts : list tree) : bool := existsb has_cycle_node ts.

(* ---------- Nodes.Walk: push iterator; [yield] returns false to stop ---------- *)
(* "for _, c := range l { if !f(c) { return false } } ; return true" *)
Section WalkLoop.
  Context {S : Type}.
  Variable f : tree -> S -> S * bool.
  Fixpoint walk_loop (l : list tree) (s : S) : S * bool :=
    match l with
    | [] => (s, true)
    | c :: r => let (s1, go) := f c s in
                if negb go then (s1, false) else walk_loop r s1
    end.
End WalkLoop.

Section Walk.
  Context {S : Type}.
  Variable yield : nat -> nat -> S -> S * bool.     (* depth, node id, consumer state *)

  (* Node.walk *)
  Fixpoint walk_node (t : tree) (depth : nat) (s : S) : S * bool :=
    match t with
    | Node n _ kids =>
        let (s1, go) := yield depth n s in
        if negb go then (s1, false)
        else walk_loop (fun c => walk_node c (Datatypes.S depth)) kids s1
    end.

  (* Nodes.Walk *)
  Definition walk_nodes (ts : list tree) (s : S) : S * bool :=
    walk_loop (fun t => walk_node t 0) ts s.
End Walk.

(* consumer "for d, n := range ns.Walk() { out = append(out, (d, n)); if len(out) == k { break } }"
   ; k = 0 never breaks *)
Definition collect (k : nat) (d n : nat) (acc : list (nat * nat)) : list (nat * nat) * bool :=
  let acc' := acc ++ [(d, n)] in (acc', negb (Nat.eqb (List.length acc') k)).
Definition walk (ts : list tree) : list (nat * nat) := fst (walk_nodes (collect 0) ts []).
Definition walk_break (k : nat) (ts : list tree) : list (nat * nat) := fst (walk_nodes (collect k) ts []).
