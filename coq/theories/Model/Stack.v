(* Stack capture and the stack views (stack.go, error.go newError / DebugStack,
   definition.go constructors, option.go StackSkip / StackDepth / NoTrace,
   errdef.go StackFrom).  Executable model following the Go control flow; no
   proofs here.

   PARTIAL BY NATURE.  What runtime.Callers returns, what the inliner does and
   how pcs are symbolised is observed by the harness, not proved: the model
   takes the goroutine stack at capture time as an input list (innermost frame
   first) and symbolisers as abstract functions.  The model carries the
   arithmetic (which entries of that list are kept) and the agreement of the
   views.  The library's own part of the goroutine stack - the call chain from
   the constructor down to runtime.Callers - and the skip constants come from
   the GENERATED files Gen/Chain.v and Gen/Consts.v. *)
From Errdef Require Import Base.Str Model.Core.
From Errdef Require Gen.Consts Gen.Chain.

Definition callersSkip : Z := Gen.Consts.callersSkip.
Definition callersDepth : Z := Gen.Consts.callersDepth.

(* ---------- the six constructor methods of *definition ---------- *)
Inductive ctor := CNew | CErrorf | CWrap | CWrapf | CJoin | CRecover.

Definition ctor_eqb (a b : ctor) : bool :=
  match a, b with
  | CNew, CNew | CErrorf, CErrorf | CWrap, CWrap | CWrapf, CWrapf | CJoin, CJoin | CRecover, CRecover => true
  | _, _ => false
  end.

(* library frames on the goroutine stack when runtime.Callers runs, innermost
   first: [runtime.Callers; newStack; newError; <method>], for Recover
   [runtime.Callers; newStack; newError; <deferred closure>; runtime.gopanic] *)
Definition chain_of (k : ctor) : list string :=
  match k with
  | CNew => Gen.Chain.chain_New | CErrorf => Gen.Chain.chain_Errorf | CWrap => Gen.Chain.chain_Wrap
  | CWrapf => Gen.Chain.chain_Wrapf | CJoin => Gen.Chain.chain_Join | CRecover => Gen.Chain.chain_Recover
  end.

(* the value each constructor passes as newError's stackSkip argument *)
Definition ctor_skip (k : ctor) : Z :=
  match k with
  | CNew => Gen.Chain.skip_New | CErrorf => Gen.Chain.skip_Errorf | CWrap => Gen.Chain.skip_Wrap
  | CWrapf => Gen.Chain.skip_Wrapf | CJoin => Gen.Chain.skip_Join | CRecover => Gen.Chain.skip_Recover
  end.

Definition ctor_matched (k : ctor) : bool :=
  match k with
  | CNew => Gen.Chain.matched_New | CErrorf => Gen.Chain.matched_Errorf | CWrap => Gen.Chain.matched_Wrap
  | CWrapf => Gen.Chain.matched_Wrapf | CJoin => Gen.Chain.matched_Join | CRecover => Gen.Chain.matched_Recover
  end.

(* what the constructor adds to callersSkip (0, and Recover's own offset) *)
Definition ctor_extra (k : ctor) : Z := ctor_skip k - callersSkip.
Definition recover_extra_skip : Z := ctor_extra CRecover.

(* srcgen recognised the shapes of newStack and newError this model relies on *)
Definition capture_shape_ok : bool :=
  Gen.Chain.newStack_shape_ok && Gen.Chain.newError_shape_ok
  && Gen.Consts.callersSkip_matched && Gen.Consts.callersDepth_matched.

(* The skip passed by the constructor removes exactly the library's own frames.
   A computation on generated data: inserting a helper frame, or editing the
   constant or an offset, makes it false. *)
Definition chain_ok (k : ctor) : bool :=
  ctor_matched k && Z.eqb (Z.of_nat (List.length (chain_of k))) (ctor_skip k).

(* firstn / skipn with a Z count, recursive on the LIST: a count like math.MaxInt (StackDepth, StackSkip take any
   int) must not be turned into a unary number when a case is evaluated.  Equal to firstn/skipn of Z.to_nat
   (Proofs/C05Proofs.zfirstn_eq, zskipn_eq). *)
Fixpoint zfirstn {A : Type} (n : Z) (l : list A) : list A :=
  match l with
  | [] => []
  | x :: r => if Z.ltb 0 n then x :: zfirstn (n - 1) r else []
  end.
Fixpoint zskipn {A : Type} (n : Z) (l : list A) : list A :=
  match l with
  | [] => []
  | x :: r => if Z.ltb 0 n then zskipn (n - 1) r else l
  end.

(* ---------- runtime.Callers (oracle) ---------- *)
Section Capture.
  Context {A : Type}.          (* program counters *)

  (* runtime.Callers(skip, pcs) with len(pcs) = depth on goroutine stack [gs]:
     entry 0 of [gs] is runtime.Callers itself; skip counts logical frames
     (inlined ones included); a non-positive skip skips nothing. *)
  Definition go_callers (skip depth : Z) (gs : list A) : list A :=
    zfirstn depth (zskipn skip gs).

  (* newError: depth := callersDepth; if d.stackDepth > 0 { depth = d.stackDepth } *)
  Definition eff_depth (d : defn) : Z := if Z.gtb (d_depth d) 0 then d_depth d else callersDepth.

  (* the brief's formula: capture d extra gs, gs = chain ++ user *)
  Definition capture (d : defn) (extra : Z) (gs : list A) : list A :=
    zfirstn (eff_depth d) (zskipn (d_skip d + callersSkip + extra) gs).

  (* newError(d, ..., stackSkip): None is the nil *stack of a NoTrace definition *)
  Definition new_error_stack (d : defn) (stack_skip : Z) (gs : list A) : option (list A) :=
    if d_notrace d then None
    else Some (go_callers (d_skip d + stack_skip) (eff_depth d) gs).

  (* goroutine stack when constructor k runs newError: library chain, then user frames *)
  Definition gstack (chain_pcs user : list A) : list A := chain_pcs ++ user.

  (* ---------- views (stack.go); s = None is the nil receiver ---------- *)
  Definition pcs_of (s : option (list A)) : list A := match s with Some l => l | None => [] end.

  Variable sym : A -> frame.          (* runtime.CallersFrames on one pc *)

  Definition frames (s : option (list A)) : list frame := map sym (pcs_of s).
  Definition head_frame (s : option (list A)) : option frame :=
    match pcs_of s with [] => None | pc :: _ => Some (sym pc) end.
  Definition len (s : option (list A)) : Z := Z.of_nat (List.length (pcs_of s)).
  Definition is_zero (s : option (list A)) : bool := match pcs_of s with [] => true | _ => false end.
  (* FramesAndSource yields s.Frames() in order (frame component only) *)
  Definition frames_and_source (s : option (list A)) : list frame := frames s.
  Definition stack_trace (s : option (list A)) : list A := pcs_of s.
  (* jsonErrorData.Stack has omitempty,omitzero: absent when IsZero *)
  Definition json_stack (s : option (list A)) : option (list frame) :=
    if is_zero s then None else Some (frames s).
  (* stack.LogValue = slog.AnyValue(s.Frames()); MakeErrorLogValue adds "origin" when Len() > 0 *)
  Definition slog_stack (s : option (list A)) : list frame := frames s.
  Definition slog_origin (s : option (list A)) : option frame :=
    if Z.gtb (len s) 0 then head_frame s else None.
  (* StackFrom: absent when Len() = 0 *)
  Definition stack_from (s : option (list A)) : option (list A) :=
    if Z.eqb (len s) 0 then None else Some (pcs_of s).

  (* DebugStack (error.go) BEFORE F8's fix: for every pc of StackTrace(),
     runtime.FuncForPC(pc); nil results are dropped; name and FileLine(pc) of the
     raw pc.  Kept so that the model follows the source if it goes back. *)
  Variable sym2 : A -> option frame.  (* FuncForPC(pc) + Func.FileLine(pc) *)
  Definition debug_stack_funcforpc (s : option (list A)) : list frame :=
    flat_map (fun pc => match sym2 pc with Some f => [f] | None => [] end) (stack_trace s).
  (* DebugStack after F8's fix: runtime.CallersFrames over StackTrace(); a frame is
     printed only `if frame.Function != ""` *)
  Definition named (f : frame) : bool := negb (str_eqb (fr_func f) "").
  Definition debug_stack_callersframes (s : option (list A)) : list frame :=
    if Gen.Chain.debugstack_skips_unnamed then filter named (map sym (stack_trace s))
    else map sym (stack_trace s).
  (* the symboliser DebugStack uses NOW, as read from the source by srcgen *)
  Definition debug_stack (s : option (list A)) : list frame :=
    if str_eqb Gen.Chain.debugstack_symboliser "runtime.CallersFrames" then debug_stack_callersframes s
    else debug_stack_funcforpc s.
End Capture.

(* ---------- factories: Define, then at most one With / WithOptions ----------
   (Definition.With / WithOptions return a Factory, which has constructors only;
   context options accumulate through nested ContextWithOptions, Core.ctx_with.) *)
Inductive path :=
| PDef
| PWith (ctx_opts opts : list opt)
| PWithOptions (opts : list opt).

Definition factory (a0 a1 : N) (org : nat) (kind : string) (dopts : list opt) (p : path) : defn :=
  let d := define a0 org kind dopts in
  match p with
  | PDef => d
  | PWith ctx o => with_ a1 d ctx o
  | PWithOptions o => with_options a1 d o
  end.

(* all options in the order they are applied *)
Definition all_opts (dopts : list opt) (p : path) : list opt :=
  dopts ++ match p with PDef => [] | PWith ctx o => ctx ++ o | PWithOptions o => o end.

(* stack of the error constructor k creates from factory d when the frames above
   the library chain are [user] *)
Definition ctor_stack {A} (k : ctor) (d : defn) (chain_pcs user : list A) : option (list A) :=
  new_error_stack d (ctor_skip k) (gstack chain_pcs user).
