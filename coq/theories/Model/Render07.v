(* C07 - executable model of every renderer of an errdef error, over the cause-graph model of
   Model/Tree.v (cyclic graphs as node tables), and of the source-snippet reader with its
   process-wide memo (stack.go).  No proofs here.

   (a) renderers that only follow the pruned tree returned by UnwrapTree (buildNodes):
       Error(), %s %v %q, %+v (FormatError -> formatErrorDetails / formatNodes), the slog value
       (MakeErrorLogValue), Node.LogValue, DebugStack: structural recursions on [tree].
       What they print is abstract: the sequence of (depth, node id) visits (the text is C18/C19).
   (a') %#v: definedError.GoString / unmarshaledError.GoString hand the raw struct to fmt's
       %#v, which prints the CONTENTS of map/slice/struct-kinded values it reaches through the
       unexported cause field (pointers below the top level are printed as addresses; no method
       is called on values reached through unexported fields).  fmt has no cycle detection for
       maps: modelled with fuel over the "inline-kinded" nodes.
   (b) json.Marshal: Node.MarshalJSON hands an errdef node back to json.Marshal(err), which
       rebuilds that node's tree with a FRESH visited map (finding K1): modelled with fuel.
   (c) readSourceFile / getSourceLines / frameSource / FramesAndSource with the memo
       {sourceAvailable, sourceFileCache} as a state machine over a file oracle. *)
From Errdef Require Import Base.Str Base.Outcome Model.Tree.

Definition inb (n : nat) (l : list nat) : bool := existsb (Nat.eqb n) l.

Definition is_errdef (g : graph) (n : nat) : bool :=
  match nth_error g n with Some nd => g_errdef nd | None => false end.

(* what the graph model of C06 does not carry *)
Record attrs := {
  a_bad : list nat;      (* errdef nodes one of whose field values encoding/json cannot encode
                            (chan, func, NaN, +-Inf, a map that contains itself) *)
  a_cycf : list nat;     (* errdef nodes one of whose field values contains itself through a map
                            or slice: fmt.Sprintf("%+v", value) never returns *)
  a_inline : list nat    (* nodes whose Go value is map- or slice-kinded and holds its causes
                            inline (type MM map[string][]error): fmt's %#v prints their contents *)
}.
Definition no_attrs : attrs := {| a_bad := []; a_cycf := []; a_inline := [] |}.

(* ====================================================================== *)
(* (a) renderers over the pruned tree                                      *)
(* ====================================================================== *)
Inductive rkind :=
| KError        (* err.Error() *)
| KS | KV | KQ  (* %s %v %q : FormatError writes err.Error() *)
| KPlus         (* %+v : formatErrorDetails(err) ; formatNodes(err.UnwrapTree()) *)
| KSharp        (* %#v : GoString -> fmt %#v on the raw struct ; see (a') *)
| KSlog         (* err.LogValue() = MakeErrorLogValue: message kind fields origin - no causes *)
| KNodeLog      (* (each node of err.UnwrapTree()).LogValue() *)
| KDebug.       (* err.DebugStack(): message and frames - no causes *)

Definition tok := (nat * nat)%type.     (* (depth, node id) *)

Fixpoint concat_opt {A} (l : list (option (list A))) : option (list A) :=
  match l with
  | [] => Some []
  | None :: _ => None
  | Some x :: r => match concat_opt r with Some y => Some (x ++ y) | None => None end
  end.

Section TreeRenderers.
  Variable g : graph.
  Variable at_ : attrs.

  (* formatErrorDetails(err, ...): message, kind, every field value through
     fmt.Sprintf("%+v", v.Value()), frames.  false = that Sprintf never returns. *)
  Definition details_return (n : nat) : bool := negb (inb n (a_cycf at_)).

  (* formatNodes: for i, node := range nodes { "[i+1] " ; details or node.Error.Error() ;
       if len(node.Causes) > 0 { header ; formatNodes(node.Causes, indent+4) } }
     None = does not return *)
  Fixpoint fmt_node (d : nat) (t : tree) : option (list tok) :=
    match t with
    | Node n _ kids =>
        if is_errdef g n && negb (details_return n) then None
        else match concat_opt (map (fmt_node (S d)) kids) with
             | Some r => Some ((d, n) :: r)
             | None => None
             end
    end.
  Definition fmt_nodes (d : nat) (ts : list tree) : option (list tok) := concat_opt (map (fmt_node d) ts).

  (* FormatError, case 'v' with flag '+' *)
  Definition format_plus (recv : nat) (ts : list tree) : option (list tok) :=
    if negb (details_return recv) then None else fmt_nodes 0 ts.

  (* Node.LogValue: message [kind fields stack] and, when len(Causes) > 0,
     causes[i] = slogValueToAny(cause.LogValue()); field values are not resolved here *)
  Fixpoint node_log (d : nat) (t : tree) : list tok :=
    match t with Node n _ kids => (d, n) :: flat_map (node_log (S d)) kids end.

  (* the renderers that only look at the receiver and at the pruned tree [ts] = recv.UnwrapTree() *)
  Definition render_tree (k : rkind) (recv : nat) (ts : list tree) : option (list tok) :=
    match k with
    | KPlus => format_plus recv ts
    | KNodeLog => Some (flat_map (node_log 0) ts)
    | KError | KS | KV | KQ | KSlog | KDebug | KSharp => Some []
    end.
End TreeRenderers.

(* does the renderer call UnwrapTree at all *)
Definition walks (k : rkind) : bool := match k with KPlus | KNodeLog => true | _ => false end.

(* ====================================================================== *)
(* fuelled results (json, %#v)                                             *)
(* ====================================================================== *)
Inductive jres :=
| JOk (sh : list nat)      (* returned; json: depth of every cause object of the document, pre-order;
                              %#v: the inline-kinded nodes whose contents were printed, in order *)
| JFail                    (* json.Marshal returned an error *)
| JOut.                    (* out of fuel: in Go unbounded recursion, fatal "stack overflow" *)

(* sequential composition: the first failure / divergence wins *)
Definition jseq (a b : jres) : jres :=
  match a with
  | JOk s1 => match b with JOk s2 => JOk (s1 ++ s2) | x => x end
  | x => x
  end.
Definition jcons (d : nat) (a : jres) : jres := match a with JOk s => JOk (d :: s) | x => x end.
Fixpoint jseq_list (l : list jres) : jres :=
  match l with
  | [] => JOk []
  | a :: r => match a with JOk s1 => match jseq_list r with JOk s2 => JOk (s1 ++ s2) | x => x end | x => x end
  end.
(* = jseq_list (map f l), but an element is only computed when all before it returned (the
   evaluation of the cases is call-by-value; as in Go, nothing runs after the first failure) *)
Section JseqMap.
  Context {A : Type}.
  Variable f : A -> jres.
  Fixpoint jseq_map (l : list A) : jres :=
    match l with
    | [] => JOk []
    | a :: r => match f a with JOk s1 => match jseq_map r with JOk s2 => JOk (s1 ++ s2) | x => x end | x => x end
    end.
End JseqMap.

(* ====================================================================== *)
(* (b) json.Marshal                                                        *)
(* ====================================================================== *)
Section MarshalTree.
  Variable g : graph.
  (* re m d = json.Marshal(err) for the errdef node m, its cause objects starting at depth d *)
  Variable re : nat -> nat -> jres.

  (* Node.MarshalJSON: an errdef node goes back to json.Marshal(err) - n.Causes is NOT used;
     a foreign node is jsonCauseData{message, type, causes: n.Causes} *)
  Fixpoint marshal_node (d : nat) (t : tree) : jres :=
    match t with
    | Node m _ kids =>
        if is_errdef g m then jcons d (re m (S d))
        else jcons d (jseq_map (marshal_node (S d)) kids)
    end.
  Definition marshal_nodes (d : nat) (ts : list tree) : jres := jseq_map (marshal_node d) ts.
End MarshalTree.

(* json.Marshal(err) for the errdef node n: MarshalErrorJSON encodes
   jsonErrorData{message, kind, fields, stack, causes: err.UnwrapTree()} in this order:
   an unencodable field fails before the causes are reached; UnwrapTree starts from a fresh
   visited map in which n itself is not entered. *)
Fixpoint marshal_err (fuel : nat) (g : graph) (bad : list nat) (n : nat) (d : nat) : jres :=
  match fuel with
  | O => JOut
  | S f =>
      if inb n bad then JFail
      else match unwrap_tree g n with
           | None => JOut                                  (* buildNodes itself did not finish: outside G *)
           | Some ts => marshal_nodes g (marshal_err f g bad) d ts
           end
  end.
Definition marshal_g (fuel : nat) (g : graph) (bad : list nat) (n : nat) : jres := marshal_err fuel g bad n 0.

(* the fuel used by the check (one unit per nested json.Marshal(err)) *)
Definition json_fuel (g : graph) : nat := S (List.length g).

(* ====================================================================== *)
(* (a') %#v                                                                *)
(* ====================================================================== *)
(* fmt printing the contents of the inline-kinded node n: every element of its cause list is an
   interface value; fmt prints what it holds: an address for a pointer, the contents for a map *)
Fixpoint gs_walk (fuel : nat) (g : graph) (inl : list nat) (n : nat) : jres :=
  match fuel with
  | O => JOut
  | S f =>
      match nth_error g n with
      | None => JOut
      | Some nd =>
          jcons n (jseq_map (fun oc => match oc with
                                        | None => JOk []                       (* error(nil) *)
                                        | Some c => if inb c inl then gs_walk f g inl c else JOk []
                                        end) (causes_of nd))
      end
  end.
(* GoString of the errdef node: [direct] = the causes held in the struct itself (definedError.cause
   for Wrap and for Join with a single non-nil cause - a joinError is a pointer;
   unmarshaledError.causes) *)
Definition gostring_g (fuel : nat) (g : graph) (inl : list nat) (direct : list nat) : jres :=
  jseq_map (fun c => if inb c inl then gs_walk fuel g inl c else JOk []) direct.
Definition gs_fuel (g : graph) : nat := S (List.length g).

(* ====================================================================== *)
(* (c) the source-snippet reader (stack.go)                                *)
(* ====================================================================== *)
(* what the file system answers for a path *)
Inductive fres :=
| Present (lines : list string)   (* opens, scans completely *)
| Missing                         (* os.Open: not exist *)
| Unreadable                      (* os.Open: permission *)
| OpenFails                       (* os.Open: any other error (ELOOP, ENOTDIR, ...): not "permanent" *)
| TooLong.                        (* opens; scanner.Err() != nil (line over 64 KiB, EISDIR on read) *)
Definition fsys := string -> fres.

Record sstate := {
  available : option bool;                 (* sourceAvailable *bool *)
  cache : list (string * list string)      (* sourceFileCache *)
}.
Definition s_init : sstate := {| available := None; cache := [] |}.

Fixpoint lookup (p : string) (c : list (string * list string)) : option (list string) :=
  match c with
  | [] => None
  | (q, l) :: r => if str_eqb p q then Some l else lookup p r
  end.

(* checkSourceAvailable: sourceAvailable == nil || *sourceAvailable *)
Definition check_available (st : sstate) : bool :=
  match available st with None => true | Some b => b end.
(* markSourceAvailable: only when still undecided *)
Definition mark (b : bool) (st : sstate) : sstate :=
  match available st with
  | None => {| available := Some b; cache := cache st |}
  | Some _ => st
  end.
(* cacheSourceFile *)
Definition cache_put (p : string) (l : list string) (st : sstate) : sstate :=
  {| available := available st; cache := (p, l) :: cache st |}.

(* readSourceFile: (new state, lines or error, did it call os.Open) *)
Definition read_source (st : sstate) (fs : fsys) (p : string) : sstate * option (list string) * bool :=
  if negb (check_available st) then (st, None, false)
  else match lookup p (cache st) with
       | Some l => (st, Some l, false)
       | None =>
           match fs p with
           | Missing | Unreadable => (mark false st, None, true)      (* isSourcePermanentError *)
           | OpenFails => (st, None, true)
           | TooLong => (mark true st, None, true)                    (* opened; scanner error; not cached *)
           | Present l => (cache_put p l (mark true st), Some l, true)
           end
       end.

(* getSourceLines(file, line, around).  lines[start:end] panics when start > end, which needs
   around < 0; StackSource clamps around to >= 0 and FramesAndSource asks only when > 0. *)
Definition get_source_lines (st : sstate) (fs : fsys) (p : string) (line around : Z)
  : sstate * outcome (list string) * bool :=
  let '(st1, r, opened) := read_source st fs p in
  match r with
  | None => (st1, Ok [], opened)
  | Some lines =>
      let len := Z.of_nat (List.length lines) in
      if Z.ltb line 1 || Z.ltb len line then (st1, Ok [], opened)
      else
        let start := Z.max 0 (line - around - 1) in
        let stop := Z.min len (line + around) in
        if Z.ltb stop start then (st1, Panic "slice bounds out of range", opened)
        else (st1, Ok (firstn (Z.to_nat (stop - start)) (skipn (Z.to_nat start) lines)), opened)
  end.

Definition pad_left (width : nat) (s : string) : string :=
  (String.concat "" (repeat " " (width - String.length s)) ++ s)%string.

(* the text of one snippet line: prefix, right-aligned number, ": ", text *)
Definition snippet_line (width : nat) (line num : Z) (text : string) : string :=
  ((if Z.eqb num line then "> " else "  ") ++ pad_left width (dec_Z num) ++ ": " ++ text)%string.

Fixpoint number_from (start : Z) (l : list string) : list (Z * string) :=
  match l with [] => [] | x :: r => (start, x) :: number_from (start + 1) r end.

(* stack.frameSource(file, line) with s.sourceLines = around *)
Definition frame_source (st : sstate) (fs : fsys) (p : string) (line around : Z)
  : sstate * outcome string * bool :=
  let '(st1, r, opened) := get_source_lines st fs p line around in
  match r with
  | Ok [] => (st1, Ok "", opened)
  | Ok lines =>
      let start := Z.max 1 (line - around) in
      let stop := (start + Z.of_nat (List.length lines) - 1)%Z in
      let width := String.length (dec_Z stop) in
      (st1, Ok (join nl (map (fun nl_ => snippet_line width line (fst nl_) (snd nl_)) (number_from start lines))), opened)
  | Fail c => (st1, Fail c, opened)
  | Panic w => (st1, Panic w, opened)
  end.

(* FramesAndSource: the i-th frame gets a snippet only when
   sourceLines > 0 && file != "" && (sourceDepth == -1 || (sourceDepth > 0 && i < sourceDepth)) *)
Definition want_source (around depth : Z) (i : nat) (file : string) : bool :=
  Z.ltb 0 around && negb (str_eqb file "") &&
  (Z.eqb depth (-1) || (Z.ltb 0 depth && Z.ltb (Z.of_nat i) depth)).

(* one guarded call: what FramesAndSource yields for a frame it wants a snippet for *)
Definition snippet (st : sstate) (fs : fsys) (p : string) (line around : Z) : sstate * outcome string * bool :=
  if Z.ltb 0 around && negb (str_eqb p "") then frame_source st fs p line around
  else (st, Ok "", false).

Fixpoint frames_and_source (st : sstate) (fs : fsys) (around depth : Z) (i : nat) (frames : list (string * Z))
  : sstate * list (outcome string) :=
  match frames with
  | [] => (st, [])
  | (file, line) :: r =>
      if want_source around depth i file then
        let '(st1, s, _) := frame_source st fs file line around in
        let (st2, rest) := frames_and_source st1 fs around depth (S i) r in
        (st2, s :: rest)
      else
        let (st2, rest) := frames_and_source st fs around depth (S i) r in
        (st2, Ok "" :: rest)
  end.

(* a sequence of calls (fs, path, line, around), the memo threaded through *)
Record call := { c_fs : fsys; c_path : string; c_line : Z; c_around : Z }.
Record step_result := { r_pre : sstate; r_call : call; r_post : sstate; r_out : outcome string; r_opened : bool }.
Fixpoint run_calls (st : sstate) (cs : list call) : list step_result :=
  match cs with
  | [] => []
  | c :: r =>
      let '(st1, o, opened) := snippet st (c_fs c) (c_path c) (c_line c) (c_around c) in
      {| r_pre := st; r_call := c; r_post := st1; r_out := o; r_opened := opened |} :: run_calls st1 r
  end.
