(* GoLite: the fragment of Go that srcgen/golite.go translates function bodies into, and its
   interpreter.  A body is translated statement by statement from the go/ast tree of /repo's
   CURRENT source on every run (Gen/GoLiteSrc.v); nothing in the translation knows what the
   function is supposed to do.  The interpreter is parametric in

     D     the domain-specific values (definitions, keys, decoded nodes ...), and
     ext   the meaning of the primitives the body calls (selectors, methods and functions that are
           not themselves translated: the resolver, tryConvertFieldValue, the error factories ...).

   Semantics in one paragraph.  Variables live in one flat environment: srcgen resolves Go's block
   scoping and shadowing and gives every declared variable its own name.  Maps and slices are VALUES
   (association lists / lists); that is Go's behaviour as long as a map or slice that is still being
   written is not reachable through a second name - srcgen checks that syntactically and refuses
   the function otherwise.  Ranging over a map is refused ([IStuck]): the order is unspecified in Go.
   A call of a translated function runs its body (fuel bounds the call depth only; loops are
   structural).  A Go panic inside a primitive is [IPanic]. *)
From Coq Require Import String List ZArith Bool.
Import ListNotations.
Local Open Scope string_scope.

Section GoLite.
Variable D : Type.

Inductive value :=
| VNil
| VBool (b : bool)
| VStr (s : string)
| VInt (z : Z)
| VTuple (l : list value)
| VList (l : list value)
| VMap (l : list (value * value))
| VD (d : D).

Inductive expr :=
| EVar (x : string)
| ENilLit
| EBoolLit (b : bool)
| EStrLit (s : string)
| EIntLit (z : Z)
| ECall (f : string) (args : list expr)
| EAnd (a b : expr)
| EOr (a b : expr)
| ENot (a : expr).

Inductive stmt :=
| SSkip
| SSeq (a b : stmt)
| SAssign (xs : list string) (e : expr)          (* x, y := e  /  x, y = e ; "_" discards *)
| SSetIndex (m : string) (k v : expr)            (* m[k] = v *)
| SIf (init : stmt) (c : expr) (th el : stmt)
| SRange (k v : string) (e : expr) (body : stmt)
| STypeSwitch (x : string) (e : expr) (cases : list (list string * stmt)) (dflt : stmt)
| SSwitch (init : stmt) (tag : option expr) (cases : list (list expr * stmt)) (dflt : stmt)
| SReturn (es : list expr)
| SBreak
| SContinue
| SExpr (e : expr).

Inductive ires (A : Type) :=
| IOk (a : A)
| IPanic (w : string)
| IStuck (w : string)       (* outside the fragment: unknown primitive, unbound variable, map order ... *)
| IFuel.
Arguments IOk {A} a. Arguments IPanic {A} w. Arguments IStuck {A} w. Arguments IFuel {A}.

Definition ibind {A B} (r : ires A) (f : A -> ires B) : ires B :=
  match r with IOk a => f a | IPanic w => IPanic w | IStuck w => IStuck w | IFuel => IFuel end.

Inductive ctl := CNext | CBrk | CCont | CRet (vs : list value).

Inductive xres := XVal (v : value) | XPanic (w : string) | XUnknown.

Definition env := list (string * value).

Fixpoint lookup (x : string) (e : env) : option value :=
  match e with
  | [] => None
  | (y, v) :: r => if String.eqb x y then Some v else lookup x r
  end.

Fixpoint update (x : string) (v : value) (e : env) : env :=
  match e with
  | [] => [(x, v)]
  | (y, w) :: r => if String.eqb x y then (y, v) :: r else (y, w) :: update x v r
  end.

Definition bind1 (x : string) (v : value) (e : env) : env :=
  if String.eqb x "_" then e else update x v e.

Fixpoint bind_all (xs : list string) (vs : list value) (e : env) : option env :=
  match xs, vs with
  | [], [] => Some e
  | x :: xr, v :: vr => bind_all xr vr (bind1 x v e)
  | _, _ => None
  end.

Definition bind_result (xs : list string) (v : value) (e : env) : option env :=
  match xs with
  | [x] => Some (bind1 x v e)
  | _ => match v with VTuple vs => bind_all xs vs e | _ => None end
  end.

(* the primitives *)
Variable ext : string -> list value -> xres.

(* m[k] = v on a map value; key equality is the primitive "==" *)
Definition val_eqb (a b : value) : option bool :=
  match ext "==" [a; b] with XVal (VBool r) => Some r | _ => None end.

Fixpoint map_set (k v : value) (l : list (value * value)) : option (list (value * value)) :=
  match l with
  | [] => Some [(k, v)]
  | (k', v') :: r =>
      match val_eqb k k' with
      | Some true => Some ((k', v) :: r)
      | Some false => match map_set k v r with Some r' => Some ((k', v') :: r') | None => None end
      | None => None
      end
  end.

(* the translated functions: name -> (parameters, other local variables, body) *)
Definition fundef : Type := list string * list string * stmt.
Variable funs : list (string * fundef).

Fixpoint fun_lookup (f : string) (l : list (string * fundef)) : option fundef :=
  match l with
  | [] => None
  | (g, d) :: r => if String.eqb f g then Some d else fun_lookup f r
  end.

Section Exec.
(* how a translated function is called (one unit of fuel less) *)
Variable call : string -> list value -> ires value.

Definition apply (f : string) (vs : list value) : ires value :=
  match fun_lookup f funs with
  | Some _ => call f vs
  | None =>
      match ext f vs with
      | XVal v => IOk v
      | XPanic w => IPanic w
      | XUnknown => IStuck ("unknown primitive " ++ f)
      end
  end.

Fixpoint eval (en : env) (e : expr) : ires value :=
  match e with
  | EVar x => match lookup x en with Some v => IOk v | None => IStuck ("unbound " ++ x) end
  | ENilLit => IOk VNil
  | EBoolLit b => IOk (VBool b)
  | EStrLit s => IOk (VStr s)
  | EIntLit z => IOk (VInt z)
  | ECall f args =>
      ibind ((fix evs (l : list expr) : ires (list value) :=
                match l with
                | [] => IOk []
                | a :: r => ibind (eval en a) (fun v => ibind (evs r) (fun vs => IOk (v :: vs)))
                end) args)
            (apply f)
  | EAnd a b =>
      ibind (eval en a) (fun v =>
        match v with
        | VBool false => IOk (VBool false)
        | VBool true => ibind (eval en b) (fun w => match w with VBool _ => IOk w | _ => IStuck "&& of a non-bool" end)
        | _ => IStuck "&& of a non-bool"
        end)
  | EOr a b =>
      ibind (eval en a) (fun v =>
        match v with
        | VBool true => IOk (VBool true)
        | VBool false => ibind (eval en b) (fun w => match w with VBool _ => IOk w | _ => IStuck "|| of a non-bool" end)
        | _ => IStuck "|| of a non-bool"
        end)
  | ENot a =>
      ibind (eval en a) (fun v => match v with VBool b => IOk (VBool (negb b)) | _ => IStuck "! of a non-bool" end)
  end.

Fixpoint evals (en : env) (l : list expr) : ires (list value) :=
  match l with
  | [] => IOk []
  | a :: r => ibind (eval en a) (fun v => ibind (evals en r) (fun vs => IOk (v :: vs)))
  end.

(* for k, v := range l: [step] is the body *)
Fixpoint range_loop (step : env -> ires (env * ctl)) (k v : string) (i : Z) (l : list value) (en : env)
  : ires (env * ctl) :=
  match l with
  | [] => IOk (en, CNext)
  | x :: r =>
      ibind (step (bind1 v x (bind1 k (VInt i) en))) (fun ec =>
        match snd ec with
        | CNext | CCont => range_loop step k v (i + 1) r (fst ec)
        | CBrk => IOk (fst ec, CNext)
        | CRet vs => IOk (fst ec, CRet vs)
        end)
  end.

(* does the dynamic type of v match one of the type names of a case clause? *)
Fixpoint type_matches (v : value) (tys : list string) : ires bool :=
  match tys with
  | [] => IOk false
  | t :: r =>
      match ext ("typeis:" ++ t) [v] with
      | XVal (VBool true) => IOk true
      | XVal (VBool false) => type_matches v r
      | _ => IStuck ("type test " ++ t)
      end
  end.

Fixpoint exec (s : stmt) (en : env) : ires (env * ctl) :=
  match s with
  | SSkip => IOk (en, CNext)
  | SSeq a b =>
      ibind (exec a en) (fun ec => match snd ec with CNext => exec b (fst ec) | _ => IOk ec end)
  | SAssign xs e =>
      ibind (eval en e) (fun v =>
        match bind_result xs v en with
        | Some en' => IOk (en', CNext)
        | None => IStuck "assignment count mismatch"
        end)
  | SSetIndex m k v =>
      ibind (eval en k) (fun kv => ibind (eval en v) (fun vv =>
        match lookup m en with
        | Some (VMap l) =>
            match map_set kv vv l with
            | Some l' => IOk (update m (VMap l') en, CNext)
            | None => IStuck "map key comparison"
            end
        | Some VNil => IPanic "assignment to entry in nil map"
        | _ => IStuck ("index assignment to " ++ m)
        end))
  | SIf init c th el =>
      ibind (exec init en) (fun ec =>
        match snd ec with
        | CNext =>
            ibind (eval (fst ec) c) (fun v =>
              match v with
              | VBool true => exec th (fst ec)
              | VBool false => exec el (fst ec)
              | _ => IStuck "if of a non-bool"
              end)
        | _ => IStuck "control flow in an if initialiser"
        end)
  | SRange k v e body =>
      ibind (eval en e) (fun lv =>
        match lv with
        | VList l => range_loop (exec body) k v 0%Z l en
        | VNil => IOk (en, CNext)
        | VMap _ => IStuck "range over a map: the order is unspecified"
        | _ => IStuck "range over a non-list"
        end)
  | STypeSwitch x e cases dflt =>
      ibind (eval en e) (fun v =>
        (fix pick (cs : list (list string * stmt)) : ires (env * ctl) :=
           match cs with
           | [] => exec dflt (bind1 x v en)
           | (tys, body) :: r =>
               ibind (type_matches v tys) (fun b => if b then exec body (bind1 x v en) else pick r)
           end) cases)
  | SSwitch init tag cases dflt =>
      ibind (exec init en) (fun ec =>
        match snd ec with
        | CNext =>
            let en1 := fst ec in
            ibind (match tag with Some t => eval en1 t | None => IOk (VBool true) end) (fun tv =>
              (fix pick (cs : list (list expr * stmt)) : ires (env * ctl) :=
                 match cs with
                 | [] => exec dflt en1
                 | (es, body) :: r =>
                     ibind ((fix any (l : list expr) : ires bool :=
                               match l with
                               | [] => IOk false
                               | a :: ar =>
                                   ibind (eval en1 a) (fun av =>
                                     match val_eqb tv av with
                                     | Some true => IOk true
                                     | Some false => any ar
                                     | None => IStuck "switch comparison"
                                     end)
                               end) es)
                           (fun b => if b then exec body en1 else pick r)
                 end) cases)
        | _ => IStuck "control flow in a switch initialiser"
        end)
  | SReturn es => ibind (evals en es) (fun vs => IOk (en, CRet vs))
  | SBreak => IOk (en, CBrk)
  | SContinue => IOk (en, CCont)
  | SExpr e => ibind (eval en e) (fun _ => IOk (en, CNext))
  end.

(* a `break` that leaves a switch: srcgen translates only switches whose clauses do not use an unlabelled
   break, so CBrk always belongs to the enclosing loop *)

(* every local variable has its slot from the start (Go: declared before use), so the shape of the
   environment never changes while a body runs *)
Definition call_body (params locals : list string) (body : stmt) (vs : list value) : ires value :=
  match bind_all params vs (map (fun x => (x, VNil)) (params ++ locals)) with
  | None => IStuck "argument count mismatch"
  | Some en =>
      ibind (exec body en) (fun ec =>
        match snd ec with
        | CRet [v] => IOk v
        | CRet vs' => IOk (VTuple vs')
        | CNext => IOk (VTuple [])
        | _ => IStuck "break / continue outside a loop"
        end)
  end.
End Exec.

Fixpoint run (fuel : nat) (f : string) (vs : list value) : ires value :=
  match fuel with
  | O => IFuel
  | S n =>
      match fun_lookup f funs with
      | Some (params, locals, body) => call_body (run n) params locals body vs
      | None => IStuck ("no such function " ++ f)
      end
  end.

End GoLite.

Arguments VNil {D}. Arguments VBool {D} b. Arguments VStr {D} s. Arguments VInt {D} z.
Arguments VTuple {D} l. Arguments VList {D} l. Arguments VMap {D} l. Arguments VD {D} d.
Arguments XVal {D} v. Arguments XPanic {D} w. Arguments XUnknown {D}.
Arguments CNext {D}. Arguments CBrk {D}. Arguments CCont {D}. Arguments CRet {D} vs.
Arguments IOk {A} a. Arguments IPanic {A} w. Arguments IStuck {A} w. Arguments IFuel {A}.
