(* Go runtime values as far as field-value matching and binding look at them.
   Every value carries the identity of its dynamic type; the harness assigns the
   ids (builtin types have the fixed ids below, named/user types ids >= 100). *)
From Errdef Require Import Base.Str.

Definition ty_string := 1%N.  Definition ty_int := 2%N.    Definition ty_int8 := 3%N.
Definition ty_int16 := 4%N.   Definition ty_int32 := 5%N.  Definition ty_int64 := 6%N.
Definition ty_uint := 7%N.    Definition ty_uint8 := 8%N.  Definition ty_uint16 := 9%N.
Definition ty_uint32 := 10%N. Definition ty_uint64 := 11%N.
Definition ty_float32 := 12%N. Definition ty_float64 := 13%N. Definition ty_bool := 14%N.
Definition ty_duration := 18%N. Definition ty_bytes := 19%N. Definition ty_url := 20%N.

Inductive rv :=
| RNil                                        (* nil interface *)
| RInt (ty : N) (v : Z)                       (* all integer kinds, bool as 0/1 *)
| RStr (ty : N) (s : string)
| RFlt (ty : N) (bits : Z) (w64 : bool)       (* IEEE bit pattern *)
| RBytes (s : string)                         (* []byte, non-nil *)
| RUrl (u : option string)                    (* *url.URL; None = nil pointer; Some = String() *)
| RComp (ty : N) (cmp : bool) (canon : string)(* struct/array/slice/map: canonical deep form *)
| RFV (inner : rv).                           (* an errdef.FieldValue wrapping [inner] *)

(* static type parameter T of a field *)
Inductive st := STy (ty : N) | SAny.

Definition dyn (v : rv) : option N :=
  match v with
  | RNil => None
  | RInt t _ | RStr t _ | RFlt t _ _ | RComp t _ _ => Some t
  | RBytes _ => Some ty_bytes
  | RUrl _ => Some ty_url
  | RFV _ => None   (* *fieldValue[X]: never equal to a stored value's type *)
  end.

Definition opt_N_eqb (a b : option N) : bool := option_eqb N.eqb a b.

(* float equality on bit patterns: NaN differs from everything, +0 = -0 *)
Definition f_exp_mask (w64 : bool) : Z := if w64 then 2047 else 255.
Definition f_mant_bits (w64 : bool) : Z := if w64 then 52 else 23.
Definition f_is_nan (w64 : bool) (b : Z) : bool :=
  let m := f_mant_bits w64 in
  let e := Z.land (Z.shiftr b m) (f_exp_mask w64) in
  Z.eqb e (f_exp_mask w64) && negb (Z.eqb (Z.land b (Z.ones m)) 0).
Definition f_is_zero (w64 : bool) (b : Z) : bool :=
  Z.eqb (Z.land b (Z.ones (f_mant_bits w64 + (if w64 then 11 else 8)))) 0.
Definition f_eq (w64 : bool) (a b : Z) : bool :=
  negb (f_is_nan w64 a) && negb (f_is_nan w64 b) &&
  (Z.eqb a b || (f_is_zero w64 a && f_is_zero w64 b)).

(* Go's == on scalars / reflect.DeepEqual on composites, for two values of the
   same dynamic type; false across types.  This is the specification side. *)
Definition go_eq (a b : rv) : bool :=
  match a, b with
  | RInt t1 v1, RInt t2 v2 => N.eqb t1 t2 && Z.eqb v1 v2
  | RStr t1 s1, RStr t2 s2 => N.eqb t1 t2 && str_eqb s1 s2
  | RFlt t1 b1 w1, RFlt t2 b2 w2 => N.eqb t1 t2 && Bool.eqb w1 w2 && f_eq w1 b1 b2
  | RBytes s1, RBytes s2 => str_eqb s1 s2
  | RUrl (Some u1), RUrl (Some u2) => str_eqb u1 u2
  | RUrl None, RUrl None => true
  | RComp t1 _ c1, RComp t2 _ c2 => N.eqb t1 t2 && str_eqb c1 c2
  | _, _ => false
  end.

Fixpoint unwrap_fv (v : rv) : rv := match v with RFV i => unwrap_fv i | _ => v end.
