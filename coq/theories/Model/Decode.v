(* jsonToDecodedData (unmarshaler/decoder.go): encoding/json decoding of the marshaled
   document into DecodedData.  The decoding of a field value's JSON text into a Go value
   (float64, string, bool, nil, map[string]any, []any) is the stdlib oracle [vtab]; the
   "<unknown: %+v>" rendering of nodes with an empty message is the oracle [unks]
   (consumed in pre-order). *)
From Errdef Require Import Base.Str Base.Outcome Model.Core Model.Convert Model.Unmarshal Model.Json.

Definition vtab := list (string * dval).

Definition jget (k : string) (j : json) : option json :=
  match j with JObj ms => option_map snd (find (fun m => str_eqb (fst m) k) ms) | _ => None end.
Definition jstr (o : option json) : string := match o with Some (JStr s) => s | _ => "" end.

Definition decode_frame (j : json) : frame :=
  {| fr_func := jstr (jget "func" j); fr_file := jstr (jget "file" j);
     fr_line := match jget "line" j with Some (JNum z) => z | _ => 0%Z end |}.

Definition decode_fields (t : vtab) (o : option json) : list (string * dval) :=
  match o with
  | Some (JObj ms) =>
      map (fun m => (fst m, match snd m with
                            | JRaw raw => match find (fun e => str_eqb (fst e) raw) t with Some (_, v) => v | None => DNil end
                            | _ => DNil end)) ms
  | _ => []
  end.

(* returns the node and the unused rest of [unks] *)
Fixpoint decode (t : vtab) (j : json) (unks : list string) {struct j} : dd * list string :=
  let msg := jstr (jget "message" j) in
  let '(unk, unks1) := if str_eqb msg "" then (hd "" unks, tl unks) else ("", unks) in
  let '(cs, rest) :=
    match j with
    | JObj ms =>
        (fix find_causes (ms : list (string * json)) (u : list string) {struct ms} : list (option dd) * list string :=
           match ms with
           | [] => ([], u)
           | (k, v) :: r =>
               if str_eqb k "causes" then
                 match v with
                 | JArr l =>
                     (fix go (l : list json) (u : list string) {struct l} : list (option dd) * list string :=
                        match l with
                        | [] => ([], u)
                        | x :: r' => let '(d, u1) := decode t x u in let '(ds, u2) := go r' u1 in (Some d :: ds, u2)
                        end) l u
                 | _ => ([], u)
                 end
               else find_causes r u
           end) ms unks1
    | _ => ([], unks1)
    end in
  (DD msg (jstr (jget "kind" j)) (jstr (jget "type" j)) (decode_fields t (jget "fields" j))
      (match jget "stack" j with Some (JArr l) => map decode_frame l | _ => [] end) cs unk, rest).
