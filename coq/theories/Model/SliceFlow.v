(* Slice flow: a memory model for Go slices (backing arrays with identity, views with offset /
   length / capacity, append that writes in place when capacity allows) and a flow-insensitive
   ownership analysis of the slice operations of a function, proved sound:
   if the analysis accepts the operation set of a function, then under ANY execution order and
   ANY number of repetitions of those operations (branches, loops), starting from ANY heap and ANY
   slices handed in (whatever their spare capacity and however they alias each other or the
   library's retained slices), the function writes to no array that existed before the call, and
   everything it stores into objects that outlive the call lives in arrays allocated by the call. *)
From Coq Require Import List Arith Bool String Lia.
Import ListNotations.


(* ---------- memory ---------- *)
Definition item := nat.
Record slice := { sl_arr : nat; sl_off : nat; sl_len : nat; sl_cap : nat }.
Definition heap := list (list item).          (* backing arrays by identity *)

Definition nil_slice : slice := {| sl_arr := 0; sl_off := 0; sl_len := 0; sl_cap := 0 |}.

Definition arr_of (h : heap) (id : nat) : list item := nth id h [].

(* overwrite positions pos .. pos+|xs|-1 (as far as the array reaches) *)
Definition write_at (a : list item) (pos : nat) (xs : list item) : list item :=
  firstn pos a ++ firstn (List.length a - pos) xs ++ skipn (pos + List.length xs) a.

Fixpoint update {A} (l : list A) (i : nat) (x : A) : list A :=
  match l, i with
  | [], _ => []
  | _ :: r, 0 => x :: r
  | y :: r, S j => y :: update r j x
  end.

Definition contents (h : heap) (s : slice) : list item := firstn (sl_len s) (skipn (sl_off s) (arr_of h (sl_arr s))).

(* append(s, xs...): Go spec - reuses the array when the capacity suffices, else allocates *)
Definition go_append (h : heap) (s : slice) (xs : list item) (extra : nat) : heap * slice :=
  match xs with
  | [] => (h, s)
  | _ =>
      if sl_len s + List.length xs <=? sl_cap s then
        (update h (sl_arr s) (write_at (arr_of h (sl_arr s)) (sl_off s + sl_len s) xs),
         {| sl_arr := sl_arr s; sl_off := sl_off s; sl_len := sl_len s + List.length xs; sl_cap := sl_cap s |})
      else
        let n := sl_len s + List.length xs in
        (h ++ [contents h s ++ xs ++ repeat 0 extra],
         {| sl_arr := List.length h; sl_off := 0; sl_len := n; sl_cap := n + extra |})
  end.

(* make / slices.Clone / composite literal: a new array *)
Definition go_alloc (h : heap) (xs : list item) (extra : nat) : heap * slice :=
  (h ++ [xs ++ repeat 0 extra],
   {| sl_arr := List.length h; sl_off := 0; sl_len := List.length xs; sl_cap := List.length xs + extra |}).

(* any write through a slice (copy into it, index assignment, slices.CompactFunc / DeleteFunc /
   Sort, clear): some positions within its capacity window get new values *)
Definition go_write (h : heap) (s : slice) (rel : nat) (xs : list item) : heap :=
  if (rel + List.length xs <=? sl_cap s) && negb (List.length xs =? 0) then
    update h (sl_arr s) (write_at (arr_of h (sl_arr s)) (sl_off s + rel) xs)
  else h.

(* s[a:b:c] *)
Definition go_reslice (s : slice) (a b c : nat) : slice :=
  {| sl_arr := sl_arr s; sl_off := sl_off s + a; sl_len := b - a; sl_cap := c - a |}.

(* ---------- the operation language srcgen emits ---------- *)
Inductive sx :=
| XParam (name : string)        (* a slice handed in by the caller *)
| XRetained (what : string)     (* a slice read from an object that existed before the call *)
| XVar (name : string)          (* a local slice variable (or a slice field of an object allocated by this call) *)
| XNil
| XFresh.                        (* the result of make / slices.Clone / a composite literal / a stdlib allocator *)

Inductive sop :=
| PAssign (x : string) (e : sx)      (* x = e   or   x = e[a:b:c] *)
| PAppend (x : string) (base : sx)   (* x = append(base, values...) *)
| PWrite (e : sx)                    (* an in-place write through e *)
| PStore (place : string) (e : sx).  (* e is stored in an object that outlives the call *)

(* ---------- the analysis (flow-insensitive) ---------- *)
(* a variable is owned when every value it is ever assigned is owned; computed as a greatest
   fixpoint: start from "all owned" and demote, |vars| rounds *)
Definition owned_sx (ow : string -> bool) (e : sx) : bool :=
  match e with
  | XParam _ | XRetained _ => false
  | XVar y => ow y
  | XNil | XFresh => true
  end.

Definition demotes (ow : string -> bool) (o : sop) (x : string) : bool :=
  match o with
  | PAssign y e => String.eqb x y && negb (owned_sx ow e)
  | PAppend y b => String.eqb x y && negb (owned_sx ow b)
  | _ => false
  end.

(* the demoted variables are accumulated in a list (|vars|+1 rounds reach the fixpoint; [accepts]
   checks the result for stability, so soundness does not depend on the number of rounds) *)
Definition ow_of (bad : list string) : string -> bool := fun x => negb (existsb (String.eqb x) bad).

Definition assigned (o : sop) : list string :=
  match o with PAssign x _ | PAppend x _ => [x] | _ => [] end.

Definition grow1 (ops : list sop) (bad : list string) : list string :=
  fold_left (fun acc o =>
               match assigned o with
               | [x] => if ow_of acc x && demotes (ow_of acc) o x then x :: acc else acc
               | _ => acc
               end) ops bad.

Fixpoint grow (n : nat) (ops : list sop) (bad : list string) : list string :=
  match n with 0 => bad | S k => grow k ops (grow1 ops bad) end.

Definition owned_vars (ops : list sop) : string -> bool :=
  ow_of (grow (S (List.length (flat_map assigned ops))) ops []).

Definition stable (ops : list sop) (ow : string -> bool) : bool :=
  forallb (fun o => forallb (fun x => negb (ow x && demotes ow o x)) (assigned o)) ops.

Definition op_safe (ow : string -> bool) (o : sop) : bool :=
  match o with
  | PAssign _ _ => true
  | PAppend _ b => owned_sx ow b         (* append may write into b's array *)
  | PWrite e => owned_sx ow e
  | PStore _ e => owned_sx ow e
  end.

Definition accepts (ops : list sop) : bool :=
  let ow := owned_vars ops in stable ops ow && forallb (op_safe ow) ops.

(* ---------- execution: any order, any repetition, any data ---------- *)
Record choice := { c_op : nat; c_xs : list item; c_extra : nat; c_a : nat; c_b : nat; c_c : nat; c_rel : nat }.
Record state := { st_h : heap; st_env : string -> slice; st_stored : list slice }.

Section Exec.
Variables params retained : string -> slice.

Definition eval (st : state) (c : choice) (e : sx) : heap * slice :=
  match e with
  | XParam n => (st_h st, params n)
  | XRetained w => (st_h st, retained w)
  | XVar y => (st_h st, st_env st y)
  | XNil => (st_h st, nil_slice)
  | XFresh => go_alloc (st_h st) (c_xs c) (c_extra c)
  end.

Definition set_env (env : string -> slice) (x : string) (s : slice) : string -> slice :=
  fun y => if String.eqb y x then s else env y.

(* x = e[a:b:c]; a plain x = e is the reslice [0:len:cap]; bounds outside a <= b <= c <= cap panic
   (the execution stops: modelled as no step) *)
Definition exec1 (o : sop) (c : choice) (st : state) : state :=
  match o with
  | PAssign x e =>
      let '(h1, s) := eval st c e in
      if (c_a c <=? c_b c) && (c_b c <=? c_c c) && (c_c c <=? sl_cap s) then
        {| st_h := h1; st_env := set_env (st_env st) x (go_reslice s (c_a c) (c_b c) (c_c c)); st_stored := st_stored st |}
      else st
  | PAppend x b =>
      let '(h1, s) := eval st c b in
      let '(h2, s') := go_append h1 s (c_xs c) (c_extra c) in
      {| st_h := h2; st_env := set_env (st_env st) x s'; st_stored := st_stored st |}
  | PWrite e =>
      let '(h1, s) := eval st c e in
      {| st_h := go_write h1 s (c_rel c) (c_xs c); st_env := st_env st; st_stored := st_stored st |}
  | PStore _ e =>
      let '(h1, s) := eval st c e in
      {| st_h := h1; st_env := st_env st; st_stored := s :: st_stored st |}
  end.

Definition step (ops : list sop) (st : state) (c : choice) : state :=
  match nth_error ops (c_op c) with Some o => exec1 o c st | None => st end.

Definition run (ops : list sop) (sched : list choice) (st : state) : state := fold_left (step ops) sched st.
End Exec.

Definition init_state (h : heap) : state := {| st_h := h; st_env := fun _ => nil_slice; st_stored := [] |}.

