(* C16 - concurrent use.  Two models, no proofs here.

   (a) Access traces.  N goroutines run operations against objects that were
   built BEFORE they started (the shared state [sh : Prog.st]).  Every goroutine
   has its own continuation of that state: it sees the shared pools plus what it
   created itself.  An operation yields the list of memory accesses
   (address, read|write, locks held) it performs: reads of the objects it
   mentions, writes of the addresses it allocates.  Addresses below the shared
   state's allocation counter are the shared objects; everything a goroutine
   allocates lies above it and is tagged with the goroutine's id.

   (b) The process-wide source memo of stack.go (sourceAvailable, sourceFileCache)
   as micro-steps.  readSourceFile is the sequence
     check_available ; get_cached ; open ; mark_available ; read_lines ; cache_put
   and a schedule (a list of goroutine ids) interleaves the goroutines' micro-steps
   over the shared memo.  The mutex each micro-step holds is looked up in
   Gen/Effects.v, i.e. it is the lock discipline srcgen read from stack.go. *)
From Errdef Require Import Base.Str Base.Outcome Model.Core Model.GoErrors Model.Tree0 Model.Fmt Model.Json Model.Slog
  Model.Prog Gen.Effects.
Local Open Scope string_scope.
Local Open Scope list_scope.

(* ---------- addresses and accesses ---------- *)
Inductive addr :=
| AShared (a : N)          (* an object that existed before the goroutines started *)
| APriv (t : nat) (a : N)  (* allocated by goroutine t *)
| AAvail                   (* package variable sourceAvailable *)
| ACache.                  (* package variable sourceFileCache (a Go map: one location) *)

Inductive rw := Rd | Wr.
Record lock := { lk_mu : string; lk_excl : bool }.   (* Lock() is exclusive, RLock() is not *)
Record access := { ac_addr : addr; ac_rw : rw; ac_locks : list lock }.
Definition event := (nat * access)%type.             (* goroutine id, access *)

Definition rw_eqb (a b : rw) : bool := match a, b with Rd, Rd | Wr, Wr => true | _, _ => false end.
Definition addr_eqb (a b : addr) : bool :=
  match a, b with
  | AShared x, AShared y => N.eqb x y
  | APriv t x, APriv u y => Nat.eqb t u && N.eqb x y
  | AAvail, AAvail | ACache, ACache => true
  | _, _ => false
  end.

(* two lock sets exclude each other: a common mutex, held exclusively by at least one side *)
Definition protects (k1 k2 : lock) : bool := str_eqb (lk_mu k1) (lk_mu k2) && (lk_excl k1 || lk_excl k2).
Definition protectedb (l1 l2 : list lock) : bool := existsb (fun k1 => existsb (protects k1) l2) l1.

(* the Go memory model's data race, on the level of this model *)
Definition conflictb (e1 e2 : event) : bool :=
  negb (Nat.eqb (fst e1) (fst e2))
  && addr_eqb (ac_addr (snd e1)) (ac_addr (snd e2))
  && (rw_eqb (ac_rw (snd e1)) Wr || rw_eqb (ac_rw (snd e2)) Wr)
  && negb (protectedb (ac_locks (snd e1)) (ac_locks (snd e2))).

Definition conflicts (tr : list event) : list (event * event) :=
  filter (fun p => conflictb (fst p) (snd p)) (list_prod tr tr).

(* ---------- lock tags read from the source (Gen/Effects.v) ---------- *)
Definition gen_lock (fn var mode : string) : list lock :=
  match find (fun a => let '(f, x, r, _, _) := a in str_eqb f fn && str_eqb x var && str_eqb r mode) pkgvar_accesses with
  | Some (_, _, _, true, mu) =>
      match find (fun l => let '(f, m, _, _) := l in str_eqb f fn && str_eqb m mu) lock_sites with
      | Some (_, _, how, _) => [{| lk_mu := mu; lk_excl := str_eqb how "Lock" |}]
      | None => []
      end
  | _ => []
  end.

Inductive mstep := MCheck | MGet | MOpen | MMark | MRead | MPut.

Definition mk_acc (a : addr) (m : rw) (l : list lock) : access := {| ac_addr := a; ac_rw := m; ac_locks := l |}.

Definition mstep_accesses (m : mstep) : list access :=
  match m with
  | MCheck => [mk_acc AAvail Rd (gen_lock "errdef.checkSourceAvailable" "sourceAvailable" "R")]
  | MGet => [mk_acc ACache Rd (gen_lock "errdef.getCachedSourceFile" "sourceFileCache" "R")]
  | MOpen | MRead => []        (* os.Open, bufio.Scanner: no shared memory of the library *)
  | MMark => [mk_acc AAvail Rd (gen_lock "errdef.markSourceAvailable" "sourceAvailable" "R");
              mk_acc AAvail Wr (gen_lock "errdef.markSourceAvailable" "sourceAvailable" "W")]
  | MPut => [mk_acc ACache Wr (gen_lock "errdef.cacheSourceFile" "sourceFileCache" "W")]
  end.

(* ---------- the file oracle and the memo ---------- *)
Inductive fstate :=
| Present (lines : list string)
| Missing            (* os.Open: ErrNotExist *)
| Unreadable         (* os.Open: ErrPermission *)
| TooLong.           (* opens, bufio.Scanner fails with ErrTooLong *)
Definition fsys := string -> fstate.

Record memo := { m_avail : option bool; m_cache : list (string * list string);
                 m_writes : nat (* GHOST: number of assignments to sourceAvailable *) }.
Definition memo0 : memo := {| m_avail := None; m_cache := []; m_writes := 0 |}.

Definition cache_get (p : string) (c : list (string * list string)) : option (list string) :=
  option_map snd (find (fun e => str_eqb (fst e) p) c).

(* markSourceAvailable: assigns only when still undecided *)
Definition mark (m : memo) (b : bool) : memo :=
  match m_avail m with
  | None => {| m_avail := Some b; m_cache := m_cache m; m_writes := S (m_writes m) |}
  | Some _ => m
  end.
Definition put (m : memo) (p : string) (ls : list string) : memo :=
  {| m_avail := m_avail m; m_cache := (p, ls) :: m_cache m; m_writes := m_writes m |}.

(* getSourceLines: lines[max(0,line-around-1) : min(len,line+around)], nothing when the line is outside the file *)
Definition window (ls : list string) (line around : Z) : list string :=
  if (Z.ltb line 1 || Z.ltb (Z.of_nat (List.length ls)) line)%bool then []
  else let start := Z.to_nat (Z.max 0 (line - around - 1)) in
       let stop := Z.to_nat (Z.min (Z.of_nat (List.length ls)) (line + around)) in
       firstn (stop - start) (skipn start ls).

(* ---------- operations ---------- *)
Record req := { rq_path : string; rq_line : Z; rq_around : Z }.   (* one frameSource call *)

Inductive query :=
| QIs (e t : option nat)              (* errors.Is(errs[e], errs[t]) *)
| QIsDef (e : option nat) (d : nat)   (* errors.Is(errs[e], defs[d]) *)
| QMsg (e : nat)                      (* Error() *)
| QKind (e : nat)
| QFieldsAll (e : nat)                (* Fields().All() as (name, value) pairs *)
| QDefGet (d : nat) (k : key)         (* defs[d].Fields().Get(k) *)
| QDefFindKeys (d : nat) (name : string)
| QDefLen (d : nat)
| QStack (e : nat)                    (* Stack().Frames() *)
| QUnwrapTree (e : nat)               (* UnwrapTree(): the addresses in the tree, pre-order *)
| QFmt (e : nat) (verb : string)      (* %s %v %q, and %+v without source lines *)
| QJson (e : nat)                     (* json.Marshal *)
| QLog (e : nat).                     (* LogValue *)

Inductive op :=
| OStmt (x : stmt)                    (* Define / With / WithOptions / New / Errorf / Wrap / Wrapf / Join / Recover / ... *)
| OQuery (q : query)
| ORender (e : nat) (rs : list req).  (* %+v with StackSource: one frameSource call per request *)

Inductive result :=
| RDef (d : defn) | RCtx (c : list opt) | RErr (e : option err)
| RBool (b : bool) | RStr (s : string) | RNat (n : nat)
| RFields (l : list (string * fval)) | RFval (o : option fval) | RKeys (l : list key)
| RFrames (l : list frame) | RAddrs (l : list N)
| RJson (j : outcome json) | RLog (v : sv)
| RNone
| RSnips (l : list (req * list string)).

Definition is_snips (r : result) : bool := match r with RSnips _ => true | _ => false end.

Definition last_or {A} (l : list A) (d : A) : A := List.last l d.

(* what a statement returns: the object it appended to its pool *)
Definition stmt_result (s' : st) (x : stmt) : result :=
  match x with
  | SDefine _ _ | SWith _ _ _ | SWithOptions _ _ => RDef (last_or (s_defs s') dummy_def)
  | SCtx _ _ => RCtx (last_or (s_ctxs s') [])
  | _ => RErr (last_or (s_errs s') None)
  end.

Fixpoint tree_addrs (t : tree) : list N :=
  match t with T e kids => addr_of e :: flat_map tree_addrs kids end.

Definition with_err (s : st) (e : nat) (f : err -> result) : result :=
  match get_err s (Some e) with Some x => f x | None => RNone end.

Definition eval_query (s : st) (q : query) : result :=
  match q with
  | QIs e t => RBool (errors_is_opt (get_err s e) (get_err s t))
  | QIsDef e d => RBool (errors_is_opt (get_err s e) (Some (EDefn (get_def s d))))
  | QMsg e => with_err s e (fun x => RStr (err_msg x))
  | QKind e => with_err s e (fun x => RStr (e_kind x))
  | QFieldsAll e => with_err s e (fun x => RFields (e_fields_all x))
  | QDefGet d k => RFval (f_get (d_fields (get_def s d)) k)
  | QDefFindKeys d name => RKeys (f_find_keys (d_fields (get_def s d)) name)
  | QDefLen d => RNat (f_len (d_fields (get_def s d)))
  | QStack e => with_err s e (fun x => RFrames (e_stack x))
  | QUnwrapTree e => with_err s e (fun x => RAddrs (flat_map tree_addrs (unwrap_tree x)))
  | QFmt e verb => with_err s e (fun x => RStr (format_error [] verb x))
  | QJson e => with_err s e (fun x => RJson (marshal_error x))
  | QLog e => with_err s e (fun x => RLog (log_value x))
  end.

(* ---------- footprints ---------- *)
(* every address reachable from an error value *)
Fixpoint err_addrs (e : err) : list N :=
  match e with
  | EDef a d _ c _ _ => a :: d_addr d :: match c with Some x => err_addrs x | None => [] end
  | EDefn d => [d_addr d]
  | EJoin a es => a :: flat_map err_addrs es
  | EWrapF a _ c => a :: err_addrs c
  | ESingle a _ c => a :: match c with Some x => err_addrs x | None => [] end
  | EMulti a _ cs => a :: flat_map (fun o => match o with Some x => err_addrs x | None => [] end) cs
  | ELeaf a _ _ => [a]
  | EPanic a _ _ pe => a :: match pe with Some x => err_addrs x | None => [] end
  | ERest a d _ _ _ cs => a :: d_addr d :: flat_map err_addrs cs
  | EUnk a _ _ cs => a :: flat_map err_addrs cs
  end.

Definition oerr_addrs (s : st) (o : option nat) : list N :=
  match get_err s o with Some x => err_addrs x | None => [] end.
Definition def_addrs (s : st) (d : nat) : list N :=
  let x := get_def s d in d_addr x :: match d_root x with Some r => [r] | None => [] end.

Fixpoint cb_reads (s : st) (c : cb) : list N :=
  match c with
  | CRet e => oerr_addrs s e
  | CPanicErr e | CPanicInner e => oerr_addrs s (Some e)
  | CPanicVal _ _ | CPanicRt _ _ => []
  | CCall c' => cb_reads s c'
  | CRecover f c' _ => def_addrs s f ++ cb_reads s c'
  | CSwallow f c1 _ c2 => def_addrs s f ++ cb_reads s c1 ++ cb_reads s c2
  end.

Definition stmt_reads (s : st) (x : stmt) : list N :=
  match x with
  | SDefine _ _ | SCtx _ _ | SLeaf _ _ => []
  | SWith d _ _ | SWithOptions d _ | SDefAsErr d => def_addrs s d
  | SNew f _ _ | SErrorf f _ _ _ _ => def_addrs s f
  | SWrap f c _ | SWrapf f c _ _ => def_addrs s f ++ oerr_addrs s c
  | SJoin f cs _ => def_addrs s f ++ flat_map (oerr_addrs s) cs
  | SRecover f c _ => def_addrs s f ++ cb_reads s c
  | SFmtErrorf _ c => oerr_addrs s (Some c)
  | SErrorsJoin cs | SMulti _ cs => flat_map (oerr_addrs s) cs
  | SSingle _ c => oerr_addrs s c
  end.

Definition query_reads (s : st) (q : query) : list N :=
  match q with
  | QIs e t => oerr_addrs s e ++ oerr_addrs s t
  | QIsDef e d => oerr_addrs s e ++ def_addrs s d
  | QMsg e | QKind e | QFieldsAll e | QStack e | QUnwrapTree e | QFmt e _ | QJson e | QLog e => oerr_addrs s (Some e)
  | QDefGet d _ | QDefFindKeys d _ | QDefLen d => def_addrs s d
  end.

(* shared below the allocation counter of the shared state, private above *)
Definition cls (t : nat) (base : N) (a : N) : addr := if N.ltb a base then AShared a else APriv t a.
Definition reads (t : nat) (base : N) (l : list N) : list access := map (fun a => mk_acc (cls t base a) Rd []) l.
Definition fresh_addrs (from upto : N) : list N :=
  map (fun k => (from + N.of_nat k)%N) (seq 0 (N.to_nat (upto - from))).
Definition writes (t : nat) (base : N) (l : list N) : list access := map (fun a => mk_acc (cls t base a) Wr []) l.

(* ---------- goroutines ---------- *)
Inductive pc := PCheck | PGet | POpen | PMark (b : bool) | PRead | PPut (ls : list string).
Record rstate := { r_reqs : list req; r_pc : pc; r_done : list (req * list string) }.

Record thread := { th_ops : list op;          (* still to run; the head is in progress when th_rs is Some *)
                   th_idx : nat;              (* index of the head of th_ops in the goroutine's program *)
                   th_st : st;                (* the shared state continued by this goroutine's own statements *)
                   th_rs : option rstate;
                   th_log : list (nat * result) }.   (* (operation index, what it returned) *)

Record world := { w_memo : memo; w_threads : list thread; w_trace : list event }.

Definition set_rs (th : thread) (rs : rstate) : thread :=
  {| th_ops := th_ops th; th_idx := th_idx th; th_st := th_st th; th_rs := Some rs; th_log := th_log th |}.
Definition set_pc (th : thread) (rs : rstate) (p : pc) : thread :=
  set_rs th {| r_reqs := r_reqs rs; r_pc := p; r_done := r_done rs |}.
(* the current frameSource call returns [snip]; go on with the next request *)
Definition finish_req (th : thread) (rs : rstate) (rq : req) (snip : list string) : thread :=
  set_rs th {| r_reqs := tl (r_reqs rs); r_pc := PCheck; r_done := r_done rs ++ [(rq, snip)] |}.
(* the head operation returns r *)
Definition complete (th : thread) (s' : st) (r : result) : thread :=
  {| th_ops := tl (th_ops th); th_idx := S (th_idx th); th_st := s'; th_rs := None;
     th_log := th_log th ++ [(th_idx th, r)] |}.

(* one micro-step of goroutine tid *)
Definition tstep (fs : fsys) (tid : nat) (base : N) (m : memo) (th : thread) : memo * thread * list access :=
  match th_rs th with
  | Some rs =>
      match r_reqs rs with
      | [] => (m, complete th (th_st th) (RSnips (r_done rs)), [])
      | rq :: _ =>
          match r_pc rs with
          | PCheck =>                                   (* checkSourceAvailable *)
              match m_avail m with
              | Some false => (m, finish_req th rs rq [], mstep_accesses MCheck)
              | _ => (m, set_pc th rs PGet, mstep_accesses MCheck)
              end
          | PGet =>                                     (* getCachedSourceFile *)
              match cache_get (rq_path rq) (m_cache m) with
              | Some ls => (m, finish_req th rs rq (window ls (rq_line rq) (rq_around rq)), mstep_accesses MGet)
              | None => (m, set_pc th rs POpen, mstep_accesses MGet)
              end
          | POpen =>                                    (* os.Open *)
              match fs (rq_path rq) with
              | Missing | Unreadable => (m, set_pc th rs (PMark false), mstep_accesses MOpen)
              | Present _ | TooLong => (m, set_pc th rs (PMark true), mstep_accesses MOpen)
              end
          | PMark b =>                                  (* markSourceAvailable(b) *)
              (mark m b, if b then set_pc th rs PRead else finish_req th rs rq [], mstep_accesses MMark)
          | PRead =>                                    (* scanner loop *)
              match fs (rq_path rq) with
              | Present ls => (m, set_pc th rs (PPut ls), mstep_accesses MRead)
              | _ => (m, finish_req th rs rq [], mstep_accesses MRead)
              end
          | PPut ls =>                                  (* cacheSourceFile *)
              (put m (rq_path rq) ls, finish_req th rs rq (window ls (rq_line rq) (rq_around rq)), mstep_accesses MPut)
          end
      end
  | None =>
      match th_ops th with
      | [] => (m, th, [])
      | OStmt x :: _ =>
          let s := th_st th in
          let s' := step s x in
          (m, complete th s' (stmt_result s' x),
           reads tid base (stmt_reads s x) ++ writes tid base (fresh_addrs (s_next s) (s_next s')))
      | OQuery q :: _ =>
          (m, complete th (th_st th) (eval_query (th_st th) q), reads tid base (query_reads (th_st th) q))
      | ORender e rs :: _ =>
          (m, set_rs th {| r_reqs := rs; r_pc := PCheck; r_done := [] |},
           reads tid base (oerr_addrs (th_st th) (Some e)))
      end
  end.

Fixpoint replace_nth {A} (n : nat) (x : A) (l : list A) : list A :=
  match l, n with
  | [], _ => []
  | _ :: r, O => x :: r
  | y :: r, S k => y :: replace_nth k x r
  end.

(* a schedule is a list of goroutine ids; an id without a goroutine is a no-op *)
Definition tick (fs : fsys) (base : N) (w : world) (tid : nat) : world :=
  match nth_error (w_threads w) tid with
  | None => w
  | Some th =>
      let '(m', th', acc) := tstep fs tid base (w_memo w) th in
      {| w_memo := m'; w_threads := replace_nth tid th' (w_threads w);
         w_trace := w_trace w ++ map (fun a => (tid, a)) acc |}
  end.

Definition run_sched (fs : fsys) (base : N) (w : world) (sched : list nat) : world :=
  fold_left (tick fs base) sched w.

Definition init_thread (sh : st) (p : list op) : thread :=
  {| th_ops := p; th_idx := 0; th_st := sh; th_rs := None; th_log := [] |}.
Definition init_world (sh : st) (m0 : memo) (progs : list (list op)) : world :=
  {| w_memo := m0; w_threads := map (init_thread sh) progs; w_trace := [] |}.

(* the whole concurrent run: shared state sh, memo m0, one program per goroutine *)
Definition conc_run (fs : fsys) (sh : st) (m0 : memo) (progs : list (list op)) (sched : list nat) : world :=
  run_sched fs (s_next sh) (init_world sh m0 progs) sched.

(* ---------- one goroutine alone (no schedule, no memo) ---------- *)
Definition op_step (s : st) (o : op) : st := match o with OStmt x => step s x | _ => s end.
Fixpoint run_alone (s : st) (ops : list op) : list (option result) :=
  match ops with
  | [] => []
  | OStmt x :: r => let s' := step s x in Some (stmt_result s' x) :: run_alone s' r
  | OQuery q :: r => Some (eval_query s q) :: run_alone s r
  | ORender _ _ :: r => None :: run_alone s r       (* reads the source memo: see C16_cache_atomic *)
  end.

(* ---------- specification of snippets and of the memo ---------- *)
Definition snip_ok (fs : fsys) (rq : req) (s : list string) : Prop :=
  s = [] \/ exists ls, fs (rq_path rq) = Present ls /\ s = window ls (rq_line rq) (rq_around rq).
Definition memo_ok (fs : fsys) (m : memo) : Prop :=
  forall p ls, cache_get p (m_cache m) = Some ls -> fs p = Present ls.

(* round-robin schedule of k rounds over n goroutines, for examples *)
Definition round_robin (n k : nat) : list nat := List.concat (repeat (seq 0 n) k).
