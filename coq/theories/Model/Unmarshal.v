(* unmarshaler/unmarshaler.go, error.go, field.go: DecodedData -> restored error.
   Follows unmarshal / unmarshalCause / resolveKind statement by statement.  Go's
   map iteration order is not modelled as an order: every decoded field is
   processed independently, and when several fields fail the model returns the
   set of failures the code may report. *)
From Errdef Require Import Base.Str Base.Outcome Model.Core Model.Convert.

(* a field key as the unmarshaler sees it: identity/name plus the Go type it binds *)
Record ukey := { uk_key : key; uk_ty : fty }.

(* a registered definition: the definition record and its field keys in All() order *)
Record udef := { ud_def : defn; ud_keys : list ukey }.

(* DecodedData; Causes may contain nil pointers; [dd_unk] is the reference rendering
   fmt.Sprintf("<unknown: %+v>", node) with addresses masked (stdlib oracle) *)
Inductive dd :=
| DD (msg kind ty : string) (fields : list (string * dval)) (stack : list frame)
     (causes : list (option dd)) (unk : string).

Definition dd_msg (d : dd) := match d with DD m _ _ _ _ _ _ => m end.
Definition dd_kind (d : dd) := match d with DD _ k _ _ _ _ _ => k end.
Definition dd_ty (d : dd) := match d with DD _ _ t _ _ _ _ => t end.
Definition dd_fields (d : dd) := match d with DD _ _ _ f _ _ _ => f end.
Definition dd_stack (d : dd) := match d with DD _ _ _ _ s _ _ => s end.
Definition dd_causes (d : dd) := match d with DD _ _ _ _ _ c _ => c end.
Definition dd_unk (d : dd) := match d with DD _ _ _ _ _ _ u => u end.

Record ucfg := {
  u_defs : list udef;                 (* resolver.New(defs...) in registration order *)
  u_default : option udef;            (* DefaultResolver *)
  u_strict : bool;
  u_custom : list ukey;               (* WithCustomFields / WithBuiltinFields, in order *)
  u_sentinels : list (string * string * N)   (* (typeName, message) -> sentinel id *)
}.

Definition redacted_str : string := "[REDACTED]".
Definition redacted_json : string := """[REDACTED]""".
Definition definition_type_name : string := "*errdef.definition".

(* failure classes *)
Definition cls_decode := "decode_failure".
Definition cls_kind := "unknown_kind".
Definition cls_field := "unknown_field".
Definition cls_internal := "internal".

(* the restored error and its causes *)
Inductive rerr :=
| RErr (d : udef) (msg : string) (typed : list (ukey * bval)) (unknown : list (string * dval))
       (stack : list frame) (causes : list rcause)
with rcause :=
| RCErr (e : rerr)
| RCDef (d : udef)                        (* a registered definition restored as the cause itself *)
| RCSentinel (id : N)
| RCUnknown (msg tyname : string) (causes : list rcause).

(* a failure carries its class and the kind / field name it reports *)
Record failure := { fl_class : string; fl_kind : string; fl_field : string }.

(* result of unmarshal: a value, or the failure the code returns (a one-element list as of
   the fix for F12: the first failing field in name order decides), or a panic *)
Inductive ures (A : Type) := UOk (a : A) | UFail (fs : list failure) | UPanic (what : string).
Arguments UOk {A} a. Arguments UFail {A} fs. Arguments UPanic {A} what.

Definition resolve_kind_def (defs : list udef) (k : string) : option udef :=
  find (fun d => str_eqb (d_kind (ud_def d)) k) defs.

(* resolveKind *)
Definition resolve_kind_u (c : ucfg) (k : string) : ures udef :=
  match u_default c with
  | Some dflt =>
      if u_strict c then
        match resolve_kind_def (u_defs c) k with
        | Some d => UOk d
        | None => UFail [{| fl_class := cls_kind; fl_kind := k; fl_field := "" |}]
        end
      else UOk (match resolve_kind_def (u_defs c) k with Some d => d | None => dflt end)
  | None =>
      match resolve_kind_def (u_defs c) k with
      | Some d => UOk d
      | None => UFail [{| fl_class := cls_kind; fl_kind := k; fl_field := "" |}]
      end
  end.

(* what happens to one decoded field *)
Inductive fres :=
| FTyped (k : ukey) (v : bval)
| FUnknown (v : dval)
| FFail (f : failure)
| FPanic (what : string).

Definition is_placeholder (v : dval) : bool :=
  match v with
  | DS t (SStr s) => N.eqb (s_id t) 1 && str_eqb s redacted_str
  | DBytes s => str_eqb s redacted_json
  | _ => false
  end.

(* try the keys in order; the first that converts wins; a conversion error aborts *)
Fixpoint first_convert (keys : list ukey) (v : dval) : outcome (option (ukey * bval)) :=
  match keys with
  | [] => Ok None
  | k :: r =>
      match try_convert (uk_ty k) v with
      | Ok (Some b) => Ok (Some (k, b))
      | Ok None => first_convert r v
      | Fail c => Fail c
      | Panic w => Panic w
      end
  end.

Definition named (n : string) (keys : list ukey) : list ukey :=
  filter (fun k => str_eqb (k_name (uk_key k)) n) keys.

Definition bind_field (c : ucfg) (d : udef) (kind : string) (name : string) (v : dval) : fres :=
  if is_placeholder v then FUnknown (DS {| s_id := 1; s_kind := KString |} (SStr redacted_str))
  else
    match first_convert (named name (ud_keys d)) v with       (* def.Fields().FindKeys(name), in All() order *)
    | Ok (Some (k, b)) => FTyped k b
    | Fail _ => FFail {| fl_class := cls_internal; fl_kind := ""; fl_field := "" |}
    | Panic w => FPanic w
    | Ok None =>
        match first_convert (named name (u_custom c)) v with
        | Ok (Some (k, b)) => FTyped k b
        | Fail _ => FFail {| fl_class := cls_internal; fl_kind := ""; fl_field := "" |}
        | Panic w => FPanic w
        | Ok None =>
            if u_strict c then FFail {| fl_class := cls_field; fl_kind := kind; fl_field := name |}
            else FUnknown v
        end
    end.

Definition lookup_sentinel (c : ucfg) (ty msg : string) : option N :=
  option_map snd (find (fun e => str_eqb (fst (fst e)) ty && str_eqb (snd (fst e)) msg) (u_sentinels c)).

Fixpoint collect_fields (rs : list (string * fres))
  : (list (ukey * bval) * list (string * dval) * list failure * option string) :=
  match rs with
  | [] => ([], [], [], None)
  | (n, r) :: rest =>
      let '(ty, un, fl, pn) := collect_fields rest in
      match r with
      | FTyped k b => ((k, b) :: ty, un, fl, pn)
      | FUnknown v => (ty, (n, v) :: un, fl, pn)
      | FFail f => (ty, un, f :: fl, pn)
      | FPanic w => (ty, un, fl, Some w)
      end
  end.

(* as of the fix for F12 the decoded fields are visited in name order
   (slices.Sorted(maps.Keys(decoded.Fields))): insertion sort by String.leb, the byte-wise
   order of Go strings *)
Fixpoint ins_field (x : string * dval) (l : list (string * dval)) : list (string * dval) :=
  match l with
  | [] => [x]
  | y :: r => if String.leb (fst x) (fst y) then x :: l else y :: ins_field x r
  end.
Definition sort_fields (l : list (string * dval)) : list (string * dval) := fold_right ins_field [] l.

(* sequence the results of the causes: the first failure / panic wins (slice order) *)
Fixpoint seq_causes (rs : list (ures rcause)) : ures (list rcause) :=
  match rs with
  | [] => UOk []
  | r :: rest =>
      match r with
      | UOk c => match seq_causes rest with UOk cs => UOk (c :: cs) | UFail f => UFail f | UPanic w => UPanic w end
      | UFail f => UFail f
      | UPanic w => UPanic w
      end
  end.

Definition has_internal (fs : list failure) : bool :=
  existsb (fun f => str_eqb (fl_class f) cls_internal) fs.

Definition internal_failure : failure := {| fl_class := cls_internal; fl_kind := ""; fl_field := "" |}.

(* unmarshal and unmarshalCause in one structural recursion on the decoded tree:
   the first component is unmarshal(node), the second unmarshalCause(node).  Both
   restore the node's causes with unmarshalCause, so that list is shared.
   As of the fix for F4 a nil DecodedData is ErrInternal (before: nil dereference). *)
Fixpoint both (c : ucfg) (d : dd) {struct d} : ures rerr * ures rcause :=
  match d with
  | DD msg kind ty fields stack causes unk =>
      let cres : ures (list rcause) :=
        seq_causes ((fix go (l : list (option dd)) : list (ures rcause) :=
                       match l with
                       | [] => []
                       | None :: r => UFail [internal_failure] :: go r
                       | Some cd :: r => snd (both c cd) :: go r
                       end) causes) in
      let as_err : ures rerr :=
        match resolve_kind_u c kind with
        | UFail f => UFail f
        | UPanic w => UPanic w
        | UOk def =>
            let '(typed, unknown, fails, pn) :=
              collect_fields (map (fun nv => (fst nv, bind_field c def kind (fst nv) (snd nv))) (sort_fields fields)) in
            match pn, fails with
            | Some w, _ => UPanic w
            | None, f :: _ => UFail [f]          (* the first failing field in name order returns *)
            | None, [] =>
                match cres with
                | UOk cs => UOk (RErr def msg typed unknown stack cs)
                | UFail f => UFail f
                | UPanic w => UPanic w
                end
            end
        end in
      let as_cause : ures rcause :=
        match as_err with
        | UOk e => UOk (RCErr e)
        | UPanic w => UPanic w
        | UFail fs =>
            if has_internal fs then UFail [internal_failure]
            else
              let m := if str_eqb msg "" then unk else msg in
              let t := if str_eqb ty "" then "<unknown>" else ty in
              match cres with
              | UFail f => UFail f
              | UPanic w => UPanic w
              | UOk [] =>
                  match (if str_eqb t definition_type_name then resolve_kind_def (u_defs c) m else None) with
                  | Some rd => UOk (RCDef rd)
                  | None =>
                      match lookup_sentinel c t m with
                      | Some id => UOk (RCSentinel id)
                      | None => UOk (RCUnknown m t [])
                      end
                  end
              | UOk nested => UOk (RCUnknown m t nested)
              end
        end in
      (as_err, as_cause)
  end.

Definition unmarshal (c : ucfg) (d : dd) : ures rerr := fst (both c d).
Definition unmarshal_cause (c : ucfg) (d : dd) : ures rcause := snd (both c d).

(* Unmarshal: the decoder's (nil, nil) is ErrInternal as of the fix for F4 *)
Definition unmarshal_top (c : ucfg) (od : option dd) : ures rerr :=
  match od with
  | None => UFail [internal_failure]
  | Some d => unmarshal c d
  end.

(* ---------- fields of a restored error (unmarshaler/field.go) ---------- *)
Definition r_typed (e : rerr) := match e with RErr _ _ t _ _ _ => t end.
Definition r_unknown (e : rerr) := match e with RErr _ _ _ u _ _ => u end.

(* keys a caller can hold: a typed key or the name-only key FindKeys hands out *)
Inductive anykey := AKTyped (k : ukey) | AKName (n : string).
Definition ak_name (a : anykey) : string := match a with AKTyped k => k_name (uk_key k) | AKName n => n end.

Inductive rvalue := RVBound (b : bval) | RVRaw (v : dval).

Definition ukey_eqb (a b : ukey) : bool := N.eqb (k_id (uk_key a)) (k_id (uk_key b)).

Definition rf_get (e : rerr) (a : anykey) : option rvalue :=
  match a with
  | AKTyped k =>
      match find (fun kv => ukey_eqb (fst kv) k) (r_typed e) with
      | Some (_, b) => Some (RVBound b)
      | None =>
          match find (fun nv => str_eqb (fst nv) (k_name (uk_key k))) (r_unknown e) with
          | Some (_, v) =>
              match try_convert (uk_ty k) v with Ok (Some b) => Some (RVBound b) | _ => None end
          | None => None
          end
      end
  | AKName n =>
      (* an unmarshaledFieldKey is not in the typed map; unknown by name *)
      option_map (fun nv => RVRaw (snd nv)) (find (fun nv => str_eqb (fst nv) n) (r_unknown e))
  end.

Definition rf_find_keys (e : rerr) (n : string) : list anykey :=
  map (fun kv => AKTyped (fst kv)) (filter (fun kv => str_eqb (k_name (uk_key (fst kv))) n) (r_typed e))
  ++ (if existsb (fun nv => str_eqb (fst nv) n) (r_unknown e) then [AKName n] else []).

(* All(): every key, sorted by name *)
Fixpoint ins_by_name (x : anykey * rvalue) (l : list (anykey * rvalue)) :=
  match l with
  | [] => [x]
  | y :: r => if String.leb (ak_name (fst x)) (ak_name (fst y)) then x :: l else y :: ins_by_name x r
  end.
Definition rf_all (e : rerr) : list (anykey * rvalue) :=
  fold_right ins_by_name []
    (map (fun kv => (AKTyped (fst kv), RVBound (snd kv))) (r_typed e) ++
     map (fun nv => (AKName (fst nv), RVRaw (snd nv))) (r_unknown e)).
Definition rf_len (e : rerr) : nat := List.length (r_typed e) + List.length (r_unknown e).
Definition rf_is_zero (e : rerr) : bool := Nat.eqb (rf_len e) 0.
