(* The program DSL the harness interprets against the real library, and its
   interpretation in the model.  Three pools: definitions/factories, contexts
   (their accumulated option lists), errors (None = a nil error result). *)
From Errdef Require Import Base.Str Model.Core Model.GoErrors.

(* Recover callbacks (C17) *)
Inductive cb :=
| CRet (e : option nat)                       (* return errs[e] / nil *)
| CPanicErr (e : nat)                         (* panic(errs[e]) *)
| CPanicInner (e : nat)                       (* panic(pe) when errs[e] is an errdef error whose only direct cause is a
                                                 PanicError pe (what an earlier Recover returned), else panic(errs[e]) *)
| CPanicVal (id : N) (fmtv : string)          (* panic(v), v not an error; fmtv = Sprintf("%v", v) *)
| CPanicRt (msg : string) (tyname : string)   (* a runtime error (fresh error value), incl. panic(nil) *)
| CCall (c : cb)                              (* one more call level before c *)
| CRecover (f : nat) (c : cb) (stk : list frame)   (* return f.Recover(func() error { c }) *)
| CSwallow (f : nat) (c1 : cb) (stk : list frame) (c2 : cb).  (* _ = f.Recover(c1); then c2 *)

Inductive stmt :=
| SDefine (kind : string) (os : list opt)
| SCtx (parent : option nat) (os : list opt)
| SWith (d : nat) (ctx : option nat) (os : list opt)
| SWithOptions (d : nat) (os : list opt)
| SNew (f : nat) (msg : string) (stk : list frame)
| SErrorf (f : nat) (format : string) (nargs : nat) (sprintf_ref : string) (stk : list frame)
| SWrap (f : nat) (c : option nat) (stk : list frame)
| SWrapf (f : nat) (c : option nat) (sprintf_ref : string) (stk : list frame)
| SJoin (f : nat) (cs : list (option nat)) (stk : list frame)
| SRecover (f : nat) (c : cb) (stk : list frame)
| SFmtErrorf (msg : string) (c : nat)          (* fmt.Errorf("...: %w", errs[c]) *)
| SErrorsJoin (cs : list (option nat))
| SSingle (msg : string) (c : option nat)      (* custom pointer type with Unwrap() error *)
| SMulti (msg : string) (cs : list (option nat))
| SLeaf (msg : string) (tyname : string)       (* errors.New / custom leaf *)
| SDefAsErr (d : nat).                         (* the definition/factory itself as an error value *)

Record st := { s_defs : list defn; s_ctxs : list (list opt); s_errs : list (option err);
               s_next : N; s_norg : nat }.

Definition st0 : st := {| s_defs := []; s_ctxs := []; s_errs := []; s_next := 1; s_norg := 0 |}.

Definition dummy_def : defn := define 0 0 "" [].

Definition get_def (s : st) (i : nat) : defn := nth i (s_defs s) dummy_def.
Definition get_ctx (s : st) (i : option nat) : list opt :=
  match i with None => [] | Some n => nth n (s_ctxs s) [] end.
Definition get_err (s : st) (i : option nat) : option err :=
  match i with None => None | Some n => nth n (s_errs s) None end.

Definition add_def (s : st) (d : defn) (used : N) (neworg : bool) : st :=
  {| s_defs := s_defs s ++ [d]; s_ctxs := s_ctxs s; s_errs := s_errs s;
     s_next := (s_next s + used)%N; s_norg := if neworg then S (s_norg s) else s_norg s |}.
Definition add_ctx (s : st) (c : list opt) : st :=
  {| s_defs := s_defs s; s_ctxs := s_ctxs s ++ [c]; s_errs := s_errs s; s_next := s_next s; s_norg := s_norg s |}.
Definition add_err (s : st) (e : option err) (used : N) : st :=
  {| s_defs := s_defs s; s_ctxs := s_ctxs s; s_errs := s_errs s ++ [e];
     s_next := (s_next s + used)%N; s_norg := s_norg s |}.
Definition bump (s : st) (used : N) : st :=
  {| s_defs := s_defs s; s_ctxs := s_ctxs s; s_errs := s_errs s; s_next := (s_next s + used)%N; s_norg := s_norg s |}.

(* ---- Recover (definition.go:183-196, panic.go) ---- *)
Definition inner_panic (x : err) : err :=
  match x with
  | EDef _ _ _ (Some (EPanic a m id oe)) _ _ => EPanic a m id oe
  | _ => x
  end.
Inductive pval := PVErr (e : err) | PVOther (id : N) (fmtv : string).
Inductive cbres := Normal (r : option err) | Panicking (v : pval).

(* newPanicError: fmt.Sprintf("%v", panicValue) *)
Definition pv_msg (v : pval) : string := match v with PVErr e => fmt_v e | PVOther _ s => s end.

(* the deferred function of Recover: wrap a recovered value; addresses a (panicError), a+1 (definedError) *)
Definition recovered (a : N) (d : defn) (v : pval) (stk : list frame) : err :=
  let pe := match v with
            | PVErr e => EPanic a (pv_msg v) 0 (Some e)
            | PVOther id _ => EPanic a (pv_msg v) id None
            end in
  new_error (a + 1) d (Some pe) ("panic: " ++ pv_msg v) false stk.

(* big-step evaluation of a callback; threads the address counter *)
Fixpoint eval_cb (s : st) (c : cb) (next : N) : cbres * N :=
  match c with
  | CRet e => (Normal (get_err s e), next)
  | CPanicErr e =>
      match get_err s (Some e) with
      | Some x => (Panicking (PVErr x), next)
      | None => (Panicking (PVErr (ELeaf next "panic called with nil argument" "*runtime.PanicNilError")), (next + 1)%N)
      end
  | CPanicInner e =>
      match get_err s (Some e) with
      | Some x => (Panicking (PVErr (inner_panic x)), next)
      | None => (Panicking (PVErr (ELeaf next "panic called with nil argument" "*runtime.PanicNilError")), (next + 1)%N)
      end
  | CPanicVal id fmtv => (Panicking (PVOther id fmtv), next)
  | CPanicRt msg ty => (Panicking (PVErr (ELeaf next msg ty)), (next + 1)%N)
  | CCall c' => eval_cb s c' next
  | CRecover f c' stk =>
      match eval_cb s c' next with
      | (Normal r, n) => (Normal r, n)
      | (Panicking v, n) => (Normal (Some (recovered n (get_def s f) v stk)), (n + 2)%N)
      end
  | CSwallow f c1 stk c2 =>
      match eval_cb s c1 next with
      | (Normal _, n) => eval_cb s c2 n
      | (Panicking _, n) => eval_cb s c2 ((n + 2)%N)
      end
  end.

(* Recover itself never panics: the outcome is always a value *)
Definition c_recover (s : st) (f : nat) (c : cb) (stk : list frame) : option err * N :=
  match eval_cb s c (s_next s) with
  | (Normal r, n) => (r, n)
  | (Panicking v, n) => (Some (recovered n (get_def s f) v stk), (n + 2)%N)
  end.

Definition step (s : st) (x : stmt) : st :=
  let a := s_next s in
  match x with
  | SDefine kind os => add_def s (define a (s_norg s) kind os) 1 true
  | SCtx parent os =>
      add_ctx s (match os with [] => get_ctx s parent | _ => ctx_with (get_ctx s parent) os end)
  | SWith d ctx os => add_def s (with_ a (get_def s d) (get_ctx s ctx) os) 1 false
  | SWithOptions d os => add_def s (with_options a (get_def s d) os) 1 false
  | SNew f msg stk => add_err s (c_new a (get_def s f) msg stk) 1
  | SErrorf f format nargs ref stk => add_err s (c_errorf a (get_def s f) format nargs ref stk) 1
  | SWrap f c stk => add_err s (c_wrap a (get_def s f) (get_err s c) stk) 1
  | SWrapf f c ref stk => add_err s (c_wrapf a (get_def s f) (get_err s c) ref stk) 1
  | SJoin f cs stk => add_err s (c_join a (get_def s f) (map (get_err s) cs) stk) 2
  | SRecover f c stk =>
      let '(r, n) := c_recover s f c stk in add_err s r (n - a)%N
  | SFmtErrorf msg c =>
      match get_err s (Some c) with
      | Some e => add_err s (Some (EWrapF a (msg ++ ": " ++ fmt_v e) e)) 1
      | None => add_err s (Some (ELeaf a (msg ++ ": %!w(<nil>)") "*fmt.wrapError")) 1
      end
  | SErrorsJoin cs => add_err s (errors_join a (map (get_err s) cs)) 1
  | SSingle msg c => add_err s (Some (ESingle a msg (get_err s c))) 1
  | SMulti msg cs => add_err s (Some (EMulti a msg (map (get_err s) cs))) 1
  | SLeaf msg ty => add_err s (Some (ELeaf a msg ty)) 1
  | SDefAsErr d => add_err s (Some (EDefn (get_def s d))) 0
  end.

Definition run (p : list stmt) : st := fold_left step p st0.

(* ---------- well-formed programs: every index refers to an earlier result ---------- *)
Definition oidx_ok (n : nat) (o : option nat) : bool :=
  match o with None => true | Some i => Nat.ltb i n end.

Fixpoint cb_ok (nd ne : nat) (c : cb) : bool :=
  match c with
  | CRet e => oidx_ok ne e
  | CPanicErr e | CPanicInner e => Nat.ltb e ne
  | CPanicVal _ _ | CPanicRt _ _ => true
  | CCall c' => cb_ok nd ne c'
  | CRecover f c' _ => Nat.ltb f nd && cb_ok nd ne c'
  | CSwallow f c1 _ c2 => Nat.ltb f nd && cb_ok nd ne c1 && cb_ok nd ne c2
  end.

Definition stmt_ok (nd nc ne : nat) (x : stmt) : bool :=
  match x with
  | SDefine _ _ => true
  | SCtx parent _ => oidx_ok nc parent
  | SWith d ctx _ => Nat.ltb d nd && oidx_ok nc ctx
  | SWithOptions d _ => Nat.ltb d nd
  | SNew f _ _ | SErrorf f _ _ _ _ => Nat.ltb f nd
  | SWrap f c _ | SWrapf f c _ _ => Nat.ltb f nd && oidx_ok ne c
  | SJoin f cs _ => Nat.ltb f nd && forallb (oidx_ok ne) cs
  | SRecover f c _ => Nat.ltb f nd && cb_ok nd ne c
  | SFmtErrorf _ c => Nat.ltb c ne
  | SErrorsJoin cs | SMulti _ cs => forallb (oidx_ok ne) cs
  | SSingle _ c => oidx_ok ne c
  | SLeaf _ _ => true
  | SDefAsErr d => Nat.ltb d nd
  end.

Definition st_ok (s : st) (x : stmt) : bool :=
  stmt_ok (List.length (s_defs s)) (List.length (s_ctxs s)) (List.length (s_errs s)) x.

Fixpoint prog_ok_from (s : st) (p : list stmt) : bool :=
  match p with
  | [] => true
  | x :: r => st_ok s x && prog_ok_from (step s x) r
  end.
Definition prog_ok (p : list stmt) : bool := prog_ok_from st0 p.
