(* What srcgen reads off unmarshaler/unmarshaler.go on every run (Gen/UnmarshalSrc.v), given a meaning:
   the decision tree of Unmarshaler.resolveKind is interpreted over a configuration, and the statement groups
   of unmarshal / unmarshalCause that Model/Unmarshal.v transcribes must all be present, in order, with
   nothing else around them. *)
From Coq Require Import String List Bool.
From Errdef Require Import Base.Str Base.Outcome Model.Core Model.Convert Model.Unmarshal Gen.UnmarshalSrc.
Import ListNotations.

Definition strict_lookup (c : ucfg) (k : string) : ures udef :=
  match resolve_kind_def (u_defs c) k with
  | Some d => UOk d
  | None => UFail [{| fl_class := cls_kind; fl_kind := k; fl_field := "" |}]
  end.

(* [dflt]: the default definition when the resolver was found to be a DefaultResolver on the way down *)
Fixpoint rk_interp (t : rktree) (c : ucfg) (dflt : option udef) (k : string) : ures udef :=
  match t with
  | RKIfDefault a b =>
      match u_default c with
      | Some d => rk_interp a c (Some d) k
      | None => rk_interp b c None k
      end
  | RKIfStrict a b => if u_strict c then rk_interp a c dflt k else rk_interp b c dflt k
  | RKStrictLookup => strict_lookup c k
  | RKOrDefault =>
      match dflt with
      | Some d => UOk (match resolve_kind_def (u_defs c) k with Some x => x | None => d end)
      | None => UFail []     (* ResolveKindOrDefault exists on a DefaultResolver only *)
      end
  | RKUnknown => UFail []
  end.

Definition g_resolve_kind_u (c : ucfg) (k : string) : ures udef := rk_interp resolve_kind_tree c None k.

Definition unmarshal_source_ok : bool :=
  forallb snd unmarshal_groups && unmarshal_is_exactly_these &&
  forallb snd unmarshal_cause_groups && unmarshal_cause_is_exactly_these &&
  forallb snd dispatch_groups && dispatch_is_exactly_these &&
  forallb snd via_json_groups && via_json_is_exactly_these &&
  definition_from_message_is_resolve_kind && entry_decodes_then_unmarshals.
