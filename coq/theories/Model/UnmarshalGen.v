(* What srcgen reads off unmarshaler/converter.go on every run (Gen/UnmarshalSrc.v): the statement groups of the
   dispatcher tryConvertFieldValue and of the JSON route tryConvertViaJSON that Model/Convert.v transcribes must all
   be present, in order, with nothing else around them.  (unmarshaler/unmarshaler.go itself is translated statement
   by statement into Gen/GoLiteSrc.v and proved equal to Model/Unmarshal.v in Proofs/UnmarshalSrc.v.) *)
From Coq Require Import String List Bool.
From Errdef Require Import Base.Str Base.Outcome Model.Core Model.Convert Model.Unmarshal Gen.UnmarshalSrc.
Import ListNotations.

Definition unmarshal_source_ok : bool :=
  forallb snd dispatch_groups && dispatch_is_exactly_these &&
  forallb snd via_json_groups && via_json_is_exactly_these.
