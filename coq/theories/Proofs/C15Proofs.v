(* C15: proofs.  Redacted values never appear in any output: non-interference of
   every modelled sink in the secrets below Redacted values, the placeholder, the
   JSON round trip, the boundary witnesses, and the link to the check. *)
From Errdef Require Import Base.Str Model.Redact Check.C15.

(* ---- induction principle for val (nested lists) ---- *)
Section ValInd.
Variable P : val -> Prop.
Hypothesis Hstr : forall s, P (VStr s).
Hypothesis Hint : forall z, P (VInt z).
Hypothesis Hbool : forall b, P (VBool b).
Hypothesis Hsec : forall t id, P (VSecret t id).
Hypothesis Hred : forall p, P p -> P (VRedacted p).
Hypothesis Hstruct : forall n fs, Forall (fun f => P (snd f)) fs -> P (VStruct n fs).
Hypothesis Hmap : forall tn kvs, Forall (fun kv => P (snd kv)) kvs -> P (VMap tn kvs).
Hypothesis Hslice : forall l, Forall P l -> P (VSlice l).
Hypothesis Hptr : forall x, P x -> P (VPtr x).
Hypothesis Hiface : forall x, P x -> P (VIface x).
Hypothesis Hfields : forall fs last ord, Forall (fun kv => P (snd kv)) fs -> P (VFields fs last ord).

Fixpoint val_ind' (v : val) : P v :=
  match v with
  | VStr s => Hstr s
  | VInt z => Hint z
  | VBool b => Hbool b
  | VSecret t id => Hsec t id
  | VRedacted p => Hred p (val_ind' p)
  | VStruct n fs =>
      Hstruct n fs ((fix go (fs : list (string * bool * val)) : Forall (fun f => P (snd f)) fs :=
                       match fs with
                       | [] => Forall_nil _
                       | f :: r => Forall_cons f (val_ind' (snd f)) (go r)
                       end) fs)
  | VMap tn kvs =>
      Hmap tn kvs ((fix go (kvs : list (string * val)) : Forall (fun kv => P (snd kv)) kvs :=
                      match kvs with
                      | [] => Forall_nil _
                      | kv :: r => Forall_cons kv (val_ind' (snd kv)) (go r)
                      end) kvs)
  | VSlice l =>
      Hslice l ((fix go (l : list val) : Forall P l :=
                   match l with [] => Forall_nil _ | x :: r => Forall_cons x (val_ind' x) (go r) end) l)
  | VPtr x => Hptr x (val_ind' x)
  | VIface x => Hiface x (val_ind' x)
  | VFields fs last ord =>
      Hfields fs last ord ((fix go (fs : list (fkey * val)) : Forall (fun kv => P (snd kv)) fs :=
                              match fs with
                              | [] => Forall_nil _
                              | kv :: r => Forall_cons kv (val_ind' (snd kv)) (go r)
                              end) fs)
  end.
End ValInd.

(* ---- the nested fixpoints are maps ---- *)
Section Unfold.
Variable L : leaves.

Definition fmt_field st (meth : bool) (f : string * bool * val) : string * string :=
  (fst (fst f), fmt_at L st (meth && snd (fst f)) false (snd f)).
Definition fmt_entry st (meth : bool) (kv : string * val) : string * string :=
  (l_str L st (fst kv), fmt_at L st meth false (snd kv)).

Lemma fmt_struct_eq st m top n fs :
  fmt_at L st m top (VStruct n fs) = struct_shell st n (map (fmt_field st m) fs).
Proof.
  simpl. f_equal. induction fs as [|[[fn ex] x] r IH]; simpl; [reflexivity|]. now rewrite IH.
Qed.

Lemma fmt_map_eq st m top tn kvs :
  fmt_at L st m top (VMap tn kvs) = map_shell st tn (map (fmt_entry st m) kvs).
Proof.
  simpl. f_equal. induction kvs as [|[k x] r IH]; simpl; [reflexivity|]. now rewrite IH.
Qed.

Lemma fmt_slice_eq st m top l :
  fmt_at L st m top (VSlice l) = slice_shell st (map (fmt_at L st m false) l).
Proof.
  reflexivity.
Qed.

Definition fields_entry st (kv : fkey * val) : string * string :=
  let k := fst kv in
  let vt := ("errdef.fieldValue[" ++ k_ty k ++ "]")%string in
  (fmt_pointer L st ("*errdef.fieldKey[" ++ k_ty k ++ "]")
     ("&" ++ struct_shell (as_v st) ("errdef.fieldKey[" ++ k_ty k ++ "]")
               [("name", l_str L (as_v st) (k_name k))])%string,
   struct_shell st "errdef.indexedFieldValue"
     [("value", fmt_pointer L st ("*" ++ vt)
                  ("&" ++ struct_shell (as_v st) vt [("value", fmt_at L (as_v st) false false (snd kv))])%string);
      ("index", l_int L st (k_idx k))]).

Definition fields_body st (fs : list (fkey * val)) (last : Z) (order : list nat) : string :=
  ("&" ++ struct_shell st "errdef.fields"
     [("data", map_shell st "map[errdef.FieldKey]errdef.indexedFieldValue" (pick (map (fields_entry st) fs) order));
      ("lastIndex", l_int L st last)])%string.

Lemma fmt_fields_eq st m top fs last order :
  fmt_at L st m top (VFields fs last order) =
  if top then fields_body st fs last order
  else fmt_pointer L st "*errdef.fields" (fields_body (as_v st) fs last order).
Proof.
  assert (E : forall st, (fix go (fs : list (fkey * val)) : list (string * string) :=
                    match fs with
                    | [] => []
                    | (k, x) :: r =>
                        let kt := ("*errdef.fieldKey[" ++ k_ty k ++ "]")%string in
                        let vt := ("errdef.fieldValue[" ++ k_ty k ++ "]")%string in
                        (fmt_pointer L st kt
                           ("&" ++ struct_shell (as_v st) ("errdef.fieldKey[" ++ k_ty k ++ "]")
                                     [("name", l_str L (as_v st) (k_name k))])%string,
                         struct_shell st "errdef.indexedFieldValue"
                           [("value",
                             fmt_pointer L st ("*" ++ vt)
                               ("&" ++ struct_shell (as_v st) vt
                                         [("value", fmt_at L (as_v st) false false x)])%string);
                            ("index", l_int L st (k_idx k))]) :: go r
                    end) fs = map (fields_entry st) fs).
  { intros st0. induction fs as [|[k x] r IH]; [reflexivity|]. simpl. f_equal. exact IH. }
  cbn [fmt_at]. unfold fields_body. rewrite !E. reflexivity.
Qed.
End Unfold.

(* ------------------------------------------------------------------ *)
(* equal except for the secrets below Redacted values at positions that a
   sink reaches through methods ([m] = true); identical anywhere else *)

Fixpoint same_public (m : bool) (v v' : val) {struct v} : Prop :=
  if m then
    match v, v' with
    | VRedacted p, VRedacted p' => type_str p = type_str p'
    | VStruct n fs, VStruct n' fs' =>
        n = n' /\
        (fix go (fs fs' : list (string * bool * val)) : Prop :=
           match fs, fs' with
           | [], [] => True
           | (fn, ex, x) :: r, (fn', ex', x') :: r' =>
               fn = fn' /\ ex = ex' /\ same_public ex x x' /\ go r r'
           | _, _ => False
           end) fs fs'
    | VMap tn kvs, VMap tn' kvs' =>
        tn = tn' /\
        (fix go (kvs kvs' : list (string * val)) : Prop :=
           match kvs, kvs' with
           | [], [] => True
           | (k, x) :: r, (k', x') :: r' => k = k' /\ same_public true x x' /\ go r r'
           | _, _ => False
           end) kvs kvs'
    | VSlice l, VSlice l' =>
        (fix go (l l' : list val) : Prop :=
           match l, l' with
           | [], [] => True
           | x :: r, x' :: r' => same_public true x x' /\ go r r'
           | _, _ => False
           end) l l'
    | VPtr x, VPtr x' => same_public true x x'
    | VIface x, VIface x' => same_public true x x'
    | VFields fs last ord, VFields fs' last' ord' =>
        last = last' /\ ord = ord' /\
        (fix go (fs fs' : list (fkey * val)) : Prop :=
           match fs, fs' with
           | [], [] => True
           | (k, x) :: r, (k', x') :: r' => k = k' /\ same_public true x x' /\ go r r'
           | _, _ => False
           end) fs fs'
    | _, _ => v = v'
    end
  else v = v'.

(* the same relation on the lists, as Forall2 *)
Definition same_field (m : bool) (a b : string * bool * val) : Prop :=
  fst (fst a) = fst (fst b) /\ snd (fst a) = snd (fst b) /\ same_public (m && snd (fst a)) (snd a) (snd b).
Definition same_entry {K} (a b : K * val) : Prop := fst a = fst b /\ same_public true (snd a) (snd b).
Definition same_fields (fs fs' : fields) : Prop := Forall2 same_entry fs fs'.

Lemma sp_false v v' : same_public false v v' <-> v = v'.
Proof. destruct v; simpl; tauto. Qed.

Lemma sp_refl m v : same_public m v v.
Proof.
  revert m. induction v using val_ind'; intros [|]; try (now apply sp_false); simpl; auto.
  - split; [reflexivity|]. induction fs as [|[[fn ex] x] r IH]; [exact I|].
    inversion H as [|? ? Hx Hr]; subst. repeat split; [apply Hx | apply IH; exact Hr].
  - split; [reflexivity|]. induction kvs as [|[k x] r IH]; [exact I|].
    inversion H as [|? ? Hx Hr]; subst. repeat split; [apply Hx | apply IH; exact Hr].
  - induction l as [|x r IH]; [exact I|].
    inversion H as [|? ? Hx Hr]; subst. split; [apply Hx | apply IH; exact Hr].
  - repeat split. induction fs as [|[k x] r IH]; [exact I|].
    inversion H as [|? ? Hx Hr]; subst. repeat split; [apply Hx | apply IH; exact Hr].
Qed.

Lemma sp_struct n fs v' :
  same_public true (VStruct n fs) v' <-> exists fs', v' = VStruct n fs' /\ Forall2 (same_field true) fs fs'.
Proof.
  split.
  - destruct v'; simpl; try discriminate. intros [-> H]. exists fs0. split; [reflexivity|].
    revert fs0 H. induction fs as [|[[fn ex] x] r IH]; intros [|[[fn' ex'] x'] r'] H; try contradiction; constructor.
    + destruct H as (-> & -> & H & _). now repeat split.
    + apply IH. apply H.
  - intros (fs' & -> & H). simpl. split; [reflexivity|].
    induction H as [|[[fn ex] x] [[fn' ex'] x'] r r' (E1 & E2 & E3) _ IH]; [exact I|].
    simpl in *. subst. repeat split; auto.
Qed.

Lemma sp_map tn kvs v' :
  same_public true (VMap tn kvs) v' <-> exists kvs', v' = VMap tn kvs' /\ Forall2 same_entry kvs kvs'.
Proof.
  split.
  - destruct v'; simpl; try discriminate. intros [-> H]. exists kvs0. split; [reflexivity|].
    revert kvs0 H. induction kvs as [|[k x] r IH]; intros [|[k' x'] r'] H; try contradiction; constructor.
    + destruct H as (-> & H & _). now split.
    + apply IH. apply H.
  - intros (kvs' & -> & H). simpl. split; [reflexivity|].
    induction H as [|[k x] [k' x'] r r' (E1 & E2) _ IH]; [exact I|].
    simpl in *. subst. repeat split; auto.
Qed.

Lemma sp_slice l v' :
  same_public true (VSlice l) v' <-> exists l', v' = VSlice l' /\ Forall2 (same_public true) l l'.
Proof.
  split.
  - destruct v'; simpl; try discriminate. intros H. exists l0. split; [reflexivity|].
    revert l0 H. induction l as [|x r IH]; intros [|x' r'] H; try contradiction; constructor.
    + apply H.
    + apply IH. apply H.
  - intros (l' & -> & H). simpl.
    induction H as [|x x' r r' E _ IH]; [exact I|]. split; auto.
Qed.

Lemma sp_fields fs last ord v' :
  same_public true (VFields fs last ord) v' <-> exists fs', v' = VFields fs' last ord /\ same_fields fs fs'.
Proof.
  split.
  - destruct v'; simpl; try discriminate. intros (-> & -> & H). exists fs0. split; [reflexivity|].
    revert fs0 H. induction fs as [|[k x] r IH]; intros [|[k' x'] r'] H; try contradiction; constructor.
    + destruct H as (-> & H & _). now split.
    + apply IH. apply H.
  - intros (fs' & -> & H). simpl. repeat split.
    induction H as [|[k x] [k' x'] r r' (E1 & E2) _ IH]; [exact I|].
    simpl in *. subst. repeat split; auto.
Qed.

Lemma sp_red p v' : same_public true (VRedacted p) v' <-> exists p', v' = VRedacted p' /\ type_str p = type_str p'.
Proof.
  split.
  - destruct v'; simpl; try discriminate. intros H. now exists v'.
  - intros (p' & -> & H). exact H.
Qed.

Lemma sp_ptr x v' : same_public true (VPtr x) v' <-> exists x', v' = VPtr x' /\ same_public true x x'.
Proof.
  split.
  - destruct v'; simpl; try discriminate. intros H. now exists v'.
  - intros (x' & -> & H). exact H.
Qed.

Lemma sp_iface x v' : same_public true (VIface x) v' <-> exists x', v' = VIface x' /\ same_public true x x'.
Proof.
  split.
  - destruct v'; simpl; try discriminate. intros H. now exists v'.
  - intros (x' & -> & H). exact H.
Qed.

(* related values have the same Go type and the same outermost shape *)
Lemma sp_type m v v' : same_public m v v' -> type_str v = type_str v'.
Proof.
  revert m v'. induction v using val_ind'; intros [|] v' Hs; try (apply sp_false in Hs; now subst);
    try (simpl in Hs; now subst).
  - apply sp_red in Hs as (p' & -> & Hs). simpl. now rewrite Hs.
  - apply sp_struct in Hs as (fs' & -> & _). reflexivity.
  - apply sp_map in Hs as (kvs' & -> & _). reflexivity.
  - apply sp_slice in Hs as (l' & -> & _). reflexivity.
  - apply sp_ptr in Hs as (x' & -> & Hs). simpl. now rewrite (IHv _ _ Hs).
  - apply sp_iface in Hs as (x' & -> & Hs). simpl. now rewrite (IHv _ _ Hs).
  - apply sp_fields in Hs as (fs' & -> & _). reflexivity.
Qed.

Lemma sp_head v v' : same_public true v v' -> is_redacted v = is_redacted v' /\ composite v = composite v'.
Proof.
  destruct v; intros H; try (simpl in H; subst; now split).
  - apply sp_red in H as (? & -> & _). now split.
  - apply sp_struct in H as (? & -> & _). now split.
  - apply sp_map in H as (? & -> & _). now split.
  - apply sp_slice in H as (? & -> & _). now split.
  - apply sp_ptr in H as (? & -> & _). now split.
  - apply sp_iface in H as (? & -> & _). now split.
  - apply sp_fields in H as (? & -> & _). now split.
Qed.

Lemma map_ext_Forall2 {A B} (f g : A -> B) (R : A -> A -> Prop) l l' :
  Forall2 R l l' -> (forall a b, In a l -> R a b -> f a = g b) -> map f l = map g l'.
Proof.
  induction 1 as [|a b r r' Hab _ IH]; intros Hf; [reflexivity|]. simpl. f_equal.
  - apply Hf; [now left | exact Hab].
  - apply IH. intros a0 b0 Hin. apply Hf. now right.
Qed.

Section FmtNI.
Variable L : leaves.
Variable st : pst.

Lemma fmt_pointer_valid ty r : ptr_valid (p_verb st) = true -> fmt_pointer L st ty r = l_addr L st ty.
Proof. unfold fmt_pointer. now intros ->. Qed.

(* fmt: the output does not depend on the secrets, for every directive under which
   pointers print as numbers, and for every directive on values without a pointer
   to a composite below depth 0 *)
Lemma fmt_ni : forall v v' m top,
  same_public m v v' ->
  (m = false \/ ptr_valid (p_verb st) = true \/ ptrs_guarded top v = true) ->
  fmt_at L st m top v = fmt_at L st m top v'.
Proof.
  induction v using val_ind'; intros v' [|] top Hsp Hg;
    try (apply sp_false in Hsp; now subst); try (simpl in Hsp; now subst);
    destruct Hg as [Hg|Hg]; try discriminate.
  - (* Redacted *) apply sp_red in Hsp as (p' & -> & _). reflexivity.
  - (* struct *)
    apply sp_struct in Hsp as (fs' & -> & Hfs). rewrite !fmt_struct_eq. f_equal.
    apply (map_ext_Forall2 _ _ _ _ _ Hfs). intros [[fn ex] x] [[fn' ex'] x'] Hin (E1 & E2 & E3).
    simpl in *. subst. unfold fmt_field. simpl. f_equal.
    rewrite Forall_forall in H. apply (H _ Hin); [exact E3|].
    destruct ex'; [right|now left]. destruct Hg as [Hg|Hg]; [now left|right].
    simpl in Hg. clear -Hg Hin. induction fs as [|[[fn0 ex0] x0] r IH]; [contradiction|].
    apply andb_true_iff in Hg as [G1 G2]. destruct Hin as [E|Hin]; [|now apply IH].
    inversion E; subst. exact G1.
  - (* map *)
    apply sp_map in Hsp as (kvs' & -> & Hk). rewrite !fmt_map_eq. f_equal.
    apply (map_ext_Forall2 _ _ _ _ _ Hk). intros [k x] [k' x'] Hin (E1 & E2).
    simpl in *. subst. unfold fmt_entry. simpl. f_equal.
    rewrite Forall_forall in H. apply (H _ Hin); [exact E2|]. right.
    destruct Hg as [Hg|Hg]; [now left|right].
    simpl in Hg. clear -Hg Hin. induction kvs as [|[k0 x0] r IH]; [contradiction|].
    apply andb_true_iff in Hg as [G1 G2]. destruct Hin as [E|Hin]; [|now apply IH].
    inversion E; subst. exact G1.
  - (* slice *)
    apply sp_slice in Hsp as (l' & -> & Hl). rewrite !fmt_slice_eq. f_equal.
    apply (map_ext_Forall2 _ _ _ _ _ Hl). intros x x' Hin E.
    rewrite Forall_forall in H. apply (H _ Hin); [exact E|]. right.
    destruct Hg as [Hg|Hg]; [now left|right].
    simpl in Hg. clear -Hg Hin. induction l as [|x0 r IH]; [contradiction|].
    apply andb_true_iff in Hg as [G1 G2]. destruct Hin as [E|Hin]; [|now apply IH]. now subst.
  - (* pointer *)
    apply sp_ptr in Hsp as (x' & -> & Hx).
    destruct (sp_head _ _ Hx) as [Hr Hc]. pose proof (sp_type _ _ _ Hx) as Ht.
    cbn [fmt_at type_str]. rewrite <- Hr, <- Hc, <- Ht. simpl andb.
    destruct (is_redacted v) eqn:Er; [reflexivity|].
    destruct (top && composite v) eqn:Etc.
    + f_equal. apply IHv; [exact Hx|]. right. destruct Hg as [Hg|Hg]; [now left|right].
      simpl in Hg. rewrite Er in Hg. apply andb_true_iff in Etc as [-> Ec]. now rewrite Ec in Hg.
    + destruct Hg as [Hg|Hg].
      * now rewrite !fmt_pointer_valid.
      * simpl in Hg. rewrite Er in Hg. destruct (composite v) eqn:Ec; [|reflexivity].
        apply andb_true_iff in Hg as [-> _]. discriminate.
  - (* interface *)
    apply sp_iface in Hsp as (x' & -> & Hx). cbn [fmt_at]. apply IHv; [exact Hx|]. right.
    destruct Hg as [Hg|Hg]; [now left|now right].
  - (* the fields collection: only under a directive that is valid for pointers *)
    apply sp_fields in Hsp as (fs' & -> & Hfs). destruct Hg as [Hg|Hg]; [|discriminate].
    rewrite !fmt_fields_eq.
    assert (E : forall st0, ptr_valid (p_verb st0) = true ->
                map (fields_entry L st0) fs = map (fields_entry L st0) fs').
    { intros st0 Hv. apply (map_ext_Forall2 _ _ _ _ _ Hfs). intros [k x] [k' x'] _ (E1 & _).
      simpl in E1. subst k'. unfold fields_entry, fmt_pointer. simpl. now rewrite Hv. }
    destruct top.
    + unfold fields_body. now rewrite (E st Hg).
    + now rewrite !fmt_pointer_valid.
Qed.

End FmtNI.

(* ---- encoding/json ---- *)

Definition json_field (f : string * bool * val) : list (string * json) :=
  if snd (fst f) then [(fst (fst f), to_json (snd f))] else [].

Lemma json_struct_eq n fs : to_json (VStruct n fs) = JObj (flat_map json_field fs).
Proof.
  simpl. f_equal. induction fs as [|[[fn ex] x] r IH]; [reflexivity|].
  unfold json_field at 1. simpl. destruct ex; simpl; now rewrite IH.
Qed.

Lemma json_map_eq tn kvs : to_json (VMap tn kvs) = JObj (map (fun kv => (fst kv, to_json (snd kv))) kvs).
Proof.
  simpl. f_equal. induction kvs as [|[k x] r IH]; [reflexivity|]. simpl. now rewrite IH.
Qed.

Lemma json_slice_eq l : to_json (VSlice l) = JArr (map to_json l).
Proof. reflexivity. Qed.

Definition json_ins (acc : list (string * json)) (kv : fkey * val) : list (string * json) :=
  ins_sorted (k_name (fst kv)) (to_json (snd kv)) acc.

Lemma json_fields_eq fs last ord : to_json (VFields fs last ord) = JHtml (JObj (fold_left json_ins fs [])).
Proof.
  simpl. do 2 f_equal. generalize (@nil (string * json)).
  induction fs as [|[k x] r IH]; intros acc; [reflexivity|]. simpl. now rewrite IH.
Qed.

Lemma flat_map_ext_Forall2 {A B} (f g : A -> list B) (R : A -> A -> Prop) l l' :
  Forall2 R l l' -> (forall a b, In a l -> R a b -> f a = g b) -> flat_map f l = flat_map g l'.
Proof.
  induction 1 as [|a b r r' Hab _ IH]; intros Hf; [reflexivity|]. simpl. f_equal.
  - apply Hf; [now left | exact Hab].
  - apply IH. intros a0 b0 Hin. apply Hf. now right.
Qed.

(* json.Marshal: the document does not depend on the secrets (no side condition:
   json follows pointers, but through the Marshaler of what it finds) *)
Lemma json_ni : forall v v' m, same_public m v v' -> to_json v = to_json v'.
Proof.
  induction v using val_ind'; intros v' [|] Hs;
    try (apply sp_false in Hs; now subst); try (simpl in Hs; now subst).
  - apply sp_red in Hs as (p' & -> & _). reflexivity.
  - apply sp_struct in Hs as (fs' & -> & Hfs). rewrite !json_struct_eq. f_equal.
    apply (flat_map_ext_Forall2 _ _ _ _ _ Hfs). intros [[fn ex] x] [[fn' ex'] x'] Hin (E1 & E2 & E3).
    simpl in *. subst. unfold json_field. simpl. destruct ex'; [|reflexivity].
    rewrite Forall_forall in H. pose proof (H _ Hin _ _ E3) as E. simpl in E. now rewrite E.
  - apply sp_map in Hs as (kvs' & -> & Hk). rewrite !json_map_eq. f_equal.
    apply (map_ext_Forall2 _ _ _ _ _ Hk). intros [k x] [k' x'] Hin (E1 & E2). simpl in *. subst.
    rewrite Forall_forall in H. pose proof (H _ Hin _ _ E2) as E. simpl in E. now rewrite E.
  - apply sp_slice in Hs as (l' & -> & Hl). rewrite !json_slice_eq. f_equal.
    apply (map_ext_Forall2 _ _ _ _ _ Hl). intros x x' Hin E.
    rewrite Forall_forall in H. exact (H _ Hin _ _ E).
  - apply sp_ptr in Hs as (x' & -> & Hx). simpl. exact (IHv _ _ Hx).
  - apply sp_iface in Hs as (x' & -> & Hx). simpl. exact (IHv _ _ Hx).
  - apply sp_fields in Hs as (fs' & -> & Hfs). rewrite !json_fields_eq. do 2 f_equal.
    generalize (@nil (string * json)). induction Hfs as [|[k x] [k' x'] r r' (E1 & E2) _ IH]; intros acc; [reflexivity|].
    simpl in *. subst k'. inversion H as [|? ? Hx Hr]; subst.
    simpl in Hx. replace (json_ins acc (k, x)) with (json_ins acc (k, x')).
    + apply IH. exact Hr.
    + unfold json_ins. simpl. now rewrite (Hx _ _ E2).
Qed.

(* ---- log/slog ---- *)

Lemma log_value_ptr x : log_value (VPtr x) = if is_redacted x then LStr placeholder else LAny (VPtr x).
Proof. destruct x; reflexivity. Qed.

Definition plusv_st_valid : ptr_valid (p_verb (init plusv)) = true := eq_refl.

Lemma log_value_ni v v' : same_public true v v' ->
  (forall prefix key, log_text prefix key (log_value v) = log_text prefix key (log_value v')) /\
  log_json (log_value v) = log_json (log_value v').
Proof.
  intros Hs.
  assert (A : forall prefix key, log_text prefix key (LAny v) = log_text prefix key (LAny v')).
  { intros. simpl. unfold fmt_value. rewrite (fmt_ni std (init plusv) v v' true true Hs); [reflexivity|].
    right. left. reflexivity. }
  assert (B : log_json (LAny v) = log_json (LAny v')).
  { simpl. now rewrite (json_ni _ _ _ Hs). }
  destruct v; try (simpl in Hs; subst; now split).
  - apply sp_red in Hs as (? & -> & _). now split.
  - apply sp_struct in Hs as (? & -> & _). now split.
  - apply sp_map in Hs as (? & -> & _). now split.
  - apply sp_slice in Hs as (? & -> & _). now split.
  - pose proof Hs as Hs0. apply sp_ptr in Hs as (x' & -> & Hx). rewrite !log_value_ptr.
    destruct (sp_head _ _ Hx) as [<- _]. destruct (is_redacted v); now split.
  - apply sp_iface in Hs as (? & -> & _). now split.
  - apply sp_fields in Hs as (? & -> & _). now split.
Qed.

(* ------------------------------------------------------------------ *)
(* the fields collection                                               *)

Lemma same_fields_length fs fs' : same_fields fs fs' -> List.length fs = List.length fs'.
Proof. induction 1; simpl; congruence. Qed.

Lemma same_fields_obj fs fs' last : same_fields fs fs' -> same_public true (fields_obj fs last) (fields_obj fs' last).
Proof.
  intros H. apply sp_fields. exists fs'. split; [|exact H].
  unfold fields_obj. now rewrite (same_fields_length _ _ H).
Qed.

Fixpoint group_text (pk : string) (attrs : list (string * lv)) : string :=
  match attrs with
  | [] => ""
  | (k, y) :: r => (log_text pk k y ++ group_text pk r)%string
  end.

Lemma log_text_group prefix key attrs :
  log_text prefix key (LGroup attrs) = group_text (prefix ++ key ++ ".") attrs.
Proof.
  induction attrs as [|[k y] r IH]; [reflexivity|].
  change (log_text prefix key (LGroup ((k, y) :: r)))
    with (log_text (prefix ++ key ++ ".") k y ++ log_text prefix key (LGroup r))%string.
  now rewrite IH.
Qed.

Definition attr_json (ky : string * lv) : string := (json_string false (fst ky) ++ ":" ++ log_json (snd ky))%string.

Lemma log_json_group attrs : log_json (LGroup attrs) = ("{" ++ join "," (map attr_json attrs) ++ "}")%string.
Proof.
  assert (E : (fix go (attrs : list (string * lv)) : list string :=
                 match attrs with
                 | [] => []
                 | (k, y) :: r => (json_string false k ++ ":" ++ log_json y)%string :: go r
                 end) attrs = map attr_json attrs).
  { induction attrs as [|[k y] r IH]; [reflexivity|]. simpl. f_equal. exact IH. }
  cbn [log_json]. rewrite E. reflexivity.
Qed.

(* two attribute lists that render alike *)
Definition same_lv (x y : lv) : Prop :=
  (forall prefix key, log_text prefix key x = log_text prefix key y) /\ log_json x = log_json y.
Definition same_attr (a b : string * lv) : Prop := fst a = fst b /\ same_lv (snd a) (snd b).

Lemma same_lv_refl x : same_lv x x.
Proof. now split. Qed.

Lemma group_ni attrs attrs' : Forall2 same_attr attrs attrs' -> same_lv (LGroup attrs) (LGroup attrs').
Proof.
  intros H. split.
  - intros prefix key. rewrite !log_text_group. generalize (prefix ++ key ++ ".")%string as pk. intros pk.
    induction H as [|[k y] [k' y'] r r' (E1 & E2 & _) _ IH]; [reflexivity|]. simpl in *. subst.
    now rewrite E2, IH.
  - rewrite !log_json_group. do 3 f_equal.
    apply (map_ext_Forall2 _ _ _ _ _ H). intros [k y] [k' y'] _ (E1 & _ & E3). simpl in *. subst.
    unfold attr_json. simpl. now rewrite E3.
Qed.

Lemma app_Forall2 {A} (R : A -> A -> Prop) a a' b b' :
  Forall2 R a a' -> Forall2 R b b' -> Forall2 R (a ++ b) (a' ++ b').
Proof. intros H1 H2. induction H1; simpl; [exact H2|]. now constructor. Qed.

Lemma fields_log_ni fs fs' : same_fields fs fs' -> same_lv (fields_log fs) (fields_log fs').
Proof.
  intros H. apply group_ni. induction H as [|[k x] [k' x'] r r' (E1 & E2) _ IH]; simpl; constructor.
  - simpl in *. subst. split; [reflexivity|]. exact (log_value_ni _ _ E2).
  - exact IH.
Qed.

Lemma detail_value_ni indent v v' : same_public true v v' -> detail_value indent v = detail_value indent v'.
Proof.
  intros H. unfold detail_value, fmt_value.
  rewrite (fmt_ni std (init plusv) v v' true true H); [reflexivity|]. right. left. reflexivity.
Qed.

Lemma details_fields_ni indent fs fs' : same_fields fs fs' -> details_fields indent fs = details_fields indent fs'.
Proof.
  intros H. unfold details_fields. destruct H as [|[k x] [k' x'] r r' Hh Ht]; [reflexivity|].
  do 4 f_equal. apply (map_ext_Forall2 _ _ same_entry). { now constructor. }
  intros [k0 x0] [k1 x1] _ (E1 & E2). simpl in *. subst. now rewrite (detail_value_ni _ _ _ E2).
Qed.

Lemma details_ni indent m k fs fs' hc : same_fields fs fs' -> details indent m k fs hc = details indent m k fs' hc.
Proof.
  intros H. unfold details. now rewrite (details_fields_ni _ _ _ H), (same_fields_length _ _ H).
Qed.

(* ------------------------------------------------------------------ *)
(* error trees                                                         *)

Section ErrInd.
Variable P : err -> Prop.
Hypothesis Hdef : forall m k fs last cs, Forall P cs -> P (EDef m k fs last cs).
Hypothesis Hother : forall m t cs, Forall P cs -> P (EOther m t cs).
Fixpoint err_ind' (e : err) : P e :=
  let go := fix go (cs : list err) : Forall P cs :=
              match cs with [] => Forall_nil _ | c :: r => Forall_cons c (err_ind' c) (go r) end in
  match e with
  | EDef m k fs last cs => Hdef m k fs last cs (go cs)
  | EOther m t cs => Hother m t cs (go cs)
  end.
End ErrInd.

(* same tree, same public data; the field values may differ in their secrets *)
Fixpoint same_err (e e' : err) {struct e} : Prop :=
  match e, e' with
  | EDef m k fs last cs, EDef m' k' fs' last' cs' =>
      m = m' /\ k = k' /\ last = last' /\ same_fields fs fs' /\
      (fix go (cs cs' : list err) : Prop :=
         match cs, cs' with
         | [], [] => True
         | c :: r, c' :: r' => same_err c c' /\ go r r'
         | _, _ => False
         end) cs cs'
  | EOther m t cs, EOther m' t' cs' =>
      m = m' /\ t = t' /\
      (fix go (cs cs' : list err) : Prop :=
         match cs, cs' with
         | [], [] => True
         | c :: r, c' :: r' => same_err c c' /\ go r r'
         | _, _ => False
         end) cs cs'
  | _, _ => False
  end.

Lemma same_err_def m k fs last cs e' :
  same_err (EDef m k fs last cs) e' <->
  exists fs' cs', e' = EDef m k fs' last cs' /\ same_fields fs fs' /\ Forall2 same_err cs cs'.
Proof.
  split.
  - destruct e' as [m' k' fs' last' cs'|]; simpl; [|contradiction]. intros (-> & -> & -> & Hf & Hc).
    exists fs', cs'. repeat split; [exact Hf|].
    revert cs' Hc. induction cs as [|c r IH]; intros [|c' r'] Hc; try contradiction; constructor; [apply Hc|].
    apply IH. apply Hc.
  - intros (fs' & cs' & -> & Hf & Hc). simpl. repeat split; [exact Hf|].
    induction Hc as [|c c' r r' Hcc _ IH]; [exact I|]. now split.
Qed.

Lemma same_err_other m t cs e' :
  same_err (EOther m t cs) e' <-> exists cs', e' = EOther m t cs' /\ Forall2 same_err cs cs'.
Proof.
  split.
  - destruct e' as [|m' t' cs']; simpl; [contradiction|]. intros (-> & -> & Hc).
    exists cs'. split; [reflexivity|].
    revert cs' Hc. induction cs as [|c r IH]; intros [|c' r'] Hc; try contradiction; constructor; [apply Hc|].
    apply IH. apply Hc.
  - intros (cs' & -> & Hc). simpl. repeat split.
    induction Hc as [|c c' r r' Hcc _ IH]; [exact I|]. now split.
Qed.

Lemma Forall2_nonempty {A} (R : A -> A -> Prop) l l' : Forall2 R l l' -> nonempty l = nonempty l'.
Proof. now destruct 1. Qed.
Lemma Forall2_len {A} (R : A -> A -> Prop) l l' : Forall2 R l l' -> List.length l = List.length l'.
Proof. induction 1; simpl; congruence. Qed.

(* %+v of an error *)
Lemma node_body_eq indent e :
  node_body indent e =
  let ind := (indent ++ "    ")%string in
  match e with
  | EDef m k fs _ cs =>
      (details ind m k fs (nonempty cs) ++
       (if nonempty cs then (causes_header ind (List.length cs) ++ format_nodes ind 1%nat cs)%string else ""))%string
  | EOther m _ cs =>
      (m ++ (if nonempty cs then (nl ++ ind ++ "---" ++ causes_header ind (List.length cs) ++ format_nodes ind 1%nat cs)%string
             else ""))%string
  end.
Proof.
  assert (E : forall cs i ind,
     (fix go (i : nat) (cs : list err) : string :=
       match cs with
       | [] => ""
       | c :: r => (nl ++ ind ++ "[" ++ dec_nat i ++ "] " ++ node_body ind c ++ go (S i) r)%string
       end) i cs = format_nodes ind i cs).
  { induction cs as [|c r IH]; intros i ind; [reflexivity|]. simpl. simpl in IH. rewrite IH. reflexivity. }
  destruct e; cbn [node_body]; cbv zeta; rewrite E; reflexivity.
Qed.

Lemma Forall2_from {A} (P : A -> Prop) (R Q : A -> A -> Prop) l l' :
  Forall P l -> Forall2 R l l' -> (forall a b, P a -> R a b -> Q a b) -> Forall2 Q l l'.
Proof.
  intros HP HR HQ. induction HR as [|a b r r' Hab _ IH]; constructor.
  - inversion HP; subst. now apply HQ.
  - apply IH. now inversion HP.
Qed.

Lemma format_nodes_ext cs cs' :
  Forall2 (fun c c' => forall ind, node_body ind c = node_body ind c') cs cs' ->
  forall indent i, format_nodes indent i cs = format_nodes indent i cs'.
Proof.
  induction 1 as [|c c' r r' Hcc _ IH]; intros indent i; [reflexivity|].
  cbn [format_nodes]. now rewrite (Hcc indent), IH.
Qed.

Lemma node_body_ni : forall e e' indent, same_err e e' -> node_body indent e = node_body indent e'.
Proof.
  induction e using err_ind'; intros e' indent Hs.
  - apply same_err_def in Hs as (fs' & cs' & -> & Hf & Hc). rewrite !node_body_eq. cbv zeta.
    rewrite (details_ni _ _ _ _ _ _ Hf), (Forall2_nonempty _ _ _ Hc), (Forall2_len _ _ _ Hc).
    rewrite (format_nodes_ext cs cs'); [reflexivity|].
    apply (Forall2_from _ _ _ _ _ H Hc). intros a b Ha Hab ind. now apply Ha.
  - apply same_err_other in Hs as (cs' & -> & Hc). rewrite !node_body_eq. cbv zeta.
    rewrite (Forall2_nonempty _ _ _ Hc), (Forall2_len _ _ _ Hc).
    rewrite (format_nodes_ext cs cs'); [reflexivity|].
    apply (Forall2_from _ _ _ _ _ H Hc). intros a b Ha Hab ind. now apply Ha.
Qed.

Lemma format_nodes_ni cs cs' : Forall2 same_err cs cs' -> forall indent i, format_nodes indent i cs = format_nodes indent i cs'.
Proof.
  intros H. apply format_nodes_ext. induction H; constructor; [|assumption].
  intros ind. now apply node_body_ni.
Qed.

Lemma err_plusv_ni e e' : same_err e e' -> err_plusv e = err_plusv e'.
Proof.
  destruct e; intros Hs.
  - apply same_err_def in Hs as (fs' & cs' & -> & Hf & Hc). unfold err_plusv.
    now rewrite (details_ni _ _ _ _ _ _ Hf), (Forall2_nonempty _ _ _ Hc), (Forall2_len _ _ _ Hc),
      (format_nodes_ni _ _ Hc).
  - apply same_err_other in Hs as (cs' & -> & _). reflexivity.
Qed.

(* JSON of an error *)
Definition causes_json (cs : list err) : list (string * json) :=
  match cs with [] => [] | _ => [("causes", JArr (map err_json cs))] end.

Lemma err_json_eq e :
  err_json e =
  match e with
  | EDef m k fs last cs =>
      JObj ([("message", JStr m)] ++ (if str_eqb k "" then [] else [("kind", JStr k)]) ++
            (match fs with [] => [] | _ => [("fields", to_json (fields_obj fs last))] end) ++ causes_json cs)
  | EOther m t cs => JObj ([("message", JStr m); ("type", JStr t)] ++ causes_json cs)
  end.
Proof. destruct e as [m k fs last [|c r]|m t [|c r]]; reflexivity. Qed.

Lemma err_json_ni : forall e e', same_err e e' -> err_json e = err_json e'.
Proof.
  induction e using err_ind'; intros e' Hs.
  - apply same_err_def in Hs as (fs' & cs' & -> & Hf & Hc). rewrite !err_json_eq.
    assert (E : causes_json cs = causes_json cs').
    { unfold causes_json. rewrite (map_ext_Forall2 err_json err_json same_err cs cs' Hc).
      - now destruct Hc.
      - intros a b Hin Hab. rewrite Forall_forall in H. now apply H. }
    rewrite E, (json_ni _ _ _ (same_fields_obj _ _ last Hf)). now destruct Hf.
  - apply same_err_other in Hs as (cs' & -> & Hc). rewrite !err_json_eq.
    assert (E : causes_json cs = causes_json cs').
    { unfold causes_json. rewrite (map_ext_Forall2 err_json err_json same_err cs cs' Hc).
      - now destruct Hc.
      - intros a b Hin Hab. rewrite Forall_forall in H. now apply H. }
    now rewrite E.
Qed.

Lemma single_attr k x y : same_lv x y -> Forall2 same_attr [(k, x)] [(k, y)].
Proof. intros H. constructor; [|constructor]. now split. Qed.

(* slog value of an error *)
Lemma err_log_ni e e' : same_err e e' -> same_lv (err_log e) (err_log e').
Proof.
  destruct e; intros Hs.
  - apply same_err_def in Hs as (fs' & cs' & -> & Hf & Hc). unfold err_log. apply group_ni.
    repeat apply app_Forall2.
    + apply single_attr. apply same_lv_refl.
    + destruct (str_eqb kind ""); [constructor|]. apply single_attr. apply same_lv_refl.
    + pose proof (fields_log_ni _ _ Hf) as Hl. destruct Hf; [constructor|]. now apply single_attr.
  - apply same_err_other in Hs as (cs' & -> & _). apply same_lv_refl.
Qed.

(* slogValueToAny of a cause *)
Definition causes_any (cs : list err) : list (string * val) :=
  match cs with [] => [] | _ => [("causes", VIface (VSlice (map (fun c => VIface (node_any c)) cs)))] end.

Lemma node_any_eq e :
  node_any e =
  match e with
  | EDef m k fs last cs =>
      VMap "map[string]interface {}"
        (causes_any cs ++ (match fs with [] => [] | _ => [("fields", VIface (fields_obj fs last))] end) ++
         (if str_eqb k "" then [] else [("kind", VIface (VStr k))]) ++ [("message", VIface (VStr m))])
  | EOther m _ cs => VMap "map[string]interface {}" (causes_any cs ++ [("message", VIface (VStr m))])
  end.
Proof.
  assert (E : forall cs, (fix go (cs : list err) : list val :=
                            match cs with [] => [] | c :: r => VIface (node_any c) :: go r end) cs
                         = map (fun c => VIface (node_any c)) cs).
  { induction cs as [|c r IH]; [reflexivity|]. simpl. f_equal. }
  destruct e as [m k fs last [|c r]|m t [|c r]]; try reflexivity; cbn [node_any]; cbv zeta; rewrite E; reflexivity.
Qed.

Lemma same_entry_refl (a : string * val) : same_entry a a.
Proof. split; [reflexivity|apply sp_refl]. Qed.

Lemma single_entry (k : string) x y : same_public true x y -> Forall2 same_entry [(k, x)] [(k, y)].
Proof. intros H. constructor; [|constructor]. now split. Qed.

Lemma Forall2_map {A B} (R : B -> B -> Prop) (f : A -> B) (Q : A -> A -> Prop) l l' :
  Forall2 Q l l' -> (forall a b, Q a b -> R (f a) (f b)) -> Forall2 R (map f l) (map f l').
Proof. intros H HR. induction H; simpl; constructor; auto. Qed.

Lemma sp_iface_intro x y : same_public true x y -> same_public true (VIface x) (VIface y).
Proof. intros H. apply sp_iface. now exists y. Qed.

Lemma causes_slice_ni cs cs' :
  Forall2 (fun c c' => same_public true (node_any c) (node_any c')) cs cs' ->
  same_public true (VSlice (map (fun c => VIface (node_any c)) cs)) (VSlice (map (fun c => VIface (node_any c)) cs')).
Proof.
  intros H. apply sp_slice. eexists. split; [reflexivity|].
  apply (Forall2_map _ _ _ _ _ H). intros a b Hab. now apply sp_iface_intro.
Qed.

Lemma causes_any_ni cs cs' :
  Forall2 (fun c c' => same_public true (node_any c) (node_any c')) cs cs' ->
  Forall2 same_entry (causes_any cs) (causes_any cs').
Proof.
  intros H. unfold causes_any. pose proof (causes_slice_ni _ _ H) as Hs.
  destruct H; [constructor|]. apply single_entry. now apply sp_iface_intro.
Qed.

Lemma node_any_ni : forall e e', same_err e e' -> same_public true (node_any e) (node_any e').
Proof.
  induction e using err_ind'; intros e' Hs.
  - apply same_err_def in Hs as (fs' & cs' & -> & Hf & Hc). rewrite !node_any_eq.
    apply sp_map. eexists. split; [reflexivity|]. repeat apply app_Forall2.
    + apply causes_any_ni. apply (Forall2_from _ _ _ _ _ H Hc). intros a b Ha Hab. now apply Ha.
    + pose proof (same_fields_obj _ _ last Hf) as Ho. destruct Hf; [constructor|].
      apply single_entry. now apply sp_iface_intro.
    + destruct (str_eqb k ""); [constructor|]. apply single_entry. apply sp_refl.
    + apply single_entry. apply sp_refl.
  - apply same_err_other in Hs as (cs' & -> & Hc). rewrite !node_any_eq.
    apply sp_map. eexists. split; [reflexivity|]. repeat apply app_Forall2.
    + apply causes_any_ni. apply (Forall2_from _ _ _ _ _ H Hc). intros a b Ha Hab. now apply Ha.
    + apply single_entry. apply sp_refl.
Qed.

Lemma lany_ni v v' : same_public true v v' -> same_lv (LAny v) (LAny v').
Proof.
  intros Hs. split.
  - intros. simpl. unfold fmt_value. rewrite (fmt_ni std (init plusv) v v' true true Hs); [reflexivity|].
    right. left. reflexivity.
  - simpl. now rewrite (json_ni _ _ _ Hs).
Qed.

(* Node.LogValue *)
Lemma node_log_ni e e' : same_err e e' -> same_lv (node_log e) (node_log e').
Proof.
  assert (C : forall cs cs', Forall2 same_err cs cs' ->
     Forall2 same_attr
       (match cs with [] => [] | _ => [("causes", LAny (VSlice (map (fun c => VIface (node_any c)) cs)))] end)
       (match cs' with [] => [] | _ => [("causes", LAny (VSlice (map (fun c => VIface (node_any c)) cs')))] end)).
  { intros cs cs' Hc.
    assert (Hs : same_public true (VSlice (map (fun c => VIface (node_any c)) cs))
                                  (VSlice (map (fun c => VIface (node_any c)) cs'))).
    { apply causes_slice_ni. induction Hc; constructor; [now apply node_any_ni|assumption]. }
    destruct Hc; [constructor|]. apply single_attr. now apply lany_ni. }
  destruct e; intros Hs.
  - apply same_err_def in Hs as (fs' & cs' & -> & Hf & Hc). unfold node_log. apply group_ni.
    repeat apply app_Forall2.
    + apply single_attr. apply same_lv_refl.
    + destruct (str_eqb kind ""); [constructor|]. apply single_attr. apply same_lv_refl.
    + pose proof (fields_log_ni _ _ Hf) as Hl. destruct Hf; [constructor|]. now apply single_attr.
    + now apply C.
  - apply same_err_other in Hs as (cs' & -> & Hc). unfold node_log. apply group_ni.
    repeat apply app_Forall2.
    + apply single_attr. apply same_lv_refl.
    + now apply C.
Qed.

(* ------------------------------------------------------------------ *)
(* the sinks, packaged                                                 *)

(* sinks of a field value *)
Inductive vsink :=
| KFmt (L : leaves) (sp : fspec)       (* fmt.Sprintf(directive, Value()), any rendering of the public leaves *)
| KDetail (indent : string)            (* the value inside formatErrorDetails *)
| KJson                                (* json.Marshal(Value()) *)
| KLogText (prefix key : string)       (* slog.TextHandler, attribute key=Value() *)
| KLogJson.                            (* slog.JSONHandler *)

Definition run_vsink (k : vsink) (v : val) : string :=
  match k with
  | KFmt L sp => fmt_value L sp v
  | KDetail indent => detail_value indent v
  | KJson => json_value v
  | KLogText prefix key => log_text prefix key (log_value v)
  | KLogJson => log_json (log_value v)
  end.

(* the domain on which the statement of C15 speaks about a sink *)
Definition vsink_dom (k : vsink) (v : val) : Prop :=
  match k with
  | KFmt _ sp => ptr_valid (f_verb sp) = true \/ ptrs_guarded true v = true
  | _ => True
  end.

Lemma init_verb sp : p_verb (init sp) = f_verb sp.
Proof. reflexivity. Qed.

Lemma vsink_ni k v v' : same_public true v v' -> vsink_dom k v -> run_vsink k v = run_vsink k v'.
Proof.
  intros Hs Hd. destruct k; simpl.
  - unfold fmt_value. apply fmt_ni; [exact Hs|]. right. rewrite init_verb. exact Hd.
  - now apply detail_value_ni.
  - unfold json_value. now rewrite (json_ni _ _ _ Hs).
  - apply (log_value_ni _ _ Hs).
  - apply (log_value_ni _ _ Hs).
Qed.

(* sinks of an error (built without stack trace) and of its parts *)
Inductive esink :=
| EPlusV                               (* fmt.Sprintf("%+v", err) *)
| EJson (html : bool)                  (* json.Marshal(err), Node.MarshalJSON *)
| ELogText (prefix key : string)       (* slog text of the error *)
| ELogJson
| ENodeLogText (prefix key : string)   (* slog text of a Node holding the error (slogValueToAny for its causes) *)
| ENodeLogJson.

Definition run_esink (k : esink) (e : err) : string :=
  match k with
  | EPlusV => err_plusv e
  | EJson html => json_render html (err_json e)
  | ELogText prefix key => log_text prefix key (err_log e)
  | ELogJson => log_json (err_log e)
  | ENodeLogText prefix key => log_text prefix key (node_log e)
  | ENodeLogJson => log_json (node_log e)
  end.

Lemma esink_ni k e e' : same_err e e' -> run_esink k e = run_esink k e'.
Proof.
  intros Hs. destruct k; simpl.
  - now apply err_plusv_ni.
  - now rewrite (err_json_ni _ _ Hs).
  - apply (err_log_ni _ _ Hs).
  - apply (err_log_ni _ _ Hs).
  - apply (node_log_ni _ _ Hs).
  - apply (node_log_ni _ _ Hs).
Qed.

(* the fields collection: %v-family (every directive that is valid for pointers), JSON, slog *)
Lemma fields_fmt_ni L sp fs fs' last order :
  same_fields fs fs' -> ptr_valid (f_verb sp) = true ->
  fmt_value L sp (VFields fs last order) = fmt_value L sp (VFields fs' last order).
Proof.
  intros Hf Hv. unfold fmt_value. apply fmt_ni.
  - apply sp_fields. now exists fs'.
  - right. left. exact Hv.
Qed.

Lemma fields_json_ni fs fs' last order :
  same_fields fs fs' -> json_value (VFields fs last order) = json_value (VFields fs' last order).
Proof.
  intros Hf. unfold json_value. f_equal. apply (json_ni _ _ true). apply sp_fields. now exists fs'.
Qed.

(* ------------------------------------------------------------------ *)
(* the placeholder                                                     *)

Lemma placeholder_shown L sp top indent prefix key p :
  fmt_at L (init sp) true top (VRedacted p) = placeholder /\
  fmt_at L (init sp) true top (VPtr (VRedacted p)) = placeholder /\
  detail_value indent (VRedacted p) = placeholder /\
  json_value (VRedacted p) = json_string true placeholder /\
  json_value (VPtr (VRedacted p)) = json_string true placeholder /\
  marshal_text (VRedacted p) = Some placeholder /\
  marshal_binary (VRedacted p) = Some placeholder /\
  log_text prefix key (log_value (VRedacted p)) = (" " ++ prefix ++ key ++ "=" ++ placeholder)%string /\
  log_json (log_value (VRedacted p)) = json_string false placeholder.
Proof. repeat split. Qed.

(* inside a composite: the text of an exported Redacted field, of a map value and of a
   slice element is the placeholder itself *)
Lemma placeholder_in_struct L st top n fs fn p :
  In (fn, true, VRedacted p) fs ->
  fmt_at L st true top (VStruct n fs) = struct_shell st n (map (fmt_field L st true) fs) /\
  In (fn, placeholder) (map (fmt_field L st true) fs).
Proof.
  intros Hin. split; [apply fmt_struct_eq|].
  apply in_map_iff. exists (fn, true, VRedacted p). split; [reflexivity|exact Hin].
Qed.

Lemma placeholder_in_map L st top tn kvs k p :
  In (k, VIface (VRedacted p)) kvs ->
  fmt_at L st true top (VMap tn kvs) = map_shell st tn (map (fmt_entry L st true) kvs) /\
  In (l_str L st k, placeholder) (map (fmt_entry L st true) kvs).
Proof.
  intros Hin. split; [apply fmt_map_eq|].
  apply in_map_iff. exists (k, VIface (VRedacted p)). split; [reflexivity|exact Hin].
Qed.

Lemma placeholder_in_slice L st top l p :
  In (VIface (VRedacted p)) l ->
  fmt_at L st true top (VSlice l) = slice_shell st (map (fmt_at L st true false) l) /\
  In placeholder (map (fmt_at L st true false) l).
Proof.
  intros Hin. split; [apply fmt_slice_eq|].
  apply in_map_iff. exists (VIface (VRedacted p)). split; [reflexivity|exact Hin].
Qed.

(* ------------------------------------------------------------------ *)
(* JSON round trip                                                     *)

Lemma ins_sorted_in {A} k (x : A) l : In (k, x) (ins_sorted k x l).
Proof.
  induction l as [|[k' y] r IH]; simpl; [now left|].
  destruct (String.compare k k'); simpl; auto.
Qed.

Lemma ins_sorted_from {A} k (x : A) l n j :
  In (n, j) (ins_sorted k x l) -> (n = k /\ j = x) \/ In (n, j) l.
Proof.
  induction l as [|[k' y] r IH]; simpl.
  - intros [E|[]]. inversion E. now left.
  - destruct (String.compare k k') eqn:C; simpl.
    + intros [E|H]; [inversion E; now left|]. right. now right.
    + intros [E|H]; [inversion E; now left|]. now right.
    + intros [E|H]; [right; now left|]. destruct (IH H) as [?|?]; [now left|]. right. now right.
Qed.

Lemma ins_sorted_keep {A} k (x : A) l n j : n <> k -> In (n, j) l -> In (n, j) (ins_sorted k x l).
Proof.
  intros Hne. induction l as [|[k' y] r IH]; simpl; [tauto|].
  intros [E|H].
  - inversion E; subst. destruct (String.compare k n) eqn:C; simpl; auto.
    apply String.compare_eq_iff in C. now subst.
  - destruct (String.compare k k'); simpl; auto.
Qed.

Definition is_direct (v : val) : Prop := exists p, v = VRedacted p \/ v = VPtr (VRedacted p).

Lemma direct_json v : is_direct v -> to_json v = JStr placeholder.
Proof. intros (p & [->| ->]); reflexivity. Qed.

(* the "fields" object of the document, for a name all of whose writers are Redacted wrappers *)
Lemma fields_json_direct n fs : forall acc,
  (forall k v, In (k, v) fs -> k_name k = n -> is_direct v) ->
  (forall j, In (n, j) acc -> j = JStr placeholder) ->
  (forall j, In (n, j) (fold_left json_ins fs acc) -> j = JStr placeholder) /\
  ((exists k v, In (k, v) fs /\ k_name k = n) \/ In (n, JStr placeholder) acc ->
   In (n, JStr placeholder) (fold_left json_ins fs acc)).
Proof.
  induction fs as [|[k v] r IH]; intros acc Hd Hacc; simpl.
  - split; [exact Hacc|]. intros [(k & v & [] & _)|H]; exact H.
  - assert (Hd' : forall k0 v0, In (k0, v0) r -> k_name k0 = n -> is_direct v0).
    { intros k0 v0 Hin. apply Hd. now right. }
    assert (Hacc' : forall j, In (n, j) (json_ins acc (k, v)) -> j = JStr placeholder).
    { intros j Hj. unfold json_ins in Hj. simpl in Hj. apply ins_sorted_from in Hj as [[E1 E2]|Hj].
      - subst j. apply direct_json. apply (Hd k v); [now left|now symmetry].
      - now apply Hacc. }
    destruct (IH _ Hd' Hacc') as [I1 I2]. split; [exact I1|].
    intros H. apply I2.
    destruct (string_dec (k_name k) n) as [E|Hne].
    + right. unfold json_ins. simpl. rewrite E.
      rewrite (direct_json v); [apply ins_sorted_in|]. apply (Hd k v); [now left|exact E].
    + destruct H as [(k0 & v0 & [E0|Hin] & Hn)|H].
      * inversion E0; subst. contradiction.
      * left. now exists k0, v0.
      * right. unfold json_ins. simpl. apply ins_sorted_keep; [congruence|exact H].
Qed.

Lemma restore_placeholder conv name : restore_field conv name (JStr placeholder) = Unknown (JStr placeholder).
Proof. reflexivity. Qed.

Lemma roundtrip_placeholder conv fs last n :
  (exists k v, In (k, v) fs /\ k_name k = n) ->
  (forall k v, In (k, v) fs -> k_name k = n -> is_direct v) ->
  In (n, Unknown (JStr placeholder)) (restore_fields conv fs last) /\
  (forall s, In (n, s) (restore_fields conv fs last) -> s = Unknown (JStr placeholder)).
Proof.
  intros Hex Hd. unfold restore_fields, fields_obj. rewrite json_fields_eq. simpl obj_entries.
  destruct (fields_json_direct n fs [] Hd) as [I1 I2]. { intros j []. }
  split.
  - apply in_map_iff. exists (n, JStr placeholder). split; [reflexivity|]. apply I2. now left.
  - intros s Hs. apply in_map_iff in Hs as ([n' j] & E & Hin). simpl in E. inversion E; subst.
    now rewrite (I1 _ Hin).
Qed.

Lemma roundtrip_ni conv fs fs' last : same_fields fs fs' -> restore_fields conv fs last = restore_fields conv fs' last.
Proof.
  intros Hf. unfold restore_fields. now rewrite (json_ni _ _ _ (same_fields_obj _ _ last Hf)).
Qed.

(* ------------------------------------------------------------------ *)
(* the boundary: witnesses                                             *)

Definition leak_unexported (p : val) : val := VStruct "T" [("Name", true, VStr "n"); ("tok", false, VRedacted p)].
Definition leak_nested_ptr (p : val) : val :=
  VMap "map[string]interface {}" [("p", VIface (VPtr (VStruct "S" [("Tok", true, VRedacted p)])))].
Definition leak_fields (p : val) : val :=
  VFields [({| k_name := "tok"; k_ty := "errdef.Redacted[string]"; k_idx := 1 |}, VRedacted p)] 1 [0%nat].

Lemma unexported_leaks :
  fmt_value std (spec_of Vv false false) (leak_unexported (VStr "SECRET")) = "{n {SECRET}}" /\
  fmt_value std (spec_of Vv false false) (leak_unexported (VStr "SECRET"))
    <> fmt_value std (spec_of Vv false false) (leak_unexported (VStr "OTHER")).
Proof. split; [reflexivity|]. vm_compute. discriminate. Qed.

Lemma badverb_nested_ptr_leaks :
  same_public true (leak_nested_ptr (VStr "SECRET")) (leak_nested_ptr (VStr "OTHER")) /\
  fmt_value std (spec_of Vs false false) (leak_nested_ptr (VStr "SECRET")) = "map[p:%!s(*S=&{{SECRET}})]" /\
  fmt_value std (spec_of Vs false false) (leak_nested_ptr (VStr "SECRET"))
    <> fmt_value std (spec_of Vs false false) (leak_nested_ptr (VStr "OTHER")) /\
  fmt_value std (spec_of Vv false false) (leak_nested_ptr (VStr "SECRET")) = "map[p:0xPTR]".
Proof.
  split; [simpl; tauto|]. split; [reflexivity|]. split; [vm_compute; discriminate|reflexivity].
Qed.

Lemma badverb_fields_leaks :
  same_public true (leak_fields (VStr "SECRET")) (leak_fields (VStr "OTHER")) /\
  fmt_value std (spec_of Vs false false) (leak_fields (VStr "SECRET"))
    <> fmt_value std (spec_of Vs false false) (leak_fields (VStr "OTHER")) /\
  fmt_value std (spec_of Vv false false) (leak_fields (VStr "SECRET")) = "&{map[0xPTR:{0xPTR 1}] 1}".
Proof.
  split; [simpl; tauto|]. split; [vm_compute; discriminate|reflexivity].
Qed.

(* ------------------------------------------------------------------ *)
(* the model's text contains no marker: "<" never occurs in it          *)

Definition lt_code : N := 60.

Lemma clean_app a b : clean (a ++ b) = clean a && clean b.
Proof. induction a as [|c r IH]; simpl; [reflexivity|]. now rewrite IH, andb_assoc. Qed.

Lemma clean_app_true a b : clean a = true -> clean b = true -> clean (a ++ b) = true.
Proof. intros Ha Hb. now rewrite clean_app, Ha, Hb. Qed.

Lemma clean_no_mark s : clean s = true -> contains mark s = false.
Proof.
  induction s as [|a r IH]; intros H; [reflexivity|].
  simpl in H. apply andb_true_iff in H as [Ha Hr].
  change (contains mark (String a r)) with
    (if String.prefix mark (String a r) then true else contains mark r).
  rewrite (IH Hr). unfold mark. simpl.
  destruct (Ascii.ascii_dec "<"%char a) as [<-|Hne]; [discriminate Ha|].
  destruct a as [[] [] [] [] [] [] [] []]; try reflexivity. now elim Hne.
Qed.

Lemma clean_join sep l : clean sep = true -> Forall (fun s => clean s = true) l -> clean (join sep l) = true.
Proof.
  intros Hs H. induction H as [|x r Hx Hr IH]; [reflexivity|].
  simpl. destruct r; [exact Hx|]. apply clean_app_true; [exact Hx|]. apply clean_app_true; [exact Hs|exact IH].
Qed.

Lemma clean_concat l : Forall (fun s => clean s = true) l -> clean (String.concat "" l) = true.
Proof.
  intros H. induction H as [|x r Hx Hr IH]; [reflexivity|].
  simpl. destruct r; [exact Hx|]. apply clean_app_true; [exact Hx|]. exact IH.
Qed.

Ltac cln := repeat first [ assumption | solve [timeout 2 reflexivity] | apply clean_app_true ].

(* digits *)
Lemma clean_digit d : (d < 10)%N -> clean (digit d) = true.
Proof.
  intros H.
  assert (E : (d = 0 \/ d = 1 \/ d = 2 \/ d = 3 \/ d = 4 \/ d = 5 \/ d = 6 \/ d = 7 \/ d = 8 \/ d = 9)%N) by lia.
  repeat (destruct E as [->|E]; [reflexivity|]). now subst.
Qed.

Lemma clean_dec_fuel fuel : forall n acc, clean acc = true -> clean (dec_fuel fuel n acc) = true.
Proof.
  induction fuel as [|f IH]; intros n acc Ha; [exact Ha|]. cbn [dec_fuel]. cbv zeta.
  assert (Hd : clean (digit (n mod 10) ++ acc) = true).
  { apply clean_app_true; [|exact Ha]. apply clean_digit. now apply N.mod_lt. }
  destruct (N.ltb n 10); [exact Hd|]. now apply IH.
Qed.

Lemma clean_dec n : clean (dec n) = true.
Proof. now apply clean_dec_fuel. Qed.
Lemma clean_dec_nat n : clean (dec_nat n) = true.
Proof. apply clean_dec. Qed.
Lemma clean_dec_Z z : clean (dec_Z z) = true.
Proof. unfold dec_Z. destruct (Z.ltb z 0); [apply clean_app_true; [reflexivity|]|]; apply clean_dec. Qed.

Lemma clean_hexdig d : (d < 16)%N -> clean (hexdig d) = true.
Proof.
  intros H.
  assert (E : (d = 0 \/ d = 1 \/ d = 2 \/ d = 3 \/ d = 4 \/ d = 5 \/ d = 6 \/ d = 7 \/ d = 8 \/ d = 9 \/
              d = 10 \/ d = 11 \/ d = 12 \/ d = 13 \/ d = 14 \/ d = 15)%N) by lia.
  repeat (destruct E as [->|E]; [reflexivity|]). now subst.
Qed.

Lemma clean_hex_byte a : clean (hex_byte a) = true.
Proof.
  unfold hex_byte. pose proof (N_ascii_bounded a) as Hb. apply clean_app_true; apply clean_hexdig.
  - apply N.div_lt_upper_bound; lia.
  - now apply N.mod_lt.
Qed.

Lemma clean_hex_str s : clean (hex_str s) = true.
Proof. induction s as [|a r IH]; [reflexivity|]. cbn [hex_str]. apply clean_app_true; [apply clean_hex_byte|exact IH]. Qed.

Lemma clean_hex_fuel fuel : forall n acc, clean acc = true -> clean (hex_fuel fuel n acc) = true.
Proof.
  induction fuel as [|f IH]; intros n acc Ha; [exact Ha|]. cbn [hex_fuel]. cbv zeta.
  assert (Hd : clean (hexdig (n mod 16) ++ acc) = true).
  { apply clean_app_true; [|exact Ha]. apply clean_hexdig. now apply N.mod_lt. }
  destruct (N.ltb n 16); [exact Hd|]. now apply IH.
Qed.
Lemma clean_hex_Z z : clean (hex_Z z) = true.
Proof.
  unfold hex_Z, hexN. destruct (Z.ltb z 0); [apply clean_app_true; [reflexivity|]|]; now apply clean_hex_fuel.
Qed.

Ltac cln ::= repeat first [ assumption | apply clean_hex_byte | apply clean_hex_str | apply clean_dec_Z | apply clean_hex_Z | solve [timeout 2 reflexivity] | apply clean_app_true ].

Lemma clean_char a : clean (String a "") = negb (N.eqb (N_of_ascii a) lt_code).
Proof. simpl. now rewrite andb_true_r. Qed.

(* strconv.Quote, json escaping, slog quoting keep a clean string clean *)
Lemma clean_esc_char q a : q <> lt_code -> clean (String a "") = true -> clean (esc_char q a) = true.
Proof.
  intros Hq Ha. unfold esc_char.
  repeat match goal with |- context[if ?c then _ else _] => destruct c eqn:? end; cln.
Qed.

Lemma clean_esc_str q s : q <> lt_code -> clean s = true -> clean (esc_str q s) = true.
Proof.
  intros Hq. induction s as [|a r IH]; intros H; [reflexivity|].
  cbn [clean] in H. apply andb_true_iff in H as [Ha Hr]. cbn [esc_str]. apply clean_app_true; [|now apply IH].
  apply clean_esc_char; [exact Hq|]. now rewrite clean_char.
Qed.

Lemma clean_go_quote s : clean s = true -> clean (go_quote s) = true.
Proof. intros H. unfold go_quote. cln. apply clean_esc_str; [discriminate|exact H]. Qed.

Lemma clean_json_esc_char html a : clean (String a "") = true -> clean (json_esc_char html a) = true.
Proof.
  intros Ha. unfold json_esc_char.
  repeat match goal with |- context[if ?c then _ else _] => destruct c eqn:? end; cln.
Qed.

Lemma clean_json_esc html s : clean s = true -> clean (json_esc html s) = true.
Proof.
  induction s as [|a r IH]; intros H; [reflexivity|].
  cbn [clean] in H. apply andb_true_iff in H as [Ha Hr]. cbn [json_esc]. apply clean_app_true; [|now apply IH].
  apply clean_json_esc_char. now rewrite clean_char.
Qed.

Lemma clean_json_string html s : clean s = true -> clean (json_string html s) = true.
Proof. intros H. unfold json_string. cln. now apply clean_json_esc. Qed.

Lemma clean_text_quote s : clean s = true -> clean (text_quote s) = true.
Proof. intros H. unfold text_quote. destruct (needs_quoting s); [now apply clean_go_quote|exact H]. Qed.

(* ---- structural layer ---- *)

Lemma clean_verb_chr v : clean (verb_chr v) = true.
Proof. now destruct v. Qed.

Lemma clean_bad_verb st ty body : clean ty = true -> clean body = true -> clean (bad_verb st ty body) = true.
Proof. intros. unfold bad_verb. pose proof (clean_verb_chr (p_verb st)). cln. Qed.

Lemma Forall_map_iff {A B} (f : A -> B) (P : B -> Prop) l : Forall P (map f l) <-> Forall (fun a => P (f a)) l.
Proof. induction l; simpl; split; intros H; constructor; inversion H; subst; tauto. Qed.

Lemma clean_struct_shell st tn fs :
  clean tn = true -> Forall (fun f => clean (fst f) = true /\ clean (snd f) = true) fs ->
  clean (struct_shell st tn fs) = true.
Proof.
  intros Ht Hf. unfold struct_shell. cln.
  - now destruct (p_sharpV st).
  - apply clean_join; [now destruct (p_sharpV st)|]. apply Forall_map_iff.
    eapply Forall_impl; [|exact Hf]. intros [a b] [Ha Hb]. simpl in *.
    destruct (p_plusV st || p_sharpV st); cln.
Qed.

Lemma clean_map_shell st tn kvs :
  clean tn = true -> Forall (fun f => clean (fst f) = true /\ clean (snd f) = true) kvs ->
  clean (map_shell st tn kvs) = true.
Proof.
  intros Ht Hf. unfold map_shell. cln.
  - destruct (p_sharpV st); cln.
  - apply clean_join; [now destruct (p_sharpV st)|]. apply Forall_map_iff.
    eapply Forall_impl; [|exact Hf]. intros [a b] [Ha Hb]. simpl in *. cln.
  - now destruct (p_sharpV st).
Qed.

Lemma clean_slice_shell st l : Forall (fun s => clean s = true) l -> clean (slice_shell st l) = true.
Proof. intros H. unfold slice_shell. destruct (p_sharpV st); cln; now apply clean_join. Qed.

Ltac leaf :=
  match goal with
  | |- clean (bad_verb _ _ _) = true => apply clean_bad_verb; cln
  | |- clean (go_quote _) = true => apply clean_go_quote; assumption
  | |- clean (hex_str _) = true => apply clean_hex_str
  | |- clean (hex_Z _) = true => apply clean_hex_Z
  | |- clean (dec_Z _) = true => apply clean_dec_Z
  | |- clean (if ?b then _ else _) = true => destruct b; leaf
  | _ => assumption
  end.

Lemma clean_std_str st s : clean s = true -> clean (std_str st s) = true.
Proof.
  intros H. unfold std_str. destruct (p_verb st); leaf.
Qed.

Lemma clean_std_int st z : clean (go_quote_rune (Z.to_N z)) = true -> clean (std_int st z) = true.
Proof.
  intros H. unfold std_int. destruct (p_verb st); leaf.
Qed.

Lemma clean_std_bool st b : clean (std_bool st b) = true.
Proof.
  unfold std_bool. assert (clean (if b then "true" else "false") = true) by now destruct b.
  destruct (p_verb st); leaf.
Qed.

Lemma clean_std_addr st ty : clean ty = true -> clean (std_addr st ty) = true.
Proof. intros H. unfold std_addr. destruct (p_verb st); try reflexivity. destruct (p_sharpV st); cln. Qed.

Lemma type_str_clean v : pclean v = true -> clean (type_str v) = true.
Proof.
  induction v using val_ind'; intros Hp; try reflexivity.
  - destruct t; reflexivity.
  - cbn [type_str]. cln. now apply IHv.
  - simpl in Hp. now apply andb_true_iff in Hp as [Hn _].
  - simpl in Hp. now apply andb_true_iff in Hp as [Hn _].
  - cbn [type_str]. cln. now apply IHv.
  - now apply IHv.
Qed.

Lemma Forall_pick {A} (P : A -> Prop) l order : Forall P l -> Forall P (pick l order).
Proof.
  intros H. unfold pick. induction order as [|i r IH]; simpl; [constructor|].
  apply Forall_app. split; [|exact IH].
  destruct (nth_error l i) eqn:E; [|constructor]. constructor; [|constructor].
  rewrite Forall_forall in H. apply H. eapply nth_error_In. exact E.
Qed.

Lemma fmt_clean : forall v st m top,
  pclean v = true -> wrapped m v = true ->
  (m = false \/ ptr_valid (p_verb st) = true \/ ptrs_guarded top v = true) ->
  clean (fmt_at std st m top v) = true.
Proof.
  induction v using val_ind'; intros st m top Hp Hw Hg.
  - now apply clean_std_str.
  - now apply clean_std_int.
  - apply clean_std_bool.
  - discriminate Hw.
  - (* Redacted *) cbn [fmt_at]. destruct m; [reflexivity|]. simpl in Hw.
    apply clean_struct_shell; [now apply (type_str_clean (VRedacted v))|].
    constructor; [|constructor]. split; [reflexivity|]. simpl. apply IHv; auto.
  - (* struct *) rewrite fmt_struct_eq. simpl in Hp, Hw. apply andb_true_iff in Hp as [Hn Hp].
    rewrite forallb_forall in Hp, Hw. rewrite Forall_forall in H.
    apply clean_struct_shell; [exact Hn|]. apply Forall_map_iff. apply Forall_forall.
    intros [[fn ex] x] Hin. specialize (Hp _ Hin). specialize (Hw _ Hin). simpl in *.
    apply andb_true_iff in Hp as [Hfn Hx]. split; [exact Hfn|].
    apply (H _ Hin); auto. destruct m; [|now left]. destruct ex; [|now left]. right.
    destruct Hg as [Hg|[Hg|Hg]]; [discriminate|now left|right].
    clear -Hg Hin. induction fs as [|[[fn0 ex0] x0] r IH]; [contradiction|].
    apply andb_true_iff in Hg as [G1 G2]. destruct Hin as [E|Hin]; [|now apply IH].
    inversion E; subst. exact G1.
  - (* map *) rewrite fmt_map_eq. simpl in Hp, Hw. apply andb_true_iff in Hp as [Hn Hp].
    rewrite forallb_forall in Hp, Hw. rewrite Forall_forall in H.
    apply clean_map_shell; [exact Hn|]. apply Forall_map_iff. apply Forall_forall.
    intros [k x] Hin. specialize (Hp _ Hin). specialize (Hw _ Hin). simpl in *.
    apply andb_true_iff in Hp as [Hk Hx]. split; [now apply clean_std_str|].
    apply (H _ Hin); auto. destruct m; [|now left]. right.
    destruct Hg as [Hg|[Hg|Hg]]; [discriminate|now left|right].
    clear -Hg Hin. induction kvs as [|[k0 x0] r IH]; [contradiction|].
    apply andb_true_iff in Hg as [G1 G2]. destruct Hin as [E|Hin]; [|now apply IH].
    inversion E; subst. exact G1.
  - (* slice *) rewrite fmt_slice_eq. simpl in Hp, Hw.
    rewrite forallb_forall in Hp, Hw. rewrite Forall_forall in H.
    apply clean_slice_shell. apply Forall_map_iff. apply Forall_forall.
    intros x Hin. apply (H _ Hin); auto. destruct m; [|now left]. right.
    destruct Hg as [Hg|[Hg|Hg]]; [discriminate|now left|right].
    clear -Hg Hin. induction l as [|x0 r IH]; [contradiction|].
    apply andb_true_iff in Hg as [G1 G2]. destruct Hin as [E|Hin]; [|now apply IH]. now subst.
  - (* pointer *)
    cbn [fmt_at]. simpl in Hp. cbn [wrapped] in Hw.
    destruct (m && is_redacted v) eqn:Emr; [reflexivity|]. simpl in Hw.
    pose proof (type_str_clean (VPtr v) Hp) as Ht.
    destruct (top && composite v) eqn:Etc.
    + cln. apply IHv; auto. destruct m; [|now left]. right.
      destruct Hg as [Hg|[Hg|Hg]]; [discriminate|now left|right].
      simpl in Emr. simpl in Hg. rewrite Emr in Hg. apply andb_true_iff in Etc as [-> Ec]. now rewrite Ec in Hg.
    + unfold fmt_pointer. destruct (ptr_valid (p_verb st)) eqn:Ev; [now apply clean_std_addr|].
      apply clean_bad_verb; [exact Ht|].
      destruct (composite v) eqn:Ec; [|now apply clean_std_addr].
      cln. destruct m.
      * destruct Hg as [Hg|[Hg|Hg]]; try discriminate.
        simpl in Emr. simpl in Hg. rewrite Emr, Ec in Hg. apply andb_true_iff in Hg as [-> _]. discriminate.
      * apply IHv; auto.
  - (* interface *) cbn [fmt_at]. simpl in Hp, Hw. apply IHv; auto.
  - (* fields collection *)
    simpl in Hw. apply andb_true_iff in Hw as [-> Hw].
    destruct Hg as [Hg|[Hg|Hg]]; try discriminate.
    simpl in Hp. apply andb_true_iff in Hp as [Hlast Hp]. rewrite forallb_forall in Hp.
    assert (B : forall st0, ptr_valid (p_verb st0) = true -> clean (fields_body std st0 fs last ord) = true).
    { intros st0 Hv. unfold fields_body. apply clean_app_true; [reflexivity|]. apply clean_struct_shell; [reflexivity|].
      constructor; [|constructor; [|constructor]]; (split; [reflexivity|]); simpl.
      - apply clean_map_shell; [reflexivity|]. apply Forall_pick. apply Forall_map_iff. apply Forall_forall.
        intros [k x] Hin. specialize (Hp _ Hin). simpl in Hp.
        apply andb_true_iff in Hp as [Hp Hx]. apply andb_true_iff in Hp as [Hp Hki].
        apply andb_true_iff in Hp as [Hkn Hkt].
        unfold fields_entry, fmt_pointer. simpl fst. simpl snd. rewrite Hv. split.
        + apply clean_std_addr. cln.
        + apply clean_struct_shell; [reflexivity|].
          constructor; [|constructor; [|constructor]]; (split; [reflexivity|]); simpl.
          * apply clean_std_addr. cln.
          * now apply clean_std_int.
      - now apply clean_std_int. }
    rewrite fmt_fields_eq. destruct top; [now apply B|].
    unfold fmt_pointer. rewrite Hg. now apply clean_std_addr.
Qed.

(* ---- json ---- *)
Section JsonInd.
Variable P : json -> Prop.
Hypothesis Hnull : P JNull.
Hypothesis Hbool : forall b, P (JBool b).
Hypothesis Hnum : forall z, P (JNum z).
Hypothesis Hraw : forall s, P (JRaw s).
Hypothesis Hstr : forall s, P (JStr s).
Hypothesis Harr : forall l, Forall P l -> P (JArr l).
Hypothesis Hobj : forall kvs, Forall (fun kv => P (snd kv)) kvs -> P (JObj kvs).
Hypothesis Hhtml : forall j, P j -> P (JHtml j).
Fixpoint json_ind' (j : json) : P j :=
  match j with
  | JNull => Hnull | JBool b => Hbool b | JNum z => Hnum z | JRaw s => Hraw s | JStr s => Hstr s
  | JArr l => Harr l ((fix go (l : list json) : Forall P l :=
                         match l with [] => Forall_nil _ | x :: r => Forall_cons x (json_ind' x) (go r) end) l)
  | JObj kvs => Hobj kvs ((fix go (kvs : list (string * json)) : Forall (fun kv => P (snd kv)) kvs :=
                             match kvs with [] => Forall_nil _ | kv :: r => Forall_cons kv (json_ind' (snd kv)) (go r) end) kvs)
  | JHtml x => Hhtml x (json_ind' x)
  end.
End JsonInd.

Fixpoint jclean (j : json) : bool :=
  match j with
  | JRaw s | JStr s => clean s
  | JArr l => forallb jclean l
  | JObj kvs => forallb (fun kv => clean (fst kv) && jclean (snd kv)) kvs
  | JHtml x => jclean x
  | _ => true
  end.

Lemma json_arr_eq html l : json_render html (JArr l) = ("[" ++ join "," (map (json_render html) l) ++ "]")%string.
Proof. reflexivity. Qed.

Definition member_text html (kv : string * json) : string :=
  (json_string html (fst kv) ++ ":" ++ json_render html (snd kv))%string.

Lemma json_obj_eq html kvs :
  json_render html (JObj kvs) = ("{" ++ join "," (map (member_text html) kvs) ++ "}")%string.
Proof.
  assert (E : (fix go (kvs : list (string * json)) : list string :=
                 match kvs with
                 | [] => []
                 | (k, x) :: r => (json_string html k ++ ":" ++ json_render html x)%string :: go r
                 end) kvs = map (member_text html) kvs).
  { induction kvs as [|[k x] r IH]; [reflexivity|]. simpl. f_equal. exact IH. }
  cbn [json_render]. rewrite E. reflexivity.
Qed.

Lemma json_render_clean : forall j html, jclean j = true -> clean (json_render html j) = true.
Proof.
  induction j using json_ind'; intros html Hj; try reflexivity.
  - now destruct b.
  - apply clean_dec_Z.
  - exact Hj.
  - now apply clean_json_string.
  - rewrite json_arr_eq. simpl in Hj. rewrite forallb_forall in Hj. rewrite Forall_forall in H.
    cln. apply clean_join; [reflexivity|]. apply Forall_map_iff. apply Forall_forall. intros x Hin.
    apply (H _ Hin). now apply Hj.
  - rewrite json_obj_eq. simpl in Hj. rewrite forallb_forall in Hj. rewrite Forall_forall in H.
    cln. apply clean_join; [reflexivity|]. apply Forall_map_iff. apply Forall_forall. intros [k x] Hin.
    specialize (Hj _ Hin). simpl in Hj. apply andb_true_iff in Hj as [Hk Hx].
    unfold member_text. cbn [fst snd]. apply clean_app_true; [now apply clean_json_string|].
    apply clean_app_true; [reflexivity|]. now apply (H _ Hin).
  - simpl. now apply IHj.
Qed.

Lemma ins_sorted_clean k x l :
  clean k = true -> jclean x = true ->
  forallb (fun kv => clean (fst kv) && jclean (snd kv)) l = true ->
  forallb (fun kv => clean (fst kv) && jclean (snd kv)) (ins_sorted k x l) = true.
Proof.
  intros Hk Hx. induction l as [|[k' y] r IH]; simpl; intros Hl.
  - now rewrite Hk, Hx.
  - apply andb_true_iff in Hl as [H1 H2]. destruct (String.compare k k'); simpl.
    + now rewrite Hk, Hx, H2.
    + now rewrite Hk, Hx, H1, H2.
    + now rewrite H1, IH.
Qed.

Lemma to_json_clean : forall v, pclean v = true -> wrapped true v = true -> jclean (to_json v) = true.
Proof.
  induction v using val_ind'; intros Hp Hw; try reflexivity.
  - exact Hp.
  - discriminate Hw.
  - rewrite json_struct_eq. simpl in *. apply andb_true_iff in Hp as [_ Hp].
    rewrite forallb_forall in Hp, Hw. rewrite Forall_forall in H.
    apply forallb_forall. intros [k j] Hin. apply in_flat_map in Hin as ([[fn ex] x] & Hin & Hj).
    unfold json_field in Hj. simpl in Hj. destruct ex; [|contradiction]. destruct Hj as [E|[]].
    inversion E; subst. specialize (Hp _ Hin). specialize (Hw _ Hin). simpl in *.
    apply andb_true_iff in Hp as [Hfn Hx]. rewrite Hfn. simpl. now apply (H _ Hin).
  - rewrite json_map_eq. simpl in *. apply andb_true_iff in Hp as [_ Hp].
    rewrite forallb_forall in Hp, Hw. rewrite Forall_forall in H.
    apply forallb_forall. intros [k j] Hin. apply in_map_iff in Hin as ([k' x] & E & Hin).
    inversion E; subst. specialize (Hp _ Hin). specialize (Hw _ Hin). simpl in *.
    apply andb_true_iff in Hp as [Hk Hx]. rewrite Hk. simpl. now apply (H _ Hin).
  - rewrite json_slice_eq. simpl in *. rewrite forallb_forall in Hp, Hw. rewrite Forall_forall in H.
    apply forallb_forall. intros j Hin. apply in_map_iff in Hin as (x & <- & Hin). apply (H _ Hin); auto.
  - simpl in *. destruct (is_redacted v) eqn:Er.
    + destruct v; try discriminate. reflexivity.
    + simpl in Hw. now apply IHv.
  - simpl in *. now apply IHv.
  - rewrite json_fields_eq. simpl in Hp, Hw. apply andb_true_iff in Hp as [_ Hp].
    rewrite forallb_forall in Hp, Hw. rewrite Forall_forall in H. cbn [jclean].
    assert (G : forall acc, forallb (fun kv => clean (fst kv) && jclean (snd kv)) acc = true ->
                (forall kv, In kv fs -> In kv fs) ->
                forallb (fun kv => clean (fst kv) && jclean (snd kv)) (fold_left json_ins fs acc) = true).
    { clear last ord. intros acc Hacc _. revert acc Hacc.
      assert (Hall : forall kv, In kv fs -> clean (k_name (fst kv)) = true /\ jclean (to_json (snd kv)) = true).
      { intros [k x] Hin. specialize (Hp _ Hin). specialize (Hw _ Hin). simpl in *.
        apply andb_true_iff in Hp as [Hp Hx]. apply andb_true_iff in Hp as [Hp _].
        apply andb_true_iff in Hp as [Hkn _]. split; [exact Hkn|]. now apply (H _ Hin). }
      clear Hp Hw H. induction fs as [|kv r IH]; intros acc Hacc; [exact Hacc|]. simpl.
      apply IH.
      - intros kv' Hin'. apply Hall. now right.
      - destruct (Hall kv (or_introl eq_refl)) as [A B]. unfold json_ins. now apply ins_sorted_clean. }
    apply G; auto.
Qed.

Lemma json_value_clean v : pclean v = true -> wrapped true v = true -> clean (json_value v) = true.
Proof. intros. unfold json_value. apply json_render_clean. now apply to_json_clean. Qed.

(* ---- slog ---- *)
Section LvInd.
Variable P : lv -> Prop.
Hypothesis Hs : forall s, P (LStr s).
Hypothesis Hi : forall z, P (LInt z).
Hypothesis Hb : forall b, P (LBool b).
Hypothesis Hr : forall s, P (LRaw s).
Hypothesis Ha : forall v, P (LAny v).
Hypothesis Hg : forall attrs, Forall (fun ky => P (snd ky)) attrs -> P (LGroup attrs).
Fixpoint lv_ind' (x : lv) : P x :=
  match x with
  | LStr s => Hs s | LInt z => Hi z | LBool b => Hb b | LRaw s => Hr s | LAny v => Ha v
  | LGroup attrs =>
      Hg attrs ((fix go (attrs : list (string * lv)) : Forall (fun ky => P (snd ky)) attrs :=
                   match attrs with [] => Forall_nil _ | ky :: r => Forall_cons ky (lv_ind' (snd ky)) (go r) end) attrs)
  end.
End LvInd.

Fixpoint lvclean (x : lv) : bool :=
  match x with
  | LStr s | LRaw s => clean s
  | LAny v => pclean v && wrapped true v
  | LGroup attrs => forallb (fun ky => clean (fst ky) && lvclean (snd ky)) attrs
  | _ => true
  end.

Lemma plusv_clean v : pclean v = true -> wrapped true v = true -> clean (fmt_value std plusv v) = true.
Proof. intros. unfold fmt_value. apply fmt_clean; auto. Qed.

Lemma log_text_clean : forall x prefix key,
  lvclean x = true -> clean prefix = true -> clean key = true -> clean (log_text prefix key x) = true.
Proof.
  induction x using lv_ind'; intros prefix key Hx Hp Hk.
  - cbn [log_text]. simpl in Hx. cln. now apply clean_text_quote.
  - cbn [log_text]. cln.
  - cbn [log_text]. cln. now destruct b.
  - cbn [log_text]. simpl in Hx. cln.
  - cbn [log_text]. simpl in Hx. apply andb_true_iff in Hx as [A B]. cln.
    apply clean_text_quote. now apply plusv_clean.
  - rewrite log_text_group. simpl in Hx. rewrite forallb_forall in Hx. rewrite Forall_forall in H.
    assert (Hpk : clean (prefix ++ key ++ ".") = true) by cln.
    generalize dependent (prefix ++ key ++ ".")%string. intros pk Hpk.
    induction attrs as [|[k y] r IH]; [reflexivity|]. cbn [group_text].
    assert (Hky := Hx _ (or_introl eq_refl)). simpl in Hky. apply andb_true_iff in Hky as [Hk1 Hy].
    apply clean_app_true.
    + apply (H (k, y)); [now left|exact Hy|exact Hpk|exact Hk1].
    + apply IH; [intros x Hin; apply H; now right | intros x Hin; apply Hx; now right].
Qed.

Lemma log_json_clean : forall x, lvclean x = true -> clean (log_json x) = true.
Proof.
  induction x using lv_ind'; intros Hx.
  - simpl in *. now apply clean_json_string.
  - simpl. apply clean_dec_Z.
  - simpl. now destruct b.
  - exact Hx.
  - simpl in *. apply andb_true_iff in Hx as [A B]. apply json_render_clean. now apply to_json_clean.
  - rewrite log_json_group. simpl in Hx. rewrite forallb_forall in Hx. rewrite Forall_forall in H.
    cln. apply clean_join; [reflexivity|]. apply Forall_map_iff. apply Forall_forall. intros [k y] Hin.
    specialize (Hx _ Hin). simpl in Hx. apply andb_true_iff in Hx as [Hk Hy].
    unfold attr_json. cbn [fst snd]. apply clean_app_true; [now apply clean_json_string|].
    apply clean_app_true; [reflexivity|]. now apply (H _ Hin).
Qed.

Lemma log_value_clean v : pclean v = true -> wrapped true v = true -> lvclean (log_value v) = true.
Proof.
  intros Hp Hw.
  assert (A : lvclean (LAny v) = true). { cbn [lvclean]. now rewrite Hp, Hw. }
  destruct v; try exact A; try reflexivity.
  - exact Hp.
  - discriminate Hw.
  - rewrite log_value_ptr. destruct (is_redacted v); [reflexivity|exact A].
Qed.

Lemma log_line_text_clean key x : lvclean x = true -> clean key = true -> clean (log_line_text key x) = true.
Proof.
  intros Hx Hk. unfold log_line_text. cln. destruct (lv_empty x); [reflexivity|]. now apply log_text_clean.
Qed.

Lemma log_line_json_clean key x : lvclean x = true -> clean key = true -> clean (log_line_json key x) = true.
Proof.
  intros Hx Hk. unfold log_line_json. cln. destruct (lv_empty x); [reflexivity|].
  apply clean_app_true; [reflexivity|]. apply clean_app_true; [now apply clean_json_string|].
  apply clean_app_true; [reflexivity|]. now apply log_json_clean.
Qed.

(* ---- the fields and the error ---- *)

Lemma wf_fields_all fs last : wf_fields fs last = true ->
  forall kv, In kv fs -> clean (k_name (fst kv)) = true /\ pclean (snd kv) = true /\ wrapped true (snd kv) = true.
Proof.
  unfold wf_fields. intros H kv Hin. apply andb_true_iff in H as [Hp Hw]. simpl in Hp.
  apply andb_true_iff in Hp as [_ Hp]. rewrite forallb_forall in Hp, Hw.
  specialize (Hp _ Hin). specialize (Hw _ Hin).
  apply andb_true_iff in Hp as [Hp Hx]. apply andb_true_iff in Hp as [Hp _]. apply andb_true_iff in Hp as [Hn _].
  auto.
Qed.

Lemma wf_fields_obj fs last : wf_fields fs last = true ->
  pclean (fields_obj fs last) = true /\ wrapped true (fields_obj fs last) = true.
Proof. unfold wf_fields, fields_obj. intros H. apply andb_true_iff in H as [Hp Hw]. split; [exact Hp|exact Hw]. Qed.

Lemma fields_log_clean fs last : wf_fields fs last = true -> lvclean (fields_log fs) = true.
Proof.
  intros H. unfold fields_log. simpl. apply forallb_forall. intros [k y] Hin.
  apply in_map_iff in Hin as (kv & E & Hin). inversion E; subst.
  destruct (wf_fields_all _ _ H _ Hin) as (A & B & C). simpl. rewrite A. simpl. now apply log_value_clean.
Qed.

Lemma split_on_clean c s : clean s = true -> Forall (fun x => clean x = true) (split_on c s).
Proof.
  induction s as [|a r IH]; intros H; [repeat constructor|].
  cbn [clean] in H. apply andb_true_iff in H as [Ha Hr]. specialize (IH Hr). cbn [split_on].
  destruct (Ascii.eqb a c); [now constructor|].
  destruct (split_on c r) as [|x t]; constructor; try constructor.
  - simpl. now rewrite Ha.
  - inversion IH; subst. simpl. now rewrite Ha.
  - now inversion IH.
Qed.

Lemma detail_value_clean indent v :
  clean indent = true -> pclean v = true -> wrapped true v = true -> clean (detail_value indent v) = true.
Proof.
  intros Hi Hp Hw. unfold detail_value. pose proof (plusv_clean v Hp Hw) as Hs.
  destruct (contains nl (fmt_value std plusv v)); [|exact Hs]. cln.
  apply clean_concat. apply Forall_map_iff. eapply Forall_impl; [|apply split_on_clean; exact Hs].
  intros line Hl. simpl. cln.
Qed.

Lemma details_fields_clean indent fs last :
  clean indent = true -> wf_fields fs last = true -> clean (details_fields indent fs) = true.
Proof.
  intros Hi Hw. unfold details_fields. destruct fs as [|kv0 r0] eqn:E; [reflexivity|]. rewrite <- E in *.
  cln. apply clean_concat. apply Forall_map_iff. apply Forall_forall. intros [k x] Hin.
  destruct (wf_fields_all _ _ Hw _ Hin) as (A & B & C). simpl in *. cln. now apply detail_value_clean.
Qed.

Lemma details_clean indent m k fs last hc :
  clean indent = true -> clean m = true -> clean k = true -> wf_fields fs last = true ->
  clean (details indent m k fs hc) = true.
Proof.
  intros Hi Hm Hk Hw. unfold details. cln.
  - destruct (negb (str_eqb k "") || negb (Nat.eqb (List.length fs) 0) || hc); cln.
  - destruct (str_eqb k ""); cln.
  - now apply (details_fields_clean indent fs last).
Qed.

Lemma causes_header_clean indent n : clean indent = true -> clean (causes_header indent n) = true.
Proof. intros. unfold causes_header. cln. destruct (Nat.eqb n 1); cln. apply clean_dec_nat. Qed.

Fixpoint eclean (e : err) : bool :=
  match e with
  | EDef m k fs last cs => clean m && clean k && wf_fields fs last && forallb eclean cs
  | EOther m t cs => clean m && clean t && forallb eclean cs
  end.

Lemma format_nodes_clean cs :
  Forall (fun c => forall ind, clean ind = true -> clean (node_body ind c) = true) cs ->
  forall indent i, clean indent = true -> clean (format_nodes indent i cs) = true.
Proof.
  induction 1 as [|c r Hc _ IH]; intros indent i Hi; [reflexivity|]. cbn [format_nodes]. cln.
  - apply clean_dec_nat.
  - now apply Hc.
  - now apply IH.
Qed.

Lemma node_body_clean : forall e indent, eclean e = true -> clean indent = true -> clean (node_body indent e) = true.
Proof.
  induction e using err_ind'; intros indent He Hi; rewrite node_body_eq; cbv zeta; simpl in He.
  - apply andb_true_iff in He as [He Hcs]. apply andb_true_iff in He as [He Hw]. apply andb_true_iff in He as [Hm Hk].
    assert (Hind : clean (indent ++ "    ") = true) by cln.
    apply clean_app_true; [now apply (details_clean _ _ _ _ last)|].
    destruct (nonempty cs); [|reflexivity]. apply clean_app_true; [now apply causes_header_clean|].
    apply format_nodes_clean; [|exact Hind]. rewrite forallb_forall in Hcs. rewrite Forall_forall in H |- *.
    intros c Hin ind Hc. apply (H _ Hin); auto.
  - apply andb_true_iff in He as [He Hcs]. apply andb_true_iff in He as [Hm Ht].
    assert (Hind : clean (indent ++ "    ") = true) by cln.
    apply clean_app_true; [exact Hm|]. destruct (nonempty cs); [|reflexivity].
    apply clean_app_true; [reflexivity|]. apply clean_app_true; [exact Hind|].
    apply clean_app_true; [reflexivity|]. apply clean_app_true; [now apply causes_header_clean|].
    apply format_nodes_clean; [|exact Hind]. rewrite forallb_forall in Hcs. rewrite Forall_forall in H |- *.
    intros c Hin ind Hc. apply (H _ Hin); auto.
Qed.

Lemma err_plusv_clean e : eclean e = true -> clean (err_plusv e) = true.
Proof.
  destruct e; intros He; simpl in He; unfold err_plusv.
  - apply andb_true_iff in He as [He Hcs]. apply andb_true_iff in He as [He Hw]. apply andb_true_iff in He as [Hm Hk].
    apply clean_app_true; [now apply (details_clean _ _ _ _ last)|].
    destruct (nonempty causes); [|reflexivity]. apply clean_app_true; [now apply causes_header_clean|].
    apply format_nodes_clean; [|reflexivity]. rewrite forallb_forall in Hcs. apply Forall_forall.
    intros c Hin ind Hc. apply node_body_clean; auto.
  - apply andb_true_iff in He as [He _]. now apply andb_true_iff in He as [Hm _].
Qed.

Lemma jclean_app a b :
  forallb (fun kv : string * json => clean (fst kv) && jclean (snd kv)) (a ++ b) =
  forallb (fun kv => clean (fst kv) && jclean (snd kv)) a && forallb (fun kv => clean (fst kv) && jclean (snd kv)) b.
Proof. apply forallb_app. Qed.

Definition jm_ok (kv : string * json) : bool := clean (fst kv) && jclean (snd kv).
Definition lm_ok (ky : string * lv) : bool := clean (fst ky) && lvclean (snd ky).
Definition pm_ok (kv : string * val) : bool := clean (fst kv) && pclean (snd kv).
Definition wm_ok (kv : string * val) : bool := wrapped true (snd kv).

Lemma one_ok {A} (f : A -> bool) x : f x = true -> forallb f [x] = true.
Proof. intros H. simpl. now rewrite H. Qed.

Lemma causes_json_clean cs :
  Forall (fun c => jclean (err_json c) = true) cs -> forallb jm_ok (causes_json cs) = true.
Proof.
  intros H. unfold causes_json. destruct cs as [|c r] eqn:E; [reflexivity|]. rewrite <- E in *.
  apply one_ok. unfold jm_ok. cbn [fst snd jclean]. apply forallb_forall. intros j Hin.
  apply in_map_iff in Hin as (c0 & <- & Hin). rewrite Forall_forall in H. now apply H.
Qed.

Lemma err_json_clean : forall e, eclean e = true -> jclean (err_json e) = true.
Proof.
  induction e using err_ind'; intros He; rewrite err_json_eq; simpl in He.
  - apply andb_true_iff in He as [He Hcs]. apply andb_true_iff in He as [He Hw]. apply andb_true_iff in He as [Hm Hk].
    assert (A1 : forallb jm_ok [("message", JStr m)] = true) by (apply one_ok; unfold jm_ok; simpl; exact Hm).
    assert (A2 : forallb jm_ok (if str_eqb k "" then [] else [("kind", JStr k)]) = true).
    { destruct (str_eqb k ""); [reflexivity|]. apply one_ok. unfold jm_ok. simpl. exact Hk. }
    assert (A3 : forallb jm_ok (match fs with [] => [] | _ => [("fields", to_json (fields_obj fs last))] end) = true).
    { destruct (wf_fields_obj _ _ Hw) as [A B]. pose proof (to_json_clean _ A B) as J.
      destruct fs; [reflexivity|]. apply one_ok. unfold jm_ok. cbn [fst snd]. now rewrite J. }
    assert (A4 : forallb jm_ok (causes_json cs) = true).
    { apply causes_json_clean. rewrite forallb_forall in Hcs. rewrite Forall_forall in H |- *.
      intros c Hin. apply (H _ Hin). now apply Hcs. }
    change (forallb jm_ok ([("message", JStr m)] ++ (if str_eqb k "" then [] else [("kind", JStr k)]) ++
              (match fs with [] => [] | _ => [("fields", to_json (fields_obj fs last))] end) ++ causes_json cs) = true).
    now rewrite !forallb_app, A1, A2, A3, A4.
  - apply andb_true_iff in He as [He Hcs]. apply andb_true_iff in He as [Hm Ht].
    assert (A1 : forallb jm_ok [("message", JStr m); ("type", JStr t)] = true).
    { unfold jm_ok. simpl. now rewrite Hm, Ht. }
    assert (A4 : forallb jm_ok (causes_json cs) = true).
    { apply causes_json_clean. rewrite forallb_forall in Hcs. rewrite Forall_forall in H |- *.
      intros c Hin. apply (H _ Hin). now apply Hcs. }
    change (forallb jm_ok ([("message", JStr m); ("type", JStr t)] ++ causes_json cs) = true).
    now rewrite forallb_app, A1, A4.
Qed.

Lemma fields_attr_clean fs last : wf_fields fs last = true ->
  forallb lm_ok (match fs with [] => [] | _ => [("fields", fields_log fs)] end) = true.
Proof.
  intros Hw. pose proof (fields_log_clean _ _ Hw) as Hl. destruct fs; [reflexivity|].
  apply one_ok. unfold lm_ok. cbn [fst snd]. now rewrite Hl.
Qed.

Lemma kind_attr_clean k : clean k = true ->
  forallb lm_ok (if str_eqb k "" then [] else [("kind", LStr k)]) = true.
Proof. intros Hk. destruct (str_eqb k ""); [reflexivity|]. apply one_ok. unfold lm_ok. simpl. exact Hk. Qed.

Lemma msg_attr_clean m : clean m = true -> forallb lm_ok [("message", LStr m)] = true.
Proof. intros Hm. apply one_ok. unfold lm_ok. simpl. exact Hm. Qed.

Lemma err_log_clean e : eclean e = true -> lvclean (err_log e) = true.
Proof.
  destruct e; simpl eclean; intros He.
  - apply andb_true_iff in He as [He Hcs]. apply andb_true_iff in He as [He Hw]. apply andb_true_iff in He as [Hm Hk].
    unfold err_log.
    change (forallb lm_ok ([("message", LStr msg)] ++ (if str_eqb kind "" then [] else [("kind", LStr kind)]) ++
              (match fs with [] => [] | _ => [("fields", fields_log fs)] end)) = true).
    now rewrite !forallb_app, (msg_attr_clean _ Hm), (kind_attr_clean _ Hk), (fields_attr_clean _ _ Hw).
  - apply andb_true_iff in He as [He _]. apply andb_true_iff in He as [Hm _]. simpl. now rewrite Hm.
Qed.

Lemma causes_any_clean cs :
  Forall (fun c => pclean (node_any c) = true /\ wrapped true (node_any c) = true) cs ->
  forallb pm_ok (causes_any cs) = true /\ forallb wm_ok (causes_any cs) = true.
Proof.
  intros Hc. unfold causes_any. destruct cs as [|c r] eqn:E; [now split|]. rewrite <- E in *.
  rewrite Forall_forall in Hc. split; apply one_ok.
  - unfold pm_ok. cbn [fst snd pclean]. apply forallb_forall. intros x Hin.
    apply in_map_iff in Hin as (c0 & <- & Hin). cbn [pclean]. now apply Hc.
  - unfold wm_ok. cbn [snd wrapped]. apply forallb_forall. intros x Hin.
    apply in_map_iff in Hin as (c0 & <- & Hin). cbn [wrapped]. now apply Hc.
Qed.

Lemma node_any_clean : forall e, eclean e = true -> pclean (node_any e) = true /\ wrapped true (node_any e) = true.
Proof.
  induction e using err_ind'; intros He; rewrite node_any_eq; simpl in He.
  - apply andb_true_iff in He as [He Hcs]. apply andb_true_iff in He as [He Hw]. apply andb_true_iff in He as [Hm Hk].
    assert (Hc : Forall (fun c => pclean (node_any c) = true /\ wrapped true (node_any c) = true) cs).
    { rewrite forallb_forall in Hcs. rewrite Forall_forall in H |- *. intros c Hin. apply (H _ Hin). now apply Hcs. }
    destruct (causes_any_clean _ Hc) as [C1 C2]. destruct (wf_fields_obj _ _ Hw) as [A B].
    assert (F1 : forallb pm_ok (match fs with [] => [] | _ => [("fields", VIface (fields_obj fs last))] end) = true).
    { destruct fs; [reflexivity|]. apply one_ok. unfold pm_ok. cbn [fst snd pclean]. now rewrite A. }
    assert (F2 : forallb wm_ok (match fs with [] => [] | _ => [("fields", VIface (fields_obj fs last))] end) = true).
    { destruct fs; [reflexivity|]. apply one_ok. unfold wm_ok. cbn [snd wrapped]. exact B. }
    assert (K1 : forallb pm_ok (if str_eqb k "" then [] else [("kind", VIface (VStr k))]) = true).
    { destruct (str_eqb k ""); [reflexivity|]. apply one_ok. unfold pm_ok. simpl. exact Hk. }
    assert (K2 : forallb wm_ok (if str_eqb k "" then [] else [("kind", VIface (VStr k))]) = true).
    { now destruct (str_eqb k ""). }
    assert (M1 : forallb pm_ok [("message", VIface (VStr m))] = true).
    { apply one_ok. unfold pm_ok. simpl. exact Hm. }
    split.
    + change (clean "map[string]interface {}" &&
              forallb pm_ok (causes_any cs ++ (match fs with [] => [] | _ => [("fields", VIface (fields_obj fs last))] end) ++
                             (if str_eqb k "" then [] else [("kind", VIface (VStr k))]) ++ [("message", VIface (VStr m))]) = true).
      now rewrite !forallb_app, C1, F1, K1, M1.
    + change (forallb wm_ok (causes_any cs ++ (match fs with [] => [] | _ => [("fields", VIface (fields_obj fs last))] end) ++
                             (if str_eqb k "" then [] else [("kind", VIface (VStr k))]) ++ [("message", VIface (VStr m))]) = true).
      now rewrite !forallb_app, C2, F2, K2.
  - apply andb_true_iff in He as [He Hcs]. apply andb_true_iff in He as [Hm Ht].
    assert (Hc : Forall (fun c => pclean (node_any c) = true /\ wrapped true (node_any c) = true) cs).
    { rewrite forallb_forall in Hcs. rewrite Forall_forall in H |- *. intros c Hin. apply (H _ Hin). now apply Hcs. }
    destruct (causes_any_clean _ Hc) as [C1 C2].
    assert (M1 : forallb pm_ok [("message", VIface (VStr m))] = true).
    { apply one_ok. unfold pm_ok. simpl. exact Hm. }
    split.
    + change (clean "map[string]interface {}" && forallb pm_ok (causes_any cs ++ [("message", VIface (VStr m))]) = true).
      now rewrite forallb_app, C1, M1.
    + change (forallb wm_ok (causes_any cs ++ [("message", VIface (VStr m))]) = true).
      now rewrite forallb_app, C2.
Qed.

Lemma causes_attr_clean cs : forallb eclean cs = true ->
  forallb lm_ok (match cs with [] => [] | _ => [("causes", LAny (VSlice (map (fun c => VIface (node_any c)) cs)))] end) = true.
Proof.
  intros Hcs. destruct cs as [|c r] eqn:E; [reflexivity|]. rewrite <- E in *.
  apply one_ok. unfold lm_ok. cbn [fst snd lvclean pclean wrapped]. rewrite forallb_forall in Hcs.
  apply andb_true_iff. split; [|apply andb_true_iff; split]; try reflexivity; apply forallb_forall; intros x Hin;
    apply in_map_iff in Hin as (c0 & <- & Hin); [cbn [pclean]|cbn [wrapped]]; now apply node_any_clean, Hcs.
Qed.

Lemma node_log_clean e : eclean e = true -> lvclean (node_log e) = true.
Proof.
  destruct e; simpl eclean; intros He.
  - apply andb_true_iff in He as [He Hcs]. apply andb_true_iff in He as [He Hw]. apply andb_true_iff in He as [Hm Hk].
    unfold node_log.
    change (forallb lm_ok ([("message", LStr msg)] ++ (if str_eqb kind "" then [] else [("kind", LStr kind)]) ++
              (match fs with [] => [] | _ => [("fields", fields_log fs)] end) ++
              (match causes with [] => [] | _ => [("causes", LAny (VSlice (map (fun c => VIface (node_any c)) causes)))] end)) = true).
    now rewrite !forallb_app, (msg_attr_clean _ Hm), (kind_attr_clean _ Hk), (fields_attr_clean _ _ Hw), (causes_attr_clean _ Hcs).
  - apply andb_true_iff in He as [He Hcs]. apply andb_true_iff in He as [Hm Ht].
    unfold node_log.
    change (forallb lm_ok ([("message", LStr msg)] ++
              (match causes with [] => [] | _ => [("causes", LAny (VSlice (map (fun c => VIface (node_any c)) causes)))] end)) = true).
    now rewrite forallb_app, (msg_attr_clean _ Hm), (causes_attr_clean _ Hcs).
Qed.

(* ------------------------------------------------------------------ *)
(* link to the check                                                   *)

Lemma wf_inside c : wf c = true -> inside c = true -> wf_fields (c_fields c) (c_last c) = true.
Proof.
  unfold wf, inside, wf_fields. intros Hw Hin. apply andb_true_iff in Hw as [Hp Hw].
  apply andb_true_iff in Hin as [Hh _]. apply negb_true_iff in Hh. rewrite Hh in Hw. simpl in Hw.
  now rewrite Hp, Hw.
Qed.

Lemma the_val_wf c : wf_fields (c_fields c) (c_last c) = true ->
  pclean (the_val c) = true /\ wrapped true (the_val c) = true.
Proof.
  intros Hw. unfold the_val. destruct (nth_error (c_fields c) (c_sec c)) as [kv|] eqn:E; [|now split].
  destruct (wf_fields_all _ _ Hw kv (nth_error_In _ _ E)) as (_ & A & B). now split.
Qed.

Lemma carrier_clean c : wf_fields (c_fields c) (c_last c) = true -> eclean (carrier c) = true.
Proof. intros Hw. unfold carrier. simpl. now rewrite Hw. Qed.

Lemma top_err_clean c : wf_fields (c_fields c) (c_last c) = true -> eclean (top_err c) = true.
Proof.
  intros Hw. pose proof (carrier_clean c Hw) as Hc. unfold top_err.
  destruct (c_pos c) as [|[|n]]; [exact Hc| |]; simpl; simpl in Hc; now rewrite Hc.
Qed.

Lemma slots_clean fs last : wf_fields fs last = true ->
  clean (String.concat "" (map slot_text (restore_fields conv_all fs last))) = true.
Proof.
  intros Hw. destruct (wf_fields_obj _ _ Hw) as [A B]. pose proof (to_json_clean _ A B) as J.
  unfold restore_fields. unfold fields_obj in *. rewrite json_fields_eq in *. cbn [obj_entries jclean] in *.
  rewrite forallb_forall in J. apply clean_concat. apply Forall_map_iff. apply Forall_map_iff.
  apply Forall_forall. intros [n j] Hin. specialize (J _ Hin). simpl in J. apply andb_true_iff in J as [Hn Hj].
  unfold slot_text. cbn [fst snd]. unfold restore_field, conv_all.
  destruct j; try (cln; fail).
  destruct (str_eqb s placeholder); cln.
Qed.

(* [injection] would normalise the model's text; this only names it *)
Ltac getm M :=
  match type of M with
  | Some ?a = Some ?b => let E := fresh "E" in assert (E : b = a) by congruence; rewrite E; clear E M
  end.

(* the text the model gives for a literally modelled sink contains no "<", hence no marker *)
Lemma model_clean c s : wf c = true -> inside c = true -> model c = Some s -> clean s = true.
Proof.
  intros Hw0 Hin M. pose proof (wf_inside c Hw0 Hin) as Hw. destruct (the_val_wf c Hw) as [Vp Vw].
  pose proof (top_err_clean c Hw) as Et. pose proof (carrier_clean c Hw) as Ec.
  pose proof Hw as Hwf. destruct (wf_fields_obj _ _ Hwf) as [Fp Fw].
  unfold inside in Hin. apply andb_true_iff in Hin as [_ Hout]. apply negb_true_iff in Hout.
  unfold model in M. destruct (c_sink c) as [t sp|t|t|t| | |t|t|s0| | | |t'] eqn:S; try discriminate.
  - (* fmt *)
    destruct t; try discriminate.
    + destruct (negb (c_trace c) && plain sp && is_plusv sp); [|discriminate]. getm M.
      now apply err_plusv_clean.
    + destruct (plain sp && _); [|discriminate]. getm M.
      unfold fmt_value. apply fmt_clean; auto. right. rewrite init_verb.
      simpl in Hout. destruct (ptr_valid (f_verb sp)); [now left|right].
      simpl in Hout. now apply negb_false_iff in Hout.
  - (* json *)
    destruct t; try discriminate.
    + destruct (negb (c_trace c)); [|discriminate]. getm M. apply json_render_clean. now apply err_json_clean.
    + getm M. now apply json_value_clean.
    + destruct (negb (c_trace c)); [|discriminate]. getm M. apply json_render_clean. now apply err_json_clean.
    + destruct (negb (c_trace c)); [|discriminate]. getm M. apply json_render_clean. now apply err_json_clean.
    + getm M. now apply json_value_clean.
  - (* text *) unfold marshal_text in M. destruct (the_val c) as [| | | |p| | | |x| |]; try discriminate.
    + getm M. reflexivity.
    + destruct x; try discriminate. getm M. reflexivity.
  - (* binary *) unfold marshal_binary, marshal_text in M. destruct (the_val c) as [| | | |p| | | |x| |]; try discriminate.
    + getm M. reflexivity.
    + destruct x; try discriminate. getm M. reflexivity.
  - (* slog text *)
    destruct t; try discriminate; try (destruct (negb (c_trace c)); [|discriminate]); getm M;
      apply log_line_text_clean; try reflexivity.
    + now apply err_log_clean.
    + now apply (fields_log_clean _ (c_last c)).
    + now apply node_log_clean.
    + now apply node_log_clean.
    + now apply log_value_clean.
  - (* slog json *)
    destruct t; try discriminate; try (destruct (negb (c_trace c)); [|discriminate]); getm M;
      apply log_line_json_clean; try reflexivity.
    + now apply err_log_clean.
    + now apply (fields_log_clean _ (c_last c)).
    + now apply node_log_clean.
    + now apply node_log_clean.
    + now apply log_value_clean.
  - (* round trip slots *) getm M. apply clean_app_true; [reflexivity|]. now apply slots_clean.
  - (* value still *) getm M. reflexivity.
Qed.

(* an observation that agrees with the model, on a case inside the statement, contains no
   marker and is the same for both secrets *)
Lemma corr_implies_ok_secret c :
  inside c = true -> model c <> None -> corr c = true -> ok_secret c = true.
Proof.
  intros Hin Hm Hc. unfold corr in Hc. apply andb_true_iff in Hc as [Hw Hc].
  destruct (model c) as [s|] eqn:M; [|now elim Hm].
  apply andb_true_iff in Hc as [E1 E2]. apply str_eqb_eq in E1, E2.
  pose proof (clean_no_mark _ (model_clean c s Hw Hin M)) as Hn.
  unfold ok_secret. now rewrite E1, E2, Hn, str_eqb_refl.
Qed.
