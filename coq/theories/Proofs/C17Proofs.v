From Errdef Require Import Base.Str Model.Core Model.GoErrors Model.Prog Check.C02 Check.C17 Proofs.C01Proofs Proofs.C02Proofs.

Lemma no_panic_identity s f c stk r n :
  eval_cb s c (s_next s) = (Normal r, n) -> fst (c_recover s f c stk) = r.
Proof. unfold c_recover. intros ->. reflexivity. Qed.

Lemma panic_converted s f c stk v n :
  eval_cb s c (s_next s) = (Panicking v, n) ->
  fst (c_recover s f c stk) = Some (recovered n (get_def s f) v stk).
Proof. unfold c_recover. intros ->. reflexivity. Qed.

(* the converted error: of the receiver definition (with its fields), the documented
   message, a PanicError carrying v itself, and errors.Is reaches v when v is an error *)
Lemma recovered_shape a d v stk :
  exists pe, recovered a d v stk = EDef (a + 1) d ("panic: " ++ pv_msg v) (Some pe) false (stack_of d stk) /\
  as_first is_panic_error (recovered a d v stk) = Some pe /\
  match v with
  | PVErr x => pe = EPanic a (fmt_v x) 0 (Some x) /\ errors_is (recovered a d v stk) x = true
  | PVOther id s => pe = EPanic a s id None
  end.
Proof.
  destruct v as [x|id s]; eexists; (split; [reflexivity|]); (split; [reflexivity|]).
  - split; [reflexivity|]. unfold recovered, new_error.
    apply (errors_is_mono x); [|apply errors_is_self].
    intros n Hin. cbn [reach]. right. right. exact Hin.
  - reflexivity.
Qed.

(* a Recover frame always returns normally: the panic never escapes, and an
   enclosing Recover therefore never observes it *)
Lemma recover_returns s f c stk n : exists r n', eval_cb s (CRecover f c stk) n = (Normal r, n').
Proof. cbn [eval_cb]. destruct (eval_cb s c n) as [[r|v] n']; eexists; eexists; reflexivity. Qed.

Lemma outer_sees_normal s f c stk n r n' :
  eval_cb s c n = (Normal r, n') -> eval_cb s (CRecover f c stk) n = (Normal r, n').
Proof. cbn [eval_cb]. intros ->. reflexivity. Qed.

Lemma innermost_only s f1 f2 c stk1 stk2 n :
  eval_cb s (CRecover f1 (CRecover f2 c stk2) stk1) n = eval_cb s (CRecover f2 c stk2) n.
Proof.
  destruct (recover_returns s f2 c stk2 n) as [r [n' E]]. rewrite E. now apply outer_sees_normal.
Qed.

Lemma call_transparent s c n : eval_cb s (CCall c) n = eval_cb s c n.
Proof. reflexivity. Qed.

(* pool addresses are older than anything a statement allocates *)
Definition pool_bound (s : st) : Prop :=
  forall e, In (Some e) (s_errs s) -> is_defn_val e = false -> (addr_of e < s_next s)%N.

Lemma eval_cb_mono s c : forall n, (n <= snd (eval_cb s c n))%N.
Proof.
  induction c as [e|e|e|id f|m t|c IH|f c IH stk|f c1 IH1 stk c2 IH2]; intros n; cbn [eval_cb].
  - cbn. lia.
  - destruct (get_err s (Some e)); cbn; lia.
  - destruct (get_err s (Some e)); cbn; lia.
  - cbn. lia.
  - cbn. lia.
  - apply IH.
  - specialize (IH n). destruct (eval_cb s c n) as [[r|v] n']; cbn in *; lia.
  - specialize (IH1 n). destruct (eval_cb s c1 n) as [[r|v] n']; cbn in *.
    + specialize (IH2 n'). lia.
    + specialize (IH2 (n' + 2)%N). lia.
Qed.

Lemma idx_from_fresh pool e : forall i,
  (forall x, In (Some x) pool -> same x e = false) -> idx_from pool e i = (-1)%Z.
Proof.
  induction pool as [|[x|] r IH]; intros i H; cbn; [reflexivity| |].
  - rewrite (H x (or_introl eq_refl)). apply IH. intros y Hy. apply H. now right.
  - apply IH. intros y Hy. apply H. now right.
Qed.

Theorem model_is_spec s f c stk : pool_bound s -> model1 (s, SRecover f c stk) = spec1 (s, SRecover f c stk).
Proof.
  intros Hb. unfold model1, spec1. cbn [fst snd step]. unfold c_recover.
  pose proof (eval_cb_mono s c (s_next s)) as Hm.
  destruct (eval_cb s c (s_next s)) as [[r|v] n]; cbn [snd] in Hm; unfold add_err; cbn [s_errs]; rewrite last_app1.
  - reflexivity.
  - unfold describe.
    assert (Hf : idx_of (s_errs s) (recovered n (get_def s f) v stk) = (-1)%Z).
    { apply idx_from_fresh. intros x Hx. unfold same. destruct (is_defn_val x) eqn:D.
      - destruct v; reflexivity.
      - specialize (Hb x Hx D). destruct v; cbn; apply N.eqb_neq; lia. }
    rewrite Hf. destruct v as [x|id sv]; cbn -[idx_of errors_is].
    + f_equal. unfold is_v. cbn -[idx_of errors_is].
      destruct (recovered_shape n (get_def s f) (PVErr x) stk) as [pe [_ [_ [_ E]]]].
      rewrite E. apply andb_true_r.
    + reflexivity.
Qed.

(* ---------- pool_bound holds in every reachable state ---------- *)
Definition res_bound (n : N) (r : cbres) : Prop :=
  match r with
  | Normal (Some e) => is_defn_val e = false -> (addr_of e < n)%N     (* what can reach the pool *)
  | _ => True
  end.

Lemma eval_cb_bound s : pool_bound s -> forall c n, (s_next s <= n)%N ->
  res_bound (snd (eval_cb s c n)) (fst (eval_cb s c n)).
Proof.
  intros Hb. induction c as [e|e|e|id f|m t|c IH|f c IH stk|f c1 IH1 stk c2 IH2]; intros n Hn; cbn [eval_cb].
  - cbn. destruct (get_err s e) as [x|] eqn:G; [|exact I]. intros D.
    specialize (Hb x (get_err_in s e x G) D). lia.
  - destruct (get_err s (Some e)) as [x|] eqn:G; cbn; exact I.
  - destruct (get_err s (Some e)) as [x|] eqn:G; cbn; exact I.
  - exact I.
  - cbn. exact I.
  - now apply IH.
  - specialize (IH n Hn). destruct (eval_cb s c n) as [[r|v] n']; cbn in *; [exact IH|].
    intros _. destruct v; cbn; lia.
  - specialize (IH1 n Hn). pose proof (eval_cb_mono s c1 n) as M.
    destruct (eval_cb s c1 n) as [[r|v] n']; cbn in M; apply IH2; lia.
Qed.

Lemma pool_bound_add_err s oe used :
  pool_bound s ->
  (forall e, oe = Some e -> is_defn_val e = false -> (addr_of e < s_next s + used)%N) ->
  pool_bound (add_err s oe used).
Proof.
  intros Hb Hn e Hin D. cbn [add_err s_errs s_next] in *. apply in_app_or in Hin.
  destruct Hin as [Hin|[E|[]]]; [specialize (Hb e Hin D); lia|now apply Hn].
Qed.

Lemma pool_bound_step s x : pool_bound s -> pool_bound (step s x).
Proof.
  intros Hb. destruct x; cbn [step].
  1-4: intros e Hin D; cbn [add_def add_ctx s_errs s_next] in *; specialize (Hb e Hin D); lia.
  - apply pool_bound_add_err; [exact Hb|]. intros e E _. inversion E; subst. cbn. lia.
  - apply pool_bound_add_err; [exact Hb|]. intros e E _. inversion E; subst. cbn. lia.
  - apply pool_bound_add_err; [exact Hb|]. intros e E _. unfold c_wrap in E.
    destruct (get_err s c); inversion E; subst. cbn. lia.
  - apply pool_bound_add_err; [exact Hb|]. intros e E _. unfold c_wrapf in E.
    destruct (get_err s c); inversion E; subst. cbn. lia.
  - apply pool_bound_add_err; [exact Hb|]. intros e E _. unfold c_join in E.
    destruct (somes (map (get_err s) cs)) as [|c1 [|c2 r]]; inversion E; subst; cbn; lia.
  - unfold c_recover. pose proof (eval_cb_bound s Hb c (s_next s) (N.le_refl _)) as B.
    pose proof (eval_cb_mono s c (s_next s)) as M.
    destruct (eval_cb s c (s_next s)) as [[r|v] n]; cbn [fst snd] in *.
    + apply pool_bound_add_err; [exact Hb|]. intros e E D. subst r. specialize (B D). lia.
    + apply pool_bound_add_err; [exact Hb|]. intros e E _. inversion E; subst. destruct v; cbn; lia.
  - destruct (get_err s (Some c)); apply pool_bound_add_err; try exact Hb; intros e' E _; inversion E; subst; cbn; lia.
  - apply pool_bound_add_err; [exact Hb|]. intros e E D. unfold errors_join in E.
    destruct (somes (map (get_err s) cs)) as [|c1 [|c2 r]] eqn:S; [discriminate| |].
    + destruct (is_multi c1); inversion E; subst; [|cbn; lia].
      assert (In (Some e) (s_errs s)).
      { assert (Hin : In e (somes (map (get_err s) cs))) by (rewrite S; now left).
        apply in_somes2 in Hin. apply in_map_iff in Hin as [o [G _]]. eapply get_err_in; eauto. }
      specialize (Hb e H D). lia.
    + inversion E; subst. cbn. lia.
  - apply pool_bound_add_err; [exact Hb|]. intros e E _. inversion E; subst. cbn. lia.
  - apply pool_bound_add_err; [exact Hb|]. intros e E _. inversion E; subst. cbn. lia.
  - apply pool_bound_add_err; [exact Hb|]. intros e E _. inversion E; subst. cbn. lia.
  - apply pool_bound_add_err; [exact Hb|]. intros e E D. inversion E; subst. discriminate.
Qed.

Lemma pool_bound_run_from p : forall s, pool_bound s -> pool_bound (fold_left step p s).
Proof. induction p as [|x r IH]; intros s H; [exact H|]. cbn. apply IH. now apply pool_bound_step. Qed.

Lemma pool_bound0 : pool_bound st0.
Proof. intros e []. Qed.

(* every state a statement of a program executes in *)
Lemma trace_bound p : forall s, pool_bound s -> forall sx, In sx (trace_from s p) -> pool_bound (fst sx).
Proof.
  induction p as [|x r IH]; intros s H sx Hin; [contradiction|].
  cbn in Hin. destruct Hin as [<-|Hin]; [exact H|]. eapply IH; [|exact Hin]. now apply pool_bound_step.
Qed.

Theorem corr_implies_ok c : corr c = true -> ok c = true.
Proof.
  unfold corr, ok. intros H. apply andb_true_iff in H as [Hp H]. rewrite Hp. cbn [andb].
  replace (map spec1 (recover_trace (c_prog c))) with (map model1 (recover_trace (c_prog c))); [exact H|].
  apply map_ext_in. intros [s x] Hin. unfold recover_trace in Hin. apply filter_In in Hin as [Hin Hr].
  destruct x; try discriminate Hr. apply model_is_spec.
  apply (trace_bound (c_prog c) st0 pool_bound0 _ Hin).
Qed.
