From Coq Require Import Sorting.Permutation.
From Errdef Require Import Base.Str Base.Outcome Model.Core Model.Convert Model.Unmarshal Check.UM Check.C12
  Proofs.C10Proofs Proofs.SortFields Proofs.C13Proofs.

(* what each decoded field contributes, independently of the others *)
Definition typed_of (nr : string * fres) : list (ukey * bval) := match snd nr with FTyped k b => [(k, b)] | _ => [] end.
Definition unknown_of_f (nr : string * fres) : list (string * dval) := match snd nr with FUnknown v => [(fst nr, v)] | _ => [] end.
Definition fails_of (nr : string * fres) : list failure := match snd nr with FFail f => [f] | _ => [] end.

Lemma collect_as_flat_map rs :
  proj_typed (collect_fields rs) = flat_map typed_of rs /\
  proj_unknown (collect_fields rs) = flat_map unknown_of_f rs /\
  proj_fails (collect_fields rs) = flat_map fails_of rs.
Proof.
  induction rs as [|[n r] rest IH]; [repeat split; reflexivity|].
  cbn [collect_fields]. destruct (collect_fields rest) as [[[ty un] fl] pn].
  unfold proj_typed, proj_unknown, proj_fails in *. cbn [fst snd] in IH. destruct IH as [A [B C]].
  subst ty un fl. destruct r; cbn; repeat split; reflexivity.
Qed.

Lemma perm_flat_map {A B} (f : A -> list B) l l' : Permutation l l' -> Permutation (flat_map f l) (flat_map f l').
Proof.
  induction 1 as [|x l l' P IH|x y l|l l' l'' P1 IH1 P2 IH2]; cbn.
  - constructor.
  - now apply Permutation_app_head.
  - rewrite !app_assoc. apply Permutation_app_tail. apply Permutation_app_comm.
  - eapply Permutation_trans; eauto.
Qed.

(* the causes' result does not depend on the fields *)
Definition cres_of (c : ucfg) (cs : list (option dd)) : ures (list rcause) :=
  seq_causes ((fix go (l : list (option dd)) : list (ures rcause) :=
                 match l with [] => [] | None :: r => UFail [internal_failure] :: go r | Some cd :: r => snd (both c cd) :: go r end) cs).

(* ---------- determinism (as of the fix for F12) ---------- *)
(* the decoded tree with the fields of every node in name order *)
Fixpoint norm (d : dd) : dd :=
  match d with
  | DD m k t fs st cs u => DD m k t (sort_fields fs) st (map (option_map norm) cs) u
  end.

(* two decoded trees that differ only in the order in which the fields of a node are met
   (Go's map iteration order), at any node of the tree *)
Inductive opt_rel {A} (R : A -> A -> Prop) : option A -> option A -> Prop :=
| OR_none : opt_rel R None None
| OR_some x y : R x y -> opt_rel R (Some x) (Some y).

Inductive dd_perm : dd -> dd -> Prop :=
| DP m k t fs fs' st cs cs' u :
    Permutation fs fs' -> NoDup (map fst fs) -> Forall2 (opt_rel dd_perm) cs cs' ->
    dd_perm (DD m k t fs st cs u) (DD m k t fs' st cs' u).

(* the list of cause results only depends on the results for the causes *)
Definition cause_results (c : ucfg) (cs : list (option dd)) : list (ures rcause) :=
  (fix go (l : list (option dd)) : list (ures rcause) :=
     match l with [] => [] | None :: r => UFail [internal_failure] :: go r | Some cd :: r => snd (both c cd) :: go r end) cs.

Lemma both_unfold c m k t fs st cs u :
  both c (DD m k t fs st cs u) =
  (let cres := seq_causes (cause_results c cs) in
   let as_err : ures rerr :=
     match resolve_kind_u c k with
     | UFail f => UFail f
     | UPanic w => UPanic w
     | UOk def =>
         let '(typed, unknown, fails, pn) :=
           collect_fields (map (fun nv => (fst nv, bind_field c def k (fst nv) (snd nv))) (sort_fields fs)) in
         match pn, fails with
         | Some w, _ => UPanic w
         | None, f :: _ => UFail [f]
         | None, [] => match cres with UOk cs0 => UOk (RErr def m typed unknown st cs0) | UFail f => UFail f | UPanic w => UPanic w end
         end
     end in
   (as_err,
    match as_err with
    | UOk e => UOk (RCErr e)
    | UPanic w => UPanic w
    | UFail ffs =>
        if has_internal ffs then UFail [internal_failure]
        else
          let m0 := if str_eqb m "" then u else m in
          let t0 := if str_eqb t "" then "<unknown>" else t in
          match cres with
          | UFail f => UFail f
          | UPanic w => UPanic w
          | UOk [] =>
              match (if str_eqb t0 definition_type_name then resolve_kind_def (u_defs c) m0 else None) with
              | Some rd => UOk (RCDef rd)
              | None => match lookup_sentinel c t0 m0 with Some id => UOk (RCSentinel id) | None => UOk (RCUnknown m0 t0 []) end
              end
          | UOk nested => UOk (RCUnknown m0 t0 nested)
          end
    end)).
Proof. reflexivity. Qed.

(* unmarshal of a node is a function of its name-sorted fields and of the results of its causes *)
Lemma both_congr c m k t fs fs' st cs cs' u :
  sort_fields fs = sort_fields fs' -> cause_results c cs = cause_results c cs' ->
  both c (DD m k t fs st cs u) = both c (DD m k t fs' st cs' u).
Proof. intros E1 E2. rewrite !both_unfold, E1, E2. reflexivity. Qed.

Lemma cause_results_norm c cs :
  (forall d, In (Some d) cs -> both c (norm d) = both c d) ->
  cause_results c (map (option_map norm) cs) = cause_results c cs.
Proof.
  induction cs as [|o r IH]; intros H; [reflexivity|].
  destruct o as [x|]; cbn [map option_map cause_results].
  - fold (cause_results c (map (option_map norm) r)). fold (cause_results c r).
    rewrite (H x) by now left. f_equal. apply IH. intros d Hd. apply H. now right.
  - fold (cause_results c (map (option_map norm) r)). fold (cause_results c r).
    f_equal. apply IH. intros d Hd. apply H. now right.
Qed.

(* sorting the fields of every node beforehand changes nothing: unmarshal sorts them itself *)
Theorem both_norm c : forall d, both c (norm d) = both c d.
Proof.
  induction d as [m k t fs st cs u IH] using dd_ind'. cbn [norm].
  apply both_congr; [apply sort_fields_idem|now apply cause_results_norm].
Qed.

(* trees that differ only in field order have the same normal form ... *)
Theorem perm_norm : forall d d', dd_perm d d' -> norm d = norm d'.
Proof.
  induction d as [m k t fs st cs u IH] using dd_ind'. intros d' H.
  inversion H as [m0 k0 t0 fs0 fs' st0 cs0 cs' u0 P N F]; subst. cbn [norm].
  rewrite (sort_fields_perm_invariant fs fs' P N). f_equal.
  clear H P N. induction F as [|a b r r' Hab F IHF]; [reflexivity|]. cbn [map].
  f_equal.
  - destruct Hab as [|x y Hxy]; [reflexivity|]. cbn. f_equal. apply IH; [now left|exact Hxy].
  - apply IHF. intros d Hd. apply IH. now right.
Qed.

(* ... hence Unmarshal (and the restoration of a cause) returns the very same result - the
   same value, or the same failure - whatever the iteration order of the decoded field maps
   at any depth of the tree *)
Theorem deterministic c d d' : dd_perm d d' -> both c d = both c d'.
Proof. intros H. rewrite <- (both_norm c d), <- (both_norm c d'), (perm_norm d d' H). reflexivity. Qed.

Lemma unmarshal_unfold3 c m k t fs st cs u :
  unmarshal c (DD m k t fs st cs u) =
  match resolve_kind_u c k with
  | UFail f => UFail f
  | UPanic w => UPanic w
  | UOk def =>
      let x := collect_fields (map (fun nv => (fst nv, bind_field c def k (fst nv) (snd nv))) (sort_fields fs)) in
      match proj_panic x, proj_fails x with
      | Some w, _ => UPanic w
      | None, f :: _ => UFail [f]
      | None, [] =>
          match cres_of c cs with
          | UOk cs' => UOk (RErr def m (proj_typed x) (proj_unknown x) st cs')
          | UFail f => UFail f
          | UPanic w => UPanic w
          end
      end
  end.
Proof.
  unfold unmarshal, cres_of. rewrite both_unfold. cbv zeta. cbn [fst].
  destruct (resolve_kind_u c k); try reflexivity.
  destruct (collect_fields _) as [[[ty un] fl] pn]. reflexivity.
Qed.

(* the top-level form: permuting the fields of the node itself *)
Corollary deterministic_top c m k t fs fs' st cs u :
  Permutation fs fs' -> NoDup (map fst fs) ->
  both c (DD m k t fs st cs u) = both c (DD m k t fs' st cs u).
Proof. intros P N. apply both_congr; [now apply sort_fields_perm_invariant|reflexivity]. Qed.

(* binding a field: the first same-named key, in the definition's insertion order, that accepts *)
Theorem first_accepting_key_wins ks v k b :
  first_convert ks v = Ok (Some (k, b)) ->
  exists pre post, ks = (pre ++ k :: post)%list /\ try_convert (uk_ty k) v = Ok (Some b) /\
                   forall k', In k' pre -> try_convert (uk_ty k') v = Ok None.
Proof.
  induction ks as [|x r IH]; cbn; [discriminate|].
  destruct (try_convert (uk_ty x) v) as [[b0|]|cl|w] eqn:E; try discriminate.
  - intros H. inversion H; subst. exists [], r. repeat split; [exact E|intros k' []].
  - intros H. destruct (IH H) as [pre [post [-> [A B]]]]. exists (x :: pre), post. repeat split; [exact A|].
    intros k' [<-|Hin]; [exact E|now apply B].
Qed.
