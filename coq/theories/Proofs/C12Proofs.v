From Coq Require Import Sorting.Permutation.
From Errdef Require Import Base.Str Base.Outcome Model.Core Model.Convert Model.Unmarshal Check.UM Check.C12
  Proofs.C10Proofs Proofs.C13Proofs.

(* what each decoded field contributes, independently of the others *)
Definition typed_of (nr : string * fres) : list (ukey * bval) := match snd nr with FTyped k b => [(k, b)] | _ => [] end.
Definition unknown_of_f (nr : string * fres) : list (string * dval) := match snd nr with FUnknown v => [(fst nr, v)] | _ => [] end.
Definition fails_of (nr : string * fres) : list failure := match snd nr with FFail f => [f] | _ => [] end.

Lemma collect_as_flat_map rs :
  proj_typed (collect_fields rs) = flat_map typed_of rs /\
  proj_unknown (collect_fields rs) = flat_map unknown_of_f rs /\
  proj_fails (collect_fields rs) = flat_map fails_of rs.
Proof.
  induction rs as [|[n r] rest IH]; [repeat split; reflexivity|].
  cbn [collect_fields]. destruct (collect_fields rest) as [[[ty un] fl] pn].
  unfold proj_typed, proj_unknown, proj_fails in *. cbn [fst snd] in IH. destruct IH as [A [B C]].
  subst ty un fl. destruct r; cbn; repeat split; reflexivity.
Qed.

Lemma perm_flat_map {A B} (f : A -> list B) l l' : Permutation l l' -> Permutation (flat_map f l) (flat_map f l').
Proof.
  induction 1 as [|x l l' P IH|x y l|l l' l'' P1 IH1 P2 IH2]; cbn.
  - constructor.
  - now apply Permutation_app_head.
  - rewrite !app_assoc. apply Permutation_app_tail. apply Permutation_app_comm.
  - eapply Permutation_trans; eauto.
Qed.

(* the causes' result does not depend on the fields *)
Definition cres_of (c : ucfg) (cs : list (option dd)) : ures (list rcause) :=
  seq_causes ((fix go (l : list (option dd)) : list (ures rcause) :=
                 match l with [] => [] | None :: r => UFail [internal_failure] :: go r | Some cd :: r => snd (both c cd) :: go r end) cs).

Lemma unmarshal_unfold3 c m k t fs st cs u :
  unmarshal c (DD m k t fs st cs u) =
  match resolve_kind_u c k with
  | UFail f => UFail f
  | UPanic w => UPanic w
  | UOk def =>
      let x := collect_fields (map (fun nv => (fst nv, bind_field c def k (fst nv) (snd nv))) fs) in
      match proj_panic x, proj_fails x with
      | Some w, _ => UPanic w
      | None, _ :: _ => UFail (proj_fails x)
      | None, [] =>
          match cres_of c cs with
          | UOk cs' => UOk (RErr def m (proj_typed x) (proj_unknown x) st cs')
          | UFail f => UFail f
          | UPanic w => UPanic w
          end
      end
  end.
Proof.
  unfold unmarshal, cres_of. cbn [both fst].
  destruct (resolve_kind_u c k); try reflexivity.
  destruct (collect_fields _) as [[[ty un] fl] pn]. reflexivity.
Qed.

(* two results that differ only by the order in which the decoded fields were met *)
Definition res_equiv (a b : ures rerr) : Prop :=
  match a, b with
  | UOk (RErr d m ty un st cs), UOk (RErr d' m' ty' un' st' cs') =>
      d = d' /\ m = m' /\ Permutation ty ty' /\ Permutation un un' /\ st = st' /\ cs = cs'
  | UFail f, UFail f' => Permutation f f'
  | UPanic _, UPanic _ => True
  | _, _ => False
  end.

(* Unmarshal does not depend on Go's map iteration order over the decoded fields: success
   or failure alike, the same bound and unknown fields, the same set of possible failures *)
Theorem deterministic c m k t fs fs' st cs u :
  Permutation fs fs' -> res_equiv (unmarshal c (DD m k t fs st cs u)) (unmarshal c (DD m k t fs' st cs u)).
Proof.
  intros P. rewrite !unmarshal_unfold3.
  destruct (resolve_kind_u c k) as [def|f|w]; cbn [res_equiv]; [|apply Permutation_refl|exact I].
  cbv zeta.
  set (g := fun nv : string * dval => (fst nv, bind_field c def k (fst nv) (snd nv))).
  destruct (collect_as_flat_map (map g fs)) as [A [B C]]. destruct (collect_as_flat_map (map g fs')) as [A' [B' C']].
  assert (Pm : Permutation (map g fs) (map g fs')) by now apply Permutation_map.
  pose proof (collect_good (map g fs)) as G. pose proof (collect_good (map g fs')) as G'.
  assert (Hg : forall l, Forall (fun nr : string * fres => fres_good (snd nr)) (map g l)).
  { intros l. apply Forall_forall. intros [n r] H. apply in_map_iff in H as [nv [E _]]. inversion E; subst. apply bind_field_good. }
  specialize (G (Hg fs)). specialize (G' (Hg fs')).
  destruct (collect_fields (map g fs)) as [[[ty un] fl] pn]. destruct (collect_fields (map g fs')) as [[[ty' un'] fl'] pn'].
  unfold proj_typed, proj_unknown, proj_fails, proj_panic in *. cbn [fst snd] in *.
  destruct G as [-> _]. destruct G' as [-> _].
  assert (Pf : Permutation fl fl') by (rewrite C, C'; now apply perm_flat_map).
  assert (Pt : Permutation ty ty') by (rewrite A, A'; now apply perm_flat_map).
  assert (Pu : Permutation un un') by (rewrite B, B'; now apply perm_flat_map).
  destruct fl as [|f0 fl0]; destruct fl' as [|f0' fl0'].
  - destruct (cres_of c cs); cbn; [repeat split; auto|apply Permutation_refl|exact I].
  - apply Permutation_nil in Pf. discriminate.
  - apply Permutation_sym, Permutation_nil in Pf. discriminate.
  - exact Pf.
Qed.

(* binding a field: the first same-named key, in the definition's insertion order, that accepts *)
Theorem first_accepting_key_wins ks v k b :
  first_convert ks v = Ok (Some (k, b)) ->
  exists pre post, ks = (pre ++ k :: post)%list /\ try_convert (uk_ty k) v = Ok (Some b) /\
                   forall k', In k' pre -> try_convert (uk_ty k') v = Ok None.
Proof.
  induction ks as [|x r IH]; cbn; [discriminate|].
  destruct (try_convert (uk_ty x) v) as [[b0|]|cl|w] eqn:E; try discriminate.
  - intros H. inversion H; subst. exists [], r. repeat split; [exact E|intros k' []].
  - intros H. destruct (IH H) as [pre [post [-> [A B]]]]. exists (x :: pre), post. repeat split; [exact A|].
    intros k' [<-|Hin]; [exact E|now apply B].
Qed.
