From Errdef Require Import Base.Str Model.Core Model.GoErrors Model.Prog Check.C04 Proofs.C01Proofs.

(* [s'] has everything [s] has, unchanged, at the same positions *)
Definition extends (s s' : st) : Prop :=
  (exists a, s_defs s' = (s_defs s ++ a)%list) /\
  (exists b, s_ctxs s' = (s_ctxs s ++ b)%list) /\
  (exists c, s_errs s' = (s_errs s ++ c)%list).

Lemma extends_refl s : extends s s.
Proof. repeat split; exists []; now rewrite app_nil_r. Qed.

Lemma extends_trans a b c : extends a b -> extends b c -> extends a c.
Proof.
  intros [[x1 A1] [[y1 B1] [z1 C1]]] [[x2 A2] [[y2 B2] [z2 C2]]].
  repeat split; [exists (x1 ++ x2)%list|exists (y1 ++ y2)%list|exists (z1 ++ z2)%list];
    rewrite ?A2, ?B2, ?C2, ?A1, ?B1, ?C1; now rewrite app_assoc.
Qed.

Lemma add_def_extends s d u b : extends s (add_def s d u b).
Proof. repeat split; cbn; [exists [d]|exists []|exists []]; now rewrite ?app_nil_r. Qed.
Lemma add_ctx_extends s c : extends s (add_ctx s c).
Proof. repeat split; cbn; [exists []|exists [c]|exists []]; now rewrite ?app_nil_r. Qed.
Lemma add_err_extends s e u : extends s (add_err s e u).
Proof. repeat split; cbn; [exists []|exists []|exists [e]]; now rewrite ?app_nil_r. Qed.

(* no API call changes anything created before it: every statement only appends *)
Theorem step_extends s x : extends s (step s x).
Proof.
  destruct x; cbn [step]; try apply add_def_extends; try apply add_ctx_extends; try apply add_err_extends.
  - destruct (c_recover s f c stk). apply add_err_extends.
  - destruct (get_err s (Some c)); apply add_err_extends.
Qed.

Lemma fold_extends q : forall s, extends s (fold_left step q s).
Proof.
  induction q as [|x r IH]; intros s; [apply extends_refl|]. cbn.
  eapply extends_trans; [apply step_extends|apply IH].
Qed.

Theorem frame p q : extends (run p) (run (p ++ q)).
Proof. unfold run. rewrite fold_left_app. apply fold_extends. Qed.

(* in particular: object i of the pools after p is object i after any continuation *)
Lemma nth_error_app_left {A} (l a : list A) i x : nth_error l i = Some x -> nth_error (l ++ a) i = Some x.
Proof.
  intros H. rewrite nth_error_app1; [exact H|]. apply nth_error_Some. congruence.
Qed.

Theorem objects_unchanged p q :
  (forall i d, nth_error (s_defs (run p)) i = Some d -> nth_error (s_defs (run (p ++ q))) i = Some d) /\
  (forall i c, nth_error (s_ctxs (run p)) i = Some c -> nth_error (s_ctxs (run (p ++ q))) i = Some c) /\
  (forall i e, nth_error (s_errs (run p)) i = Some e -> nth_error (s_errs (run (p ++ q))) i = Some e).
Proof.
  destruct (frame p q) as [[a A] [[b B] [c C]]]. rewrite A, B, C.
  repeat split; intros; now apply nth_error_app_left.
Qed.

(* deriving a factory never touches the definition it derives from: the clone carries its
   own fields value; options are applied to the clone only *)
Theorem derive_leaves_base a d ctx os :
  with_ a d ctx os = d \/ d_addr (with_ a d ctx os) = a.
Proof.
  unfold with_. destruct ctx; [destruct os; [now left|]|]; right;
    repeat match goal with |- context [apply_opts ?x ?o] =>
      let A := fresh in destruct (apply_opts_ids o x) as [A _]; rewrite A; clear A end; reflexivity.
Qed.

(* ---------- source-derived obligation: the library's non-local writes ---------- *)
From Errdef Require Import Gen.Effects Spec.EffectsAudit.

(* What srcgen extracts from /repo now - every assignment, increment, delete, append-in-place
   and reflect Set whose target is not a local or a value allocated in the same function, every
   call of a mutating function with the object it is handed, and the bodies of the allocating
   functions "fresh" relies on - equals the audited tables.  A new write into a shared
   definition / fields map / error or into a caller-owned slice changes Gen/Effects.v. *)
Theorem writes_audited :
  effects_matched = true /\ write_sites = audited_write_sites /\
  mutator_calls = audited_mutator_calls /\ fresh_sources = audited_fresh_sources.
Proof. repeat split; reflexivity. Qed.
