From Errdef Require Import Base.Str Base.Outcome Model.Core Model.GoErrors Model.Prog Model.Tree0 Model.Json
  Model.Convert Model.Unmarshal Model.Decode Check.UM Check.C09 Proofs.C08Proofs Proofs.C09Proofs Proofs.C10Proofs Proofs.C13Proofs Proofs.C12Proofs.

(* ---------- shapes: message, kind, type name, frames, children ---------- *)
Inductive nshape := NS (msg kind ty : string) (frames : list frame) (nfields : nat) (kids : list nshape).

Fixpoint tshape (t : tree) : nshape :=
  match t with
  | T e kids =>
      if is_errdef_error e then NS (err_msg e) (e_kind e) "" (e_stack e) (List.length (e_fields_all e)) (map tshape kids)
      else NS (err_msg e) "" (type_name e) [] 0 (map tshape kids)
  end.

Fixpoint ddshape (d : dd) : nshape :=
  match d with
  | DD m k t fs st cs _ =>
      NS m k t st (List.length fs) ((fix go (l : list (option dd)) : list nshape :=
                      match l with [] => [] | Some x :: r => ddshape x :: go r | None :: r => NS "" "" "" [] 0 [] :: go r end) cs)
  end.

(* decoding a list of marshaled causes *)
Fixpoint decode_list (t : vtab) (l : list json) (u : list string) : list (option dd) * list string :=
  match l with
  | [] => ([], u)
  | x :: r => let '(d, u1) := decode t x u in let '(ds, u2) := decode_list t r u1 in (Some d :: ds, u2)
  end.

Definition causes_of_doc (j : json) : list json :=
  match jget "causes" j with Some (JArr l) => l | _ => [] end.

(* the causes of a decoded node are the decoded "causes" member *)
Lemma decode_causes t j u :
  dd_causes (fst (decode t j u)) =
  fst (decode_list t (causes_of_doc j) (if str_eqb (jstr (jget "message" j)) "" then tl u else u)) /\
  snd (decode t j u) =
  snd (decode_list t (causes_of_doc j) (if str_eqb (jstr (jget "message" j)) "" then tl u else u)).
Proof.
  destruct j as [s|s|z|l|ms]; try (cbn; destruct (str_eqb "" ""); split; reflexivity).
  cbn [decode]. set (msg := jstr (jget "message" (JObj ms))).
  destruct (str_eqb msg "") eqn:Em; cbn [fst snd].
  all: set (u1 := _ : list string).
  all: unfold causes_of_doc, jget.
  all: match goal with |- context [let '(cs, rest) := ?X in _] => remember X as R end.
  all: assert (HR : R = decode_list t (match option_map snd (find (fun m => str_eqb (fst m) "causes") ms) with Some (JArr l) => l | _ => [] end) u1).
  all: try (subst R; clear; generalize u1 as uu; induction ms as [|[k v] r IH]; intros uu; cbn; [reflexivity|];
            destruct (str_eqb k "causes") eqn:Ek; cbn;
            [destruct v; try reflexivity;
             generalize uu as u2; induction l as [|x l' IHl]; intros u2; cbn; [reflexivity|];
             destruct (decode t x u2) as [d u3]; rewrite IHl; reflexivity
            |apply IH]).
  all: rewrite HR; destruct (decode_list t _ u1) as [cs rest]; split; reflexivity.
Qed.

(* ---------- domain of the structure theorem ---------- *)
(* every message is non-empty; errdef nodes have no custom marshaler and carry no fields
   (fields are the business of C11 and of the correspondence run) *)
Fixpoint mdom (t : tree) : Prop :=
  match t with
  | T e kids =>
      err_msg e <> "" /\
      (is_errdef_error e = true ->
         (match e_def e with Some d => d_json d | None => None end) = None /\ e_fields_all e = []) /\
      (fix go (l : list tree) : Prop := match l with [] => True | k :: r => mdom k /\ go r end) kids
  end.

Lemma mdom_kids e kids : mdom (T e kids) -> Forall mdom kids.
Proof.
  cbn. intros [_ [_ H]]. induction kids as [|k r IH]; [constructor|]. destruct H as [H1 H2]. constructor; auto.
Qed.

Definition decodes_to (doc : json) (s : nshape) : Prop :=
  forall tbl u, ddshape (fst (decode tbl doc u)) = s /\ snd (decode tbl doc u) = u.

Lemma decode_list_shapes tbl docs shapes : Forall2 decodes_to docs shapes ->
  forall u, exists ds, decode_list tbl docs u = (map Some ds, u) /\ map ddshape ds = shapes.
Proof.
  induction 1 as [|doc s docs shapes H _ IH]; intros u; cbn.
  - exists []. split; reflexivity.
  - destruct (H tbl u) as [A B]. destruct (decode tbl doc u) as [d u1] eqn:E. cbn in A, B. subst u1.
    destruct (IH u) as [ds [E2 S]]. rewrite E2. exists (d :: ds). split; [reflexivity|]. cbn. now rewrite A, S.
Qed.

Lemma ddshape_unfold m k t fs st cs u :
  ddshape (DD m k t fs st cs u) =
  NS m k t st (List.length fs) (map (fun o => match o with Some x => ddshape x | None => NS "" "" "" [] 0 [] end) cs).
Proof.
  cbn. f_equal. induction cs as [|[x|] r IH]; cbn; [reflexivity| |]; now rewrite IH.
Qed.

Lemma dd_eta d : d = DD (dd_msg d) (dd_kind d) (dd_ty d) (dd_fields d) (dd_stack d) (dd_causes d) (dd_unk d).
Proof. destruct d; reflexivity. Qed.

Lemma seq_out_ok {A} (l : list (outcome A)) (vs : list A) : Forall2 (fun o v => o = Ok v) l vs -> seq_out l = Ok vs.
Proof. induction 1 as [|o v l vs H _ IH]; cbn; [reflexivity|]. now rewrite H, IH. Qed.

(* marshal then decode keeps the whole shape of every tree of the domain *)
Theorem marshal_decode_shape : forall t, mdom t ->
  exists doc, marshal_tree t = Ok doc /\ decodes_to doc (tshape t).
Proof.
  induction t as [e kids IH] using tree_ind'. intros Hd.
  pose proof (mdom_kids e kids Hd) as Hk. destruct Hd as [Hm [He _]].
  (* the children *)
  assert (Hkids : exists docs, Forall2 (fun o v => o = Ok v) (map marshal_tree kids) docs /\
                               Forall2 decodes_to docs (map tshape kids)).
  { clear Hm He. induction kids as [|k r IHr]; [exists []; split; constructor|].
    inversion IH; subst. inversion Hk; subst. destruct (H1 H3) as [doc [A B]].
    destruct (IHr H2 H4) as [docs [C D]]. exists (doc :: docs). split; constructor; auto. }
  destruct Hkids as [docs [Hs Hshape]]. cbn [marshal_tree]. rewrite (seq_out_ok _ _ Hs).
  destruct (is_errdef_error e) eqn:Ee.
  - destruct (He eq_refl) as [Hj Hf]. rewrite Hj, Hf. eexists. split; [reflexivity|].
    intros tbl u. set (doc := JObj _).
    assert (Hmsg : jstr (jget "message" doc) = err_msg e) by reflexivity.
    assert (Hc : causes_of_doc doc = docs).
    { unfold doc, causes_of_doc. destruct (str_eqb (e_kind e) ""); destruct (e_stack e); destruct docs; reflexivity. }
    assert (Hk2 : jstr (jget "kind" doc) = e_kind e).
    { unfold doc. destruct (str_eqb (e_kind e) "") eqn:Q; [apply str_eqb_eq in Q; rewrite Q|];
        destruct (e_stack e); destruct docs; reflexivity. }
    assert (Ht2 : jstr (jget "type" doc) = "").
    { unfold doc. destruct (str_eqb (e_kind e) ""); destruct (e_stack e); destruct docs; reflexivity. }
    assert (Hs2 : match jget "stack" doc with Some (JArr l) => map decode_frame l | _ => [] end = e_stack e).
    { unfold doc. destruct (str_eqb (e_kind e) ""); destruct (e_stack e) as [|f r] eqn:Es; destruct docs; try reflexivity;
        cbn; now rewrite frame_roundtrip, frames_roundtrip. }
    assert (Hf2 : jget "fields" doc = None) by (unfold doc; repeat match goal with |- context [if ?b then _ else _] => destruct b | |- context [match ?x with _ => _ end] => destruct x end; reflexivity).
    clearbody doc.
    destruct (decode_proj tbl doc u) as [A [B [C [D F]]]]. cbv zeta in A, B, C, D, F. rewrite Hf2 in F. cbn in F.
    destruct (decode_causes tbl doc u) as [Ec Eu].
    assert (Hmne : str_eqb (jstr (jget "message" doc)) "" = false).
    { rewrite Hmsg. destruct (str_eqb (err_msg e) "") eqn:Q; [|reflexivity]. apply str_eqb_eq in Q. contradiction. }
    rewrite Hmne, Hc in Ec, Eu. destruct (decode_list_shapes tbl docs _ Hshape u) as [ds [El Sd]]. rewrite El in Ec, Eu. cbn [fst snd] in Ec, Eu.
    split; [|exact Eu].
    rewrite (dd_eta (fst (decode tbl doc u))), ddshape_unfold, A, B, C, D, F, Ec, Hmsg, Hk2, Ht2, Hs2. cbn [tshape]. rewrite Ee, ?Hf.
    rewrite map_map. cbn. f_equal. exact Sd.
  - eexists. split; [reflexivity|]. intros tbl u. set (doc := JObj _).
    assert (Hmsg : jstr (jget "message" doc) = err_msg e) by reflexivity.
    assert (Hc : causes_of_doc doc = docs) by (unfold doc, causes_of_doc; destruct docs; reflexivity).
    assert (Hk2 : jstr (jget "kind" doc) = "") by (unfold doc; destruct docs; reflexivity).
    assert (Ht2 : jstr (jget "type" doc) = type_name e) by (unfold doc; destruct docs; reflexivity).
    assert (Hs2 : match jget "stack" doc with Some (JArr l) => map decode_frame l | _ => [] end = []) by (unfold doc; destruct docs; reflexivity).
    assert (Hf2 : jget "fields" doc = None) by (unfold doc; repeat match goal with |- context [if ?b then _ else _] => destruct b | |- context [match ?x with _ => _ end] => destruct x end; reflexivity).
    clearbody doc.
    destruct (decode_proj tbl doc u) as [A [B [C [D F]]]]. cbv zeta in A, B, C, D, F. rewrite Hf2 in F. cbn in F.
    destruct (decode_causes tbl doc u) as [Ec Eu].
    assert (Hmne : str_eqb (jstr (jget "message" doc)) "" = false).
    { rewrite Hmsg. destruct (str_eqb (err_msg e) "") eqn:Q; [|reflexivity]. apply str_eqb_eq in Q. contradiction. }
    rewrite Hmne, Hc in Ec, Eu. destruct (decode_list_shapes tbl docs _ Hshape u) as [ds [El Sd]]. rewrite El in Ec, Eu. cbn [fst snd] in Ec, Eu.
    split; [|exact Eu].
    rewrite (dd_eta (fst (decode tbl doc u))), ddshape_unfold, A, B, C, D, F, Ec, Hmsg, Hk2, Ht2, Hs2. cbn [tshape]. rewrite Ee, ?Hf.
    rewrite map_map. cbn. f_equal. exact Sd.
Qed.

(* ---------- unmarshal restores the shape ---------- *)
Fixpoint rshape (r : rerr) : nshape :=
  match r with
  | RErr d m ty un st cs =>
      NS m (d_kind (ud_def d)) "" st (List.length ty + List.length un)
         ((fix go (l : list rcause) : list nshape := match l with [] => [] | c :: r => cshape c :: go r end) cs)
  end
with cshape (c : rcause) : nshape :=
  match c with
  | RCErr e => rshape e
  | RCDef d => NS (d_kind (ud_def d)) "" definition_type_name [] 0 []
  | RCSentinel _ => NS "" "" "" [] 0 []
  | RCUnknown m t cs =>
      NS m "" t [] 0 ((fix go (l : list rcause) : list nshape := match l with [] => [] | c :: r => cshape c :: go r end) cs)
  end.

Lemma rshape_unfold d m ty un st cs :
  rshape (RErr d m ty un st cs) = NS m (d_kind (ud_def d)) "" st (List.length ty + List.length un) (map cshape cs).
Proof. reflexivity. Qed.
Lemma cshape_unknown m t cs : cshape (RCUnknown m t cs) = NS m "" t [] 0 (map cshape cs).
Proof. reflexivity. Qed.

(* the configuration side of the domain: kinds of errdef nodes are registered; foreign
   nodes have a type name, are not definitions used as causes, and no sentinel applies *)
Fixpoint udom (c : ucfg) (t : tree) : Prop :=
  match t with
  | T e kids =>
      (if is_errdef_error e then resolve_kind_def (u_defs c) (e_kind e) <> None
       else type_name e <> "" /\ type_name e <> definition_type_name) /\
      (fix go (l : list tree) : Prop := match l with [] => True | k :: r => udom c k /\ go r end) kids
  end.

Lemma udom_kids c e kids : udom c (T e kids) -> Forall (udom c) kids.
Proof.
  cbn. intros [_ H]. induction kids as [|k r IH]; [constructor|]. destruct H as [H1 H2]. constructor; auto.
Qed.

Definition foreign_fails (c : ucfg) : Prop :=
  resolve_kind_u c "" = UFail [{| fl_class := cls_kind; fl_kind := ""; fl_field := "" |}] /\ u_sentinels c = [].

Lemma resolve_registered c k ud : resolve_kind_def (u_defs c) k = Some ud ->
  resolve_kind_u c k = UOk ud /\ d_kind (ud_def ud) = k.
Proof.
  intros H. split.
  - unfold resolve_kind_u. rewrite H. destruct (u_default c); [destruct (u_strict c)|]; reflexivity.
  - unfold resolve_kind_def in H. apply find_some in H as [_ Q]. now apply str_eqb_eq in Q.
Qed.

Lemma both_unfold9 c m k t fs st cs u :
  both c (DD m k t fs st cs u) =
  (let cres := cres_of c cs in
   let as_err :=
     match resolve_kind_u c k with
     | UFail f => UFail f
     | UPanic w => UPanic w
     | UOk def =>
         let x := collect_fields (map (fun nv => (fst nv, bind_field c def k (fst nv) (snd nv))) (sort_fields fs)) in
         match proj_panic x, proj_fails x with
         | Some w, _ => UPanic w
         | None, f :: _ => UFail [f]
         | None, [] => match cres with UOk cs' => UOk (RErr def m (proj_typed x) (proj_unknown x) st cs') | UFail f => UFail f | UPanic w => UPanic w end
         end
     end in
   (as_err,
    match as_err with
    | UOk e => UOk (RCErr e)
    | UPanic w => UPanic w
    | UFail ffs =>
        if has_internal ffs then UFail [internal_failure]
        else
          let mm := if str_eqb m "" then u else m in
          let tt := if str_eqb t "" then "<unknown>" else t in
          match cres with
          | UFail f => UFail f
          | UPanic w => UPanic w
          | UOk [] =>
              match (if str_eqb tt definition_type_name then resolve_kind_def (u_defs c) mm else None) with
              | Some rd => UOk (RCDef rd)
              | None => match lookup_sentinel c tt mm with Some id => UOk (RCSentinel id) | None => UOk (RCUnknown mm tt []) end
              end
          | UOk nested => UOk (RCUnknown mm tt nested)
          end
    end)).
Proof.
  unfold cres_of. cbn [both]. destruct (resolve_kind_u c k); try reflexivity.
  destruct (collect_fields _) as [[[ty un] fl] pn]. reflexivity.
Qed.

Lemma collect_nil c def k : collect_fields (map (fun nv : string * dval => (fst nv, bind_field c def k (fst nv) (snd nv))) []) = ([], [], [], None).
Proof. reflexivity. Qed.

Lemma length_zero_nil {A} (l : list A) : List.length l = 0 -> l = [].
Proof. destruct l; [reflexivity|discriminate]. Qed.

(* restoring the causes of a node, given that each child restores to its shape *)
Lemma cres_shapes c (ds : list (option dd)) (shapes : list nshape) :
  Forall2 (fun od s => exists d, od = Some d /\ exists rc, snd (both c d) = UOk rc /\ cshape rc = s) ds shapes ->
  exists rcs, cres_of c ds = UOk rcs /\ map cshape rcs = shapes.
Proof.
  unfold cres_of. induction 1 as [|od s ds shapes [d [-> [rc [E S]]]] _ IH]; cbn.
  - exists []. split; reflexivity.
  - destruct IH as [rcs [E2 S2]]. rewrite E. cbn in E2 |- *. rewrite E2. exists (rc :: rcs). split; [reflexivity|]. cbn. now rewrite S, S2.
Qed.

Lemma map_eq_forall2 {A B C} (f : A -> C) (g : B -> C) la lb : map f la = map g lb -> Forall2 (fun a b => f a = g b) la lb.
Proof.
  revert lb. induction la as [|a r IH]; intros [|b lb] H; cbn in H; try discriminate; constructor.
  - now inversion H.
  - apply IH. now inversion H.
Qed.

(* Unmarshal of a decoded node whose shape is that of a tree of the domain restores that
   shape - as an error (errdef root) and as a cause (any root) *)
Theorem unmarshal_shape c : foreign_fails c ->
  forall t, mdom t -> udom c t -> forall d, ddshape d = tshape t ->
  (exists rc, snd (both c d) = UOk rc /\ cshape rc = tshape t) /\
  (is_errdef_error (t_err t) = true -> exists r, fst (both c d) = UOk r /\ rshape r = tshape t).
Proof.
  intros [Hff Hsent]. induction t as [e kids IH] using tree_ind'. intros Hm Hu d Hd.
  pose proof (mdom_kids e kids Hm) as Hmk. pose proof (udom_kids c e kids Hu) as Huk.
  destruct Hm as [Hmsg [Hme _]]. destruct Hu as [Hue _].
  destruct d as [m k ty fs st cs u]. rewrite ddshape_unfold in Hd. cbn [tshape t_err] in *.
  (* the causes *)
  assert (Hc : forall shapes : list nat, map (fun o => match o with Some x => ddshape x | None => NS "" "" "" [] 0 [] end) cs = map tshape kids ->
               exists rcs, cres_of c cs = UOk rcs /\ map cshape rcs = map tshape kids).
  { intros _ Hmap. apply (cres_shapes c cs (map tshape kids)).
    apply map_eq_forall2 in Hmap.
    clear - IH Hmk Huk Hmap. revert cs Hmap. induction kids as [|kid r IHr]; intros cs Hmap; inversion Hmap; subst; cbn; constructor.
    - inversion IH; subst. inversion Hmk; subst. inversion Huk; subst.
      destruct x as [dx|].
      + exists dx. split; [reflexivity|]. destruct (H1 H5 H7 dx H2) as [A _]. exact A.
      + (* a nil cause has the empty shape, a tree node of the domain has a non-empty message *)
        exfalso. destruct kid as [ke kk]. destruct H5 as [Hne _]. cbn in H2.
        destruct (is_errdef_error ke); inversion H2; congruence.
    - inversion IH; subst. inversion Hmk; subst. inversion Huk; subst. now apply IHr. }
  rewrite both_unfold9. cbv zeta.
  destruct (is_errdef_error e) eqn:Ee.
  - (* an errdef node: its kind is registered, it has no fields *)
    injection Hd as E1 E2 E3 E4 E5 E6. destruct (Hme eq_refl) as [_ Hf]. rewrite Hf in E5. cbn in E5.
    apply length_zero_nil in E5. subst fs m k ty st.
    destruct (resolve_kind_def (u_defs c) (e_kind e)) as [ud|] eqn:Er; [|contradiction].
    destruct (resolve_registered c _ ud Er) as [Rk Kk]. rewrite Rk. cbn [map collect_fields]. unfold proj_panic, proj_fails, proj_typed, proj_unknown. cbn [fst snd].
    destruct (Hc [] E6) as [rcs [Ec Sc]]. rewrite Ec. rewrite Hf.
    split.
    + eexists. split; [reflexivity|]. cbn [cshape]. rewrite rshape_unfold, Kk, Sc. reflexivity.
    + intros _. eexists. split; [reflexivity|]. rewrite rshape_unfold, Kk, Sc. reflexivity.
  - (* a foreign node: kind "" is not registered, so it becomes an unknown cause *)
    injection Hd as E1 E2 E3 E4 E5 E6. subst m k ty st. rewrite Hff. cbn [has_internal existsb fl_class].
    replace (str_eqb cls_kind cls_internal || false) with false by reflexivity.
    destruct Hue as [Hty Hnd].
    destruct (str_eqb (err_msg e) "") eqn:Q1; [apply str_eqb_eq in Q1; contradiction|].
    destruct (str_eqb (type_name e) "") eqn:Q2; [apply str_eqb_eq in Q2; contradiction|].
    destruct (str_eqb (type_name e) definition_type_name) eqn:Q3; [apply str_eqb_eq in Q3; contradiction|].
    destruct (Hc [] E6) as [rcs [Ec Sc]]. rewrite Ec.
    split; [|discriminate].
    destruct rcs as [|rc1 rcs'].
    + unfold lookup_sentinel. rewrite Hsent. cbn. eexists. split; [reflexivity|]. rewrite cshape_unknown. cbn. now rewrite <- Sc.
    + eexists. split; [reflexivity|]. rewrite cshape_unknown. now rewrite Sc.
Qed.

Lemma t_err_tree_of e : t_err (tree_of e) = e.
Proof. destruct e; reflexivity. Qed.

(* The round trip restores the structure: for every errdef error whose tree lies in the
   domain (any shape and depth; field-less errdef nodes with registered kinds; foreign nodes
   with non-empty messages and type names), Marshal succeeds, Unmarshal of the decoded
   document succeeds, and the restored error has the same message, kind, frames and cause
   tree (messages, kinds, type names, frames of every node, in order). *)
Theorem roundtrip_structure c tbl unks e :
  foreign_fails c -> is_errdef_error e = true -> mdom (tree_of e) -> udom c (tree_of e) ->
  exists doc r, marshal_error e = Ok doc /\
                unmarshal c (fst (decode tbl doc unks)) = UOk r /\
                rshape r = tshape (tree_of e).
Proof.
  intros Hf He Hm Hu. destruct (marshal_decode_shape (tree_of e) Hm) as [doc [Em Hd]].
  destruct (Hd tbl unks) as [Hs _].
  destruct (unmarshal_shape c Hf (tree_of e) Hm Hu _ Hs) as [_ B].
  rewrite t_err_tree_of in B. destruct (B He) as [r [Er Sr]].
  exists doc, r. repeat split; assumption.
Qed.
