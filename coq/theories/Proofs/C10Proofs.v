From Errdef Require Import Base.Str Base.Outcome Model.Core Model.Convert Model.Unmarshal Check.UM Check.C10.

(* ---------- induction over decoded trees ---------- *)
Section dd_induction.
  Variable P : dd -> Prop.
  Hypothesis H : forall m k t fs st cs u,
    (forall d, In (Some d) cs -> P d) -> P (DD m k t fs st cs u).
  Fixpoint dd_ind' (d : dd) : P d :=
    match d with
    | DD m k t fs st cs u =>
        H m k t fs st cs u
          ((fix go (l : list (option dd)) : forall d, In (Some d) l -> P d :=
              match l with
              | [] => fun d (i : In (Some d) []) => match i with end
              | o :: r => fun d (i : In (Some d) (o :: r)) =>
                  match i with
                  | or_introl e =>
                      match o as o' return (o' = Some d -> P d) with
                      | Some x => fun e' => match e' in (_ = y) return (match y with Some z => P z | None => True end) with eq_refl => dd_ind' x end
                      | None => fun e' => match e' in (_ = y) return (match y with Some z => P z | None => True end) with eq_refl => I end
                      end e
                  | or_intror i' => go r d i'
                  end
              end) cs)
    end.
End dd_induction.

(* ---------- binding never panics, failures are classified ---------- *)
Lemma try_convert_no_panic T v : is_panic (try_convert T v) = false.
Proof.
  unfold try_convert, opt_bscalar, is_f64_val, is_i64_val.
  destruct T as [t|id e|id|id|id kd [[eid ekd]|]|id]; destruct v as [|t0 sv|id0 tbl|bs|id0 kd0 conv0]; cbn;
    try destruct sv; cbn;
    repeat match goal with
    | |- context [if ?b then _ else _] => destruct b; cbn
    | |- context [find ?f ?l] => destruct (find f l) as [[? [?|]]|]; cbn
    | |- context [conv_f64 ?k ?b] => destruct (conv_f64 k b); cbn
    | |- context [conv_i64 ?k ?b] => destruct (conv_i64 k b); cbn
    end; reflexivity.
Qed.

Lemma first_convert_no_panic ks v : is_panic (first_convert ks v) = false.
Proof.
  induction ks as [|k r IH]; cbn; [reflexivity|].
  pose proof (try_convert_no_panic (uk_ty k) v) as H.
  destruct (try_convert (uk_ty k) v) as [[b|]|c|w]; cbn in *; try reflexivity; [exact IH|discriminate].
Qed.

Definition class3 (s : string) : Prop := s = cls_kind \/ s = cls_field \/ s = cls_internal.

Definition fres_good (r : fres) : Prop :=
  match r with FPanic _ => False | FFail f => class3 (fl_class f) | _ => True end.

Lemma bind_field_good c d kind n v : fres_good (bind_field c d kind n v).
Proof.
  unfold bind_field. destruct (is_placeholder v); [exact I|].
  pose proof (first_convert_no_panic (named n (ud_keys d)) v) as H1.
  destruct (first_convert (named n (ud_keys d)) v) as [[[k b]|]|cl|w]; cbn in *; try exact I; try discriminate.
  - pose proof (first_convert_no_panic (named n (u_custom c)) v) as H2.
    destruct (first_convert (named n (u_custom c)) v) as [[[k b]|]|cl|w]; cbn in *; try exact I; try discriminate.
    + destruct (u_strict c); cbn; [right; left; reflexivity|exact I].
    + right. right. reflexivity.
  - right. right. reflexivity.
Qed.

Definition ures_good {A} (r : ures A) : Prop :=
  match r with
  | UPanic _ => False
  | UFail fs => fs <> [] /\ Forall (fun f => class3 (fl_class f)) fs
  | UOk _ => True
  end.

Lemma collect_good rs :
  Forall (fun nr => fres_good (snd nr)) rs ->
  let '(ty, un, fl, pn) := collect_fields rs in pn = None /\ Forall (fun f => class3 (fl_class f)) fl.
Proof.
  induction rs as [|[n r] rest IH]; intros H; cbn; [split; [reflexivity|constructor]|].
  inversion H; subst. specialize (IH H3). destruct (collect_fields rest) as [[[ty un] fl] pn].
  destruct IH as [-> F]. destruct r; cbn in *; try (split; [reflexivity|assumption]).
  - split; [reflexivity|]. now constructor.
  - contradiction.
Qed.

Lemma seq_causes_good rs : Forall ures_good rs -> ures_good (seq_causes rs).
Proof.
  induction rs as [|r rest IH]; intros H; cbn; [exact I|]. inversion H; subst. specialize (IH H3).
  destruct r; cbn in *; try assumption; try contradiction.
  destruct (seq_causes rest); cbn in *; assumption.
Qed.

Lemma resolve_kind_good c k : ures_good (resolve_kind_u c k).
Proof.
  unfold resolve_kind_u.
  destruct (u_default c); [destruct (u_strict c)|]; try destruct (resolve_kind_def (u_defs c) k); cbn; try exact I;
    (split; [discriminate|constructor; [left; reflexivity|constructor]]).
Qed.

Theorem both_good c : forall d, ures_good (fst (both c d)) /\ ures_good (snd (both c d)).
Proof.
  induction d as [m k t fs st cs u IH] using dd_ind'.
  cbn [both].
  set (cres := seq_causes _).
  assert (Hc : ures_good cres).
  { unfold cres. apply seq_causes_good. clear cres. induction cs as [|o r IHr]; [constructor|].
    destruct o as [x|]; constructor.
    - apply (IH x). now left.
    - apply IHr. intros d Hd. apply IH. now right.
    - cbn. split; [discriminate|constructor; [right; right; reflexivity|constructor]].
    - apply IHr. intros d Hd. apply IH. now right. }
  set (ae := match resolve_kind_u c k with UOk _ => _ | UFail f => _ | UPanic w => _ end).
  assert (Ha : ures_good ae).
  { unfold ae. pose proof (resolve_kind_good c k) as Hr.
    destruct (resolve_kind_u c k) as [def|f|w]; cbn in *; try assumption.
    pose proof (collect_good (map (fun nv => (fst nv, bind_field c def k (fst nv) (snd nv))) (sort_fields fs))) as Hcol.
    destruct (collect_fields _) as [[[ty un] fl] pn].
    destruct Hcol as [-> F].
    { apply Forall_forall. intros [n r] Hin. apply in_map_iff in Hin as [nv [E _]]. inversion E; subst. apply bind_field_good. }
    destruct fl as [|f0 fl']; cbn.
    - destruct cres; cbn in *; assumption.
    - split; [discriminate|]. inversion F; subst. constructor; [assumption|constructor]. }
  cbn [fst snd]. split; [exact Ha|].
  destruct ae as [e|f|w]; cbn in *; try exact I; try contradiction.
  destruct (has_internal f); [cbn; split; [discriminate|constructor; [right; right; reflexivity|constructor]]|].
  destruct cres as [[|c1 r1]|f'|w']; cbn in *; try assumption; try exact I.
  destruct (if str_eqb (if str_eqb t "" then "<unknown>" else t) definition_type_name then _ else None); [exact I|].
  destruct (lookup_sentinel c _ _); exact I.
Qed.

(* Unmarshal never panics and every failure is one of the classes *)
Theorem unmarshal_total c od : ures_good (unmarshal_top c od).
Proof.
  destruct od as [d|]; cbn.
  - apply both_good.
  - split; [discriminate|constructor; [right; right; reflexivity|constructor]].
Qed.

(* ---------- link to the check ---------- *)
Lemma class3_facts s : class3 s ->
  existsb (str_eqb s) classes = true /\ count_true (map (str_eqb s) classes) = 1 /\ str_eqb s cls_decode = false
  /\ str_eqb s "ok" = false.
Proof. intros [ -> | [ -> | -> ] ]; vm_compute; repeat split; reflexivity. Qed.

Theorem corr_implies_ok c : UM.corr c = true -> ok c = true.
Proof.
  unfold UM.corr, ok. set (o := c_obs c). intros H.
  apply andb_true_iff in H as [H Hm]. apply andb_true_iff in H as [Hu Hi]. apply andb_true_iff in Hu as [Hu _]. rewrite Hu. cbn [andb].
  apply (proj1 (list_eqb_eq Bool.eqb (fun a b => conj (fun E => proj1 (Bool.eqb_true_iff a b) E) (fun E => proj2 (Bool.eqb_true_iff a b) E)) _ _)) in Hi.
  unfold model_res in Hm. destruct (c_decerr c) eqn:De.
  - (* the decoder failed *)
    apply andb_true_iff in Hm as [Hm Hr]. cbn [existsb] in Hm. rewrite orb_false_r in Hm.
    unfold failure_matches in Hm. apply andb_true_iff in Hm as [Hm _]. apply andb_true_iff in Hm as [Hm _].
    apply str_eqb_eq in Hm. cbn [fl_class] in Hm. rewrite Hi, Hm. destruct (uo_res o); [discriminate|]. vm_compute. reflexivity.
  - pose proof (unmarshal_total (c_cfg c) (c_in c)) as G.
    destruct (unmarshal_top (c_cfg c) (c_in c)) as [e|fs|w]; cbn in G; [| |contradiction].
    + apply andb_true_iff in Hm as [Hc Hr]. apply str_eqb_eq in Hc. rewrite Hi, Hc.
      destruct (uo_res o); [|discriminate]. vm_compute. reflexivity.
    + apply andb_true_iff in Hm as [Hm Hr]. destruct G as [_ G]. rewrite Forall_forall in G.
      apply existsb_exists in Hm as [f [Hin Hf]]. unfold failure_matches in Hf.
      apply andb_true_iff in Hf as [Hf _]. apply andb_true_iff in Hf as [Hf _]. apply str_eqb_eq in Hf.
      destruct (class3_facts _ (G f Hin)) as [A [B [C D]]]. rewrite <- Hf in A, B, C, D.
      rewrite D, A, Hi, B, C. destruct (uo_res o); [discriminate|].
      cbn. rewrite !Bool.eqb_reflx. reflexivity.
Qed.
