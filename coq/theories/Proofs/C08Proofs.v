From Errdef Require Import Base.Str Base.Outcome Model.Core Model.GoErrors Model.Prog Model.Tree0 Model.Json Check.Render Check.C08 Proofs.C20Proofs.

(* ---------- induction over cause trees ---------- *)
Section tree_induction.
  Variable P : tree -> Prop.
  Hypothesis H : forall e kids, Forall P kids -> P (T e kids).
  Fixpoint tree_ind' (t : tree) : P t :=
    match t with
    | T e kids => H e kids ((fix go (l : list tree) : Forall P l :=
                              match l with [] => Forall_nil P | k :: r => Forall_cons k (tree_ind' k) (go r) end) kids)
    end.
End tree_induction.

(* ---------- the map built in iteration order = "later value wins" ---------- *)




Definition names_of (m : list (string * fval)) := map fst m.

Lemma map_set_names n v m :
  names_of (map_set n v m) = if existsb (str_eqb n) (names_of m) then names_of m else names_of m ++ [n].
Proof.
  induction m as [|[n' v'] r IH]; cbn; [reflexivity|].
  destruct (str_eqb n' n) eqn:E.
  - apply str_eqb_eq in E. subst. cbn. now rewrite str_eqb_refl.
  - unfold names_of in *. cbn. rewrite IH. unfold str_eqb in *. rewrite (String.eqb_sym n n'), E. cbn.
    destruct (existsb (String.eqb n) (map fst r)); reflexivity.
Qed.

Fixpoint assoc (n : string) (m : list (string * fval)) : option fval :=
  match m with [] => None | (n', v) :: r => if str_eqb n' n then Some v else assoc n r end.

Lemma map_set_assoc n v m n' :
  assoc n' (map_set n v m) = if str_eqb n n' then Some v else assoc n' m.
Proof.
  induction m as [|[k w] r IH]; cbn.
  - reflexivity.
  - destruct (str_eqb k n) eqn:E; cbn.
    + apply str_eqb_eq in E. subst k. destruct (str_eqb n n'); reflexivity.
    + rewrite IH. destruct (str_eqb k n') eqn:F; [|reflexivity].
      apply str_eqb_eq in F. subst k. unfold str_eqb in *. rewrite String.eqb_sym in E. now rewrite E.
Qed.

Lemma last_named_app n all x : last_named n (all ++ [x]) = if str_eqb (fst x) n then Some (snd x) else last_named n all.
Proof.
  induction all as [|[n' v] r IH]; cbn.
  - destruct x as [xn xv]. cbn. reflexivity.
  - rewrite IH. destruct (str_eqb (fst x) n); [reflexivity|]. reflexivity.
Qed.

(* a map whose names are distinct is determined by its names and its lookup function *)
Lemma map_eq_by_assoc (m : list (string * fval)) :
  NoDup (names_of m) -> m = map (fun n => (n, match assoc n m with Some v => v | None => dummy_fval end)) (names_of m).
Proof.
  induction m as [|[n v] r IH]; cbn; intros N; [reflexivity|]. inversion N; subst.
  rewrite str_eqb_refl. f_equal. rewrite (IH H2) at 1. apply map_ext_in. intros k Hk.
  destruct (str_eqb n k) eqn:E; [|reflexivity]. apply str_eqb_eq in E. subst. contradiction.
Qed.

Lemma build_map_spec all :
  names_of (build_map all) = first_names all /\ NoDup (names_of (build_map all)) /\
  forall n, assoc n (build_map all) = last_named n all.
Proof.
  unfold build_map, first_names. induction all as [|x r IH] using rev_ind; cbn.
  - repeat split; constructor.
  - rewrite !fold_left_app. cbn. destruct IH as [A [B C]]. repeat split.
    + rewrite map_set_names, A. reflexivity.
    + rewrite map_set_names. destruct (existsb (str_eqb (fst x)) _) eqn:E; [exact B|].
      apply NoDup_app_single; [exact B|]. intros Hin.
      assert (existsb (str_eqb (fst x)) (names_of (fold_left (fun m nv => map_set (fst nv) (snd nv) m) r [])) = true).
      { apply existsb_exists. exists (fst x). split; [exact Hin|apply str_eqb_refl]. }
      congruence.
    + intros n. rewrite map_set_assoc, last_named_app, C. reflexivity.
Qed.

Lemma build_map_is_name_map all : build_map all = name_map all.
Proof.
  destruct (build_map_spec all) as [A [B C]]. rewrite (map_eq_by_assoc _ B), A. unfold name_map.
  apply map_ext. intros n. now rewrite C.
Qed.

Lemma fields_json_spec all :
  out_doc (fields_json all) = option_map JObj (spec_fields all).
Proof.
  unfold fields_json, spec_fields. rewrite build_map_is_name_map.
  destruct (forallb _ (sort_names (name_map all))); reflexivity.
Qed.

(* ---------- the document mirrors the accessor view ---------- *)
Lemma seq_out_spec (kids : list tree) :
  Forall (fun k => out_doc (marshal_tree k) = spec_doc k) kids ->
  out_doc (match seq_out (map marshal_tree kids) with Ok l => Ok (JArr l) | Fail c => Fail c | Panic w => Panic w end)
  = option_map JArr ((fix go (l : list tree) : option (list json) :=
                        match l with
                        | [] => Some []
                        | k :: r => match spec_doc k, go r with Some j, Some js => Some (j :: js) | _, _ => None end
                        end) kids).
Proof.
  induction kids as [|k r IH]; intros H; [reflexivity|]. inversion H; subst. specialize (IH H3). cbn [map seq_out].
  rewrite <- H2. destruct (marshal_tree k) as [j|c|w]; cbn; try reflexivity.
  - destruct (seq_out (map marshal_tree r)) as [js|c|w]; cbn in *;
      destruct ((fix go (l : list tree) : option (list json) := _) r); cbn in *; try reflexivity; try discriminate.
    inversion IH. reflexivity.
Qed.

Theorem mirror : forall t, out_doc (marshal_tree t) = spec_doc t.
Proof.
  induction t as [e kids IH] using tree_ind'. cbn [marshal_tree spec_doc].
  pose proof (seq_out_spec kids IH) as Hc.
  set (sc := (fix go (l : list tree) : option (list json) := _) kids) in *.
  destruct (is_errdef_error e).
  - destruct (match e_def e with Some d => d_json d | None => None end); [reflexivity|].
    destruct (e_fields_all e) as [|x all'] eqn:Ea.
    + destruct (seq_out (map marshal_tree kids)) as [cs|c|w]; destruct sc as [cj|]; cbn in Hc; try discriminate; try reflexivity.
      inversion Hc; subst. reflexivity.
    + pose proof (fields_json_spec (x :: all')) as Hf.
      destruct (fields_json (x :: all')) as [fj|c|w]; destruct (spec_fields (x :: all')) as [fl|]; cbn in Hf; try discriminate.
      * inversion Hf; subst.
        destruct (seq_out (map marshal_tree kids)) as [cs|c|w]; destruct sc as [cj|]; cbn in Hc; try discriminate; try reflexivity.
        inversion Hc; subst. reflexivity.
      * destruct (seq_out (map marshal_tree kids)); reflexivity.
      * destruct (seq_out (map marshal_tree kids)); reflexivity.
  - destruct (seq_out (map marshal_tree kids)) as [cs|c|w]; destruct sc as [cj|]; cbn in Hc; try discriminate; try reflexivity.
    inversion Hc; subst. reflexivity.
Qed.

Theorem corr_implies_ok_doc s given o : corr1 s given o = true -> o_same3 o = true -> ok1 s given o = true.
Proof.
  unfold corr1, ok1. intros H ->. destruct (subject_err s given (o_subject o)) as [e|]; [|discriminate].
  unfold marshal_error in H. now rewrite <- mirror.
Qed.

(* empty kind, fields, stack and causes are omitted *)
Theorem omits_empty e :
  is_errdef_error e = true -> (match e_def e with Some d => d_json d | None => None end) = None ->
  e_kind e = "" -> e_fields_all e = [] -> e_stack e = [] -> unwrap_tree e = [] ->
  marshal_error e = Ok (JObj [("message", JStr (err_msg e))]).
Proof.
  unfold marshal_error, unwrap_tree. intros He Hj Hk Hf Hs Hc. destruct (tree_of e) as [e' kids] eqn:T.
  assert (e' = e) by (destruct e; cbn in T; inversion T; reflexivity). subst e'. cbn in Hc. subst kids.
  cbn [marshal_tree map seq_out]. rewrite He, Hj, Hk, Hf, Hs. reflexivity.
Qed.

(* a JSONMarshaler option replaces the document at errors of that definition *)
Theorem custom_marshaler_local e id kids :
  is_errdef_error e = true -> (match e_def e with Some d => d_json d | None => None end) = Some id ->
  marshal_tree (T e kids) = Ok (custom_json id (err_msg e)).
Proof. intros He Hj. cbn [marshal_tree]. now rewrite He, Hj. Qed.

(* foreign nodes carry message, Go type name (TypeName() for unknown causes), causes *)
Theorem foreign_node_shape e kids cs :
  is_errdef_error e = false -> seq_out (map marshal_tree kids) = Ok cs ->
  marshal_tree (T e kids) = Ok (JObj ([("message", JStr (err_msg e)); ("type", JStr (type_name e))]
                                      ++ (match cs with [] => [] | _ => [("causes", JArr cs)] end))).
Proof. intros He Hc. cbn [marshal_tree]. now rewrite He, Hc. Qed.
