From Coq Require Import String List Bool.
From Errdef Require Import Base.Str Base.Outcome Model.Core Model.Convert Model.Unmarshal Gen.UnmarshalSrc Model.UnmarshalGen.

Lemma g_resolve_kind_u_ref c k : g_resolve_kind_u c k = resolve_kind_u c k.
Proof.
  unfold g_resolve_kind_u, resolve_kind_u. cbn [rk_interp resolve_kind_tree]. unfold strict_lookup.
  destruct (u_default c); [destruct (u_strict c)|]; reflexivity.
Qed.

Lemma unmarshal_source_shape : unmarshal_source_ok = true.
Proof. reflexivity. Qed.
