From Coq Require Import String List Bool.
From Errdef Require Import Base.Str Base.Outcome Model.Core Model.Convert Model.Unmarshal Gen.UnmarshalSrc Model.UnmarshalGen.

Lemma unmarshal_source_shape : unmarshal_source_ok = true.
Proof. reflexivity. Qed.
