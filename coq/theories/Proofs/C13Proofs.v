From Coq Require Import Lia Sorting.Sorted Sorting.Permutation.
From Errdef Require Import Base.Str Base.StrOrd Base.Outcome Model.Core Model.Convert Model.Unmarshal Check.UM Check.C13 Proofs.C10Proofs Proofs.SortFields.

Definition proj_typed (x : list (ukey * bval) * list (string * dval) * list failure * option string) := fst (fst (fst x)).
Definition proj_unknown (x : list (ukey * bval) * list (string * dval) * list failure * option string) := snd (fst (fst x)).
Definition proj_fails (x : list (ukey * bval) * list (string * dval) * list failure * option string) := snd (fst x).
Definition proj_panic (x : list (ukey * bval) * list (string * dval) * list failure * option string) := snd x.

Lemma collect_fails rs f : In f (proj_fails (collect_fields rs)) <-> exists n, In (n, FFail f) rs.
Proof.
  induction rs as [|[n r] rest IH]; cbn.
  - split; [intros []|intros [n []]].
  - destruct (collect_fields rest) as [[[ty un] fl] pn] eqn:E. unfold proj_fails in *. cbn in *.
    destruct r; cbn; rewrite IH; split.
    all: try (intros [n0 H]; exists n0; now right).
    all: try (intros [n0 [H|H]]; [discriminate|now exists n0]).
    + intros [<-|[n0 H]]; [exists n; now left|exists n0; now right].
    + intros [n0 [H|H]]; [left; now inversion H|right; now exists n0].
Qed.

Lemma collect_unknown rs n v : In (n, v) (proj_unknown (collect_fields rs)) <-> In (n, FUnknown v) rs.
Proof.
  induction rs as [|[n0 r] rest IH]; cbn; [tauto|].
  destruct (collect_fields rest) as [[[ty un] fl] pn] eqn:E. unfold proj_unknown in *. cbn in *.
  destruct r; cbn; rewrite IH; split; try (intros H; now right); try (intros [H|H]; [discriminate|exact H]).
  - intros [H|H]; [left; now inversion H|now right].
  - intros [H|H]; [left; now inversion H|now right].
Qed.

(* the shape of unmarshal on a node *)
Lemma unmarshal_unfold c m k t fs st cs u : exists cres,
  unmarshal c (DD m k t fs st cs u) =
  match resolve_kind_u c k with
  | UFail f => UFail f
  | UPanic w => UPanic w
  | UOk def =>
      let x := collect_fields (map (fun nv => (fst nv, bind_field c def k (fst nv) (snd nv))) (sort_fields fs)) in
      match proj_panic x, proj_fails x with
      | Some w, _ => UPanic w
      | None, f :: _ => UFail [f]
      | None, [] =>
          match cres with
          | UOk cs' => UOk (RErr def m (proj_typed x) (proj_unknown x) st cs')
          | UFail f => UFail f
          | UPanic w => UPanic w
          end
      end
  end.
Proof.
  eexists. unfold unmarshal. cbn [both fst].
  destruct (resolve_kind_u c k); try reflexivity.
  destruct (collect_fields _) as [[[ty un] fl] pn]. reflexivity.
Qed.

(* ---------- kinds ---------- *)
Theorem lenient_unknown_kind c m k t fs st cs u :
  u_strict c = false -> u_default c = None -> kind_known c k = false ->
  unmarshal c (DD m k t fs st cs u) = UFail [{| fl_class := cls_kind; fl_kind := k; fl_field := "" |}].
Proof.
  intros Hs Hd Hk. destruct (unmarshal_unfold c m k t fs st cs u) as [cres ->].
  unfold resolve_kind_u. rewrite Hd. unfold resolve_kind_def.
  destruct (find _ (u_defs c)) as [d|] eqn:F; [|reflexivity].
  apply find_some in F as [Hin Hm]. unfold kind_known in Hk.
  assert (existsb (fun d => str_eqb (d_kind (ud_def d)) k) (u_defs c) = true) by (apply existsb_exists; eauto). congruence.
Qed.

Theorem lenient_default c k dflt :
  u_strict c = false -> u_default c = Some dflt -> kind_known c k = false ->
  resolve_kind_u c k = UOk dflt.
Proof.
  intros Hs Hd Hk. unfold resolve_kind_u. rewrite Hd, Hs. unfold resolve_kind_def.
  destruct (find _ (u_defs c)) as [d|] eqn:F; [|reflexivity].
  apply find_some in F as [Hin Hm]. unfold kind_known in Hk.
  assert (existsb (fun d => str_eqb (d_kind (ud_def d)) k) (u_defs c) = true) by (apply existsb_exists; eauto). congruence.
Qed.

Theorem strict_unknown_kind c m k t fs st cs u :
  u_strict c = true -> kind_known c k = false ->
  unmarshal c (DD m k t fs st cs u) = UFail [{| fl_class := cls_kind; fl_kind := k; fl_field := "" |}].
Proof.
  intros Hs Hk. destruct (unmarshal_unfold c m k t fs st cs u) as [cres ->].
  assert (N : resolve_kind_def (u_defs c) k = None).
  { unfold resolve_kind_def. destruct (find _ (u_defs c)) as [d|] eqn:F; [|reflexivity].
    apply find_some in F as [Hin Hm]. unfold kind_known in Hk.
    assert (existsb (fun d => str_eqb (d_kind (ud_def d)) k) (u_defs c) = true) by (apply existsb_exists; eauto). congruence. }
  unfold resolve_kind_u. rewrite Hs, N. destruct (u_default c); reflexivity.
Qed.

(* known kind: the first registered definition of that kind, in both modes *)
Theorem known_kind_first c k d :
  find (fun d => str_eqb (d_kind (ud_def d)) k) (u_defs c) = Some d -> resolve_kind_u c k = UOk d.
Proof.
  intros F. unfold resolve_kind_u, resolve_kind_def. rewrite F. destruct (u_default c); [destruct (u_strict c)|]; reflexivity.
Qed.

(* ---------- fields ---------- *)
Lemma named_unregistered n ks : existsb (fun k => str_eqb (k_name (uk_key k)) n) ks = false -> named n ks = [].
Proof.
  unfold named. induction ks as [|k r IH]; cbn; [reflexivity|]. intros H.
  apply orb_false_iff in H as [H1 H2]. rewrite H1. now apply IH.
Qed.

Lemma bind_unregistered c d kind n v :
  registered c d n = false -> is_placeholder v = false ->
  bind_field c d kind n v = if u_strict c then FFail {| fl_class := cls_field; fl_kind := kind; fl_field := n |} else FUnknown v.
Proof.
  intros Hr Hp. unfold registered in Hr. apply orb_false_iff in Hr as [H1 H2].
  unfold bind_field. rewrite Hp, (named_unregistered _ _ H1), (named_unregistered _ _ H2). reflexivity.
Qed.

Lemma bind_no_field_failure_lenient c d kind n v f :
  u_strict c = false -> bind_field c d kind n v = FFail f -> fl_class f = cls_internal.
Proof.
  intros Hs. unfold bind_field. destruct (is_placeholder v); [discriminate|].
  destruct (first_convert (named n (ud_keys d)) v) as [[[k b]|]|cl|w]; try discriminate.
  - destruct (first_convert (named n (u_custom c)) v) as [[[k b]|]|cl|w]; try discriminate.
    + rewrite Hs. discriminate.
    + intros E. inversion E. reflexivity.
  - intros E. inversion E. reflexivity.
Qed.

(* restoring a cause never fails with anything but ErrInternal: unknown kinds and
   unknown fields of a cause make it an unknown cause instead *)
Definition only_internal {A} (r : ures A) : Prop :=
  match r with UFail fs => fs = [internal_failure] | _ => True end.

Lemma seq_only_internal rs : Forall only_internal rs -> only_internal (seq_causes rs).
Proof.
  induction rs as [|r rest IH]; intros H; cbn; [exact I|]. inversion H; subst. specialize (IH H3).
  destruct r; cbn in *; try assumption; try exact I. destruct (seq_causes rest); cbn in *; assumption.
Qed.

Theorem cause_fail_internal c : forall d, only_internal (snd (both c d)).
Proof.
  induction d as [m k t fs st cs u IH] using dd_ind'. cbn [both snd].
  set (cres := seq_causes _).
  assert (Hc : only_internal cres).
  { unfold cres. apply seq_only_internal. clear cres. induction cs as [|o r IHr]; [constructor|].
    destruct o as [x|]; constructor.
    - apply (IH x). now left.
    - apply IHr. intros d Hd. apply IH. now right.
    - reflexivity.
    - apply IHr. intros d Hd. apply IH. now right. }
  match goal with |- only_internal (match ?ae with _ => _ end) => destruct ae as [e|f|w] end; try exact I.
  destruct (has_internal f); [reflexivity|].
  destruct cres as [[|c1 r1]|f'|w']; cbn in *; try assumption; try exact I.
  destruct (if str_eqb (if str_eqb t "" then "<unknown>" else t) definition_type_name then _ else None); [exact I|].
  destruct (lookup_sentinel c _ _); exact I.
Qed.

Lemma cres_only_internal c cs :
  only_internal (seq_causes ((fix go (l : list (option dd)) : list (ures rcause) :=
     match l with [] => [] | None :: r => UFail [internal_failure] :: go r | Some cd :: r => snd (both c cd) :: go r end) cs)).
Proof.
  apply seq_only_internal. induction cs as [|o r IH]; [constructor|].
  destruct o; constructor; try assumption; [apply cause_fail_internal|reflexivity].
Qed.

(* the shape of unmarshal on a node, with what is known of the causes' result *)
Lemma unmarshal_unfold2 c m k t fs st cs u : exists cres, only_internal cres /\
  unmarshal c (DD m k t fs st cs u) =
  match resolve_kind_u c k with
  | UFail f => UFail f
  | UPanic w => UPanic w
  | UOk def =>
      let x := collect_fields (map (fun nv => (fst nv, bind_field c def k (fst nv) (snd nv))) (sort_fields fs)) in
      match proj_panic x, proj_fails x with
      | Some w, _ => UPanic w
      | None, f :: _ => UFail [f]
      | None, [] =>
          match cres with
          | UOk cs' => UOk (RErr def m (proj_typed x) (proj_unknown x) st cs')
          | UFail f => UFail f
          | UPanic w => UPanic w
          end
      end
  end.
Proof.
  eexists. split; [apply (cres_only_internal c cs)|]. unfold unmarshal. cbn [both fst].
  destruct (resolve_kind_u c k); try reflexivity.
  destruct (collect_fields _) as [[[ty un] fl] pn]. reflexivity.
Qed.

(* lenient mode: no failure of the call is an unknown-field failure ... *)
Theorem lenient_fields_never_fail c m k t fs st cs u f :
  u_strict c = false ->
  match unmarshal c (DD m k t fs st cs u) with
  | UFail ffs => In f ffs -> fl_class f <> cls_field
  | _ => True
  end.
Proof.
  intros Hs. destruct (unmarshal_unfold2 c m k t fs st cs u) as [cres [Hc ->]].
  destruct (resolve_kind_u c k) as [def|ff|w] eqn:R; [| |exact I].
  - cbv zeta. destruct (proj_panic _); [exact I|].
    destruct (proj_fails _) as [|f0 fl] eqn:Fl.
    + destruct cres as [cs'|ff|w]; try exact I. cbn in Hc. subst ff. intros [<-|[]]. discriminate.
    + intros [<-|[]]. assert (Hin : In f0 (proj_fails (collect_fields (map (fun nv => (fst nv, bind_field c def k (fst nv) (snd nv))) (sort_fields fs))))) by (rewrite Fl; now left).
      apply collect_fails in Hin as [n Hin].
      apply in_map_iff in Hin as [nv [E _]]. inversion E; subst.
      apply (bind_no_field_failure_lenient c def k (fst nv) (snd nv) f0 Hs) in H1. rewrite H1. discriminate.
  - unfold resolve_kind_u in R. destruct (u_default c); rewrite ?Hs in R;
      destruct (resolve_kind_def (u_defs c) k); inversion R; subst; intros [<-|[]]; discriminate.
Qed.

(* ... and every field that is neither on the resolved definition nor registered stays
   retrievable by name with its decoded value *)
Theorem lenient_unknown_retrievable c m k t fs st cs u def e n v :
  u_strict c = false -> resolve_kind_u c k = UOk def ->
  unmarshal c (DD m k t fs st cs u) = UOk e ->
  In (n, v) fs -> registered c def n = false -> is_placeholder v = false ->
  In (n, v) (r_unknown e) /\ rf_get e (AKName n) <> None /\ In (AKName n) (rf_find_keys e n).
Proof.
  intros Hs R E Hin Hr Hp. destruct (unmarshal_unfold2 c m k t fs st cs u) as [cres [Hc E2]]. rewrite E2, R in E.
  cbv zeta in E. destruct (proj_panic _); [discriminate|]. destruct (proj_fails _); [|discriminate].
  destruct cres as [cs'|ff|w]; try discriminate. inversion E; subst e; clear E. cbn [r_unknown].
  assert (U : In (n, v) (proj_unknown (collect_fields (map (fun nv => (fst nv, bind_field c def k (fst nv) (snd nv))) (sort_fields fs))))).
  { apply collect_unknown. apply in_map_iff. exists (n, v). split; [|now apply sort_fields_in]. cbn.
    rewrite (bind_unregistered c def k n v Hr Hp), Hs. reflexivity. }
  split; [exact U|]. split.
  - unfold rf_get. cbn [r_unknown].
    destruct (find (fun nv => str_eqb (fst nv) n) _) eqn:F; [discriminate|].
    eapply find_none in F; [|exact U]. cbn in F. rewrite str_eqb_refl in F. discriminate.
  - unfold rf_find_keys. cbn [r_unknown]. apply in_or_app. right.
    assert (X : existsb (fun nv : string * dval => str_eqb (fst nv) n) (proj_unknown (collect_fields (map (fun nv => (fst nv, bind_field c def k (fst nv) (snd nv))) (sort_fields fs)))) = true).
    { apply existsb_exists. exists (n, v). split; [exact U|apply str_eqb_refl]. }
    rewrite X. now left.
Qed.

(* the failures collected from a list of field results: the head is the first failing field *)
Lemma proj_fails_cons nr rest :
  proj_fails (collect_fields (nr :: rest)) =
  match snd nr with FFail f => f :: proj_fails (collect_fields rest) | _ => proj_fails (collect_fields rest) end.
Proof.
  destruct nr as [n r]. cbn [collect_fields]. destruct (collect_fields rest) as [[[ty un] fl] pn].
  unfold proj_fails. destruct r; reflexivity.
Qed.

(* in a name-sorted field list the first failure belongs to a field at or before any failing field *)
Lemma first_failure_sorted (g : string * dval -> string * fres) L :
  StronglySorted name_le L -> forall x fx, In x L -> snd (g x) = FFail fx ->
  exists f rest y, proj_fails (collect_fields (map g L)) = f :: rest /\
                   In y L /\ String.leb (fst y) (fst x) = true /\ snd (g y) = FFail f.
Proof.
  induction 1 as [|a L S IH Ha]; intros x fx Hin Hx; [destruct Hin|].
  cbn [map]. rewrite proj_fails_cons. destruct (snd (g a)) eqn:Ga.
  1,2,4: destruct Hin as [<-|Hin]; [congruence|];
         destruct (IH x fx Hin Hx) as [f [rest [y [E [Hy [Hle Hg]]]]]]; exists f, rest, y; repeat split; auto; now right.
  exists f, (proj_fails (collect_fields (map g L))), a. repeat split; [now left| |exact Ga].
  destruct Hin as [<-|Hin]; [apply leb_refl|]. rewrite Forall_forall in Ha. now apply Ha.
Qed.

(* strict mode: a field neither defined on the resolved definition nor registered makes
   the call fail; the failure returned is ErrUnknownField with that name and kind unless
   a field at or before it in name order fails first (as of the fix for F12 the fields are
   visited in name order and the first failure returns) *)
Theorem strict_unknown_field c m k t fs st cs u def n v :
  u_strict c = true -> resolve_kind_u c k = UOk def ->
  In (n, v) fs -> registered c def n = false -> is_placeholder v = false ->
  exists f n' v', unmarshal c (DD m k t fs st cs u) = UFail [f] /\
    In (n', v') fs /\ String.leb n' n = true /\ bind_field c def k n' v' = FFail f.
Proof.
  intros Hs R Hin Hr Hp. destruct (unmarshal_unfold2 c m k t fs st cs u) as [cres [Hc ->]]. rewrite R. cbv zeta.
  set (g := fun nv : string * dval => (fst nv, bind_field c def k (fst nv) (snd nv))).
  assert (G := collect_good (map g (sort_fields fs))).
  destruct (first_failure_sorted g (sort_fields fs) (sort_fields_sorted fs) (n, v)
              {| fl_class := cls_field; fl_kind := k; fl_field := n |})
    as [f [rest [[n' v'] [E [Hy [Hle Hg]]]]]].
  { now apply sort_fields_in. }
  { unfold g. cbn. rewrite (bind_unregistered c def k n v Hr Hp), Hs. reflexivity. }
  destruct (collect_fields (map g (sort_fields fs))) as [[[ty un] fl] pn]. unfold proj_panic, proj_fails in *. cbn [fst snd] in *.
  destruct G as [-> _].
  { apply Forall_forall. intros [n0 r] H0. apply in_map_iff in H0 as [nv [E0 _]]. inversion E0; subst. apply bind_field_good. }
  subst fl. exists f, n', v'. repeat split; [now apply sort_fields_in|exact Hle|exact Hg].
Qed.

(* ... exactly ErrUnknownField with that name and kind when no field of another name fails *)
Corollary strict_unknown_field_alone c m k t fs st cs u def n v :
  u_strict c = true -> resolve_kind_u c k = UOk def ->
  In (n, v) fs -> registered c def n = false -> is_placeholder v = false ->
  (forall n' v' f', In (n', v') fs -> bind_field c def k n' v' = FFail f' -> n' = n) ->
  unmarshal c (DD m k t fs st cs u) = UFail [{| fl_class := cls_field; fl_kind := k; fl_field := n |}].
Proof.
  intros Hs R Hin Hr Hp Hothers.
  destruct (strict_unknown_field c m k t fs st cs u def n v Hs R Hin Hr Hp) as [f [n' [v' [E [Hy [_ Hg]]]]]].
  rewrite E. assert (n' = n) by exact (Hothers n' v' f Hy Hg). subst n'.
  destruct (is_placeholder v') eqn:Hp'.
  - unfold bind_field in Hg. rewrite Hp' in Hg. discriminate.
  - rewrite (bind_unregistered c def k n v' Hr Hp'), Hs in Hg. now inversion Hg.
Qed.

(* strict mode: a successful result has no unknown fields other than redaction placeholders *)
Lemma bind_unknown_strict c d kind n v v' :
  u_strict c = true -> bind_field c d kind n v = FUnknown v' ->
  v' = DS {| s_id := 1; s_kind := KString |} (SStr redacted_str).
Proof.
  intros Hs. unfold bind_field. destruct (is_placeholder v); [intros E; now inversion E|].
  destruct (first_convert (named n (ud_keys d)) v) as [[[k b]|]|cl|w]; try discriminate.
  destruct (first_convert (named n (u_custom c)) v) as [[[k b]|]|cl|w]; try discriminate.
  rewrite Hs. discriminate.
Qed.

Theorem strict_success_only_placeholders c m k t fs st cs u e n v :
  u_strict c = true -> unmarshal c (DD m k t fs st cs u) = UOk e -> In (n, v) (r_unknown e) ->
  v = DS {| s_id := 1; s_kind := KString |} (SStr redacted_str).
Proof.
  intros Hs E Hin. destruct (unmarshal_unfold2 c m k t fs st cs u) as [cres [Hc E2]]. rewrite E2 in E.
  destruct (resolve_kind_u c k) as [def|ff|w]; try discriminate. cbv zeta in E.
  destruct (proj_panic _); [discriminate|]. destruct (proj_fails _); [|discriminate].
  destruct cres as [cs'|ff|w]; try discriminate. inversion E; subst e; clear E. cbn [r_unknown] in Hin.
  apply collect_unknown in Hin. apply in_map_iff in Hin as [nv [E _]]. inversion E; subst.
  symmetry in H1. eapply bind_unknown_strict; eauto.
Qed.

(* ---------- the observation follows the model: link to the decision table ---------- *)
Lemma list_eqb_forall2 {A} (f : A -> A -> bool) l1 l2 : list_eqb f l1 l2 = true -> Forall2 (fun a b => f a b = true) l1 l2.
Proof.
  revert l2. induction l1 as [|x r IH]; intros [|y r2] H; cbn in H; try discriminate; constructor.
  - now apply andb_true_iff in H as [H _].
  - apply IH. now apply andb_true_iff in H as [_ H].
Qed.

Lemma forall2_in_r {A B} (R : A -> B -> Prop) l1 l2 y : Forall2 R l1 l2 -> In y l2 -> exists x, In x l1 /\ R x y.
Proof.
  induction 1 as [|a b r1 r2 Hab _ IH]; intros Hin; [destruct Hin|]. destruct Hin as [<-|Hin].
  - exists a. split; [now left|exact Hab].
  - destruct (IH Hin) as [x [Hx Hr]]. exists x. split; [now right|exact Hr].
Qed.
Lemma forall2_in_l {A B} (R : A -> B -> Prop) l1 l2 x : Forall2 R l1 l2 -> In x l1 -> exists y, In y l2 /\ R x y.
Proof.
  induction 1 as [|a b r1 r2 Hab _ IH]; intros Hin; [destruct Hin|]. destruct Hin as [<-|Hin].
  - exists b. split; [now left|exact Hab].
  - destruct (IH Hin) as [y [Hy Hr]]. exists y. split; [now right|exact Hr].
Qed.

Lemma ins_S_perm {A} (x : string * A) l : Permutation (ins_S x l) (x :: l).
Proof.
  induction l as [|y r IH]; cbn; [apply Permutation_refl|]. destruct (String.leb _ _); [apply Permutation_refl|].
  eapply Permutation_trans; [apply perm_skip; exact IH|apply perm_swap].
Qed.
Lemma sort_S_in {A} (l : list (string * A)) x : In x (fold_right ins_S [] l) <-> In x l.
Proof.
  assert (P : Permutation (fold_right ins_S [] l) l).
  { induction l as [|y r IH]; cbn; [constructor|]. eapply Permutation_trans; [apply ins_S_perm|now apply perm_skip]. }
  split; apply Permutation_in; [exact P|now apply Permutation_sym].
Qed.

Lemma resolve_expected c k def : resolve_kind_u c k = UOk def -> expected_def c k = Some def.
Proof.
  unfold resolve_kind_u, expected_def, resolve_kind_def.
  destruct (u_default c) as [dflt|]; [destruct (u_strict c)|];
    destruct (find (fun d => str_eqb (d_kind (ud_def d)) k) (u_defs c)); intros H; inversion H; try reflexivity.
Qed.

Lemma kind_known_find c k : kind_known c k = match find (fun d => str_eqb (d_kind (ud_def d)) k) (u_defs c) with Some _ => true | None => false end.
Proof.
  unfold kind_known. induction (u_defs c) as [|d r IH]; cbn; [reflexivity|]. destruct (str_eqb (d_kind (ud_def d)) k); cbn; [reflexivity|exact IH].
Qed.

Lemma resolve_fail c k f : resolve_kind_u c k = UFail f ->
  kind_known c k = false /\ f = [{| fl_class := cls_kind; fl_kind := k; fl_field := "" |}].
Proof.
  rewrite kind_known_find. unfold resolve_kind_u, resolve_kind_def.
  destruct (u_default c) as [dflt|]; [destruct (u_strict c)|];
    destruct (find (fun d => str_eqb (d_kind (ud_def d)) k) (u_defs c)); intros H; inversion H; split; reflexivity.
Qed.

Lemma resolve_strict_known c k def : u_strict c = true -> resolve_kind_u c k = UOk def -> kind_known c k = true.
Proof.
  rewrite kind_known_find. unfold resolve_kind_u, resolve_kind_def. intros Hs. rewrite Hs.
  destruct (u_default c) as [dflt|]; destruct (find (fun d => str_eqb (d_kind (ud_def d)) k) (u_defs c)); intros H; inversion H; reflexivity.
Qed.

Lemma resolve_lenient_unknown c k def : u_strict c = false -> kind_known c k = false -> resolve_kind_u c k = UOk def ->
  u_default c = Some def.
Proof.
  rewrite kind_known_find. unfold resolve_kind_u, resolve_kind_def. intros Hs Hk. rewrite Hs.
  destruct (u_default c) as [dflt|]; destruct (find (fun d => str_eqb (d_kind (ud_def d)) k) (u_defs c)); try discriminate; intros H; inversion H; reflexivity.
Qed.

(* a top-level failure of class unknown_field names a field of the document and its kind *)
Lemma field_failure_names c m k t fs st cs u f :
  unmarshal c (DD m k t fs st cs u) = UFail [f] -> fl_class f = cls_field ->
  fl_kind f = k /\ In (fl_field f) (map fst fs).
Proof.
  intros E Hc. destruct (unmarshal_unfold2 c m k t fs st cs u) as [cres [Hcres E2]]. rewrite E2 in E.
  destruct (resolve_kind_u c k) as [def|ff|w] eqn:R; [| |discriminate].
  - cbv zeta in E. destruct (proj_panic _); [discriminate|].
    destruct (proj_fails _) as [|f0 fl] eqn:Fl.
    + destruct cres as [cs'|ff|w]; try discriminate. cbn in Hcres. subst ff. inversion E; subst f. discriminate.
    + inversion E; subst f0.
      assert (Hin : In f (proj_fails (collect_fields (map (fun nv => (fst nv, bind_field c def k (fst nv) (snd nv))) (sort_fields fs))))) by (rewrite Fl; now left).
      apply collect_fails in Hin as [n Hin]. apply in_map_iff in Hin as [[n0 v0] [Q Hin]]. cbn in Q. inversion Q; subst n0.
      apply (proj1 (sort_fields_in _ _)) in Hin.
      unfold bind_field in H1. destruct (is_placeholder v0); [discriminate|].
      destruct (first_convert (named n (ud_keys def)) v0) as [[[k0 b0]|]|cl|w]; try discriminate.
      * destruct (first_convert (named n (u_custom c)) v0) as [[[k0 b0]|]|cl|w]; try discriminate.
        -- destruct (u_strict c); [|discriminate]. inversion H1; subst f. cbn. split; [reflexivity|].
           apply in_map_iff. now exists (n, v0).
        -- inversion H1; subst f. discriminate.
      * inversion H1; subst f. discriminate.
  - apply resolve_fail in R as [_ ->]. inversion E; subst f. discriminate.
Qed.

Lemma oval_eqb_placeholder ov : oval_eqb ov (OVS 1 (SStr redacted_str)) = true -> is_placeholder_oval ov = true.
Proof.
  destruct ov as [|t v|s|p e v|t r]; cbn; try discriminate. intros H. apply andb_true_iff in H as [Ht Hv].
  apply N.eqb_eq in Ht. subst t. destruct v; cbn in Hv; try discriminate. exact Hv.
Qed.

Theorem corr_implies_ok13 c : UM.corr c = true -> C13.ok c = true.
Proof.
  unfold UM.corr, C13.ok. set (o := c_obs c). intros H.
  assert (Hst : uo_stable_m o = true).
  { apply andb_true_iff in H as [H0 _]. apply andb_true_iff in H0 as [H0 _]. apply andb_true_iff in H0 as [_ H0]. exact H0. }
  rewrite Hst. cbn [andb].
  destruct (c_in c) as [[m k t fs st cs u]|] eqn:Hcin; [|reflexivity].
  destruct (c_decerr c) eqn:De; [reflexivity|].
  apply andb_true_iff in H as [_ Hm]. unfold model_res in Hm. rewrite De, Hcin in Hm. cbn [unmarshal_top] in Hm.
  pose proof (unmarshal_total (c_cfg c) (Some (DD m k t fs st cs u))) as G. cbn [unmarshal_top] in G.
  destruct (unmarshal (c_cfg c) (DD m k t fs st cs u)) as [e|ffs|w] eqn:E; cbn in G; [| |contradiction].
  - (* success *)
    apply andb_true_iff in Hm as [Hc Hr]. rewrite Hc.
    destruct (uo_res o) as [[d' m' ty' un' al' st' cs']|] eqn:Ro; [|discriminate].
    destruct e as [def m0 typed unknown st0 cs0]. cbn [orerr_of orerr_eqb] in Hr.
    repeat (apply andb_true_iff in Hr as [Hr ?]).
    match goal with Hd : Nat.eqb d' _ = true |- _ => apply Nat.eqb_eq in Hd end.
    match goal with Hu : list_eqb _ un' _ = true |- _ => apply list_eqb_forall2 in Hu; rename Hu into Hun end.
    (* the resolved definition *)
    assert (R : resolve_kind_u (c_cfg c) k = UOk def).
    { destruct (unmarshal_unfold2 (c_cfg c) m k t fs st cs u) as [cres [_ E2]]. rewrite E2 in E.
      destruct (resolve_kind_u (c_cfg c) k) as [def'|ff|w]; try discriminate. cbv zeta in E.
      destruct (proj_panic _); [discriminate|]. destruct (proj_fails _); [|discriminate].
      destruct cres; try discriminate. now inversion E. }
    rewrite (resolve_expected _ _ _ R).
    assert (Str_cls : str_eqb "ok" cls_kind = false) by reflexivity.
    assert (Str_fld : str_eqb "ok" cls_field = false) by reflexivity.
    apply str_eqb_eq in Hc. unfold unknown_of, def_of. rewrite Ro. rewrite Hc. cbn [negb orb andb].
    destruct (u_strict (c_cfg c)) eqn:Hs.
    + rewrite (resolve_strict_known _ _ _ Hs R). cbn [orb andb].
      apply andb_true_iff. split; [apply andb_true_iff; split|].
      * (* no unregistered field: it would have failed *)
        rewrite orb_false_r. apply negb_true_iff. destruct (existsb _ fs) eqn:X; [|reflexivity]. exfalso.
        apply existsb_exists in X as [[n v] [Hin Q]]. cbn in Q. apply andb_true_iff in Q as [Q1 Q2].
        apply negb_true_iff in Q1. apply negb_true_iff in Q2.
        destruct (strict_unknown_field (c_cfg c) m k t fs st cs u def n v Hs R Hin Q1 Q2) as [f [n' [v' [E' _]]]]. congruence.
      * reflexivity.
      * (* only placeholders among the unknown fields *)
        apply forallb_forall. intros [n ov] Hin.
        destruct (forall2_in_l _ _ _ _ Hun Hin) as [[n2 ov2] [Hin2 Q]]. cbn in Q. apply andb_true_iff in Q as [_ Q].
        apply (proj1 (sort_S_in _ _)) in Hin2. apply (proj1 (in_map_iff _ _ _)) in Hin2 as [[n3 v3] [Q3 Hin3]]. inversion Q3; subst n2 ov2.
        assert (Hv : v3 = DS {| s_id := 1; s_kind := KString |} (SStr redacted_str)).
        { eapply (strict_success_only_placeholders (c_cfg c) m k t fs st cs u _ n3 v3 Hs E). exact Hin3. }
        subst v3. cbn [snd oval_of_dval s_id] in Q |- *. now apply oval_eqb_placeholder.
    + (* lenient *)
      apply andb_true_iff. split; [apply andb_true_iff; split|].
      * destruct (kind_known (c_cfg c) k) eqn:Kn; [reflexivity|]. cbn [orb].
        rewrite (resolve_lenient_unknown _ _ _ Hs Kn R). cbn. match goal with Hd : d' = _ |- _ => rewrite Hd end. apply Nat.eqb_refl.
      * reflexivity.
      * apply forallb_forall. intros [n v] Hin. cbn [fst snd].
        destruct (registered (c_cfg c) def n) eqn:Rg; [reflexivity|]. destruct (is_placeholder v) eqn:Pl; [reflexivity|]. cbn [orb].
        destruct (lenient_unknown_retrievable (c_cfg c) m k t fs st cs u def _ n v Hs R E Hin Rg Pl) as [Hu _]. cbn [r_unknown] in Hu.
        assert (Hs2 : In (n, oval_of_dval v) (fold_right ins_S [] (map (fun nv : string * dval => (fst nv, oval_of_dval (snd nv))) unknown))).
        { apply sort_S_in. apply in_map_iff. now exists (n, v). }
        destruct (forall2_in_r _ _ _ _ Hun Hs2) as [[n1 ov1] [Hin1 Q]]. cbn in Q.
        apply existsb_exists. exists (n1, ov1). split; [exact Hin1|exact Q].
  - (* failure *)
    apply andb_true_iff in Hm as [Hm Hr]. destruct (uo_res o) eqn:Ro; [discriminate|].
    apply existsb_exists in Hm as [f [Hinf Hf]]. unfold failure_matches in Hf.
    apply andb_true_iff in Hf as [Hf Hf3]. apply andb_true_iff in Hf as [Hf1 Hf2].
    apply str_eqb_eq in Hf1. apply str_eqb_eq in Hf2. apply str_eqb_eq in Hf3.
    destruct G as [_ G]. rewrite Forall_forall in G. pose proof (G f Hinf) as Cl.
    assert (NotOk : str_eqb (uo_class o) "ok" = false).
    { rewrite Hf1. destruct Cl as [-> |[-> | ->]]; reflexivity. }
    unfold unknown_of, def_of. rewrite Ro, NotOk. cbn [negb orb andb forallb].
    (* the failure list has one element in every branch of the model *)
    assert (One : ffs = [f] \/ exists def, resolve_kind_u (c_cfg c) k = UOk def).
    { destruct (resolve_kind_u (c_cfg c) k) as [def|ff|w] eqn:R; [right; now exists def| |].
      - left. destruct (unmarshal_unfold2 (c_cfg c) m k t fs st cs u) as [cres [_ E2]]. rewrite E2, R in E.
        apply resolve_fail in R as [_ ->]. inversion E; subst ffs. destruct Hinf as [<-|[]]. reflexivity.
      - exfalso. destruct (unmarshal_unfold2 (c_cfg c) m k t fs st cs u) as [cres [_ E2]]. rewrite E2, R in E. discriminate. }
    destruct (resolve_kind_u (c_cfg c) k) as [def|ff|w] eqn:R.
    + (* kind resolved: the failure comes from the fields or the causes *)
      rewrite (resolve_expected _ _ _ R).
      assert (Single : ffs = [f]).
      { destruct (unmarshal_unfold2 (c_cfg c) m k t fs st cs u) as [cres [Hcres E2]]. rewrite E2, R in E. cbv zeta in E.
        destruct (proj_panic _); [discriminate|]. destruct (proj_fails _) as [|f0 fl].
        - destruct cres as [cs'|ff|w]; try discriminate. cbn in Hcres. subst ff. inversion E; subst ffs. destruct Hinf as [<-|[]]. reflexivity.
        - inversion E; subst ffs. destruct Hinf as [<-|[]]. reflexivity. }
      subst ffs.
      assert (FieldCase : str_eqb (uo_class o) cls_field = true ->
                          existsb (fun nv : string * dval => str_eqb (fst nv) (uo_field o)) fs && str_eqb (uo_kind o) k = true).
      { intros Hcf. apply str_eqb_eq in Hcf. rewrite Hf1 in Hcf.
        destruct (field_failure_names (c_cfg c) m k t fs st cs u f E Hcf) as [A B].
        rewrite Hf2, Hf3, A, str_eqb_refl, andb_true_r. apply existsb_exists.
        apply in_map_iff in B as [[n v] [Q Hin]]. exists (n, v). split; [exact Hin|]. cbn in *. rewrite Q. apply str_eqb_refl. }
      destruct (u_strict (c_cfg c)) eqn:Hs.
      * rewrite (resolve_strict_known _ _ _ Hs R). cbn [orb andb]. rewrite !orb_true_r. cbn [andb].
        rewrite andb_true_r. destruct (str_eqb (uo_class o) cls_field) eqn:Cf; [cbn; now apply FieldCase|reflexivity].
      * (* lenient: never an unknown-field failure *)
        pose proof (lenient_fields_never_fail (c_cfg c) m k t fs st cs u f Hs) as L. rewrite E in L. specialize (L (or_introl eq_refl)).
        assert (Nf : str_eqb (uo_class o) cls_field = false).
        { destruct (str_eqb (uo_class o) cls_field) eqn:X; [|reflexivity]. apply str_eqb_eq in X. rewrite Hf1 in X. contradiction. }
        rewrite Nf. cbn [negb andb]. rewrite andb_true_r.
        destruct (kind_known (c_cfg c) k) eqn:Kn; [reflexivity|]. cbn [orb].
        rewrite (resolve_lenient_unknown _ _ _ Hs Kn R). reflexivity.
    + (* unknown kind *)
      assert (Dn : u_strict (c_cfg c) = false -> u_default (c_cfg c) = None).
      { intros Hs. unfold resolve_kind_u in R. rewrite Hs in R. destruct (u_default (c_cfg c)); [discriminate|reflexivity]. }
      destruct (unmarshal_unfold2 (c_cfg c) m k t fs st cs u) as [cres [_ E2]]. rewrite E2, R in E.
      apply resolve_fail in R as [Kn ->]. inversion E; subst ffs. destruct Hinf as [<-|[]]. cbn in Hf1, Hf2.
      rewrite Kn. cbn [orb]. rewrite Hf1, Hf2, !str_eqb_refl. cbn [andb].
      unfold expected_def. rewrite kind_known_find in Kn. destruct (find _ (u_defs (c_cfg c))); [discriminate|].
      destruct (u_strict (c_cfg c)) eqn:Hs; [reflexivity|]. rewrite (Dn eq_refl). reflexivity.
    + exfalso. destruct (unmarshal_unfold2 (c_cfg c) m k t fs st cs u) as [cres [_ E2]]. rewrite E2, R in E. discriminate.
Qed.
